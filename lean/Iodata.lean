import Iodata.Props.C10
