import Iodata.Props.C10
import Iodata.Props.C02
import Iodata.Props.C03
import Iodata.Props.C15
