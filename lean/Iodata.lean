import Iodata.Props.C10
import Iodata.Props.C08
import Iodata.Props.C07
import Iodata.Props.C18
