import Iodata.Props.C10
import Iodata.Props.C06
import Iodata.Props.C06Tables
import Iodata.Props.C04
