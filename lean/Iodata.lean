import Iodata.Props.C10
import Iodata.Props.C11
import Iodata.Props.C12
import Iodata.Props.C14
