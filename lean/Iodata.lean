import Iodata.Props.C10
import Iodata.Props.C09
import Iodata.Props.C16
import Iodata.Props.C05
