import Iodata.Props.C10
import Iodata.Props.C09
import Iodata.Props.C16
import Iodata.Props.C20
import Iodata.Props.C17
import Iodata.Props.C19
import Iodata.Props.C13
