import Iodata.Gen.LayoutsR
open Iodata.FmtR Iodata.Gen.LayoutsR
example : glogSkel = GLog.expectedSkel ∧ GLog.LayoutOK glogL := by decide +kernel
