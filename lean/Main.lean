/- Line-protocol driver: one request per line on stdin, one response per line on stdout.
   Imports only Mathlib-free model files. -/
import Iodata.Drv.Conv
import Iodata.Drv.Cascade

def handlers : List (List String → Option String) :=
  [Iodata.Drv.Conv.handle, Iodata.Drv.Cascade.handle]

def respond (line : String) : String :=
  let ws := (line.splitOn " ").filter (· ≠ "")
  match handlers.findSome? (fun h => h ws) with
  | some r => r
  | none => "bad-request"

partial def loop (h : IO.FS.Stream) (out : IO.FS.Stream) : IO Unit := do
  let line ← h.getLine
  if line.isEmpty then return ()
  let line := (line.splitOn "\n").headD ""
  out.putStrLn (respond line)
  loop h out

def main : IO Unit := do
  let out ← IO.getStdout
  loop (← IO.getStdin) out
  out.flush
