/- Line-protocol driver: one request per line on stdin, one response per line on stdout.
   Imports only Mathlib-free model files. -/
import Iodata.Drv.C07R
import Iodata.Drv.Cascade
import Iodata.Drv.Cli
import Iodata.Drv.Conv
import Iodata.Drv.Flow
import Iodata.Drv.Fmt
import Iodata.Drv.FmtR
import Iodata.Drv.FmtW
import Iodata.Drv.Helpers
import Iodata.Drv.IOData
import Iodata.Drv.Inputs
import Iodata.Drv.Orbitals
import Iodata.Drv.Overlap
import Iodata.Drv.Prepare
import Iodata.Drv.Segment
import Iodata.Drv.Select
import Iodata.Drv.Traj
import Iodata.Drv.Units
import Iodata.Drv.Wf

def handlers : List (List String → Option String) :=
  [Iodata.Drv.C07R.handle, Iodata.Drv.Cascade.handle, Iodata.Drv.Cli.handle, Iodata.Drv.Conv.handle, Iodata.Drv.Flow.handle, Iodata.Drv.Fmt.handle, Iodata.Drv.FmtR.handle, Iodata.Drv.FmtW.handle, Iodata.Drv.Helpers.handle, Iodata.Drv.IOData.handle, Iodata.Drv.Inputs.handle, Iodata.Drv.Orbitals.handle, Iodata.Drv.Overlap.handle, Iodata.Drv.Prepare.handle, Iodata.Drv.Segment.handle, Iodata.Drv.Select.handle, Iodata.Drv.Traj.handle, Iodata.Drv.Units.handle, Iodata.Drv.Wf.handle]

def respond (line : String) : String :=
  let ws := (line.splitOn " ").filter (· ≠ "")
  match handlers.findSome? (fun h => h ws) with
  | some r => r
  | none => "bad-request"

partial def loop (h : IO.FS.Stream) (out : IO.FS.Stream) : IO Unit := do
  let line ← h.getLine
  if line.isEmpty then return ()
  let line := (line.splitOn "\n").headD ""
  out.putStrLn (respond line)
  loop h out

def main : IO Unit := do
  let out ← IO.getStdout
  loop (← IO.getStdin) out
  out.flush
