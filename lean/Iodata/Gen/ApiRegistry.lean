-- GENERATED from /repo by harness/vh (translator); do not edit.
namespace Iodata.Gen.ApiRegistry

structure Entry where
  kind : String
  name : String
  hasPrepare : Bool
  fns : List (String × List (String × List String))
  deriving Repr, DecidableEq

def registry : List Entry := [
  { kind := "format", name := "charmm", hasPrepare := false,
    fns := [("load_one", [("guaranteed", ["atcoords", "atffparams", "atmasses", "extra"]), ("ifpresent", ["title"])])] },
  { kind := "format", name := "chgcar", hasPrepare := false,
    fns := [("load_one", [("guaranteed", ["atcoords", "atnums", "cellvecs", "cube", "title"]), ("ifpresent", [])])] },
  { kind := "format", name := "cp2klog", hasPrepare := false,
    fns := [("load_one", [("guaranteed", ["atcoords", "atcorenums", "atnums", "energy", "mo", "obasis"]), ("ifpresent", [])])] },
  { kind := "format", name := "cube", hasPrepare := false,
    fns := [("load_one", [("guaranteed", ["atcoords", "atcorenums", "atnums", "cellvecs", "cube"]), ("ifpresent", [])]), ("dump_one", [("required", ["atcoords", "atnums", "cube"]), ("optional", ["title", "atcorenums"])])] },
  { kind := "format", name := "extxyz", hasPrepare := false,
    fns := [("load_one", [("guaranteed", ["title"]), ("ifpresent", ["atcoords", "atgradient", "atmasses", "atnums", "cellvecs", "charge", "energy", "extra"])]), ("load_many", [("guaranteed", ["title"]), ("ifpresent", ["atcoords", "atgradient", "atmasses", "atnums", "cellvecs", "charge", "energy", "extra"])])] },
  { kind := "format", name := "fchk", hasPrepare := true,
    fns := [("load_one", [("guaranteed", ["atcharges", "atcoords", "atnums", "atcorenums", "lot", "mo", "obasis", "obasis_name", "title"]), ("ifpresent", ["energy", "atfrozen", "atgradient", "athessian", "atmasses", "one_rdms", "extra", "moments", "run_type"])]), ("load_many", [("guaranteed", ["atcoords", "atgradient", "atnums", "atcorenums", "energy", "extra", "title"]), ("ifpresent", [])]), ("dump_one", [("required", ["atnums", "atcorenums"]), ("optional", ["atcharges", "atcoords", "atfrozen", "atgradient", "athessian", "atmasses", "charge", "energy", "lot", "mo", "one_rdms", "obasis_name", "extra", "moments"])])] },
  { kind := "format", name := "fcidump", hasPrepare := false,
    fns := [("load_one", [("guaranteed", ["core_energy", "one_ints", "nelec", "spinpol", "two_ints"]), ("ifpresent", [])]), ("dump_one", [("required", ["one_ints", "two_ints"]), ("optional", ["core_energy", "nelec", "spinpol"])])] },
  { kind := "format", name := "gamess", hasPrepare := false,
    fns := [("load_one", [("guaranteed", ["title", "energy", "g_rot", "atgradient", "athessian", "atmasses", "atnums", "atcoords"]), ("ifpresent", [])])] },
  { kind := "format", name := "gaussianinput", hasPrepare := false,
    fns := [("load_one", [("guaranteed", ["atcoords", "atnums", "title"]), ("ifpresent", [])])] },
  { kind := "format", name := "gaussianlog", hasPrepare := false,
    fns := [("load_one", [("guaranteed", []), ("ifpresent", ["one_ints", "two_ints"])])] },
  { kind := "format", name := "gromacs", hasPrepare := false,
    fns := [("load_one", [("guaranteed", ["atcoords", "atffparams", "cellvecs", "extra", "title"]), ("ifpresent", [])]), ("load_many", [("guaranteed", ["atcoords", "atffparams", "cellvecs", "extra", "title"]), ("ifpresent", [])])] },
  { kind := "format", name := "json_qcschema", hasPrepare := true,
    fns := [("load_one", [("guaranteed", ["atnums", "atcorenums", "atcoords", "charge", "nelec", "spinpol"]), ("ifpresent", ["atmasses", "bonds", "energy", "g_rot", "lot", "obasis", "obasis_name", "title", "extra"])]), ("dump_one", [("required", ["atnums", "atcoords", "charge", "spinpol"]), ("optional", ["title", "atcorenums", "atmasses", "bonds", "g_rot", "extra"])])] },
  { kind := "format", name := "locpot", hasPrepare := false,
    fns := [("load_one", [("guaranteed", ["atcoords", "atnums", "cellvecs", "cube", "title"]), ("ifpresent", [])])] },
  { kind := "format", name := "mol2", hasPrepare := false,
    fns := [("load_one", [("guaranteed", ["atcoords", "atnums", "atcharges", "atffparams"]), ("ifpresent", ["title"])]), ("load_many", [("guaranteed", ["atcoords", "atnums", "atcharges", "atffparams"]), ("ifpresent", ["title"])]), ("dump_one", [("required", ["atcoords", "atnums"]), ("optional", ["atcharges", "atffparams", "title"])]), ("dump_many", [("required", ["atcoords", "atnums", "atcharges"]), ("optional", ["title"])])] },
  { kind := "format", name := "molden", hasPrepare := true,
    fns := [("load_one", [("guaranteed", ["atcoords", "atnums", "atcorenums", "mo", "obasis"]), ("ifpresent", ["title"])]), ("dump_one", [("required", ["atcoords", "atnums", "mo", "obasis"]), ("optional", ["atcorenums", "title"])])] },
  { kind := "format", name := "molekel", hasPrepare := true,
    fns := [("load_one", [("guaranteed", ["atcoords", "atnums", "mo", "obasis"]), ("ifpresent", ["atcharges"])]), ("dump_one", [("required", ["atcoords", "atnums", "mo", "obasis"]), ("optional", ["atcharges"])])] },
  { kind := "format", name := "mwfn", hasPrepare := false,
    fns := [("load_one", [("guaranteed", ["atcoords", "atnums", "atcorenums", "energy", "mo", "obasis", "extra", "title"]), ("ifpresent", [])])] },
  { kind := "format", name := "orcalog", hasPrepare := false,
    fns := [("load_one", [("guaranteed", ["atcoords", "atnums", "energy", "moments", "extra"]), ("ifpresent", [])])] },
  { kind := "format", name := "pdb", hasPrepare := false,
    fns := [("load_one", [("guaranteed", ["atcoords", "atnums", "atffparams", "extra"]), ("ifpresent", ["title", "bonds"])]), ("load_many", [("guaranteed", ["atcoords", "atnums", "atffparams", "extra"]), ("ifpresent", ["title"])]), ("dump_one", [("required", ["atcoords", "atnums", "extra"]), ("optional", ["atffparams", "title", "bonds"])]), ("dump_many", [("required", ["atcoords", "atnums", "extra"]), ("optional", ["atffparams", "title"])])] },
  { kind := "format", name := "poscar", hasPrepare := false,
    fns := [("load_one", [("guaranteed", ["atcoords", "atnums", "cellvecs", "title"]), ("ifpresent", [])]), ("dump_one", [("required", ["atcoords", "atnums", "cellvecs"]), ("optional", ["title"])])] },
  { kind := "format", name := "qchemlog", hasPrepare := false,
    fns := [("load_one", [("guaranteed", ["atcoords", "atmasses", "atnums", "energy", "g_rot", "mo", "lot", "obasis_name", "run_type", "extra"]), ("ifpresent", ["athessian"])])] },
  { kind := "format", name := "sdf", hasPrepare := false,
    fns := [("load_one", [("guaranteed", ["atcoords", "atnums", "bonds", "title"]), ("ifpresent", [])]), ("load_many", [("guaranteed", ["atcoords", "atnums", "bonds", "title"]), ("ifpresent", [])]), ("dump_one", [("required", ["atcoords", "atnums"]), ("optional", ["title", "bonds"])]), ("dump_many", [("required", ["atcoords", "atnums"]), ("optional", ["title", "bonds"])])] },
  { kind := "format", name := "wfn", hasPrepare := true,
    fns := [("load_one", [("guaranteed", ["atcoords", "atnums", "energy", "mo", "obasis", "title", "extra"]), ("ifpresent", [])]), ("dump_one", [("required", ["atcoords", "atnums", "mo", "obasis"]), ("optional", ["energy", "title", "extra"])])] },
  { kind := "format", name := "wfx", hasPrepare := true,
    fns := [("load_one", [("guaranteed", ["atcoords", "atnums", "energy", "extra", "mo", "obasis", "title"]), ("ifpresent", ["atgradient"])]), ("dump_one", [("required", ["atcoords", "atnums", "atcorenums", "mo", "obasis", "charge"]), ("optional", ["title", "energy", "spinpol", "lot", "atgradient", "extra"])])] },
  { kind := "format", name := "xyz", hasPrepare := false,
    fns := [("load_one", [("guaranteed", ["atcoords", "atnums", "title"]), ("ifpresent", [])]), ("load_many", [("guaranteed", ["atcoords", "atnums", "title"]), ("ifpresent", [])]), ("dump_one", [("required", ["atcoords", "atnums"]), ("optional", ["title"])]), ("dump_many", [("required", ["atcoords", "atnums"]), ("optional", ["title"])])] },
  { kind := "input", name := "gaussian", hasPrepare := false,
    fns := [("write_input", [("required", ["atnums", "atcoords"]), ("optional", ["title", "run_type", "lot", "obasis_name", "spinmult", "charge"])])] },
  { kind := "input", name := "orca", hasPrepare := false,
    fns := [("write_input", [("required", ["atnums", "atcoords"]), ("optional", ["title", "run_type", "lot", "obasis_name", "spinmult", "charge"])])] }
]

end Iodata.Gen.ApiRegistry
