-- GENERATED from /repo by harness/vh (translator); do not edit.
namespace Iodata.Gen.Handlers

structure Handler where
  module : String
  func : String
  kind : String
  caught : List String
  reraises : Bool
  deriving Repr, DecidableEq

def handlers : List Handler := [
  { module := "iodata.__init__", func := "<module>", kind := "except", caught := ["ImportError"], reraises := false },
  { module := "iodata.__main__", func := "<module>", kind := "except", caught := ["ImportError"], reraises := false },
  { module := "iodata.__main__", func := "main", kind := "seterr", caught := ["divide='raise'", "over='raise'", "invalid='raise'"], reraises := false },
  { module := "iodata.api", func := "dump_one", kind := "except", caught := ["PrepareDumpError"], reraises := true },
  { module := "iodata.api", func := "dump_one", kind := "except", caught := ["Exception"], reraises := true },
  { module := "iodata.api", func := "dump_many", kind := "except", caught := ["StopIteration"], reraises := true },
  { module := "iodata.api", func := "dump_many", kind := "except", caught := ["PrepareDumpError"], reraises := true },
  { module := "iodata.api", func := "dump_many", kind := "except", caught := ["Exception"], reraises := true },
  { module := "iodata.api", func := "load_one", kind := "except", caught := ["LoadError"], reraises := true },
  { module := "iodata.api", func := "load_one", kind := "except", caught := ["StopIteration"], reraises := true },
  { module := "iodata.api", func := "load_one", kind := "except", caught := ["Exception"], reraises := true },
  { module := "iodata.api", func := "load_many", kind := "except", caught := ["StopIteration"], reraises := false },
  { module := "iodata.api", func := "load_many", kind := "except", caught := ["LoadError"], reraises := true },
  { module := "iodata.api", func := "load_many", kind := "except", caught := ["Exception"], reraises := true },
  { module := "iodata.api", func := "dump_one", kind := "except", caught := ["DumpError"], reraises := true },
  { module := "iodata.api", func := "dump_one", kind := "except", caught := ["Exception"], reraises := true },
  { module := "iodata.api", func := "dump_many", kind := "except", caught := ["PrepareDumpError", "DumpError"], reraises := true },
  { module := "iodata.api", func := "dump_many", kind := "except", caught := ["Exception"], reraises := true },
  { module := "iodata.api", func := "write_input", kind := "except", caught := ["Exception"], reraises := true },
  { module := "iodata.formats.charmm", func := "load_one", kind := "except", caught := ["StopIteration"], reraises := true },
  { module := "iodata.formats.extxyz", func := "_convert_title_value", kind := "except", caught := ["ValueError"], reraises := false },
  { module := "iodata.formats.extxyz", func := "load_many", kind := "except", caught := ["StopIteration"], reraises := false },
  { module := "iodata.formats.extxyz", func := "load_many", kind := "except", caught := ["StopIteration"], reraises := true },
  { module := "iodata.formats.extxyz", func := "_convert_title_value", kind := "except", caught := ["ValueError"], reraises := false },
  { module := "iodata.formats.extxyz", func := "_convert_title_value", kind := "except", caught := ["ValueError"], reraises := false },
  { module := "iodata.formats.extxyz", func := "_convert_title_value", kind := "except", caught := ["ValueError"], reraises := false },
  { module := "iodata.formats.extxyz", func := "_convert_title_value", kind := "except", caught := ["ValueError"], reraises := false },
  { module := "iodata.formats.fchk", func := "_load_fchk_low", kind := "except", caught := ["StopIteration"], reraises := false },
  { module := "iodata.formats.fchk", func := "_load_fchk_field", kind := "except", caught := ["ValueError"], reraises := true },
  { module := "iodata.formats.fchk", func := "_load_fchk_field", kind := "except", caught := ["ValueError", "OverflowError"], reraises := true },
  { module := "iodata.formats.gamess", func := "load_one", kind := "except", caught := ["StopIteration"], reraises := false },
  { module := "iodata.formats.gromacs", func := "load_many", kind := "except", caught := ["StopIteration"], reraises := false },
  { module := "iodata.formats.gromacs", func := "load_many", kind := "except", caught := ["StopIteration"], reraises := true },
  { module := "iodata.formats.json_qcschema", func := "_version_check", kind := "except", caught := ["KeyError"], reraises := false },
  { module := "iodata.formats.mol2", func := "load_one", kind := "except", caught := ["StopIteration"], reraises := false },
  { module := "iodata.formats.mol2", func := "load_many", kind := "except", caught := ["StopIteration"], reraises := true },
  { module := "iodata.formats.molden", func := "_load_low", kind := "except", caught := ["StopIteration"], reraises := false },
  { module := "iodata.formats.molden", func := "_load_helper_coeffs", kind := "except", caught := ["StopIteration"], reraises := false },
  { module := "iodata.formats.molekel", func := "load_one", kind := "except", caught := ["StopIteration"], reraises := false },
  { module := "iodata.formats.orcalog", func := "load_one", kind := "except", caught := ["StopIteration"], reraises := false },
  { module := "iodata.formats.pdb", func := "load_one", kind := "except", caught := ["StopIteration"], reraises := false },
  { module := "iodata.formats.pdb", func := "load_many", kind := "except", caught := ["_NoMoleculeError"], reraises := false },
  { module := "iodata.formats.qchemlog", func := "load_qchemlog_low", kind := "except", caught := ["StopIteration"], reraises := false },
  { module := "iodata.formats.sdf", func := "load_one", kind := "except", caught := ["StopIteration"], reraises := true },
  { module := "iodata.formats.sdf", func := "load_many", kind := "except", caught := ["StopIteration"], reraises := false },
  { module := "iodata.formats.sdf", func := "load_many", kind := "except", caught := ["StopIteration"], reraises := true },
  { module := "iodata.formats.wfx", func := "parse_wfx", kind := "except", caught := ["StopIteration"], reraises := false },
  { module := "iodata.formats.xyz", func := "load_many", kind := "except", caught := ["StopIteration"], reraises := false },
  { module := "iodata.formats.xyz", func := "load_many", kind := "except", caught := ["StopIteration"], reraises := true }
]

end Iodata.Gen.Handlers
