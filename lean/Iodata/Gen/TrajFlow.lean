-- GENERATED from /repo by harness/vh (translator); do not edit.
import Iodata.Model.Traj
namespace Iodata.Gen.TrajFlow
open Iodata.Traj

/-- skeleton of `xyz.load_many` -/
def xyz : LoopSkel := ⟨.skipBlank, [([.stop], .toLoadError)]⟩

/-- skeleton of `extxyz.load_many` -/
def extxyz : LoopSkel := ⟨.skipBlank, [([.stop], .toLoadError)]⟩

/-- skeleton of `sdf.load_many` -/
def sdf : LoopSkel := ⟨.peekPushAll, [([.stop], .toLoadError)]⟩

/-- skeleton of `gromacs.load_many` -/
def gromacs : LoopSkel := ⟨.peekPushAll, [([.stop], .toLoadError)]⟩

/-- skeleton of `pdb.load_many` -/
def pdb : LoopSkel := ⟨.none, [([.loadError], .firstRaiseElseRet)]⟩

/-- skeleton of `mol2.load_many` -/
def mol2 : LoopSkel := ⟨.scanMolecule, [([.stop], .toLoadError)]⟩

/-- mol2.load_one raises LoadError for an announced but absent BOND section -/
def mol2BondCheck : Bool := true

/-- the except clauses of `api.load_many` around `for data in format_module.load_many(...)` -/
def apiLoadMany : List (List ApiExc × ApiAct) :=
  [([.stopIteration], .ret), ([.loadError], .reraise), ([.stopIteration, .loadError, .exception], .wrapLoadError)]

/-- ordered uses of the iterable, checks, `open` and yields in `api.dump_many` -/
def apiDumpMany : List String :=
  ["iter(iter_data)", "next(iter_data)", "check(first)", "prepare(first)", "yield first", "for other in iter_data", "check(other)", "yield prepared(other)", "prepare(other)", "open", "format.dump_many(f, checking_iterator())"]

/-- bodies of the formats' `dump_many` -/
def fmtDumpMany : List (String × List String) :=
  [("xyz", ["for data in datas:\n    dump_one(f, data, atom_columns)"]), ("pdb", ["for data in datas:\n    dump_one(f, data)"]), ("mol2", ["for data in datas:\n    dump_one(f, data)"]), ("sdf", ["for data in datas:\n    dump_one(f, data)"])]

/-- point / step bookkeeping expressions of `fchk.load_many` -/
def fchkLoop : List String :=
  ["f'7d'", "f'{prefix} {ipoint + 1:7d} Geometries'", "f'{prefix} {ipoint + 1:7d} Gradient at each geome'", "f'{prefix} {ipoint + 1:7d} Results for each geome'", "for (ipoint, nstep) in enumerate(nsteps)", "for (istep, (energy, recor, atcoords, gradients)) in enumerate(trajectory)", "ipoint=ipoint", "istep=istep", "len(trajectory) != nstep", "npoint=len(nsteps)", "nstep=len(trajectory)", "prefix == 'IRC point'", "reshape(-1, natom, 3)", "results_geoms[1::2]", "results_geoms[::2]"]

end Iodata.Gen.TrajFlow
