-- GENERATED from /repo by harness/vh (translator); do not edit.
import Iodata.Model.Flow
namespace Iodata.Gen.ApiFlow
open Iodata.Flow

/-- `_check_required` -/
def checkRequired : Stmt :=
 (.forEach .required "dump_func.required -> attr_name"
 (.ifNone "getattr(data, attr_name)" (.raise_ .prepareDump ["filename"])))

/-- `dump_one` -/
def dumpOne : Stmt :=
 (.seq (.call (.select "dump_one") ["filename", "'dump_one'", "fmt"] "format_module")
 (.seq (.try_ (.seq (.inl "_check_required" ["filename", "data", "format_module.dump_one"] checkRequired)
 (.ifHasattr "format_module" "prepare_dump" (.call .prepare ["data", "allow_changes", "filename"] "data") .skip))
 (.cons (.cls [.prepareDump]) .reraise
 (.cons .anyException (.raise_ .prepareDump ["filename", "from exc"])
 .nil)))
 (.seq (.withOpen .w "filename" "f"
 (.try_ (.call (.writer "dump_one") ["f", "data", "**kwargs"] "")
 (.cons (.cls [.dump]) .reraise
 (.cons .anyException (.raise_ .dump ["filename", "from exc"])
 .nil))))
 (.ret "data"))))

/-- `dump_many` -/
def dumpMany : Stmt :=
 (.seq (.call (.select "dump_many") ["filename", "'dump_many'", "fmt"] "format_module")
 (.seq (.call .iterOf ["iter_data"] "iter_data")
 (.seq (.try_ (.call .nextFrame ["iter_data"] "first")
 (.cons (.cls [.stopIter]) (.raise_ .dump ["filename", "from exc"])
 .nil))
 (.seq (.try_ (.seq (.inl "_check_required" ["filename", "first", "format_module.dump_many"] checkRequired)
 (.ifHasattr "format_module" "prepare_dump" (.call .prepare ["first", "allow_changes", "filename"] "first") .skip))
 (.cons (.cls [.prepareDump]) .reraise
 (.cons .anyException (.raise_ .prepareDump ["filename", "from exc"])
 .nil)))
 (.withOpen .w "filename" "f"
 (.try_ (.consume (.writer "dump_many") ["f", "checking_iterator()", "**kwargs"]
 (.seq (.yield_ .writer "first")
 (.forEach .iterData "iter_data -> other"
 (.seq (.inl "_check_required" ["filename", "other", "format_module.dump_many"] checkRequired)
 (.seq (.ifHasattr "format_module" "prepare_dump" (.call .prepare ["other", "allow_changes", "filename"] "") .skip)
 (.yield_ .writer "format_module.prepare_dump(other, allow_changes, filename) if hasattr(format_module, 'prepare_dump') else other"))))))
 (.cons (.cls [.prepareDump, .dump]) .reraise
 (.cons .anyException (.raise_ .dump ["filename", "from exc"])
 .nil))))))))

/-- `write_input` -/
def writeInput : Stmt :=
 (.seq (.call .selectInput ["filename", "fmt"] "input_module")
 (.withOpen .w "filename" "fh"
 (.try_ (.call (.writer "write_input") ["fh", "data", "template", "atom_line", "**kwargs"] "")
 (.cons .anyException (.raise_ .writeInput ["filename", "from exc"])
 .nil))))

/-- `load_one` -/
def loadOne : Stmt :=
 (.seq (.call (.select "load_one") ["filename", "'load_one'", "fmt"] "format_module")
 (.withOpen .r "filename" "lit"
 (.try_ (.seq (.call (.parse "load_one") ["lit", "**kwargs"] "")
 (.seq (.call .ctor ["**format_module.load_one(lit, **kwargs)"] "")
 (.ret "IOData(**format_module.load_one(lit, **kwargs))")))
 (.cons (.cls [.load]) .reraise
 (.cons (.cls [.stopIter]) (.raise_ .load ["lit", "from exc"])
 (.cons .anyException (.raise_ .load ["lit", "from exc"])
 .nil))))))

/-- `load_many` -/
def loadMany : Stmt :=
 (.seq (.call (.select "load_many") ["filename", "'load_many'", "fmt"] "format_module")
 (.withOpen .r "filename" "lit"
 (.try_ (.forEach .fmtMany "format_module.load_many(lit, **kwargs) -> data"
 (.seq (.call .ctor ["**data"] "")
 (.yield_ .user "IOData(**data)")))
 (.cons (.cls [.stopIter]) (.ret "")
 (.cons (.cls [.load]) .reraise
 (.cons .anyException (.raise_ .load ["lit", "from exc"])
 .nil))))))

/-- `convert` -/
def convert : Stmt :=
 (.ifVar "many" (.seq (.call (.api "load_many") ["infn", "fmt=infmt"] "")
 (.call (.api "dump_many") ["load_many(infn, fmt=infmt)", "outfn", "allow_changes=allow_changes", "fmt=outfmt"] "")) (.seq (.call (.api "load_one") ["infn", "fmt=infmt"] "")
 (.call (.api "dump_one") ["load_one(infn, fmt=infmt)", "outfn", "allow_changes=allow_changes", "fmt=outfmt"] "")))

/-- `main` -/
def main : Stmt :=
 (.seq (.call (.pure "np.seterr") ["divide='raise'", "over='raise'", "invalid='raise'"] "")
 (.seq (.call (.pure "parse_args") [] "args")
 (.call (.api "convert") ["args.input", "args.output", "args.many", "args.infmt", "args.outfmt", "args.allow_changes"] "")))

def signatures : List (String × List String) :=
  [("_check_required", ["filename", "data", "dump_func"]),
   ("dump_one", ["data", "filename", "*", "fmt=None", "allow_changes=False", "**kwargs"]),
   ("dump_many", ["iter_data", "filename", "*", "fmt=None", "allow_changes=False", "**kwargs"]),
   ("write_input", ["data", "filename", "fmt", "*", "template=None", "atom_line=None", "**kwargs"]),
   ("load_one", ["filename", "*", "fmt=None", "**kwargs"]),
   ("load_many", ["filename", "*", "fmt=None", "**kwargs"]),
   ("convert", ["infn", "outfn", "many=False", "infmt=None", "outfmt=None", "allow_changes=False"]),
   ("main", [])]

def decorators : List (String × List String) :=
  [("_check_required", []),
   ("dump_one", ["_reissue_warnings"]),
   ("dump_many", ["_reissue_warnings"]),
   ("write_input", ["_reissue_warnings"]),
   ("load_one", ["_reissue_warnings"]),
   ("load_many", ["_reissue_warnings"]),
   ("convert", []),
   ("main", [])]

def argparseTable : List (List String) :=
  [["-V", "--version", "|", "action='version'"],
   ["-i", "--infmt", "|"],
   ["-o", "--outfmt", "|"],
   ["-c", "--allow-changes", "|", "action='store_true'", "default=False"],
   ["-m", "--many", "|", "action='store_true'", "default=False"],
   ["input", "|"],
   ["output", "|"]]

def reissueBody : List String := ["def _reissue_warnings(func):", "", "    def inner(*args, **kwargs):", "        warning_list = []", "        try:", "            with warnings.catch_warnings(record=True) as warning_list:", "                result = func(*args, **kwargs)", "        finally:", "            for warning in warning_list:", "                warnings.warn(warning.message, warning.category, stacklevel=2)", "        return result", "    return inner"]

def cliImports : List String := [".api:dump_many:dump_many", ".api:dump_one:dump_one", ".api:load_many:load_many", ".api:load_one:load_one"]

def cliRebound : List String := []

end Iodata.Gen.ApiFlow
