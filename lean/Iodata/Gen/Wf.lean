-- GENERATED from /repo by harness/vh (translator); do not edit.
import Iodata.Model.WfRead
namespace Iodata.Gen.Wf
/-- wfn.py: `get_mocoeff_scales` is called on a basis carrying the source conventions -/
def wfnScalesFromSource : Bool := false
/-- wfx.py: same -/
def wfxScalesFromSource : Bool := false
/-- molden.py: coefficient rows re-ordered like the `[GTO]` shells sorted by centre -/
def moldenRowsFollowSort : Bool := true
/-- molekel.py: beta irreps sliced with `norbb` -/
def mklBetaIrrepsUseNorbb : Bool := false
/-- molekel.py: shells written sorted by centre with one `$$` per centre passed, rows following -/
def mklSeparatorsPerCentre : Bool := true
/-- fchk.py: density matrices converted to the FCHK conventions -/
def fchkDensitiesConverted : Bool := true
open Iodata.Wf in
/-- molden.py: header tags per combination of d/f/g/h kinds -/
def moldenHeader : Iodata.Wf.HdrTable := [
  ([none, none, none, none], some []),
  ([none, none, none, some 'c'], none),
  ([none, none, none, some 'p'], some [Tag.g9]),
  ([none, none, some 'c', none], some []),
  ([none, none, some 'c', some 'c'], none),
  ([none, none, some 'c', some 'p'], none),
  ([none, none, some 'p', none], some [Tag.g9]),
  ([none, none, some 'p', some 'c'], none),
  ([none, none, some 'p', some 'p'], some [Tag.g9]),
  ([none, some 'c', none, none], some []),
  ([none, some 'c', none, some 'c'], none),
  ([none, some 'c', none, some 'p'], some [Tag.g9]),
  ([none, some 'c', some 'c', none], some []),
  ([none, some 'c', some 'c', some 'c'], none),
  ([none, some 'c', some 'c', some 'p'], none),
  ([none, some 'c', some 'p', none], some [Tag.g9]),
  ([none, some 'c', some 'p', some 'c'], none),
  ([none, some 'c', some 'p', some 'p'], some [Tag.g9]),
  ([none, some 'p', none, none], some [Tag.f7]),
  ([none, some 'p', none, some 'c'], none),
  ([none, some 'p', none, some 'p'], some [Tag.f7, Tag.g9]),
  ([none, some 'p', some 'c', none], some [Tag.f7]),
  ([none, some 'p', some 'c', some 'c'], none),
  ([none, some 'p', some 'c', some 'p'], none),
  ([none, some 'p', some 'p', none], some [Tag.f7, Tag.g9]),
  ([none, some 'p', some 'p', some 'c'], none),
  ([none, some 'p', some 'p', some 'p'], some [Tag.f7, Tag.g9]),
  ([some 'c', none, none, none], some []),
  ([some 'c', none, none, some 'c'], none),
  ([some 'c', none, none, some 'p'], some [Tag.g9]),
  ([some 'c', none, some 'c', none], some []),
  ([some 'c', none, some 'c', some 'c'], none),
  ([some 'c', none, some 'c', some 'p'], none),
  ([some 'c', none, some 'p', none], some [Tag.g9]),
  ([some 'c', none, some 'p', some 'c'], none),
  ([some 'c', none, some 'p', some 'p'], some [Tag.g9]),
  ([some 'c', some 'c', none, none], some []),
  ([some 'c', some 'c', none, some 'c'], none),
  ([some 'c', some 'c', none, some 'p'], some [Tag.g9]),
  ([some 'c', some 'c', some 'c', none], some []),
  ([some 'c', some 'c', some 'c', some 'c'], none),
  ([some 'c', some 'c', some 'c', some 'p'], none),
  ([some 'c', some 'c', some 'p', none], some [Tag.g9]),
  ([some 'c', some 'c', some 'p', some 'c'], none),
  ([some 'c', some 'c', some 'p', some 'p'], some [Tag.g9]),
  ([some 'c', some 'p', none, none], some [Tag.f7]),
  ([some 'c', some 'p', none, some 'c'], none),
  ([some 'c', some 'p', none, some 'p'], some [Tag.f7, Tag.g9]),
  ([some 'c', some 'p', some 'c', none], some [Tag.f7]),
  ([some 'c', some 'p', some 'c', some 'c'], none),
  ([some 'c', some 'p', some 'c', some 'p'], none),
  ([some 'c', some 'p', some 'p', none], some [Tag.f7, Tag.g9]),
  ([some 'c', some 'p', some 'p', some 'c'], none),
  ([some 'c', some 'p', some 'p', some 'p'], some [Tag.f7, Tag.g9]),
  ([some 'p', none, none, none], some [Tag.d5f10]),
  ([some 'p', none, none, some 'c'], none),
  ([some 'p', none, none, some 'p'], some [Tag.d5f10, Tag.g9]),
  ([some 'p', none, some 'c', none], some [Tag.d5f10]),
  ([some 'p', none, some 'c', some 'c'], none),
  ([some 'p', none, some 'c', some 'p'], none),
  ([some 'p', none, some 'p', none], some [Tag.d5f10, Tag.g9]),
  ([some 'p', none, some 'p', some 'c'], none),
  ([some 'p', none, some 'p', some 'p'], some [Tag.d5f10, Tag.g9]),
  ([some 'p', some 'c', none, none], some [Tag.d5f10]),
  ([some 'p', some 'c', none, some 'c'], none),
  ([some 'p', some 'c', none, some 'p'], some [Tag.d5f10, Tag.g9]),
  ([some 'p', some 'c', some 'c', none], some [Tag.d5f10]),
  ([some 'p', some 'c', some 'c', some 'c'], none),
  ([some 'p', some 'c', some 'c', some 'p'], none),
  ([some 'p', some 'c', some 'p', none], some [Tag.d5f10, Tag.g9]),
  ([some 'p', some 'c', some 'p', some 'c'], none),
  ([some 'p', some 'c', some 'p', some 'p'], some [Tag.d5f10, Tag.g9]),
  ([some 'p', some 'p', none, none], some [Tag.d5]),
  ([some 'p', some 'p', none, some 'c'], none),
  ([some 'p', some 'p', none, some 'p'], some [Tag.d5, Tag.g9]),
  ([some 'p', some 'p', some 'c', none], some [Tag.d5]),
  ([some 'p', some 'p', some 'c', some 'c'], none),
  ([some 'p', some 'p', some 'c', some 'p'], none),
  ([some 'p', some 'p', some 'p', none], some [Tag.d5, Tag.g9]),
  ([some 'p', some 'p', some 'p', some 'c'], none),
  ([some 'p', some 'p', some 'p', some 'p'], some [Tag.d5, Tag.g9])]
end Iodata.Gen.Wf
