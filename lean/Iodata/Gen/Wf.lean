-- GENERATED from /repo by harness/vh (translator); do not edit.
import Iodata.Model.WfRead
namespace Iodata.Gen.Wf
/-- wfn.py: `get_mocoeff_scales` is called on a basis carrying the source conventions -/
def wfnScalesFromSource : Bool := false
/-- wfx.py: same -/
def wfxScalesFromSource : Bool := false
/-- molden.py: coefficient rows re-ordered like the `[GTO]` shells sorted by centre -/
def moldenRowsFollowSort : Bool := true
/-- molekel.py: beta irreps sliced with `norbb` -/
def mklBetaIrrepsUseNorbb : Bool := false
/-- molekel.py: shells written sorted by centre with one `$$` per centre passed, rows following -/
def mklSeparatorsPerCentre : Bool := true
/-- fchk.py: density matrices converted to the FCHK conventions -/
def fchkDensitiesConverted : Bool := true
open Iodata.Wf in
/-- molden.py: header tags per combination of d/f/g/h kinds -/
def moldenHeader : Iodata.Wf.HdrTable := []
end Iodata.Gen.Wf
