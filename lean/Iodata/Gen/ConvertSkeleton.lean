-- GENERATED from /repo by harness/vh (translator); do not edit.
namespace Iodata.Gen.ConvertSkeleton
def seg_keep : String := "shell.ncon == 1 or (keep_sp and shell.ncon == 2 and (shell.angmoms == [0, 1]).all())"
def seg_zip : String := "zip(shell.angmoms, shell.kinds, shell.coeffs.T)"
def seg_new : String := "Shell(shell.icenter, [angmom], [kind], shell.exponents, coeffs.reshape(-1, 1))"
def seg_ret : String := "attrs.evolve(obasis, shells=shells)"
def prepseg_guards : List String := ["data.obasis is None", "all((shell.ncon == 1 or (keep_sp and shell.ncon == 2 and (shell.angmoms == [0, 1]).all()) for shell in SHELLS))", "keep_sp", "not allow_changes"]
def prepseg_actions : List String := ["Raise", "Return", "AugAssign", "Raise"]
def prepseg_warns : Nat := 1
def prepseg_ret : String := "attrs.evolve(data, obasis=convert_to_segmented(data.obasis, keep_sp))"
def prepu_guards : List String := ["data.mo is None", "data.mo.kind == 'generalized'", "data.mo.kind == 'unrestricted'", "data.mo.occs_aminusb is None", "not allow_changes"]
def prepu_actions : List String := ["Raise", "Raise", "Return", "Return", "Raise"]
def prepu_warns : Nat := 1
def prepu_ret : String := "attrs.evolve(data, mo=convert_to_unrestricted(data.mo))"
def tou_guards : List String := ["mo.kind == 'generalized' -> Raise", "mo.kind == 'unrestricted' -> Return"]
def tou_ret : List String := ["'unrestricted'", "mo.norba", "mo.norbb", "None if mo.occs is None else np.concatenate([mo.occsa, mo.occsb])", "None if mo.coeffs is None else np.concatenate([mo.coeffs, mo.coeffs], axis=1)", "None if mo.energies is None else np.concatenate([mo.energies, mo.energies])", "None if mo.irreps is None else np.concatenate([mo.irreps, mo.irreps])"]
end Iodata.Gen.ConvertSkeleton
