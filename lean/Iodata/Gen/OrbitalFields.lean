-- GENERATED from /repo by harness/vh (translator); do not edit.
namespace Iodata.Gen.OrbitalFields
def moFields : List (String × String) := [("kind", "[in_(['restricted','unrestricted','generalized']),validate_change]"), ("norba", "[validate_norbab,validate_change]"), ("norbb", "[validate_norbab,validate_change]"), ("occs", "optional(validate_shape('norb'))"), ("coeffs", "optional(validate_shape(None,'norb'))"), ("energies", "optional(validate_shape('norb'))"), ("irreps", "optional(validate_shape('norb'))"), ("occs_aminusb", "and_(optional(validate_shape('norb')),validate_occs_aminusb)")]
def refusing : List String := ["coeffsa", "coeffsb", "energiesa", "energiesb", "irrepsa", "irrepsb", "occsa", "occsa=", "occsb", "occsb=", "spinpol"]
def shellFields : List (String × String) := [("icenter", "none"), ("angmoms", "validate_shape(('coeffs',1))"), ("kinds", "validate_shape(('coeffs',1))"), ("exponents", "validate_shape(('coeffs',0))"), ("coeffs", "validate_shape(('exponents',0),('kinds',0))")]
end Iodata.Gen.OrbitalFields
