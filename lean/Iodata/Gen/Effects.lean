-- GENERATED from /repo by harness/vh (translator); do not edit.
import Iodata.Model.Effects
namespace Iodata.Gen.Effects
open Iodata.Effects

-- 269 functions analysed, 73 with an argument-rooted parameter
def sites : List Site := [
  { module := "iodata.formats.pdb", func := "dump_one", kind := "mutcall:append", target := "connections[iatom0]", root := .arg },
  { module := "iodata.formats.pdb", func := "dump_one", kind := "mutcall:append", target := "connections[iatom1]", root := .arg },
  { module := "iodata.iodata", func := "IOData.atcorenums", kind := "store-attr", target := "self.atcorenums", root := .arg }
]

def functionsAnalysed : Nat := 269
end Iodata.Gen.Effects
