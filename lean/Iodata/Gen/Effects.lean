-- GENERATED from /repo by harness/vh (translator); do not edit.
import Iodata.Model.Effects
namespace Iodata.Gen.Effects
open Iodata.Effects

-- 271 functions analysed, 73 with an argument-rooted parameter
def sites : List Site := [
  { module := "iodata.__main__", func := "main", kind := "process-global:seterr", target := "np.seterr", root := .glob },
  { module := "iodata.formats.molden", func := "_load_low", kind := "store-subscript", target := "shell.kinds[0]", root := .glob },
  { module := "iodata.formats.pdb", func := "dump_one", kind := "mutcall:append", target := "connections[iatom0]", root := .arg },
  { module := "iodata.formats.pdb", func := "dump_one", kind := "mutcall:append", target := "connections[iatom1]", root := .arg },
  { module := "iodata.iodata", func := "IOData.atcorenums", kind := "store-attr", target := "self.atcorenums", root := .arg }
]

def functionsAnalysed : Nat := 271
end Iodata.Gen.Effects
