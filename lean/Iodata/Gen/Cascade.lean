-- GENERATED from /repo by harness/vh (translator); do not edit.
import Iodata.Model.Cascade
namespace Iodata.Gen.Cascade
open Iodata.Cascade

/-- attempts of `_fix_molden_from_buggy_codes` in source order (ast walk) -/
def cascade : List Attempt := [
  { warn := none, testBasis := .raw, testCoeff := .raw, guardBasis := false, guardCoeff := false, storeBasis := none, storeCoeff := none },
  { warn := some .orca, testBasis := .orca, testCoeff := .raw, guardBasis := false, guardCoeff := false, storeBasis := some .orca, storeCoeff := none },
  { warn := some .psi4old, testBasis := .psi4old, testCoeff := .raw, guardBasis := true, guardCoeff := false, storeBasis := some .psi4old, storeCoeff := none },
  { warn := some .turbomole, testBasis := .turbomole, testCoeff := .raw, guardBasis := true, guardCoeff := false, storeBasis := some .turbomole, storeCoeff := none },
  { warn := some .cfour, testBasis := .raw, testCoeff := .cfour, guardBasis := false, guardCoeff := true, storeBasis := some .raw, storeCoeff := some .cfour },
  { warn := some .unnorm, testBasis := .normalize, testCoeff := .raw, guardBasis := false, guardCoeff := false, storeBasis := some .normalize, storeCoeff := none },
  { warn := some .psi4new, testBasis := .normalize, testCoeff := .psi4new, guardBasis := false, guardCoeff := true, storeBasis := some .normalize, storeCoeff := some .psi4new }]

def warnTexts : List String := ["", "Corrected for typical ORCA errors in Molden/MKL file.", "Corrected for PSI4 < 1.0 errors in Molden/MKL file.", "Corrected for Turbomole errors in Molden/MKL file.", "Corrected for CFOUR 2.1 errors in Molden/MKL file.", "Corrected for unnormalized contractions in Molden/MKL file.", "Corrected for PSI4 <= 1.3.2 errors in Molden/MKL file."]

/-- the function ends with `raise LoadError` (checked by the translator, which fails otherwise) -/
def finalRaisesLoadError : Bool := true

/-- `_is_normalized_properly` is `max_i |c_i^t S c_i - 1| <= norm_threshold` over all alpha and beta orbitals -/
def normTestShape : Bool := true

def moldenLoadEndsWithCascade : Bool := true
def molekelLoadEndsWithCascade : Bool := true

/-- behaviour of the `_fix_obasis_orca` function per shell type (probed) -/
def orcaTable : BasisTable := [
  ((0, 'c'), .norm 1),
  ((1, 'c'), .norm 1),
  ((2, 'c'), .one),
  ((2, 'p'), .norm 1),
  ((3, 'c'), .one),
  ((3, 'p'), .norm 1),
  ((4, 'c'), .one),
  ((4, 'p'), .norm 3),
  ((5, 'c'), .one),
  ((5, 'p'), .norm 945),
  ((6, 'c'), .one),
  ((6, 'p'), .one)]

/-- behaviour of the `_fix_obasis_psi4` function per shell type (probed) -/
def psi4oldTable : BasisTable := [
  ((0, 'c'), .norm 1),
  ((1, 'c'), .norm 1),
  ((2, 'c'), .one),
  ((2, 'p'), .norm 3),
  ((3, 'c'), .one),
  ((3, 'p'), .norm 15),
  ((4, 'c'), .one),
  ((4, 'p'), .one),
  ((5, 'c'), .one),
  ((5, 'p'), .one),
  ((6, 'c'), .one),
  ((6, 'p'), .one)]

/-- behaviour of the `_fix_obasis_turbomole` function per shell type (probed) -/
def turbomoleTable : BasisTable := [
  ((0, 'c'), .one),
  ((1, 'c'), .one),
  ((2, 'c'), .const 1 3),
  ((2, 'p'), .one),
  ((3, 'c'), .const 1 15),
  ((3, 'p'), .one),
  ((4, 'c'), .const 1 105),
  ((4, 'p'), .one),
  ((5, 'c'), .one),
  ((5, 'p'), .one),
  ((6, 'c'), .one),
  ((6, 'p'), .one)]

/-- behaviour of the `_fix_obasis_normalize_contractions` function per shell type (probed) -/
def normalizeTable : BasisTable := [
  ((0, 'c'), .unit),
  ((1, 'c'), .unit),
  ((2, 'c'), .unit),
  ((2, 'p'), .unit),
  ((3, 'c'), .unit),
  ((3, 'p'), .unit),
  ((4, 'c'), .unit),
  ((4, 'p'), .unit),
  ((5, 'p'), .unit)]

/-- squared divisors returned by `_fix_mo_coeffs_cfour` (probed) -/
def cfourTable : CoeffTable := [
  ((2, 'c'), [(1, 3), (1, 3), (1, 3), (1, 1), (1, 1), (1, 1)]),
  ((3, 'c'), [(1, 15), (1, 15), (1, 15), (1, 3), (1, 3), (1, 3), (1, 3), (1, 3), (1, 3), (1, 1)]),
  ((4, 'c'), [(1, 105), (1, 105), (1, 105), (1, 15), (1, 15), (1, 15), (1, 15), (1, 15), (1, 15), (1, 9), (1, 9), (1, 9), (1, 3), (1, 3), (1, 3)])]

/-- squared divisors returned by `_fix_mo_coeffs_psi4` (probed) -/
def psi4newTable : CoeffTable := [
  ((2, 'c'), [(1, 1), (1, 1), (1, 1), (3, 1), (3, 1), (3, 1)]),
  ((3, 'c'), [(1, 1), (1, 1), (1, 1), (5, 1), (5, 1), (5, 1), (5, 1), (5, 1), (5, 1), (15, 1)]),
  ((4, 'c'), [(1, 1), (1, 1), (1, 1), (7, 1), (7, 1), (7, 1), (7, 1), (7, 1), (7, 1), (35, 3), (35, 3), (35, 3), (35, 1), (35, 1), (35, 1)])]

def tables : Tables where
  basis
    | .raw => []
    | .orca => orcaTable
    | .psi4old => psi4oldTable
    | .turbomole => turbomoleTable
    | .normalize => normalizeTable
  coeff
    | .raw => []
    | .cfour => cfourTable
    | .psi4new => psi4newTable

/-- conventions attached to the basis returned by `_fix_obasis_orca` -/
def orcaConventions : List (ShellType × List (List Char)) := [
  ((0, 'c'), [['1']]),
  ((1, 'c'), [['x'], ['y'], ['z']]),
  ((2, 'c'), [['x','x'], ['y','y'], ['z','z'], ['x','y'], ['x','z'], ['y','z']]),
  ((2, 'p'), [['c','0'], ['c','1'], ['s','1'], ['c','2'], ['s','2']]),
  ((3, 'c'), [['x','x','x'], ['y','y','y'], ['z','z','z'], ['x','y','y'], ['x','x','y'], ['x','x','z'], ['x','z','z'], ['y','z','z'], ['y','y','z'], ['x','y','z']]),
  ((3, 'p'), [['c','0'], ['c','1'], ['s','1'], ['c','2'], ['s','2'], ['-','c','3'], ['-','s','3']]),
  ((4, 'c'), [['x','x','x','x'], ['y','y','y','y'], ['z','z','z','z'], ['x','x','x','y'], ['x','x','x','z'], ['x','y','y','y'], ['y','y','y','z'], ['x','z','z','z'], ['y','z','z','z'], ['x','x','y','y'], ['x','x','z','z'], ['y','y','z','z'], ['x','x','y','z'], ['x','y','y','z'], ['x','y','z','z']]),
  ((4, 'p'), [['c','0'], ['c','1'], ['s','1'], ['c','2'], ['s','2'], ['-','c','3'], ['-','s','3'], ['-','c','4'], ['-','s','4']]),
  ((5, 'p'), [['c','0'], ['c','1'], ['s','1'], ['c','2'], ['s','2'], ['-','c','3'], ['-','s','3'], ['-','c','4'], ['-','s','4'], ['c','5'], ['s','5']])]

/-- `iodata.formats.molden.CONVENTIONS` -/
def moldenConventions : List (ShellType × List (List Char)) := [
  ((0, 'c'), [['1']]),
  ((1, 'c'), [['x'], ['y'], ['z']]),
  ((2, 'c'), [['x','x'], ['y','y'], ['z','z'], ['x','y'], ['x','z'], ['y','z']]),
  ((2, 'p'), [['c','0'], ['c','1'], ['s','1'], ['c','2'], ['s','2']]),
  ((3, 'c'), [['x','x','x'], ['y','y','y'], ['z','z','z'], ['x','y','y'], ['x','x','y'], ['x','x','z'], ['x','z','z'], ['y','z','z'], ['y','y','z'], ['x','y','z']]),
  ((3, 'p'), [['c','0'], ['c','1'], ['s','1'], ['c','2'], ['s','2'], ['c','3'], ['s','3']]),
  ((4, 'c'), [['x','x','x','x'], ['y','y','y','y'], ['z','z','z','z'], ['x','x','x','y'], ['x','x','x','z'], ['x','y','y','y'], ['y','y','y','z'], ['x','z','z','z'], ['y','z','z','z'], ['x','x','y','y'], ['x','x','z','z'], ['y','y','z','z'], ['x','x','y','z'], ['x','y','y','z'], ['x','y','z','z']]),
  ((4, 'p'), [['c','0'], ['c','1'], ['s','1'], ['c','2'], ['s','2'], ['c','3'], ['s','3'], ['c','4'], ['s','4']]),
  ((5, 'p'), [['c','0'], ['c','1'], ['s','1'], ['c','2'], ['s','2'], ['c','3'], ['s','3'], ['c','4'], ['s','4'], ['c','5'], ['s','5']])]

end Iodata.Gen.Cascade
