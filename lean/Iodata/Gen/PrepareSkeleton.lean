-- GENERATED from /repo by harness/vh (translator); do not edit.
namespace Iodata.Gen.PrepareSkeleton
def hasPrepare : List String := ["fchk", "json_qcschema", "molden", "molekel", "wfn", "wfx"]
def qcschemaStrict : Bool := true
def fchk : List String := ["0|if data.mo is not None:", "1|if data.mo.kind == 'generalized':", "2|raise PrepareDumpError", "1|na = int(np.round(np.sum(data.mo.occsa)))", "1|if not ((data.mo.occsa[:na] == 1.0).all() and (data.mo.occsa[na:] == 0.0).all()):", "2|raise PrepareDumpError", "1|nb = int(np.round(np.sum(data.mo.occsb)))", "1|if not ((data.mo.occsb[:nb] == 1.0).all() and (data.mo.occsb[nb:] == 0.0).all()):", "2|raise PrepareDumpError", "0|if 'post_scf_ao' in data.one_rdms or 'post_scf_spin_ao' in data.one_rdms:", "1|level = data.lot.upper() if data.lot is not None else 'NA'", "1|if not any((item in level for item in ['MP2', 'MP3', 'CC', 'CI'])):", "2|raise PrepareDumpError", "0|return prepare_segmented(data, True, allow_changes, filename, 'FCHK')"]
def fchk_params : List String := ["data", "allow_changes", "filename"]
def molden : List String := ["0|if data.mo is None:", "1|raise PrepareDumpError", "0|if data.obasis is None:", "1|raise PrepareDumpError", "0|if data.mo.kind == 'generalized':", "1|raise PrepareDumpError", "0|data = prepare_unrestricted_aminusb(data, allow_changes, filename, 'Molden')", "0|return prepare_segmented(data, False, allow_changes, filename, 'Molden')"]
def molden_params : List String := ["data", "allow_changes", "filename"]
def molekel : List String := ["0|if data.mo is None:", "1|raise PrepareDumpError", "0|if data.obasis is None:", "1|raise PrepareDumpError", "0|if data.mo.kind == 'generalized':", "1|raise PrepareDumpError", "0|if data.mo.occs is not None and abs(data.mo.nelec - np.round(data.mo.nelec)) > 0.0001:", "1|raise PrepareDumpError", "0|data = prepare_unrestricted_aminusb(data, allow_changes, filename, 'Molekel')", "0|return prepare_segmented(data, False, allow_changes, filename, 'Molekel')"]
def molekel_params : List String := ["data", "allow_changes", "filename"]
def wfn : List String := ["0|if data.mo is None:", "1|raise PrepareDumpError", "0|if data.obasis is None:", "1|raise PrepareDumpError", "0|if data.mo.kind == 'generalized':", "1|raise PrepareDumpError", "0|for shell in data.obasis.shells:", "1|if any((kind != 'c' for kind in shell.kinds)):", "2|raise PrepareDumpError", "0|data = prepare_unrestricted_aminusb(data, allow_changes, filename, 'WFN')", "0|return prepare_segmented(data, False, allow_changes, filename, 'WFN')"]
def wfn_params : List String := ["data", "allow_changes", "filename"]
def wfx : List String := ["0|if data.mo is None:", "1|raise PrepareDumpError", "0|if data.obasis is None:", "1|raise PrepareDumpError", "0|if data.mo.kind == 'generalized':", "1|raise PrepareDumpError", "0|for shell in data.obasis.shells:", "1|if any((kind != 'c' for kind in shell.kinds)):", "2|raise PrepareDumpError", "0|data = prepare_unrestricted_aminusb(data, allow_changes, filename, 'WFX')", "0|return prepare_segmented(data, False, allow_changes, filename, 'WFX')"]
def wfx_params : List String := ["data", "allow_changes", "filename"]
def qcschema : List String := ["0|if 'schema_name' not in data.extra:", "1|raise PrepareDumpError", "0|schema_name = data.extra['schema_name']", "0|if schema_name == 'qcschema_basis':", "1|raise PrepareDumpError", "0|if schema_name not in {'qcschema_input', 'qcschema_molecule', 'qcschema_output'}:", "1|raise PrepareDumpError", "0|return data"]
def qcschema_params : List String := ["data", "allow_changes", "filename"]
def qcschemaWriter : List String := ["schema_name == 'qcschema_molecule' -> Assign", "schema_name == 'qcschema_basis' -> Raise NotImplementedError", "schema_name == 'qcschema_input' -> Assign", "schema_name == 'qcschema_output' -> Assign", "else -> Raise DumpError"]
def seg_keep : String := "shell.ncon == 1 or (keep_sp and shell.ncon == 2 and (shell.angmoms == [0, 1]).all())"
def prepseg_guards : List String := ["data.obasis is None", "all((shell.ncon == 1 or (keep_sp and shell.ncon == 2 and (shell.angmoms == [0, 1]).all()) for shell in SHELLS))", "keep_sp", "not allow_changes"]
def prepseg_actions : List String := ["Raise", "Return", "AugAssign", "Raise"]
def prepseg_warns : Nat := 1
def prepseg_ret : String := "attrs.evolve(data, obasis=convert_to_segmented(data.obasis, keep_sp))"
def prepu_guards : List String := ["data.mo is None", "data.mo.kind == 'generalized'", "data.mo.kind == 'unrestricted'", "data.mo.occs_aminusb is None", "not allow_changes"]
def prepu_actions : List String := ["Raise", "Raise", "Return", "Return", "Raise"]
def prepu_warns : Nat := 1
def prepu_ret : String := "attrs.evolve(data, mo=convert_to_unrestricted(data.mo))"
end Iodata.Gen.PrepareSkeleton
