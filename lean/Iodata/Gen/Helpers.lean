-- GENERATED from /repo by harness/vh (translator); do not edit.
import Iodata.Model.Helpers
namespace Iodata.Gen.Helpers

/-- index patterns of the item assignments of `set_four_index_element`, in source order -/
def fourPatterns : List (List Nat) :=
  [[0, 1, 2, 3], [1, 0, 3, 2], [2, 1, 0, 3], [0, 3, 2, 1], [2, 3, 0, 1], [3, 2, 1, 0], [1, 2, 3, 0], [3, 0, 1, 2]]

/-- the `STRTOBOOL` dict of the imported module, in dict order -/
def strtoboolTable : List (List Char × Bool) :=
  [(['y'], true), (['y','e','s'], true), (['t'], true), (['t','r','u','e'], true), (['o','n'], true), (['1'], true), (['n'], false), (['n','o'], false), (['f'], false), (['f','a','l','s','e'], false), (['o','f','f'], false), (['0'], false)]

end Iodata.Gen.Helpers
