-- GENERATED from /repo by harness/vh (translator); do not edit.
namespace Iodata.Gen.ReaderKeys

/-- `load_one` of the format modules with a Lean reader, by `ast`: (module, keys that are in every dictionary the
function can return, keys that are stored on some paths only) -/
def resultKeys : List (List Char × List (List Char) × List (List Char)) :=
  [(['x','y','z'], [['a','t','c','o','o','r','d','s'], ['a','t','n','u','m','s'], ['t','i','t','l','e']], []),
   (['s','d','f'], [['a','t','c','o','o','r','d','s'], ['a','t','n','u','m','s'], ['b','o','n','d','s'], ['t','i','t','l','e']], []),
   (['m','o','l','2'], [['a','t','c','h','a','r','g','e','s'], ['a','t','c','o','o','r','d','s'], ['a','t','f','f','p','a','r','a','m','s'], ['a','t','n','u','m','s'], ['t','i','t','l','e']], [['b','o','n','d','s']]),
   (['p','d','b'], [['a','t','c','o','o','r','d','s'], ['a','t','f','f','p','a','r','a','m','s'], ['a','t','n','u','m','s'], ['e','x','t','r','a'], ['t','i','t','l','e']], [['b','o','n','d','s']]),
   (['c','u','b','e'], [['a','t','c','o','o','r','d','s'], ['a','t','c','o','r','e','n','u','m','s'], ['a','t','n','u','m','s'], ['c','e','l','l','v','e','c','s'], ['c','u','b','e'], ['t','i','t','l','e']], []),
   (['g','r','o','m','a','c','s'], [['a','t','c','o','o','r','d','s'], ['a','t','f','f','p','a','r','a','m','s'], ['c','e','l','l','v','e','c','s'], ['e','x','t','r','a'], ['t','i','t','l','e']], []),
   (['p','o','s','c','a','r'], [['a','t','c','o','o','r','d','s'], ['a','t','n','u','m','s'], ['c','e','l','l','v','e','c','s'], ['t','i','t','l','e']], []),
   (['c','h','g','c','a','r'], [['a','t','c','o','o','r','d','s'], ['a','t','n','u','m','s'], ['c','e','l','l','v','e','c','s'], ['c','u','b','e'], ['t','i','t','l','e']], []),
   (['l','o','c','p','o','t'], [['a','t','c','o','o','r','d','s'], ['a','t','n','u','m','s'], ['c','e','l','l','v','e','c','s'], ['c','u','b','e'], ['t','i','t','l','e']], []),
   (['c','h','a','r','m','m'], [['a','t','c','o','o','r','d','s'], ['a','t','f','f','p','a','r','a','m','s'], ['a','t','m','a','s','s','e','s'], ['e','x','t','r','a'], ['t','i','t','l','e']], [])]

/-- `load_many` of these modules: does every `yield` yield, unmodified, a dictionary returned by `load_one(lit, …)`? -/
def loadManyFrames : List (List Char × Bool) :=
  [(['x','y','z'], true), (['s','d','f'], true), (['m','o','l','2'], true), (['p','d','b'], true), (['g','r','o','m','a','c','s'], true)]

/-- `attrs` fields of `IOData` whose default is not `None` (by public name) -/
def notNoneDefaults : List (List Char) :=
  [['a','t','c','h','a','r','g','e','s'], ['a','t','f','f','p','a','r','a','m','s'], ['e','x','t','r','a'], ['m','o','m','e','n','t','s'], ['o','n','e','_','i','n','t','s'], ['o','n','e','_','r','d','m','s'], ['t','w','o','_','i','n','t','s'], ['t','w','o','_','r','d','m','s']]

end Iodata.Gen.ReaderKeys
