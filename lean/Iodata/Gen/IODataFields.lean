-- GENERATED from /repo by harness/vh (translator); do not edit.
import Iodata.Model.IOData
namespace Iodata.Gen.IODataFields
def natomChain : List String := ["atcoords", "_atcorenums", "atgradient", "atfrozen", "atmasses", "atnums"]
def shapeValidated : List (String × Nat) := [("atcoords", 2), ("_atcorenums", 1), ("atfrozen", 1), ("atgradient", 2), ("atmasses", 1), ("atnums", 1)]
def postInitReplay : List (String × String) := [("_atcorenums", "atcorenums"), ("_charge", "charge"), ("_nelec", "nelec"), ("_spinpol", "spinpol")]
def plainFields : List String := ["_charge", "mo", "_nelec", "_spinpol"]
def propertySetters : List String := ["atcorenums", "charge", "nelec", "spinpol"]
end Iodata.Gen.IODataFields
