/- Line-protocol handlers of the raw reader models (C07, parser part):

   rdr <format> <a|u> <hex>      → ok <shapes> ctor=<ok|Class> @<lineno> | err <Class> @<lineno>
                                   (poscar, chgcar, locpot: an `ok` line ends with ` zsum=<sum of atnums>`)
                                   (`a`: two hex digits per character, `u`: four hex digits per code point)
   pynum int|float|title|isdigit|split <a|u> <hex>
   rctor <atcoords> <atnums> <atcorenums> <atcharges> <bonds> <cellvecs> <atmasses>   → ok | TypeError
                                   (shape `-` absent, `s` scalar, `3x3`; atcharges `-` or `3,4`) -/
import Iodata.Gen.Layouts
import Iodata.Model.Rd.All
namespace Iodata.Drv.C07R
open Iodata.Chars Iodata.Rd

def hexVal (c : Char) : Nat :=
  if '0' ≤ c && c ≤ '9' then c.toNat - 48 else if 'a' ≤ c && c ≤ 'f' then c.toNat - 87 else 0

def decA : List Char → Str → Str
  | a :: b :: r, acc => decA r (Char.ofNat (hexVal a * 16 + hexVal b) :: acc)
  | _, acc => acc.reverse

def decU : List Char → Str → Str
  | a :: b :: c :: d :: r, acc =>
    decU r (Char.ofNat (((hexVal a * 16 + hexVal b) * 16 + hexVal c) * 16 + hexVal d) :: acc)
  | _, acc => acc.reverse

def decText (enc h : String) : Str :=
  if h == "-" then [] else if enc == "u" then decU h.toList [] else decA h.toList []

def hexDigit (n : Nat) : Char := if n < 10 then Char.ofNat (48 + n) else Char.ofNat (87 + n)
def encU (s : Str) : String :=
  String.ofList (s.foldr (fun c acc =>
    let n := c.toNat
    hexDigit (n / 4096 % 16) :: hexDigit (n / 256 % 16) :: hexDigit (n / 16 % 16) :: hexDigit (n % 16) :: acc) [])

def T := Iodata.Gen.Layouts.tables

def readFmt (fmt : String) (ls : List Str) : Option (Out RObj) :=
  match fmt with
  | "xyz" => some (Xyz.read T ls)
  | "mol2" => some (Mol2.read ls)
  | "pdb" => some (Pdb.read Iodata.Gen.Layouts.pdbL ls)
  | "cube" => some (Cube.read ls)
  | "gromacs" => some (Gro.read ls)
  | "sdf" => some (Sdf.read T Iodata.Gen.Layouts.sdfL ls)
  | "poscar" => some (Vasp.readPoscar T ls)
  | "chgcar" => some (Vasp.readChgcar T ls)
  | "locpot" => some (Vasp.readLocpot T ls)
  | "crd" => some (Crd.read ls)
  | _ => none

/-- value fingerprint appended to the response of the VASP formats: `atnums.sum()` of a returned result -/
def valueTag (fmt : String) (r : Out RObj) (ls : List Str) : String :=
  if fmt == "poscar" || fmt == "chgcar" || fmt == "locpot" then
    match r.res, Vasp.zsum T ls with
    | .ok _, some z => s!" zsum={z}"
    | _, _ => ""
  else ""

def decShape (s : String) : Option (List Nat) :=
  if s == "-" then none else if s == "s" then some [] else some ((s.splitOn "x").map String.toNat!)

def decLens (s : String) : List Nat := if s == "-" then [] else (s.splitOn ",").map String.toNat!

def handle : List String → Option String
  | ["rdr", fmt, enc, h] =>
    match readFmt fmt (splitLines (decText enc h)) with
    | some r => some (r.show ++ valueTag fmt r (splitLines (decText enc h)))
    | none => some "unknown-format"
  | ["pynum", "int", enc, h] =>
    some (match pyInt (decText enc h) with | some i => s!"ok {i}" | none => "err")
  | ["pynum", "float", enc, h] => some (if pyFloatOk (decText enc h) then "ok" else "err")
  | ["pynum", "title", enc, h] => some ("ok " ++ encU (titleU (decText enc h)))
  | ["pynum", "upper", enc, h] => some ("ok " ++ encU (upperStrU (decText enc h)))
  | ["pynum", "isdigit", enc, h] => some (if isDigitStrU (decText enc h) then "ok 1" else "ok 0")
  | ["pynum", "split", enc, h] => some ("ok " ++ "/".intercalate ((splitWs (decText enc h)).map encU))
  | ["pynum", "strip", enc, h] => some ("ok " ++ encU (strip (decText enc h)))
  | ["rctor", a, b, c, d, e, f, g] =>
    let o : RObj := { atcoords := decShape a, atnums := decShape b, atcorenums := decShape c,
                      atcharges := decLens d, bonds := decShape e, cellvecs := decShape f, atmasses := decShape g }
    some (match ctorE o with | none => "ok" | some c => c.toString)
  | _ => none

end Iodata.Drv.C07R
