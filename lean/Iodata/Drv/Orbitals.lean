/- Line-protocol handlers for the `mo` and `shl` streams (C12).

`mo <op> …` / `shl <op> …`: operation sequences on one object; the answer lists, for every
operation, `<result>;<observables>` joined by `|`.  Before the first successful `new` there is no
object (`noobj`). -/
import Iodata.Model.Orbitals
import Iodata.Drv.IOData
namespace Iodata.Drv.Orbitals
open Iodata.Orb
open Iodata.Drv.IOData (parseRat parseOptRat parseItems parseArr kv showOpt showRat showArr)

def parseKind : String → Kind
  | "r" => .restricted | "u" => .unrestricted | "g" => .generalized | _ => .other

def parseOptNat (s : String) : Option Nat := if s == "-" then none else s.toNat?

def applyArg (a : MO) (p : String × String) : MO :=
  match p.1 with
  | "kind" => { a with kind := parseKind p.2 }
  | "norba" => { a with norba := parseOptNat p.2 }
  | "norbb" => { a with norbb := parseOptNat p.2 }
  | "occs" => { a with occs := parseArr p.2 }
  | "coeffs" => { a with coeffs := parseArr p.2 }
  | "energies" => { a with energies := parseArr p.2 }
  | "irreps" => { a with irreps := parseArr p.2 }
  | "aminusb" => { a with aminusb := parseArr p.2 }
  | _ => a

def parseOp (w : String) : Option Op :=
  if w.startsWith "new:" then
    let body := (w.drop 4).toString
    let args := if body == "" then [] else body.splitOn ";"
    some (.construct (args.foldl (fun a x => applyArg a (kv x)) { kind := .other, norba := none, norbb := none }))
  else if w.startsWith "set:" then
    let p := kv (w.drop 4).toString
    match p.1 with
    | "occs" => some (.set .occs (parseArr p.2))
    | "coeffs" => some (.set .coeffs (parseArr p.2))
    | "energies" => some (.set .energies (parseArr p.2))
    | "irreps" => some (.set .irreps (parseArr p.2))
    | "aminusb" => some (.set .aminusb (parseArr p.2))
    | "occsa" => (parseArr p.2).map .setOccsa
    | "occsb" => (parseArr p.2).map .setOccsb
    | "kind" => some (.setKind (parseKind p.2))
    | "norba" => some (.setNorba (parseOptNat p.2))
    | "norbb" => some (.setNorbb (parseOptNat p.2))
    | _ => none
  else none

def showE {α : Type} (f : α → String) : Except Err (Option α) → String
  | .ok v => showOpt f v
  | .error e => "!" ++ e.toString

def showKind : Kind → String
  | .restricted => "r" | .unrestricted => "u" | .generalized => "g" | .other => "x"

def showObs (m : MO) : String :=
  s!"kind={showKind m.kind};na={showOpt toString m.norba};nb={showOpt toString m.norbb};" ++
  s!"occs={showOpt showArr m.occs};ab={showOpt showArr m.aminusb};oa={showE showArr (occsa m)};" ++
  s!"ob={showE showArr (occsb m)};ne={showOpt showRat (nelec m)};sp={showE showRat (spinpol m)};" ++
  s!"norb={showOpt toString (norb m)};ca={showE showArr (view m false m.coeffs)};cb={showE showArr (view m true m.coeffs)};" ++
  s!"ea={showE showArr (view m false m.energies)};eb={showE showArr (view m true m.energies)};" ++
  s!"ia={showE showArr (view m false m.irreps)};ib={showE showArr (view m true m.irreps)}"

def runOps : Option MO → List String → List String → List String
  | _, [], acc => acc.reverse
  | cur, w :: ws, acc =>
    match parseOp w with
    | none => (("bad-op:" ++ w) :: acc).reverse
    | some op =>
      match cur, op with
      | none, .construct a =>
        (match construct a with
         | .ok m => runOps (some m) ws (("ok;" ++ showObs m) :: acc)
         | .error e => runOps none ws (("err:" ++ e.toString ++ ";noobj") :: acc))
      | none, _ => runOps none ws ("noobj" :: acc)
      | some m, op =>
        let r := step m op
        let res := match r.2 with
          | some e => "err:" ++ e.toString
          | none => "ok"
        runOps (some r.1) ws ((res ++ ";" ++ showObs r.1) :: acc)

/-! shells: `new:l=[0,1];k=[c,p];nexp=2;cs=[2,2]`, `set:l=[..]`, `set:k=[..]`, `set:nexp=3`, `set:cs=[..]` -/

def parseNats (s : String) : List Nat := ((parseItems s).getD []).map fun x => x.toNat?.getD 0
def parseStrs (s : String) : List String := (parseItems s).getD []

def applyShellArg (a : Shell) (p : String × String) : Shell :=
  match p.1 with
  | "l" => { a with angmoms := parseNats p.2 }
  | "k" => { a with kinds := parseStrs p.2 }
  | "nexp" => { a with nexp := p.2.toNat?.getD 0 }
  | "cs" => { a with cshape := parseNats p.2 }
  | _ => a

def parseShellOp (w : String) : Option ShellOp :=
  if w.startsWith "new:" then
    let args := ((w.drop 4).toString).splitOn ";"
    some (.construct (args.foldl (fun a x => applyShellArg a (kv x)) { angmoms := [], kinds := [], nexp := 0, cshape := [] }))
  else if w.startsWith "set:" then
    let p := kv (w.drop 4).toString
    match p.1 with
    | "l" => some (.setAngmoms (parseNats p.2))
    | "k" => some (.setKinds (parseStrs p.2))
    | "nexp" => some (.setExponents (p.2.toNat?.getD 0))
    | "cs" => some (.setCoeffs (parseNats p.2))
    | _ => none
  else none

def showNats (l : List Nat) : String := "[" ++ ",".intercalate (l.map toString) ++ "]"

def showShell (s : Shell) : String :=
  let nb := match s.nbasis with
    | .ok n => toString n
    | .error e => "!" ++ e.toString
  s!"nbasis={nb};ncon={s.angmoms.length};nexp={s.nexp};l={showNats s.angmoms};k=[{",".intercalate s.kinds}];cs={showNats s.cshape}"

def runShellOps : Option Shell → List String → List String → List String
  | _, [], acc => acc.reverse
  | cur, w :: ws, acc =>
    match parseShellOp w with
    | none => (("bad-op:" ++ w) :: acc).reverse
    | some op =>
      match cur, op with
      | none, .construct a =>
        (match Shell.construct a with
         | .ok s => runShellOps (some s) ws (("ok;" ++ showShell s) :: acc)
         | .error e => runShellOps none ws (("err:" ++ e.toString ++ ";noobj") :: acc))
      | none, _ => runShellOps none ws ("noobj" :: acc)
      | some s, op =>
        let r := s.step op
        let res := match r.2 with
          | some e => "err:" ++ e.toString
          | none => "ok"
        runShellOps (some r.1) ws ((res ++ ";" ++ showShell r.1) :: acc)

def handle : List String → Option String
  | "mo" :: ops => some ("|".intercalate (runOps none ops []))
  | "shl" :: ops => some ("|".intercalate (runShellOps none ops []))
  | _ => none

end Iodata.Drv.Orbitals
