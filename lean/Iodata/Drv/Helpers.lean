/- Line-protocol handlers for the `four` / `vol` / `strtobool` / `checkdm` streams (C20). -/
import Iodata.Model.Helpers
import Iodata.Gen.Helpers
namespace Iodata.Drv.Helpers
open Iodata.Helpers

def parseList (s : String) : List String := if s == "@" then [] else s.splitOn ","

/-- `p/q`, `-p/q` or an integer -/
def parseRat (s : String) : Rat :=
  match s.splitOn "/" with
  | [p, q] => mkRat p.toInt! q.toNat!
  | _ => (s.toInt! : Rat)

def showRat (r : Rat) : String := s!"{r.num}/{r.den}"

def parseV3 (s : String) : V3 :=
  match (s.splitOn ",").map parseRat with
  | [x, y, z] => (x, y, z)
  | _ => (0, 0, 0)

def parseVecs (s : String) : List V3 := if s == "@" then [] else (s.splitOn ";").map parseV3

def showVol : Vol → String
  | .root sq => "root " ++ showRat sq
  | .exact v => "exact " ++ showRat v
  | .valueError => "err ValueError"

def showDm : DmRes → String
  | .ok => "ok"
  | .tooSmall => "err ValueError:min"
  | .tooLarge => "err ValueError:max"

def handle : List String → Option String
  | ["four", n, i, j, k, l] =>
    some ("ok " ++ ",".intercalate ((writtenFlat n.toNat! i.toNat! j.toNat! k.toNat! l.toNat!).map toString))
  | ["vol", vs] => some (showVol (volume (parseVecs vs)))
  | ["strtobool", cps] =>
    some (match strtobool Iodata.Gen.Helpers.strtoboolTable ((parseList cps).map fun c => Char.ofNat c.toNat!) with
      | some true => "ok True"
      | some false => "ok False"
      | none => "err ValueError")
  | ["checkdm", eps, occMax, occs] =>
    match (parseList occs).map parseRat with
    | o :: os => some (showDm (checkDm o os (parseRat eps) (parseRat occMax)))
    | [] => some "err ValueError:empty"
  | _ => none

end Iodata.Drv.Helpers
