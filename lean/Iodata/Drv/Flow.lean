/- Line-protocol handler of the `flow` stream (C08, C07): run `exec` on the GENERATED api.py terms
   under the behaviour vector of the request.

   flow <entry> key=value ...      entry ∈ dump_one dump_many write_input load_one load_many
     sel open end iend : exception name or `-`      hp gen : 0|1      pre post : <n>:<exc|->
     fs : absent | e | 1.2.3        frames : @ | <attrs>/<prep>/<n>:<exc|-> ; ...   attrs : @ | v,n,r:<exc>
     items : @ | <ops>/<res>/<ctor> ; ...  ops : @ | string of n/b      quota : - | k      nlines : k
   → <ok|ret|raise:Exc[:lineno]> fs=<absent|e|1.2.3> tr=<letters, oldest first> -/
import Iodata.Model.Flow
import Iodata.Gen.ApiFlow
namespace Iodata.Drv.Flow
open Iodata.Flow

def parseExc (s : String) : Option Exc := Exc.all.find? (fun e => e.toString == s)

def parseOptExc (s : String) : Option Exc := if s == "-" then none else parseExc s

def parseWriteB (s : String) : WriteB :=
  match s.splitOn ":" with
  | [n, e] => { n := n.toNat!, fail := parseOptExc e }
  | _ => {}

def parseAttr (s : String) : AttrB :=
  if s == "v" then .val else if s == "n" then .none
  else match s.splitOn ":" with
    | [_, e] => .raises ((parseExc e).getD .other)
    | _ => .val

def parseFrame (s : String) : Frame :=
  match s.splitOn "/" with
  | [a, p, w] =>
    { attrs := if a == "@" then [] else (a.splitOn ",").map parseAttr,
      prep := parseOptExc p, w := parseWriteB w }
  | _ => {}

def parseItem (s : String) : Item :=
  match s.splitOn "/" with
  | [o, r, c] =>
    { ops := if o == "@" then [] else o.toList.map (· == 'n'), res := parseOptExc r, ctor := parseOptExc c }
  | _ => {}

def parseList {α : Type} (f : String → α) (s : String) : List α :=
  if s == "@" then [] else (s.splitOn ";").map f

def parseFs (s : String) : Option Bytes :=
  if s == "absent" then none else if s == "e" then some [] else some ((s.splitOn ".").map String.toNat!)

def lookup (kv : List (String × String)) (k : String) (d : String) : String :=
  match kv.find? (fun p => p.1 == k) with
  | some p => p.2
  | none => d

def evChar : Ev → String
  | .openW => "O" | .openR => "R" | .write _ => "w" | .close => "c" | .getattr => "g"
  | .prep => "p" | .ctor => "k" | .yield => "y" | .next => "n" | .back => "b"

def showFs : Option Bytes → String
  | none => "absent"
  | some [] => "e"
  | some l => ".".intercalate (l.map toString)

def showOut : Out → String
  | .normal => "ok"
  | .ret => "ret"
  | .raised e none => "raise:" ++ e.toString
  | .raised e (some ln) => "raise:" ++ e.toString ++ ":" ++ toString ln

def showRes (r : Res) : String :=
  showOut r.1 ++ " fs=" ++ showFs (r.2.fs 0) ++ " tr=" ++ String.join (r.2.trace.reverse.map evChar)

def handle : List String → Option String
  | "flow" :: entry :: rest =>
    let kv := rest.filterMap fun t => match t.splitOn "=" with
      | [k, v] => some (k, v)
      | _ => none
    let g := lookup kv
    let b : Beh :=
      { select := parseOptExc (g "sel" "-"), hasPrepare := g "hp" "1" == "1",
        openFail := parseOptExc (g "open" "-"), iterEnd := parseOptExc (g "end" "-"),
        pre := parseWriteB (g "pre" "0:-"), post := parseWriteB (g "post" "0:-"),
        items := parseList parseItem (g "items" "@"), itemsEnd := parseOptExc (g "iend" "-"),
        fmtIsGen := g "gen" "1" == "1",
        quota := (if g "quota" "-" == "-" then none else some (g "quota" "-").toNat!),
        nlines := (g "nlines" "0").toNat! }
    let frames := parseList parseFrame (g "frames" "@")
    let fs0 : FS := fun p => if p = 0 then parseFs (g "fs" "absent") else none
    match entry with
    | "dump_one" => some (showRes (runOne Gen.ApiFlow.dumpOne b (frames.headD {}) 0 fs0))
    | "write_input" => some (showRes (runOne Gen.ApiFlow.writeInput b (frames.headD {}) 0 fs0))
    | "dump_many" => some (showRes (runMany Gen.ApiFlow.dumpMany b frames 0 fs0))
    | "load_one" => some (showRes (runLoadOne Gen.ApiFlow.loadOne b 0 fs0))
    | "load_many" =>
      -- a generator that ends by `return` and one that runs to its end are the same for its consumer
      let r := runLoadMany Gen.ApiFlow.loadMany b 0 fs0
      some (showRes ((if r.1 == .ret then .normal else r.1), r.2))
    | _ => none
  | _ => none

end Iodata.Drv.Flow
