/- Line-protocol handlers for C04: `unitval`, `unitrow`. -/
import Iodata.Model.Units
import Iodata.Gen.Units
namespace Iodata.Drv.Units
open Iodata.Units

def parseRat (s : String) : Rat :=
  match s.splitOn "/" with
  | [n] => (n.toInt?.getD 0 : Int)
  | [n, d] => ((n.toInt?.getD 0 : Int) : Rat) / ((d.toNat?.getD 1 : Nat) : Rat)
  | _ => 0

def showRat (q : Rat) : String := s!"{q.num}/{q.den}"

def handle : List String → Option String
  | ["unitval", name] =>
    some (match unitValue codata2018 name, unitValue codata2022 name with
      | some a, some b => s!"ok {showRat a} {showRat b}"
      | _, _ => "unknown-unit")
  | ["unitrow", fmt, qty, dir, a, b, slack] =>
    some (if rowOk Iodata.Gen.Units.constants ⟨fmt, qty, dir, parseRat a, parseRat b, parseRat slack⟩ then "ok" else "bad")
  | _ => none

end Iodata.Drv.Units
