/- Line-protocol handler for the `prep` stream (C08, per-format `prepare_dump` decisions).

`prep <fmt> <allow> <postscf> <lot|-> <schema|-> <mo|none> (none | <shell>*)`
with the orbital word of the `prepu` stream and the shell words of the `seg` stream (C14).
Answer: `ret same=<0|1> warns=<n> [mo=… ob=…]` or `err:<Class>@<function>#<k-th raise>` /
`err:<Class>@<function>:<assigned name>`. -/
import Iodata.Model.Prepare
import Iodata.Drv.Segment
namespace Iodata.Drv.Prepare
open Iodata.Orb Iodata.Seg Iodata.Prep
open Iodata.Drv.Segment (parseShell showShell parseMo showKind)
open Iodata.Drv.Orbitals (showObs)

/-- format word; `json_qcschema:strict` = the tree whose QCSchema pre-flight also refuses unknown schema names -/
def parseFmt : String → Option (Fmt × Bool)
  | "fchk" => some (.fchk, false) | "molden" => some (.molden, false) | "molekel" => some (.molekel, false)
  | "wfn" => some (.wfn, false) | "wfx" => some (.wfx, false)
  | "json_qcschema" => some (.qcschema, false) | "json_qcschema:strict" => some (.qcschema, true)
  | _ => none

/-- where the real traceback ends for this raise site -/
def site (f : Fmt) : Reason → String
  | .noMo => "prepare_dump#0"
  | .noObasis => "prepare_dump#1"
  | .generalizedMo => if f = .fchk then "prepare_dump#0" else "prepare_dump#2"
  | .pureFunctions => "prepare_dump#3"
  | .fractionalNelec => "prepare_dump#3"
  | .alphaUnavailable => "prepare_dump:na"
  | .alphaAufbau => "prepare_dump#1"
  | .betaUnavailable => "prepare_dump:nb"
  | .betaAufbau => "prepare_dump#2"
  | .postScfLot => "prepare_dump#3"
  | .uNoMo => "prepare_unrestricted_aminusb#0"
  | .uGeneralized => "prepare_unrestricted_aminusb#1"
  | .uAminusb => "prepare_unrestricted_aminusb#2"
  | .uConvert => "prepare_unrestricted_aminusb:return"
  | .sNoObasis => "prepare_segmented#0"
  | .sContraction => "prepare_segmented#1"
  | .noSchemaName => "prepare_dump#0"
  | .schemaBasis => "prepare_dump#1"
  | .schemaUnknown => "prepare_dump#2"

def showCls : Cls → String
  | .prepareDump => "PrepareDumpError"
  | .err e => e.toString

def showObj (d : Obj) : String :=
  "mo=" ++ (match d.mo with
    | none => "none"
    | some m => s!"kind={showKind m.kind};" ++ showObs m) ++
  " ob=" ++ (match d.obasis with
    | none => "none"
    | some b => if b.isEmpty then "@" else "|".intercalate (b.map showShell))

def showOutcome (f : Fmt) : Outcome → String
  | .raised c r => s!"err:{showCls c}@{site f r}"
  | .ret d same ws =>
    if same then s!"ret same=1 warns={ws.length}" else s!"ret same=0 warns={ws.length} " ++ showObj d

def handle : List String → Option String
  | "prep" :: fmt :: allow :: post :: lot :: schema :: mo :: rest =>
    match parseFmt fmt with
    | none => some "bad-format"
    | some (f, strict) =>
      let ob : Option Basis := match rest with
        | ["none"] => none
        | ws => some (ws.map parseShell)
      let d : Obj := { mo := if mo == "none" then none else some (parseMo mo), obasis := ob,
                       schema := if schema == "-" then none else some schema, postScf := post == "1",
                       lot := if lot == "-" then none else some lot }
      some (showOutcome f (prepareDump strict f (allow == "1") d))
  | _ => none

end Iodata.Drv.Prepare
