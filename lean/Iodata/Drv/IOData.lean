/- Line-protocol handler for the `iod` stream (C11).

`iod <op> <op> …` runs the operations from `IOData()` and answers, for every operation,
`<result>;<observables>` joined by `|`.  Operations (no blanks inside):
`new:k=v;k=v…`, `set:k=v`, `get:k`.  Values: `-` (None), `p/q`, `[a,b]`, mo as `(nelec,spinpol)`. -/
import Iodata.Model.IOData
namespace Iodata.Drv.IOData
open Iodata.IOD

def parseRat (s : String) : Option Rat :=
  match s.splitOn "/" with
  | [n] => n.toInt?.map (fun i => (i : Rat))
  | [n, d] => match n.toInt?, d.toNat? with
    | some i, some k => some ((i : Rat) / (k : Rat))
    | _, _ => none
  | _ => none

def parseOptRat (s : String) : Option Rat := if s == "-" then none else parseRat s

/-- `[a,b,c]` / `[]` / `-` -/
def parseItems (s : String) : Option (List String) :=
  if s == "-" then none
  else
    let inner := ((s.drop 1).dropEnd 1).toString
    if inner == "" then some [] else some (inner.splitOn ",")

def parseArr (s : String) : Option (List Rat) :=
  (parseItems s).map fun l => l.map fun x => (parseRat x).getD 0

def parseIntArr (s : String) : Option (List Int) :=
  (parseItems s).map fun l => l.map fun x => x.toInt?.getD 0

/-- `(n,s)` or `-` -/
def parseMo (s : String) : Option Mo :=
  if s == "-" then none
  else
    match (((s.drop 1).dropEnd 1).toString).splitOn "," with
    | [a, b] => some { nelec := parseOptRat a, spinpol := parseOptRat b }
    | _ => none

def kv (s : String) : String × String :=
  match s.splitOn "=" with
  | [k, v] => (k, v)
  | _ => (s, "-")

def applyArg (a : St) (p : String × String) : St :=
  match p.1 with
  | "atcoords" => { a with atcoords := parseArr p.2 }
  | "atcorenums" => { a with atcorenums := parseArr p.2 }
  | "atfrozen" => { a with atfrozen := parseArr p.2 }
  | "atgradient" => { a with atgradient := parseArr p.2 }
  | "atmasses" => { a with atmasses := parseArr p.2 }
  | "atnums" => { a with atnums := parseIntArr p.2 }
  | "charge" => { a with charge := parseOptRat p.2 }
  | "nelec" => { a with nelec := parseOptRat p.2 }
  | "spinpol" => { a with spinpol := parseOptRat p.2 }
  | "mo" => { a with mo := parseMo p.2 }
  | _ => a

def parseOp (w : String) : Option Op :=
  if w.startsWith "new:" then
    let body := (w.drop 4).toString
    let args := if body == "" then [] else body.splitOn ";"
    some (.construct (args.foldl (fun a x => applyArg a (kv x)) {}))
  else if w.startsWith "set:" then
    let p := kv (w.drop 4).toString
    match p.1 with
    | "atcoords" => some (.setArr .atcoords (parseArr p.2))
    | "atgradient" => some (.setArr .atgradient (parseArr p.2))
    | "atfrozen" => some (.setArr .atfrozen (parseArr p.2))
    | "atmasses" => some (.setArr .atmasses (parseArr p.2))
    | "atnums" => some (.setAtnums (parseIntArr p.2))
    | "atcorenums" => some (.setCore (parseArr p.2))
    | "charge" => some (.setCharge (parseOptRat p.2))
    | "nelec" => some (.setNelec (parseOptRat p.2))
    | "spinpol" => some (.setSpinpol (parseOptRat p.2))
    | "mo" => some (.setMo (parseMo p.2))
    | _ => none
  else if w.startsWith "get:" then
    match (w.drop 4).toString with
    | "atcorenums" => some .getCore
    | "charge" => some .getCharge
    | "nelec" => some .getNelec
    | "spinpol" => some .getSpinpol
    | "natom" => some .getNatom
    | _ => none
  else none

def showOpt {α : Type} (f : α → String) : Option α → String
  | none => "-"
  | some x => f x

def showRat (r : Rat) : String := toString r
def showArr (l : List Rat) : String := "[" ++ ",".intercalate (l.map showRat) ++ "]"
def showIntArr (l : List Int) : String := "[" ++ ",".intercalate (l.map toString) ++ "]"

def showObs (o : Obs) : String :=
  if o.readErr then "read-error" else
  s!"c={showOpt showRat o.charge};n={showOpt showRat o.nelec};s={showOpt showRat o.spinpol};" ++
  s!"ac={showOpt showArr o.atcorenums};na={showOpt toString o.natom};z={showOpt showIntArr o.atnums};" ++
  s!"xyz={showOpt showArr o.atcoords};g={showOpt showArr o.atgradient};f={showOpt showArr o.atfrozen};" ++
  s!"m={showOpt showArr o.atmasses};mo={if o.hasMo then 1 else 0}"

def showVal : Val → String
  | .unit => "ok"
  | .num v => "ok=" ++ showOpt showRat v
  | .arr v => "ok=" ++ showOpt showArr v
  | .nat v => "ok=" ++ showOpt toString v

def runOps : St → List String → List String → List String
  | _, [], acc => acc.reverse
  | s, w :: ws, acc =>
    match parseOp w with
    | none => (("bad-op:" ++ w) :: acc).reverse
    | some op =>
      let r := step s op
      let res := match r.2.1 with
        | some e => "err:" ++ e.toString
        | none => showVal r.2.2
      runOps r.1 ws ((res ++ ";" ++ showObs (obs r.1)) :: acc)

/-- results of all operations, observables after the last one only (deep exhaustive runs) -/
def lastOnly (parts : List String) : String :=
  let res := parts.map fun p => (p.splitOn ";").headD ""
  let obsOf (p : String) : String := ";".intercalate ((p.splitOn ";").drop 1)
  ",".intercalate res ++ "|" ++ (match parts.getLast? with | some p => obsOf p | none => "")

def handle : List String → Option String
  | "iod" :: ops => some ("|".intercalate (runOps init ops []))
  | "iodl" :: ops => some (lastOnly (runOps init ops []))
  | _ => none

end Iodata.Drv.IOData
