/- Line-protocol handler of the `cli` stream (C18): `cli <argv tokens…>` → the API calls `main()` makes. -/
import Iodata.Model.Cli
import Iodata.Gen.ApiFlow
namespace Iodata.Drv.Cli
open Iodata.Cli Iodata.Gen

def handle : List String → Option String
  | "cli" :: argv =>
    some ((runMain ApiFlow.signatures ApiFlow.argparseTable ApiFlow.main ApiFlow.convert argv).getD "model-error")
  | _ => none

end Iodata.Drv.Cli
