/- Line-protocol handler for the `cascade` stream (C05).
   request : `cascade <shell types, e.g. 0c,1c,2p> <norm-test outcome per variant, e.g. raw/raw:0,orca/raw:1,...>`
   response: `tests=<basis>/<coeff>:<0|1>,... out=<idx>:<warning|none> store=<basis>/<coeff>` (`raw` = as read)  or  `... out=LoadError` -/
import Iodata.Model.Cascade
import Iodata.Gen.Cascade
namespace Iodata.Drv.Cascade
open Iodata.Cascade

def parseType (s : String) : ShellType :=
  match s.toList.reverse with
  | k :: rest => ((String.ofList rest.reverse).toNat!, k)
  | [] => (0, '?')

def parseTypes (s : String) : List ShellType := if s == "@" then [] else (s.splitOn ",").map parseType

/-- `raw/raw:0,orca/raw:1,...` : outcome of the norm test per tested (basis, coefficient) variant; the
oracle of attempt `i` is looked up by the variant that attempt tests (absent = false) -/
def okOf (as : List Attempt) (spec : String) : Nat → Bool := fun i =>
  match as[i]? with
  | none => false
  | some a =>
    let key := s!"{a.testBasis.show}/{a.testCoeff.show}"
    (spec.splitOn ",").any fun e => e == key ++ ":1"

def showTests (as : List Attempt) (ts : List (Nat × Bool)) : String :=
  ",".intercalate (ts.map fun t =>
    match as[t.1]? with
    | some a => s!"{a.testBasis.show}/{a.testCoeff.show}:{if t.2 then 1 else 0}"
    | none => "?")

def showOutcome : Outcome → String
  | .loadError => "out=LoadError"
  | .loaded i a =>
    let w := match a.warn with | some w => w.show | none => "none"
    let b := match a.storeBasis with | some b => b.show | none => "raw"
    let c := match a.storeCoeff with | some c => c.show | none => "raw"
    s!"out={i}:{w} store={b}/{c}"

def handle : List String → Option String
  | ["cascade", types, bits] =>
    let sh := parseTypes types
    let T := Iodata.Gen.Cascade.tables
    let as := Iodata.Gen.Cascade.cascade
    let ok := okOf as bits
    some (s!"tests={showTests as (testsFrom T sh ok 0 as)} " ++ showOutcome (run T as sh ok))
  | ["cascade-scales", types] =>
    -- per basis fix, the scale descriptor of every shell
    let sh := parseTypes types
    let T := Iodata.Gen.Cascade.tables
    let one (n : String) (f : BasisFix) := n ++ "=" ++ ",".intercalate (sh.map fun s => ((T.basis f).get s).show)
    some (" ".intercalate [one "orca" .orca, one "psi4_10" .psi4old, one "turbomole" .turbomole, one "unnorm" .normalize])
  | _ => none

end Iodata.Drv.Cascade
