/- Line-protocol handlers for C06: `kern`, `gotab`, `cart`, `nrm`, `ovl`, `tfchk`. -/
import Iodata.Model.Overlap
import Iodata.Model.CartPure
import Iodata.Gen.Cartpure
import Iodata.Gen.Conventions
import Iodata.Drv.Conv
namespace Iodata.Drv.Overlap
open Iodata.Overlap

/-! ### exact rationals on the wire: `num/den` -/

def parseRat (s : String) : Rat :=
  match s.splitOn "/" with
  | [n] => (n.toInt?.getD 0 : Int)
  | [n, d] => ((n.toInt?.getD 0 : Int) : Rat) / ((d.toNat?.getD 1 : Nat) : Rat)
  | _ => 0

def showRat (q : Rat) : String := s!"{q.num}/{q.den}"

/-- `|·|` applied to every summand: the scale of the forward error bound -/
def kernelAbs (n1 n2 : Nat) (x1 x2 t : Rat) : Rat :=
  sumL ((kernIdx n1 n2).map fun p => (term n1 n2 x1 x2 t p.1 p.2).abs)

/-! ### doubles with a running first-order error bound -/

structure EF where
  v : Float
  e : Float

def u : Float := 1.1102230246251565e-16

def rnd (v e : Float) (k : Float := 1.0) : EF := ⟨v, e + k * v.abs * u⟩

instance : Add EF := ⟨fun a b => rnd (a.v + b.v) (a.e + b.e)⟩
instance : Sub EF := ⟨fun a b => rnd (a.v - b.v) (a.e + b.e)⟩
instance : Neg EF := ⟨fun a => ⟨-a.v, a.e⟩⟩
instance : Mul EF := ⟨fun a b => rnd (a.v * b.v) (a.v.abs * b.e + b.v.abs * a.e + a.e * b.e)⟩
instance : Div EF := ⟨fun a b =>
  let v := a.v / b.v
  let den := b.v.abs - b.e
  rnd v ((a.e + v.abs * b.e) / (if den > 0 then den else b.v.abs))⟩
instance : NatCast EF := ⟨fun n => ⟨n.toFloat, 0⟩⟩
instance : HPow EF Nat EF := ⟨fun a n =>
  if n = 0 then ⟨1.0, 0⟩ else
  let v := Float.pow a.v n.toFloat
  rnd v (n.toFloat * (Float.pow (a.v.abs + a.e) (n - 1).toFloat) * a.e) 2.0⟩

def efOps : Ops EF where
  exp a := let v := Float.exp a.v; rnd v (v * (Float.exp a.e - 1.0)) 2.0
  sqrt a := let v := Float.sqrt a.v; rnd v (if v > 0 then a.e / (2.0 * v) * 1.01 else Float.sqrt a.e) 1.0
  pow15 a := let v := Float.pow a.v 1.5; rnd v (1.5 * Float.sqrt (a.v.abs + a.e) * a.e) 2.0
  pi := ⟨3.141592653589793, 0⟩
  ltEps a := a.v < 1e-15
  gtEps a := a.v > 1e-15
  minL l := l.foldl (fun a b => if b.v < a.v then b else a) (l.headD ⟨0, 0⟩)

def ofBits (s : String) : EF := ⟨Float.ofBits (s.toNat?.getD 0).toUInt64, 0⟩

def ratToEF (q : Rat) : EF := ⟨Float.ofInt q.num / Float.ofNat q.den, 0⟩

def tfsEF : Array (List (List EF)) :=
  (Iodata.Gen.Cartpure.tfs.map fun tf => tf.map fun row => row.map ratToEF).toArray

def tfOf (l : Nat) : List (List EF) := tfsEF.getD l []

def listOf (s : String) (sep : String) : List String := if s == "@" || s == "" then [] else s.splitOn sep

/-- `ic:angmoms:kinds:exps:coeffs` -/
def parseShell (s : String) : GShell EF :=
  match s.splitOn ":" with
  | [ic, ls, ks, es, cs] =>
    ⟨ic.toNat?.getD 0, (listOf ls ",").map (·.toNat?.getD 0), ks.toList, (listOf es ",").map ofBits,
      (listOf cs ";").map fun row => (listOf row ",").map ofBits⟩
  | _ => ⟨0, [], [], [], []⟩

/-- `l2|table|shell/shell/…` -/
def parseBasis (s : String) : Basis EF :=
  match s.splitOn "|" with
  | [l2, tab, sh] => ⟨(listOf sh "/").map parseShell, Iodata.Drv.Conv.parseTable tab, l2 == "1"⟩
  | _ => ⟨[], [], false⟩

def parseXyz (s : String) : List (V3 EF) :=
  (listOf s ";").map fun t =>
    match (t.splitOn ",").map ofBits with
    | [a, b, c] => ⟨a, b, c⟩
    | _ => ⟨⟨0, 0⟩, ⟨0, 0⟩, ⟨0, 0⟩⟩

def showMat (m : List (List EF)) : String :=
  let nr := m.length
  let nc := (m.headD []).length
  let vs := ",".intercalate (m.flatMap fun row => row.map fun x => toString x.v.toBits)
  let es := ",".intercalate (m.flatMap fun row => row.map fun x => toString x.e.toBits)
  s!"ok {nr} {nc} {vs} {es}"

def ratOps : Ops Rat where
  exp _ := 1
  sqrt x := x
  pow15 _ := 1
  pi := 1
  ltEps _ := false
  gtEps _ := true
  minL l := l.headD 0

def handle : List String → Option String
  | ["kern", n1, n2, x1, x2, t] =>
    let n1 := n1.toNat?.getD 0
    let n2 := n2.toNat?.getD 0
    let x1 := parseRat x1
    let x2 := parseRat x2
    let t := parseRat t
    some s!"{showRat (kernel n1 n2 x1 x2 t)} {showRat (kernelAbs n1 n2 x1 x2 t)} {(kernIdx n1 n2).length}"
  | ["gotab", nmax] =>
    let n := nmax.toNat?.getD 0
    some s!"{factsTable n} {binomTable n}"
  | ["cart", n] => some s!"{cartAlphabet (n.toNat?.getD 0)}"
  | ["nrm", a, nx, ny, nz] =>
    -- rational part of gob_cart_normalization(α, n)²: (4α)^Σn / Π(2n-1)‼
    some (showRat (gobCartNorm ratOps (parseRat a) (nx.toNat?.getD 0, ny.toNat?.getD 0, nz.toNat?.getD 0)))
  | ["ovl", b0, x0, b1, x1] =>
    let r := computeOverlap efOps tfOf Iodata.Gen.Conventions.horton2 (parseBasis b0) (parseXyz x0)
      (if b1 == "@" then none else some (parseBasis b1)) (if x1 == "@" then none else some (parseXyz x1))
    some (match r with
      | .ok m => showMat m
      | .error e => "err " ++ e.toString)
  | ["tfchk"] => some (toString ((List.range 8).map fun l => Iodata.CartPure.checkTable l (Iodata.Gen.Cartpure.tfs.getD l [])))
  | _ => none

end Iodata.Drv.Overlap
