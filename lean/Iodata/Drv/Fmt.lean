/- Line-protocol handlers of the byte-level format models (C02 / C03 / C15):

   fmt dump <format> <opts> <object>   → ok <hex of the written bytes> | err DumpError
   fmt load <format> <opts> <hex>      → ok <object> | err LoadError
   fmt spec <format> <opts> <specobj>  → ok <hex of the spec-rendered bytes>

   Objects: fields separated by `;`, list items by `,`, item parts by `:`; strings as `x<hex>`;
   a quantised real as its signed integer text (`-0` is minus zero).  `<opts>` is `-` or format specific. -/
import Iodata.Gen.Layouts
namespace Iodata.Drv.Fmt
open Iodata.Chars Iodata.Decimal Iodata.Fmt

def hexDigit (n : Nat) : Char := if n < 10 then Char.ofNat (48 + n) else Char.ofNat (87 + n)
def hexVal (c : Char) : Nat :=
  if '0' ≤ c && c ≤ '9' then c.toNat - 48 else if 'a' ≤ c && c ≤ 'f' then c.toNat - 87 else 0

def hexOfStr (s : Str) : String :=
  String.ofList (s.foldr (fun c acc => hexDigit (c.toNat / 16) :: hexDigit (c.toNat % 16) :: acc) [])

def strOfHexGo : List Char → Str → Str
  | a :: b :: r, acc => strOfHexGo r (Char.ofNat (hexVal a * 16 + hexVal b) :: acc)
  | _, acc => acc.reverse

def strOfHex (h : String) : Str := strOfHexGo h.toList []

/-- `x<hex>` -/
def decStr (s : String) : Str := strOfHex (s.drop 1).toString
def encStr (s : Str) : String := "x" ++ hexOfStr s

def decNat (s : String) : Nat := s.toNat!
def decInt (s : String) : Int := s.toInt!

def decFx (s : String) : Fx :=
  if s.startsWith "-" then ⟨true, (s.drop 1).toString.toNat!⟩ else ⟨false, s.toNat!⟩
def encFx (x : Fx) : String := (if x.neg then "-" else "") ++ toString x.mag

def decList {α} (sep : String) (f : String → α) (s : String) : List α :=
  if s == "" || s == "@" then [] else (s.splitOn sep).map f
def encList {α} (sep : String) (f : α → String) (l : List α) : String :=
  if l.isEmpty then "@" else sep.intercalate (l.map f)

/-- bytes of a file → lines as `LineIterator` yields them (each with its `'\n'`) -/
def linesOfHex (h : String) : List Str :=
  let s := String.ofList (strOfHex h)
  let parts := s.splitOn "\n"
  let n := parts.length
  (parts.zipIdx.filterMap fun (p, i) =>
    if i + 1 < n then some (p.toList ++ ['\n']) else if p.isEmpty then none else some p.toList)

def hexOfLines (ls : List Str) : String := String.join (ls.map hexOfStr)

def okHex (ls : List Str) : String := "ok " ++ hexOfLines ls

/-! ### XYZ -/
namespace X
open Iodata.Fmt.Xyz

def decAtom (s : String) : Atom :=
  match s.splitOn ":" with
  | z :: vs => ⟨decNat z, vs.map decFx⟩
  | [] => ⟨0, []⟩
def encAtom (a : Atom) : String := ":".intercalate (toString a.z :: a.vals.map encFx)

def decObj (s : String) : Obj :=
  match s.splitOn ";" with
  | [t, ats] => ⟨decStr t, decList "," decAtom ats⟩
  | _ => ⟨[], []⟩
def encObj (o : Obj) : String := encStr o.title ++ ";" ++ encList "," encAtom o.atoms

/-- opts: `-` (default columns) or `w.d.neg,…` -/
def decCol (c : String) : Col :=
  match c.splitOn "." with
  | [w, d, n] => ⟨decNat w, decNat d, n == "1"⟩
  | _ => ⟨0, 0, false⟩

def layoutOf (opts : String) : Layout :=
  let L0 := Gen.Layouts.xyzL
  if opts == "-" then L0 else ⟨L0.symW, (opts.splitOn ",").map decCol, L0.defaultTitle⟩

def pairs : List String → List (Str × Fx)
  | p :: v :: r => (decStr p, decFx v) :: pairs r
  | _ => []

def decSpecAtom (s : String) : SpecAtom :=
  match s.splitOn ":" with
  | z :: v :: lead :: trail :: r => ⟨decNat z, decNat v, decStr lead, pairs r, decStr trail⟩
  | _ => ⟨0, 0, [], [], []⟩

def decSpec (s : String) : SpecObj :=
  match s.splitOn ";" with
  | [a, b, c, t, d, ats] => ⟨decStr a, decStr b, decStr c, decStr t, decStr d, decList "," decSpecAtom ats⟩
  | _ => ⟨[], [], [], [], [], []⟩

def handle (op opts payload : String) : String :=
  let L := layoutOf opts
  let T := Gen.Layouts.tables
  if op == "dump" then
    match dumpE T L (decObj payload) with
    | .ok ls => okHex ls
    | .error _ => "err DumpError"
  else if op == "load" then
    match load T L (linesOfHex payload) with
    | .ok o => "ok " ++ encObj o
    | .error _ => "err LoadError"
  else if op == "spec" then okHex (specRender T L (decSpec payload))
  else "bad-request"
end X

/-! ### SDF: `x<title>;x:y:z:Z,…;i:j:t,…` -/
namespace S
open Iodata.Fmt.Sdf

def decAtom (s : String) : Atom :=
  match s.splitOn ":" with
  | [x, y, z, zn] => ⟨decFx x, decFx y, decFx z, decNat zn⟩
  | _ => ⟨⟨false, 0⟩, ⟨false, 0⟩, ⟨false, 0⟩, 0⟩
def encAtom (a : Atom) : String := ":".intercalate [encFx a.x, encFx a.y, encFx a.z, toString a.zn]
def decBond (s : String) : Bond :=
  match s.splitOn ":" with
  | [i, j, t] => ⟨decNat i, decNat j, decNat t⟩
  | _ => ⟨0, 0, 0⟩
def encBond (b : Bond) : String := s!"{b.i}:{b.j}:{b.t}"

def decObj (s : String) : Obj :=
  match s.splitOn ";" with
  | [t, ats, bs] => ⟨decStr t, decList "," decAtom ats, decList "," decBond bs⟩
  | _ => ⟨[], [], []⟩
def encObj (o : Obj) : String :=
  encStr o.title ++ ";" ++ encList "," encAtom o.atoms ++ ";" ++ encList "," encBond o.bonds

def handle (op _opts payload : String) : String :=
  let L := Gen.Layouts.sdfL
  let T := Gen.Layouts.tables
  if op == "dump" then
    match dumpE T L (decObj payload) with
    | .ok ls => okHex ls
    | .error _ => "err DumpError"
  else if op == "load" then
    match load T L (linesOfHex payload) with
    | .ok o => "ok " ++ encObj o
    | .error _ => "err LoadError"
  else if op == "spec" then okHex (dump T specV2000 (decObj payload))
  else "bad-request"
end S

/-! ### PDB: `x<title>;zn:x<name>:x<res>:<chaincode>:resnum:x:y:z:occ:b,…;i:j,…`
loaded: `x<title>;<compound or ->;<chainids 0/1>;atoms;bonds` -/
namespace P
open Iodata.Fmt.Pdb

def decAtom (s : String) : Atom :=
  match s.splitOn ":" with
  | [zn, nm, rs, ch, rn, x, y, z, o, b] =>
    ⟨decNat zn, decStr nm, decStr rs, Char.ofNat (decNat ch), decInt rn, decFx x, decFx y, decFx z, decFx o, decFx b⟩
  | _ => ⟨0, [], [], ' ', 0, ⟨false, 0⟩, ⟨false, 0⟩, ⟨false, 0⟩, ⟨false, 0⟩, ⟨false, 0⟩⟩
def encAtom (a : Atom) : String :=
  ":".intercalate [toString a.zn, encStr a.name, encStr a.res, toString a.chain.toNat, toString a.resnum,
    encFx a.x, encFx a.y, encFx a.z, encFx a.occ, encFx a.b]
def decPair (s : String) : Nat × Nat :=
  match s.splitOn ":" with
  | [i, j] => (decNat i, decNat j)
  | _ => (0, 0)
def encPair (p : Nat × Nat) : String := s!"{p.1}:{p.2}"

def decObj (s : String) : Obj :=
  match s.splitOn ";" with
  | [t, ats, bs] => ⟨decStr t, decList "," decAtom ats, decList "," decPair bs, none⟩
  | [t, ats, bs, c] => ⟨decStr t, decList "," decAtom ats, decList "," decPair bs, if c == "-" then none else some (decStr c)⟩
  | _ => ⟨[], [], [], none⟩
def encLoaded (o : Loaded) : String :=
  ";".intercalate [encStr o.title, (match o.compound with | some c => encStr c | none => "-"),
    (if o.chainids then "1" else "0"), encList "," encAtom o.atoms, encList "," encPair o.bonds]

def handle (op _opts payload : String) : String :=
  let L := Gen.Layouts.pdbL
  let T := Gen.Layouts.tables
  if op == "dump" || op == "spec" then
    match dumpE T L (decObj payload) with
    | .ok ls => okHex ls
    | .error _ => "err DumpError"
  else if op == "load" then
    match load T L (linesOfHex payload) with
    | .ok o => "ok " ++ encLoaded o
    | .error _ => "err LoadError"
  else "bad-request"
end P

/-! ### FCHK field layer: `x<title>;<x run type|->;<x lot|->;<x basis|->;fields`, a field is
`x<label>:<i|r|I|R>:<payload>`; an integer as text, a real as `[-]<mantissa>@<exponent>`, array items separated by `/`;
loaded: `x<title>;<x run type|->;x<lot>;<x basis|->;fields`.  opts: `-` (iodata's widths) or `spec` (Gaussian's widths),
optionally `+<label patterns separated by |>` (hex), the `label_patterns` of `_load_fchk_low`. -/
namespace F
open Iodata.Fmt.Fchk

def decSci (s : String) : Sci :=
  match s.splitOn "@" with
  | [m, e] => if m.startsWith "-" then ⟨true, (m.drop 1).toString.toNat!, decInt e⟩ else ⟨false, m.toNat!, decInt e⟩
  | _ => ⟨false, 0, 0⟩
def encSci (x : Sci) : String := (if x.neg then "-" else "") ++ toString x.man ++ "@" ++ toString x.exp

def decOpt (s : String) : Option Str := if s == "-" then none else some (decStr s)
def encOpt (s : Option Str) : String := match s with | none => "-" | some t => encStr t

def decFld (s : String) : Fld :=
  match s.splitOn ":" with
  | [l, k, p] =>
    (decStr l, if k == "i" then .int (decInt p) else if k == "r" then .real (decSci p)
      else if k == "I" then .ints (decList "/" decInt p) else .reals (decList "/" decSci p))
  | _ => ([], .int 0)
def encFld (f : Fld) : String :=
  encStr f.1 ++ ":" ++ (match f.2 with
    | .int i => "i:" ++ toString i
    | .real x => "r:" ++ encSci x
    | .ints l => "I:" ++ encList "/" (fun (i : Int) => toString i) l
    | .reals l => "R:" ++ encList "/" encSci l)

def decObj (s : String) : Obj :=
  match s.splitOn ";" with
  | [t, rt, lot, bas, fs] => ⟨decStr t, decOpt rt, decOpt lot, decOpt bas, decList "," decFld fs⟩
  | _ => ⟨[], none, none, none, []⟩
def encLoaded (o : Loaded) : String :=
  ";".intercalate [encStr o.title, encOpt o.runType, encStr o.lot, encOpt o.basis, encList "," encFld o.fields]

def layoutOf (opts : String) : Layout :=
  if opts.startsWith "spec" then specG Gen.Layouts.fchkL else Gen.Layouts.fchkL

def keepOf (opts : String) : Str → Bool :=
  match opts.splitOn "+" with
  | [_, pats] => let ps := (pats.splitOn "|").map strOfHex; fun l => ps.contains l
  | _ => fun _ => true

def intList (s : String) : List Int := decList "/" decInt s

def handle (op opts payload : String) : String :=
  let L := layoutOf opts
  let R := Gen.Layouts.fchkRunTypes
  if op == "dump" || op == "spec" then okHex (dump L R (decObj payload))
  else if op == "dumpfields" then okHex ((decObj payload).fields.flatMap (dumpField L))
  else if op == "load" then
    match load L.reader R (keepOf opts) (linesOfHex payload) with
    | .ok o => "ok " ++ encLoaded o
    | .error _ => "err LoadError"
  else if op == "tril" then
    -- payload: n;flat row-major matrix
    match payload.splitOn ";" with
    | [n, m] =>
      let n := decNat n
      let flat := intList m
      let rows := (List.range n).map fun i => (flat.drop (i * n)).take n
      "ok " ++ encList "/" (fun (i : Int) => toString i) (tril rows)
    | _ => "bad-request"
  else if op == "dense" then
    let t := intList payload
    let n := triRows t.length
    "ok " ++ toString n ++ ";" ++ encList "/" (fun (i : Int) => toString i) (dense 0 n t).flatten
  else if op == "quadw" then "ok " ++ encList "/" (fun (i : Int) => toString i) (pick 0 Gen.Layouts.fchkQuadW (intList payload))
  else if op == "quadr" then "ok " ++ encList "/" (fun (i : Int) => toString i) (pick 0 Gen.Layouts.fchkQuadR (intList payload))
  else "bad-request"
end F

/-! ### Cube: `x<title>;ox:oy:oz;s0:s1:s2;ax:ay:az/bx:by:bz/cx:cy:cz;zn:q:x:y:z,…;<m@e>/<m@e>/…` -/
namespace C
open Iodata.Fmt.Cube

def decVec (s : String) : Vec :=
  match s.splitOn ":" with
  | [x, y, z] => ⟨decFx x, decFx y, decFx z⟩
  | _ => ⟨⟨false, 0⟩, ⟨false, 0⟩, ⟨false, 0⟩⟩
def encVec (v : Vec) : String := ":".intercalate [encFx v.x, encFx v.y, encFx v.z]
def decAtom (s : String) : Atom :=
  match s.splitOn ":" with
  | [zn, q, x, y, z] => ⟨decInt zn, decFx q, decFx x, decFx y, decFx z⟩
  | _ => ⟨0, ⟨false, 0⟩, ⟨false, 0⟩, ⟨false, 0⟩, ⟨false, 0⟩⟩
def encAtom (a : Atom) : String := ":".intercalate [toString a.zn, encFx a.q, encFx a.x, encFx a.y, encFx a.z]

def decObj (s : String) : Obj :=
  match s.splitOn ";" with
  | [t, o, sh, ax, ats, d] =>
    ⟨decStr t, decVec o, decList ":" decInt sh, decList "/" decVec ax, decList "," decAtom ats, decList "/" F.decSci d⟩
  | _ => ⟨[], decVec "", [], [], [], []⟩
def encObj (o : Obj) : String :=
  ";".intercalate [encStr o.title, encVec o.origin, encList ":" (fun (i : Int) => toString i) o.shape, encList "/" encVec o.axes,
    encList "," encAtom o.atoms, encList "/" F.encSci o.data]

def handle (op _opts payload : String) : String :=
  let L := Gen.Layouts.cubeL
  if op == "dump" || op == "spec" then okHex (dump L (decObj payload))
  else if op == "dumploop" then
    let o := decObj payload
    "ok " ++ hexOfStr (dataLoop L (o.shape.getD 2 0).toNat 0 o.data)
  else if op == "load" then
    match load L (linesOfHex payload) with
    | .ok o => "ok " ++ encObj o
    | .error _ => "err LoadError"
  else "bad-request"
end C

/-! ### FCIDUMP index layer: `fcloop n` → the canonical index quadruples in the writer's order;
`fcfill n;v:i0:i1:i2:i3,…` → the n⁴ array the reader builds (row-major) -/
namespace FC
open Iodata.Fmt.Fcidump Iodata.Helpers

def decEntry (s : String) : Entry Int :=
  match s.splitOn ":" with
  | [v, a, b, c, d] => ⟨decInt v, decNat a, decNat b, decNat c, decNat d⟩
  | _ => ⟨0, 0, 0, 0, 0⟩

def handle (op _opts payload : String) : String :=
  if op == "fcloop" then
    let n := decNat payload
    "ok " ++ encList "," (fun (e : Entry Int) => s!"{e.i0}:{e.i1}:{e.i2}:{e.i3}") (entries (0 : Int) n (fun _ => 1))
  else if op == "fcfill" then
    match payload.splitOn ";" with
    | [n, es] =>
      let n := decNat n
      let a := fill (0 : Int) (decList "," decEntry es)
      let idx := (List.range n).flatMap fun i => (List.range n).flatMap fun j => (List.range n).flatMap fun k =>
        (List.range n).map fun l => a (i, j, k, l)
      "ok " ++ encList "/" (fun (i : Int) => toString i) idx
    | _ => "bad-request"
  else "bad-request"
end FC

/-! ### MOL2: `x<title>;zn:x:y:z:<x attype|->:<charge|->,…;<i:j:t,…|->`; loaded: `x<title>;zn:x:y:z:x<attype>:charge,…;<bonds|->` -/
namespace M
open Iodata.Fmt.Mol2

def decAtom (s : String) : Atom :=
  match s.splitOn ":" with
  | [zn, x, y, z, ty, q] => ⟨decNat zn, decFx x, decFx y, decFx z, F.decOpt ty, if q == "-" then none else some (decFx q)⟩
  | _ => ⟨0, ⟨false, 0⟩, ⟨false, 0⟩, ⟨false, 0⟩, none, none⟩
def encLAtom (a : LAtom) : String := ":".intercalate [toString a.zn, encFx a.x, encFx a.y, encFx a.z, encStr a.attype, encFx a.charge]
def decBond (s : String) : Bond :=
  match s.splitOn ":" with
  | [i, j, t] => ⟨decNat i, decNat j, decNat t⟩
  | _ => ⟨0, 0, 0⟩
def encBond (b : Bond) : String := s!"{b.i}:{b.j}:{b.t}"

def decObj (s : String) : Obj :=
  match s.splitOn ";" with
  | [t, ats, bs] => ⟨decStr t, decList "," decAtom ats, if bs == "-" then none else some (decList "," decBond bs)⟩
  | _ => ⟨[], [], none⟩
def encLoaded (o : Loaded) : String :=
  ";".intercalate [encStr o.title, encList "," encLAtom o.atoms, match o.bonds with | none => "-" | some bs => encList "," encBond bs]

def handle (op _opts payload : String) : String :=
  let L := Gen.Layouts.mol2L
  let T := Gen.Layouts.tables
  if op == "dump" || op == "spec" then
    match dumpE T L (decObj payload) with
    | .ok ls => okHex ls
    | .error _ => "err DumpError"
  else if op == "load" then
    match load T L (linesOfHex payload) with
    | .ok o => "ok " ++ encLoaded o
    | .error _ => "err LoadError"
  else "bad-request"
end M

/-! ### POSCAR structure layer: `posgroup z/z/…` → `ok <written order of the atom indices>;<Z:count,…>;<expanded Z>`;
`posfrac a:b:c:d:e:f:g:h:i;x:y:z` (integers) → the direct coordinates as exact fractions `num/den`, and back -/
namespace PO
open Iodata.Fmt.Poscar

def encRat (q : Rat) : String := toString q.num ++ "/" ++ toString q.den
def encV (v : V3) : String := ":".intercalate [encRat v.1, encRat v.2.1, encRat v.2.2]

def handle (op _opts payload : String) : String :=
  if op == "posgroup" then
    let zs := decList "/" decNat payload
    let atoms := zs.zipIdx
    let g := group (fun (a : Nat × Nat) => a.1) atoms
    "ok " ++ encList "/" (fun (a : Nat × Nat) => toString a.2) g ++ ";" ++
      encList "," (fun (p : Nat × Nat) => s!"{p.1}:{p.2}") (counts (fun (a : Nat × Nat) => a.1) atoms) ++ ";" ++
      encList "/" (fun (z : Nat) => toString z) (expand (counts (fun (a : Nat × Nat) => a.1) atoms))
  else if op == "posfrac" then
    match payload.splitOn ";" with
    | [m, r] =>
      match (m.splitOn ":").map decInt, (r.splitOn ":").map decInt with
      | [a, b, c, d, e, f, g, h, i], [x, y, z] =>
        let cell : M3 := ((a, b, c), (d, e, f), (g, h, i))
        if det cell = 0 then "err singular" else
        let s := toFrac cell (x, y, z)
        "ok " ++ encV s ++ ";" ++ encV (toCart cell s)
      | _, _ => "bad-request"
    | _ => "bad-request"
  else "bad-request"
end PO

/-! ### GRO: `x<title>;d;resnum:x<resname>:x<atname>:serial:x:y:z:<vx:vy:vz|->,…;box numbers separated by `/`;
loaded: `x<title>;resnum:x<resname>:x<atname>:x:y:z:vx:vy:vz,…;nine cell entries separated by `/` -/
namespace G
open Iodata.Fmt.Gro

def decAtom (s : String) : Atom :=
  match s.splitOn ":" with
  | [rn, a, b, ser, x, y, z, "-"] => ⟨decInt rn, decStr a, decStr b, decInt ser, decFx x, decFx y, decFx z, none⟩
  | [rn, a, b, ser, x, y, z, vx, vy, vz] => ⟨decInt rn, decStr a, decStr b, decInt ser, decFx x, decFx y, decFx z, some (decFx vx, decFx vy, decFx vz)⟩
  | _ => ⟨0, [], [], 0, zeroFx, zeroFx, zeroFx, none⟩
def encLAtom (a : LAtom) : String :=
  ":".intercalate [toString a.resnum, encStr a.resname, encStr a.atname, encFx a.x, encFx a.y, encFx a.z, encFx a.vel.1, encFx a.vel.2.1, encFx a.vel.2.2]

def decObj (s : String) : Obj :=
  match s.splitOn ";" with
  | [t, d, ats, box] => ⟨decStr t, decNat d, decList "," decAtom ats, decList "/" decFx box⟩
  | _ => ⟨[], 3, [], []⟩
def encLoaded (o : Loaded) : String :=
  ";".intercalate [encStr o.title, encList "," encLAtom o.atoms, encList "/" encFx o.cell.flatten]

def handle (op _opts payload : String) : String :=
  let L := Gen.Layouts.groL
  if op == "spec" then okHex (specRender (decObj payload))
  else if op == "load" then
    match load L (linesOfHex payload) with
    | .ok o => "ok " ++ encLoaded o
    | .error _ => "err LoadError"
  else "bad-request"
end G

def handle : List String → Option String
  | ["fmt", op, "gro", opts, payload] => some (G.handle op opts payload)
  | ["fmt", op, "poscar", opts, payload] => some (PO.handle op opts payload)
  | ["fmt", op, "mol2", opts, payload] => some (M.handle op opts payload)
  | ["fmt", op, "fcidump", opts, payload] => some (FC.handle op opts payload)
  | ["fmt", op, "cube", opts, payload] => some (C.handle op opts payload)
  | ["fmt", op, "fchk", opts, payload] => some (F.handle op opts payload)
  | ["fmt", op, "pdb", opts, payload] => some (P.handle op opts payload)
  | ["fmt", op, "xyz", opts, payload] => some (X.handle op opts payload)
  | ["fmt", op, "sdf", opts, payload] => some (S.handle op opts payload)
  | _ => none

end Iodata.Drv.Fmt
