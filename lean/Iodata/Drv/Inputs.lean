/- Line-protocol handler for the `input` stream (C19). -/
import Iodata.Model.Inputs
import Iodata.Gen.Inputs
import Iodata.Drv.Select
import Iodata.Drv.Helpers
namespace Iodata.Drv.Inputs
open Iodata.Inputs
open Iodata.Select (Str)

def parseStr := Iodata.Drv.Select.parseStr

def parseOptStr (s : String) : Option Str := if s == "-" then none else some (parseStr s)

def parseOptRat (s : String) : Option Rat := if s == "-" then none else some (Iodata.Drv.Helpers.parseRat s)

/-- `Z:kx:ky:kz;…` -/
def parseAtoms (s : String) : List Atom :=
  if s == "@" then [] else
  (s.splitOn ";").map fun a =>
    match a.splitOn ":" with
    | [z, x, y, w] => ⟨z.toNat!, x.toInt!, y.toInt!, w.toInt!⟩
    | _ => ⟨0, 0, 0, 0⟩

/-- `name~s~<cps>;name~i~<int>` -/
def parseKwargs (s : String) : Fields :=
  if s == "@" then [] else
  (s.splitOn ";").map fun e =>
    match e.splitOn "~" with
    | [n, "s", v] => (n.toList, Val.str (parseStr v))
    | [n, "i", v] => (n.toList, Val.int v.toInt!)
    | _ => ([], Val.int 0)

def showStr (s : Str) : String := if s.isEmpty then "@" else ",".intercalate (s.map fun c => toString c.toNat)

/-- one entry of a scripted callback table (`iatom ↦ behaviour`) -/
inductive Entry where
  | lit (s : Str)      -- `L<code points>`: return this text; `S<code points>`: the same as an instance of a `str` subclass
  | exc (c : Str)      -- `E<Class>`: raise an instance of a subclass of `Exception`
  | base (c : Str)     -- `B<Class>`: raise a `BaseException` that is not an `Exception`
  | non                -- `N<kind>`: return a non-`str` object
  | dflt               -- `D`: return `<program>.default_atom_line(data, iatom)`
  | znum               -- `Z`: return `f"{int(data.atnums[iatom])}:{iatom}"` (depends on the object)

def parseEntry (e : String) : Entry :=
  match e.toList with
  | 'L' :: r => .lit (parseStr (String.ofList r))
  | 'S' :: r => .lit (parseStr (String.ofList r))
  | 'E' :: r => .exc r
  | 'B' :: r => .base r
  | 'N' :: _ => .non
  | 'D' :: _ => .dflt
  | _ => .znum

/-- `-` = no callback; `@` = empty table; else `;`-separated entries, one per atom -/
def parseCb (s : String) : Option (List Entry) :=
  if s == "-" then none else if s == "@" then some [] else some ((s.splitOn ";").map parseEntry)

/-- the Python closure `lambda data, iatom: act(table[iatom])` built by the harness -/
def scripted (t : List (Nat × Str)) (table : List Entry) : AtomLineFn := fun m i =>
  match table[i]? with
  | none => .raises (.exception sIndexError)
  | some (.lit s) => .line s
  | some (.exc c) => .raises (.exception c)
  | some (.base c) => .raises (.baseOnly c)
  | some .non => .nonStr
  | some .dflt => defaultAtomLine t m i
  | some .znum =>
    match m.atoms[i]? with
    | some a => .line (natDigits a.atnum ++ ':' :: natDigits i)
    | none => .raises (.exception sIndexError)

def showNats (l : List Nat) : String := if l.isEmpty then "@" else ",".intercalate (l.map toString)

def handle : List String → Option String
  | ["input", prog, atoms, title, lot, basis, rt, charge, spinpol, template, kwargs, cb, pre] =>
    let m : Mol := ⟨parseAtoms atoms, parseOptStr title, parseOptStr lot, parseOptStr basis, parseOptStr rt,
                    parseOptRat charge, parseOptRat spinpol⟩
    let t := Iodata.Gen.Inputs.num2sym
    let table := parseCb cb
    -- kwargs arrive in call order; later duplicates cannot occur in Python, lookup takes the first
    let o := run t Iodata.Gen.Inputs.programs m (parseStr prog) (parseOptStr template)
      (table.map (scripted t)) (parseKwargs kwargs)
    let status := match o.error with
      | none => "ok"
      | some .fileFormatError => "err FileFormatError"
      | some .writeInputError => "err WriteInputError"
      | some (.passThrough c) => "err Pass:" ++ String.ofList c
    -- `pre` = 1: the file existed before the call with other content
    let file := match o.file with
      | none => if pre == "1" then "old" else "absent"
      | some s => "f=" ++ showStr s
    let calls := match table with
      | none => "-"          -- the default callback is not instrumented by the harness
      | some _ => "c=" ++ showNats o.calls
    some (status ++ " " ++ file ++ " " ++ calls)
  | _ => none

end Iodata.Drv.Inputs
