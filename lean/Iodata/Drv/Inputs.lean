/- Line-protocol handler for the `input` stream (C19). -/
import Iodata.Model.Inputs
import Iodata.Gen.Inputs
import Iodata.Drv.Select
import Iodata.Drv.Helpers
namespace Iodata.Drv.Inputs
open Iodata.Inputs
open Iodata.Select (Str)

def parseStr := Iodata.Drv.Select.parseStr

def parseOptStr (s : String) : Option Str := if s == "-" then none else some (parseStr s)

def parseOptRat (s : String) : Option Rat := if s == "-" then none else some (Iodata.Drv.Helpers.parseRat s)

/-- `Z:kx:ky:kz;…` -/
def parseAtoms (s : String) : List Atom :=
  if s == "@" then [] else
  (s.splitOn ";").map fun a =>
    match a.splitOn ":" with
    | [z, x, y, w] => ⟨z.toNat!, x.toInt!, y.toInt!, w.toInt!⟩
    | _ => ⟨0, 0, 0, 0⟩

/-- `name~s~<cps>;name~i~<int>` -/
def parseKwargs (s : String) : Fields :=
  if s == "@" then [] else
  (s.splitOn ";").map fun e =>
    match e.splitOn "~" with
    | [n, "s", v] => (n.toList, Val.str (parseStr v))
    | [n, "i", v] => (n.toList, Val.int v.toInt!)
    | _ => ([], Val.int 0)

def showStr (s : Str) : String := if s.isEmpty then "@" else ",".intercalate (s.map fun c => toString c.toNat)

def handle : List String → Option String
  | ["input", prog, atoms, title, lot, basis, rt, charge, spinpol, template, kwargs] =>
    let m : Mol := ⟨parseAtoms atoms, parseOptStr title, parseOptStr lot, parseOptStr basis, parseOptStr rt,
                    parseOptRat charge, parseOptRat spinpol⟩
    -- kwargs arrive in call order; later duplicates cannot occur in Python, lookup takes the first
    some (match writeInput Iodata.Gen.Inputs.num2sym Iodata.Gen.Inputs.programs m (parseStr prog)
                (parseOptStr template) (parseKwargs kwargs) with
      | .ok s => "ok " ++ showStr s
      | .error .fileFormatError => "err FileFormatError"
      | .error .writeInputError => "err WriteInputError")
  | _ => none

end Iodata.Drv.Inputs
