/- Line-protocol handlers for the `seg`, `tou`, `prepseg`, `prepu` streams (C14).

shell word: `ic;l1,l2;k1,k2;e1,e2;c11,c12:c21,c22` (columns separated by `:`, `@` = empty list). -/
import Iodata.Model.Segment
import Iodata.Drv.Orbitals
namespace Iodata.Drv.Segment
open Iodata.Orb Iodata.Seg
open Iodata.Drv.IOData (parseRat showRat kv)
open Iodata.Drv.Orbitals (applyArg showObs)

def items (s : String) : List String := if s == "@" then [] else s.splitOn ","

def parseShell (w : String) : GShell :=
  match w.splitOn ";" with
  | [ic, l, k, e, c] =>
    { icenter := ic.toNat?.getD 0, angmoms := (items l).map fun x => x.toNat?.getD 0, kinds := items k,
      exps := (items e).map fun x => (parseRat x).getD 0,
      cols := if c == "@" then [] else (c.splitOn ":").map fun col => (items col).map fun x => (parseRat x).getD 0 }
  | _ => { icenter := 0, angmoms := [], kinds := [], exps := [], cols := [] }

def showList (l : List String) : String := if l.isEmpty then "@" else ",".intercalate l

def showShell (s : GShell) : String :=
  s!"{s.icenter};{showList (s.angmoms.map toString)};{showList s.kinds};{showList (s.exps.map showRat)};" ++
  (if s.cols.isEmpty then "@" else ":".intercalate (s.cols.map fun c => showList (c.map showRat)))

def parseMo (w : String) : MO :=
  (w.splitOn ";").foldl (fun a x => applyArg a (kv x)) { kind := .other, norba := none, norbb := none }

def showKind : Kind → String
  | .restricted => "r" | .unrestricted => "u" | .generalized => "g" | .other => "x"

def showTou : Except Err (MO × Bool) → String
  | .ok (m, same) => s!"same={if same then 1 else 0};kind={showKind m.kind};" ++ showObs m
  | .error e => "err:" ++ e.toString

def handle : List String → Option String
  | "seg" :: keep :: shells =>
    let b := shells.map parseShell
    let r := segmentFlagged (keep == "1") b
    some ("ok " ++ " ".intercalate (r.map fun p => (if p.2 then "T" else "F") ++ showShell p.1)
          ++ s!" # nbasis={nbasis (segment (keep == "1") b)}/{nbasis b}")
  | ["tou", mo] => some (showTou (toUnrestricted (parseMo mo)))
  | "prepseg" :: keep :: allow :: rest =>
    let ob : Option Basis := match rest with
      | ["none"] => none
      | ws => some (ws.map parseShell)
    some (match prepareSegmented ob (keep == "1") (allow == "1") with
      | .same => "same"
      | .valueError => "err:ValueError"
      | .prepareDumpError => "err:PrepareDumpError"
      | .converted n b => s!"converted:{n} " ++ " ".intercalate (b.map showShell))
  | ["prepu", allow, mo] =>
    let m : Option MO := if mo == "none" then none else some (parseMo mo)
    some (match prepareUnrestricted m (allow == "1") with
      | .same => "same"
      | .valueError => "err:ValueError"
      | .prepareDumpError => "err:PrepareDumpError"
      | .converted n (.ok m') => s!"converted:{n};kind={showKind m'.kind};" ++ showObs m'
      | .converted _ (.error e) => "err:" ++ e.toString)
  | _ => none

end Iodata.Drv.Segment
