/- Line-protocol handlers for the C01 streams (`wfn`, `wfx`, `molden`, `mkl`, `fchk`, `fchkd`). -/
import Iodata.Model.Wf
import Iodata.Drv.Conv
import Iodata.Gen.Conventions
import Iodata.Gen.Wf
namespace Iodata.Drv.Wf
open Iodata.Conv Iodata.Wf Iodata.Drv.Conv

def parseInt (s : String) : Int :=
  if s.startsWith "-" then - ((s.drop 1).toNat!) else s.toNat!

/-- `center:l:kind:e*d,e*d;...` -/
def parseShells (s : String) : List Shell :=
  if s == "@" then [] else
  (s.splitOn ";").map fun sh =>
    match sh.splitOn ":" with
    | [c, l, k, ps] =>
      { center := c.toNat!, l := l.toNat!, kind := (k.toList.headD 'c'),
        prims := (ps.splitOn ",").map fun p =>
          match p.splitOn "*" with
          | [e, d] => (e.toNat!, parseInt d)
          | _ => (0, 0) }
    | _ => { center := 0, l := 0, kind := '?', prims := [] }

def parseInts (s : String) : List Int := if s == "@" then [] else (s.splitOn ",").map parseInt

/-- a recognisable code of the label whose powers enter the scale: 1 + nx + 10 ny + 100 nz + 1000 e -/
def code (e : Nat) (l : Label) : Int :=
  1 + (l.count 'x' : Nat) + 10 * (l.count 'y' : Nat) + 100 * (l.count 'z' : Nat) + 1000 * (e : Nat)

def showLabel (l : Label) : String := String.ofList l

def showInts (l : List Int) : String := if l.isEmpty then "@" else ",".intercalate (l.map toString)

/-- rows `center:type:e:value:scalecode`; `value` is the model's number with `N = 1`, the scale code the
ratio of the model's number with `N = code` to it (tracer coefficients are non-zero) -/
def showWfn (fromSrc : Bool) (cv1 cvW : Cv) (shells : List Shell) (coeffs : List Int) : String :=
  let a := rows (wfnDump fromSrc (fun _ _ => 1) cv1 cvW shells coeffs)
  let b := rows (wfnDump fromSrc code cv1 cvW shells coeffs)
  ";".intercalate ((a.zip b).map fun p =>
    s!"{p.1.1}:{showLabel p.1.2.1}:{p.1.2.2.1}:{p.1.2.2.2}:{if p.1.2.2.2 = 0 then 0 else p.2.2.2.2 / p.1.2.2.2}")

def showShells (ss : List Shell) : String :=
  if ss.isEmpty then "@" else ",".intercalate (ss.map fun s => s!"{s.center}:{s.l}:{s.kind}")

def handle : List String → Option String
  | ["wfn", shells, conv, coeffs] =>
    some (showWfn Iodata.Gen.Wf.wfnScalesFromSource (cvOf (parseTable conv)) (cvOf Iodata.Gen.Conventions.wfn)
      (parseShells shells) (parseInts coeffs))
  | ["wfx", shells, conv, coeffs] =>
    some (showWfn Iodata.Gen.Wf.wfxScalesFromSource (cvOf (parseTable conv)) (cvOf Iodata.Gen.Conventions.wfx)
      (parseShells shells) (parseInts coeffs))
  | ["molden", shells, conv, coeffs] =>
    let r := (if Iodata.Gen.Wf.moldenRowsFollowSort then moldenDumpSorted else moldenDump)
      (cvOf (parseTable conv)) (cvOf Iodata.Gen.Conventions.molden) (parseShells shells) (parseInts coeffs)
    some (showShells r.1 ++ "|" ++ showInts r.2)
  | ["mkl", shells, conv, coeffs] =>
    let r := (if Iodata.Gen.Wf.mklSeparatorsPerCentre then moldenDumpSorted else mklDump)
      (cvOf (parseTable conv)) (cvOf Iodata.Gen.Conventions.molekel) (parseShells shells) (parseInts coeffs)
    some (showShells r.1 ++ "|" ++ showInts r.2)
  | ["mklirr", na, nb, irreps] =>
    some (showInts ((mklBetaIrreps Iodata.Gen.Wf.mklBetaIrrepsUseNorbb na.toNat! nb.toNat!
      ((parseInts irreps).map Int.toNat)).map Int.ofNat))
  | ["fchk", shells, conv, coeffs] =>
    some (showInts (convert (cvOf (parseTable conv)) (cvOf Iodata.Gen.Conventions.fchk) (parseShells shells) (parseInts coeffs)))
  | ["fchkd", shells, conv, dm] =>
    let ss := parseShells shells
    let cv1 := cvOf (parseTable conv)
    let n := nfun cv1 ss
    -- the signed permutation of the rows: convert the index vector 1..n (sign carried by the value)
    let idx := convert cv1 (cvOf Iodata.Gen.Conventions.fchk) ss ((List.range n).map fun (i : Nat) => Int.ofNat (i + 1))
    let r : List (Nat × Int) := idx.map fun v => ((v.natAbs - 1), if v < 0 then -1 else 1)
    let D := ((dm.splitOn ";").map parseInts)
    some (";".intercalate ((fchkDensity Iodata.Gen.Wf.fchkDensitiesConverted r D).map showInts))
  | _ => none

end Iodata.Drv.Wf
