/- Line-protocol handlers for the C01 streams (`wfn`, `wfx`, `molden`, `mkl`, `fchk`, `fchkd`). -/
import Iodata.Model.Wf
import Iodata.Model.WfRead
import Iodata.Drv.Conv
import Iodata.Gen.Conventions
import Iodata.Gen.Wf
namespace Iodata.Drv.Wf
open Iodata.Conv Iodata.Wf Iodata.Drv.Conv

def parseInt (s : String) : Int :=
  if s.startsWith "-" then - ((s.drop 1).toNat!) else s.toNat!

/-- `center:l:kind:e*d,e*d;...` -/
def parseShells (s : String) : List Shell :=
  if s == "@" then [] else
  (s.splitOn ";").map fun sh =>
    match sh.splitOn ":" with
    | [c, l, k, ps] =>
      { center := c.toNat!, l := l.toNat!, kind := (k.toList.headD 'c'),
        prims := (ps.splitOn ",").map fun p =>
          match p.splitOn "*" with
          | [e, d] => (e.toNat!, parseInt d)
          | _ => (0, 0) }
    | _ => { center := 0, l := 0, kind := '?', prims := [] }

def parseInts (s : String) : List Int := if s == "@" then [] else (s.splitOn ",").map parseInt

/-- a recognisable code of the label whose powers enter the scale: 1 + nx + 10 ny + 100 nz + 1000 e -/
def code (e : Nat) (l : Label) : Int :=
  1 + (l.count 'x' : Nat) + 10 * (l.count 'y' : Nat) + 100 * (l.count 'z' : Nat) + 1000 * (e : Nat)

def showLabel (l : Label) : String := String.ofList l

def showInts (l : List Int) : String := if l.isEmpty then "@" else ",".intercalate (l.map toString)

/-- rows `center:type:e:value:scalecode`; `value` is the model's number with `N = 1`, the scale code the
ratio of the model's number with `N = code` to it (tracer coefficients are non-zero) -/
def showWfn (fromSrc : Bool) (cv1 cvW : Cv) (shells : List Shell) (coeffs : List Int) : String :=
  let a := rows (wfnDump fromSrc (fun _ _ => 1) cv1 cvW shells coeffs)
  let b := rows (wfnDump fromSrc code cv1 cvW shells coeffs)
  ";".intercalate ((a.zip b).map fun p =>
    s!"{p.1.1}:{showLabel p.1.2.1}:{p.1.2.2.1}:{p.1.2.2.2}:{if p.1.2.2.2 = 0 then 0 else p.2.2.2.2 / p.1.2.2.2}")

def showShells (ss : List Shell) : String :=
  if ss.isEmpty then "@" else ",".intercalate (ss.map fun s => s!"{s.center}:{s.l}:{s.kind}")

/-! ### reader-side streams (structural files) -/

def parseNats (s : String) : List Nat := (parseInts s).map Int.toNat
def showNats (l : List Nat) : String := showInts (l.map Int.ofNat)

def parsePrims (ps : String) : List (Nat × Int) :=
  if ps == "" || ps == "@" then [] else
  (ps.splitOn ",").map fun p =>
    match p.splitOn "*" with
    | [e, d] => (e.toNat!, parseInt d)
    | _ => (0, 0)

def showPrims (ps : List (Nat × Int)) : String := ",".intercalate (ps.map fun p => s!"{p.1}*{p.2}")

def tagName : Tag → String
  | .d5 => "5D" | .d5f7 => "5D7F" | .f7 => "7F" | .d5f10 => "5D10F" | .g9 => "9G"

def parseTags (s : String) : List Tag :=
  if s == "@" then [] else
  (s.splitOn ",").filterMap fun t =>
    if t == "5D" then some Tag.d5 else if t == "5D7F" then some Tag.d5f7 else if t == "7F" then some Tag.f7
    else if t == "5D10F" then some Tag.d5f10 else if t == "9G" then some Tag.g9 else none

def showTags (l : List Tag) : String := if l.isEmpty then "@" else ",".intercalate (l.map tagName)

/-- `centre=l:e*d,e*d/l:...;centre=...` -/
def parseGto (s : String) : List (Nat × List FShell) :=
  if s == "@" then [] else
  (s.splitOn ";").map fun b =>
    match b.splitOn "=" with
    | [c, fs] => (c.toNat!, (fs.splitOn "/").map fun f =>
        match f.splitOn ":" with
        | [l, ps] => (l.toNat!, parsePrims ps)
        | _ => (0, []))
    | _ => (0, [])

def showGto (bs : List (Nat × List FShell)) : String :=
  if bs.isEmpty then "@" else
  ";".intercalate (bs.map fun b => s!"{b.1}=" ++ "/".intercalate (b.2.map fun f => s!"{f.1}:{showPrims f.2}"))

def showShellsFull (ss : List Shell) : String :=
  if ss.isEmpty then "@" else ";".intercalate (ss.map fun s => s!"{s.center}:{s.l}:{s.kind}:{showPrims s.prims}")

/-- columns `a,b,c;d,e,f` -/
def parseCols (s : String) : List (List Int) := if s == "@" then [] else (s.splitOn ";").map parseInts
def showCols (cs : List (List Int)) : String := if cs.isEmpty then "@" else ";".intercalate (cs.map showInts)

/-- `$$;nfn:l:e*d,e*d;...` -/
def parseItems (s : String) : List MklItem :=
  if s == "@" then [] else
  (s.splitOn ";").map fun it =>
    if it == "$$" then MklItem.sep else
    match it.splitOn ":" with
    | [n, l, ps] => MklItem.shell n.toNat! l.toNat! (parsePrims ps)
    | _ => MklItem.sep

def showItems (is : List MklItem) : String :=
  if is.isEmpty then "@" else
  ";".intercalate (is.map fun
    | .sep => "$$"
    | .shell n l ps => s!"{n}:{l}:{showPrims ps}")

/-- blocks `ncol/row/row;ncol/row/...`, row = `a,b,c` -/
def parseBlocks (s : String) : List (Nat × List (List Int)) :=
  if s == "@" then [] else
  (s.splitOn ";").map fun b =>
    match b.splitOn "/" with
    | n :: rows => (n.toNat!, rows.map parseInts)
    | [] => (0, [])

def showBlocks (bs : List (Nat × List (List Int))) : String :=
  if bs.isEmpty then "@" else
  ";".intercalate (bs.map fun b => "/".intercalate (toString b.1 :: b.2.map showInts))

/-- generalized shells `centre:l.k+l.k:e*d/d,e*d/d;...` -/
def parseGShells (s : String) : List GShell :=
  if s == "@" then [] else
  (s.splitOn ";").map fun sh =>
    match sh.splitOn ":" with
    | [c, cons, ps] =>
      { center := c.toNat!,
        cons := (cons.splitOn "+").map fun k =>
          match k.splitOn "." with
          | [l, kd] => (l.toNat!, kd.toList.headD 'c')
          | _ => (0, '?'),
        prims := if ps == "" then [] else (ps.splitOn ",").map fun p =>
          match p.splitOn "*" with
          | [e, ds] => (e.toNat!, (ds.splitOn "/").map parseInt)
          | _ => (0, []) }
    | _ => { center := 0, cons := [], prims := [] }

def showGShells (gs : List GShell) : String :=
  if gs.isEmpty then "@" else
  ";".intercalate (gs.map fun g =>
    s!"{g.center}:" ++ "+".intercalate (g.cons.map fun k => s!"{k.1}.{k.2}") ++ ":" ++
      ",".intercalate (g.prims.map fun p => s!"{p.1}*" ++ "/".intercalate (p.2.map toString)))

def handle : List String → Option String
  | ["wfn", shells, conv, coeffs] =>
    some (showWfn Iodata.Gen.Wf.wfnScalesFromSource (cvOf (parseTable conv)) (cvOf Iodata.Gen.Conventions.wfn)
      (parseShells shells) (parseInts coeffs))
  | ["wfx", shells, conv, coeffs] =>
    some (showWfn Iodata.Gen.Wf.wfxScalesFromSource (cvOf (parseTable conv)) (cvOf Iodata.Gen.Conventions.wfx)
      (parseShells shells) (parseInts coeffs))
  | ["molden", shells, conv, coeffs] =>
    let r := (moldenVariant Iodata.Gen.Wf.moldenRowsFollowSort)
      (cvOf (parseTable conv)) (cvOf Iodata.Gen.Conventions.molden) (parseShells shells) (parseInts coeffs)
    some (showShells r.1 ++ "|" ++ showInts r.2)
  | ["mkl", shells, conv, coeffs] =>
    let r := (mklVariant Iodata.Gen.Wf.mklSeparatorsPerCentre)
      (cvOf (parseTable conv)) (cvOf Iodata.Gen.Conventions.molekel) (parseShells shells) (parseInts coeffs)
    some (showShells r.1 ++ "|" ++ showInts r.2)
  | ["mklirr", na, nb, irreps] =>
    some (showInts ((mklBetaIrreps Iodata.Gen.Wf.mklBetaIrrepsUseNorbb na.toNat! nb.toNat!
      ((parseInts irreps).map Int.toNat)).map Int.ofNat))
  | ["fchk", shells, conv, coeffs] =>
    some (showInts (convert (cvOf (parseTable conv)) (cvOf Iodata.Gen.Conventions.fchk) (parseShells shells) (parseInts coeffs)))
  | ["fchkd", shells, conv, dm] =>
    let ss := parseShells shells
    let cv1 := cvOf (parseTable conv)
    let n := nfun cv1 ss
    -- the signed permutation of the rows: convert the index vector 1..n (sign carried by the value)
    let idx := convert cv1 (cvOf Iodata.Gen.Conventions.fchk) ss ((List.range n).map fun (i : Nat) => Int.ofNat (i + 1))
    let r : List (Nat × Int) := idx.map fun v => ((v.natAbs - 1), if v < 0 then -1 else 1)
    let D := ((dm.splitOn ";").map parseInts)
    some (";".intercalate ((fchkDensity Iodata.Gen.Wf.fchkDensitiesConverted r D).map showInts))
  | ["moldenw", shells, conv, coeffs] =>
    some (match moldenWrite Iodata.Gen.Wf.moldenHeader (parseTable conv) Iodata.Gen.Conventions.molden
        (parseShells shells) (parseInts coeffs) with
      | none => "refused"
      | some f => showTags f.tags ++ "|" ++ showGto f.gto ++ "|" ++ showInts f.mo)
  | ["moldenr", tags, gto, mo] =>
    some (match moldenLoad (cvOf Iodata.Gen.Conventions.molden)
        { tags := parseTags tags, gto := parseGto gto, mo := parseInts mo } with
      | none => "LoadError"
      | some r => showShellsFull r.1 ++ "|" ++ showInts r.2)
  | ["mklw", shells, conv, cols] =>
    some (match mklWrite (parseTable conv) Iodata.Gen.Conventions.molekel (parseShells shells) (parseCols cols) with
      | none => "refused"
      | some f => showItems f.basis ++ "|" ++ showBlocks f.coeff)
  | ["mklr", items, blocks] =>
    some (match mklLoad (cvOf Iodata.Gen.Conventions.molekel) { basis := parseItems items, coeff := parseBlocks blocks } with
      | none => "LoadError"
      | some r => showShellsFull r.1 ++ "|" ++ showCols r.2)
  | ["fchkw", gshells, conv, cols] =>
    let gs := parseGShells gshells
    some (match fchkWriteBasis gs, fchkWriteCoeffs (parseTable conv) Iodata.Gen.Conventions.fchk gs (parseCols cols) with
      | some b, some c =>
        "|".intercalate [showInts b.types, showNats b.nprims, showNats b.atomMap, showNats b.exps, showInts b.c1,
          (match b.c2 with | none => "none" | some x => showInts x), showInts c]
      | _, _ => "refused")
  | ["fchkr", types, nprims, amap, exps, c1, c2, nbasis, flat] =>
    let b : FchkBasis := FchkBasis.mk (parseInts types) (parseNats nprims) (parseNats amap)
      (parseNats exps) (parseInts c1) (if c2 == "none" then none else some (parseInts c2))
    some (showGShells (fchkReadBasis b) ++ "|" ++ showCols (fchkReadCoeffs nbasis.toNat! (parseInts flat)))
  | ["fchkdr", tri] =>
    some (";".intercalate ((triangleToDense (parseInts tri)).map showInts))
  | _ => none

end Iodata.Drv.Wf
