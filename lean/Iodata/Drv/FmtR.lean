/- Line-protocol handlers of the reader-only format models (C03, readers):

   fmtr spec <format> <specobj>   → ok <hex of the spec-rendered bytes>
   fmtr load <format> <hex>       → ok <loaded object, canonical> | err LoadError

   Encoding: fields `;`, list items `,`, item parts `.` or `:`; strings as `x<hex>`; an exact decimal as
   `[-]<man>e<exp>` (loaded values are printed in normal form: no trailing zeros in the mantissa). -/
import Iodata.Gen.LayoutsR
import Iodata.Gen.Layouts
namespace Iodata.Drv.FmtR
open Iodata.Chars Iodata.Decimal Iodata.Fmt Iodata.FmtR

def hexDigit (n : Nat) : Char := if n < 10 then Char.ofNat (48 + n) else Char.ofNat (87 + n)
def hexVal (c : Char) : Nat :=
  if '0' ≤ c && c ≤ '9' then c.toNat - 48 else if 'a' ≤ c && c ≤ 'f' then c.toNat - 87 else 0
def hexOfStr (s : Str) : String :=
  String.ofList (s.foldr (fun c acc => hexDigit (c.toNat / 16) :: hexDigit (c.toNat % 16) :: acc) [])
def strOfHexGo : List Char → Str → Str
  | a :: b :: r, acc => strOfHexGo r (Char.ofNat (hexVal a * 16 + hexVal b) :: acc)
  | _, acc => acc.reverse
def strOfHex (h : String) : Str := strOfHexGo h.toList []
def decStr (s : String) : Str := strOfHex (s.drop 1).toString
def encStr (s : Str) : String := "x" ++ hexOfStr s
def decList {α} (sep : String) (f : String → α) (s : String) : List α :=
  if s == "" || s == "@" then [] else (s.splitOn sep).map f
def encList {α} (sep : String) (f : α → String) (l : List α) : String :=
  if l.isEmpty then "@" else sep.intercalate (l.map f)
def linesOfHex (h : String) : List Str := splitLines (strOfHex h)
def okHex (ls : List Str) : String := "ok " ++ String.join (ls.map hexOfStr)

def decNum (s : String) : Num :=
  let neg := s.startsWith "-"
  let body := if neg then (s.drop 1).toString else s
  match body.splitOn "e" with
  | [m, e] => ⟨neg, m.toNat!, e.toInt!⟩
  | _ => ⟨false, 0, 0⟩
def encNum (x : Num) : String :=
  let y := x.norm
  (if y.neg then "-" else "") ++ toString y.man ++ "e" ++ toString y.exp

/-! ### Gaussian log: `n;x<pre>,…;<sec>|<sec>…;x<post>,…`
sections `T<k>:<lower triangle, row-major>`, `E:x<pre>,…:i.j.k.l.<num>,…:x<term>`, `J:x<line>` -/
namespace G
open Iodata.FmtR.GLog

def triF (tri : List Num) : Nat → Nat → Num := fun r c => tri.getD (r * (r + 1) / 2 + c) GLog.zero

def decEntry (s : String) : Helpers.Idx × Num :=
  match s.splitOn "." with
  | [a, b, c, d, v] => ((a.toNat!, b.toNat!, c.toNat!, d.toNat!), decNum v)
  | _ => ((0, 0, 0, 0), GLog.zero)

def decSec (s : String) : Sec :=
  match s.splitOn ":" with
  | ["T0", v] => .two 0 (triF (decList "," decNum v))
  | ["T1", v] => .two 1 (triF (decList "," decNum v))
  | ["T2", v] => .two 2 (triF (decList "," decNum v))
  | ["E", pre, es, term] => .four (decList "," decStr pre) (decList "," decEntry es) (decStr term)
  | ["J", l] => .other (decStr l)
  | _ => .other []

def spec (payload : String) : String :=
  match payload.splitOn ";" with
  | [n, pre, secs, post] =>
    okHex (specFile g09 (decList "," decStr pre) n.toNat! (decList "|" decSec secs) (decList "," decStr post))
  | _ => "bad-request"

def enc2 (n : Nat) : Option Assign2 → String
  | none => "-"
  | some A => encList "," (fun p => encNum (getA GLog.zero A p))
      ((List.range n).flatMap fun r => (List.range n).map fun c => (r, c))

def enc4 (n : Nat) : Option Assign4 → String
  | none => "-"
  | some A => encList "," (fun p => encNum (getA GLog.zero A p))
      ((List.range n).flatMap fun a => (List.range n).flatMap fun b => (List.range n).flatMap fun c =>
        (List.range n).map fun d => (a, b, c, d))

def load (hex : String) : String :=
  match GLog.load Gen.LayoutsR.glogL (linesOfHex hex) with
  | .ok o => s!"ok {enc2 o.nbasis o.olp};{enc2 o.nbasis o.kin};{enc2 o.nbasis o.na};{enc4 o.nbasis o.er}"
  | .error _ => "err LoadError"
end G

/-! ### VASP: `x<title>;<scaling>;<9 cell numbers>;z:count,…;sel;cart;<coords>;x<flag>,…;nx.ny.nz;<line>|<line>…;x<tail>,…`
loaded: `x<title>;<atnums>;<cellvecs>;<atcoords>;nx.ny.nz;<axes>;<data, C order>` with exact rationals `n/d` -/
namespace V
open Iodata.FmtR.Vasp

def decBool (s : String) : Bool := s == "1"

def group3 {α} : List α → List (List α)
  | a :: b :: c :: r => [a, b, c] :: group3 r
  | _ => []

def decElem (s : String) : Nat × Nat :=
  match s.splitOn ":" with
  | [z, c] => (z.toNat!, c.toNat!)
  | _ => (0, 0)

def decShape (s : String) : Idx3 :=
  match s.splitOn "." with
  | [a, b, c] => (a.toNat!, b.toNat!, c.toNat!)
  | _ => (0, 0, 0)

def decModel (payload : String) : Option Model :=
  match payload.splitOn ";" with
  | [t, sc, cell, el, sel, cart, co, fl, sh, ch, tl] =>
    some ⟨decStr t, decNum sc, group3 (decList "," decNum cell), decList "," decElem el, decBool sel, decBool cart,
      group3 (decList "," decNum co), decList "," decStr fl, decShape sh, decList "|" (decList "," decNum) ch,
      decList "," decStr tl⟩
  | _ => none

def spec (payload : String) : String :=
  match decModel payload with
  | some m => okHex (specRender Gen.Layouts.tables vasp5 m)
  | none => "bad-request"

def encRat (q : Rat) : String := toString q.num ++ "/" ++ toString q.den
def encRats (rows : List (List Rat)) : String := encList "," encRat rows.flatten

def encHeader (h : Header) : String :=
  let U := Gen.LayoutsR.vaspU
  s!"{encStr h.title};{encList "," toString h.atnums};{encRats (cellvecs U h)};{encRats (atcoords U h)}"

def encGrid (k : Kind) (g : Grid) : String :=
  let U := Gen.LayoutsR.vaspU
  let s := g.shape
  let pts := (List.range s.1).flatMap fun i => (List.range s.2.1).flatMap fun j => (List.range s.2.2).map fun l => (i, j, l)
  s!"{encHeader g.hdr};{s.1}.{s.2.1}.{s.2.2};{encRats (axes U g)};{encList "," (fun p => encRat (dataAt U k g p)) pts}"

def load (k : Kind) (hex : String) : String :=
  match loadGrid Gen.LayoutsR.vaspL Gen.Layouts.tables (linesOfHex hex) with
  | .ok (g, _) => "ok " ++ encGrid k g
  | .error _ => "err LoadError"

def loadPoscar (hex : String) : String :=
  match loadHeader Gen.LayoutsR.vaspL Gen.Layouts.tables (linesOfHex hex) with
  | .ok (h, _) => "ok " ++ encHeader h
  | .error _ => "err LoadError"
end V

/-! ### CRD: `x<title line>,…;resnum:x<resname>:x<attype>:x:y:z:x<segid>:resid:mass,…`
loaded: `x<title>;resnum:x<resname>:x<attype>:x<segid>:resid,…;<atcoords n/d>;<atmasses n/d>` -/
namespace C
open Iodata.FmtR.Crd

def decAtom (s : String) : SAtom :=
  match s.splitOn ":" with
  | [a, b, c, x, y, z, sg, r, m] => ⟨a.toNat!, decStr b, decStr c, decNum x, decNum y, decNum z, decStr sg, r.toNat!, decNum m⟩
  | _ => ⟨0, [], [], ⟨false, 0, 0⟩, ⟨false, 0, 0⟩, ⟨false, 0, 0⟩, [], 0, ⟨false, 0, 0⟩⟩

def spec (payload : String) : String :=
  match payload.splitOn ";" with
  | [t, ats] => okHex (specRender ⟨decList "," decStr t, decList "," decAtom ats⟩)
  | _ => "bad-request"

def encAtom (a : Atom) : String :=
  s!"{a.resnum}:{encStr a.resname}:{encStr a.attype}:{encStr a.segid}:{a.resid}"

def load (hex : String) : String :=
  let U := Gen.LayoutsR.crdU
  match Crd.load Gen.LayoutsR.crdL (linesOfHex hex) with
  | .ok o => s!"ok {encStr o.title};{encList "," encAtom o.atoms};{V.encRats (atcoords U o)};{encList "," V.encRat (atmasses U o)}"
  | .error _ => "err LoadError"
end C

/-! ### extended XYZ
loaded: `x<title>;<cellvecs n/d|->;<energy|->;<charge|->;<atnums|->;<atcoords n/d|->;<atmasses n/d|->;<atgradient|->;<extra>`
with `<extra>` = `x<key>=<code>:<values>` sorted by key (`i f b s` scalars, `Ti Tf Tb Ts` title arrays,
`I<n> F<n> B<n> S<n>` per-atom columns, `n = 0` for one scalar per atom) -/
namespace X
open Iodata.FmtR.ExtXyz

def U := Gen.LayoutsR.crdU   -- angstrom, amu

def encB (b : Bool) : String := if b then "1" else "0"

def encTVal : TVal → String
  | .int n => s!"i:{n}"
  | .num x => "f:" ++ encNum x
  | .bool b => "b:" ++ encB b
  | .str s => "s:" ++ encStr s
  | .ints l => "Ti:" ++ encList "," toString l
  | .nums l => "Tf:" ++ encList "," encNum l
  | .bools l => "Tb:" ++ encList "," encB l
  | .strs l => "Ts:" ++ encList "," encStr l

def cellsOf (o : Obj) (i : Nat) : List Cell := (o.atoms.map fun a => a.getD i []).flatten

def findCol (o : Obj) (target : String) : Option Nat := o.columns.findIdx? (fun c => c.target == target.toList)

def numsOf (cs : List Cell) : List Num := cs.filterMap fun c => match c with | .num x => some x | _ => none

def encScaled (unit : Rat) (cs : List Cell) : String := encList "," (fun x => V.encRat (x.val * unit)) (numsOf cs)

def encCell : Cell → String
  | .z n => toString n
  | .num x => encNum x
  | .str s => encStr s
  | .int i => toString i
  | .bool b => encB b

def kindCode : Kind → String
  | .str => "S" | .real => "F" | .int => "I" | .logical => "B" | _ => "?"

def ltStr : Str → Str → Bool
  | [], [] => false
  | [], _ :: _ => true
  | _ :: _, [] => false
  | a :: as, b :: bs => if a.toNat < b.toNat then true else if b.toNat < a.toNat then false else ltStr as bs

def insertKV (kv : Str × String) : List (Str × String) → List (Str × String)
  | [] => [kv]
  | x :: xs => if kv.1 = x.1 then kv :: xs else if ltStr kv.1 x.1 then kv :: x :: xs else x :: insertKV kv xs

def extras (o : Obj) : List (Str × String) :=
  let cols := (o.columns.zipIdx.filter fun ci => ci.1.target == "extra".toList).map fun ci =>
    (ci.1.key, kindCode ci.1.kind ++ toString (if ci.1.vec then ci.1.size else 0) ++ ":" ++ encList "," encCell (cellsOf o ci.2))
  let tit := o.data.extra.map fun kv => (kv.1, encTVal kv.2)
  (cols ++ tit).foldl (fun acc kv => insertKV kv acc) []

def optCol (o : Obj) (target : String) (f : List Cell → String) : String :=
  match findCol o target with
  | some i => f (cellsOf o i)
  | none => "-"

def negNum (x : Num) : Num := ⟨!x.neg, x.man, x.exp⟩

def load (hex : String) : String :=
  match ExtXyz.load Gen.Layouts.tables Gen.LayoutsR.strtoboolT (linesOfHex hex) with
  | .error _ => "err LoadError"
  | .ok o =>
    let cell := match o.data.cell with
      | some l => encList "," (fun x => V.encRat (x.val * U.angstrom)) l
      | none => "-"
    let on (x : Option Num) := match x with | some v => encNum v | none => "-"
    ";".intercalate ["ok " ++ encStr o.title, cell, on o.data.energy, on o.data.charge,
      optCol o "atnums" (encList "," encCell), optCol o "atcoords" (encScaled U.angstrom), optCol o "atmasses" (encScaled U.amu),
      optCol o "atgradient" (fun cs => encList "," (fun x => encNum (negNum x)) (numsOf cs)),
      encList "," (fun kv => encStr kv.1 ++ "=" ++ kv.2) (extras o)]
end X

def handle : List String → Option String
  | ["fmtr", "load", "extxyz", payload] => some (X.load payload)
  | ["fmtr", "spec", "crd", payload] => some (C.spec payload)
  | ["fmtr", "load", "crd", payload] => some (C.load payload)
  | ["fmtr", "spec", "vasp", payload] => some (V.spec payload)
  | ["fmtr", "load", "chgcar", payload] => some (V.load .chgcar payload)
  | ["fmtr", "load", "locpot", payload] => some (V.load .locpot payload)
  | ["fmtr", "load", "poscar", payload] => some (V.loadPoscar payload)
  | ["fmtr", "spec", "glog", payload] => some (G.spec payload)
  | ["fmtr", "load", "glog", payload] => some (G.load payload)
  | _ => none

end Iodata.Drv.FmtR
