/- Line-protocol handlers of the second group of byte-level format models (C02 / C15), first word `fmtw`:

   fmtw dump <format> <opts> <object>   → ok <hex of the written bytes> | err DumpError
   fmtw load <format> <opts> <hex>      → ok <object> | err LoadError

   Encoding conventions as in `Drv/Fmt.lean` (fields `;`, list items `,` or `/`, strings `x<hex>`, a scientific real as
   `[-]<mantissa>@<exponent>`). -/
import Iodata.Drv.Fmt
import Iodata.Gen.LayoutsW
namespace Iodata.Drv.FmtW
open Iodata.Chars Iodata.Decimal Iodata.Fmt Iodata.Drv.Fmt

/-! ### FCIDUMP, full file: `n;<nelec num/den|->;<spinpol num/den|->;<core m@e|->;one (n² reals, row-major, `/`);two (n⁴ reals)`;
loaded: `n;nelec;spinpol;core;one;two` -/
namespace FC
open Iodata.Fmt.FcidumpW Iodata.Helpers

def decFrac (s : String) : Option (Int × Nat) :=
  if s == "-" then none else
  match s.splitOn "/" with
  | [a, b] => some (decInt a, decNat b)
  | _ => none

def decObj (s : String) : Obj :=
  match s.splitOn ";" with
  | [n, ne, ms, c, one, two] =>
    let n := decNat n
    let a1 := (decList "/" F.decSci one).toArray
    let a2 := (decList "/" F.decSci two).toArray
    ⟨n, fun i j => if i < n ∧ j < n then a1.getD (i * n + j) zero else zero,
     fun p => if inRange n p then a2.getD (flat n p) zero else zero,
     if c == "-" then none else some (F.decSci c), decFrac ne, decFrac ms⟩
  | _ => ⟨0, fun _ _ => zero, fun _ => zero, none, none, none⟩

def encLoaded (x : Loaded) : String :=
  let r := List.range x.n
  ";".intercalate [toString x.n, toString x.nelec, toString x.spinpol, F.encSci x.core,
    encList "/" F.encSci (r.flatMap fun i => r.map fun j => x.one i j),
    encList "/" F.encSci (r.flatMap fun i => r.flatMap fun j => r.flatMap fun k => r.map fun l => x.two (i, j, k, l))]

def handle (op _opts payload : String) : String :=
  let L := Gen.LayoutsW.fcidumpL
  if op == "dump" then okHex (dump L (decObj payload))
  else if op == "load" then
    match load L (linesOfHex payload) with
    | .ok o => "ok " ++ encLoaded o
    | .error _ => "err LoadError"
  else "bad-request"
end FC

/-! ### POSCAR text: `x<title>;a:b:c/a:b:c/a:b:c;zn:x:y:z,…` (cell rows in angstrom and direct coordinates as 16-decimal
integers); loaded: `x<title>;scale;cell;<0|1 cartesian>;atoms` -/
namespace PO
open Iodata.Fmt.PoscarW

def decV (s : String) : V3 :=
  match s.splitOn ":" with
  | [a, b, c] => ⟨decFx a, decFx b, decFx c⟩
  | _ => ⟨⟨false, 0⟩, ⟨false, 0⟩, ⟨false, 0⟩⟩
def encV (v : V3) : String := ":".intercalate [encFx v.a, encFx v.b, encFx v.c]
def decAtom (s : String) : Atom :=
  match s.splitOn ":" with
  | [z, a, b, c] => ⟨decNat z, ⟨decFx a, decFx b, decFx c⟩⟩
  | _ => ⟨0, decV ""⟩
def encAtom (a : Atom) : String := toString a.zn ++ ":" ++ encV a.pos

def decObj (s : String) : Obj :=
  match s.splitOn ";" with
  | [t, c, ats] => ⟨decStr t, decList "/" decV c, decList "," decAtom ats⟩
  | _ => ⟨[], [], []⟩
def encLoaded (x : Loaded) : String :=
  ";".intercalate [encStr x.title, encFx x.scale, encList "/" encV x.cell, (if x.cartesian then "1" else "0"), encList "," encAtom x.atoms]

def handle (op _opts payload : String) : String :=
  let L := Gen.LayoutsW.poscarL
  let T := Gen.Layouts.tables
  if op == "dump" then okHex (dump T L (decObj payload))
  else if op == "load" then
    match load T L (linesOfHex payload) with
    | .ok o => "ok " ++ encLoaded o
    | .error _ => "err LoadError"
  else "bad-request"
end PO

/-! ### FCHK objects: `x<title>;<x run type|->;<x lot|->;<x basis|->;store`, a store entry is `x<attr>:<i|r|I|R|S>:<payload>`
(`S`: symmetric matrix `n|t/t/…` by its lower triangle); loaded: `x<title>;<x run type|->;x<lot>;<x basis|->;store`
(`load`: without the pass-through entries `=<label>`; `loadall`: with them) -/
namespace FO
open Iodata.Fmt.FchkO

def decVal (k p : String) : AVal :=
  if k == "i" then .isca (decInt p) else if k == "r" then .sca (F.decSci p)
  else if k == "I" then .ivec (decList "/" decInt p) else if k == "R" then .vec (decList "/" F.decSci p)
  else match p.splitOn "|" with
    | [n, t] => .sym (decNat n) (decList "/" F.decSci t)
    | _ => .sym 0 []
def encVal : AVal → String
  | .isca i => "i:" ++ toString i
  | .sca x => "r:" ++ F.encSci x
  | .ivec l => "I:" ++ encList "/" (fun (i : Int) => toString i) l
  | .vec l => "R:" ++ encList "/" F.encSci l
  | .sym n t => "S:" ++ toString n ++ "|" ++ encList "/" F.encSci t

def decEntry (s : String) : Str × AVal :=
  match s.splitOn ":" with
  | [a, k, p] => (decStr a, decVal k p)
  | _ => ([], .isca 0)
def encEntry (e : Str × AVal) : String := encStr e.1 ++ ":" ++ encVal e.2

def decObj (s : String) : Obj :=
  match s.splitOn ";" with
  | [t, rt, lot, bas, st] => ⟨decStr t, F.decOpt rt, F.decOpt lot, F.decOpt bas, decList "," decEntry st⟩
  | _ => ⟨[], none, none, none, []⟩
def encLoaded (all : Bool) (x : Loaded) : String :=
  ";".intercalate [encStr x.title, F.encOpt x.runType, encStr x.lot, F.encOpt x.basis,
    encList "," (fun (t : String) => t) ((((x.store.filter fun e => all || e.1.head? != some '=').map encEntry).toArray.qsort (· < ·)).toList)]

def handle (op _opts payload : String) : String :=
  let L := Gen.Layouts.fchkL
  let Rn := Gen.Layouts.fchkRunTypes
  if op == "dump" then okHex (dump L Rn Gen.LayoutsW.fchkW (decObj payload))
  else if op == "load" || op == "loadall" then
    match load L Rn Gen.LayoutsW.fchkR (linesOfHex payload) with
    | .ok o => "ok " ++ encLoaded (op == "loadall") o
    | .error _ => "err LoadError"
  else "bad-request"
end FO

/-! ### WFN sections: `x<title>;zn:x:y:z,…;c:t:<m@e>,…;occ:energy:<m@e>/<m@e>/…,…;<energy|nan>;<virial|nan>;<spin i/i/…|->`
(zero-based centre and type of every primitive); loaded:
`x<title>;atoms;centres i/i/…;types;exponents;number:occ:energy:coeffs,…;energy;virial;spin (or @)` -/
namespace WF
open Iodata.Fmt.WfnS

def decFxN (s : String) : Option Fx := if s == "nan" then none else some (decFx s)
def encFxN : Option Fx → String
  | none => "nan"
  | some x => encFx x
def decAtom (s : String) : Atom :=
  match s.splitOn ":" with
  | [z, a, b, c] => ⟨decNat z, decFx a, decFx b, decFx c⟩
  | _ => ⟨0, ⟨false, 0⟩, ⟨false, 0⟩, ⟨false, 0⟩⟩
def encAtom (a : Atom) : String := ":".intercalate [toString a.zn, encFx a.x, encFx a.y, encFx a.z]
def decPrim (s : String) : Nat × Nat × Sci :=
  match s.splitOn ":" with
  | [c, t, e] => (decNat c, decNat t, F.decSci e)
  | _ => (0, 0, ⟨false, 0, 0⟩)
def decMO (s : String) : MO :=
  match s.splitOn ":" with
  | [o, e, cs] => ⟨decFx o, decFx e, decList "/" F.decSci cs⟩
  | _ => ⟨⟨false, 0⟩, ⟨false, 0⟩, []⟩
def encLMO (m : LMO) : String := ":".intercalate [toString m.number, encFx m.occ, encFx m.energy, encList "/" F.encSci m.coeffs]

def decObj (s : String) : Obj :=
  match s.splitOn ";" with
  | [t, ats, ps, ms, e, v, sp] =>
    ⟨decStr t, decList "," decAtom ats, decList "," decPrim ps, decList "," decMO ms, decFxN e, decFxN v,
     if sp == "-" then none else some (decList "/" decInt sp)⟩
  | _ => ⟨[], [], [], [], none, none, none⟩
def encInts (l : List Int) : String := encList "/" (fun (i : Int) => toString i) l
def encLoaded (x : Loaded) : String :=
  ";".intercalate [encStr x.title, encList "," encAtom x.atoms, encInts x.icenters, encInts x.types, encList "/" F.encSci x.exponents,
    encList "," encLMO x.mos, encFxN x.energy, encFxN x.virial, encInts x.mospin]

def handle (op _opts payload : String) : String :=
  let L := Gen.LayoutsW.wfnL
  let T := Gen.Layouts.tables
  if op == "dump" then okHex (dump T L (decObj payload))
  else if op == "load" then
    match load T L (linesOfHex payload) with
    | .ok o => "ok " ++ encLoaded o
    | .error _ => "err LoadError"
  else "bad-request"
end WF

/-! ### WFX sections: a section is `x<tag>:<T|I|R|M>:<per>:<payload>` (`T`: text lines `x…/x…`; `I`: integers; `R`: reals,
`nan` allowed; `M`: orbitals separated by `|`), sections separated by `,`; `parse` answers the dictionary
`x<tag>:x<line>/x<line>/…,…`; `decodeI` / `decodeR` answer the typed values of lines `x…/x…` -/
namespace WX
open Iodata.Fmt.WfxS

def decReal (s : String) : Option Sci := if s == "nan" then none else some (F.decSci s)
def encReal : Option Sci → String
  | none => "nan"
  | some x => F.encSci x

def decSec (s : String) : Sec :=
  match s.splitOn ":" with
  | [t, k, per, p] =>
    let per := decNat per
    ⟨decStr t,
      if k == "T" then .text (decList "/" decStr p) else if k == "I" then .ints per (decList "/" decInt p)
      else if k == "R" then .reals per (decList "/" decReal p) else .mo per (decList "|" (decList "/" decReal) p)⟩
  | _ => ⟨[], .text []⟩

def encDict (d : Dict) : String := encList "," (fun (e : Str × List Str) => encStr e.1 ++ ":" ++ encList "/" encStr e.2) d

def handle (op _opts payload : String) : String :=
  let L := Gen.LayoutsW.wfxL
  if op == "dump" then okHex (dump L (decList "," decSec payload))
  else if op == "parse" then
    match parse (linesOfHex payload) with
    | .ok d => "ok " ++ encDict d
    | .error _ => "err LoadError"
  else if op == "decodeI" then
    match decodeInts (decList "/" decStr payload) with
    | some l => "ok " ++ encList "/" (fun (i : Int) => toString i) l
    | none => "err LoadError"
  else if op == "decodeR" then
    match decodeReals L.d (decList "/" decStr payload) with
    | some l => "ok " ++ encList "/" encReal l
    | none => "err LoadError"
  else "bad-request"
end WX

/-! ### QCSchema molecule core (JSON dictionary level).  A number is `I<n>_<d>` / `F<n>_<d>`; a value is `q:<num>`, `s:x<hex>`,
`Q:<num>|…`, `S:x…|…`, `B:1|0|…`, `T:i.j.k|…`, `r:x<hex>` (opaque canonical text), `R:x…|…`; a file is `x<key>=<value>,…`
(answered sorted by key); a molecule is
`atnums;atcoords;charge|-;spinpol|-;x<title>|-;atcorenums;masses|-;bonds|-;grot|-;x<sub>=x<raw>,…;prov;x<key>=x<raw>,…`
with `prov` = `-` | `1:x<raw>` | `m:x…|…` -/
namespace QC
open Iodata.Fmt.Qcs

def decQ (s : String) : Q :=
  let isI := s.startsWith "I"
  match ((s.drop 1).toString).splitOn "_" with
  | [n, d] => ⟨isI, decInt n, decNat d⟩
  | _ => ⟨isI, 0, 1⟩
def encQ (q : Q) : String :=
  let g := Nat.gcd q.n.natAbs q.d
  let g := if g == 0 then 1 else g
  (if q.isInt then "I" else "F") ++ toString (q.n / (g : Int)) ++ "_" ++ toString (q.d / g)

def decTriple (s : String) : Int × Int × Int :=
  match s.splitOn "." with
  | [a, b, c] => (decInt a, decInt b, decInt c)
  | _ => (0, 0, 0)
def encTriple (t : Int × Int × Int) : String := s!"{t.1}.{t.2.1}.{t.2.2}"

def encV : V → String
  | .num x => "q:" ++ encQ x
  | .str t => "s:" ++ encStr t
  | .nums l => "Q:" ++ encList "|" encQ l
  | .strs l => "S:" ++ encList "|" encStr l
  | .bools l => "B:" ++ encList "|" (fun (b : Bool) => if b then "1" else "0") l
  | .triples l => "T:" ++ encList "|" encTriple l
  | .raw r => "r:" ++ encStr r
  | .raws l => "R:" ++ encList "|" encStr l
def decV (s : String) : V :=
  match s.splitOn ":" with
  | [k, p] =>
    if k == "q" then .num (decQ p) else if k == "s" then .str (decStr p) else if k == "Q" then .nums (decList "|" decQ p)
    else if k == "S" then .strs (decList "|" decStr p) else if k == "B" then .bools (decList "|" (· == "1") p)
    else if k == "T" then .triples (decList "|" decTriple p) else if k == "r" then .raw (decStr p) else .raws (decList "|" decStr p)
  | _ => .raw []

def encFile (f : File) : String :=
  encList "," (fun (t : String) => t) ((f.map fun e => encStr e.1 ++ "=" ++ encV e.2).toArray.qsort (· < ·)).toList
def decFile (s : String) : File :=
  decList "," (fun e => match e.splitOn "=" with | [k, v] => (decStr k, decV v) | _ => ([], .raw [])) s

def decOpt {α} (f : String → α) (s : String) : Option α := if s == "-" then none else some (f s)
def encOpt {α} (f : α → String) : Option α → String
  | none => "-"
  | some a => f a
def decPairs (s : String) : List (Str × Str) :=
  decList "," (fun e => match e.splitOn "=" with | [k, v] => (decStr k, decStr v) | _ => ([], [])) s
def encPairs (l : List (Str × Str)) : String :=
  encList "," (fun (t : String) => t) ((l.map fun e => encStr e.1 ++ "=" ++ encStr e.2).toArray.qsort (· < ·)).toList
def decProv (s : String) : Prov :=
  if s == "-" then .none else if s.startsWith "1:" then .one (decStr (s.drop 2).toString) else .many (decList "|" decStr (s.drop 2).toString)
def encProv : Prov → String
  | .none => "-"
  | .one r => "1:" ++ encStr r
  | .many l => "m:" ++ encList "|" encStr l

def decMol (s : String) : Mol :=
  match s.splitOn ";" with
  | [zs, co, ch, sp, t, core, ms, bs, g, ex, pv, un] =>
    ⟨decList "|" decNat zs, decList "|" decQ co, decOpt decQ ch, decOpt decQ sp, decOpt decStr t, decList "|" decQ core,
     decOpt (decList "|" decQ) ms, decOpt (decList "|" decTriple) bs, decOpt decQ g, decPairs ex, decProv pv, decPairs un⟩
  | _ => ⟨[], [], none, none, none, [], none, none, none, [], .none, []⟩

def encLoaded (x : Loaded) : String :=
  ";".intercalate [encList "|" (fun (z : Nat) => toString z) x.atnums, encList "|" encQ x.atcoords, encQ x.charge, encQ x.spinpol,
    encQ x.nelec, encOpt encStr x.title, encList "|" encQ x.atcorenums, encOpt (encList "|" encQ) x.atmasses,
    encOpt (encList "|" encTriple) x.bonds, encOpt encQ x.grot, encOpt encV x.schemaVersion, encPairs x.extra, encProv x.prov,
    encPairs x.unparsed]

def handle (op _opts payload : String) : String :=
  let T := Gen.Layouts.tables
  if op == "dump" then "ok " ++ encFile (dump T Gen.LayoutsW.qcsW (decMol payload))
  else if op == "load" then
    match load T Gen.LayoutsW.qcsR Gen.LayoutsW.qcsKnown Gen.LayoutsW.qcsReshapes (decFile payload) with
    | .ok x => "ok " ++ encLoaded x
    | .error _ => "err LoadError"
  else "bad-request"
end QC

def handle : List String → Option String
  | ["fmtw", op, "json", opts, payload] => some (QC.handle op opts payload)
  | ["fmtw", op, "wfx", opts, payload] => some (WX.handle op opts payload)
  | ["fmtw", op, "wfn", opts, payload] => some (WF.handle op opts payload)
  | ["fmtw", op, "fchk", opts, payload] => some (FO.handle op opts payload)
  | ["fmtw", op, "poscar", opts, payload] => some (PO.handle op opts payload)
  | ["fmtw", op, "fcidump", opts, payload] => some (FC.handle op opts payload)
  | _ => none

end Iodata.Drv.FmtW
