/- Line-protocol handlers for the `select` / `selectin` streams (C17). -/
import Iodata.Model.Select
import Iodata.Gen.Registry
namespace Iodata.Drv.Select
open Iodata.Select

/-- comma-separated decimal code points, `@` = empty string -/
def parseStr (s : String) : Str :=
  if s == "@" then [] else (s.splitOn ",").map fun c => Char.ofNat c.toNat!

def showErr : Err → String
  | .noFormat => "err FileFormatError:noFormat"
  | .unsupported => "err FileFormatError:unsupported"
  | .unknownFormat => "err FileFormatError:unknownFormat"
  | .noInputFormat => "err FileFormatError:noInputFormat"

def showRes : Except Err Str → String
  | .ok n => "ok " ++ String.ofList n
  | .error e => showErr e

def handle : List String → Option String
  | ["select", fn, attr, fmt] =>
    some (showRes (select Iodata.Gen.Registry.registry (parseStr fn) attr.toList
      (if fmt == "-" then none else some (parseStr fmt))))
  | ["selectin", fn, fmt] =>
    some (showRes (selectInput Iodata.Gen.Registry.inputModules (parseStr fn) (parseStr fmt)))
  | _ => none

end Iodata.Drv.Select
