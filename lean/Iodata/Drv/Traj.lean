/- Line-protocol handlers for the C13 streams.

   traj  <fmt> <old|new><bondCheck 0|1> <tokens>   one file: frames + final outcome
   trajc <fmt> <old|new><bondCheck 0|1> <tokens>   the same file cut after k lines, k = 0..n (answers joined by '|')
   dumpm <valid flags, e.g. 1101 or @> <boom 0|1> <lens, e.g. 3,5,2 or @>
   fchkm <natom> <nstep:nres:ngeo:ngrad | nstep:- , ...>

   token  = <flag hex digit><hex of the line text>, tokens joined by ','; '@' = empty file.
   flags  : 1 = the line parses as an atom record of the format, 2 = as a bond / CONECT record,
            4 = as a title (extxyz, gro), 8 = as a GRO box line  (decided by the real per-line parsers). -/
import Iodata.Model.Traj
import Std.Data.HashMap
namespace Iodata.Drv.Traj
open Iodata.Traj

def hexVal (c : Char) : Nat :=
  if '0' ≤ c ∧ c ≤ '9' then c.toNat - '0'.toNat
  else if 'a' ≤ c ∧ c ≤ 'f' then c.toNat - 'a'.toNat + 10 else 0

def unhex : List Char → List Char
  | a :: b :: t => Char.ofNat (hexVal a * 16 + hexVal b) :: unhex t
  | _ => []

def hexDigit (n : Nat) : Char := if n < 10 then Char.ofNat (48 + n) else Char.ofNat (87 + n)
def hex (l : List Char) : String :=
  String.ofList (l.flatMap fun c => [hexDigit (c.toNat / 16 % 16), hexDigit (c.toNat % 16)])

def parseTokens (s : String) : List (Nat × Line) :=
  if s == "@" then [] else
  (s.splitOn ",").map fun t =>
    match t.toList with
    | f :: r => (hexVal f, unhex r)
    | [] => (0, [])

abbrev Flags := Std.HashMap (List Char) Nat

def mkFlags (ts : List (Nat × Line)) : Flags :=
  ts.foldl (fun m t => m.insert t.2 t.1) {}

def flagOf (m : Flags) (bit : Nat) (l : Line) : Bool := ((m.getD l 0) / bit) % 2 == 1
def parser (m : Flags) (bit : Nat) (l : Line) : Option Line := if flagOf m bit l then some l else none

def showFinal : Final → String
  | .done => "done"
  | .loadError ln => s!"LE{ln}"

def showOut (frames : List String) (fin : Final) : String :=
  s!"{frames.length} {showFinal fin} " ++ (if frames.isEmpty then "-" else ";".intercalate frames)

def joinNl : List Line → Line
  | [] => []
  | [l] => l
  | l :: t => l ++ '\n' :: joinNl t

def pdbTitle (f : PdbFrame Line Line) : Line :=
  if !f.titles.isEmpty then joinNl f.titles
  else if !f.compnd.isEmpty then joinNl f.compnd
  else "PDB file loaded by IOData".toList

def skelOf (fmt : String) (old : Bool) : LoopSkel :=
  if old then
    (if fmt == "xyz" || fmt == "extxyz" then xyzSkelOld
     else if fmt == "sdf" || fmt == "gromacs" then sdfSkelOld else pdbSkelOld)
  else
    (if fmt == "xyz" || fmt == "extxyz" then xyzSkel
     else if fmt == "sdf" then sdfSkel else if fmt == "gromacs" then groSkel
     else if fmt == "pdb" then pdbSkel else mol2Skel)

def runOne (fmt : String) (old bondCheck : Bool) (m : Flags) (ls : List Line) : String :=
  let sk := skelOf fmt old
  let pa := parser m 1
  let pb := parser m 2
  if fmt == "xyz" then
    let o := loadMany sk (xyzLoadOne pa) ls
    showOut (o.frames.map fun f => s!"{f.atoms.length}/-/{hex f.title}/0") o.final
  else if fmt == "extxyz" then
    let o := loadMany sk (extLoadOne (flagOf m 4) pa) ls
    showOut (o.frames.map fun f => s!"{f.atoms.length}/-/{hex f.title}/0") o.final
  else if fmt == "gromacs" then
    let o := loadMany sk (groLoadOne (flagOf m 4) pa (flagOf m 8)) ls
    showOut (o.frames.map fun f => s!"{f.atoms.length}/-/{hex f.title}/0") o.final
  else if fmt == "sdf" then
    let o := loadMany sk (sdfLoadOne pa pb) ls
    showOut (o.frames.map fun f => s!"{f.atoms.length}/{f.bonds.length}/{hex f.title}/0") o.final
  else if fmt == "pdb" then
    let o := loadMany sk (pdbLoadOne pa pb) ls
    showOut (o.frames.map fun f =>
      s!"{f.atoms.length}/{f.conects.length}/{hex (pdbTitle f)}/{if f.endReached then 0 else 1}") o.final
  else if fmt == "mol2" then
    let o := loadMany sk (mol2LoadOne bondCheck pa pb) ls
    showOut (o.frames.map fun f =>
      let nb := match f.bonds with | none => "-" | some b => toString b.length
      s!"{f.atoms.length}/{nb}/{hex f.title}/0") o.final
  else "bad-format"

def showEv : Ev → String
  | .pull i => s!"p{i}"
  | .check i => s!"c{i}"
  | .openFile => "o"
  | .write i => s!"w{i}"
  | .close => "x"

def showDumpFinal : DumpFinal → String
  | .ok => "ok"
  | .dumpErrorEmpty => "DumpError:empty"
  | .prepareError => "PrepareDumpError"
  | .dumpErrorUncaught => "DumpError:uncaught"
  | .iterRaised => "IterRaised"

/-- items are (index, valid, number of lines); `dumpOne` writes `len` copies of the line `[index]` -/
def dumpReq (valid : String) (boom : String) (lens : String) : String :=
  let vs := if valid == "@" then [] else valid.toList.map (· == '1')
  let ns := if lens == "@" then [] else (lens.splitOn ",").map String.toNat!
  let items : List (Nat × Bool × Nat) := (List.range vs.length).map fun i => (i, vs.getD i false, ns.getD i 0)
  let o := dumpMany (fun it => it.2.1) (fun it => List.replicate it.2.2 (toString it.1).toList) items (boom == "1")
  let written := ",".intercalate (o.lines.map String.ofList)
  s!"{showDumpFinal o.final} {if o.opened then 1 else 0} " ++ ",".intercalate (o.events.map showEv) ++ " " ++
    (if written.isEmpty then "-" else written)

def parsePoint (s : String) : Nat × Option FchkPoint :=
  match s.splitOn ":" with
  | [n, a, b, c] => (n.toNat!, some ⟨a.toNat!, b.toNat!, c.toNat!⟩)
  | n :: _ => (n.toNat!, none)
  | [] => (0, none)

def showTag (t : FchkTag) : String :=
  s!"{t.ipoint}.{t.npoint}.{t.istep}.{t.nstep}.{t.energyIx}.{t.geomIx}.{if t.warned then 1 else 0}"

def handle : List String → Option String
  | ["traj", fmt, mode, toks] =>
    let ts := parseTokens toks
    let md := mode.toList
    some (runOne fmt (md.head? == some 'o') (md.getLast? == some '1') (mkFlags ts) (ts.map (·.2)))
  | ["trajc", fmt, mode, toks] =>
    let ts := parseTokens toks
    let md := mode.toList
    let m := mkFlags ts
    let ls := ts.map (·.2)
    some ("|".intercalate ((List.range (ls.length + 1)).map fun k =>
      runOne fmt (md.head? == some 'o') (md.getLast? == some '1') m (ls.take k)))
  | ["dumpm", valid, boom, lens] => some (dumpReq valid boom lens)
  | ["fchkm", natom, pts] =>
    let ps := if pts == "@" then [] else (pts.splitOn ",").map parsePoint
    let r := fchkLoadMany natom.toNat! ps
    some (s!"{if r.2.2 then "done" else "LE"} {r.2.1} " ++
      (if r.1.isEmpty then "-" else ",".intercalate (r.1.map showTag)))
  | _ => none

end Iodata.Drv.Traj
