/- Line-protocol handlers for the `conv` / `convb` streams (C10). -/
import Iodata.Model.Conv
namespace Iodata.Drv.Conv
open Iodata.Conv

def parseList (s : String) : List String := if s == "@" then [] else s.splitOn ","

def showRes : Except Err (List (Nat × Int)) → String
  | .ok r => "ok " ++ ",".intercalate (r.map fun p => s!"{p.1}:{p.2}")
  | .error e => "err " ++ e.toString

def parseKey (s : String) : Key :=
  let cs := s.toList
  match cs.reverse with
  | k :: rest => ((String.ofList rest.reverse).toNat!, k)
  | [] => (0, '?')

/-- `2c=xx,xy;3p=c0,c1` -/
def parseTable (s : String) : Table :=
  if s == "@" then [] else
  (s.splitOn ";").map fun e =>
    match e.splitOn "=" with
    | [k, ls] => (parseKey k, (parseList ls).map String.toList)
    | _ => ((0, '?'), [])

def handle : List String → Option String
  | ["conv", rev, a, b] =>
    some (showRes (convShell ((parseList a).map String.toList) ((parseList b).map String.toList) (rev == "1")))
  | ["convb", rev, keys, t1, t2] =>
    some (showRes (convBasis (parseTable t1) (parseTable t2) ((parseList keys).map parseKey) (rev == "1")))
  | _ => none

end Iodata.Drv.Conv
