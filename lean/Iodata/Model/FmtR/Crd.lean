/-
CHARMM CRD (`iodata/formats/charmm.py`): `load_one`, `_helper_read_crd`, transcribed; the word indices come
from the source through `Gen/LayoutsR.lean`, the unit factors are the repository's constants.

Published layout (CHARMM `io.doc`, CARD coordinate files): title lines starting with `*`, ended by a line holding
only `*`; the number of atoms (I5); one record per atom
`(I5, I5, 1X, A4, 1X, A4, F10.5, F10.5, F10.5, 1X, A4, 1X, A4, F10.5)`:
atom number, residue number, residue name, atom type, x, y, z (Å), segment id, residue id, weighting (here: mass, amu).
Core Lean only.
-/
import Iodata.Model.FmtR.Num
namespace Iodata.FmtR.Crd
open Iodata.Chars Iodata.Decimal Iodata.Fmt Iodata.FmtR

structure Layout where
  resnum : Nat     -- `int(words[1])`
  resname : Nat
  attype : Nat
  x : Nat
  y : Nat
  z : Nat
  segid : Nat
  resid : Nat      -- `int(words[8])`
  mass : Nat       -- `float(words[9]) * amu`
  deriving DecidableEq, Repr

structure Skel where
  title : List Str
  body : List Str
  deriving DecidableEq, Repr

structure Atom where
  resnum : Int
  resname : Str
  attype : Str
  x : Num
  y : Num
  z : Num
  segid : Str
  resid : Int
  mass : Num
  deriving DecidableEq, Repr

structure Obj where
  title : Str
  atoms : List Atom
  deriving DecidableEq, Repr

/-- the title loop: lines not starting with `*` are skipped, the text after `*` is accumulated (with its line end)
until a line with nothing but `*` -/
def titleGo : List Str → Str → R (Str × List Str)
  | [], _ => .error .eof
  | l :: ls, acc =>
    if startsWith ['*'] l then
      (if (strip (l.drop 1)).isEmpty then .ok (acc, ls) else titleGo ls (acc ++ l.drop 1))
    else titleGo ls acc

def fword (ws : List Str) (i : Nat) : R Num :=
  match word ws i with
  | .error e => .error e
  | .ok w => optE .float (pyFloat w)

def iword (ws : List Str) (i : Nat) : R Int :=
  match word ws i with
  | .error e => .error e
  | .ok w => optE .int (pyInt w)

def parseAtom (L : Layout) (line : Str) : R Atom :=
  let ws := splitWs line
  match iword ws L.resnum, word ws L.resname, word ws L.attype, fword ws L.x, fword ws L.y, fword ws L.z,
        word ws L.segid, iword ws L.resid, fword ws L.mass with
  | .ok a, .ok b, .ok c, .ok x, .ok y, .ok z, .ok s, .ok r, .ok m => .ok ⟨a, b, c, x, y, z, s, r, m⟩
  | .error e, _, _, _, _, _, _, _, _ => .error e
  | _, .error e, _, _, _, _, _, _, _ => .error e
  | _, _, .error e, _, _, _, _, _, _ => .error e
  | _, _, _, .error e, _, _, _, _, _ => .error e
  | _, _, _, _, .error e, _, _, _, _ => .error e
  | _, _, _, _, _, .error e, _, _, _ => .error e
  | _, _, _, _, _, _, .error e, _, _ => .error e
  | _, _, _, _, _, _, _, .error e, _ => .error e
  | _, _, _, _, _, _, _, _, .error e => .error e

/-- `load_one` -/
def load (L : Layout) (ls : List Str) : R Obj :=
  match titleGo ls [] with
  | .error e => .error e
  | .ok (title, rest) =>
    match rest with
    | [] => .error .eof
    | ln :: rest =>
      if isDigitStr (strip ln) then
        match decToNat? (strip ln) with
        | none => .error .int
        | some n =>
          match readN (parseAtom L) n rest with
          | .error e => .error e
          | .ok (atoms, _) => .ok ⟨title, atoms⟩
      else .error .format     -- "The number of atoms must be an integer."

/-! ### atomic units -/

structure Units where
  angstrom : Rat
  amu : Rat

/-- `pos *= angstrom` -/
def atcoords (U : Units) (o : Obj) : List (List Rat) := o.atoms.map fun a => [a.x.val * U.angstrom, a.y.val * U.angstrom, a.z.val * U.angstrom]
/-- `float(words[9]) * amu` -/
def atmasses (U : Units) (o : Obj) : List Rat := o.atoms.map fun a => a.mass.val * U.amu

/-! ### the published layout -/

def stF5 : Style := ⟨5, true, none⟩

structure SAtom where
  resnum : Nat
  resname : Str
  attype : Str
  x : Num
  y : Num
  z : Num
  segid : Str
  resid : Nat
  mass : Num
  deriving DecidableEq, Repr

structure Model where
  titleLines : List Str     -- text after the `*` of each title line
  atoms : List SAtom
  deriving DecidableEq, Repr

def a4 (s : Str) : Str := ' ' :: ljust 4 s
def f10 (x : Num) : Str := rjust 10 (renderNum stF5 x)

/-- `(I5, I5, 1X, A4, 1X, A4, 3F10.5, 1X, A4, 1X, A4, F10.5)` -/
def specAtom (i : Nat) (a : SAtom) : Str :=
  [rjust 5 (natToDec (i + 1)), rjust 5 (natToDec a.resnum), a4 a.resname, a4 a.attype, f10 a.x, f10 a.y, f10 a.z,
   a4 a.segid, a4 (natToDec a.resid), f10 a.mass].flatten ++ ['\n']

def specAtoms : Nat → List SAtom → List Str
  | _, [] => []
  | i, a :: as => specAtom i a :: specAtoms (i + 1) as

def specRender (m : Model) : List Str :=
  m.titleLines.map (fun t => '*' :: (t ++ ['\n'])) ++ (['*', '\n'] :: (rjust 5 (natToDec m.atoms.length) ++ ['\n']) :: specAtoms 0 m.atoms)

def SAtom.atom (a : SAtom) : Atom := ⟨a.resnum, a.resname, a.attype, a.x, a.y, a.z, a.segid, a.resid, a.mass⟩

/-- the object a file denotes: the title is the text of the title lines, line ends included -/
def Model.obj (m : Model) : Obj := ⟨(m.titleLines.map fun t => t ++ ['\n']).flatten, m.atoms.map SAtom.atom⟩

def okA4 (s : Str) : Prop := NoWs s ∧ s ≠ [] ∧ s.length ≤ 4
instance (s : Str) : Decidable (okA4 s) := by unfold okA4; infer_instance

def okF10 (x : Num) : Prop := x.exp = -5 ∧ (renderNum stF5 x).length < 10
instance (x : Num) : Decidable (okF10 x) := by unfold okF10; infer_instance

def okAtom (a : SAtom) : Prop :=
  (natToDec a.resnum).length < 5 ∧ okA4 a.resname ∧ okA4 a.attype ∧ okF10 a.x ∧ okF10 a.y ∧ okF10 a.z ∧ okA4 a.segid ∧
  (natToDec a.resid).length ≤ 4 ∧ okF10 a.mass
instance (a : SAtom) : Decidable (okAtom a) := by unfold okAtom; infer_instance

/-- domain: every title line has visible text, fields are separated by at least one blank, the atom number fits I5 -/
def Dom (m : Model) : Prop :=
  (∀ t ∈ m.titleLines, (strip (t ++ ['\n'])).isEmpty = false) ∧ (∀ a ∈ m.atoms, okAtom a) ∧ m.atoms.length < 100000
instance (m : Model) : Decidable (Dom m) := by unfold Dom; infer_instance

def LayoutOK (L : Layout) : Prop := L = ⟨1, 2, 3, 4, 5, 6, 7, 8, 9⟩
instance (L : Layout) : Decidable (LayoutOK L) := by unfold LayoutOK; infer_instance

def expectedSkel : Skel :=
  ⟨["title = ''".toList, "while True:".toList, ">try:".toList, ">>line = next(lit)".toList, ">except StopIteration:".toList,
    ">>raise LoadError('Title section of CRD has no ending marker (missing bare *).', lit) from exc".toList,
    ">if line.startswith('*'):".toList, ">>text = line[1:]".toList, ">>if len(text.strip()) == 0:".toList, ">>>break".toList,
    ">>title += text".toList, "data = _helper_read_crd(lit)".toList],
   ["natom = next(lit)".toList, "if natom is None or not natom.strip().isdigit():".toList,
    ">raise LoadError('The number of atoms must be an integer.', lit)".toList, "natom = int(natom)".toList,
    "resnums = []".toList, "resnames = []".toList, "attypes = []".toList,
    "pos = np.zeros((natom, 3))".toList, "segid = []".toList, "resid = []".toList, "atmasses = []".toList,
    "for i in range(natom):".toList, ">line = next(lit)".toList, ">words = line.split()".toList,
    ">resnums.append(int(words[1]))".toList, ">resnames.append(words[2])".toList, ">attypes.append(words[3])".toList,
    ">pos[i, 0] = float(words[4])".toList, ">pos[i, 1] = float(words[5])".toList, ">pos[i, 2] = float(words[6])".toList,
    ">segid.append(words[7])".toList, ">resid.append(int(words[8]))".toList, ">atmasses.append(float(words[9]) * amu)".toList,
    "pos *= angstrom".toList, "return (resnums, resnames, attypes, pos, segid, resid, atmasses)".toList]⟩

/-- which loaded attribute each record field goes to (the `return` dictionary of `load_one`) -/
def expectedReturn : List Str :=
  ["resnums = np.array(data[0])".toList, "resnames = np.array(data[1])".toList, "attypes = np.array(data[2])".toList,
   "atcoords = data[3]".toList, "segid = np.array(data[4])".toList, "resid = np.array(data[5])".toList,
   "atmasses = np.array(data[6])".toList,
   "atffparams = {'attypes': attypes, 'resnames': resnames, 'resnums': resnums}".toList,
   "extra = {'segid': segid, 'resid': resid}".toList,
   "return {'atcoords': atcoords, 'atffparams': atffparams, 'atmasses': atmasses, 'extra': extra, 'title': title}".toList]

end Iodata.FmtR.Crd
