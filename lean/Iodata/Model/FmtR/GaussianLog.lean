/-
Gaussian log integrals (`iodata/formats/gaussianlog.py`): `load_one`, `_load_twoindex_g09`,
`_load_fourindex_g09`, transcribed; the constants (slices, markers, block step, skipped words/lines,
index order of the four-index call) come from the source through `Gen/LayoutsR.lean`.

Published layout (Gaussian `iop(3/33=5)` output): a symmetric matrix is printed as its lower triangle in
blocks of five columns; a block starting at column `b` has a header line with the column numbers and one
line for every row `r ≥ b`: the row number (I7) and the entries `(r, b) … (r, min(r, b+4))`, each `D14.6`.
Two-electron integrals: ` I=%3d J=%3d K=%3d L=%3d Int=%20.12D` in chemists' notation `(ij|kl)`.
Core Lean only.
-/
import Iodata.Model.FmtR.Num
import Iodata.Model.FmtR.Arr
import Iodata.Model.Helpers
namespace Iodata.FmtR.GLog
open Iodata.Chars Iodata.Decimal Iodata.Fmt Iodata.FmtR

structure Layout where
  nbasisPrefix : Str          -- `line.startswith("    NBasis =")`
  nbasisSl : Nat × Nat        -- `int(line[12:18])`
  termPrefix : Str            -- `" Normal termination of Gaussian"`
  olp : Str
  kin : Str
  na : Str
  er : Str
  blockStep : Nat             -- `block_counter += 5`
  skipWords : Nat             -- `next(lit).split()[1:]`
  fourSkip : Nat              -- `for _i in range(6): next(lit)`
  fourPrefix : Str            -- `" I="`
  i0 : Nat × Nat
  i1 : Nat × Nat
  i2 : Nat × Nat
  i3 : Nat × Nat
  valFrom : Nat               -- `line[29:]`
  fourPerm : List Nat         -- `set_four_index_element(result, i0, i2, i1, i3, value)` → `[0, 2, 1, 3]`
  deriving DecidableEq, Repr

/-- the statements of the two loaders that the model transcribes, as source text (extracted with `ast`) -/
structure Skel where
  nbasisLoop : List Str       -- the statements of the `for line in lit:` scan
  markers : List (Str × Str)  -- `line.startswith(marker)` → action, in the order of the if-chain
  whileTest : Str
  whileBody : List Str        -- statement heads of the while body
  rowBody : List Str          -- statements of `for i in range(nrow)`
  fourHead : List Str         -- statements of `_load_fourindex_g09` before the line loop
  fourBody : List Str         -- statements of the line loop
  deriving DecidableEq, Repr

abbrev Idx2 := Nat × Nat
abbrev Assign2 := List (Idx2 × Num)
abbrev Assign4 := List (Helpers.Idx × Num)

def zero : Num := ⟨false, 0, 0⟩

/-- `float(word.replace("D", "E"))` for every word -/
def parseWords : List Str → R (List Num)
  | [] => .ok []
  | w :: ws =>
    match pyFloat (replaceDE w) with
    | none => .error .float
    | some v =>
      match parseWords ws with
      | .error e => .error e
      | .ok vs => .ok (v :: vs)

/-- `for j, word in enumerate(words): result[r, j+b] = value; result[j+b, r] = value` (`r = i + b`) -/
def assignRow (r b : Nat) : Nat → List Num → Assign2
  | _, [] => []
  | j, v :: vs => ((r, j + b), v) :: ((j + b, r), v) :: assignRow r b (j + 1) vs

/-- indices must be inside the `n × n` array (IndexError → LoadError) -/
def rowInRange (n r b cnt : Nat) : Bool := decide (r < n) && decide (cnt = 0 ∨ cnt - 1 + b < n)

/-- `for i in range(nrow)` of one block: `i` counts up, `c` rows remain -/
def rowsGo (L : Layout) (n b : Nat) : Nat → Nat → List Str → R (Assign2 × List Str)
  | _, 0, ls => .ok ([], ls)
  | _, _ + 1, [] => .error .eof
  | i, c + 1, l :: ls =>
    match parseWords ((splitWs l).drop L.skipWords) with
    | .error e => .error e
    | .ok vs =>
      if rowInRange n (i + b) b vs.length then
        match rowsGo L n b (i + 1) c ls with
        | .error e => .error e
        | .ok (as, rest) => .ok (assignRow (i + b) b 0 vs ++ as, rest)
      else .error .index

/-- `while block_counter < nbasis:` (fuel: the loop runs at most `n` times when the step is positive) -/
def twoGo (L : Layout) (n : Nat) : Nat → Nat → List Str → R (Assign2 × List Str)
  | 0, _, ls => .ok ([], ls)
  | f + 1, b, ls =>
    if b < n then
      match ls with
      | [] => .error .eof                       -- `next(lit)`: the header line
      | _ :: ls =>
        match rowsGo L n b 0 (n - b) ls with
        | .error e => .error e
        | .ok (a, r) =>
          match twoGo L n f (b + L.blockStep) r with
          | .error e => .error e
          | .ok (as, r') => .ok (a ++ as, r')
    else .ok ([], ls)

/-- `_load_twoindex_g09(lit, nbasis)` -/
def loadTwo (L : Layout) (n : Nat) (ls : List Str) : R (Assign2 × List Str) := twoGo L n (n + 1) 0 ls

def intField (sl : Nat × Nat) (line : Str) : R Nat :=
  match pyInt (slice sl.1 sl.2 line) with
  | some (.ofNat (k + 1)) => .ok k        -- `int(...) - 1`, non-negative
  | some _ => .error .index                -- 0 or negative: numpy would wrap around; outside the layout
  | none => .error .int

/-- one ` I=` line: indices in the order of the file (chemists'), value -/
def fourLine (L : Layout) (line : Str) : R (Helpers.Idx × Num) :=
  match intField L.i0 line, intField L.i1 line, intField L.i2 line, intField L.i3 line with
  | .ok a, .ok b, .ok c, .ok d =>
    match pyFloat (replaceDE (sliceFrom L.valFrom line)) with
    | some v => .ok ((a, b, c, d), v)
    | none => .error .float
  | .error e, _, _, _ => .error e
  | _, .error e, _, _ => .error e
  | _, _, .error e, _ => .error e
  | _, _, _, .error e => .error e

/-- `for line in lit: if not line.startswith(" I="): break; …` — the line that ends the loop is consumed -/
def fourGo (L : Layout) (n : Nat) : List Str → R (Assign4 × List Str)
  | [] => .ok ([], [])
  | l :: ls =>
    if startsWith L.fourPrefix l then
      match fourLine L l with
      | .error e => .error e
      | .ok (q, v) =>
        let p := Helpers.applyPat q L.fourPerm
        if p.1 < n ∧ p.2.1 < n ∧ p.2.2.1 < n ∧ p.2.2.2 < n then
          match fourGo L n ls with
          | .error e => .error e
          | .ok (as, rest) => .ok ((Helpers.written p.1 p.2.1 p.2.2.1 p.2.2.2).map (fun w => (w, v)) ++ as, rest)
        else .error .index
    else .ok ([], ls)

/-- `_load_fourindex_g09(lit, nbasis)` -/
def loadFour (L : Layout) (n : Nat) (ls : List Str) : R (Assign4 × List Str) :=
  if ls.length < L.fourSkip then .error .eof else fourGo L n (ls.drop L.fourSkip)

structure Obj where
  nbasis : Nat
  olp : Option Assign2
  kin : Option Assign2
  na : Option Assign2
  er : Option Assign4
  deriving DecidableEq, Repr

/-- the `while True:` loop of `load_one`; fuel ≥ number of remaining lines + 1 -/
def mainGo (L : Layout) (n : Nat) : Nat → List Str → Obj → R Obj
  | 0, _, _ => .error .eof
  | _ + 1, [], _ => .error .eof               -- StopIteration: no termination line
  | f + 1, l :: ls, o =>
    if startsWith L.termPrefix l then .ok o
    else if startsWith L.olp l then
      match loadTwo L n ls with
      | .error e => .error e
      | .ok (a, r) => mainGo L n f r { o with olp := some a }
    else if startsWith L.kin l then
      match loadTwo L n ls with
      | .error e => .error e
      | .ok (a, r) => mainGo L n f r { o with kin := some a }
    else if startsWith L.na l then
      match loadTwo L n ls with
      | .error e => .error e
      | .ok (a, r) => mainGo L n f r { o with na := some a }
    else if startsWith L.er l then
      match loadFour L n ls with
      | .error e => .error e
      | .ok (a, r) => mainGo L n f r { o with er := some a }
    else mainGo L n f ls o

/-- `for line in lit: if line.startswith("    NBasis ="): nbasis = int(line[12:18]); break` -/
def findNBasis (L : Layout) : List Str → R (Nat × List Str)
  | [] => .error .eof
  | l :: ls =>
    if startsWith L.nbasisPrefix l then
      match pyInt (slice L.nbasisSl.1 L.nbasisSl.2 l) with
      | some (.ofNat n) => .ok (n, ls)
      | _ => .error .int
    else findNBasis L ls

/-- `load_one` -/
def load (L : Layout) (ls : List Str) : R Obj :=
  match findNBasis L ls with
  | .error e => .error e
  | .ok (n, rest) => mainGo L n (rest.length + 1) rest ⟨n, none, none, none, none⟩

/-! ### the published layout -/

/-- the D14.6 / D20.12 styles -/
def stD (d : Nat) : Style := ⟨d, true, some 'D'⟩

structure Spec where
  labelW : Nat      -- I7 row label
  colW : Nat        -- D14.6: width 14
  colD : Nat        -- 6 digits
  perBlock : Nat    -- 5 columns
  hdrLead : Nat     -- 3 blanks before the column labels
  idxW : Nat        -- I3 of ` I=%3d`
  valW : Nat        -- D20.12
  valD : Nat
  deriving DecidableEq, Repr

def g09 : Spec := ⟨7, 14, 6, 5, 3, 3, 20, 12⟩

/-- column numbers of the block starting at `b` in an `n × n` matrix -/
def blockCols (S : Spec) (n b : Nat) : List Nat := List.range' b (min S.perBlock (n - b))

def specHeader (S : Spec) (n b : Nat) : Str :=
  spaces S.hdrLead ++ (((blockCols S n b).map fun c => rjust S.colW (natToDec (c + 1))).flatten ++ ['\n'])

/-- row `r` in the block starting at column `b`: entries `(r, b) … (r, min(r, b + perBlock - 1))` -/
def specRow (S : Spec) (f : Nat → Nat → Num) (r b : Nat) : Str :=
  rjust S.labelW (natToDec (r + 1)) ++
    (((List.range (min S.perBlock (r - b + 1))).map fun t => rjust S.colW (renderNum (stD S.colD) (f r (b + t)))).flatten ++ ['\n'])

def specBlock (S : Spec) (n : Nat) (f : Nat → Nat → Num) (b : Nat) : List Str :=
  specHeader S n b :: (List.range (n - b)).map (fun i => specRow S f (b + i) b)

/-- the printed lower triangle of the symmetric `n × n` matrix with entries `f r c` (`c ≤ r`) -/
def specTwo (S : Spec) (n : Nat) (f : Nat → Nat → Num) : List Str :=
  (List.range ((n + S.perBlock - 1) / S.perBlock)).flatMap (fun k => specBlock S n f (S.perBlock * k))

/-- a two-electron integral line (` I=%3d J=%3d K=%3d L=%3d Int=%20.12D`), piece by piece; indices are
zero-based in the model and one-based in the file -/
def specFourPieces (S : Spec) (e : Helpers.Idx × Num) : List Str :=
  [[' ','I','='], rjust S.idxW (natToDec (e.1.1 + 1)) ++ [' '],
   ['J','='], rjust S.idxW (natToDec (e.1.2.1 + 1)) ++ [' '],
   ['K','='], rjust S.idxW (natToDec (e.1.2.2.1 + 1)) ++ [' '],
   ['L','='], rjust S.idxW (natToDec (e.1.2.2.2 + 1)) ++ [' '],
   ['I','n','t','='], rjust S.valW (renderNum (stD S.valD) e.2) ++ ['\n']]

def specFourLine (S : Spec) (e : Helpers.Idx × Num) : Str := (specFourPieces S e).flatten

/-- the two-electron section: the six lines before the list, the list, the line that ends it -/
def specFour (S : Spec) (pre : List Str) (es : List (Helpers.Idx × Num)) (term : Str) : List Str :=
  pre ++ (es.map (specFourLine S) ++ [term])

/-- the entry is printable in its columns: entries leave a blank in front, indices fit -/
def FitsTwo (S : Spec) (x : Num) : Prop := (renderNum (stD S.colD) x).length < S.colW

instance (S : Spec) (x : Num) : Decidable (FitsTwo S x) := by unfold FitsTwo; infer_instance

/-- a two-electron entry is printable: indices fit `I3`, the value fits `D20.12` -/
def FitsFour (S : Spec) (e : Helpers.Idx × Num) : Prop :=
  (natToDec (e.1.1 + 1)).length ≤ S.idxW ∧ (natToDec (e.1.2.1 + 1)).length ≤ S.idxW ∧
  (natToDec (e.1.2.2.1 + 1)).length ≤ S.idxW ∧ (natToDec (e.1.2.2.2 + 1)).length ≤ S.idxW ∧
  (renderNum (stD S.valD) e.2).length ≤ S.valW

instance (S : Spec) (e : Helpers.Idx × Num) : Decidable (FitsFour S e) := by unfold FitsFour; infer_instance

/-- the reader constants the published layout needs -/
def LayoutOK (L : Layout) : Prop :=
  L.skipWords = 1 ∧ L.blockStep = 5 ∧ L.fourSkip = 6 ∧ L.fourPrefix = [' ','I','='] ∧
  L.i0 = (3, 7) ∧ L.i1 = (9, 13) ∧ L.i2 = (15, 19) ∧ L.i3 = (21, 25) ∧ L.valFrom = 29 ∧ L.fourPerm = [0, 2, 1, 3]

instance (L : Layout) : Decidable (LayoutOK L) := by unfold LayoutOK; infer_instance

/-- physicists' index of a chemists' entry `(ij|kl)`: `<ik|jl>` -/
def phys (q : Helpers.Idx) : Helpers.Idx := (q.1, q.2.2.1, q.2.1, q.2.2.2)

/-- the eight positions an entry is stored at -/
def orbit (q : Helpers.Idx) : List Helpers.Idx :=
  Helpers.written (phys q).1 (phys q).2.1 (phys q).2.2.1 (phys q).2.2.2

end Iodata.FmtR.GLog

namespace Iodata.FmtR.GLog
open Iodata.Chars Iodata.Decimal Iodata.Fmt Iodata.FmtR

/-! ### whole files in the published layout -/

/-- a section of the log -/
inductive Sec where
  | two (k : Nat) (f : Nat → Nat → Num)      -- 0 overlap, 1 kinetic, 2 nuclear attraction
  | four (pre : List Str) (es : List (Helpers.Idx × Num)) (term : Str)
  | other (l : Str)                          -- any line that starts with none of the markers

/-- section headings as Gaussian prints them -/
def markerLine : Nat → Str
  | 0 => [' ','*','*','*',' ','O','v','e','r','l','a','p',' ','*','*','*','\n']
  | 1 => [' ','*','*','*',' ','K','i','n','e','t','i','c',' ','E','n','e','r','g','y',' ','*','*','*','\n']
  | _ => [' ','*','*','*','*','*',' ','P','o','t','e','n','t','i','a','l',' ','E','n','e','r','g','y',' ','*','*','*','*','*','\n']

def erMarkerLine : Str :=
  [' ','*','*','*',' ','D','u','m','p','i','n','g',' ','T','w','o','-','E','l','e','c','t','r','o','n',' ',
   'i','n','t','e','g','r','a','l','s',' ','*','*','*','\n']

def termLine : Str :=
  [' ','N','o','r','m','a','l',' ','t','e','r','m','i','n','a','t','i','o','n',' ','o','f',' ','G','a','u','s','s','i','a','n',' ','0','3','\n']

/-- `    NBasis =%4d  MinDer = 0  MaxDer = 0` -/
def nbasisLine (n : Nat) : Str :=
  [' ',' ',' ',' ','N','B','a','s','i','s',' ','='] ++ (rjust 4 (natToDec n) ++
    [' ',' ','M','i','n','D','e','r',' ','=',' ','0',' ',' ','M','a','x','D','e','r',' ','=',' ','0','\n'])

def Sec.lines (S : Spec) (n : Nat) : Sec → List Str
  | .two k f => markerLine k :: specTwo S n f
  | .four pre es term => erMarkerLine :: specFour S pre es term
  | .other l => [l]

def specFile (S : Spec) (pre : List Str) (n : Nat) (secs : List Sec) (post : List Str) : List Str :=
  pre ++ (nbasisLine n :: ((secs.flatMap (Sec.lines S n)) ++ termLine :: post))

/-- the statements the model transcribes (compared with the extracted `Skel` by `decide`) -/
def expectedSkel : Skel :=
  ⟨["for line in lit:".toList, ">if line.startswith('    NBasis ='):".toList, ">>nbasis = int(line[12:18])".toList, ">>break".toList],
   [(" Normal termination of Gaussian".toList, "break".toList),
    (" *** Overlap ***".toList, "one_ints['olp'] = _load_twoindex_g09(lit, nbasis)".toList),
    (" *** Kinetic Energy ***".toList, "one_ints['kin_ao'] = _load_twoindex_g09(lit, nbasis)".toList),
    (" ***** Potential Energy *****".toList, "one_ints['na_ao'] = _load_twoindex_g09(lit, nbasis)".toList),
    (" *** Dumping Two-Electron integrals ***".toList, "two_ints['er_ao'] = _load_fourindex_g09(lit, nbasis)".toList)],
   "block_counter < nbasis".toList,
   ["next(lit)".toList, "nrow = nbasis - block_counter".toList, "for i in range(nrow):".toList, "block_counter += 5".toList],
   ["words = next(lit).split()[1:]".toList, "for (j, word) in enumerate(words):".toList,
    ">value = float(word.replace('D', 'E'))".toList,
    ">result[i + block_counter, j + block_counter] = value".toList,
    ">result[j + block_counter, i + block_counter] = value".toList],
   ["result = np.zeros((nbasis, nbasis, nbasis, nbasis))".toList, "for _i in range(6):".toList, ">next(lit)".toList,
    "return result".toList, "for line in lit:".toList],
   ["if not line.startswith(' I='):".toList, ">break".toList, "i0 = int(line[3:7]) - 1".toList, "i1 = int(line[9:13]) - 1".toList,
    "i2 = int(line[15:19]) - 1".toList, "i3 = int(line[21:25]) - 1".toList,
    "value = float(line[29:].replace('D', 'E'))".toList,
    "set_four_index_element(result, i0, i2, i1, i3, value)".toList]⟩

end Iodata.FmtR.GLog
