/-
VASP CHGCAR / LOCPOT (`iodata/formats/chgcar.py`, `locpot.py`; the header is shared with POSCAR):
`_load_vasp_header`, `_load_vasp_grid`, the two `load_one`, transcribed with exact rational arithmetic for the
unit conversions (`angstrom`, `electronvolt` are the repository's constants as exact rationals).

Published layout (VASP manual, CHGCAR/LOCPOT): comment line, scaling factor, three lattice vectors (rows, Å),
element symbols, atom counts, optional `Selective dynamics`, `Direct`/`Cartesian`, one line per atom, a blank
line, the grid dimensions `NGX NGY NGZ`, then the values with **x the fastest index**, a fixed number per line
(the last line may be shorter).  CHGCAR stores `ρ·V_cell`, LOCPOT eV.
Core Lean only.
-/
import Iodata.Model.FmtR.Num
import Iodata.Model.FmtR.Arr
import Iodata.Model.Helpers
namespace Iodata.FmtR.Vasp
open Iodata.Chars Iodata.Decimal Iodata.Fmt Iodata.FmtR

structure Layout where
  selChars : List Char      -- `line[0].lower() in ["s"]`
  cartChars : List Char     -- `line[0].lower() in ["c", "k"]`
  coordWords : Nat          -- `line.split()[:3]`
  deriving DecidableEq, Repr

/-- the statements the model transcribes (source text, extracted with `ast`) -/
structure Skel where
  header : List Str
  grid : List Str
  chgcar : List Str
  locpot : List Str
  deriving DecidableEq, Repr

abbrev Idx3 := Nat × Nat × Nat

/-- `[float(w) for w in words]` -/
def parseFloats : List Str → R (List Num)
  | [] => .ok []
  | w :: ws =>
    match pyFloat w with
    | none => .error .float
    | some v =>
      match parseFloats ws with
      | .error e => .error e
      | .ok vs => .ok (v :: vs)

/-- `[int(w) for w in words]` -/
def parseInts : List Str → R (List Int)
  | [] => .ok []
  | w :: ws =>
    match pyInt w with
    | none => .error .int
    | some v =>
      match parseInts ws with
      | .error e => .error e
      | .ok vs => .ok (v :: vs)

/-- `[sym2num[w] for w in words]` (exact spelling; KeyError → LoadError) -/
def parseSyms (T : Tables) : List Str → R (List Nat)
  | [] => .ok []
  | w :: ws =>
    match T.num? w with
    | none => .error .sym
    | some z =>
      match parseSyms T ws with
      | .error e => .error e
      | .ok zs => .ok (z :: zs)

/-- `for n, c in zip(vasp_atnums, vasp_counts): atnums.extend([n] * c)` -/
def expand : List Nat → List Int → List Nat
  | z :: zs, c :: cs => List.replicate c.toNat z ++ expand zs cs
  | _, _ => []

/-- a row of three numbers (a lattice vector, a position); other lengths make numpy raise later on -/
def row3 (ws : List Str) : R (List Num) :=
  match parseFloats ws with
  | .error e => .error e
  | .ok vs => if vs.length = 3 then .ok vs else .error .format

def firstLower (l : Str) : Char := lowerC (l.headD '\n')

structure Header where
  title : Str
  scaling : Num
  cell : List (List Num)       -- three rows, as printed (Å, before scaling)
  atnums : List Nat
  cartesian : Bool
  coords : List (List Num)     -- one row per atom, as printed
  deriving DecidableEq, Repr

/-- `_load_vasp_header`; returns the header and the unread lines -/
def loadHeader (L : Layout) (T : Tables) : List Str → R (Header × List Str)
  | l0 :: l1 :: c0 :: c1 :: c2 :: le :: lc :: lsw :: rest =>
    match pyFloat (strip l1), row3 (splitWs c0), row3 (splitWs c1), row3 (splitWs c2) with
    | some sc, .ok r0, .ok r1, .ok r2 =>
      match parseSyms T (splitWs le), parseInts (splitWs lc) with
      | .ok zs, .ok cs =>
        let atnums := expand zs cs
        -- the 7th line can optionally indicate selective dynamics
        let sel := L.selChars.contains (firstLower lsw)
        match (if sel then rest else lsw :: rest) with
        | [] => .error .eof
        | ldc :: rest2 =>
          let cart := L.cartChars.contains (firstLower ldc)
          match readN (fun l => row3 ((splitWs l).take L.coordWords)) atnums.length rest2 with
          | .error e => .error e
          | .ok (coords, rest3) => .ok (⟨strip l0, sc, [r0, r1, r2], atnums, cart, coords⟩, rest3)
      | .error e, _ => .error e
      | _, .error e => .error e
    | none, _, _, _ => .error .float
    | _, .error e, _, _ => .error e
    | _, _, .error e, _ => .error e
    | _, _, _, .error e => .error e
  | _ => .error .eof

/-- `for line in lit: shape = np.array([int(w) for w in line.split()]); if len(shape) == 3: break` -/
def findShape : List Str → R (Idx3 × List Str)
  | [] => .error .eof
  | l :: ls =>
    match parseInts (splitWs l) with
    | .error e => .error e
    | .ok [.ofNat a, .ofNat b, .ofNat c] => .ok ((a, b, c), ls)
    | .ok [_, _, _] => .error .format      -- negative dimension: `np.zeros` raises
    | .ok _ => findShape ls

/-- `if not words: words = next(lit).split()` … `float(words.pop(0))`, `n` times: the values in reading
order and the unread lines (words left on the last line are dropped) -/
def pull : Nat → List Str → List Str → R (List Num × List Str)
  | 0, _, ls => .ok ([], ls)
  | n + 1, w :: ws, ls =>
    match pyFloat w with
    | none => .error .float
    | some v =>
      match pull n ws ls with
      | .error e => .error e
      | .ok (vs, r) => .ok (v :: vs, r)
  | _ + 1, [], [] => .error .eof
  | n + 1, [], l :: ls =>
    match splitWs l with
    | [] => .error .index                 -- `[].pop(0)`
    | w :: ws =>
      match pyFloat w with
      | none => .error .float
      | some v =>
        match pull n ws ls with
        | .error e => .error e
        | .ok (vs, r) => .ok (v :: vs, r)

/-- the index triples in the order of `for i2 … for i1 … for i0 …: cube_data[i0, i1, i2] = …` -/
def idxOrder (s : Idx3) : List Idx3 :=
  forRange s.2.2 fun i2 => forRange s.2.1 fun i1 => (List.range s.1).map fun i0 => (i0, i1, i2)

structure Grid where
  hdr : Header
  shape : Idx3
  data : List (Idx3 × Num)      -- item assignments to `cube_data`, in execution order
  deriving DecidableEq, Repr

/-- `_load_vasp_grid` -/
def loadGrid (L : Layout) (T : Tables) (ls : List Str) : R (Grid × List Str) :=
  match loadHeader L T ls with
  | .error e => .error e
  | .ok (h, rest) =>
    match findShape rest with
    | .error e => .error e
    | .ok (s, rest2) =>
      match pull (s.1 * s.2.1 * s.2.2) [] rest2 with
      | .error e => .error e
      | .ok (vs, rest3) => .ok (⟨h, s, (idxOrder s).zip vs⟩, rest3)

/-! ### what the loaded object holds, in atomic units (exact) -/

structure Units where
  angstrom : Rat
  electronvolt : Rat

def rowVal (r : List Num) : List Rat := r.map Num.val

/-- `cellvecs *= angstrom * scaling` -/
def cellvecs (U : Units) (h : Header) : List (List Rat) :=
  h.cell.map fun r => (rowVal r).map (· * (U.angstrom * h.scaling.val))

def dotRow (x : List Rat) (cell : List (List Rat)) : List Rat :=
  [0, 1, 2].map fun j => ((x.zip cell).map fun (xi, ci) => xi * ci.getD j 0).foldl (· + ·) 0

/-- Cartesian: `coords * angstrom * scaling`; Direct: `np.dot(coords, cellvecs)` -/
def atcoords (U : Units) (h : Header) : List (List Rat) :=
  if h.cartesian then h.coords.map fun r => (rowVal r).map (· * U.angstrom * h.scaling.val)
  else h.coords.map fun r => dotRow (rowVal r) (cellvecs U h)

def shapeList (s : Idx3) : List Nat := [s.1, s.2.1, s.2.2]

/-- `axes = cellvecs / shape.reshape(-1, 1)`: row `i` of the cell divided by the `i`-th grid count -/
def axes (U : Units) (g : Grid) : List (List Rat) :=
  ((cellvecs U g.hdr).zip (shapeList g.shape)).map fun (r, n) => r.map (· / (n : Rat))

def toV3 (r : List Rat) : Helpers.V3 := (r.getD 0 0, r.getD 1 0, r.getD 2 0)

/-- `volume(cellvecs)` for three vectors: `|det|` -/
def cellVolume (U : Units) (h : Header) : Rat :=
  match cellvecs U h with
  | [a, b, c] => Helpers.absR (Helpers.det3 (toV3 a) (toV3 b) (toV3 c))
  | _ => 0

inductive Kind where
  | chgcar | locpot
  deriving DecidableEq, Repr

/-- CHGCAR: `data /= volume(cellvecs)`; LOCPOT: `data *= electronvolt` -/
def factor (U : Units) (k : Kind) (h : Header) : Rat :=
  match k with
  | .chgcar => 1 / cellVolume U h
  | .locpot => U.electronvolt

def zero : Num := ⟨false, 0, 0⟩

/-- `cube.data[i, j, k]` of the loaded object -/
def dataAt (U : Units) (k : Kind) (g : Grid) (p : Idx3) : Rat := (getA zero g.data p).val * factor U k g.hdr

/-! ### the published layout -/

/-- number styles of the file: `F` fields with `d` decimals, `E17.11` values (`0.ddd…E+xx`, `-.ddd…E+xx`) -/
def stF (d : Nat) : Style := ⟨d, true, none⟩
def stE (d : Nat) (x : Num) : Style := ⟨d, !x.neg, some 'E'⟩

/-- fields written one after the other, each right-justified in its width -/
def fieldsLine (fs : List (Nat × Str)) : Str := (fs.map fun f => rjust f.1 f.2).flatten ++ ['\n']

structure Spec where
  scaleW : Nat      -- scaling factor: F19.14
  scaleD : Nat
  cellW : Nat       -- lattice vectors: 3F12.6 after one blank
  cellD : Nat
  symW : Nat        -- element symbols: A5
  cntW : Nat        -- counts: I6
  posW : Nat        -- positions: 3F10.6
  posD : Nat
  flagW : Nat       -- selective-dynamics flags: 3(3X,A1)
  dimW : Nat        -- grid dimensions: 3I5
  valW : Nat        -- values: 1X,E17.11
  valD : Nat
  deriving DecidableEq, Repr

def vasp5 : Spec := ⟨19, 14, 13, 6, 5, 6, 10, 6, 4, 5, 18, 11⟩

structure Model where
  title : Str
  scaling : Num
  cell : List (List Num)
  elems : List (Nat × Nat)            -- (atomic number, how many)
  selective : Bool
  cartesian : Bool
  coords : List (List Num)
  flags : List Str                    -- words after a position when selective (`T`/`F`)
  shape : Idx3
  chunks : List (List Num)            -- the grid values, line by line
  tail : List Str                     -- augmentation occupancies etc. (not read)
  deriving DecidableEq, Repr

def Model.vals (m : Model) : List Num := m.chunks.flatten

def selLine : Str := ['S','e','l','e','c','t','i','v','e',' ','d','y','n','a','m','i','c','s','\n']
def modeLine (cart : Bool) : Str :=
  if cart then ['C','a','r','t','e','s','i','a','n','\n'] else ['D','i','r','e','c','t','\n']

def numFields (w d : Nat) (r : List Num) : List (Nat × Str) := r.map fun x => (w, renderNum (stF d) x)

def coordLine (S : Spec) (m : Model) (r : List Num) : Str :=
  fieldsLine (numFields S.posW S.posD r ++ (if m.selective then m.flags.map fun f => (S.flagW, f) else []))

def valLine (S : Spec) (c : List Num) : Str :=
  fieldsLine (c.map fun x => (S.valW, renderNum (stE S.valD x) x))

def dimsLine (S : Spec) (s : Idx3) : Str :=
  fieldsLine [(S.dimW, natToDec s.1), (S.dimW, natToDec s.2.1), (S.dimW, natToDec s.2.2)]

/-- the header block (shared by POSCAR, CHGCAR, LOCPOT) -/
def specHeader (T : Tables) (S : Spec) (m : Model) : List Str :=
  (m.title ++ ['\n']) :: fieldsLine [(S.scaleW, renderNum (stF S.scaleD) m.scaling)]
  :: (m.cell.map (fun r => fieldsLine (numFields S.cellW S.cellD r))
  ++ (fieldsLine (m.elems.map fun e => (S.symW, T.sym e.1))
  :: fieldsLine (m.elems.map fun e => (S.cntW, natToDec e.2))
  :: ((if m.selective then [selLine] else [])
  ++ (modeLine m.cartesian :: m.coords.map (coordLine S m)))))

/-- the grid block: blank line, dimensions, values -/
def specGrid (S : Spec) (m : Model) : List Str :=
  ['\n'] :: dimsLine S m.shape :: m.chunks.map (valLine S)

def specRender (T : Tables) (S : Spec) (m : Model) : List Str :=
  specHeader T S m ++ (specGrid S m ++ m.tail)

/-- values cut into lines of `k` (the last one may be shorter); fuel = number of values -/
def chunkGo {α : Type} (k : Nat) : Nat → List α → List (List α)
  | 0, _ => []
  | _ + 1, [] => []
  | f + 1, x :: xs => (x :: xs).take k :: chunkGo k f ((x :: xs).drop k)

def chunk {α : Type} (k : Nat) (xs : List α) : List (List α) := chunkGo k xs.length xs

def natomOf (elems : List (Nat × Nat)) : Nat := (elems.map (·.2)).foldl (· + ·) 0

/-- the loaded header a model denotes -/
def Model.header (m : Model) : Header :=
  ⟨m.title, m.scaling, m.cell, expand (m.elems.map (·.1)) (m.elems.map fun e => (e.2 : Int)), m.cartesian, m.coords⟩

def okTok (w : Nat) (s : Str) : Prop := NoWs s ∧ s ≠ [] ∧ s.length < w
instance (w : Nat) (s : Str) : Decidable (okTok w s) := by unfold okTok; infer_instance

def okF (w d : Nat) (x : Num) : Prop := x.exp = -(d : Int) ∧ (renderNum (stF d) x).length < w
instance (w d : Nat) (x : Num) : Decidable (okF w d x) := by unfold okF; infer_instance

def okRow (w d : Nat) (r : List Num) : Prop := r.length = 3 ∧ ∀ x ∈ r, okF w d x
instance (w d : Nat) (r : List Num) : Decidable (okRow w d r) := by unfold okRow; infer_instance

def okElem (T : Tables) (S : Spec) (e : Nat × Nat) : Prop :=
  okTok S.symW (T.sym e.1) ∧ T.num? (T.sym e.1) = some e.1 ∧ (natToDec e.2).length < S.cntW
instance (T : Tables) (S : Spec) (e : Nat × Nat) : Decidable (okElem T S e) := by unfold okElem; infer_instance

/-- the documented domain of the header -/
def HeaderDom (L : Layout) (T : Tables) (S : Spec) (m : Model) : Prop :=
  Trimmed m.title ∧ okF S.scaleW S.scaleD m.scaling ∧
  m.cell.length = 3 ∧ (∀ r ∈ m.cell, okRow S.cellW S.cellD r) ∧
  (∀ e ∈ m.elems, okElem T S e) ∧
  m.coords.length = (expand (m.elems.map (·.1)) (m.elems.map fun e => (e.2 : Int))).length ∧
  (∀ r ∈ m.coords, okRow S.posW S.posD r) ∧ (∀ f ∈ m.flags, okTok S.flagW f) ∧
  L.selChars = ['s'] ∧ L.cartChars = ['c', 'k'] ∧ L.coordWords = 3

instance (L : Layout) (T : Tables) (S : Spec) (m : Model) : Decidable (HeaderDom L T S m) := by
  unfold HeaderDom; infer_instance

/-- the documented domain of the grid block: positive dimensions, as many values as grid points, no empty line -/
def GridDom (S : Spec) (m : Model) : Prop :=
  (∀ c ∈ m.chunks, c ≠ [] ∧ ∀ x ∈ c, (renderNum (stE S.valD x) x).length < S.valW) ∧
  m.vals.length = m.shape.1 * m.shape.2.1 * m.shape.2.2 ∧
  (natToDec m.shape.1).length < S.dimW ∧ (natToDec m.shape.2.1).length < S.dimW ∧ (natToDec m.shape.2.2).length < S.dimW

instance (S : Spec) (m : Model) : Decidable (GridDom S m) := by unfold GridDom; infer_instance

end Iodata.FmtR.Vasp

namespace Iodata.FmtR.Vasp

/-- the statements the model transcribes (compared with the extracted `Skel` by `decide`) -/
def expectedSkel : Skel :=
  ⟨["title = next(lit).strip()".toList, "scaling = float(next(lit).strip())".toList,
    "cellvecs = np.array([[float(w) for w in next(lit).split()] for _ in range(3)])".toList,
    "cellvecs *= angstrom * scaling".toList, "vasp_atnums = [sym2num[w] for w in next(lit).split()]".toList,
    "vasp_counts = [int(w) for w in next(lit).split()]".toList, "atnums = []".toList,
    "for (n, c) in zip(vasp_atnums, vasp_counts):".toList, ">atnums.extend([n] * c)".toList, "atnums = np.array(atnums)".toList,
    "line = next(lit)".toList, "if line[0].lower() in ['s']:".toList, ">line = next(lit)".toList,
    "cartesian = line[0].lower() in ['c', 'k']".toList, "atcoords = []".toList, "for _iatom in range(len(atnums)):".toList,
    ">line = next(lit)".toList, ">atcoords.append([float(w) for w in line.split()[:3]])".toList, "if cartesian:".toList,
    ">atcoords = np.array(atcoords) * angstrom * scaling".toList, "else:".toList,
    ">atcoords = np.dot(np.array(atcoords), cellvecs)".toList, "return (title, cellvecs, atnums, atcoords)".toList],
   ["title, cellvecs, atnums, atcoords = _load_vasp_header(lit)".toList, "for line in lit:".toList,
    ">shape = np.array([int(w) for w in line.split()])".toList, ">if len(shape) == 3:".toList, ">>break".toList,
    "cube_data = np.zeros(shape, float)".toList, "words = []".toList, "for i2 in range(shape[2]):".toList,
    ">for i1 in range(shape[1]):".toList, ">>for i0 in range(shape[0]):".toList, ">>>if not words:".toList,
    ">>>>words = next(lit).split()".toList, ">>>cube_data[i0, i1, i2] = float(words.pop(0))".toList,
    "cube = Cube(origin=np.zeros(3), axes=cellvecs / shape.reshape(-1, 1), data=cube_data)".toList,
    "return {'title': title, 'atcoords': atcoords, 'atnums': atnums, 'cellvecs': cellvecs, 'cube': cube}".toList],
   ["result = _load_vasp_grid(lit)".toList, "result['cube'].data[:] /= volume(result['cellvecs'])".toList, "return result".toList],
   ["result = _load_vasp_grid(lit)".toList, "result['cube'].data[:] *= electronvolt".toList, "return result".toList]⟩

def LayoutOK (L : Layout) : Prop := L.selChars = ['s'] ∧ L.cartChars = ['c', 'k'] ∧ L.coordWords = 3
instance (L : Layout) : Decidable (LayoutOK L) := by unfold LayoutOK; infer_instance

/-- a model used for non-vacuity checks: 2×1×3 grid, triclinic cell, selective dynamics, 4 values per line -/
def exampleModel : Model :=
  ⟨['B','N'], ⟨false, 357000000000000, -14⟩,
   [[⟨false, 1000000, -6⟩, ⟨false, 500000, -6⟩, ⟨false, 0, -6⟩], [⟨true, 250000, -6⟩, ⟨false, 2000000, -6⟩, ⟨false, 0, -6⟩],
    [⟨false, 0, -6⟩, ⟨false, 125000, -6⟩, ⟨false, 3000000, -6⟩]],
   [(7, 1), (5, 1)], true, false,
   [[⟨false, 0, -6⟩, ⟨false, 0, -6⟩, ⟨false, 0, -6⟩], [⟨false, 250000, -6⟩, ⟨false, 250000, -6⟩, ⟨true, 250000, -6⟩]],
   [['T'], ['F'], ['T']], (2, 1, 3),
   chunk 4 [⟨false, 78406017013, -7⟩, ⟨true, 65465465497, -10⟩, ⟨false, 0, -11⟩, ⟨false, 1, -11⟩, ⟨true, 99999999999, 88⟩,
     ⟨false, 5, -100⟩], []⟩

end Iodata.FmtR.Vasp
