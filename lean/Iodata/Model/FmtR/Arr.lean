/-
Arrays as assignment logs: a numpy array that starts as `np.zeros(shape)` and receives item assignments
`a[p] = v` one after the other is the list of `(p, v)` in execution order; reading `a[p]` afterwards
gives the value of the *last* assignment to `p`, or zero.  Core Lean only.
-/
namespace Iodata.FmtR

/-- `a[p]` after the assignments `A` on an array initialised with `zero` -/
def getA {κ α : Type} [DecidableEq κ] (zero : α) (A : List (κ × α)) (p : κ) : α :=
  A.foldl (fun acc kv => if kv.1 = p then kv.2 else acc) zero

/-- `for i in range(n): body(i)` where each body contributes a list -/
def forRange {α : Type} (n : Nat) (body : Nat → List α) : List α := (List.range n).flatMap body

end Iodata.FmtR
