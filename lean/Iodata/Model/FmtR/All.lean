/- All reader-only format models (imported by the generated `Gen/LayoutsR.lean` and the driver). -/
import Iodata.Model.FmtR.GaussianLog
import Iodata.Model.FmtR.Vasp
import Iodata.Model.FmtR.Crd
import Iodata.Model.FmtR.ExtXyz
