/-
Numbers of the reader-only formats (Gaussian log, VASP grids, CHARMM CRD, extended XYZ).

`pyFloat` is CPython's `float(str)` on decimal literals `[sign] digits [. digits] [(e|E) [sign] digits]`
(`inf`, `nan` and `_` separators are outside the model), kept *exact*: the result is the triple
`(neg, man, exp)` denoting `±man·10^exp`, with `man` the integer spelled by all printed digits.
`renderNum` prints such a triple in the styles the published layouts use: Fortran `Dw.d` / `Ew.d`
(`0.dddddd D±xx`, also `-.ddddE+xx` without the leading zero as VASP writes it), C `%w.df`.
Core Lean only.
-/
import Iodata.Model.Fmt.Core
namespace Iodata.FmtR
open Iodata.Chars Iodata.Decimal Iodata.Fmt

/-- the exact decimal number `±man·10^exp` -/
structure Num where
  neg : Bool
  man : Nat
  exp : Int
  deriving DecidableEq, Repr

/-- digits after an optional point: `(fraction digits, rest)` -/
def fracPart : Str → Str × Str
  | '.' :: r => (r.takeWhile isDigitA, r.dropWhile isDigitA)
  | r => ([], r)

/-- exponent part: `[]` → 0, `(e|E)[sign]digits` → its value, anything else → `none` -/
def expPart : Str → Option Int
  | [] => some 0
  | e :: x =>
    if e == 'E' || e == 'e' then
      match decToNat? (splitSign x).2 with
      | some ev => some (if (splitSign x).1 then - (ev : Int) else ev)
      | none => none
    else none

/-- `float(s)`; `none` = `ValueError` -/
def pyFloat (s : Str) : Option Num :=
  let su := splitSign (strip s)
  let ip := su.2.takeWhile isDigitA
  let fr := fracPart (su.2.dropWhile isDigitA)
  if ip.isEmpty && fr.1.isEmpty then none else
  match digitsVal (ip ++ fr.1), expPart fr.2 with
  | some m, some e => some ⟨su.1, m, e - (fr.1.length : Int)⟩
  | _, _ => none

/-- `word.replace("D", "E")` -/
def replaceDE (s : Str) : Str := s.map (fun c => if c == 'D' then 'E' else c)

/-- how a number is printed -/
structure Style where
  d : Nat               -- digits after the point
  lead0 : Bool          -- print the integer part when it is zero (`0.5` rather than `.5`)
  ech : Option Char     -- exponent letter; `none`: plain fixed point (then `exp = -d`)
  deriving DecidableEq, Repr

def ipStr (st : Style) (man : Nat) : Str :=
  if man / 10 ^ st.d = 0 ∧ st.lead0 = false then [] else natToDec (man / 10 ^ st.d)

def expTxt (st : Style) (x : Num) : Str :=
  match st.ech with
  | none => []
  | some c => c :: expStr (x.exp + st.d)

/-- the printed text of `x` (no padding) -/
def renderNum (st : Style) (x : Num) : Str :=
  (if x.neg then ['-'] else []) ++ (ipStr st x.man ++ ('.' :: (digitsW st.d (x.man % 10 ^ st.d) ++ expTxt st x)))

/-- side conditions: at least one digit is printed; a plain style can only show exponent `-d` -/
def StyleOK (st : Style) (x : Num) : Prop :=
  (st.lead0 = true ∨ 0 < st.d) ∧
  (match st.ech with
   | none => x.exp = - (st.d : Int)
   | some c => c = 'E' ∨ c = 'e')

instance (st : Style) (x : Num) : Decidable (StyleOK st x) := by
  unfold StyleOK; cases st.ech <;> infer_instance

/-- normal form for comparing values: trailing zeros of the mantissa moved into the exponent
(fuel = number of digits is enough) -/
def normGo : Nat → Nat → Int → Nat × Int
  | 0, m, e => (m, e)
  | f + 1, m, e => if m ≠ 0 ∧ m % 10 = 0 then normGo f (m / 10) (e + 1) else (m, e)

def Num.norm (x : Num) : Num :=
  if x.man = 0 then ⟨x.neg, 0, 0⟩ else
  let r := normGo (x.man + 1) x.man x.exp
  ⟨x.neg, r.1, r.2⟩

/-- exact value -/
def pow10 (e : Int) : Rat := if e < 0 then 1 / ((10 : Rat) ^ e.natAbs) else (10 : Rat) ^ e.natAbs
def Num.val (x : Num) : Rat := (if x.neg then -1 else 1) * (x.man : Rat) * pow10 x.exp

end Iodata.FmtR
