/-
Extended XYZ (`iodata/formats/extxyz.py` on top of `xyz.load_one` with `atom_columns`): `load_one`,
`_parse_title`, `_parse_properties`, `_convert_title_value`, transcribed, including the part of `shlex.split`
(POSIX mode) that title lines use: blanks, `"…"`, `'…'`, backslash escapes.

Published layout (ASE extended XYZ): line 1 the number of atoms, line 2 `key=value` pairs separated by blanks,
values with blanks in double quotes; `Lattice="ax ay az bx by bz cx cy cz"` (the three cell vectors one after the
other, Å), `Properties=name:type:ncols:…` typing the columns of the atom lines (`S` string, `R` real, `I` integer,
`L` logical; `species`, `pos`, `Z`, `masses`, `forces`), `pbc="T T T"`, `energy`, other keys free.
Core Lean only.
-/
import Iodata.Model.FmtR.Num
namespace Iodata.FmtR.ExtXyz
open Iodata.Chars Iodata.Decimal Iodata.Fmt Iodata.FmtR

/-! ### `shlex.split(s)` (posix, `whitespace = " \t\r\n"`, `quotes = "'\""`, `escape = "\\"`, `escapedquotes = '"'`) -/

def shWs (c : Char) : Bool := c == ' ' || c == '\t' || c == '\r' || c == '\n'

inductive St where
  | sp | word | dq | sq
  deriving DecidableEq, Repr

/-- `none` = `ValueError` ("No closing quotation" / "No escaped character") -/
def shlexGo : St → Str → Str → Option (List Str)
  | .sp, _, [] => some []
  | .word, cur, [] => some [cur]
  | .dq, _, [] => none
  | .sq, _, [] => none
  | .sp, _, c :: cs =>
    if shWs c then shlexGo .sp [] cs
    else if c == '"' then shlexGo .dq [] cs
    else if c == '\'' then shlexGo .sq [] cs
    else if c == '\\' then
      match cs with
      | [] => none
      | e :: r => shlexGo .word [e] r
    else shlexGo .word [c] cs
  | .word, cur, c :: cs =>
    if shWs c then (shlexGo .sp [] cs).map (cur :: ·)
    else if c == '"' then shlexGo .dq cur cs
    else if c == '\'' then shlexGo .sq cur cs
    else if c == '\\' then
      match cs with
      | [] => none
      | e :: r => shlexGo .word (cur ++ [e]) r
    else shlexGo .word (cur ++ [c]) cs
  | .dq, cur, c :: cs =>
    if c == '"' then shlexGo .word cur cs
    else if c == '\\' then
      match cs with
      | [] => none
      | e :: r => if e == '"' || e == '\\' then shlexGo .dq (cur ++ [e]) r else shlexGo .dq (cur ++ ['\\', e]) r
    else shlexGo .dq (cur ++ [c]) cs
  | .sq, cur, c :: cs =>
    if c == '\'' then shlexGo .word cur cs else shlexGo .sq (cur ++ [c]) cs

def shlexSplit (s : Str) : Option (List Str) := shlexGo .sp [] s

/-! ### title values -/

/-- `s.split(sep)` for a one-character separator -/
def splitOnGo (sep : Char) : Str → Str → List Str
  | cur, [] => [cur]
  | cur, c :: cs => if c == sep then cur :: splitOnGo sep [] cs else splitOnGo sep (cur ++ [c]) cs

def splitOn (sep : Char) (s : Str) : List Str := splitOnGo sep [] s

/-- `key, value = pair.split("=", 1)` (`none` when there is no `=`) -/
def splitEq : Str → Str → Option (Str × Str)
  | _, [] => none
  | cur, c :: cs => if c == '=' then some (cur, cs) else splitEq (cur ++ [c]) cs

def mapOpt {α β : Type} (f : α → Option β) : List α → Option (List β)
  | [] => some []
  | a :: as =>
    match f a, mapOpt f as with
    | some b, some bs => some (b :: bs)
    | _, _ => none

/-- `strtobool` with the table of `iodata.utils.STRTOBOOL` -/
def strtobool (tb : List (Str × Bool)) (s : Str) : Option Bool := lookupK tb (lower s)

inductive TVal where
  | int (n : Nat)
  | num (x : Num)
  | bool (b : Bool)
  | str (s : Str)
  | ints (l : List Int)
  | nums (l : List Num)
  | bools (l : List Bool)
  | strs (l : List Str)
  deriving DecidableEq, Repr

/-- `_convert_title_value` -/
def convertValue (tb : List (Str × Bool)) (value : Str) : TVal :=
  let ws := splitWs value
  if ws.length = 1 then
    let v := strip value
    if isDigitStr v then .int ((decToNat? v).getD 0)
    else match pyFloat v with
      | some x => .num x
      | none =>
        match strtobool tb v with
        | some b => .bool b
        | none => .str v
  else
    match mapOpt pyInt ws with
    | some l => .ints l
    | none =>
      match mapOpt pyFloat ws with
      | some l => .nums l
      | none =>
        match mapOpt (strtobool tb) ws with
        | some l => .bools l
        | none => .strs ws

/-! ### `Properties=` -/

inductive Kind where
  | species | pos | mass | force | str | real | int | logical
  deriving DecidableEq, Repr

structure Column where
  target : Str        -- `atnums`, `atcoords`, `atmasses`, `atgradient` or `extra`
  key : Str           -- name in `extra`, empty otherwise
  size : Nat          -- words per atom
  vec : Bool          -- array has a per-atom axis of length `size` (false: one scalar per atom)
  kind : Kind
  deriving DecidableEq, Repr

def group3 {α : Type} : List α → List (α × α × α)
  | a :: b :: c :: r => (a, b, c) :: group3 r
  | _ => []

def dtypeKind (d : Str) : Option Kind :=
  if d = ['S'] then some .str else if d = ['R'] then some .real else if d = ['I'] then some .int
  else if d = ['L'] then some .logical else none

def atnumsCol : Column := ⟨"atnums".toList, [], 1, false, .species⟩

/-- one `name:dtype:shape` triple -/
def propColumn (hasZ hasSpecies : Bool) (p : Str × Str × Str) : R Column :=
  let name := p.1
  if name = "pos".toList then .ok ⟨"atcoords".toList, [], 3, true, .pos⟩
  else if name = "masses".toList then .ok ⟨"atmasses".toList, [], 1, false, .mass⟩
  else if name = "force".toList then .ok ⟨"atgradient".toList, [], 3, true, .force⟩
  else if name = ['Z'] && hasZ then .ok atnumsCol
  else if name = "species".toList && !hasZ && hasSpecies then .ok atnumsCol
  else
    -- `shape_suffix = () if shape == "1" else (int(shape),)` comes before `dtype_map[dtype]`
    match (if p.2.2 = ['1'] then some (1, false) else
            match pyInt p.2.2 with
            | some (.ofNat n) => some (n, true)
            | _ => none) with
    | none => .error .int
    | some (n, vec) =>
      match dtypeKind p.2.1 with
      | none => .error .format
      | some k => .ok ⟨"extra".toList, name, n, vec, k⟩

def mapR {α β : Type} (f : α → R β) : List α → R (List β)
  | [] => .ok []
  | a :: as =>
    match f a with
    | .error e => .error e
    | .ok b =>
      match mapR f as with
      | .error e => .error e
      | .ok bs => .ok (b :: bs)

/-- `_parse_properties` -/
def parseProperties (s : Str) : R (List Column) :=
  let parts := splitOn ':' s
  if parts.length % 3 ≠ 0 then .error .format else
  let ts := group3 parts
  let names := ts.map (·.1)
  mapR (propColumn (names.contains ['Z']) (names.contains "species".toList)) ts

/-! ### the title line -/

structure TitleData where
  columns : Option (List Column)
  energy : Option Num
  cell : Option (List Num)          -- nine numbers, `reshape([3, 3])`: row `i` is numbers `3i … 3i+2`
  charge : Option Num
  extra : List (Str × TVal)          -- assignments to `data["extra"][key]`, in order
  deriving DecidableEq, Repr

def applyPair (tb : List (Str × Bool)) (d : TitleData) (pair : Str) : R TitleData :=
  match splitEq [] pair with
  | none => .ok { d with extra := d.extra ++ [(pair, .bool true)] }
  | some (key, value) =>
    if key = "Properties".toList then
      match parseProperties value with
      | .error e => .error e
      | .ok cols => .ok { d with columns := some cols }
    else if key = "energy".toList then
      match pyFloat value with
      | some x => .ok { d with energy := some x }
      | none => .error .float
    else if key = "Lattice".toList then
      match mapOpt pyFloat (splitWs value) with
      | some l => if l.length = 9 then .ok { d with cell := some l } else .error .format
      | none => .error .float
    else if key = "charge".toList then
      match pyFloat value with
      | some x => .ok { d with charge := some x }
      | none => .error .float
    else .ok { d with extra := d.extra ++ [(key, convertValue tb value)] }

def foldR {α β : Type} (f : β → α → R β) : β → List α → R β
  | b, [] => .ok b
  | b, a :: as =>
    match f b a with
    | .error e => .error e
    | .ok b' => foldR f b' as

/-- `_parse_title`; a title without `Properties` leaves `atom_columns` unbound (UnboundLocalError → LoadError) -/
def parseTitle (tb : List (Str × Bool)) (title : Str) : R (List Column × TitleData) :=
  match shlexSplit title with
  | none => .error .format
  | some pairs =>
    match foldR (applyPair tb) ⟨none, none, none, none, []⟩ pairs with
    | .error e => .error e
    | .ok d =>
      match d.columns with
      | none => .error .format
      | some cols => .ok (cols, d)

/-! ### atom lines -/

inductive Cell where
  | z (n : Nat)
  | num (x : Num)          -- as printed (units / sign are applied by `cellValue`)
  | str (s : Str)
  | int (i : Int)
  | bool (b : Bool)
  deriving DecidableEq, Repr

def loadWord (T : Tables) (tb : List (Str × Bool)) (k : Kind) (w : Str) : R Cell :=
  match k with
  | .species => if isDigitStr w then (optE .int (decToNat? w)).map .z else (optE .sym (T.num? (title w))).map .z
  | .pos | .mass | .force | .real => (optE .float (pyFloat w)).map .num
  | .str => .ok (.str (w.take 25))        -- the array has dtype `U25`
  | .int => (optE .int (pyInt w)).map .int
  | .logical => (optE .format (strtobool tb w)).map .bool

/-- `for ifield in range(size): … loadword(words.pop(0))` -/
def takeWords (T : Tables) (tb : List (Str × Bool)) (k : Kind) : Nat → List Str → R (List Cell × List Str)
  | 0, ws => .ok ([], ws)
  | _ + 1, [] => .error .index
  | n + 1, w :: ws =>
    match loadWord T tb k w with
    | .error e => .error e
    | .ok c =>
      match takeWords T tb k n ws with
      | .error e => .error e
      | .ok (cs, r) => .ok (c :: cs, r)

def loadCols (T : Tables) (tb : List (Str × Bool)) : List Column → List Str → R (List (List Cell))
  | [], _ => .ok []
  | c :: cs, ws =>
    match takeWords T tb c.kind c.size ws with
    | .error e => .error e
    | .ok (cells, r) =>
      match loadCols T tb cs r with
      | .error e => .error e
      | .ok rest => .ok (cells :: rest)

structure Obj where
  title : Str
  data : TitleData
  columns : List Column
  atoms : List (List (List Cell))       -- atom → column → cells
  deriving DecidableEq, Repr

/-- `load_one` -/
def load (T : Tables) (tb : List (Str × Bool)) : List Str → R Obj
  | l0 :: l1 :: rest =>
    match parseTitle tb l1 with
    | .error e => .error e
    | .ok (cols, d) =>
      match pyInt l0 with
      | some (.ofNat n) =>
        match readN (fun l => loadCols T tb cols (splitWs l)) n rest with
        | .error e => .error e
        | .ok (atoms, _) => .ok ⟨strip l1, d, cols, atoms⟩
      | _ => .error .int
  | _ => .error .eof

/-- the three cell vectors: `np.array(numbers).reshape([3, 3])` — vector `i` is numbers `3i, 3i+1, 3i+2` -/
def cellRows (l : List Num) : List (Num × Num × Num) := group3 l

end Iodata.FmtR.ExtXyz
