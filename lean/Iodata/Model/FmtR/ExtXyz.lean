/-
Extended XYZ (`iodata/formats/extxyz.py` on top of `xyz.load_one` with `atom_columns`): `load_one`,
`_parse_title`, `_parse_properties`, `_convert_title_value`, transcribed, including the part of `shlex.split`
(POSIX mode) that title lines use: blanks, `"…"`, `'…'`, backslash escapes.

Published layout (ASE extended XYZ): line 1 the number of atoms, line 2 `key=value` pairs separated by blanks,
values with blanks in double quotes; `Lattice="ax ay az bx by bz cx cy cz"` (the three cell vectors one after the
other, Å), `Properties=name:type:ncols:…` typing the columns of the atom lines (`S` string, `R` real, `I` integer,
`L` logical; `species`, `pos`, `Z`, `masses`, `forces`), `pbc="T T T"`, `energy`, other keys free.
Core Lean only.
-/
import Iodata.Model.FmtR.Num
namespace Iodata.FmtR.ExtXyz
open Iodata.Chars Iodata.Decimal Iodata.Fmt Iodata.FmtR

/-! ### `shlex.split(s)` (posix, `whitespace = " \t\r\n"`, `quotes = "'\""`, `escape = "\\"`, `escapedquotes = '"'`) -/

def shWs (c : Char) : Bool := c == ' ' || c == '\t' || c == '\r' || c == '\n'

inductive St where
  | sp | word | dq | sq
  | esc      -- after a backslash outside quotes
  | dqesc    -- after a backslash inside double quotes
  deriving DecidableEq, Repr

/-- `none` = `ValueError` ("No closing quotation" / "No escaped character") -/
def shlexGo : St → Str → Str → Option (List Str)
  | .sp, _, [] => some []
  | .word, cur, [] => some [cur]
  | .dq, _, [] => none
  | .sq, _, [] => none
  | .esc, _, [] => none
  | .dqesc, _, [] => none
  | .sp, _, c :: cs =>
    if shWs c then shlexGo .sp [] cs
    else if c == '"' then shlexGo .dq [] cs
    else if c == '\'' then shlexGo .sq [] cs
    else if c == '\\' then shlexGo .esc [] cs
    else shlexGo .word [c] cs
  | .word, cur, c :: cs =>
    if shWs c then (shlexGo .sp [] cs).map (cur :: ·)
    else if c == '"' then shlexGo .dq cur cs
    else if c == '\'' then shlexGo .sq cur cs
    else if c == '\\' then shlexGo .esc cur cs
    else shlexGo .word (cur ++ [c]) cs
  | .esc, cur, c :: cs => shlexGo .word (cur ++ [c]) cs
  | .dq, cur, c :: cs =>
    if c == '"' then shlexGo .word cur cs
    else if c == '\\' then shlexGo .dqesc cur cs
    else shlexGo .dq (cur ++ [c]) cs
  | .dqesc, cur, c :: cs =>
    if c == '"' || c == '\\' then shlexGo .dq (cur ++ [c]) cs else shlexGo .dq (cur ++ ['\\', c]) cs
  | .sq, cur, c :: cs =>
    if c == '\'' then shlexGo .word cur cs else shlexGo .sq (cur ++ [c]) cs

def shlexSplit (s : Str) : Option (List Str) := shlexGo .sp [] s

/-! ### title values -/

/-- `s.split(sep)` for a one-character separator -/
def splitOnGo (sep : Char) : Str → Str → List Str
  | cur, [] => [cur]
  | cur, c :: cs => if c == sep then cur :: splitOnGo sep [] cs else splitOnGo sep (cur ++ [c]) cs

def splitOn (sep : Char) (s : Str) : List Str := splitOnGo sep [] s

/-- `key, value = pair.split("=", 1)` (`none` when there is no `=`) -/
def splitEq : Str → Str → Option (Str × Str)
  | _, [] => none
  | cur, c :: cs => if c == '=' then some (cur, cs) else splitEq (cur ++ [c]) cs

def mapOpt {α β : Type} (f : α → Option β) : List α → Option (List β)
  | [] => some []
  | a :: as =>
    match f a, mapOpt f as with
    | some b, some bs => some (b :: bs)
    | _, _ => none

/-- `strtobool` with the table of `iodata.utils.STRTOBOOL` -/
def strtobool (tb : List (Str × Bool)) (s : Str) : Option Bool := lookupK tb (lower s)

inductive TVal where
  | int (n : Nat)
  | num (x : Num)
  | bool (b : Bool)
  | str (s : Str)
  | ints (l : List Int)
  | nums (l : List Num)
  | bools (l : List Bool)
  | strs (l : List Str)
  deriving DecidableEq, Repr

/-- `_convert_title_value` -/
def convertValue (tb : List (Str × Bool)) (value : Str) : TVal :=
  let ws := splitWs value
  if ws.length = 1 then
    let v := strip value
    if isDigitStr v then .int ((decToNat? v).getD 0)
    else match pyFloat v with
      | some x => .num x
      | none =>
        match strtobool tb v with
        | some b => .bool b
        | none => .str v
  else
    match mapOpt pyInt ws with
    | some l => .ints l
    | none =>
      match mapOpt pyFloat ws with
      | some l => .nums l
      | none =>
        match mapOpt (strtobool tb) ws with
        | some l => .bools l
        | none => .strs ws

/-! ### `Properties=` -/

inductive Kind where
  | species | pos | mass | force | str | real | int | logical
  deriving DecidableEq, Repr

structure Column where
  target : Str        -- `atnums`, `atcoords`, `atmasses`, `atgradient` or `extra`
  key : Str           -- name in `extra`, empty otherwise
  size : Nat          -- words per atom
  vec : Bool          -- array has a per-atom axis of length `size` (false: one scalar per atom)
  kind : Kind
  deriving DecidableEq, Repr

def group3 {α : Type} : List α → List (α × α × α)
  | a :: b :: c :: r => (a, b, c) :: group3 r
  | _ => []

def dtypeKind (d : Str) : Option Kind :=
  if d = ['S'] then some .str else if d = ['R'] then some .real else if d = ['I'] then some .int
  else if d = ['L'] then some .logical else none

def atnumsCol : Column := ⟨"atnums".toList, [], 1, false, .species⟩

/-- one `name:dtype:shape` triple -/
def propColumn (hasZ hasSpecies : Bool) (p : Str × Str × Str) : R Column :=
  let name := p.1
  if name = "pos".toList then .ok ⟨"atcoords".toList, [], 3, true, .pos⟩
  else if name = "masses".toList then .ok ⟨"atmasses".toList, [], 1, false, .mass⟩
  else if name = "force".toList then .ok ⟨"atgradient".toList, [], 3, true, .force⟩
  else if name = ['Z'] && hasZ then .ok atnumsCol
  else if name = "species".toList && !hasZ && hasSpecies then .ok atnumsCol
  else
    -- `shape_suffix = () if shape == "1" else (int(shape),)` comes before `dtype_map[dtype]`
    match (if p.2.2 = ['1'] then some (1, false) else
            match pyInt p.2.2 with
            | some (.ofNat n) => some (n, true)
            | _ => none) with
    | none => .error .int
    | some (n, vec) =>
      match dtypeKind p.2.1 with
      | none => .error .format
      | some k => .ok ⟨"extra".toList, name, n, vec, k⟩

def mapR {α β : Type} (f : α → R β) : List α → R (List β)
  | [] => .ok []
  | a :: as =>
    match f a with
    | .error e => .error e
    | .ok b =>
      match mapR f as with
      | .error e => .error e
      | .ok bs => .ok (b :: bs)

/-- `_parse_properties` -/
def parseProperties (s : Str) : R (List Column) :=
  let parts := splitOn ':' s
  if parts.length % 3 ≠ 0 then .error .format else
  let ts := group3 parts
  let names := ts.map (·.1)
  mapR (propColumn (names.contains ['Z']) (names.contains "species".toList)) ts

/-! ### the title line -/

structure TitleData where
  columns : Option (List Column)
  energy : Option Num
  cell : Option (List Num)          -- nine numbers, `reshape([3, 3])`: row `i` is numbers `3i … 3i+2`
  charge : Option Num
  extra : List (Str × TVal)          -- assignments to `data["extra"][key]`, in order
  deriving DecidableEq, Repr

def applyPair (tb : List (Str × Bool)) (d : TitleData) (pair : Str) : R TitleData :=
  match splitEq [] pair with
  | none => .ok { d with extra := d.extra ++ [(pair, .bool true)] }
  | some (key, value) =>
    if key = "Properties".toList then
      match parseProperties value with
      | .error e => .error e
      | .ok cols => .ok { d with columns := some cols }
    else if key = "energy".toList then
      match pyFloat value with
      | some x => .ok { d with energy := some x }
      | none => .error .float
    else if key = "Lattice".toList then
      match mapOpt pyFloat (splitWs value) with
      | some l => if l.length = 9 then .ok { d with cell := some l } else .error .format
      | none => .error .float
    else if key = "charge".toList then
      match pyFloat value with
      | some x => .ok { d with charge := some x }
      | none => .error .float
    else .ok { d with extra := d.extra ++ [(key, convertValue tb value)] }

def foldR {α β : Type} (f : β → α → R β) : β → List α → R β
  | b, [] => .ok b
  | b, a :: as =>
    match f b a with
    | .error e => .error e
    | .ok b' => foldR f b' as

/-- `_parse_title`; a title without `Properties` leaves `atom_columns` unbound (UnboundLocalError → LoadError) -/
def parseTitle (tb : List (Str × Bool)) (title : Str) : R (List Column × TitleData) :=
  match shlexSplit title with
  | none => .error .format
  | some pairs =>
    match foldR (applyPair tb) ⟨none, none, none, none, []⟩ pairs with
    | .error e => .error e
    | .ok d =>
      match d.columns with
      | none => .error .format
      | some cols => .ok (cols, d)

/-! ### atom lines -/

inductive Cell where
  | z (n : Nat)
  | num (x : Num)          -- as printed (units / sign are applied by `cellValue`)
  | str (s : Str)
  | int (i : Int)
  | bool (b : Bool)
  deriving DecidableEq, Repr

def loadWord (T : Tables) (tb : List (Str × Bool)) (k : Kind) (w : Str) : R Cell :=
  match k with
  | .species => if isDigitStr w then (optE .int (decToNat? w)).map .z else (optE .sym (T.num? (title w))).map .z
  | .pos | .mass | .force | .real => (optE .float (pyFloat w)).map .num
  | .str => .ok (.str (w.take 25))        -- the array has dtype `U25`
  | .int => (optE .int (pyInt w)).map .int
  | .logical => (optE .format (strtobool tb w)).map .bool

/-- `for ifield in range(size): … loadword(words.pop(0))` -/
def takeWords (T : Tables) (tb : List (Str × Bool)) (k : Kind) : Nat → List Str → R (List Cell × List Str)
  | 0, ws => .ok ([], ws)
  | _ + 1, [] => .error .index
  | n + 1, w :: ws =>
    match loadWord T tb k w with
    | .error e => .error e
    | .ok c =>
      match takeWords T tb k n ws with
      | .error e => .error e
      | .ok (cs, r) => .ok (c :: cs, r)

def loadCols (T : Tables) (tb : List (Str × Bool)) : List Column → List Str → R (List (List Cell))
  | [], _ => .ok []
  | c :: cs, ws =>
    match takeWords T tb c.kind c.size ws with
    | .error e => .error e
    | .ok (cells, r) =>
      match loadCols T tb cs r with
      | .error e => .error e
      | .ok rest => .ok (cells :: rest)

structure Obj where
  title : Str
  data : TitleData
  columns : List Column
  atoms : List (List (List Cell))       -- atom → column → cells
  deriving DecidableEq, Repr

/-- `load_one` -/
def load (T : Tables) (tb : List (Str × Bool)) : List Str → R Obj
  | l0 :: l1 :: rest =>
    match parseTitle tb l1 with
    | .error e => .error e
    | .ok (cols, d) =>
      match pyInt l0 with
      | some (.ofNat n) =>
        match readN (fun l => loadCols T tb cols (splitWs l)) n rest with
        | .error e => .error e
        | .ok (atoms, _) => .ok ⟨strip l1, d, cols, atoms⟩
      | _ => .error .int
  | _ => .error .eof

/-- the three cell vectors: `np.array(numbers).reshape([3, 3])` — vector `i` is numbers `3i, 3i+1, 3i+2` -/
def cellRows (l : List Num) : List (Num × Num × Num) := group3 l

end Iodata.FmtR.ExtXyz

namespace Iodata.FmtR.ExtXyz
open Iodata.Chars Iodata.Decimal Iodata.Fmt Iodata.FmtR

/-! ### the published layout (title line) -/

/-- a column declaration of `Properties=` as the ASE document describes it -/
inductive Prop' where
  | species                         -- `species:S:1`
  | z                               -- `Z:I:1`
  | pos                             -- `pos:R:3`
  | masses                          -- `masses:R:1`
  | force                           -- `force:R:3`
  | other (name : Str) (dtype : Char) (ncols : Nat)
  deriving DecidableEq, Repr

def Prop'.triple : Prop' → List Str
  | .species => ["species".toList, ['S'], ['1']]
  | .z => [['Z'], ['I'], ['1']]
  | .pos => ["pos".toList, ['R'], ['3']]
  | .masses => ["masses".toList, ['R'], ['1']]
  | .force => ["force".toList, ['R'], ['3']]
  | .other n d k => [n, [d], natToDec k]

/-- `Properties` value: all triples joined by `:` -/
def renderProps (ps : List Prop') : Str := List.intercalate [':'] (ps.flatMap Prop'.triple)

def kindOf (d : Char) : Option Kind :=
  if d = 'S' then some .str else if d = 'R' then some .real else if d = 'I' then some .int else if d = 'L' then some .logical else none

/-- what each declaration means (ASE + the iodata documentation): `Z` gives the atomic numbers when present, otherwise
`species`; `pos` → `atcoords` (Å), `masses` → `atmasses` (amu), `force` → minus `atgradient`; everything else goes to
`extra[name]` with the declared type, `ncols = 1` meaning one scalar per atom -/
def colOf (hasZ : Bool) : Prop' → Option Column
  | .species => if hasZ then some ⟨"extra".toList, "species".toList, 1, false, .str⟩ else some atnumsCol
  | .z => some atnumsCol
  | .pos => some ⟨"atcoords".toList, [], 3, true, .pos⟩
  | .masses => some ⟨"atmasses".toList, [], 1, false, .mass⟩
  | .force => some ⟨"atgradient".toList, [], 3, true, .force⟩
  | .other n d k => (kindOf d).map fun kd => ⟨"extra".toList, n, k, decide (k ≠ 1), kd⟩

/-- names that are free for `extra` columns -/
def okOther (n : Str) : Prop :=
  ':' ∉ n ∧ n ≠ "pos".toList ∧ n ≠ "masses".toList ∧ n ≠ "force".toList ∧ n ≠ ['Z'] ∧ n ≠ "species".toList

instance (n : Str) : Decidable (okOther n) := by unfold okOther; infer_instance

def okProp : Prop' → Prop
  | .other n d _ => okOther n ∧ (kindOf d).isSome
  | _ => True

instance (p : Prop') : Decidable (okProp p) := by cases p <;> unfold okProp <;> infer_instance

/-- how a title value is written -/
inductive Quote where
  | bare | dq
  deriving DecidableEq, Repr

def plainCh (c : Char) : Bool := !shWs c && c != '"' && c != '\'' && c != '\\'
def dqCh (c : Char) : Bool := c != '"' && c != '\\'

def renderPair (p : Str × Str × Quote) : Str :=
  match p.2.2 with
  | .bare => p.1 ++ ('=' :: p.2.1)
  | .dq => p.1 ++ ('=' :: '"' :: (p.2.1 ++ ['"']))

def okPair (p : Str × Str × Quote) : Prop :=
  p.1 ≠ [] ∧ (∀ c ∈ p.1, plainCh c = true) ∧
  (match p.2.2 with
   | .bare => ∀ c ∈ p.2.1, plainCh c = true
   | .dq => ∀ c ∈ p.2.1, dqCh c = true)

instance (p : Str × Str × Quote) : Decidable (okPair p) := by
  obtain ⟨k, v, q⟩ := p
  cases q <;> (unfold okPair; simp only; infer_instance)

/-- the title line: pairs separated by one blank, line end -/
def renderTitle (ps : List (Str × Str × Quote)) : Str := List.intercalate [' '] (ps.map renderPair) ++ ['\n']

def stP (d : Nat) : Style := ⟨d, true, none⟩

/-- `Lattice` value: nine numbers separated by one blank -/
def renderLattice (d : Nat) (l : List Num) : Str := List.intercalate [' '] (l.map (renderNum (stP d)))

end Iodata.FmtR.ExtXyz

namespace Iodata.FmtR.ExtXyz

/-- the statements of `_convert_title_value`, `_parse_properties`, `_parse_title`, `load_one` that the model transcribes
(compared with the extracted text by `decide`) -/
def expectedSkel : List (List (List Char)) :=
  [[['l','i','s','t','_','o','f','_','s','p','l','i','t','s',' ','=',' ','v','a','l','u','e','.','s','p','l','i','t','(',')'], ['i','f',' ','l','e','n','(','l','i','s','t','_','o','f','_','s','p','l','i','t','s',')',' ','=','=',' ','1',':'], ['>','v','a','l','u','e',' ','=',' ','v','a','l','u','e','.','s','t','r','i','p','(',')'], ['>','i','f',' ','v','a','l','u','e','.','i','s','d','i','g','i','t','(',')',':'], ['>','>','c','o','n','v','e','r','t','e','d','_','v','a','l','u','e',' ','=',' ','i','n','t','(','v','a','l','u','e',')'], ['>','e','l','s','e',':'], ['>','>','t','r','y',':'], ['>','>','>','c','o','n','v','e','r','t','e','d','_','v','a','l','u','e',' ','=',' ','f','l','o','a','t','(','v','a','l','u','e',')'], ['>','>','e','x','c','e','p','t',' ','V','a','l','u','e','E','r','r','o','r',':'], ['>','>','>','t','r','y',':'], ['>','>','>','>','c','o','n','v','e','r','t','e','d','_','v','a','l','u','e',' ','=',' ','s','t','r','t','o','b','o','o','l','(','v','a','l','u','e',')'], ['>','>','>','e','x','c','e','p','t',' ','V','a','l','u','e','E','r','r','o','r',':'], ['>','>','>','>','c','o','n','v','e','r','t','e','d','_','v','a','l','u','e',' ','=',' ','v','a','l','u','e'], ['e','l','s','e',':'], ['>','t','r','y',':'], ['>','>','c','o','n','v','e','r','t','e','d','_','v','a','l','u','e',' ','=',' ','n','p','.','a','r','r','a','y','(','l','i','s','t','_','o','f','_','s','p','l','i','t','s',',',' ','d','t','y','p','e','=','i','n','t',')'], ['>','e','x','c','e','p','t',' ','V','a','l','u','e','E','r','r','o','r',':'], ['>','>','t','r','y',':'], ['>','>','>','c','o','n','v','e','r','t','e','d','_','v','a','l','u','e',' ','=',' ','n','p','.','a','r','r','a','y','(','l','i','s','t','_','o','f','_','s','p','l','i','t','s',',',' ','d','t','y','p','e','=','f','l','o','a','t',')'], ['>','>','e','x','c','e','p','t',' ','V','a','l','u','e','E','r','r','o','r',':'], ['>','>','>','t','r','y',':'], ['>','>','>','>','c','o','n','v','e','r','t','e','d','_','v','a','l','u','e',' ','=',' ','n','p','.','a','r','r','a','y','(','[','s','t','r','t','o','b','o','o','l','(','s','p','l','i','t',')',' ','f','o','r',' ','s','p','l','i','t',' ','i','n',' ','l','i','s','t','_','o','f','_','s','p','l','i','t','s',']',',',' ','d','t','y','p','e','=','b','o','o','l',')'], ['>','>','>','e','x','c','e','p','t',' ','V','a','l','u','e','E','r','r','o','r',':'], ['>','>','>','>','c','o','n','v','e','r','t','e','d','_','v','a','l','u','e',' ','=',' ','n','p','.','a','r','r','a','y','(','l','i','s','t','_','o','f','_','s','p','l','i','t','s',',',' ','d','t','y','p','e','=','s','t','r',')'], ['r','e','t','u','r','n',' ','c','o','n','v','e','r','t','e','d','_','v','a','l','u','e']],
   [['a','t','o','m','_','c','o','l','u','m','n','s',' ','=',' ','[',']'], ['d','t','y','p','e','_','m','a','p',' ','=',' ','{','\'','S','\'',':',' ','(','n','p','.','d','t','y','p','e','(','\'','U','2','5','\'',')',',',' ','s','t','r',',',' ','\'','{',':','1','0','s','}','\'','.','f','o','r','m','a','t',')',',',' ','\'','R','\'',':',' ','(','f','l','o','a','t',',',' ','f','l','o','a','t',',',' ','\'','{',':','1','5','.','1','0','f','}','\'','.','f','o','r','m','a','t',')',',',' ','\'','I','\'',':',' ','(','i','n','t',',',' ','i','n','t',',',' ','\'','{',':','1','0','d','}','\'','.','f','o','r','m','a','t',')',',',' ','\'','L','\'',':',' ','(','b','o','o','l',',',' ','s','t','r','t','o','b','o','o','l',',',' ','l','a','m','b','d','a',' ','b','o','o','l','e','a','n',':',' ','\'','T','\'',' ','i','f',' ','b','o','o','l','e','a','n',' ','e','l','s','e',' ','\'','F','\'',')','}'], ['a','t','o','m','_','c','o','l','u','m','n','_','m','a','p',' ','=',' ','{','\'','p','o','s','\'',':',' ','(','\'','a','t','c','o','o','r','d','s','\'',',',' ','N','o','n','e',',',' ','(','3',',',')',',',' ','f','l','o','a','t',',',' ','l','a','m','b','d','a',' ','w','o','r','d',':',' ','f','l','o','a','t','(','w','o','r','d',')',' ','*',' ','a','n','g','s','t','r','o','m',',',' ','l','a','m','b','d','a',' ','v','a','l','u','e',':',' ','f','\'','{','v','a','l','u','e',' ','/',' ','a','n','g','s','t','r','o','m',':','1','5','.','1','0','f','}','\'',')',',',' ','\'','m','a','s','s','e','s','\'',':',' ','(','\'','a','t','m','a','s','s','e','s','\'',',',' ','N','o','n','e',',',' ','(',')',',',' ','f','l','o','a','t',',',' ','l','a','m','b','d','a',' ','w','o','r','d',':',' ','f','l','o','a','t','(','w','o','r','d',')',' ','*',' ','a','m','u',',',' ','l','a','m','b','d','a',' ','v','a','l','u','e',':',' ','f','\'','{','v','a','l','u','e',' ','/',' ','a','m','u',':','1','5','.','1','0','f','}','\'',')',',',' ','\'','f','o','r','c','e','\'',':',' ','(','\'','a','t','g','r','a','d','i','e','n','t','\'',',',' ','N','o','n','e',',',' ','(','3',',',')',',',' ','f','l','o','a','t',',',' ','l','a','m','b','d','a',' ','w','o','r','d',':',' ','-','f','l','o','a','t','(','w','o','r','d',')',',',' ','l','a','m','b','d','a',' ','v','a','l','u','e',':',' ','f','\'','{','-','v','a','l','u','e',':','1','5','.','1','0','f','}','\'',')','}'], ['a','t','n','u','m','_','c','o','l','u','m','n',' ','=',' ','(','\'','a','t','n','u','m','s','\'',',',' ','N','o','n','e',',',' ','(',')',',',' ','i','n','t',',',' ','l','a','m','b','d','a',' ','w','o','r','d',':',' ','i','n','t','(','w','o','r','d',')',' ','i','f',' ','w','o','r','d','.','i','s','d','i','g','i','t','(',')',' ','e','l','s','e',' ','s','y','m','2','n','u','m','[','w','o','r','d','.','t','i','t','l','e','(',')',']',',',' ','l','a','m','b','d','a',' ','a','t','n','u','m',':',' ','f','\'','{','n','u','m','2','s','y','m','[','a','t','n','u','m',']',':','2','s','}','\'',')'], ['s','p','l','i','t','t','e','d','_','p','r','o','p','e','r','t','i','e','s',' ','=',' ','p','r','o','p','e','r','t','i','e','s','.','s','p','l','i','t','(','\'',':','\'',')'], ['i','f',' ','l','e','n','(','s','p','l','i','t','t','e','d','_','p','r','o','p','e','r','t','i','e','s',')',' ','%',' ','3',' ','!','=',' ','0',':'], ['>','r','a','i','s','e',' ','L','o','a','d','E','r','r','o','r','(','f','"','C','a','n','n','o','t',' ','p','a','r','s','e',' ','p','r','o','p','e','r','t','y',' ','f','r','o','m',' ','t','h','e',' ','t','i','t','l','e',' ','l','i','n','e',':',' ','\'','{','p','r','o','p','e','r','t','i','e','s','}','\'','.',' ','T','h','e',' ','e','x','p','e','c','t','e','d',' ','f','o','r','m','a','t',' ','i','s',' ','n','a','m','e',':','d','t','y','p','e',':','s','h','a','p','e','.','"',',',' ','l','i','t',')'], ['n','a','m','e','s',' ','=',' ','s','p','l','i','t','t','e','d','_','p','r','o','p','e','r','t','i','e','s','[',':',':','3',']'], ['d','t','y','p','e','s',' ','=',' ','s','p','l','i','t','t','e','d','_','p','r','o','p','e','r','t','i','e','s','[','1',':',':','3',']'], ['s','h','a','p','e','s',' ','=',' ','s','p','l','i','t','t','e','d','_','p','r','o','p','e','r','t','i','e','s','[','2',':',':','3',']'], ['i','f',' ','\'','Z','\'',' ','i','n',' ','n','a','m','e','s',':'], ['>','a','t','o','m','_','c','o','l','u','m','n','_','m','a','p','[','\'','Z','\'',']',' ','=',' ','a','t','n','u','m','_','c','o','l','u','m','n'], ['e','l','s','e',':'], ['>','i','f',' ','\'','s','p','e','c','i','e','s','\'',' ','i','n',' ','n','a','m','e','s',':'], ['>','>','a','t','o','m','_','c','o','l','u','m','n','_','m','a','p','[','\'','s','p','e','c','i','e','s','\'',']',' ','=',' ','a','t','n','u','m','_','c','o','l','u','m','n'], ['f','o','r',' ','(','n','a','m','e',',',' ','d','t','y','p','e',',',' ','s','h','a','p','e',')',' ','i','n',' ','z','i','p','(','n','a','m','e','s',',',' ','d','t','y','p','e','s',',',' ','s','h','a','p','e','s',')',':'], ['>','i','f',' ','n','a','m','e',' ','i','n',' ','a','t','o','m','_','c','o','l','u','m','n','_','m','a','p',':'], ['>','>','a','t','o','m','_','c','o','l','u','m','n','s','.','a','p','p','e','n','d','(','a','t','o','m','_','c','o','l','u','m','n','_','m','a','p','[','n','a','m','e',']',')'], ['>','e','l','s','e',':'], ['>','>','s','h','a','p','e','_','s','u','f','f','i','x',' ','=',' ','(',')',' ','i','f',' ','s','h','a','p','e',' ','=','=',' ','\'','1','\'',' ','e','l','s','e',' ','(','i','n','t','(','s','h','a','p','e',')',',',')'], ['>','>','a','t','o','m','_','c','o','l','u','m','n','s','.','a','p','p','e','n','d','(','(','\'','e','x','t','r','a','\'',',',' ','n','a','m','e',',',' ','s','h','a','p','e','_','s','u','f','f','i','x',',',' ','*','d','t','y','p','e','_','m','a','p','[','d','t','y','p','e',']',')',')'], ['r','e','t','u','r','n',' ','a','t','o','m','_','c','o','l','u','m','n','s']],
   [['k','e','y','_','v','a','l','u','e','_','p','a','i','r','s',' ','=',' ','s','h','l','e','x','.','s','p','l','i','t','(','t','i','t','l','e',')'], ['d','e','f',' ','l','o','a','d','_','c','e','l','l','v','e','c','s','(','w','o','r','d',')',':','\n',' ',' ',' ',' ','r','e','t','u','r','n',' ','n','p','.','a','r','r','a','y','(','w','o','r','d','.','s','p','l','i','t','(',')',',',' ','d','t','y','p','e','=','f','l','o','a','t',')','.','r','e','s','h','a','p','e','(','[','3',',',' ','3',']',')',' ','*',' ','a','n','g','s','t','r','o','m'], ['i','o','d','a','t','a','_','a','t','t','r','s',' ','=',' ','{','\'','e','n','e','r','g','y','\'',':',' ','(','\'','e','n','e','r','g','y','\'',',',' ','f','l','o','a','t',')',',',' ','\'','L','a','t','t','i','c','e','\'',':',' ','(','\'','c','e','l','l','v','e','c','s','\'',',',' ','l','o','a','d','_','c','e','l','l','v','e','c','s',')',',',' ','\'','c','h','a','r','g','e','\'',':',' ','(','\'','c','h','a','r','g','e','\'',',',' ','f','l','o','a','t',')','}'], ['d','a','t','a',' ','=',' ','{','}'], ['f','o','r',' ','k','e','y','_','v','a','l','u','e','_','p','a','i','r',' ','i','n',' ','k','e','y','_','v','a','l','u','e','_','p','a','i','r','s',':'], ['>','i','f',' ','\'','=','\'',' ','i','n',' ','k','e','y','_','v','a','l','u','e','_','p','a','i','r',':'], ['>','>','k','e','y',',',' ','v','a','l','u','e',' ','=',' ','k','e','y','_','v','a','l','u','e','_','p','a','i','r','.','s','p','l','i','t','(','\'','=','\'',',',' ','1',')'], ['>','>','i','f',' ','k','e','y',' ','=','=',' ','\'','P','r','o','p','e','r','t','i','e','s','\'',':'], ['>','>','>','a','t','o','m','_','c','o','l','u','m','n','s',' ','=',' ','_','p','a','r','s','e','_','p','r','o','p','e','r','t','i','e','s','(','v','a','l','u','e',',',' ','l','i','t',')'], ['>','>','e','l','s','e',':'], ['>','>','>','i','f',' ','k','e','y',' ','i','n',' ','i','o','d','a','t','a','_','a','t','t','r','s',':'], ['>','>','>','>','d','a','t','a','[','i','o','d','a','t','a','_','a','t','t','r','s','[','k','e','y',']','[','0',']',']',' ','=',' ','i','o','d','a','t','a','_','a','t','t','r','s','[','k','e','y',']','[','1',']','(','v','a','l','u','e',')'], ['>','>','>','e','l','s','e',':'], ['>','>','>','>','d','a','t','a','.','s','e','t','d','e','f','a','u','l','t','(','\'','e','x','t','r','a','\'',',',' ','{','}',')','[','k','e','y',']',' ','=',' ','_','c','o','n','v','e','r','t','_','t','i','t','l','e','_','v','a','l','u','e','(','v','a','l','u','e',')'], ['>','e','l','s','e',':'], ['>','>','d','a','t','a','.','s','e','t','d','e','f','a','u','l','t','(','\'','e','x','t','r','a','\'',',',' ','{','}',')','[','k','e','y','_','v','a','l','u','e','_','p','a','i','r',']',' ','=',' ','T','r','u','e'], ['r','e','t','u','r','n',' ','(','a','t','o','m','_','c','o','l','u','m','n','s',',',' ','d','a','t','a',')']],
   [['a','t','o','m','_','l','i','n','e',' ','=',' ','n','e','x','t','(','l','i','t',')'], ['t','i','t','l','e','_','l','i','n','e',' ','=',' ','n','e','x','t','(','l','i','t',')'], ['a','t','o','m','_','c','o','l','u','m','n','s',',',' ','t','i','t','l','e','_','d','a','t','a',' ','=',' ','_','p','a','r','s','e','_','t','i','t','l','e','(','t','i','t','l','e','_','l','i','n','e',',',' ','l','i','t',')'], ['l','i','t','.','b','a','c','k','(','t','i','t','l','e','_','l','i','n','e',')'], ['l','i','t','.','b','a','c','k','(','a','t','o','m','_','l','i','n','e',')'], ['x','y','z','_','d','a','t','a',' ','=',' ','l','o','a','d','_','o','n','e','_','x','y','z','(','l','i','t',',',' ','a','t','o','m','_','c','o','l','u','m','n','s',')'], ['i','f',' ','\'','e','x','t','r','a','\'',' ','i','n',' ','t','i','t','l','e','_','d','a','t','a',' ','a','n','d',' ','\'','e','x','t','r','a','\'',' ','i','n',' ','x','y','z','_','d','a','t','a',':'], ['>','x','y','z','_','d','a','t','a','[','\'','e','x','t','r','a','\'',']','.','u','p','d','a','t','e','(','t','i','t','l','e','_','d','a','t','a','[','\'','e','x','t','r','a','\'',']',')'], ['t','i','t','l','e','_','d','a','t','a','.','u','p','d','a','t','e','(','x','y','z','_','d','a','t','a',')'], ['r','e','t','u','r','n',' ','t','i','t','l','e','_','d','a','t','a']]]

end Iodata.FmtR.ExtXyz
