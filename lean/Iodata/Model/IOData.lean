/-
Model of the coupled attributes of `iodata.iodata.IOData` (C11): hidden fields
`_atcorenums`, `_charge`, `_nelec`, `_spinpol`, the plain per-atom arrays, `mo`,
the property getters (the `atcorenums` getter is a read that writes), the setters,
the attrs validators (evaluated on the OLD state on assignment, on the NEW state in
`__init__`) and the `__attrs_post_init__` replay.  Core Lean only (linked into the driver).

Numbers are exact rationals; the correspondence uses dyadic values so the
double arithmetic of the real code is exact.

Per-atom arrays carry one scalar per atom (`atcoords`/`atgradient` rows are
`(x, 0, 0)` in the correspondence): only the length takes part in validation, the
values are carried so that "every observable unchanged" is about values, too.
-/
namespace Iodata.IOD

inductive Err where
  | typeError
  deriving DecidableEq, Repr

def Err.toString : Err → String
  | .typeError => "TypeError"

/-- what `IOData` sees of a `MolecularOrbitals` object: `mo.nelec`, `mo.spinpol`
(restricted / unrestricted orbitals; both are `None` when `occs is None`) -/
structure Mo where
  nelec : Option Rat
  spinpol : Option Rat
  deriving DecidableEq, Repr

/-- hidden state.  Field names = attrs field names of the class. -/
structure St where
  atcoords : Option (List Rat) := none
  atcorenums : Option (List Rat) := none     -- `_atcorenums`
  atfrozen : Option (List Rat) := none
  atgradient : Option (List Rat) := none
  atmasses : Option (List Rat) := none
  atnums : Option (List Int) := none
  charge : Option Rat := none                -- `_charge`
  nelec : Option Rat := none                 -- `_nelec`
  spinpol : Option Rat := none               -- `_spinpol`
  mo : Option Mo := none
  deriving DecidableEq, Repr

/-- the per-atom fields, named as in the source -/
inductive Fld where
  | atcoords | atcorenums | atgradient | atfrozen | atmasses | atnums
  deriving DecidableEq, Repr

def Fld.name : Fld → String
  | .atcoords => "atcoords" | .atcorenums => "_atcorenums" | .atgradient => "atgradient"
  | .atfrozen => "atfrozen" | .atmasses => "atmasses" | .atnums => "atnums"

/-- `len(self.<f>)` or `None` -/
def lenOf (s : St) : Fld → Option Nat
  | .atcoords => s.atcoords.map List.length
  | .atcorenums => s.atcorenums.map List.length
  | .atgradient => s.atgradient.map List.length
  | .atfrozen => s.atfrozen.map List.length
  | .atmasses => s.atmasses.map List.length
  | .atnums => s.atnums.map List.length

/-- the `if/elif` chain of the `natom` property (`iodata.py`), in source order -/
def natomOrder : List Fld :=
  [.atcoords, .atcorenums, .atgradient, .atfrozen, .atmasses, .atnums]

/-- `natom` with an arbitrary priority list (used to show the order is irrelevant) -/
def natomBy (order : List Fld) (s : St) : Option Nat := order.findSome? (lenOf s)

/-- `IOData.natom` -/
def natom (s : St) : Option Nat := natomBy natomOrder s

/-- `validate_shape("natom")` / `validate_shape("natom", 3)` for a value with `n` rows:
`None` entries of the expected shape are not checked -/
def shapeOk (s : St) (n : Nat) : Bool :=
  match natom s with
  | none => true
  | some k => k == n

def sum (l : List Rat) : Rat := l.sum

/-! ### getters / setters -/

/-- `IOData.nelec` getter -/
def getNelec (s : St) : Option Rat :=
  match s.mo with
  | some m => m.nelec
  | none => s.nelec

/-- `IOData.spinpol` getter -/
def getSpinpol (s : St) : Option Rat :=
  match s.mo with
  | some m => m.spinpol
  | none => s.spinpol

/-- `IOData.nelec` setter: new state and the exception, if any -/
def setNelec (s : St) (v : Option Rat) : St × Option Err :=
  match s.mo with
  | none => ({ s with nelec := v }, none)
  | some _ => (s, some .typeError)

/-- `IOData.spinpol` setter -/
def setSpinpol (s : St) (v : Option Rat) : St × Option Err :=
  match s.mo with
  | none => ({ s with spinpol := v }, none)
  | some _ => (s, some .typeError)

/-- `IOData.atcorenums` setter (code as of the `fix:` commit: validate and store first) -/
def setCore (s : St) : Option (List Rat) → St × Option Err
  | none =>
    -- if self.nelec is not None and self._atcorenums is not None: self._charge = Σ - nelec
    let s1 : St :=
      match getNelec s, s.atcorenums with
      | some ne, some ac => { s with charge := some (sum ac - ne) }
      | _, _ => s
    ({ s1 with atcorenums := none }, none)
  | some v =>
    -- self._atcorenums = np.asarray(v, float)   (attrs: convert, validate on the old state, store)
    if shapeOk s v.length then
      let s1 : St := { s with atcorenums := some v }
      match s1.charge with
      | none => (s1, none)
      | some c =>
        -- if self._nelec is None: self._nelec = Σ - _charge ; self._charge = None
        match s1.nelec with
        | none => ({ s1 with nelec := some (sum v - c), charge := none }, none)
        | some _ => ({ s1 with charge := none }, none)
    else (s, some .typeError)

def toFloat (z : List Int) : List Rat := z.map (fun (i : Int) => ((i : Int) : Rat))

/-- `IOData.atcorenums` getter: value, new state, exception.  A read that writes:
`if self._atcorenums is None and self.atnums is not None: self.atcorenums = self.atnums.astype(float)` -/
def getCore (s : St) : Option (List Rat) × St × Option Err :=
  match s.atcorenums, s.atnums with
  | none, some z =>
    match setCore s (some (toFloat z)) with
    | (s', none) => (s'.atcorenums, s', none)
    | (s', some e) => (none, s', some e)
  | _, _ => (s.atcorenums, s, none)

/-- `IOData.charge` getter -/
def getCharge (s : St) : Option Rat × St × Option Err :=
  match getCore s with
  | (_, s1, some e) => (none, s1, some e)
  | (ac, s1, none) =>
    match ac, getNelec s1 with
    | some a, some ne => (some (sum a - ne), s1, none)
    | _, _ => (s1.charge, s1, none)

/-- `IOData.charge` setter -/
def setCharge (s : St) (c : Option Rat) : St × Option Err :=
  match getCore s with
  | (_, s1, some e) => (s1, some e)
  | (none, s1, none) => ({ s1 with charge := c }, none)
  | (some a, s1, none) =>
    match c with
    | none => setNelec s1 none
    | some c => setNelec s1 (some (sum a - c))

/-- plain attrs fields with `validate_shape("natom", …)`:
convert, validate on the old state (the old value of the field included), store -/
def setArr (s : St) (f : Fld) (v : Option (List Rat)) : St × Option Err :=
  let put (s : St) : St :=
    match f with
    | .atcoords => { s with atcoords := v }
    | .atgradient => { s with atgradient := v }
    | .atfrozen => { s with atfrozen := v }
    | .atmasses => { s with atmasses := v }
    | _ => s
  match v with
  | none => (put s, none)
  | some a => if shapeOk s a.length then (put s, none) else (s, some .typeError)

def setAtnums (s : St) (v : Option (List Int)) : St × Option Err :=
  match v with
  | none => ({ s with atnums := none }, none)
  | some a => if shapeOk s a.length then ({ s with atnums := some a }, none) else (s, some .typeError)

/-! ### construction -/

/-- order in which attrs runs the validators in `__init__` (field definition order) -/
def validatorOrder : List Fld :=
  [.atcoords, .atcorenums, .atfrozen, .atgradient, .atmasses, .atnums]

/-- all shape validators on the freshly filled object (the NEW state) -/
def validateAll (s : St) : Bool :=
  validatorOrder.all fun f =>
    match lenOf s f with
    | none => true
    | some n => shapeOk s n

/-- sequencing of two effects: an exception stops the sequence -/
def andThen (r : St × Option Err) (f : St → St × Option Err) : St × Option Err :=
  match r.2 with
  | some e => (r.1, some e)
  | none => f r.1

/-- `if self._atcorenums is not None: self.atcorenums = self._atcorenums` -/
def replayCore (s : St) : St × Option Err :=
  match s.atcorenums with
  | some a => setCore s (some a)
  | none => (s, none)

/-- `if self._charge is not None: self.charge = self._charge` -/
def replayCharge (s : St) : St × Option Err :=
  match s.charge with
  | some c => setCharge s (some c)
  | none => (s, none)

/-- `if self._nelec is not None: self.nelec = self._nelec` -/
def replayNelec (s : St) : St × Option Err :=
  match s.nelec with
  | some n => setNelec s (some n)
  | none => (s, none)

/-- `if self._spinpol is not None: self.spinpol = self._spinpol` -/
def replaySpinpol (s : St) : St × Option Err :=
  match s.spinpol with
  | some p => setSpinpol s (some p)
  | none => (s, none)

/-- `__attrs_post_init__`: replay the setters, each guard reading the current hidden field -/
def postInit (s : St) : St × Option Err :=
  andThen (andThen (andThen (replayCore s) replayCharge) replayNelec) replaySpinpol

/-- the (hidden, public) pairs replayed by `__attrs_post_init__`, in source order -/
def postInitOrder : List (String × String) :=
  [("_atcorenums", "atcorenums"), ("_charge", "charge"), ("_nelec", "nelec"), ("_spinpol", "spinpol")]

/-- attrs fields of the model without validator and converter (assignment never raises) -/
def plainFields : List String := ["_charge", "mo", "_nelec", "_spinpol"]

/-- `IOData(**args)`: the new object, or the exception (then the caller keeps the old object) -/
def construct (a : St) : Except Err St :=
  if validateAll a then
    match postInit a with
    | (s, none) => .ok s
    | (_, some e) => .error e
  else .error .typeError

/-! ### operations and histories -/

inductive Op where
  | construct (a : St)
  | setArr (f : Fld) (v : Option (List Rat))      -- f ∈ atcoords, atgradient, atfrozen, atmasses
  | setAtnums (v : Option (List Int))
  | setCore (v : Option (List Rat))
  | setCharge (v : Option Rat)
  | setNelec (v : Option Rat)
  | setSpinpol (v : Option Rat)
  | setMo (m : Option Mo)
  | getCore | getCharge | getNelec | getSpinpol | getNatom
  deriving DecidableEq, Repr

/-- value returned by a read -/
inductive Val where
  | unit
  | num (v : Option Rat)
  | arr (v : Option (List Rat))
  | nat (v : Option Nat)
  deriving DecidableEq, Repr

/-- one operation: new state, exception (if any), returned value -/
def step (s : St) : Op → St × Option Err × Val
  | .construct a =>
    match construct a with
    | .ok s' => (s', none, .unit)
    | .error e => (s, some e, .unit)
  | .setArr f v => let r := setArr s f v; (r.1, r.2, .unit)
  | .setAtnums v => let r := setAtnums s v; (r.1, r.2, .unit)
  | .setCore v => let r := setCore s v; (r.1, r.2, .unit)
  | .setCharge v => let r := setCharge s v; (r.1, r.2, .unit)
  | .setNelec v => let r := setNelec s v; (r.1, r.2, .unit)
  | .setSpinpol v => let r := setSpinpol s v; (r.1, r.2, .unit)
  | .setMo m => ({ s with mo := m }, none, .unit)
  | .getCore => let r := getCore s; (r.2.1, r.2.2, .arr r.1)
  | .getCharge => let r := getCharge s; (r.2.1, r.2.2, .num r.1)
  | .getNelec => (s, none, .num (getNelec s))
  | .getSpinpol => (s, none, .num (getSpinpol s))
  | .getNatom => (s, none, .nat (natom s))

/-- `IOData()` -/
def init : St := {}

def run (s : St) (ops : List Op) : St := ops.foldl (fun s op => (step s op).1) s

/-- all public observables, every one read from the same state `s`
(the harness reads each of them from a fresh shallow copy of the object) -/
structure Obs where
  charge : Option Rat
  nelec : Option Rat
  spinpol : Option Rat
  atcorenums : Option (List Rat)
  natom : Option Nat
  atnums : Option (List Int)
  atcoords : Option (List Rat)
  atgradient : Option (List Rat)
  atfrozen : Option (List Rat)
  atmasses : Option (List Rat)
  hasMo : Bool
  readErr : Bool        -- a getter raised (never happens in reachable states, see `reads_never_raise`)
  deriving DecidableEq, Repr

def obs (s : St) : Obs :=
  { charge := (getCharge s).1, nelec := getNelec s, spinpol := getSpinpol s,
    atcorenums := (getCore s).1, natom := natom s, atnums := s.atnums,
    atcoords := s.atcoords, atgradient := s.atgradient, atfrozen := s.atfrozen, atmasses := s.atmasses,
    hasMo := s.mo.isSome,
    readErr := (getCharge s).2.2.isSome || (getCore s).2.2.isSome }

end Iodata.IOD
