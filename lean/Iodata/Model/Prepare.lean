/-
Model of the per-format `prepare_dump` functions (C08): what each format decides about an object before
the output file is opened.  Core Lean only (linked into the driver).

Transcribed statement by statement, in source order, from
`iodata/formats/{fchk,molden,molekel,wfn,wfx,json_qcschema}.py: prepare_dump` and the two helpers of
`iodata/prepare.py` they call.  The helpers are the C14 models `Seg.prepareUnrestricted` /
`Seg.prepareSegmented` (read-only re-use: their decision tables are C14 theorems); orbitals are the C12
model (`occsa`, `occsb` of restricted orbitals with or without `occs_aminusb`, of unrestricted ones).

An object is summarised by exactly the data the six bodies read:
* `data.mo` (`None` or a C12 orbital object), `data.obasis` (`None` or the shell list),
* `data.extra.get("schema_name")`, whether `data.one_rdms` holds a post-SCF matrix, `data.lot`.

Outcomes: the object that is returned (with the identity flag `same` — Python `is` — and the
`PrepareDumpWarning`s issued, in order) or the exception class that leaves `prepare_dump` together with the
raise site (`Reason`).  `api.dump_one` turns every `Exception` into `PrepareDumpError` before the file is
opened (`Model/Flow.lean`); the composition is in `Props/C08Prepare.lean`.
-/
import Iodata.Model.Segment
namespace Iodata.Prep
open Iodata.Orb Iodata.Seg

structure Obj where
  mo : Option MO := none
  obasis : Option Basis := none
  schema : Option String := none      -- `data.extra["schema_name"]`; `none`: the key is absent
  postScf : Bool := false             -- `"post_scf_ao" in data.one_rdms or "post_scf_spin_ao" in data.one_rdms`
  lot : Option String := none
  deriving DecidableEq, Repr

inductive Fmt | fchk | molden | molekel | wfn | wfx | qcschema
  deriving DecidableEq, Repr

def Fmt.all : List Fmt := [.fchk, .molden, .molekel, .wfn, .wfx, .qcschema]

/-- one `PrepareDumpWarning`: which conversion it announces -/
inductive Warn | unrestricted | segmented
  deriving DecidableEq, Repr

/-- exception classes leaving a `prepare_dump` -/
inductive Cls | prepareDump | err (e : Err)
  deriving DecidableEq, Repr

/-- the raise site (one constructor per `raise` statement / failing expression of the transcribed code) -/
inductive Reason
  | noMo | noObasis | generalizedMo | pureFunctions          -- molden/molekel/wfn/wfx `prepare_dump`
  | fractionalNelec                                          -- molekel `prepare_dump`
  | alphaUnavailable | alphaAufbau | betaUnavailable | betaAufbau | postScfLot   -- fchk `prepare_dump`
  | uNoMo | uGeneralized | uAminusb | uConvert               -- `prepare_unrestricted_aminusb`
  | sNoObasis | sContraction                                 -- `prepare_segmented`
  | noSchemaName | schemaBasis | schemaUnknown               -- json_qcschema `prepare_dump`
  deriving DecidableEq, Repr

inductive Outcome
  | ret (o : Obj) (same : Bool) (warns : List Warn)
  | raised (c : Cls) (r : Reason)
  deriving DecidableEq, Repr

/-! ### the two helpers of prepare.py, applied to the current `data` (identity flag and warnings threaded) -/

/-- `data = prepare_unrestricted_aminusb(data, allow_changes, filename, fmt)` -/
def prepU (allow : Bool) (d : Obj) (same : Bool) (ws : List Warn) : Outcome :=
  match prepareUnrestricted d.mo allow with
  | .same => .ret d same ws
  | .valueError => .raised (.err .valueError) (if d.mo.isNone then .uNoMo else .uGeneralized)
  | .prepareDumpError => .raised .prepareDump .uAminusb
  | .converted n (.ok m') => .ret { d with mo := some m' } false (ws ++ List.replicate n .unrestricted)
  | .converted _ (.error e) => .raised (.err e) .uConvert

/-- `return prepare_segmented(data, keep_sp, allow_changes, filename, fmt)` -/
def prepS (keepSp allow : Bool) (d : Obj) (same : Bool) (ws : List Warn) : Outcome :=
  match prepareSegmented d.obasis keepSp allow with
  | .same => .ret d same ws
  | .valueError => .raised (.err .valueError) .sNoObasis
  | .prepareDumpError => .raised .prepareDump .sContraction
  | .converted n b' => .ret { d with obasis := some b' } false (ws ++ List.replicate n .segmented)

/-! ### molden / molekel / wfn / wfx -/

/-- the loop `for shell in data.obasis.shells: if any(kind != "c" for kind in shell.kinds): raise` -/
def hasNonCart (b : Basis) : Bool := b.any fun sh => sh.kinds.any (· != "c")

/-- the common body of `molden.prepare_dump` (`cartOnly = false`) and `wfn.prepare_dump`,
`wfx.prepare_dump` (`cartOnly = true`: with the Cartesian-only loop); `molekel.prepare_dump` is below -/
def moBasis (cartOnly allow : Bool) (d : Obj) : Outcome :=
  match d.mo with
  | none => .raised .prepareDump .noMo                          -- if data.mo is None: raise
  | some m =>
    match d.obasis with
    | none => .raised .prepareDump .noObasis                    -- if data.obasis is None: raise
    | some b =>
      if m.kind = .generalized then .raised .prepareDump .generalizedMo
      else if cartOnly && hasNonCart b then .raised .prepareDump .pureFunctions
      else
        match prepU allow d true [] with
        | .ret d1 same ws => prepS false allow d1 same ws
        | r => r

/-! ### fchk -/

/-- `np.round` of a scalar: round half to even -/
def roundHalfEven (q : Rat) : Int :=
  let f := q.floor
  let r := q - f
  if r < 1/2 then f else if 1/2 < r then f + 1 else if f % 2 = 0 then f else f + 1

/-- a Python slice bound on a sequence of length `n` (negative bounds count from the end, clamped) -/
def pyIdx (n : Nat) (i : Int) : Nat := if i < 0 then (n + i).toNat else min i.toNat n

/-- `na = int(np.round(np.sum(o))); (o[:na] == 1.0).all() and (o[na:] == 0.0).all()` -/
def aufbauOk (o : List Rat) : Bool :=
  let na := roundHalfEven (sum o)
  (o.take (pyIdx o.length na)).all (· == 1) && (o.drop (pyIdx o.length na)).all (· == 0)

inductive Chk | pass | fail | err (e : Err)
  deriving DecidableEq, Repr

/-- the check of one spin channel given what the `occsa` / `occsb` getter yields; `None` (orbitals without
occupations) makes `np.round(np.sum(None))` raise `TypeError` -/
def spinCheck : Except Err (Option (List Rat)) → Chk
  | .error e => .err e
  | .ok none => .err .typeError
  | .ok (some o) => if aufbauOk o then .pass else .fail

/-- the block `if data.mo is not None:` of `fchk.prepare_dump` -/
def fchkMo (m : MO) : Option (Cls × Reason) :=
  if m.kind = .generalized then some (.prepareDump, .generalizedMo)
  else
    match spinCheck (occsa m) with
    | .err e => some (.err e, .alphaUnavailable)
    | .fail => some (.prepareDump, .alphaAufbau)
    | .pass =>
      match spinCheck (occsb m) with
      | .err e => some (.err e, .betaUnavailable)
      | .fail => some (.prepareDump, .betaAufbau)
      | .pass => none

/-- `item in level` for strings -/
def hasSub (p : List Char) : List Char → Bool
  | [] => p.isEmpty
  | c :: t => p.isPrefixOf (c :: t) || hasSub p t

/-- `level = data.lot.upper() if data.lot is not None else "NA"`;
`any(item in level for item in ["MP2", "MP3", "CC", "CI"])` (ASCII level-of-theory strings) -/
def lotNamesPostScf (lot : Option String) : Bool :=
  let level := match lot with
    | some l => l.toUpper
    | none => "NA"
  ["MP2", "MP3", "CC", "CI"].any fun item => hasSub item.toList level.toList

def fchk (allow : Bool) (d : Obj) : Outcome :=
  match (match d.mo with
    | none => none
    | some m => fchkMo m) with
  | some (c, r) => .raised c r
  | none =>
    if d.postScf && !lotNamesPostScf d.lot then .raised .prepareDump .postScfLot
    else prepS true allow d true []          -- return prepare_segmented(data, True, allow_changes, filename, "FCHK")

/-! ### molekel -/

/-- the double `1e-4` (exact value of the literal in the source): occupations are printed with 7 decimals, so the
count of a file the writer produced itself is off by up to `norb · 5e-8` -/
def tolNelec : Rat := (7378697629483821 : Rat) / 73786976294838206464

/-- `data.mo.occs is not None and abs(data.mo.nelec - np.round(data.mo.nelec)) > 1e-4`
(`MolecularOrbitals.nelec` is `None` without occupations, else `occs.sum()`) -/
def fractionalNelec (m : MO) : Bool :=
  match nelec m with
  | none => false
  | some n => decide (tolNelec < absR (n - (roundHalfEven n : Int)))

/-- `molekel.prepare_dump`: the Molden body with the electron-count guard after the generalized-orbitals guard -/
def molekel (allow : Bool) (d : Obj) : Outcome :=
  match d.mo with
  | none => .raised .prepareDump .noMo
  | some m =>
    match d.obasis with
    | none => .raised .prepareDump .noObasis
    | some _ =>
      if m.kind = .generalized then .raised .prepareDump .generalizedMo
      else if fractionalNelec m then .raised .prepareDump .fractionalNelec
      else
        match prepU allow d true [] with
        | .ret d1 same ws => prepS false allow d1 same ws
        | r => r

/-! ### json_qcschema -/

/-- what `json_qcschema.dump_one` (the writer, after the file was opened) accepts -/
def qcschemaWritable (s : String) : Bool :=
  s = "qcschema_molecule" || s = "qcschema_input" || s = "qcschema_output"

/-- `strict`: the tree has the third guard (`schema_name not in (...)`: raise), see `Skel.qcschema` -/
def qcschema (strict : Bool) (_allow : Bool) (d : Obj) : Outcome :=
  match d.schema with
  | none => .raised .prepareDump .noSchemaName              -- if "schema_name" not in data.extra: raise
  | some s =>
    if s = "qcschema_basis" then .raised .prepareDump .schemaBasis
    else if strict && !qcschemaWritable s then .raised .prepareDump .schemaUnknown
    else .ret d true []

/-! ### dispatch -/

/-- `format_module.prepare_dump(data, allow_changes, filename)` -/
def prepareDump (qcStrict : Bool) : Fmt → Bool → Obj → Outcome
  | .fchk, a, d => fchk a d
  | .molden, a, d => moBasis false a d
  | .molekel, a, d => molekel a d
  | .wfn, a, d => moBasis true a d
  | .wfx, a, d => moBasis true a d
  | .qcschema, a, d => qcschema qcStrict a d

end Iodata.Prep

/-! reference statement skeletons of the six `prepare_dump` bodies as this model transcribes them (compared
with the source through `Iodata/Gen/PrepareSkeleton.lean`; nesting depth before `|`, messages dropped) -/
namespace Iodata.Prep.Skel

/-- molden (`cartOnly = false`, `nelecGuard = false`), molekel (`nelecGuard = true`), wfn / wfx (`cartOnly = true`);
`name` is the literal passed to the helpers -/
def moBasis (name : String) (cartOnly : Bool) (nelecGuard : Bool := false) : List String :=
  ["0|if data.mo is None:", "1|raise PrepareDumpError",
   "0|if data.obasis is None:", "1|raise PrepareDumpError",
   "0|if data.mo.kind == 'generalized':", "1|raise PrepareDumpError"] ++
  (if nelecGuard then
    ["0|if data.mo.occs is not None and abs(data.mo.nelec - np.round(data.mo.nelec)) > 0.0001:", "1|raise PrepareDumpError"]
   else []) ++
  (if cartOnly then
    ["0|for shell in data.obasis.shells:", "1|if any((kind != 'c' for kind in shell.kinds)):", "2|raise PrepareDumpError"]
   else []) ++
  ["0|data = prepare_unrestricted_aminusb(data, allow_changes, filename, '" ++ name ++ "')",
   "0|return prepare_segmented(data, False, allow_changes, filename, '" ++ name ++ "')"]

def fchk : List String :=
  ["0|if data.mo is not None:",
   "1|if data.mo.kind == 'generalized':", "2|raise PrepareDumpError",
   "1|na = int(np.round(np.sum(data.mo.occsa)))",
   "1|if not ((data.mo.occsa[:na] == 1.0).all() and (data.mo.occsa[na:] == 0.0).all()):", "2|raise PrepareDumpError",
   "1|nb = int(np.round(np.sum(data.mo.occsb)))",
   "1|if not ((data.mo.occsb[:nb] == 1.0).all() and (data.mo.occsb[nb:] == 0.0).all()):", "2|raise PrepareDumpError",
   "0|if 'post_scf_ao' in data.one_rdms or 'post_scf_spin_ao' in data.one_rdms:",
   "1|level = data.lot.upper() if data.lot is not None else 'NA'",
   "1|if not any((item in level for item in ['MP2', 'MP3', 'CC', 'CI'])):", "2|raise PrepareDumpError",
   "0|return prepare_segmented(data, True, allow_changes, filename, 'FCHK')"]

def qcschema (strict : Bool) : List String :=
  ["0|if 'schema_name' not in data.extra:", "1|raise PrepareDumpError",
   "0|schema_name = data.extra['schema_name']",
   "0|if schema_name == 'qcschema_basis':", "1|raise PrepareDumpError"] ++
  (if strict then
    ["0|if schema_name not in {'qcschema_input', 'qcschema_molecule', 'qcschema_output'}:", "1|raise PrepareDumpError"]
   else []) ++
  ["0|return data"]

/-- the writer's dispatch on `schema_name` (json_qcschema.dump_one): accepted names in order, then the rest -/
def qcschemaWriter : List String :=
  ["schema_name == 'qcschema_molecule' -> Assign", "schema_name == 'qcschema_basis' -> Raise NotImplementedError",
   "schema_name == 'qcschema_input' -> Assign", "schema_name == 'qcschema_output' -> Assign", "else -> Raise DumpError"]

/-- signature of the pre-flight callee as `api.dump_one` calls it -/
def params : List String := ["data", "allow_changes", "filename"]

end Iodata.Prep.Skel
