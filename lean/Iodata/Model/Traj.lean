/- C13 — trajectories.  Executable model of `LineIterator`, of the per-format frame readers AT THE FRAMING
   LEVEL (which lines a frame consumes; the per-line field parsing is a parameter), of the per-format
   `load_many` generator loops together with the `api.load_many` funnel, and of `api.dump_many` with its
   consumption trace.  Core Lean only (linked into the driver).

   A `Line` is the text of a line WITHOUT its terminating newline; every line of a file is newline-terminated
   (assumption recorded in the evidence; the harness only produces such files). -/
namespace Iodata.Traj

abbrev Line := List Char

/-! ## Python string helpers (ASCII) -/

def isWs (c : Char) : Bool :=
  c == ' ' || c == '\t' || c == '\n' || c == '\r' || c == '\x0b' || c == '\x0c'

def lstrip (l : Line) : Line := l.dropWhile isWs
def rstrip (l : Line) : Line := (l.reverse.dropWhile isWs).reverse
/-- `str.strip()` -/
def strip (l : Line) : Line := rstrip (lstrip l)
/-- `line.strip() == ""` -/
def isBlank (l : Line) : Bool := l.all isWs

/-- `str.split()` : maximal runs of non-whitespace. -/
def wordsAux : Line → Line → List Line
  | [], cur => if cur.isEmpty then [] else [cur.reverse]
  | c :: t, cur =>
    if isWs c then (if cur.isEmpty then wordsAux t [] else cur.reverse :: wordsAux t [])
    else wordsAux t (c :: cur)
def words (l : Line) : List Line := wordsAux l []

def startsWith (p l : Line) : Bool := p.isPrefixOf l

def digitVal (c : Char) : Option Nat :=
  if '0' ≤ c ∧ c ≤ '9' then some (c.toNat - '0'.toNat) else none

def digitsVal : Line → Nat → Option Nat
  | [], acc => some acc
  | c :: t, acc => match digitVal c with
    | none => none
    | some d => digitsVal t (acc * 10 + d)

/-- Python `int(str)` for the subset: optional surrounding whitespace, optional sign, ASCII digits
    (no underscores — the harness never produces them). -/
def pyInt (l : Line) : Option Int :=
  match strip l with
  | [] => none
  | '-' :: ds => if ds.isEmpty then none else (digitsVal ds 0).map fun n => -(n : Int)
  | '+' :: ds => if ds.isEmpty then none else (digitsVal ds 0).map fun n => (n : Int)
  | ds => (digitsVal ds 0).map fun n => (n : Int)

def upperChar (c : Char) : Char := if 'a' ≤ c ∧ c ≤ 'z' then Char.ofNat (c.toNat - 32) else c

/-- `print(text)` of a text that may contain newlines: one line per `\n`-separated piece. -/
def splitNl : List Char → List Line
  | [] => [[]]
  | c :: t =>
    match splitNl t with
    | [] => [[]]
    | h :: r => if c == '\n' then [] :: h :: r else (c :: h) :: r

def defaultTitle : Line := "Created with IOData".toList

/-- `data.title or "Created with IOData"` -/
def titleOr (t : List Char) : List Char := if t.isEmpty then defaultTitle else t

/-! ## LineIterator -/

/-- The real object: file handle (remaining lines), push-back stack (top first), line number. -/
structure LitRaw where
  fh : List Line
  stack : List Line
  lineno : Int
deriving DecidableEq, Repr

/-- `__next__`: `self.lineno += 1; return self.stack.pop() if self.stack else next(self.fh)`;
    `none` = StopIteration (the line number was already incremented). -/
def LitRaw.next (r : LitRaw) : Option Line × LitRaw :=
  match r.stack with
  | l :: st => (some l, { r with stack := st, lineno := r.lineno + 1 })
  | [] => match r.fh with
    | l :: t => (some l, { r with fh := t, lineno := r.lineno + 1 })
    | [] => (none, { r with lineno := r.lineno + 1 })

/-- `back`: `self.stack.append(line); self.lineno -= 1` -/
def LitRaw.back (l : Line) (r : LitRaw) : LitRaw :=
  { r with stack := l :: r.stack, lineno := r.lineno - 1 }

/-- The observable state: the lines still to come (stack first) and the line number.  `LitRaw` refines it
    (`Lemmas/Traj.lean`: `abs_next`, `abs_back`); all readers below are written against this view. -/
structure Lit where
  pending : List Line
  lineno : Int
deriving DecidableEq, Repr

def LitRaw.abs (r : LitRaw) : Lit := ⟨r.stack ++ r.fh, r.lineno⟩

def Lit.ofLines (ls : List Line) : Lit := ⟨ls, 0⟩

/-- Exception classes the control flow distinguishes. -/
inductive Exc where
  | stop        -- StopIteration
  | loadError   -- LoadError raised by a format module (carries `lit`, i.e. the line number of the state)
  | other       -- ValueError, IndexError, KeyError, UnboundLocalError, ... (funnelled by api.load_many)
deriving DecidableEq, Repr

inductive Res (α : Type) where
  | ok (a : α) (s : Lit)
  | raise (e : Exc) (s : Lit)
deriving Repr

/-- reader computations: state + exception, the state survives an exception (the api reads `lit.lineno`). -/
def M (α : Type) := Lit → Res α

def M.pure (a : α) : M α := fun s => .ok a s
def M.bind (m : M α) (f : α → M β) : M β := fun s =>
  match m s with
  | .ok a s' => f a s'
  | .raise e s' => .raise e s'
instance : Monad M where
  pure := M.pure
  bind := M.bind

def next : M Line := fun s =>
  match s.pending with
  | [] => .raise .stop ⟨[], s.lineno + 1⟩
  | l :: t => .ok l ⟨t, s.lineno + 1⟩
def back (l : Line) : M Unit := fun s => .ok () ⟨l :: s.pending, s.lineno - 1⟩
def throw (e : Exc) : M α := fun s => .raise e s

/-- `for i in range(n): line = next(lit); <parse line>` -/
def readN (p : Line → Option α) : Nat → M (List α)
  | 0 => pure []
  | n + 1 => do
    let l ← next
    match p l with
    | none => throw .other
    | some a => do
      let rest ← readN p n
      pure (a :: rest)

/-! ## XYZ / extended XYZ -/

structure XyzFrame (α : Type) where
  title : Line
  atoms : List α
deriving DecidableEq, Repr

/-- xyz.load_one: `natom = int(next(lit)); title = next(lit).strip(); np.zeros((natom, ..)); natom atom lines` -/
def xyzLoadOne (pa : Line → Option α) : M (XyzFrame α) := do
  let cl ← next
  match pyInt cl with
  | none => throw .other
  | some n => do
    let tl ← next
    if n < 0 then throw .other
    else do
      let atoms ← readN pa n.toNat
      pure ⟨strip tl, atoms⟩

/-- extxyz.load_one: two lines are read, the title is parsed (may raise), both are pushed back, xyz.load_one. -/
def extLoadOne (pt : Line → Bool) (pa : Line → Option α) : M (XyzFrame α) := do
  let al ← next
  let tl ← next
  if !pt tl then throw .other
  else do
    back tl
    back al
    xyzLoadOne pa

def xyzDumpOne (showNat : Nat → Line) (fa : α → Line) (f : XyzFrame α) : List Line :=
  showNat f.atoms.length :: (splitNl (titleOr f.title) ++ f.atoms.map fa)

/-- what a reload gives: a missing title becomes the default, surrounding blanks are stripped -/
def xyzNorm (f : XyzFrame α) : XyzFrame α := { f with title := strip (titleOr f.title) }

/-! ## SDF -/

structure SdfFrame (α β : Type) where
  title : Line
  atoms : List α
  bonds : List β
deriving DecidableEq, Repr

def sdfEnd : Line := ['$', '$', '$', '$']

/-- `while True: words = next(lit) (StopIteration -> LoadError); if words == "$$$$\n": break` -/
def sdfFindEnd : List Line → Int → Res Unit
  | [], ln => .raise .loadError ⟨[], ln + 1⟩
  | l :: t, ln => if l = sdfEnd then .ok () ⟨t, ln + 1⟩ else sdfFindEnd t (ln + 1)

def sdfFindEndM : M Unit := fun s => sdfFindEnd s.pending s.lineno

def lastWordUpper (l : Line) : Option Line := (words l).getLast?.map (·.map upperChar)

def sdfLoadOne (pa : Line → Option α) (pb : Line → Option β) : M (SdfFrame α β) := do
  let tl ← next
  let _ ← next
  let _ ← next
  let cl ← next
  match pyInt (cl.take 3) with
  | none => throw .other
  | some na =>
    match pyInt ((cl.drop 3).take 3) with
    | none => throw .other
    | some nb =>
      match lastWordUpper cl with
      | none => throw .other
      | some w =>
        if w ≠ ['V', '2', '0', '0', '0'] then throw .loadError
        else if na < 0 then throw .other
        else do
          let atoms ← readN pa na.toNat
          if nb < 0 then throw .other
          else do
            let bonds ← readN pb nb.toNat
            sdfFindEndM
            pure ⟨strip tl, atoms, bonds⟩

def sdfDumpOne (fc : Nat → Nat → Line) (fa : α → Line) (fb : β → Line) (f : SdfFrame α β) : List Line :=
  splitNl (titleOr f.title) ++ ([] :: [] :: fc f.atoms.length f.bonds.length :: (f.atoms.map fa ++ f.bonds.map fb))
    ++ [['M', ' ', ' ', 'E', 'N', 'D'], sdfEnd]

def sdfNorm (f : SdfFrame α β) : SdfFrame α β := { f with title := strip (titleOr f.title) }

/-! ## GRO (reader only) -/

def containsSub (p : Line) : Line → Bool
  | [] => p.isEmpty
  | c :: t => startsWith p (c :: t) || containsSub p t

/-- `line.split(",")[0] if "t=" in line else line[:-1]` -/
def groTitle (l : Line) : Line :=
  if containsSub ['t', '='] l then l.takeWhile (· != ',') else l

def groLoadOne (pt : Line → Bool) (pa : Line → Option α) (pc : Line → Bool) : M (XyzFrame α) := do
  let tl ← next
  if !pt tl then throw .other
  else do
    let cl ← next
    match pyInt cl with
    | none => throw .other
    | some n =>
      if n < 0 then throw .other
      else do
        let atoms ← readN pa n.toNat
        let bl ← next
        if !pc bl then throw .other
        else pure ⟨groTitle tl, atoms⟩

/-- an independent renderer of a GRO frame (there is no GRO writer in the library) -/
def groRender (showNat : Nat → Line) (fa : α → Line) (box : Line) (f : XyzFrame α) : List Line :=
  f.title :: showNat f.atoms.length :: (f.atoms.map fa ++ [box])

/-! ## PDB -/

structure PdbFrame (α β : Type) where
  titles : List Line
  compnd : List Line
  atoms : List α
  conects : List β
  endReached : Bool
deriving DecidableEq, Repr

def pTITLE : Line := ['T', 'I', 'T', 'L', 'E']
def pCOMPND : Line := ['C', 'O', 'M', 'P', 'N', 'D']
def pATOM : Line := ['A', 'T', 'O', 'M']
def pHETATM : Line := ['H', 'E', 'T', 'A', 'T', 'M']
def pCONECT : Line := ['C', 'O', 'N', 'E', 'C', 'T']
def pEND : Line := ['E', 'N', 'D']

/-- pdb.load_one's `while True` loop.  The `if`s of the source are independent statements; their prefixes are
    pairwise incompatible, so at most one fires per line and the chain below is the same function. -/
def pdbGo (pa : Line → Option α) (pb : Line → Option β) :
    List Line → Int → PdbFrame α β → Bool → Res (PdbFrame α β)
  | [], ln, acc, found =>
    if found then .ok { acc with endReached := false } ⟨[], ln + 1⟩ else .raise .loadError ⟨[], ln + 1⟩
  | l :: t, ln, acc, found =>
    if startsWith pTITLE l then pdbGo pa pb t (ln + 1) { acc with titles := acc.titles ++ [strip (l.drop 10)] } found
    else if startsWith pCOMPND l then
      pdbGo pa pb t (ln + 1) { acc with compnd := acc.compnd ++ [strip (l.drop 10)] } found
    else if startsWith pATOM l || startsWith pHETATM l then
      match pa l with
      | none => .raise .other ⟨t, ln + 1⟩
      | some a => pdbGo pa pb t (ln + 1) { acc with atoms := acc.atoms ++ [a] } true
    else if startsWith pCONECT l then
      match pb l with
      | none => .raise .other ⟨t, ln + 1⟩
      | some b => pdbGo pa pb t (ln + 1) { acc with conects := acc.conects ++ [b] } found
    else if startsWith pEND l && found then .ok { acc with endReached := true } ⟨t, ln + 1⟩
    else pdbGo pa pb t (ln + 1) acc found

def pdbLoadOne (pa : Line → Option α) (pb : Line → Option β) : M (PdbFrame α β) := fun s =>
  pdbGo pa pb s.pending s.lineno ⟨[], [], [], [], false⟩ false

def natDigits (n : Nat) : Line := (toString n).toList
def rjust (w : Nat) (s : Line) : Line := List.replicate (w - s.length) ' ' ++ s
def ljust (w : Nat) (s : Line) : Line := s ++ List.replicate (w - s.length) ' '

/-- `_dump_multiline_str`: first prefix `key.ljust(10)`, then `key + str(i+2).rjust(10-len(key)) + " "` -/
def pdbMultiAux (key : Line) : Nat → List Line → List Line
  | _, [] => []
  | i, l :: t => (key ++ rjust (10 - key.length) (natDigits (i + 2)) ++ [' '] ++ l) :: pdbMultiAux key (i + 1) t
def pdbMulti (key : Line) : List Line → List Line
  | [] => []
  | l :: t => (ljust 10 key ++ l) :: pdbMultiAux key 0 t

/-- frame as written: title text (may contain newlines), optional compound text, atoms, CONECT records -/
structure PdbObj (α β : Type) where
  title : List Char
  compnd : Option (List Char)
  atoms : List α
  conects : List β

def pdbDumpOne (fa : α → Line) (fb : β → Line) (o : PdbObj α β) : List Line :=
  pdbMulti pTITLE (splitNl (titleOr o.title))
    ++ (match o.compnd with | none => [] | some c => pdbMulti pCOMPND (splitNl c))
    ++ o.atoms.map (fun a => pATOM ++ [' ', ' '] ++ fa a)
    ++ o.conects.map (fun b => pCONECT ++ fb b)
    ++ [pEND]

def pdbNorm (o : PdbObj α β) : PdbFrame α β :=
  ⟨(splitNl (titleOr o.title)).map strip,
   (match o.compnd with | none => [] | some c => (splitNl c).map strip), o.atoms, o.conects, true⟩

/-! ## MOL2 -/

structure Mol2Frame (α β : Type) where
  title : Line
  atoms : List α
  bonds : Option (List β)
deriving DecidableEq, Repr

def tMOLECULE : Line := "@<TRIPOS>MOLECULE".toList
def tATOM : Line := "@<TRIPOS>ATOM".toList
def tBOND : Line := "@<TRIPOS>BOND".toList

structure Mol2Hdr where
  title : Line
  natoms : Int
  nbonds : Int
deriving DecidableEq, Repr

/-- the end of mol2.load_one after the loop.  `bondCheck` is the LoadError for an announced but absent BOND
    section (present in the tree iff `Gen.TrajFlow.mol2BondCheck`). -/
def mol2Finish (bondCheck : Bool) (hdr : Option Mol2Hdr) (res : Option (Mol2Frame α β)) : M (Mol2Frame α β) :=
  match res with
  | none => throw .loadError
  | some r =>
    if bondCheck && (match hdr with | some h => decide (h.nbonds > 0) | none => false) && r.bonds.isNone
    then throw .loadError else pure r

/-- mol2.load_one's loop; `fuel` bounds the number of iterations (each consumes at least one line). -/
def mol2Go (bondCheck : Bool) (pa : Line → Option α) (pb : Line → Option β) :
    Nat → Option Mol2Hdr → Option (Mol2Frame α β) → M (Mol2Frame α β)
  | 0, _, _ => throw .other
  | fuel + 1, hdr, res => fun s =>
    match next s with
    | .raise _ s1 => mol2Finish bondCheck hdr res s1
    | .ok line s1 =>
      if line.isEmpty then mol2Go bondCheck pa pb fuel hdr res s1      -- `len(line) > 1` is false
      else
        match words line with
        | [] => .raise .other s1                                          -- words[0]: IndexError
        | w0 :: _ =>
          if w0 = tMOLECULE then
            if res.isSome then mol2Finish bondCheck hdr res (⟨line :: s1.pending, s1.lineno - 1⟩)
            else
              match next s1 with
              | .raise e s2 => .raise e s2
              | .ok tl s2 =>
                match next s2 with
                | .raise e s3 => .raise e s3
                | .ok cl s3 =>
                  match words cl with
                  | a :: b :: _ =>
                    match pyInt a, pyInt b with
                    | some na, some nb => mol2Go bondCheck pa pb fuel (some ⟨strip tl, na, nb⟩) res s3
                    | _, _ => .raise .other s3
                  | _ => .raise .other s3
          else if w0 = tATOM then
            match hdr with
            | none => .raise .other s1                                      -- natoms unbound
            | some h =>
              if h.natoms < 0 then .raise .other s1
              else
                match readN pa h.natoms.toNat s1 with
                | .raise e s2 => .raise e s2
                | .ok atoms s2 => mol2Go bondCheck pa pb fuel hdr (some ⟨h.title, atoms, none⟩) s2
          else if w0 = tBOND then
            match hdr with
            | none => .raise .other s1
            | some h =>
              if h.nbonds < 0 then .raise .other s1
              else
                match readN pb h.nbonds.toNat s1 with
                | .raise e s2 => .raise e s2
                | .ok bonds s2 =>
                  match res with
                  | none => .raise .other s2                                 -- result unbound
                  | some r => mol2Go bondCheck pa pb fuel hdr (some { r with bonds := some bonds }) s2
          else mol2Go bondCheck pa pb fuel hdr res s1

def mol2LoadOne (bondCheck : Bool) (pa : Line → Option α) (pb : Line → Option β) : M (Mol2Frame α β) := fun s =>
  mol2Go bondCheck pa pb (s.pending.length + 1) none none s

def mol2Head : List Line :=
  ["# Mol2 file created with Iodata".toList, [], [], [], [], [], [], tMOLECULE]

def mol2DumpOne (fc : Nat → Nat → Line) (fa : α → Line) (fb : β → Line) (f : Mol2Frame α β) : List Line :=
  mol2Head ++ splitNl (titleOr f.title)
    ++ [fc f.atoms.length (match f.bonds with | none => 0 | some b => b.length), tATOM]
    ++ f.atoms.map fa
    ++ (match f.bonds with | none => [] | some b => tBOND :: b.map fb)

def mol2Norm (f : Mol2Frame α β) : Mol2Frame α β := { f with title := strip (titleOr f.title) }

/-! ## The `load_many` loops -/

/-- what a loop does before calling `load_one` -/
inductive PeekKind where
  | none          -- nothing
  | oneBlankEnds  -- (old xyz/extxyz) `line = next(lit); if line.strip() == "": return; lit.back(line)`
  | skipBlank     -- `line = next(lit); while line.strip() == "": line = next(lit)` / StopIteration: return; back(line)
  | peekPushAll   -- read until a non-blank line (StopIteration: return), push all read lines back
  | scanMolecule  -- `for line in lit:` first word `@<TRIPOS>MOLECULE`: back, break; else: LoadError if no frame yet, return
deriving DecidableEq, Repr

/-- what an `except` clause of the loop does with an exception that escaped `load_one` -/
inductive HAct where
  | ret              -- `return`
  | toLoadError      -- `raise LoadError(..., lit) from exc`
  | firstRaiseElseRet -- `if nframe == 0: raise` / `return`
deriving DecidableEq, Repr

structure LoopSkel where
  peek : PeekKind
  handlers : List (List Exc × HAct)
deriving DecidableEq, Repr

inductive PeekRes where
  | eof
  | eofErr (s : Lit)
  | go (s : Lit)

def skipBlankGo : List Line → Int → PeekRes
  | [], _ => .eof
  | l :: t, ln => if isBlank l then skipBlankGo t (ln + 1) else .go ⟨l :: t, ln⟩

/-- collect lines until a non-blank one: (`lines` reversed, rest, lineno) or none at end of file -/
def collectGo : List Line → List Line → Int → Option (List Line × List Line × Int)
  | [], _, _ => none
  | l :: t, acc, ln => if isBlank l then collectGo t (l :: acc) (ln + 1) else some (l :: acc, t, ln + 1)

/-- `while lines: lit.back(lines.pop())` with `lines` given reversed (last read first) -/
def pushAll : List Line → Lit → Lit
  | [], s => s
  | l :: acc, s => pushAll acc ⟨l :: s.pending, s.lineno - 1⟩

def scanMolGo (first : Bool) : List Line → Int → PeekRes
  | [], ln => if first then .eofErr ⟨[], ln + 1⟩ else .eof
  | l :: t, ln => if (words l).head? = some tMOLECULE then .go ⟨l :: t, ln⟩ else scanMolGo first t (ln + 1)

def runPeek (k : PeekKind) (first : Bool) (s : Lit) : PeekRes :=
  match k with
  | .none => .go s
  | .oneBlankEnds =>
    match s.pending with
    | [] => .eof
    | l :: _ => if isBlank l then .eof else .go s
  | .skipBlank => skipBlankGo s.pending s.lineno
  | .peekPushAll =>
    match collectGo s.pending [] s.lineno with
    | none => .eof
    | some (acc, rest, ln) => .go (pushAll acc ⟨rest, ln⟩)
  | .scanMolecule => scanMolGo first s.pending s.lineno

def findHandler (hs : List (List Exc × HAct)) (e : Exc) : Option HAct :=
  (hs.find? fun h => h.1.contains e).map (·.2)

/-- how the generator ends -/
inductive GenFinal where
  | ret
  | raised (e : Exc) (s : Lit)
deriving DecidableEq, Repr

/-- a format's `load_many` generator: frames yielded, then how it ended.  `fuel` bounds the iterations. -/
def runLoop (sk : LoopSkel) (loadOne : M F) : Nat → Bool → Lit → List F × GenFinal
  | 0, _, s => ([], .raised .other s)
  | fuel + 1, first, s =>
    match runPeek sk.peek first s with
    | .eof => ([], .ret)
    | .eofErr s' => ([], .raised .loadError s')
    | .go s' =>
      match loadOne s' with
      | .ok f s'' =>
        let r := runLoop sk loadOne fuel false s''
        (f :: r.1, r.2)
      | .raise e s'' =>
        match findHandler sk.handlers e with
        | none => ([], .raised e s'')
        | some .ret => ([], .ret)
        | some .toLoadError => ([], .raised .loadError s'')
        | some .firstRaiseElseRet => if first then ([], .raised e s'') else ([], .ret)

/-- outcome of iterating `api.load_many` to the end -/
inductive Final where
  | done
  | loadError (lineno : Int)
deriving DecidableEq, Repr

/-- the funnel of `api.load_many`: a `LoadError` passes, any other exception becomes
    `LoadError("Uncaught exception", lit)`; a `StopIteration` that escapes the body of the format's generator
    is a `RuntimeError` by PEP 479 and therefore takes the same route (the `except StopIteration: return` of the
    api never fires for it).  All three carry the line number of the iterator at that moment. -/
def apiFinal : GenFinal → Final
  | .ret => .done
  | .raised _ s => .loadError s.lineno

/-! ### `api.load_many`'s own `except` clauses as data (tied to the source by `Gen/TrajFlow.lean`) -/

/-- exception classes as the api's `try` sees them -/
inductive ApiExc where
  | stopIteration
  | loadError
  | exception     -- any other subclass of `Exception`, RuntimeError included
deriving DecidableEq, Repr

inductive ApiAct where
  | ret            -- `return`
  | reraise        -- `raise`
  | wrapLoadError  -- `raise LoadError("Uncaught exception while loading file.", lit) from exc`
deriving DecidableEq, Repr

/-- PEP 479: a StopIteration leaving a generator body arrives as RuntimeError -/
def pep479 : Exc → ApiExc
  | .stop => .exception
  | .loadError => .loadError
  | .other => .exception

inductive ApiFinal where
  | done
  | loadError (lineno : Int)
  | escaped (lineno : Int)   -- an exception that is not a LoadError reaches the caller
deriving DecidableEq, Repr

def apiFinalOf (hs : List (List ApiExc × ApiAct)) : GenFinal → ApiFinal
  | .ret => .done
  | .raised e s =>
    let act : Option ApiAct := (hs.find? fun h => h.1.contains (pep479 e)).map (·.2)
    match act with
    | some ApiAct.ret => .done
    | some ApiAct.wrapLoadError => .loadError s.lineno
    | some ApiAct.reraise => if pep479 e = .loadError then .loadError s.lineno else .escaped s.lineno
    | none => if pep479 e = .loadError then .loadError s.lineno else .escaped s.lineno

/-- the clauses of the tree: `except StopIteration: return / except LoadError: raise / except Exception: raise LoadError` -/
def apiHandlersRef : List (List ApiExc × ApiAct) :=
  [([.stopIteration], .ret), ([.loadError], .reraise), ([.stopIteration, .loadError, .exception], .wrapLoadError)]

structure Out (F : Type) where
  frames : List F
  final : Final
deriving DecidableEq, Repr

def loadMany (sk : LoopSkel) (loadOne : M F) (ls : List Line) : Out F :=
  let r := runLoop sk loadOne (ls.length + 1) true (Lit.ofLines ls)
  ⟨r.1, apiFinal r.2⟩

/-! ### the loops of the tree as it is (tied to the generated skeletons in `Props/C13.lean`) -/

def xyzSkel : LoopSkel := ⟨.skipBlank, [([.stop], .toLoadError)]⟩
def sdfSkel : LoopSkel := ⟨.peekPushAll, [([.stop], .toLoadError)]⟩
def groSkel : LoopSkel := sdfSkel
def pdbSkel : LoopSkel := ⟨.none, [([.loadError], .firstRaiseElseRet)]⟩
def mol2Skel : LoopSkel := ⟨.scanMolecule, [([.stop], .toLoadError)]⟩

/-! ### the loops before the repairs (kept for the `_violated` witnesses) -/

def xyzSkelOld : LoopSkel := ⟨.oneBlankEnds, [([.stop], .ret)]⟩
def sdfSkelOld : LoopSkel := ⟨.none, [([.stop], .ret)]⟩
def pdbSkelOld : LoopSkel := ⟨.none, [([.stop, .loadError], .ret)]⟩

/-! ## `api.dump_many` -/

inductive Ev where
  | pull (i : Nat)      -- `next` on the caller's iterator, i-th time (0-based)
  | check (i : Nat)     -- `_check_required` / `prepare_dump` of the i-th item
  | openFile
  | write (i : Nat)     -- the format's `dump_one(f, item_i)`
  | close
deriving DecidableEq, Repr

inductive DumpFinal where
  | ok
  | dumpErrorEmpty      -- DumpError("dump_many needs at least one IOData object") — file never opened
  | prepareError        -- PrepareDumpError
  | dumpErrorUncaught   -- DumpError("Uncaught exception while dumping")
  | iterRaised          -- the caller's exception, unwrapped (first pull happens outside any try)
deriving DecidableEq, Repr

structure DumpOut where
  events : List Ev
  lines : List Line
  opened : Bool
  final : DumpFinal
deriving DecidableEq, Repr

/-- the loop of the format's `dump_many` over `checking_iterator()` for the items after the first:
    `for other in iter_data: check; yield` / `dump_one`.  `boom` = the caller's iterator raises after its items. -/
def dumpRest (valid : F → Bool) (dumpOne : F → List Line) (boom : Bool) :
    List F → Nat → List Ev × List Line × DumpFinal
  | [], i => if boom then ([.pull i, .close], [], .dumpErrorUncaught) else ([.pull i, .close], [], .ok)
  | f :: t, i =>
    if valid f then
      let r := dumpRest valid dumpOne boom t (i + 1)
      (.pull i :: .check i :: .write i :: r.1, dumpOne f ++ r.2.1, r.2.2)
    else ([.pull i, .check i, .close], [], .prepareError)

def dumpMany (valid : F → Bool) (dumpOne : F → List Line) (items : List F) (boom : Bool) : DumpOut :=
  match items with
  | [] => if boom then ⟨[.pull 0], [], false, .iterRaised⟩ else ⟨[.pull 0], [], false, .dumpErrorEmpty⟩
  | f :: t =>
    if valid f then
      let r := dumpRest valid dumpOne boom t 1
      ⟨.pull 0 :: .check 0 :: .openFile :: .write 0 :: r.1, dumpOne f ++ r.2.1, true, r.2.2⟩
    else ⟨[.pull 0, .check 0], [], false, .prepareError⟩

/-! ## FCHK optimisation / IRC trajectories: the point / step bookkeeping of fchk.load_many -/

structure FchkTag where
  ipoint : Nat
  npoint : Nat
  istep : Nat
  nstep : Nat
  energyIx : Nat     -- index into `Results for each geome` of the energy (2*istep)
  geomIx : Nat       -- index of the geometry block within the point (istep)
  warned : Bool      -- the LoadWarning for an inconsistent `Number of geometries` was issued for this point
deriving DecidableEq, Repr

/-- a point of the file: lengths of `Results for each geome`, of `Geometries` and of `Gradient at each geome` -/
structure FchkPoint where
  nres : Nat
  ngeo : Nat
  ngrad : Nat
deriving DecidableEq, Repr

/-- `len(list(zip(r[::2], r[1::2], geoms.reshape(-1,natom,3), grads.reshape(-1,natom,3))))`; `none` when a
    reshape fails (ValueError -> LoadError through the funnel) -/
def fchkTrajLen (natom : Nat) (p : FchkPoint) : Option Nat :=
  if natom = 0 then none
  else if p.ngeo % (natom * 3) ≠ 0 ∨ p.ngrad % (natom * 3) ≠ 0 then none
  else some (min (min ((p.nres + 1) / 2) (p.nres / 2)) (min (p.ngeo / (natom * 3)) (p.ngrad / (natom * 3))))

def fchkSteps (ipoint npoint len : Nat) (warned : Bool) : List FchkTag :=
  (List.range len).map fun i => ⟨ipoint, npoint, i, len, 2 * i, i, warned⟩

/-- `for ipoint, nstep in enumerate(nsteps)`; a point whose arrays are absent (`none`) raises KeyError.
    Result: frames, number of LoadWarnings issued, whether the generator ended normally. -/
def fchkGo (natom npoint : Nat) : List (Nat × Option FchkPoint) → Nat → List FchkTag × Nat × Bool
  | [], _ => ([], 0, true)
  | (nstep, p) :: t, ipoint =>
    match p.bind (fchkTrajLen natom) with
    | none => ([], 0, false)
    | some len =>
      let r := fchkGo natom npoint t (ipoint + 1)
      (fchkSteps ipoint npoint len (len != nstep) ++ r.1, (if len != nstep then 1 else 0) + r.2.1, r.2.2)

/-- frames yielded, warnings, and whether the generator ended normally (false = LoadError through the funnel) -/
def fchkLoadMany (natom : Nat) (pts : List (Nat × Option FchkPoint)) : List FchkTag × Nat × Bool :=
  fchkGo natom pts.length pts 0

end Iodata.Traj
