/-
Decimal rendering and parsing as CPython does it for the format specs used by the writers
(`{:Nd}`, `{:N.Df}`, `{: N.Df}`, `{: N.DE}`, `{:N.De}`) and for `int()` / `float()` on such strings.
Core Lean only.

A printed real is carried *quantised*: `Fx` = sign and magnitude of `round(|x|·10^d)` (the sign is
kept separately so that `-0.0000` is representable); a scientific field is `Sci` = sign, the d+1
mantissa digits as a number, and the decimal exponent.
-/
import Iodata.Model.Chars
namespace Iodata.Decimal
open Iodata.Chars

def digitChar : Nat → Char
  | 0 => '0' | 1 => '1' | 2 => '2' | 3 => '3' | 4 => '4'
  | 5 => '5' | 6 => '6' | 7 => '7' | 8 => '8' | _ => '9'

def charDigit? : Char → Option Nat
  | '0' => some 0 | '1' => some 1 | '2' => some 2 | '3' => some 3 | '4' => some 4
  | '5' => some 5 | '6' => some 6 | '7' => some 7 | '8' => some 8 | '9' => some 9
  | _ => none

/-- decimal digits of `n` (fuel-driven so that the kernel can evaluate it) -/
def natToDecF : Nat → Nat → Str
  | 0, _ => []
  | f + 1, n => if n < 10 then [digitChar n] else natToDecF f (n / 10) ++ [digitChar (n % 10)]

/-- `str(n)` / `f"{n:d}"` for `n ≥ 0` -/
def natToDec (n : Nat) : Str := natToDecF (n + 1) n

/-- exactly `w` digits, zero padded (the fraction part of a fixed-point number) -/
def digitsW : Nat → Nat → Str
  | 0, _ => []
  | w + 1, n => digitsW w (n / 10) ++ [digitChar (n % 10)]

/-- value of a digit string; `none` if a non-digit occurs -/
def digitsValGo : Nat → Str → Option Nat
  | acc, [] => some acc
  | acc, c :: cs => match charDigit? c with
    | some d => digitsValGo (acc * 10 + d) cs
    | none => none

def digitsVal (s : Str) : Option Nat := digitsValGo 0 s

/-- non-empty digit string to number -/
def decToNat? (s : Str) : Option Nat := if s.isEmpty then none else digitsVal s

/-- `f"{i:d}"` for an integer -/
def intToDec (i : Int) : Str :=
  match i with
  | .ofNat n => natToDec n
  | .negSucc n => '-' :: natToDec (n + 1)

/-- `f"{i:wd}"` -/
def fmtInt (w : Nat) (i : Int) : Str := rjust w (intToDec i)

def splitSign : Str → Bool × Str
  | [] => (false, [])
  | c :: r => if c == '-' then (true, r) else if c == '+' then (false, r) else (false, c :: r)

/-- `int(s)` on ASCII input without `_` separators: blanks stripped, optional sign, digits -/
def pyInt (s : Str) : Option Int :=
  let (neg, ds) := splitSign (strip s)
  (decToNat? ds).map (fun n => if neg then - (n : Int) else (n : Int))

/-- quantised fixed-point number: sign and `round(|x|·10^d)` -/
structure Fx where
  neg : Bool
  mag : Nat
  deriving DecidableEq, Repr

def signStr (sp neg : Bool) : Str := if neg then ['-'] else if sp then [' '] else []

/-- digits of `mag/10^d` with `d` decimals (no point when `d = 0`, as `.0f` prints) -/
def fixDigits (d : Nat) (mag : Nat) : Str :=
  natToDec (mag / 10 ^ d) ++ (if d = 0 then [] else '.' :: digitsW d (mag % 10 ^ d))

/-- the text of `x` under `.df` (`sp`: the `' '` sign flag of `{: w.df}`) -/
def fixCore (sp : Bool) (d : Nat) (x : Fx) : Str := signStr sp x.neg ++ fixDigits d x.mag

/-- `f"{x:w.df}"` (`sp = false`) and `f"{x: w.df}"` (`sp = true`) -/
def fmtFix (sp : Bool) (w d : Nat) (x : Fx) : Str := rjust w (fixCore sp d x)

/-- `float(s)` for plain decimal text (no exponent, no `inf`/`nan`, no `_`), re-quantised to `d`
decimals; `none` when Python raises *or* the text has more than `d` decimals (outside the model) -/
def pyFix (d : Nat) (s : Str) : Option Fx :=
  let (neg, u) := splitSign (strip s)
  let ip := u.takeWhile isDigitA
  match u.dropWhile isDigitA with
  | [] => if ip.isEmpty then none else (digitsVal ip).map (fun a => ⟨neg, a * 10 ^ d⟩)
  | '.' :: fp =>
    if (ip.isEmpty && fp.isEmpty) || decide (d < fp.length) then none else
    match digitsVal ip, digitsVal fp with
    | some a, some b => some ⟨neg, a * 10 ^ d + b * 10 ^ (d - fp.length)⟩
    | _, _ => none
  | _ => none

/-- scientific field: sign, mantissa `m` (the `d+1` digits `D.DDDD` read as a number), exponent -/
structure Sci where
  neg : Bool
  man : Nat
  exp : Int
  deriving DecidableEq, Repr

/-- exponent text of `%E` / `%e`: sign and at least two digits -/
def expStr (e : Int) : Str :=
  (if e < 0 then '-' else '+') :: (let a := natToDec e.natAbs; if a.length < 2 then '0' :: a else a)

/-- mantissa digits `D.DDDD` (no point when `d = 0`) -/
def manDigits (d : Nat) (man : Nat) : Str :=
  natToDec (man / 10 ^ d) ++ (if d = 0 then [] else '.' :: digitsW d (man % 10 ^ d))

/-- scientific text with exponent marker `c` (`'E'`, `'e'`, or the Fortran `'D'`) -/
def sciCoreC (sp : Bool) (c : Char) (d : Nat) (x : Sci) : Str :=
  signStr sp x.neg ++ (manDigits d x.man ++ c :: expStr x.exp)

/-- the text of `{:.dE}` (`up`) / `{:.de}` -/
def sciCore (sp up : Bool) (d : Nat) (x : Sci) : Str := sciCoreC sp (if up then 'E' else 'e') d x

def fmtSci (sp up : Bool) (w d : Nat) (x : Sci) : Str := rjust w (sciCore sp up d x)

/-- `s.replace("D", "E")` (readers of Fortran output) -/
def replaceD (s : Str) : Str := s.map fun c => if c == 'D' then 'E' else c

/-- `float(s)` for `[sign]D.DDDD(E|e)[sign]XX` text, kept syntactically (mantissa with `d` decimals);
`none` when Python raises or the mantissa does not have exactly one leading digit and `d` decimals -/
def pySci (d : Nat) (s : Str) : Option Sci :=
  let (neg, u) := splitSign (strip s)
  let ip := u.takeWhile isDigitA
  match u.dropWhile isDigitA with
  | '.' :: r =>
    let fp := r.takeWhile isDigitA
    match r.dropWhile isDigitA with
    | e :: x =>
      if (e == 'E' || e == 'e') && decide (fp.length = d) && decide (ip.length = 1) then
        let (eneg, ed) := splitSign x
        match digitsVal ip, digitsVal fp, decToNat? ed with
        | some a, some b, some ev => some ⟨neg, a * 10 ^ d + b, if eneg then - (ev : Int) else ev⟩
        | _, _, _ => none
      else none
    | [] => none
  | _ => none

end Iodata.Decimal
