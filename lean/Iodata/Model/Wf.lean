/-
Structural model of wavefunction conversion (C01).  Core Lean only (linked into the driver).

An orbital is a coefficient vector `coeffs : List Int` over the basis functions of a list of
(segmented) shells, read through a convention dictionary `cv`.  It *denotes* the finitely
supported map `den cv shells coeffs : PKey → Int` from primitive keys
`(center, exponent id, l, kind, unsigned label)` — the L2-normalised primitive
`N(α,label)·P_label(r − R_center)·exp(−α|r−R|²)` — to coefficients.  Two descriptions with equal
`den` are the same function of space (no linear independence needed).

Writers are modelled from the object down to the numbers placed in the file, readers from those
numbers back to an object; text scanning is not modelled.  The normalisation scale is an abstract
function `N : exponent id → label → Int` (theorems assume `N ≠ 0`); division by a scale is exact
integer division (the files a writer produces contain multiples).
-/
import Iodata.Model.Conv
namespace Iodata.Wf
open Iodata.Conv

abbrev PKey := Nat × Nat × Nat × Char × Label

/-- a segmented shell: `prims` = (exponent id, contraction coefficient) -/
structure Shell where
  center : Nat
  l : Nat
  kind : Char
  prims : List (Nat × Int)
  deriving Repr, DecidableEq

/-- parsed conventions: `(startswith "-", lstrip "-")` per label, per `(l, kind)` -/
abbrev Cv := Key → List (Bool × Label)

def cvOf (t : Table) : Cv := fun k =>
  match t.find? (fun e => e.1 == k) with
  | some e => e.2.map parse
  | none => []

def Shell.key (s : Shell) : Key := (s.l, s.kind)

/-- sum of the contraction coefficients of the primitives with exponent id `e` -/
def expSum (prims : List (Nat × Int)) (e : Nat) : Int :=
  (prims.map fun p => if p.1 = e then p.2 else 0).sum

def onShell (s : Shell) (κ : PKey) : Bool :=
  decide (κ.1 = s.center) && decide (κ.2.2.1 = s.l) && decide (κ.2.2.2.1 = s.kind)

/-- contribution of one shell with coefficient block `v` in convention `c` -/
def shellDen (s : Shell) (c : List (Bool × Label)) (v : List Int) (κ : PKey) : Int :=
  if onShell s κ then val c v κ.2.2.2.2 * expSum s.prims κ.2.1 else 0

/-- the denotation of a coefficient vector -/
def den (cv : Cv) : List Shell → List Int → PKey → Int
  | [], _, _ => 0
  | s :: ss, coeffs, κ =>
    shellDen s (cv s.key) (coeffs.take (cv s.key).length) κ
      + den cv ss (coeffs.drop (cv s.key).length) κ

def nfun (cv : Cv) (shells : List Shell) : Nat := (shells.map fun s => (cv s.key).length).sum

/-! ### (a) `convert_conventions` applied to a coefficient vector, shell by shell
(`coeffs[permutation] * signs`; the global permutation of `convert_conventions` is the
concatenation of the shifted shell permutations, C10 theorems 6/6b and `apply_block`). -/
def convert (cv1 cv2 : Cv) : List Shell → List Int → List Int
  | [], _ => []
  | s :: ss, coeffs =>
    apply (convFwd (cv1 s.key) (cv2 s.key)) (coeffs.take (cv1 s.key).length)
      ++ convert cv1 cv2 ss (coeffs.drop (cv1 s.key).length)

/-! ### (b) WFN / WFX -/

/-- one primitive shell as it sits in the file: `types` are the (unsigned) primitive names of the
TYPE ASSIGNMENTS codes, `vals` the numbers of one orbital -/
structure Batch where
  center : Nat
  l : Nat
  e : Nat
  types : List Label
  vals : List Int
  deriving Repr, DecidableEq

def plus (ls : List Label) : List (Bool × Label) := ls.map fun x => (false, x)

/-- `mo_coeffs[...] *= contractions * scales` for the rows of one primitive:
`sl` is the list of labels from which `get_mocoeff_scales` takes the powers. -/
def scaleRow (N : Nat → Label → Int) (e : Nat) (d : Int) (w : List Int) (sl : List Label) : List Int :=
  (w.zip sl).map fun p => p.1 * d * N e p.2

/-- the writer, one shell: convert to the WFN conventions, repeat the block per primitive, scale.
`fromSrc = true`: the decontracted basis carries the *source* conventions (the code as it stands in
`wfn.py`/`wfx.py` when `MolecularBasis(shells, data.obasis.conventions, …)` is used),
`fromSrc = false`: it carries the WFN conventions. -/
def wfnBatch (N : Nat → Label → Int) (s : Shell) (types sl : List Label) (w : List Int) (p : Nat × Int) : Batch :=
  { center := s.center, l := s.l, e := p.1, types := types, vals := scaleRow N p.1 p.2 w sl }

def wfnShell (fromSrc : Bool) (N : Nat → Label → Int) (c1 c2 : List (Bool × Label)) (s : Shell)
    (v : List Int) : List Batch :=
  s.prims.map (wfnBatch N s (labels c2) (if fromSrc then labels c1 else labels c2) (apply (convFwd c1 c2) v))

def wfnDump (fromSrc : Bool) (N : Nat → Label → Int) (cv1 cvW : Cv) : List Shell → List Int → List Batch
  | [], _ => []
  | s :: ss, coeffs =>
    wfnShell fromSrc N (cv1 s.key) (cvW s.key) s (coeffs.take (cv1 s.key).length)
      ++ wfnDump fromSrc N cv1 cvW ss (coeffs.drop (cv1 s.key).length)

/-- what a batch denotes, in *un-normalised* primitives `P_label·exp(−α r²)` -/
def batchDen (b : Batch) (κ : PKey) : Int :=
  if decide (κ.1 = b.center) && decide (κ.2.2.1 = b.l) && decide (κ.2.2.2.1 = 'c') && decide (κ.2.1 = b.e)
  then val (plus b.types) b.vals κ.2.2.2.2 else 0

def fileDen (bs : List Batch) (κ : PKey) : Int := (bs.map fun b => batchDen b κ).sum

/-- the reader on one batch (`build_obasis` with contraction length 1 + `load_one`): regroup the
rows into the order of the WFN conventions (`permutation[ibasis + ifn] = ibasis + i` with
`ifn = CONVENTIONS.index(name_i)`), divide by the scales of the WFN labels; the shell has a single
normalised primitive with coefficient 1. -/
def loadBatch (N : Nat → Label → Int) (cW : List (Bool × Label)) (b : Batch) : Shell × List Int :=
  ({ center := b.center, l := b.l, kind := 'c', prims := [(b.e, 1)] },
   ((apply (convFwd (plus b.types) cW) b.vals).zip (labels cW)).map fun p => p.1 / N b.e p.2)

def wfnLoad (N : Nat → Label → Int) (cvW : Cv) (bs : List Batch) : List Shell × List Int :=
  (bs.map fun b => (loadBatch N (cvW (b.l, 'c')) b).1,
   bs.flatMap fun b => (loadBatch N (cvW (b.l, 'c')) b).2)

/-- flat rows as they appear in the file (centre, type, exponent id, value) -/
def rows (bs : List Batch) : List (Nat × Label × Nat × Int) :=
  bs.flatMap fun b => (b.types.zip b.vals).map fun p => (b.center, p.1, b.e, p.2)

/-! ### (c) Molden / Molekel -/

def insertByCenter (s : Shell) : List Shell → List Shell
  | [] => [s]
  | t :: ts => if s.center ≤ t.center then s :: t :: ts else t :: insertByCenter s ts

/-- Python's stable `sorted(shells, key=icenter)` -/
def sortByCenter : List Shell → List Shell
  | [] => []
  | s :: ss => insertByCenter s (sortByCenter ss)

/-- the Molden writer: `[GTO]` lists the shells sorted by centre, `[MO]` the coefficient rows
converted to the Molden conventions *in the object's shell order*. -/
def moldenDump (cv1 cvM : Cv) (shells : List Shell) (coeffs : List Int) : List Shell × List Int :=
  (sortByCenter shells, convert cv1 cvM shells coeffs)

/-- the coefficient vector cut into the blocks of the shells -/
def blocks (cv : Cv) : List Shell → List Int → List (Shell × List Int)
  | [], _ => []
  | s :: ss, coeffs => (s, coeffs.take (cv s.key).length) :: blocks cv ss (coeffs.drop (cv s.key).length)

def insertPair (p : Shell × List Int) : List (Shell × List Int) → List (Shell × List Int)
  | [] => [p]
  | t :: ts => if p.1.center ≤ t.1.center then p :: t :: ts else t :: insertPair p ts

def sortPairs : List (Shell × List Int) → List (Shell × List Int)
  | [] => []
  | p :: ps => insertPair p (sortPairs ps)

/-- the repaired Molden writer: the coefficient blocks follow the sorted shells -/
def moldenDumpSorted (cv1 cvM : Cv) (shells : List Shell) (coeffs : List Int) : List Shell × List Int :=
  let ps := sortPairs (blocks cvM shells (convert cv1 cvM shells coeffs))
  (ps.map (·.1), ps.flatMap (·.2))

/-- the Molekel writer writes `$$` whenever the centre differs from the previous shell's
(`iatom_last = 0` initially); the reader starts at centre 0 and adds one per `$$`. -/
def mklCentersFrom (last seen : Nat) : List Nat → List Nat
  | [] => []
  | c :: cs =>
    let seen' := if c ≠ last then seen + 1 else seen
    seen' :: mklCentersFrom c seen' cs

def mklCenters (cs : List Nat) : List Nat := mklCentersFrom 0 0 cs

def recenter (shells : List Shell) (cs : List Nat) : List Shell :=
  (shells.zip cs).map fun p => { p.1 with center := p.2 }

def mklDump (cv1 cvM : Cv) (shells : List Shell) (coeffs : List Int) : List Shell × List Int :=
  (recenter shells (mklCenters (shells.map (·.center))), convert cv1 cvM shells coeffs)

/-- `irreps[norb:]` with `norb = norbb` (as the code stands) resp. `norba` -/
def mklBetaIrreps (useNorbb : Bool) (norba norbb : Nat) (irreps : List Nat) : List Nat :=
  irreps.drop (if useNorbb then norbb else norba)

/-! ### (d) FCHK density matrices: `D' = P D Pᵀ` for the signed permutation `r` of the orbital rows -/

def convMatrix (r : List (Nat × Int)) (D : List (List Int)) : List (List Int) :=
  r.map fun p => r.map fun q => p.2 * q.2 * (D.getD p.1 []).getD q.1 0

/-- the FCHK writer: orbital coefficients converted; density matrices converted or not -/
def fchkDensity (converted : Bool) (r : List (Nat × Int)) (D : List (List Int)) : List (List Int) :=
  if converted then convMatrix r D else D

/-- bilinear form of a density matrix on two coefficient vectors of basis-function values -/
def bilin (D : List (List Int)) (x y : List Int) : Int :=
  ((D.zip x).map fun p => p.2 * ((p.1.zip y).map fun q => q.1 * q.2).sum).sum

end Iodata.Wf
