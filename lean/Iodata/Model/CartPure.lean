/-
Exact (rational interval) check that a Cartesian→pure table `tf` (rows: `c0, c1, s1, …, cl, sl`
in HORTON2 order; columns: `iter_cart_alphabet l`; entries: doubles = dyadic rationals) is, within
`tol`, THE table of L2-normalised real regular solid harmonics of docs/basis.rst:

  with `u[m][i] = tf[m][i] / √d_i`, `d_i = (2nx-1)‼(2ny-1)‼(2nz-1)‼` (so that the polynomial
  `Σ_i u[m][i] x^nx y^ny z^nz` is the pure function up to the common factor `√((2l-1)‼)`):
  (a) harmonic:      every coefficient of the Laplacian of every row vanishes;
  (b) orthonormal:   `Σ_ij u[m][i] u[m'][j] g_ij = δ_mm'`, `g_ij = Π_d (n_id + n_jd - 1)‼` (all sums even)
                     — `g_ij/√(d_i d_j)` is the exact overlap of two normalised Cartesian primitives;
  (c) m-symmetry:    `∂φ C_m = -m S_m`, `∂φ S_m = m C_m`, `∂φ C_0 = 0` with `∂φ = x∂y − y∂x`
                     (`cos mφ` / `sin mφ` dependence, and the relative sign of the pair);
  (d) sign:          the coefficient of `x^m z^(l-m)` in `C_m` is positive.
`1/√d` is enclosed in `[s, s + 2⁻⁶⁴]` with `s = ⌊2⁶⁴/√d⌋/2⁶⁴`; the enclosure is *checked by squaring*
inside the same computation, so nothing about `Nat.sqrt` is trusted.  Core Lean only.
-/
import Iodata.Model.Overlap
namespace Iodata.CartPure
open Iodata.Overlap

/-- closed rational interval -/
abbrev I := Rat × Rat

def I.add (a b : I) : I := (a.1 + b.1, a.2 + b.2)
/-- multiply by an exact rational -/
def I.scale (q : Rat) (a : I) : I := if q < 0 then (q * a.2, q * a.1) else (q * a.1, q * a.2)
/-- product of two intervals with non-negative lower ends -/
def I.mulPos (a b : I) : I := (a.1 * b.1, a.2 * b.2)
def I.sum (l : List I) : I := l.foldl I.add (0, 0)
def I.within (a : I) (c tol : Rat) : Bool := decide (c - tol ≤ a.1) && decide (a.2 ≤ c + tol)

def two64 : Nat := 2 ^ 64

/-- enclosure of `1/√d` (`d ≥ 1`), and whether it is verified: `s²·d ≤ 1 ≤ (s+2⁻⁶⁴)²·d`, `0 ≤ s`. -/
def invSqrt (d : Nat) : I × Bool :=
  let n := Nat.sqrt (two64 * two64 / d)
  let lo : Rat := (n : Rat) / two64
  let hi : Rat := ((n + 1 : Nat) : Rat) / two64
  ((lo, hi), decide (lo * lo * d ≤ 1) && decide (1 ≤ hi * hi * d) && decide (1 ≤ d))

def dOf (n : Nat × Nat × Nat) : Nat := facts (2 * n.1) * facts (2 * n.2.1) * facts (2 * n.2.2)

/-- `g_ij` -/
def gram (a b : Nat × Nat × Nat) : Nat :=
  if (a.1 + b.1) % 2 = 0 ∧ (a.2.1 + b.2.1) % 2 = 0 ∧ (a.2.2 + b.2.2) % 2 = 0
  then facts (a.1 + b.1) * facts (a.2.1 + b.2.1) * facts (a.2.2 + b.2.2) else 0

def idxOfCart (c : List (Nat × Nat × Nat)) (n : Nat × Nat × Nat) : Nat := c.idxOf n

def tol : Rat := 1 / 1000000000000

/-- row `m` as intervals for `u[m][·]` -/
def uRow (s : List I) (row : List Rat) : List I := (row.zip s).map fun p => I.scale p.1 p.2

def getI (r : List I) (i : Nat) : I := r.getD i (0, 0)

/-- coefficients of `∂φ P` for the row `r` -/
def dphi (c : List (Nat × Nat × Nat)) (r : List I) : List I :=
  c.map fun n =>
    let t1 : I := if 1 ≤ n.1 then I.scale ((n.2.1 + 1 : Nat) : Rat) (getI r (idxOfCart c (n.1 - 1, n.2.1 + 1, n.2.2))) else (0, 0)
    let t2 : I := if 1 ≤ n.2.1 then I.scale (-(((n.1 + 1 : Nat) : Rat))) (getI r (idxOfCart c (n.1 + 1, n.2.1 - 1, n.2.2))) else (0, 0)
    I.add t1 t2

def harmonicRow (l : Nat) (c : List (Nat × Nat × Nat)) (r : List I) : Bool :=
  (cartAlphabet (l - 2)).all fun n =>
    let v := I.add (I.add
      (I.scale (((n.1 + 2) * (n.1 + 1) : Nat) : Rat) (getI r (idxOfCart c (n.1 + 2, n.2.1, n.2.2))))
      (I.scale (((n.2.1 + 2) * (n.2.1 + 1) : Nat) : Rat) (getI r (idxOfCart c (n.1, n.2.1 + 2, n.2.2)))))
      (I.scale (((n.2.2 + 2) * (n.2.2 + 1) : Nat) : Rat) (getI r (idxOfCart c (n.1, n.2.1, n.2.2 + 2))))
    I.within v 0 tol

def allZero (v : List I) : Bool := v.all fun x => I.within x 0 tol

/-- the four conditions for one table -/
def checkTable (l : Nat) (tf : List (List Rat)) : Bool :=
  let c := cartAlphabet l
  let sq := c.map fun n => invSqrt (dOf n)
  let s : List I := sq.map (·.1)
  let shapeOk := decide (tf.length = 2 * l + 1) && tf.all (fun row => decide (row.length = c.length))
  let encOk := sq.all (·.2)
  let u : List (List I) := tf.map (uRow s)
  -- (a)
  let harm := decide (l < 2) || u.all (harmonicRow l c)
  -- (b) W_ij = g_ij * s_i * s_j
  let w : List (List I) := (c.zip s).map fun a => (c.zip s).map fun b =>
    I.scale ((gram a.1 b.1 : Nat) : Rat) (I.mulPos a.2 b.2)
  let ortho := (List.range tf.length).all fun m => (List.range (m + 1)).all fun m' =>
    let rm := tf.getD m []
    let rm' := tf.getD m' []
    let v := I.sum ((rm.zip w).map fun a =>
      if a.1 = 0 then (0, 0) else I.scale a.1 (I.sum ((rm'.zip a.2).map fun b => if b.1 = 0 then (0, 0) else I.scale b.1 b.2)))
    I.within v (if m = m' then 1 else 0) tol
  -- (c)
  let row := fun k => u.getD k []
  let lz0 := allZero (dphi c (row 0))
  let lz := (List.range l).all fun m' =>
    let m := m' + 1
    let cm := row (2 * m - 1)
    let sm := row (2 * m)
    allZero (((dphi c cm).zip sm).map fun p => I.add p.1 (I.scale (m : Rat) p.2))
      && allZero (((dphi c sm).zip cm).map fun p => I.add p.1 (I.scale (-(m : Rat)) p.2))
  -- (d)
  let sgn := (List.range (l + 1)).all fun m =>
    decide ((1 : Rat) / 10000 < (getI (row (if m = 0 then 0 else 2 * m - 1)) (idxOfCart c (m, 0, l - m))).1)
  shapeOk && encOk && harm && ortho && lz0 && lz && sgn

def checkAll (tfs : List (List (List Rat))) : Bool :=
  (List.range tfs.length).all fun l => checkTable l (tfs.getD l [])

end Iodata.CartPure
