/-
SDF / MOL V2000 (`iodata/formats/sdf.py`): `dump_one` writes fixed-width columns, `load_one` *splits
every record on blanks* (transcribed as it is).  The column widths are parameters (`Layout`).
-/
import Iodata.Model.Fmt.Core
namespace Iodata.Fmt.Sdf
open Iodata.Chars Iodata.Decimal Iodata.Fmt

structure Layout where
  cntW : Nat          -- `{natom:3d}{nbond:3d}`
  coordW : Nat        -- `{x:10.4f}`
  coordD : Nat
  symW : Nat          -- `{n:<3s}`
  bondW : Nat         -- `{iatom + 1:3d}{jatom + 1:3d}{bondtype:3d}`
  countsTail : Str    -- "  0     0  0  0  0  0  0999 V2000"
  symGap : Str        -- " "
  atomTail : Str      -- " 0  0  0  0  0  0  0  0  0  0  0  0"
  bondTail : Str      -- "  0  0  0  0"
  endLine : Str       -- "M  END"
  sepLine : Str       -- "$$$$"
  defaultTitle : Str
  -- reader slices (0-based, half-open): counts, atom record, bond record
  sNatom : Nat × Nat
  sNbond : Nat × Nat
  sX : Nat × Nat
  sY : Nat × Nat
  sZ : Nat × Nat
  sSym : Nat × Nat
  sB1 : Nat × Nat
  sB2 : Nat × Nat
  sBt : Nat × Nat
  deriving DecidableEq, Repr

structure Atom where
  x : Fx
  y : Fx
  z : Fx
  zn : Nat
  deriving DecidableEq, Repr

/-- zero-based atom indices and the bond type number -/
structure Bond where
  i : Nat
  j : Nat
  t : Nat
  deriving DecidableEq, Repr

structure Obj where
  title : Str
  atoms : List Atom
  bonds : List Bond       -- `None` and an empty array are written identically
  deriving DecidableEq, Repr

def fmtNat (w n : Nat) : Str := rjust w (natToDec n)

def outTitle (L : Layout) (t : Str) : Str := if t.isEmpty then L.defaultTitle else t

def dumpAtom (T : Tables) (L : Layout) (a : Atom) : Str :=
  ln (fmtFix false L.coordW L.coordD a.x ++ (fmtFix false L.coordW L.coordD a.y ++ (fmtFix false L.coordW L.coordD a.z
    ++ (L.symGap ++ (ljust L.symW (T.sym a.zn) ++ L.atomTail)))))

def dumpBond (L : Layout) (b : Bond) : Str :=
  ln (fmtNat L.bondW (b.i + 1) ++ (fmtNat L.bondW (b.j + 1) ++ (fmtNat L.bondW b.t ++ L.bondTail)))

def countsLine (L : Layout) (natom nbond : Nat) : Str :=
  ln (fmtNat L.cntW natom ++ (fmtNat L.cntW nbond ++ L.countsTail))

/-- `dump_one` -/
def dump (T : Tables) (L : Layout) (o : Obj) : List Str :=
  ln (outTitle L o.title) :: ln [] :: ln [] :: countsLine L o.atoms.length o.bonds.length
    :: (o.atoms.map (dumpAtom T L) ++ (o.bonds.map (dumpBond L) ++ [ln L.endLine, ln L.sepLine]))

def dumpE (T : Tables) (L : Layout) (o : Obj) : Except Unit (List Str) :=
  if o.atoms.all (fun a => (T.sym? a.zn).isSome) then .ok (dump T L o) else .error ()

def pyNat (e : LErr) (s : Str) : R Nat :=
  match pyInt s with
  | some (.ofNat n) => .ok n
  | _ => .error e

def sl (p : Nat × Nat) (s : Str) : Str := slice p.1 p.2 s

/-- atom record of `load_one`: cut by column -/
def loadAtom (T : Tables) (L : Layout) (line : Str) : R Atom :=
  match pyFix L.coordD (sl L.sX line), pyFix L.coordD (sl L.sY line), pyFix L.coordD (sl L.sZ line),
        T.num? (title (strip (sl L.sSym line))) with
  | some x, some y, some z, some zn => .ok ⟨x, y, z, zn⟩
  | _, _, _, _ => .error .float

/-- bond record: `int(line[0:3]) - 1`, `int(line[3:6]) - 1`, `int(line[6:9])` (an index below one or a
negative type is outside the model: reported as an error) -/
def loadBond (L : Layout) (line : Str) : R Bond :=
  match pyNat .int (sl L.sB1 line), pyNat .int (sl L.sB2 line), pyNat .int (sl L.sBt line) with
  | .ok (a + 1), .ok (b + 1), .ok t => .ok ⟨a, b, t⟩
  | _, _, _ => .error .int

/-- `while True: words = next(lit); if words == "$$$$\n": break` -/
def hasEnd (sep : Str) (ls : List Str) : Bool := ls.any (· == ln sep)

/-- `load_one` -/
def load (T : Tables) (L : Layout) : List Str → R Obj
  | l0 :: _ :: _ :: l3 :: rest =>
    match pyNat .int (sl L.sNatom l3), pyNat .int (sl L.sNbond l3) with
    | .ok natom, .ok nbond =>
      match (splitWs l3).getLast? with
      | none => .error .index
      | some wl =>
        if upper wl != "V2000".toList then .error .format else
        match readN (loadAtom T L) natom rest with
        | .error e => .error e
        | .ok (atoms, rest1) =>
          match readN (loadBond L) nbond rest1 with
          | .error e => .error e
          | .ok (bonds, rest2) =>
            if hasEnd "$$$$".toList rest2 then .ok ⟨strip l0, atoms, bonds⟩ else .error .eof
    | _, _ => .error .int
  | _ => .error .eof

def norm (L : Layout) (o : Obj) : Obj := ⟨outTitle L o.title, o.atoms, o.bonds⟩

def okTitle (t : Str) : Bool := decide (Trimmed t) && !t.contains '\n'

/-- element usable in the symbol column: blank-free, fits, and `sym2num[sym.title()]` maps it back -/
def okZ (T : Tables) (L : Layout) (z : Nat) : Bool :=
  match T.sym? z with
  | none => false
  | some s => decide (NoWs s) && decide (s.length ≤ L.symW) && (T.num? (title s) == some z)

/-- the number fits its column -/
def fitsFx (L : Layout) (v : Fx) : Bool := decide ((fixCore false L.coordD v).length ≤ L.coordW)
def fitsNat (w n : Nat) : Bool := decide ((natToDec n).length ≤ w)

/-- documented domain = what the V2000 columns can hold: every count, atom number, bond type and
coordinate fits its column (neighbouring fields may touch), known elements, single-line title -/
def Dom (T : Tables) (L : Layout) (o : Obj) : Prop :=
  okTitle o.title = true ∧ fitsNat L.cntW o.atoms.length = true ∧ fitsNat L.cntW o.bonds.length = true ∧
  (∀ a ∈ o.atoms, okZ T L a.zn = true ∧ fitsFx L a.x = true ∧ fitsFx L a.y = true ∧ fitsFx L a.z = true) ∧
  (∀ b ∈ o.bonds, fitsNat L.bondW (b.i + 1) = true ∧ fitsNat L.bondW (b.j + 1) = true ∧ fitsNat L.bondW b.t = true)

instance (T : Tables) (L : Layout) (o : Obj) : Decidable (Dom T L o) := by unfold Dom; infer_instance

/-- side conditions on the literal parts of the layout -/
def LayoutOK (L : Layout) : Prop :=
  okTitle L.defaultTitle = true ∧ L.defaultTitle ≠ [] ∧
  AllWs L.symGap ∧ L.symGap ≠ [] ∧
  brkB L.countsTail = true ∧ brkB L.atomTail = true ∧ brkB L.bondTail = true ∧
  ((splitWs (ln L.countsTail)).getLast?.map upper = some "V2000".toList) ∧
  L.sepLine = "$$$$".toList ∧
  -- writer columns = reader slices
  L.sNatom = (0, L.cntW) ∧ L.sNbond = (L.cntW, 2 * L.cntW) ∧
  L.sX = (0, L.coordW) ∧ L.sY = (L.coordW, 2 * L.coordW) ∧ L.sZ = (2 * L.coordW, 3 * L.coordW) ∧
  L.sSym = (3 * L.coordW + L.symGap.length, 3 * L.coordW + L.symGap.length + L.symW) ∧
  L.sB1 = (0, L.bondW) ∧ L.sB2 = (L.bondW, 2 * L.bondW) ∧ L.sBt = (2 * L.bondW, 3 * L.bondW)

instance (L : Layout) : Decidable (LayoutOK L) := by unfold LayoutOK; infer_instance

end Iodata.Fmt.Sdf

namespace Iodata.Fmt.Sdf
open Iodata.Chars Iodata.Decimal Iodata.Fmt

/-! ### shape of the writer the model assumes (compared with `Gen.Layouts.sdf_writes` by `decide`) -/

def expectedWrites (L : Layout) : List Write :=
  let f := "dump_one".toList
  [ (f, [.str ("data.title or '".toList ++ L.defaultTitle ++ ['\'']) 0 false, .lit ['\n']]),
    (f, [.lit ['\n']]),
    (f, [.lit ['\n']]),
    (f, [.int "data.natom".toList L.cntW, .int "nbond".toList L.cntW, .lit L.countsTail, .lit ['\n']]),
    (f, [.fix ['x'] false L.coordW L.coordD, .fix ['y'] false L.coordW L.coordD, .fix ['z'] false L.coordW L.coordD,
         .lit L.symGap, .str ['n'] L.symW false, .lit L.atomTail, .lit ['\n']]),
    (f, [.int "iatom + 1".toList L.bondW, .int "jatom + 1".toList L.bondW, .int "bondtype".toList L.bondW,
         .lit L.bondTail, .lit ['\n']]),
    (f, [.lit L.endLine, .lit ['\n']]),
    (f, [.lit L.sepLine, .lit ['\n']]) ]

/-- the slices of the reader, in source order (compared with `Gen.Layouts.sdf_slices`) -/
def expectedSlices (L : Layout) : List Slice :=
  let f := "load_one".toList
  [ ⟨f, "natom".toList, L.sNatom.1, some L.sNatom.2, false⟩, ⟨f, "nbond".toList, L.sNbond.1, some L.sNbond.2, false⟩,
    ⟨f, "atcoords[iatom, 0]".toList, L.sX.1, some L.sX.2, false⟩, ⟨f, "atcoords[iatom, 1]".toList, L.sY.1, some L.sY.2, false⟩,
    ⟨f, "atcoords[iatom, 2]".toList, L.sZ.1, some L.sZ.2, false⟩, ⟨f, "atnums[iatom]".toList, L.sSym.1, some L.sSym.2, false⟩,
    ⟨f, "bonds[ibond, 0]".toList, L.sB1.1, some L.sB1.2, false⟩, ⟨f, "bonds[ibond, 1]".toList, L.sB2.1, some L.sB2.2, false⟩,
    ⟨f, "bonds[ibond, 2]".toList, L.sBt.1, some L.sBt.2, false⟩ ]

/-! ### the published layout: CTfile V2000 column table (hand-written from the specification)

counts line `aaabbblllfffcccsssxxxrrrpppiiimmmvvvvvv`: atoms 1-3, bonds 4-6, version 34-39;
atom line `xxxxx.xxxxyyyyy.yyyyzzzzz.zzzz aaaddcccssshhhbbbvvvHHHrrriiimmmnnneee`: x 1-10, y 11-20, z 21-30 (F10.4),
blank 31, symbol 32-34, then twelve 3-column (dd: 2-column) integer fields;
bond line `111222tttsssxxxrrrccc`: first atom 1-3, second atom 4-6, type 7-9, then four 3-column fields. -/
def specV2000 : Layout :=
  { cntW := 3, coordW := 10, coordD := 4, symW := 3, bondW := 3
    countsTail := "  0     0  0  0  0  0  0999 V2000".toList
    symGap := [' ']
    atomTail := " 0  0  0  0  0  0  0  0  0  0  0  0".toList
    bondTail := "  0  0  0  0".toList
    endLine := "M  END".toList
    sepLine := "$$$$".toList
    defaultTitle := "Created with IOData".toList
    sNatom := (0, 3), sNbond := (3, 6), sX := (0, 10), sY := (10, 20), sZ := (20, 30), sSym := (31, 34),
    sB1 := (0, 3), sB2 := (3, 6), sBt := (6, 9) }

/-- the reader's columns: counts natom/nbond, atom x/y/z/symbol, bond a/b/type -/
def readerColumns (L : Layout) : List (Nat × Nat) :=
  [L.sNatom, L.sNbond, L.sX, L.sY, L.sZ, L.sSym, L.sB1, L.sB2, L.sBt]

def specColumns : List (Nat × Nat) :=
  [ (0, 3), (3, 6), (0, 10), (10, 20), (20, 30), (31, 34), (0, 3), (3, 6), (6, 9) ]

end Iodata.Fmt.Sdf
