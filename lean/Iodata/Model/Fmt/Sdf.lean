/-
SDF / MOL V2000 (`iodata/formats/sdf.py`): `dump_one` writes fixed-width columns, `load_one` *splits
every record on blanks* (transcribed as it is).  The column widths are parameters (`Layout`).
-/
import Iodata.Model.Fmt.Core
namespace Iodata.Fmt.Sdf
open Iodata.Chars Iodata.Decimal Iodata.Fmt

structure Layout where
  cntW : Nat          -- `{natom:3d}{nbond:3d}`
  coordW : Nat        -- `{x:10.4f}`
  coordD : Nat
  symW : Nat          -- `{n:<3s}`
  bondW : Nat         -- `{iatom + 1:3d}{jatom + 1:3d}{bondtype:3d}`
  countsTail : Str    -- "  0     0  0  0  0  0  0999 V2000"
  symGap : Str        -- " "
  atomTail : Str      -- " 0  0  0  0  0  0  0  0  0  0  0  0"
  bondTail : Str      -- "  0  0  0  0"
  endLine : Str       -- "M  END"
  sepLine : Str       -- "$$$$"
  defaultTitle : Str
  deriving DecidableEq, Repr

structure Atom where
  x : Fx
  y : Fx
  z : Fx
  zn : Nat
  deriving DecidableEq, Repr

/-- zero-based atom indices and the bond type number -/
structure Bond where
  i : Nat
  j : Nat
  t : Nat
  deriving DecidableEq, Repr

structure Obj where
  title : Str
  atoms : List Atom
  bonds : List Bond       -- `None` and an empty array are written identically
  deriving DecidableEq, Repr

def fmtNat (w n : Nat) : Str := rjust w (natToDec n)

def outTitle (L : Layout) (t : Str) : Str := if t.isEmpty then L.defaultTitle else t

def dumpAtom (T : Tables) (L : Layout) (a : Atom) : Str :=
  ln (fmtFix false L.coordW L.coordD a.x ++ (fmtFix false L.coordW L.coordD a.y ++ (fmtFix false L.coordW L.coordD a.z
    ++ (L.symGap ++ (ljust L.symW (T.sym a.zn) ++ L.atomTail)))))

def dumpBond (L : Layout) (b : Bond) : Str :=
  ln (fmtNat L.bondW (b.i + 1) ++ (fmtNat L.bondW (b.j + 1) ++ (fmtNat L.bondW b.t ++ L.bondTail)))

def countsLine (L : Layout) (natom nbond : Nat) : Str :=
  ln (fmtNat L.cntW natom ++ (fmtNat L.cntW nbond ++ L.countsTail))

/-- `dump_one` -/
def dump (T : Tables) (L : Layout) (o : Obj) : List Str :=
  ln (outTitle L o.title) :: ln [] :: ln [] :: countsLine L o.atoms.length o.bonds.length
    :: (o.atoms.map (dumpAtom T L) ++ (o.bonds.map (dumpBond L) ++ [ln L.endLine, ln L.sepLine]))

def dumpE (T : Tables) (L : Layout) (o : Obj) : Except Unit (List Str) :=
  if o.atoms.all (fun a => (T.sym? a.zn).isSome) then .ok (dump T L o) else .error ()

def pyNat (e : LErr) (s : Str) : R Nat :=
  match pyInt s with
  | some (.ofNat n) => .ok n
  | _ => .error e

/-- atom record of `load_one`: `words = next(lit).split()` -/
def loadAtom (T : Tables) (L : Layout) (line : Str) : R Atom :=
  let ws := splitWs line
  match ws[0]?, ws[1]?, ws[2]?, ws[3]? with
  | some w0, some w1, some w2, some w3 =>
    match pyFix L.coordD w0, pyFix L.coordD w1, pyFix L.coordD w2, T.num? (title w3) with
    | some x, some y, some z, some zn => .ok ⟨x, y, z, zn⟩
    | _, _, _, _ => .error .float
  | _, _, _, _ => .error .index

/-- bond record: `int(words[0]) - 1`, `int(words[1]) - 1`, `int(words[2])` (an index below one or a
negative type is outside the model: reported as an error) -/
def loadBond (line : Str) : R Bond :=
  let ws := splitWs line
  match ws[0]?, ws[1]?, ws[2]? with
  | some w0, some w1, some w2 =>
    match pyNat .int w0, pyNat .int w1, pyNat .int w2 with
    | .ok (a + 1), .ok (b + 1), .ok t => .ok ⟨a, b, t⟩
    | _, _, _ => .error .int
  | _, _, _ => .error .index

/-- `while True: words = next(lit); if words == "$$$$\n": break` -/
def hasEnd (sep : Str) (ls : List Str) : Bool := ls.any (· == ln sep)

/-- `load_one` -/
def load (T : Tables) (L : Layout) : List Str → R Obj
  | l0 :: _ :: _ :: l3 :: rest =>
    let ws := splitWs l3
    match ws[0]?, ws[1]?, ws.getLast? with
    | some w0, some w1, some wl =>
      match pyNat .int w0, pyNat .int w1 with
      | .ok natom, .ok nbond =>
        if upper wl != "V2000".toList then .error .format else
        match readN (loadAtom T L) natom rest with
        | .error e => .error e
        | .ok (atoms, rest1) =>
          match readN loadBond nbond rest1 with
          | .error e => .error e
          | .ok (bonds, rest2) =>
            if hasEnd "$$$$".toList rest2 then .ok ⟨strip l0, atoms, bonds⟩ else .error .eof
      | _, _ => .error .int
    | _, _, _ => .error .index
  | _ => .error .eof

def norm (L : Layout) (o : Obj) : Obj := ⟨outTitle L o.title, o.atoms, o.bonds⟩

def okTitle (t : Str) : Bool := decide (Trimmed t) && !t.contains '\n'

/-- element usable in the blank-separated symbol column -/
def okZ (T : Tables) (z : Nat) : Bool :=
  match T.sym? z with
  | none => false
  | some s => decide (NoWs s) && !s.isEmpty && (T.num? (title s) == some z)

/-- a number leaves at least one blank in its column -/
def narrowFx (L : Layout) (v : Fx) : Bool := decide ((fixCore false L.coordD v).length < L.coordW)
def narrowNat (w n : Nat) : Bool := decide ((natToDec n).length < w)

/-- the part of the documented domain on which the *splitting* reader reads its own writer's files:
the y and z coordinates, the bond count, the second atom number and the bond type of every bond do not
fill their columns (x, the atom count and the first atom number may: nothing precedes them) -/
def Dom (T : Tables) (L : Layout) (o : Obj) : Prop :=
  okTitle o.title = true ∧ narrowNat L.cntW o.bonds.length = true ∧
  (∀ a ∈ o.atoms, okZ T a.zn = true ∧ narrowFx L a.y = true ∧ narrowFx L a.z = true) ∧
  (∀ b ∈ o.bonds, narrowNat L.bondW (b.j + 1) = true ∧ narrowNat L.bondW b.t = true)

instance (T : Tables) (L : Layout) (o : Obj) : Decidable (Dom T L o) := by unfold Dom; infer_instance

/-- what the column layout itself can hold (V2000): every number fits its column -/
def fitsFx (L : Layout) (v : Fx) : Bool := decide ((fixCore false L.coordD v).length ≤ L.coordW)
def fitsNat (w n : Nat) : Bool := decide ((natToDec n).length ≤ w)

def ColDom (T : Tables) (L : Layout) (o : Obj) : Prop :=
  okTitle o.title = true ∧ fitsNat L.cntW o.atoms.length = true ∧ fitsNat L.cntW o.bonds.length = true ∧
  (∀ a ∈ o.atoms, okZ T a.zn = true ∧ fitsFx L a.x = true ∧ fitsFx L a.y = true ∧ fitsFx L a.z = true) ∧
  (∀ b ∈ o.bonds, fitsNat L.bondW (b.i + 1) = true ∧ fitsNat L.bondW (b.j + 1) = true ∧ fitsNat L.bondW b.t = true)

instance (T : Tables) (L : Layout) (o : Obj) : Decidable (ColDom T L o) := by unfold ColDom; infer_instance

/-- side conditions on the literal parts of the layout -/
def LayoutOK (L : Layout) : Prop :=
  okTitle L.defaultTitle = true ∧ L.defaultTitle ≠ [] ∧
  AllWs L.symGap ∧ L.symGap ≠ [] ∧
  brkB L.countsTail = true ∧ brkB L.atomTail = true ∧ brkB L.bondTail = true ∧
  ((splitWs (ln L.countsTail)).getLast?.map upper = some "V2000".toList) ∧
  L.sepLine = "$$$$".toList

instance (L : Layout) : Decidable (LayoutOK L) := by unfold LayoutOK; infer_instance

end Iodata.Fmt.Sdf

namespace Iodata.Fmt.Sdf
open Iodata.Chars Iodata.Decimal Iodata.Fmt

/-! ### shape of the writer the model assumes (compared with `Gen.Layouts.sdf_writes` by `decide`) -/

def expectedWrites (L : Layout) : List Write :=
  let f := "dump_one".toList
  [ (f, [.str ("data.title or '".toList ++ L.defaultTitle ++ ['\'']) 0 false, .lit ['\n']]),
    (f, [.lit ['\n']]),
    (f, [.lit ['\n']]),
    (f, [.int "data.natom".toList L.cntW, .int "nbond".toList L.cntW, .lit L.countsTail, .lit ['\n']]),
    (f, [.fix ['x'] false L.coordW L.coordD, .fix ['y'] false L.coordW L.coordD, .fix ['z'] false L.coordW L.coordD,
         .lit L.symGap, .str ['n'] L.symW false, .lit L.atomTail, .lit ['\n']]),
    (f, [.int "iatom + 1".toList L.bondW, .int "jatom + 1".toList L.bondW, .int "bondtype".toList L.bondW,
         .lit L.bondTail, .lit ['\n']]),
    (f, [.lit L.endLine, .lit ['\n']]),
    (f, [.lit L.sepLine, .lit ['\n']]) ]

/-- which `words[i]` the splitting reader uses for what (compared with `Gen.Layouts.sdf_words`) -/
def expectedWords : List WordUse :=
  let f := "load_one".toList
  [ ⟨f, "natom".toList, 0⟩, ⟨f, "nbond".toList, 1⟩, ⟨f, "<test>".toList, -1⟩,
    ⟨f, "atcoords[iatom, 0]".toList, 0⟩, ⟨f, "atcoords[iatom, 1]".toList, 1⟩, ⟨f, "atcoords[iatom, 2]".toList, 2⟩,
    ⟨f, "atnums[iatom]".toList, 3⟩,
    ⟨f, "bonds[ibond, 0]".toList, 0⟩, ⟨f, "bonds[ibond, 1]".toList, 1⟩, ⟨f, "bonds[ibond, 2]".toList, 2⟩ ]

/-! ### the published layout: CTfile V2000 column table (hand-written from the specification)

counts line `aaabbblllfffcccsssxxxrrrpppiiimmmvvvvvv`: atoms 1-3, bonds 4-6, version 34-39;
atom line `xxxxx.xxxxyyyyy.yyyyzzzzz.zzzz aaaddcccssshhhbbbvvvHHHrrriiimmmnnneee`: x 1-10, y 11-20, z 21-30 (F10.4),
blank 31, symbol 32-34, then twelve 3-column (dd: 2-column) integer fields;
bond line `111222tttsssxxxrrrccc`: first atom 1-3, second atom 4-6, type 7-9, then four 3-column fields. -/
def specV2000 : Layout :=
  { cntW := 3, coordW := 10, coordD := 4, symW := 3, bondW := 3
    countsTail := "  0     0  0  0  0  0  0999 V2000".toList
    symGap := [' ']
    atomTail := " 0  0  0  0  0  0  0  0  0  0  0  0".toList
    bondTail := "  0  0  0  0".toList
    endLine := "M  END".toList
    sepLine := "$$$$".toList
    defaultTitle := "Created with IOData".toList }

/-- the columns `(start, end)` (0-based, half-open) of a layout's variable fields:
counts natom/nbond/version, atom x/y/z/symbol, bond a/b/type -/
def columns (L : Layout) : List (Nat × Nat) :=
  let c := L.cntW; let w := L.coordW; let g := L.symGap.length; let b := L.bondW
  [ (0, c), (c, 2 * c), (2 * c + L.countsTail.length - 6, 2 * c + L.countsTail.length),
    (0, w), (w, 2 * w), (2 * w, 3 * w), (3 * w + g, 3 * w + g + L.symW),
    (0, b), (b, 2 * b), (2 * b, 3 * b) ]

def specColumns : List (Nat × Nat) :=
  [ (0, 3), (3, 6), (33, 39), (0, 10), (10, 20), (20, 30), (31, 34), (0, 3), (3, 6), (6, 9) ]

end Iodata.Fmt.Sdf
