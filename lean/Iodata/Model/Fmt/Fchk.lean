/-
Gaussian formatted checkpoint (`iodata/formats/fchk.py`), FIELD layer: the two header lines, the four
`_dump_*` writers (`I`/`R` scalars, `N=` arrays with 6 integers / 5 reals per line, ragged last line),
`_load_fchk_field` / `_load_fchk_low` transcribed as they are (label cut at column 43, whitespace-split
words, tokens read across lines), and the index shuffles of the object layer: `np.tril_indices` packing,
`_triangle_to_dense`, the quadrupole index vectors, the run-type tables.
Which attribute goes to which label (basis set, orbitals, …) is not modelled here.
Core Lean only.
-/
import Iodata.Model.Fmt.Core
namespace Iodata.Fmt.Fchk
open Iodata.Chars Iodata.Decimal Iodata.Fmt

structure Layout where
  titleW : Nat      -- `"{:72}".format(title)`
  cmdW : Nat        -- `{items[0]:10s}`
  lotW : Nat        -- `{items[1].upper():30s}`
  basW : Nat        -- `{items[2].upper():>33s}`
  labelW : Nat      -- `{name:40}`
  gap : Nat         -- blanks before the type letter
  padS : Nat        -- blanks after the type letter (scalar)
  padA : Nat        -- blanks after the type letter (array, before `N=`)
  intW : Nat        -- `{:12d}`
  sW : Nat          -- real scalar `{: 16.8E}` (Gaussian itself: `E22.15`)
  sD : Nat
  aW : Nat          -- real array element `{: 16.8E}`
  aD : Nat
  perI : Nat        -- integers per line
  perR : Nat        -- reals per line
  cut : Nat         -- reader: `label = line[:43]`, `words = line[43:].split()`
  defaultTitle : Str
  absent : Str      -- `"NA"`
  deriving DecidableEq, Repr

inductive Value where
  | int (i : Int)
  | real (x : Sci)
  | ints (l : List Int)
  | reals (l : List Sci)
  deriving DecidableEq, Repr

abbrev Fld := Str × Value

/-- the run-type tables of writer (`run_types.get(items[0], items[0].upper())`) and reader (`run_types.get(command)`) -/
structure RunTypes where
  writer : List (Str × Str)
  reader : List (Str × Str)
  deriving DecidableEq, Repr

structure Obj where
  title : Str
  runType : Option Str
  lot : Option Str
  basis : Option Str
  fields : List Fld
  deriving DecidableEq, Repr

/-! ### writer -/

def head (L : Layout) (label : Str) (ty : Char) : Str := ljust L.labelW label ++ (spaces L.gap ++ [ty])

def nEq : Str := ['N','=']

/-- blanks after the type letter, then the value -/
def scalarILine (L : Layout) (label : Str) (i : Int) : Str :=
  head L label 'I' ++ (spaces L.padS ++ (fmtInt L.intW i ++ ['\n']))

def scalarRLine (L : Layout) (label : Str) (x : Sci) : Str :=
  head L label 'R' ++ (spaces L.padS ++ (fmtSci true true L.sW L.sD x ++ ['\n']))

def arrayHead (L : Layout) (label : Str) (ty : Char) (n : Nat) : Str :=
  head L label ty ++ (spaces L.padA ++ (nEq ++ (fmtInt L.intW n ++ ['\n'])))

/-- `k += 1; if k == per or i == nval - 1: print("")`: full groups of `per`, the last one possibly shorter -/
def chunkF {α} (k : Nat) : Nat → List α → List (List α)
  | 0, _ => []
  | f + 1, l => if l.length ≤ k then [l] else l.take k :: chunkF k f (l.drop k)

def chunks {α} (k : Nat) (l : List α) : List (List α) := chunkF k l.length l

def dataLine {α} (render : α → Str) (ch : List α) : Str := (ch.map render).flatten ++ ['\n']

def dumpField (L : Layout) : Fld → List Str
  | (label, .int i) => [scalarILine L label i]
  | (label, .real x) => [scalarRLine L label x]
  | (label, .ints l) =>
    if l.isEmpty then [] else arrayHead L label 'I' l.length :: (chunks L.perI l).map (dataLine (fmtInt L.intW))
  | (label, .reals l) =>
    if l.isEmpty then [] else arrayHead L label 'R' l.length :: (chunks L.perR l).map (dataLine (fmtSci true true L.aW L.aD))

def outTitle (L : Layout) (t : Str) : Str := if t.isEmpty then L.defaultTitle else t

/-- `run_types.get(items[0], items[0].upper())` on `getattr(data, "run_type") or "NA"` -/
def commandOf (L : Layout) (R : RunTypes) (rt : Option Str) : Str :=
  let s := match rt with
    | none => L.absent
    | some r => if r.isEmpty then L.absent else r
  (lookupK R.writer s).getD (upper s)

def orNA (L : Layout) (s : Option Str) : Str :=
  match s with
  | none => L.absent
  | some r => if r.isEmpty then L.absent else r

def headerLines (L : Layout) (R : RunTypes) (o : Obj) : List Str :=
  [ljust L.titleW (outTitle L o.title) ++ ['\n'],
   ljust L.cmdW (commandOf L R o.runType) ++ (ljust L.lotW (upper (orNA L o.lot)) ++ (rjust L.basW (upper (orNA L o.basis)) ++ ['\n']))]

def dump (L : Layout) (R : RunTypes) (o : Obj) : List Str := headerLines L R o ++ o.fields.flatMap (dumpField L)

/-! ### reader -/

/-- outcome of one `_load_fchk_field`: a value, `StopIteration` (end of file: the caller stops quietly), or an exception -/
inductive Res (α : Type) where
  | ok (a : α)
  | stop
  | err
  deriving Repr

def Res.consFst {β γ} (v : β) : Res (List β × γ) → Res (List β × γ)
  | .ok (vs, r) => .ok (v :: vs, r)
  | .stop => .stop
  | .err => .err

/-- `while counter < length: if not words: words = next(lit).split(); word = words.pop(0); value[counter] = datatype(word)` -/
def readTok {β} (conv : Str → Option β) : Nat → List Str → List Str → Res (List β × List Str)
  | 0, _, ls => .ok ([], ls)
  | n + 1, w :: ws, ls =>
    match conv w with
    | none => .err
    | some v => (readTok conv n ws ls).consFst v
  | _ + 1, [], [] => .stop
  | n + 1, [], l :: ls =>
    match splitWs l with
    | [] => .err          -- `[].pop(0)`: IndexError
    | w :: ws =>
      match conv w with
      | none => .err
      | some v => (readTok conv n ws ls).consFst v

/-- the reader's quantisation: decimals of scalar and array reals -/
structure Reader where
  cut : Nat
  sD : Nat
  aD : Nat
  deriving DecidableEq, Repr

def Layout.reader (L : Layout) : Reader := ⟨L.cut, L.sD, L.aD⟩

/-- `value[counter] = int(word)` into an `np.zeros(length, int)` array: OverflowError outside int64 -/
def pyInt64 (w : Str) : Option Int := (pyInt w).filter fun i => decide (-9223372036854775808 ≤ i) && decide (i < 9223372036854775808)

def tI : Str := ['I']
def tR : Str := ['R']

/-- `_load_fchk_field` (`keep`: the label matches one of `label_patterns`) -/
def loadField (Rd : Reader) (keep : Str → Bool) : List Str → Res (Fld × List Str)
  | [] => .stop
  | line :: ls =>
    let label := strip (slice 0 Rd.cut line)
    match splitWs (sliceFrom Rd.cut line) with
    | [] => loadField Rd keep ls
    | t :: rest =>
      if !(t == tI || t == tR) then loadField Rd keep ls else
      if !keep label then loadField Rd keep ls else
      match rest with
      | [w] =>
        if t == tI then (match pyInt w with | some i => .ok ((label, .int i), ls) | none => .err)
        else (match pySci Rd.sD w with | some x => .ok ((label, .real x), ls) | none => .err)
      | [w1, w2] =>
        if w1 != nEq then .err else
        match pyInt w2 with
        | none => .err
        | some len =>
          if len < 0 then .err else     -- `np.zeros(negative)`: ValueError
          if t == tI then
            (match readTok pyInt64 len.toNat [] ls with
             | .ok (vs, r) => .ok ((label, .ints vs), r) | .stop => .stop | .err => .err)
          else
            (match readTok (pySci Rd.aD) len.toNat [] ls with
             | .ok (vs, r) => .ok ((label, .reals vs), r) | .stop => .stop | .err => .err)
      | _ => loadField Rd keep ls

/-- `result[label] = value` -/
def dictSet (d : List Fld) (f : Fld) : List Fld :=
  if d.any (fun e => e.1 == f.1) then d.map (fun e => if e.1 == f.1 then f else e) else d ++ [f]

/-- the `while True` of `_load_fchk_low` (fuel: one unit per field, `lines.length + 1` always suffices) -/
def loadFieldsF (Rd : Reader) (keep : Str → Bool) : Nat → List Fld → List Str → R (List Fld)
  | 0, acc, _ => .ok acc
  | f + 1, acc, ls =>
    match loadField Rd keep ls with
    | .stop => .ok acc
    | .err => .error .format
    | .ok (fld, rest) => loadFieldsF Rd keep f (dictSet acc fld) rest

structure Loaded where
  title : Str
  runType : Option Str     -- `run_types.get(fchk["command"])`
  lot : Str                -- `fchk["lot"].lower()`
  basis : Option Str       -- `fchk["obasis_name"].lower()` (absent with a two-word second line)
  fields : List Fld
  deriving DecidableEq, Repr

/-- `_load_fchk_low` followed by the header part of `load_one` -/
def load (Rd : Reader) (R : RunTypes) (keep : Str → Bool) : List Str → Fmt.R Loaded
  | l1 :: l2 :: rest =>
    let hdr : Fmt.R (Str × Str × Option Str) :=
      match splitWs l2 with
      | [c, l, b] => .ok (c, l, some b)
      | [c, l] => .ok (c, l, none)
      | _ => .error .format
    match hdr with
    | .error e => .error e
    | .ok (c, l, b) =>
      match loadFieldsF Rd keep (rest.length + 1) [] rest with
      | .error e => .error e
      | .ok fs => .ok ⟨strip l1, lookupK R.reader c, lower l, b.map lower, fs⟩
  | _ => .error .eof

/-! ### what a round trip returns -/

def nonEmpty : Fld → Bool
  | (_, .ints l) => !l.isEmpty
  | (_, .reals l) => !l.isEmpty
  | _ => true

def norm (L : Layout) (R : RunTypes) (o : Obj) : Loaded :=
  ⟨outTitle L o.title, lookupK R.reader (commandOf L R o.runType), lower (upper (orNA L o.lot)),
   some (lower (upper (orNA L o.basis))), o.fields.filter nonEmpty⟩

def Loaded.obj (x : Loaded) : Obj := ⟨x.title, x.runType, some x.lot, x.basis, x.fields⟩

/-! ### domain -/

/-- non-blank printable ASCII -/
def visChars : List Char :=
  ['!','"','#','$','%','&','\'','(',')','*','+',',','-','.','/','0','1','2','3','4','5','6','7','8','9',':',';','<','=','>','?','@','A','B','C','D','E','F','G','H','I','J','K','L','M','N','O','P','Q','R','S','T','U','V','W','X','Y','Z','[','\\',']','^','_','`','a','b','c','d','e','f','g','h','i','j','k','l','m','n','o','p','q','r','s','t','u','v','w','x','y','z','{','|','}','~']

def isVis (c : Char) : Bool := visChars.contains c

def okWord (w : Nat) (s : Str) : Bool := s.all isVis && decide (s.length < w)

def okLabel (L : Layout) (s : Str) : Bool := decide (Trimmed s) && decide (s.length ≤ L.labelW) && !s.contains '\n'

def okInt (L : Layout) (i : Int) : Bool :=
  decide ((intToDec i).length < L.intW) && decide (-9223372036854775808 ≤ i) && decide (i < 9223372036854775808)

def okSci (w d : Nat) (x : Sci) : Bool := decide (x.man < 10 ^ (d + 1)) && decide ((sciCore true true d x).length < w)

def okValue (L : Layout) : Value → Bool
  | .int _ => true
  | .real x => decide (x.man < 10 ^ (L.sD + 1))
  | .ints l => l.all (okInt L) && decide (l.length < 10 ^ (L.intW - 1))
  | .reals l => l.all (okSci L.aW L.aD) && decide (l.length < 10 ^ (L.intW - 1))

def okTitle (t : Str) : Bool := decide (Trimmed t) && !t.contains '\n'

def optWord (w : Nat) : Option Str → Bool
  | none => true
  | some s => okWord w s

def Dom (L : Layout) (o : Obj) : Prop :=
  okTitle o.title = true ∧ optWord L.cmdW o.runType = true ∧ optWord L.lotW o.lot = true ∧ optWord L.basW o.basis = true ∧
  (∀ f ∈ o.fields, okLabel L f.1 = true ∧ okValue L f.2 = true) ∧ (o.fields.map (·.1)).Nodup

instance (L : Layout) (o : Obj) : Decidable (Dom L o) := by unfold Dom; infer_instance

/-- the reader cuts the label where the writer ends it; the pads separate the words; the fixed words are visible -/
def LayoutOK (L : Layout) : Prop :=
  L.cut = L.labelW + L.gap ∧ 0 < L.padS ∧ 0 < L.padA ∧ 0 < L.perI ∧ 0 < L.perR ∧ 0 < L.sD ∧ 0 < L.aD ∧ 1 < L.intW ∧
  okTitle L.defaultTitle = true ∧ L.defaultTitle ≠ [] ∧ okWord (min L.cmdW (min L.lotW L.basW)) L.absent = true ∧ L.absent ≠ []

instance (L : Layout) : Decidable (LayoutOK L) := by unfold LayoutOK; infer_instance

/-- run-type tables: every command the writer can emit fits its column and is one visible word; `NA` is not a command
the reader knows; every run type the reader returns is written as a command that the reader maps back to it -/
def RunTypesOK (L : Layout) (R : RunTypes) : Prop :=
  (∀ e ∈ R.writer, okWord L.cmdW e.2 = true ∧ e.2 ≠ []) ∧
  lookupK R.reader (commandOf L R none) = none ∧
  (∀ e ∈ R.reader, lookupK R.reader (commandOf L R (some e.2)) = some e.2 ∧ okWord L.cmdW e.2 = true)

instance (L : Layout) (R : RunTypes) : Decidable (RunTypesOK L R) := by unfold RunTypesOK; infer_instance

/-! ### index shuffles of the object layer -/

/-- `arr[np.tril_indices(n)]`: rows of the lower triangle, row-major -/
def tril {α} (m : List (List α)) : List α := m.zipIdx.flatMap fun (row, i) => row.take (i + 1)

def triIdx (i j : Nat) : Nat := (max i j) * (max i j + 1) / 2 + min i j

/-- `_triangle_to_dense`: `result[irow, :irow+1] = result[:irow+1, irow] = triangle[begin:end]` for every row -/
def dense {α} (d : α) (n : Nat) (t : List α) : List (List α) :=
  (List.range n).map fun i => (List.range n).map fun j => t.getD (triIdx i j) d

/-- `nrow = int(np.round((np.sqrt(1 + 8 * len(triangle)) - 1) / 2))` for a triangular number -/
def triRows (len : Nat) : Nat := (Nat.sqrt (1 + 8 * len) - 1) / 2

/-- `a[idx]` (fancy indexing with an index vector) -/
def pick {α} (d : α) (idx : List Nat) (a : List α) : List α := idx.map fun k => a.getD k d

/-- wwPDB-style published layout of Gaussian's own writer: `A40,3X,A1,5X,I12` / `E22.15`, arrays `3X,'N=',I12`, `6I12` / `5E16.8` -/
def specG (L : Layout) : Layout :=
  { L with labelW := 40, gap := 3, padS := 5, padA := 3, intW := 12, sW := 22, sD := 15, aW := 16, aD := 8, perI := 6, perR := 5 }

/-! ### shape of the source the model assumes -/

def expectedWrites (L : Layout) : List Write :=
  let lbl : Field := .str "name".toList L.labelW false
  [ ("_dump_integer_scalars".toList, [lbl, .lit (spaces L.gap ++ ['I'] ++ spaces L.padS), .int "int(val)".toList L.intW, .lit ['\n']]),
    ("_dump_real_scalars".toList, [lbl, .lit (spaces L.gap ++ ['R'] ++ spaces L.padS), .sci "float(val)".toList true true L.sW L.sD, .lit ['\n']]),
    ("_dump_integer_arrays".toList, [lbl, .lit (spaces L.gap ++ ['I'] ++ spaces L.padA ++ nEq), .int "nval".toList L.intW, .lit ['\n']]),
    ("_dump_integer_arrays".toList, [.int "int(val[i])".toList L.intW]),
    ("_dump_integer_arrays".toList, [.lit ['\n']]),
    ("_dump_real_arrays".toList, [lbl, .lit (spaces L.gap ++ ['R'] ++ spaces L.padA ++ nEq), .int "nval".toList L.intW, .lit ['\n']]),
    ("_dump_real_arrays".toList, [.sci "val[i]".toList true true L.aW L.aD]),
    ("_dump_real_arrays".toList, [.lit ['\n']]) ]

end Iodata.Fmt.Fchk
