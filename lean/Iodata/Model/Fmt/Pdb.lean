/-
PDB (`iodata/formats/pdb.py`): `dump_one` (TITLE, ATOM, CONECT, END) and `load_one` with
`_parse_pdb_atom_line` / `_parse_pdb_conect_line`, transcribed as they are (CONECT slices included).
Field widths of the writer and the slices of the reader are parameters (`Layout`); that they describe the
same columns is a side condition (`LayoutOK`) which the generated instance must satisfy.
COMPND records are read (they can become the title) but not written by the model (`extra["compound"]` absent).
-/
import Iodata.Model.Fmt.Core
namespace Iodata.Fmt.Pdb
open Iodata.Chars Iodata.Decimal Iodata.Fmt

structure Layout where
  -- writer widths: `{i+1:>5d} {attype:<4s} {restype:3s} {chain:1s}{resnum:>4d}    {x:8.3f}…{occ:6.2f}{b:6.2f}{n:>12s}`
  serialW : Nat
  nameW : Nat
  resW : Nat
  resnumW : Nat
  gap4 : Nat
  coordW : Nat
  coordD : Nat
  occW : Nat
  occD : Nat
  symW : Nat
  conW : Nat           -- `CONECT{iatom0 + 1:5d}` + `{iatom1 + 1:5d}`…
  -- reader slices (0-based, half-open)
  sSym : Nat × Nat
  sName : Nat × Nat
  sRes : Nat × Nat
  iChain : Nat
  sResnum : Nat × Nat
  sX : Nat × Nat
  sY : Nat × Nat
  sZ : Nat × Nat
  sOcc : Nat × Nat
  sB : Nat × Nat
  titleFrom : Nat      -- `line[10:]`
  cSerial : Nat × Nat  -- `line[7:12]`
  cOthers : List (Nat × Nat)
  defaultTitle : Str
  loadedTitle : Str    -- "PDB file loaded by IOData"
  keyW : Nat           -- `_dump_multiline_str`: `key.ljust(10)`, `str(iline + 2).rjust(10 - len(key)) + " "`
  deriving DecidableEq, Repr

structure Atom where
  zn : Nat
  name : Str
  res : Str
  chain : Char
  resnum : Int
  x : Fx
  y : Fx
  z : Fx
  occ : Fx
  b : Fx
  deriving DecidableEq, Repr

structure Obj where
  title : Str                  -- may have several lines
  atoms : List Atom
  bonds : List (Nat × Nat)     -- zero-based pairs (the bond type is not stored by PDB)
  compound : Option Str        -- `extra["compound"]` (may have several lines)
  deriving DecidableEq, Repr

def recAtom : Str := ['A','T','O','M',' ',' ']
def recTitle : Str := ['T','I','T','L','E',' ',' ',' ',' ',' ']
def recEnd : Str := ['E','N','D','\n']
def kTitle : Str := ['T','I','T','L','E']
def kCompnd : Str := ['C','O','M','P','N','D']
def kAtom : Str := ['A','T','O','M']
def kHetatm : Str := ['H','E','T','A','T','M']
def kConect : Str := ['C','O','N','E','C','T']
def kEnd : Str := ['E','N','D']

/-- the fields of an ATOM record, in order -/
def atomFields (T : Tables) (L : Layout) (serial : Nat) (a : Atom) : List Str :=
  [ recAtom, rjust L.serialW (natToDec serial), [' '], ljust L.nameW a.name, [' '], ljust L.resW a.res, [' '],
    [a.chain], rjust L.resnumW (intToDec a.resnum), spaces L.gap4,
    fmtFix false L.coordW L.coordD a.x, fmtFix false L.coordW L.coordD a.y, fmtFix false L.coordW L.coordD a.z,
    fmtFix false L.occW L.occD a.occ, fmtFix false L.occW L.occD a.b, rjust L.symW (T.sym a.zn), ['\n'] ]

def dumpAtom (T : Tables) (L : Layout) (serial : Nat) (a : Atom) : Str := (atomFields T L serial a).flatten

def dumpAtomsFrom (T : Tables) (L : Layout) : Nat → List Atom → List Str
  | _, [] => []
  | k, a :: as => dumpAtom T L (k + 1) a :: dumpAtomsFrom T L (k + 1) as

/-- `connections[iatom0].append(iatom1); connections[iatom1].append(iatom0)` -/
def partner (a : Nat) (p : Nat × Nat) : List Nat := (if p.1 = a then [p.2] else []) ++ (if p.2 = a then [p.1] else [])

def connections (natom : Nat) (bonds : List (Nat × Nat)) : List (List Nat) :=
  (List.range natom).map fun a => bonds.flatMap (partner a)

def chunk4 : Nat → List Nat → List (List Nat)
  | 0, _ => []
  | f + 1, l => if l.length < 4 then [l] else l.take 4 :: chunk4 f (l.drop 4)

/-- `for ichunk in range(len(iatoms1) // 4 + 1)`: groups of four, plus a final (possibly empty) group -/
def chunks (l : List Nat) : List (List Nat) := chunk4 (l.length + 1) l

def conectLine (L : Layout) (a : Nat) (others : List Nat) : Str :=
  kConect ++ (rjust L.conW (natToDec (a + 1)) ++ ((others.map fun b => rjust L.conW (natToDec (b + 1))).flatten ++ ['\n']))

def dumpConect (L : Layout) (natom : Nat) (bonds : List (Nat × Nat)) : List Str :=
  ((connections natom bonds).zipIdx.flatMap fun (cs, a) =>
    if cs.isEmpty then [] else (chunks cs).map (conectLine L a))

def outTitle (L : Layout) (t : Str) : Str := if t.isEmpty then L.defaultTitle else t

/-- `value.split("\n")` -/
def splitNl : Str → List Str
  | [] => [[]]
  | c :: cs =>
    if c == '\n' then [] :: splitNl cs else
    match splitNl cs with
    | [] => [[c]]
    | l :: ls => (c :: l) :: ls

/-- `key + str(iline + 2).rjust(10 - len(key)) + " "`: the prefix of a continuation record -/
def contPrefix (L : Layout) (key : Str) (n : Nat) : Str := key ++ (rjust (L.keyW - key.length) (natToDec n) ++ [' '])

def multiFrom (L : Layout) (key : Str) : Nat → List Str → List Str
  | _, [] => []
  | k, l :: ls => (contPrefix L key (k + 1) ++ (l ++ ['\n'])) :: multiFrom L key (k + 1) ls

/-- `_dump_multiline_str`: the first record carries the key padded to ten columns, record `n ≥ 2` the number `n`
right-justified in the columns up to ten and one blank -/
def multiLines (L : Layout) (key : Str) (value : Str) : List Str :=
  match splitNl value with
  | [] => []
  | l :: ls => (ljust L.keyW key ++ (l ++ ['\n'])) :: multiFrom L key 1 ls

/-- `dump_one` (bonds `None` or empty: no CONECT records) -/
def dump (T : Tables) (L : Layout) (o : Obj) : List Str :=
  multiLines L kTitle (outTitle L o.title) ++ ((match o.compound with | none => [] | some c => multiLines L kCompnd c) ++
    (dumpAtomsFrom T L 0 o.atoms ++ (dumpConect L o.atoms.length o.bonds ++ [recEnd])))

def dumpE (T : Tables) (L : Layout) (o : Obj) : Except Unit (List Str) :=
  if o.atoms.all (fun a => (T.sym? a.zn).isSome) && o.bonds.all (fun b => b.1 < o.atoms.length && b.2 < o.atoms.length)
  then .ok (dump T L o) else .error ()

def sl (p : Nat × Nat) (s : Str) : Str := slice p.1 p.2 s

/-- `_parse_pdb_atom_line` -/
def parseAtom (T : Tables) (L : Layout) (line : Str) : R Atom :=
  let symbol := strip (sl L.sSym line)
  let name := strip (sl L.sName line)
  -- element: `sym2num.get(symbol.title())` from columns 77-78, else guessed from the atom name; unknown → 0
  let zn : R Nat :=
    if !symbol.isEmpty then .ok ((T.num? (title symbol)).getD 0)
    else .ok (((T.num? name).or ((T.num? (title (name.take 2))).or (T.num? (name.take 1)))).getD 0)
  match zn with
  | .error e => .error e
  | .ok zn =>
    if symbol.isEmpty && name.isEmpty then .error .index else     -- `atname[0]`
    match line[L.iChain]? with
    | none => .error .index
    | some chain =>
      match pyInt (sl L.sResnum line), pyFix L.coordD (sl L.sX line), pyFix L.coordD (sl L.sY line),
            pyFix L.coordD (sl L.sZ line), pyFix L.occD (sl L.sOcc line), pyFix L.occD (sl L.sB line) with
      | some rn, some x, some y, some z, some occ, some b =>
        .ok ⟨zn, name, strip (sl L.sRes line), chain, rn, x, y, z, occ, b⟩
      | _, _, _, _, _, _ => .error .float

/-- one pass of `for ipos in 11, 16, 21, 26` of `_parse_pdb_conect_line` (`acc`: what the later positions gave) -/
def conectField (a : Int) (line : Str) (p : Nat × Nat) (acc : R (List (Nat × Nat))) : R (List (Nat × Nat)) :=
  match acc with
  | .error e => .error e
  | .ok rest =>
    let t := strip (sl p line)
    if t.isEmpty then .ok rest else
    match pyInt t with
    | none => .error .int
    | some s1 => if a < s1 - 1 then (if 0 ≤ a then .ok ((a.toNat, (s1 - 1).toNat) :: rest) else .error .format) else .ok rest

/-- `_parse_pdb_conect_line`: zero-based pairs with `iatom1 > iatom0` -/
def parseConect (L : Layout) (line : Str) : R (List (Nat × Nat)) :=
  match pyInt (sl L.cSerial line) with
  | none => .error .int
  | some s0 => L.cOthers.foldr (conectField (s0 - 1) line) (.ok [])

structure St where
  titles : List Str
  compnds : List Str
  atoms : List Atom
  bonds : List (Nat × Nat)
  deriving DecidableEq, Repr

/-- one pass of the `while True` body; `true` = `break` -/
def step (T : Tables) (L : Layout) (st : St) (line : Str) : R (St × Bool) :=
  let st1 : St := if startsWith kTitle line then { st with titles := st.titles ++ [strip (sliceFrom L.titleFrom line)] } else st
  let st2 : St := if startsWith kCompnd line then { st1 with compnds := st1.compnds ++ [strip (sliceFrom L.titleFrom line)] } else st1
  let r3 : R St :=
    if startsWith kAtom line || startsWith kHetatm line then
      match parseAtom T L line with
      | .error e => .error e
      | .ok a => .ok { st2 with atoms := st2.atoms ++ [a] }
    else .ok st2
  match r3 with
  | .error e => .error e
  | .ok st3 =>
    let r4 : R St :=
      if startsWith kConect line then
        match parseConect L line with
        | .error e => .error e
        | .ok bs => .ok { st3 with bonds := st3.bonds ++ bs }
      else .ok st3
    match r4 with
    | .error e => .error e
    | .ok st4 => .ok (st4, startsWith kEnd line && !st4.atoms.isEmpty)

def loop (T : Tables) (L : Layout) : St → List Str → R St
  | st, [] => .ok st
  | st, l :: ls =>
    match step T L st l with
    | .error e => .error e
    | .ok (st', true) => .ok st'
    | .ok (st', false) => loop T L st' ls

/-- what `load_one` returns (`compound` stays in `extra` only when a TITLE exists as well) -/
structure Loaded where
  title : Str
  compound : Option Str
  atoms : List Atom
  chainids : Bool          -- `extra["chainids"]` present (some chain id is not a blank)
  bonds : List (Nat × Nat)
  deriving DecidableEq, Repr

def joinNl (ls : List Str) : Str := List.intercalate ['\n'] ls

def load (T : Tables) (L : Layout) (lines : List Str) : R Loaded :=
  match loop T L ⟨[], [], [], []⟩ lines with
  | .error e => .error e
  | .ok st =>
    if st.atoms.isEmpty then .error .format else
    let hasChain := !st.atoms.all (fun a => a.chain == ' ')
    if st.titles.isEmpty then
      (if st.compnds.isEmpty then .ok ⟨L.loadedTitle, none, st.atoms, hasChain, st.bonds⟩
       else .ok ⟨joinNl st.compnds, none, st.atoms, hasChain, st.bonds⟩)
    else .ok ⟨joinNl st.titles, if st.compnds.isEmpty then none else some (joinNl st.compnds), st.atoms, hasChain, st.bonds⟩

/-- semantic content of a CONECT round trip: for each atom in order, its partners with a larger index -/
def normBonds (natom : Nat) (bonds : List (Nat × Nat)) : List (Nat × Nat) :=
  (connections natom bonds).zipIdx.flatMap fun (cs, a) => (cs.filter (a < ·)).map fun b => (a, b)

def norm (L : Layout) (o : Obj) : Loaded :=
  ⟨outTitle L o.title, o.compound, o.atoms, !o.atoms.all (fun a => a.chain == ' '), normBonds o.atoms.length o.bonds⟩

/-- every line is free of outer blanks (the reader strips them) and the continuation numbers fit `w` columns -/
def okLines (w : Nat) (s : Str) : Bool := (splitNl s).all (fun l => decide (Trimmed l)) && decide ((splitNl s).length < 10 ^ w)

def okTitle (L : Layout) (t : Str) : Bool := okLines (L.keyW - kTitle.length) t

def okCompound (L : Layout) : Option Str → Bool
  | none => true
  | some c => okLines (L.keyW - kCompnd.length) c

def fitsFx (w d : Nat) (v : Fx) : Bool := decide ((fixCore false d v).length ≤ w)

/-- element usable in the two element columns: blank-free, one or two characters, `sym2num.get(sym.title())` maps it back -/
def okZ (T : Tables) (z : Nat) : Bool :=
  match T.sym? z with
  | none => false
  | some s => decide (NoWs s) && !s.isEmpty && decide (s.length ≤ 2) && (T.num? (title s) == some z)

def okField (w : Nat) (s : Str) : Bool := decide (Trimmed s) && decide (s.length ≤ w) && !s.contains '\n'

/-- an atom whose every field fits its columns -/
def AtomOK (T : Tables) (L : Layout) (a : Atom) : Prop :=
  okZ T a.zn = true ∧ okField L.nameW a.name = true ∧ okField L.resW a.res = true ∧ a.chain ≠ '\n' ∧
  (intToDec a.resnum).length ≤ L.resnumW ∧
  fitsFx L.coordW L.coordD a.x = true ∧ fitsFx L.coordW L.coordD a.y = true ∧ fitsFx L.coordW L.coordD a.z = true ∧
  fitsFx L.occW L.occD a.occ = true ∧ fitsFx L.occW L.occD a.b = true

instance (T : Tables) (L : Layout) (a : Atom) : Decidable (AtomOK T L a) := by unfold AtomOK; infer_instance

/-- writer columns = reader slices -/
def LayoutOK (L : Layout) : Prop :=
  okTitle L L.defaultTitle = true ∧ L.defaultTitle ≠ [] ∧ 2 ≤ L.symW ∧ L.titleFrom = 10 ∧
  L.sName = (7 + L.serialW, 7 + L.serialW + L.nameW) ∧
  L.sRes = (8 + L.serialW + L.nameW, 8 + L.serialW + L.nameW + L.resW) ∧
  L.iChain = 9 + L.serialW + L.nameW + L.resW ∧
  L.sResnum = (L.iChain + 1, L.iChain + 1 + L.resnumW) ∧
  L.sX = (L.iChain + 1 + L.resnumW + L.gap4, L.iChain + 1 + L.resnumW + L.gap4 + L.coordW) ∧
  L.sY = (L.sX.2, L.sX.2 + L.coordW) ∧ L.sZ = (L.sY.2, L.sY.2 + L.coordW) ∧
  L.sOcc = (L.sZ.2, L.sZ.2 + L.occW) ∧ L.sB = (L.sOcc.2, L.sOcc.2 + L.occW) ∧
  L.sSym = (L.sB.2 + L.symW - 2, L.sB.2 + L.symW)

instance (L : Layout) : Decidable (LayoutOK L) := by unfold LayoutOK; infer_instance

/-- `n` consecutive columns of width `w` starting at `p` -/
def colsFrom (p w : Nat) : Nat → List (Nat × Nat)
  | 0 => []
  | n + 1 => (p, p + w) :: colsFrom (p + w) w n

/-- the CONECT reader cuts the columns the CONECT writer fills: `CONECT`, the serial, four partners -/
def ConectOK (L : Layout) : Prop :=
  L.cSerial = (6, 6 + L.conW) ∧ L.cOthers = colsFrom (6 + L.conW) L.conW 4 ∧ L.keyW = L.titleFrom

instance (L : Layout) : Decidable (ConectOK L) := by unfold ConectOK; infer_instance

/-- domain of the model: title and compound of any number of lines, every atom fits its columns, any list of bonds between
existing atoms whose serials fit the CONECT columns -/
def DomB (T : Tables) (L : Layout) (o : Obj) : Prop :=
  okTitle L o.title = true ∧ okCompound L o.compound = true ∧ o.atoms ≠ [] ∧ o.atoms.length < 10 ^ L.serialW ∧ 0 < L.serialW ∧
  (∀ a ∈ o.atoms, AtomOK T L a) ∧ o.atoms.length < 10 ^ L.conW ∧ 0 < L.conW ∧
  (∀ b ∈ o.bonds, b.1 < o.atoms.length ∧ b.2 < o.atoms.length)

instance (T : Tables) (L : Layout) (o : Obj) : Decidable (DomB T L o) := by unfold DomB; infer_instance

end Iodata.Fmt.Pdb

namespace Iodata.Fmt.Pdb
open Iodata.Chars Iodata.Decimal Iodata.Fmt

/-! ### shape of the source the model assumes (compared with `Gen.Layouts.pdb_writes` / `pdb_slices`) -/

def expectedAtomWrite (L : Layout) : Write :=
  ("dump_one".toList,
   [.lit recAtom, .int "i + 1".toList L.serialW, .lit [' '], .str "attype".toList L.nameW false, .lit [' '],
    .str "restype".toList L.resW false, .lit [' '], .str "chain".toList 1 false, .int "resnum".toList L.resnumW,
    .lit (spaces L.gap4), .fix ['x'] false L.coordW L.coordD, .fix ['y'] false L.coordW L.coordD,
    .fix ['z'] false L.coordW L.coordD, .fix "occ".toList false L.occW L.occD, .fix ['b'] false L.occW L.occD,
    .str ['n'] L.symW true, .lit ['\n']])

def expectedConectWrite (L : Layout) : Write :=
  ("dump_one".toList,
   [.lit kConect, .int "iatom0 + 1".toList L.conW,
    .other "<join '' for iatom1 in iatoms1[ichunk * 4:ichunk * 4 + 4]>".toList, .int "iatom1 + 1".toList L.conW,
    .other "</join>".toList, .lit ['\n']])

def expectedSlices (L : Layout) : List Slice :=
  let f := "_parse_pdb_atom_line".toList
  let g := "_parse_pdb_conect_line".toList
  let h := "load_one".toList
  [ ⟨f, "symbol".toList, L.sSym.1, some L.sSym.2, false⟩, ⟨f, "atname".toList, L.sName.1, some L.sName.2, false⟩,
    ⟨f, "atname".toList, L.sName.1, some L.sName.2, false⟩, ⟨f, "resname".toList, L.sRes.1, some L.sRes.2, false⟩,
    ⟨f, "chainid".toList, L.iChain, some (L.iChain + 1), true⟩, ⟨f, "resnum".toList, L.sResnum.1, some L.sResnum.2, false⟩,
    ⟨f, "atcoord".toList, L.sX.1, some L.sX.2, false⟩, ⟨f, "atcoord".toList, L.sY.1, some L.sY.2, false⟩,
    ⟨f, "atcoord".toList, L.sZ.1, some L.sZ.2, false⟩, ⟨f, "occupancy".toList, L.sOcc.1, some L.sOcc.2, false⟩,
    ⟨f, "bfactor".toList, L.sB.1, some L.sB.2, false⟩, ⟨g, "iatom0".toList, L.cSerial.1, some L.cSerial.2, false⟩ ]
  ++ L.cOthers.map (fun p => ⟨g, "serial_str".toList, p.1, some p.2, false⟩)
  ++ [ ⟨h, "<expr>".toList, L.titleFrom, none, false⟩, ⟨h, "<expr>".toList, L.titleFrom, none, false⟩ ]

/-- the reader's ATOM columns: name, residue, chain, resSeq, x, y, z, occupancy, tempFactor, element -/
def readerColumns (L : Layout) : List (Nat × Nat) :=
  [L.sName, L.sRes, (L.iChain, L.iChain + 1), L.sResnum, L.sX, L.sY, L.sZ, L.sOcc, L.sB, L.sSym]

/-- wwPDB format v3.3, ATOM/HETATM record (columns 13-16, 18-20, 22, 23-26, 31-38, 39-46, 47-54, 55-60, 61-66, 77-78) -/
def specAtomColumns : List (Nat × Nat) :=
  [(12, 16), (17, 20), (21, 22), (22, 26), (30, 38), (38, 46), (46, 54), (54, 60), (60, 66), (76, 78)]

/-- wwPDB format v3.3, CONECT record: serial 7-11, bonded atoms 12-16, 17-21, 22-26, 27-31 -/
def specConectColumns : List (Nat × Nat) := [(6, 11), (11, 16), (16, 21), (21, 26), (26, 31)]

def conectColumns (L : Layout) : List (Nat × Nat) := L.cSerial :: L.cOthers

/-- the columns the CONECT *writer* fills: `CONECT` then five `conW`-wide fields -/
def conectWriterColumns (L : Layout) : List (Nat × Nat) :=
  (List.range 5).map fun k => (6 + k * L.conW, 6 + (k + 1) * L.conW)

end Iodata.Fmt.Pdb
