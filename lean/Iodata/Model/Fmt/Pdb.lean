/-
PDB (`iodata/formats/pdb.py`): `dump_one` (TITLE, ATOM, CONECT, END) and `load_one` with
`_parse_pdb_atom_line` / `_parse_pdb_conect_line`, transcribed as they are (CONECT slices included).
Field widths of the writer and the slices of the reader are parameters (`Layout`); that they describe the
same columns is a side condition (`LayoutOK`) which the generated instance must satisfy.
COMPND records are read (they can become the title) but not written by the model (`extra["compound"]` absent).
-/
import Iodata.Model.Fmt.Core
namespace Iodata.Fmt.Pdb
open Iodata.Chars Iodata.Decimal Iodata.Fmt

structure Layout where
  -- writer widths: `{i+1:>5d} {attype:<4s} {restype:3s} {chain:1s}{resnum:>4d}    {x:8.3f}…{occ:6.2f}{b:6.2f}{n:>12s}`
  serialW : Nat
  nameW : Nat
  resW : Nat
  resnumW : Nat
  gap4 : Nat
  coordW : Nat
  coordD : Nat
  occW : Nat
  occD : Nat
  symW : Nat
  conW : Nat           -- `CONECT{iatom0 + 1:5d}` + `{iatom1 + 1:5d}`…
  -- reader slices (0-based, half-open)
  sSym : Nat × Nat
  sName : Nat × Nat
  sRes : Nat × Nat
  iChain : Nat
  sResnum : Nat × Nat
  sX : Nat × Nat
  sY : Nat × Nat
  sZ : Nat × Nat
  sOcc : Nat × Nat
  sB : Nat × Nat
  titleFrom : Nat      -- `line[10:]`
  cSerial : Nat × Nat  -- `line[7:12]`
  cOthers : List (Nat × Nat)
  defaultTitle : Str
  loadedTitle : Str    -- "PDB file loaded by IOData"
  deriving DecidableEq, Repr

structure Atom where
  zn : Nat
  name : Str
  res : Str
  chain : Char
  resnum : Int
  x : Fx
  y : Fx
  z : Fx
  occ : Fx
  b : Fx
  deriving DecidableEq, Repr

structure Obj where
  title : Str
  atoms : List Atom
  bonds : List (Nat × Nat)     -- zero-based pairs (the bond type is not stored by PDB)
  deriving DecidableEq, Repr

def recAtom : Str := "ATOM  ".toList

/-- the fields of an ATOM record, in order -/
def atomFields (T : Tables) (L : Layout) (serial : Nat) (a : Atom) : List Str :=
  [ recAtom, rjust L.serialW (natToDec serial), [' '], ljust L.nameW a.name, [' '], ljust L.resW a.res, [' '],
    [a.chain], rjust L.resnumW (intToDec a.resnum), spaces L.gap4,
    fmtFix false L.coordW L.coordD a.x, fmtFix false L.coordW L.coordD a.y, fmtFix false L.coordW L.coordD a.z,
    fmtFix false L.occW L.occD a.occ, fmtFix false L.occW L.occD a.b, rjust L.symW (T.sym a.zn), ['\n'] ]

def dumpAtom (T : Tables) (L : Layout) (serial : Nat) (a : Atom) : Str := (atomFields T L serial a).flatten

def dumpAtomsFrom (T : Tables) (L : Layout) : Nat → List Atom → List Str
  | _, [] => []
  | k, a :: as => dumpAtom T L (k + 1) a :: dumpAtomsFrom T L (k + 1) as

/-- `connections[iatom0].append(iatom1); connections[iatom1].append(iatom0)` -/
def connections (natom : Nat) (bonds : List (Nat × Nat)) : List (List Nat) :=
  (List.range natom).map fun a => bonds.flatMap fun (i, j) => (if i = a then [j] else []) ++ (if j = a then [i] else [])

def chunk4 : Nat → List Nat → List (List Nat)
  | 0, _ => []
  | f + 1, l => if l.length < 4 then [l] else l.take 4 :: chunk4 f (l.drop 4)

/-- `for ichunk in range(len(iatoms1) // 4 + 1)`: groups of four, plus a final (possibly empty) group -/
def chunks (l : List Nat) : List (List Nat) := chunk4 (l.length + 1) l

def conectLine (L : Layout) (a : Nat) (others : List Nat) : Str :=
  "CONECT".toList ++ (rjust L.conW (natToDec (a + 1)) ++ ((others.map fun b => rjust L.conW (natToDec (b + 1))).flatten ++ ['\n']))

def dumpConect (L : Layout) (natom : Nat) (bonds : List (Nat × Nat)) : List Str :=
  ((connections natom bonds).zipIdx.flatMap fun (cs, a) =>
    if cs.isEmpty then [] else (chunks cs).map (conectLine L a))

def outTitle (L : Layout) (t : Str) : Str := if t.isEmpty then L.defaultTitle else t

/-- `dump_one` (bonds `None` or empty: no CONECT records) -/
def dump (T : Tables) (L : Layout) (o : Obj) : List Str :=
  ("TITLE     ".toList ++ (outTitle L o.title ++ ['\n'])) :: (dumpAtomsFrom T L 0 o.atoms
    ++ (dumpConect L o.atoms.length o.bonds ++ [ln "END".toList]))

def dumpE (T : Tables) (L : Layout) (o : Obj) : Except Unit (List Str) :=
  if o.atoms.all (fun a => (T.sym? a.zn).isSome) && o.bonds.all (fun b => b.1 < o.atoms.length && b.2 < o.atoms.length)
  then .ok (dump T L o) else .error ()

def sl (p : Nat × Nat) (s : Str) : Str := slice p.1 p.2 s

/-- `_parse_pdb_atom_line` -/
def parseAtom (T : Tables) (L : Layout) (line : Str) : R Atom :=
  let symbol := strip (sl L.sSym line)
  let name := strip (sl L.sName line)
  -- element: from columns 77-78, else guessed from the atom name; `None` with a symbol present raises
  -- (the warning text refers to the unassigned `atname`), `None` without one gives 0
  let zn : R Nat :=
    if !symbol.isEmpty then optE .sym (T.num? symbol)
    else .ok (((T.num? name).or ((T.num? (title (name.take 2))).or (T.num? (name.take 1)))).getD 0)
  match zn with
  | .error e => .error e
  | .ok zn =>
    if symbol.isEmpty && name.isEmpty then .error .index else     -- `atname[0]`
    match line[L.iChain]? with
    | none => .error .index
    | some chain =>
      match pyInt (sl L.sResnum line), pyFix L.coordD (sl L.sX line), pyFix L.coordD (sl L.sY line),
            pyFix L.coordD (sl L.sZ line), pyFix L.occD (sl L.sOcc line), pyFix L.occD (sl L.sB line) with
      | some rn, some x, some y, some z, some occ, some b =>
        .ok ⟨zn, name, strip (sl L.sRes line), chain, rn, x, y, z, occ, b⟩
      | _, _, _, _, _, _ => .error .float

/-- `_parse_pdb_conect_line`: zero-based pairs with `iatom1 > iatom0` -/
def parseConect (L : Layout) (line : Str) : R (List (Nat × Nat)) :=
  match pyInt (sl L.cSerial line) with
  | none => .error .int
  | some s0 =>
    let a : Int := s0 - 1
    L.cOthers.foldr (fun p acc =>
      match acc with
      | .error e => .error e
      | .ok rest =>
        let t := strip (sl p line)
        if t.isEmpty then .ok rest else
        match pyInt t with
        | none => .error .int
        | some s1 => if a < s1 - 1 then (if 0 ≤ a then .ok ((a.toNat, (s1 - 1).toNat) :: rest) else .error .format) else .ok rest)
      (.ok [])

structure St where
  titles : List Str
  compnds : List Str
  atoms : List Atom
  bonds : List (Nat × Nat)
  deriving DecidableEq, Repr

/-- one pass of the `while True` body; `true` = `break` -/
def step (T : Tables) (L : Layout) (st : St) (line : Str) : R (St × Bool) :=
  let st1 : St := if startsWith "TITLE".toList line then { st with titles := st.titles ++ [strip (sliceFrom L.titleFrom line)] } else st
  let st2 : St := if startsWith "COMPND".toList line then { st1 with compnds := st1.compnds ++ [strip (sliceFrom L.titleFrom line)] } else st1
  let r3 : R St :=
    if startsWith "ATOM".toList line || startsWith "HETATM".toList line then
      match parseAtom T L line with
      | .error e => .error e
      | .ok a => .ok { st2 with atoms := st2.atoms ++ [a] }
    else .ok st2
  match r3 with
  | .error e => .error e
  | .ok st3 =>
    let r4 : R St :=
      if startsWith "CONECT".toList line then
        match parseConect L line with
        | .error e => .error e
        | .ok bs => .ok { st3 with bonds := st3.bonds ++ bs }
      else .ok st3
    match r4 with
    | .error e => .error e
    | .ok st4 => .ok (st4, startsWith "END".toList line && !st4.atoms.isEmpty)

def loop (T : Tables) (L : Layout) : St → List Str → R St
  | st, [] => .ok st
  | st, l :: ls =>
    match step T L st l with
    | .error e => .error e
    | .ok (st', true) => .ok st'
    | .ok (st', false) => loop T L st' ls

/-- what `load_one` returns (`compound` stays in `extra` only when a TITLE exists as well) -/
structure Loaded where
  title : Str
  compound : Option Str
  atoms : List Atom
  chainids : Bool          -- `extra["chainids"]` present (some chain id is not a blank)
  bonds : List (Nat × Nat)
  deriving DecidableEq, Repr

def joinNl (ls : List Str) : Str := List.intercalate ['\n'] ls

def load (T : Tables) (L : Layout) (lines : List Str) : R Loaded :=
  match loop T L ⟨[], [], [], []⟩ lines with
  | .error e => .error e
  | .ok st =>
    if st.atoms.isEmpty then .error .format else
    let hasChain := !st.atoms.all (fun a => a.chain == ' ')
    if st.titles.isEmpty then
      (if st.compnds.isEmpty then .ok ⟨L.loadedTitle, none, st.atoms, hasChain, st.bonds⟩
       else .ok ⟨joinNl st.compnds, none, st.atoms, hasChain, st.bonds⟩)
    else .ok ⟨joinNl st.titles, if st.compnds.isEmpty then none else some (joinNl st.compnds), st.atoms, hasChain, st.bonds⟩

/-- semantic content of a CONECT round trip: for each atom in order, its partners with a larger index -/
def normBonds (natom : Nat) (bonds : List (Nat × Nat)) : List (Nat × Nat) :=
  (connections natom bonds).zipIdx.flatMap fun (cs, a) => (cs.filter (a < ·)).map fun b => (a, b)

def norm (L : Layout) (o : Obj) : Loaded :=
  ⟨outTitle L o.title, none, o.atoms, !o.atoms.all (fun a => a.chain == ' '), normBonds o.atoms.length o.bonds⟩

end Iodata.Fmt.Pdb
