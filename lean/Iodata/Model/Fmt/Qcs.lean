/-
QCSchema JSON (`iodata/formats/json_qcschema.py`), MOLECULE CORE at the level of the JSON dictionary: which attribute of an
`IOData` object is stored under which key (`_dump_qcschema_molecule`) and which key is read into which attribute
(`_parse_topology_keys`), with the value conversions `num2sym` / `sym2num[s.title()]`, `spinpol + 1` / `mult − 1`,
`real = (atcorenums != 0)` / ghost atoms, the defaults of the reader, the pass-through of `extra["molecule"]`, the unparsed
keys, and the provenance trail (which grows by one entry per save: the documented exception of C15).

The text of the file (`json.dump` / `json.load`, `repr` of floats) is not modelled: a file is the ordered list of its
top-level keys with values; a number is its exact value (`n/d`, with the int/float kind); values the code passes through
unchanged are opaque texts (`raw`).  The key names of both directions are DATA (`Keys`), regenerated from the source.
Core Lean only.
-/
import Iodata.Model.Fmt.Core
namespace Iodata.Fmt.Qcs
open Iodata.Chars Iodata.Decimal Iodata.Fmt

/-- an exact JSON number: integer or float kind, value `n/d` -/
structure Q where
  isInt : Bool
  n : Int
  d : Nat
  deriving DecidableEq, Repr

inductive V where
  | num (x : Q)
  | str (s : Str)
  | nums (l : List Q)
  | strs (l : List Str)
  | bools (l : List Bool)
  | triples (l : List (Int × Int × Int))
  | raw (enc : Str)              -- any other value, as its canonical text
  | raws (l : List Str)          -- a list of such values
  deriving DecidableEq, Repr

abbrev File := List (Str × V)

def fget (f : File) (k : Str) : Option V := lookupK f k

/-- the provenance record of an object: absent, one dictionary, or a list of dictionaries -/
inductive Prov where
  | none
  | one (r : Str)
  | many (l : List Str)
  deriving DecidableEq, Repr

structure Mol where
  atnums : List Nat
  atcoords : List Q
  charge : Option Q
  spinpol : Option Q
  title : Option Str
  atcorenums : List Q
  atmasses : Option (List Q)
  bonds : Option (List (Int × Int × Int))
  grot : Option Q
  extra : List (Str × Str)         -- `extra["molecule"][k]` for the passed-through sub-keys, in the writer's order
  prov : Prov
  unparsed : List (Str × Str)      -- `extra["molecule"]["unparsed"]`
  deriving DecidableEq, Repr

/-- the JSON keys used by the writer and by the reader for the core attributes, and the pass-through table
`(sub-key of extra["molecule"], JSON key)` of each direction (T1: read from the source) -/
structure Keys where
  symbols : Str
  geometry : Str
  charge : Str
  mult : Str
  name : Str
  real : Str
  masses : Str
  connectivity : Str
  fixSymmetry : Str
  provenance : Str
  pass : List (Str × Str)
  deriving DecidableEq, Repr

def kSchemaName : Str := "schema_name".toList
def kSchemaVersion : Str := "schema_version".toList
def vMolecule : Str := "qcschema_molecule".toList
/-- the entry `_dump_provenance` appends (the version string is part of the harness encoding) -/
def newProv : Str := "IOData:dump_one".toList

def isZero (x : Q) : Bool := x.n == 0
def succQ (x : Q) : Q := ⟨x.isInt, x.n + x.d, x.d⟩
def predQ (x : Q) : Q := ⟨x.isInt, x.n - x.d, x.d⟩
def natQ (z : Nat) : Q := ⟨true, z, 1⟩
def floatQ (z : Nat) : Q := ⟨false, z, 1⟩

/-! ### writer: `_dump_qcschema_molecule` -/

def provOut : Prov → V
  | .none => .raw newProv
  | .one r => .raws [r, newProv]
  | .many l => .raws (l ++ [newProv])

/-- every key the writer can set, with the value it sets (`none`: the `if` guarding the assignment is false) -/
def coreEntries (T : Tables) (K : Keys) (m : Mol) : List (Str × Option V) :=
  [(kSchemaName, some (.str vMolecule)), (kSchemaVersion, some (.num ⟨false, 2, 1⟩)),
   (K.symbols, some (.strs (m.atnums.map T.sym))), (K.geometry, some (.nums m.atcoords)),
   (K.charge, m.charge.map .num), (K.mult, m.spinpol.map fun s => .num (succQ s)),
   (K.name, (m.title.filter fun t => !t.isEmpty).map .str),
   (K.real, some (.bools (m.atcorenums.map fun q => !isZero q))),
   (K.masses, m.atmasses.map .nums), (K.connectivity, m.bonds.map .triples),
   (K.fixSymmetry, (m.grot.filter fun g => !isZero g).map .num),
   (K.provenance, some (provOut m.prov))] ++
  K.pass.map (fun p => (p.2, (lookupK m.extra p.1).map V.raw))

def entriesAll (T : Tables) (K : Keys) (m : Mol) : List (Str × Option V) :=
  coreEntries T K m ++ m.unparsed.map (fun p => (p.1, some (V.raw p.2)))

/-- the dictionary written (the order of the keys carries no meaning in JSON; the correspondence compares sorted keys) -/
def dump (T : Tables) (K : Keys) (m : Mol) : File := (entriesAll T K m).filterMap fun e => e.2.map fun v => (e.1, v)

/-! ### reader: `_parse_topology_keys` -/

structure Loaded where
  atnums : List Nat
  atcoords : List Q
  charge : Q
  spinpol : Q
  nelec : Q
  title : Option Str
  atcorenums : List Q
  atmasses : Option (List Q)
  bonds : Option (List (Int × Int × Int))
  grot : Option Q
  schemaVersion : Option V
  extra : List (Str × Str)
  prov : Prov
  unparsed : List (Str × Str)
  deriving DecidableEq, Repr

def optAll {α β} (f : α → Option β) : List α → Option (List β)
  | [] => some []
  | a :: as =>
    match f a, optAll f as with
    | some b, some bs => some (b :: bs)
    | _, _ => none

def addQ (a b : Q) : Q := ⟨a.isInt && b.isInt, a.n * b.d + b.n * a.d, a.d * b.d⟩
def negQ (a : Q) : Q := ⟨a.isInt, -a.n, a.d⟩
def sumQ (l : List Q) : Q := l.foldl addQ ⟨false, 0, 1⟩

/-- `atcorenums = atnums.astype(float); atcorenums[~real] = 0.0` -/
def maskCore : List Nat → Option (List Bool) → List Q
  | zs, none => zs.map floatQ
  | zs, some rs => (zs.zip rs).map fun p => if p.2 then floatQ p.1 else ⟨false, 0, 1⟩

def rawOf : V → Option Str
  | .raw r => some r
  | _ => none

def passIn (tab : List (Str × Str)) (f : File) : List (Str × Str) :=
  tab.filterMap fun p => (fget f p.2).bind fun v => (rawOf v).map fun r => (p.1, r)

/-- `_find_passthrough_dict`: the keys of the file that are not molecule keys -/
def unparsedIn (known : List Str) (f : File) : List (Str × Str) :=
  f.filterMap fun e => if known.contains e.1 then none else (rawOf e.2).map fun r => (e.1, r)

def chargeOf : Option V → R Q
  | none => .ok ⟨false, 0, 1⟩            -- `formal_charge = 0.0`
  | some (.num q) => .ok q
  | some _ => .error .format

def spinOf : Option V → R Q
  | none => .ok ⟨true, 0, 1⟩             -- `spinpol = 0`
  | some (.num q) => .ok (predQ q)       -- `mult - 1`
  | some _ => .error .format

def realOf : Option V → R (Option (List Bool))
  | none => .ok none
  | some (.bools l) => .ok (some l)
  | some _ => .error .format

def provOf : Option V → R Prov
  | none => .ok .none
  | some (.raw r) => .ok (.one r)
  | some (.raws l) => .ok (.many l)
  | some _ => .error .format

def strO : Option V → Option Str
  | some (.str t) => some t
  | _ => none
def numsO : Option V → Option (List Q)
  | some (.nums l) => some l
  | _ => none
/-- `np.array(mol["connectivity"], dtype=int)`: an empty list gives an array of shape `(0,)`, which `IOData` refuses as
`bonds` unless the reader reshapes it to `(-1, 3)` (`reshapes`: read from the source) -/
def bondsOf (reshapes : Bool) : Option V → R (Option (List (Int × Int × Int)))
  | some (.triples l) => if l.isEmpty && !reshapes then .error .format else .ok (some l)
  | _ => .ok none
def numO : Option V → Option Q
  | some (.num g) => some g
  | _ => none

def load (T : Tables) (K : Keys) (known : List Str) (reshapes : Bool) (f : File) : R Loaded :=
  match fget f K.symbols, fget f K.geometry with
  | some (.strs syms), some (.nums geo) =>
    match optAll (fun s => T.num? (title s)) syms with
    | none => .error .sym
    | some zs =>
      match chargeOf (fget f K.charge), spinOf (fget f K.mult), realOf (fget f K.real), provOf (fget f K.provenance),
          bondsOf reshapes (fget f K.connectivity) with
      | .ok c, .ok s, .ok r, .ok p, .ok b =>
        .ok ⟨zs, geo, c, s, addQ (sumQ (maskCore zs r)) (negQ c), strO (fget f K.name), maskCore zs r,
          numsO (fget f K.masses), b, numO (fget f K.fixSymmetry),
          fget f kSchemaVersion, passIn K.pass f, p, unparsedIn known f⟩
      | _, _, _, _, _ => .error .format
  | _, _ => .error .format

/-! ### what a round trip returns -/

def provGrow : Prov → Prov
  | .none => .one newProv
  | .one r => .many [r, newProv]
  | .many l => .many (l ++ [newProv])

/-- defaults filled in (`charge` 0.0, `spinpol` 0), an empty title and a zero symmetry number dropped, the core charges
reduced to "atomic number or ghost", the electron count derived, the provenance trail one entry longer -/
def norm (tab : List (Str × Str)) (m : Mol) : Loaded :=
  let core := maskCore m.atnums (some (m.atcorenums.map fun q => !isZero q))
  let c := m.charge.getD ⟨false, 0, 1⟩
  ⟨m.atnums, m.atcoords, c, (m.spinpol.map fun s => predQ (succQ s)).getD ⟨true, 0, 1⟩, addQ (sumQ core) (negQ c),
   m.title.filter (fun t => !t.isEmpty), core, m.atmasses, m.bonds, m.grot.filter (fun g => !isZero g),
   some (.num ⟨false, 2, 1⟩), tab.filterMap (fun p => (lookupK m.extra p.1).map fun r => (p.1, r)), provGrow m.prov, m.unparsed⟩

def Loaded.mol (x : Loaded) : Mol :=
  ⟨x.atnums, x.atcoords, some x.charge, some x.spinpol, x.title, x.atcorenums, x.atmasses, x.bonds, x.grot, x.extra, x.prov, x.unparsed⟩

/-- everything but the provenance trail -/
def Loaded.dropProv (x : Loaded) : Loaded := { x with prov := .none }

/-! ### domain and table conditions -/

/-- element whose symbol `sym2num[symbol.title()]` maps back -/
def okZ (T : Tables) (z : Nat) : Bool :=
  match T.sym? z with
  | none => false
  | some s => T.num? (title s) == some z

def allKeys (K : Keys) : List Str :=
  [kSchemaName, kSchemaVersion, K.symbols, K.geometry, K.charge, K.mult, K.name, K.real, K.masses, K.connectivity, K.fixSymmetry,
   K.provenance] ++ K.pass.map (·.2)

/-- writer and reader tables fit: the same key for every core attribute, the same pass-through pairs, all keys distinct,
every key known to `_find_passthrough_dict`, pass-through sub-keys distinct -/
def KeysOK (W R : Keys) (known : List Str) : Prop :=
  W = R ∧ (allKeys W).Nodup ∧ (∀ k ∈ allKeys W, known.contains k = true) ∧ (W.pass.map (·.1)).Nodup

instance (W R : Keys) (known : List Str) : Decidable (KeysOK W R known) := by unfold KeysOK; infer_instance

def Dom (T : Tables) (K : Keys) (known : List Str) (reshapes : Bool) (m : Mol) : Prop :=
  (reshapes = false → m.bonds ≠ some []) ∧ (∀ z ∈ m.atnums, okZ T z = true) ∧ m.atcorenums.length = m.atnums.length ∧
  (∀ e ∈ m.extra, e.1 ∈ K.pass.map (·.1)) ∧ (m.extra.map (·.1)).Nodup ∧
  (∀ e ∈ m.unparsed, known.contains e.1 = false) ∧ (m.unparsed.map (·.1)).Nodup

instance (T : Tables) (K : Keys) (known : List Str) (b : Bool) (m : Mol) : Decidable (Dom T K known b m) := by unfold Dom; infer_instance

/-- the value conversions of the two directions as they stand in the source (T1) -/
def expectedExprs : List (Str × Str) :=
  [("w:symbols".toList, "[num2sym[num] for num in data.atnums]".toList),
   ("w:geometry".toList, "list(data.atcoords.flatten())".toList),
   ("w:charge".toList, "data.charge".toList),
   ("w:mult".toList, "data.spinpol + 1".toList),
   ("w:name".toList, "data.title".toList),
   ("w:real".toList, "[bool(atcorenum != 0) for atcorenum in data.atcorenums]".toList),
   ("w:masses".toList, "data.atmasses.tolist()".toList),
   ("w:connectivity".toList, "[[int(i) for i in bond] for bond in data.bonds]".toList),
   ("w:fixSymmetry".toList, "data.g_rot".toList),
   ("w:provenance".toList, "_dump_provenance(f, data, 'molecule')".toList),
   ("r:symbols".toList, "np.array([sym2num[symbol.title()] for symbol in mol['symbols']])".toList),
   ("r:geometry".toList, "np.array(mol['geometry']).reshape(-1, 3)".toList),
   ("r:mult".toList, "mult - 1".toList),
   ("r:real".toList, "atcorenums[~np.array(mol['real'])] = 0.0".toList),
   ("r:nelec".toList, "np.sum(atcorenums) - formal_charge".toList),
   ("r:provenance".toList, "_parse_provenance(mol['provenance'], lit, 'qcschema_molecule', False)".toList)]

/-- the reader's expression for the bonds, without and with the reshape -/
def bondsExprs : List Str := ["np.array(mol['connectivity'], dtype=int)".toList, "np.array(mol['connectivity'], dtype=int).reshape(-1, 3)".toList]

end Iodata.Fmt.Qcs
