/-
XYZ (`iodata/formats/xyz.py`): `dump_one` / `load_one` with `atom_columns`.
The atom columns are the element column followed by any list of fixed-point columns
(`cols`: width, decimals, negate?) — the default is three `{:15.10f}` coordinates in angstrom, the
documented user columns (`"{:10.5f}"` charges, negated `"{:15.10f}"` forces) are of this shape.
-/
import Iodata.Model.Fmt.Core
namespace Iodata.Fmt.Xyz
open Iodata.Chars Iodata.Decimal Iodata.Fmt

structure Col where
  w : Nat
  d : Nat
  negate : Bool
  deriving DecidableEq, Repr

structure Layout where
  symW : Nat            -- `{num2sym[atnum]:2s}`
  cols : List Col
  defaultTitle : Str    -- `data.title or "Created with IOData"`
  deriving DecidableEq, Repr

structure Atom where
  z : Nat
  vals : List Fx
  deriving DecidableEq, Repr

structure Obj where
  title : Str
  atoms : List Atom
  deriving DecidableEq, Repr

def flip (b : Bool) (x : Fx) : Fx := if b then ⟨!x.neg, x.mag⟩ else x

def valWords : List Col → List Fx → List Str
  | c :: cs, v :: vs => fmtFix false c.w c.d (flip c.negate v) :: valWords cs vs
  | _, _ => []

/-- one atom line: `" ".join(words)` -/
def dumpAtom (T : Tables) (L : Layout) (a : Atom) : Str :=
  ln (joinSp (ljust L.symW (T.sym a.z) :: valWords L.cols a.vals))

def outTitle (L : Layout) (t : Str) : Str := if t.isEmpty then L.defaultTitle else t

/-- `dump_one` (lines with their `'\n'`) -/
def dump (T : Tables) (L : Layout) (o : Obj) : List Str :=
  ln (natToDec o.atoms.length) :: ln (outTitle L o.title) :: o.atoms.map (dumpAtom T L)

/-- the writer raises (KeyError → DumpError) exactly when an element is not in `num2sym`
or an atom has fewer values than columns -/
def dumpE (T : Tables) (L : Layout) (o : Obj) : Except Unit (List Str) :=
  if o.atoms.all (fun a => (T.sym? a.z).isSome && decide (a.vals.length = L.cols.length)) then .ok (dump T L o) else .error ()

/-- `int(word) if word.isdigit() else sym2num[word.title()]` -/
def loadZ (T : Tables) (w : Str) : R Nat :=
  if isDigitStr w then optE .int (decToNat? w) else optE .sym (T.num? (title w))

/-- `loadword(words.pop(0))` for each remaining column -/
def loadVals : List Col → List Str → R (List Fx)
  | [], _ => .ok []
  | _ :: _, [] => .error .index
  | c :: cs, w :: ws =>
    match pyFix c.d w with
    | none => .error .float
    | some v =>
      match loadVals cs ws with
      | .error e => .error e
      | .ok vs => .ok (flip c.negate v :: vs)

def loadAtom (T : Tables) (L : Layout) (line : Str) : R Atom :=
  match splitWs line with
  | [] => .error .index
  | w :: ws =>
    match loadZ T w with
    | .error e => .error e
    | .ok z =>
      match loadVals L.cols ws with
      | .error e => .error e
      | .ok vs => .ok ⟨z, vs⟩

/-- `load_one` -/
def load (T : Tables) (L : Layout) : List Str → R Obj
  | l0 :: l1 :: rest =>
    match pyInt l0 with
    | some (.ofNat n) =>
      match readN (loadAtom T L) n rest with
      | .error e => .error e
      | .ok (atoms, _) => .ok ⟨strip l1, atoms⟩
    | _ => .error .int
  | _ => .error .eof

/-- what a reload returns for `o`: the default title replaces an empty one -/
def norm (L : Layout) (o : Obj) : Obj := ⟨outTitle L o.title, o.atoms⟩

/-- element usable in a whitespace-separated symbol column: in the table, a blank-free non-numeric
symbol that `sym2num[sym.title()]` maps back -/
def okZ (T : Tables) (z : Nat) : Bool :=
  match T.sym? z with
  | none => false
  | some s => decide (NoWs s) && !s.isEmpty && !isDigitStr s && (T.num? (title s) == some z)

def okTitle (t : Str) : Bool := decide (Trimmed t) && !t.contains '\n'

/-- documented domain: single-line title without surrounding blanks, known elements, one value per column -/
def Dom (T : Tables) (L : Layout) (o : Obj) : Prop :=
  okTitle o.title = true ∧ ∀ a ∈ o.atoms, okZ T a.z = true ∧ a.vals.length = L.cols.length

instance (T : Tables) (L : Layout) (o : Obj) : Decidable (Dom T L o) := by unfold Dom; infer_instance

/-- side condition on the layout: the default title is itself a good title -/
def LayoutOK (L : Layout) : Prop := okTitle L.defaultTitle = true ∧ L.defaultTitle ≠ []
instance (L : Layout) : Decidable (LayoutOK L) := by unfold LayoutOK; infer_instance

end Iodata.Fmt.Xyz

namespace Iodata.Fmt.Xyz
open Iodata.Chars Iodata.Decimal Iodata.Fmt

/-! ### shape of the writer the model assumes (compared with `Gen.Layouts.xyz_writes` by `decide`) -/

def expectedWrites (L : Layout) : List Write :=
  match L.cols with
  | [] => []
  | c :: _ =>
    [ ("<module>.<lambda>".toList, [.str "num2sym[atnum]".toList L.symW false]),
      ("<module>.<lambda>".toList, [.fix "value / angstrom".toList false c.w c.d]),
      ("dump_one".toList, [.str "data.natom".toList 0 false, .lit ['\n']]),
      ("dump_one".toList, [.str ("data.title or '".toList ++ L.defaultTitle ++ ['\'']) 0 false, .lit ['\n']]),
      ("dump_one".toList, [.str "' '.join(words)".toList 0 false, .lit ['\n']]) ]

/-! ### the published layout: free format.  `natom`, a comment line, then one line per atom with the
element (symbol in any case, or atomic number) and the Cartesian coordinates in angstrom, separated by
blanks.  `specRender` writes *any* such file: the blank runs are part of the input. -/

structure SpecAtom where
  z : Nat
  variant : Nat        -- 0 symbol as tabulated, 1 upper case, 2 lower case, 3 atomic number
  lead : Str           -- blanks before the element
  vals : List (Str × Fx)   -- blanks before each number (non-empty), the number
  trail : Str          -- blanks after the last number
  deriving DecidableEq, Repr

structure SpecObj where
  natomLead : Str
  natomTrail : Str
  titleLead : Str
  title : Str
  titleTrail : Str
  atoms : List SpecAtom
  deriving DecidableEq, Repr

def elTok (T : Tables) (z variant : Nat) : Str :=
  match variant with
  | 0 => T.sym z
  | 1 => upper (T.sym z)
  | 2 => lower (T.sym z)
  | _ => natToDec z

def specVals : List Col → List (Str × Fx) → Str
  | c :: cs, (p, v) :: vs => p ++ (fixCore false c.d v ++ specVals cs vs)
  | _, _ => []

def specAtom (T : Tables) (L : Layout) (a : SpecAtom) : Str :=
  a.lead ++ (elTok T a.z a.variant ++ (specVals L.cols a.vals ++ (a.trail ++ ['\n'])))

def specRender (T : Tables) (L : Layout) (m : SpecObj) : List Str :=
  (m.natomLead ++ (natToDec m.atoms.length ++ (m.natomTrail ++ ['\n'])))
    :: (m.titleLead ++ (m.title ++ (m.titleTrail ++ ['\n'])))
    :: m.atoms.map (specAtom T L)

/-- the object a spec file denotes -/
def SpecObj.obj (m : SpecObj) : Obj := ⟨m.title, m.atoms.map fun a => ⟨a.z, a.vals.map (·.2)⟩⟩

/-- element token is one blank-free word that the reader maps to `z` -/
def okEl (T : Tables) (z variant : Nat) : Bool :=
  decide (NoWs (elTok T z variant)) && !(elTok T z variant).isEmpty && (match loadZ T (elTok T z variant) with | .ok z' => z' == z | .error _ => false)

def noNl (s : Str) : Bool := !s.contains '\n'

def SpecAtomOK (T : Tables) (L : Layout) (a : SpecAtom) : Prop :=
  okEl T a.z a.variant = true ∧ AllWs a.lead ∧ AllWs a.trail ∧ a.vals.length = L.cols.length ∧
  (∀ c ∈ L.cols, c.negate = false) ∧ ∀ pv ∈ a.vals, AllWs pv.1 ∧ pv.1 ≠ []

instance (T : Tables) (L : Layout) (a : SpecAtom) : Decidable (SpecAtomOK T L a) := by
  unfold SpecAtomOK; infer_instance

def SpecOK (T : Tables) (L : Layout) (m : SpecObj) : Prop :=
  AllWs m.natomLead ∧ AllWs m.natomTrail ∧ AllWs m.titleLead ∧ AllWs m.titleTrail ∧ Trimmed m.title ∧
  ∀ a ∈ m.atoms, SpecAtomOK T L a

instance (T : Tables) (L : Layout) (m : SpecObj) : Decidable (SpecOK T L m) := by
  unfold SpecOK; infer_instance

end Iodata.Fmt.Xyz
