/-
VASP POSCAR (`iodata/formats/poscar.py`, `_load_vasp_header` of `chgcar.py`), TEXT layer on top of the structure layer
`Model/Fmt/Poscar.lean`: title line, the scaling line, three cell lines `{: 21.16f} {: 21.16f} {: 21.16f}`, the element line
(`{sym:5s}` joined by blanks), the count line (`{n:5d}`), `Selective dynamics`, `Direct`, one line of direct coordinates per
atom in the grouped order, and the reader transcribed (strip, `float`, `split()`, `sym2num[w]`, `zip`, `[n] * c`, the
`line[0].lower()` switches, `split()[:3]`).

Objects are quantised *as printed*: the cell entries are the 16-decimal numbers of the cell lines (angstrom) and every atom
carries its 16-decimal DIRECT coordinates.  The floating-point maps between an `IOData` object and these numbers
(`rvec / angstrom`, `inv(cell)ᵀ·r` on the way out; `· angstrom · scaling`, `frac · cell` on the way in) are outside this
layer: their exact counterpart is `Poscar.toFrac` / `Poscar.toCart` of the structure layer.
Core Lean only.
-/
import Iodata.Model.Fmt.Core
import Iodata.Model.Fmt.Poscar
namespace Iodata.Fmt.PoscarW
open Iodata.Chars Iodata.Decimal Iodata.Fmt Iodata.Fmt.Poscar

structure Layout where
  w : Nat            -- `{: 21.16f}`
  d : Nat
  symW : Nat         -- `{num2sym[uatnum]:5s}`
  cntW : Nat         -- `{count:5d}`
  scaleLine : Str    -- `"   1.00000000000000"`
  scaleD : Nat       -- decimals of that literal
  sel : Str          -- `"Selective dynamics"`
  direct : Str       -- `"Direct"`
  lead : Str         -- two blanks before the coordinates
  tail : Str         -- `"   F   F   F"`
  defaultTitle : Str
  deriving DecidableEq, Repr

structure V3 where
  a : Fx
  b : Fx
  c : Fx
  deriving DecidableEq, Repr

structure Atom where
  zn : Nat
  pos : V3           -- direct coordinates as printed
  deriving DecidableEq, Repr

structure Obj where
  title : Str
  cell : List V3     -- three rows, angstrom, as printed
  atoms : List Atom
  deriving DecidableEq, Repr

/-! ### writer -/

def num (L : Layout) (x : Fx) : Str := fmtFix true L.w L.d x

def vec3 (L : Layout) (v : V3) : Str := num L v.a ++ (' ' :: (num L v.b ++ (' ' :: num L v.c)))

def cellLine (L : Layout) (v : V3) : Str := vec3 L v ++ ['\n']

def atomLine (L : Layout) (a : Atom) : Str := L.lead ++ (vec3 L a.pos ++ (L.tail ++ ['\n']))

def elemLine (T : Tables) (L : Layout) (cs : List (Nat × Nat)) : Str :=
  joinSp (cs.map fun p => ljust L.symW (T.sym p.1)) ++ ['\n']

def countLine (L : Layout) (cs : List (Nat × Nat)) : Str :=
  joinSp (cs.map fun p => fmtInt L.cntW (p.2 : Int)) ++ ['\n']

def outTitle (L : Layout) (t : Str) : Str := if t.isEmpty then L.defaultTitle else t

def dump (T : Tables) (L : Layout) (o : Obj) : List Str :=
  [outTitle L o.title ++ ['\n'], L.scaleLine ++ ['\n']] ++ (o.cell.map (cellLine L) ++
  ([elemLine T L (counts (·.zn) o.atoms), countLine L (counts (·.zn) o.atoms), L.sel ++ ['\n'], L.direct ++ ['\n']] ++
   (group (·.zn) o.atoms).map (atomLine L)))

/-! ### reader (`_load_vasp_header`) -/

structure Loaded where
  title : Str
  scale : Fx               -- `float(next(lit).strip())`
  cell : List V3           -- the numbers of the three cell lines
  cartesian : Bool
  atoms : List Atom        -- element from the element/count lines, numbers of the coordinate lines
  deriving DecidableEq, Repr

def optAll {α β} (f : α → Option β) : List α → Option (List β)
  | [] => some []
  | a :: as =>
    match f a, optAll f as with
    | some b, some bs => some (b :: bs)
    | _, _ => none

/-- `[float(w) for w in words]` expected to be three numbers -/
def readVec (d : Nat) (ws : List Str) : R V3 :=
  match optAll (pyFix d) ws with
  | some [a, b, c] => .ok ⟨a, b, c⟩
  | some _ => .error .format
  | none => .error .float

/-- `[float(w) for w in line.split()[:3]]` -/
def readPos (d : Nat) (line : Str) : R V3 := readVec d ((splitWs line).take 3)

def isS (c : Char) : Bool := lowerC c == 's'
def isCK (c : Char) : Bool := lowerC c == 'c' || lowerC c == 'k'

def mkAtoms : List Nat → List V3 → List Atom
  | z :: zs, v :: vs => ⟨z, v⟩ :: mkAtoms zs vs
  | _, _ => []

/-- the part after the count line: the optional `Selective dynamics` line, the `Direct`/`Cartesian` switch, the coordinates -/
def loadTail (L : Layout) (title : Str) (scale : Fx) (cell : List V3) (atnums : List Nat) : List Str → R Loaded
  | [] => .error .eof
  | l7 :: rest =>
    let sw : R (Str × List Str) :=
      match l7 with
      | [] => .error .index
      | c :: _ =>
        if isS c then
          match rest with
          | [] => .error .eof
          | l8 :: rest' => .ok (l8, rest')
        else .ok (l7, rest)
    match sw with
    | .error e => .error e
    | .ok (line, rest') =>
      match line with
      | [] => .error .index
      | c :: _ =>
        match readN (readPos L.d) atnums.length rest' with
        | .error e => .error e
        | .ok (vs, _) => .ok ⟨title, scale, cell, isCK c, mkAtoms atnums vs⟩

def load (T : Tables) (L : Layout) : List Str → R Loaded
  | l1 :: l2 :: c0 :: c1 :: c2 :: le :: lc :: rest =>
    match pyFix L.scaleD l2 with
    | none => .error .float
    | some scale =>
      match readVec L.d (splitWs c0), readVec L.d (splitWs c1), readVec L.d (splitWs c2) with
      | .ok r0, .ok r1, .ok r2 =>
        match optAll T.num? (splitWs le), optAll pyInt (splitWs lc) with
        | some zs, some cs =>
          loadTail L (strip l1) scale [r0, r1, r2] (expand ((zs.zip cs).map fun p => (p.1, p.2.toNat))) rest
        | _, _ => .error .sym
      | _, _, _ => .error .float
  | _ => .error .eof

/-! ### what a round trip returns -/

def scaleVal (L : Layout) : Fx := (pyFix L.scaleD (L.scaleLine ++ ['\n'])).getD ⟨false, 0⟩

/-- default title; atoms grouped by element (heaviest first, file order kept inside a group) — the documented re-ordering -/
def norm (L : Layout) (o : Obj) : Loaded :=
  ⟨outTitle L o.title, scaleVal L, o.cell, false, group (·.zn) o.atoms⟩

def Loaded.obj (x : Loaded) : Obj := ⟨x.title, x.cell, x.atoms⟩

/-! ### domain -/

/-- element usable in the element line: in the table, a blank-free non-empty symbol that `sym2num` maps back -/
def okZ (T : Tables) (z : Nat) : Bool :=
  match T.sym? z with
  | none => false
  | some s => decide (NoWs s) && !s.isEmpty && (T.num? s == some z)

def okTitle (t : Str) : Bool := decide (Trimmed t) && !t.contains '\n'

def Dom (T : Tables) (o : Obj) : Prop :=
  okTitle o.title = true ∧ o.cell.length = 3 ∧ ∀ a ∈ o.atoms, okZ T a.zn = true

instance (T : Tables) (o : Obj) : Decidable (Dom T o) := by unfold Dom; infer_instance

def headIs (p : Char → Bool) (s : Str) : Bool :=
  match s with
  | [] => false
  | c :: _ => p c

/-- side conditions on the literals: the scaling line is a number, `Selective dynamics` starts with `s`/`S`, `Direct` with
none of `s c k`, blanks before the coordinates, the flags after them start with a blank -/
def LayoutOK (L : Layout) : Prop :=
  (pyFix L.scaleD (L.scaleLine ++ ['\n'])).isSome = true ∧ headIs isS L.sel = true ∧
  headIs (fun c => !isS c && !isCK c) L.direct = true ∧ AllWs L.lead ∧ brkB (L.tail ++ ['\n']) = true ∧
  okTitle L.defaultTitle = true ∧ L.defaultTitle ≠ []

instance (L : Layout) : Decidable (LayoutOK L) := by unfold LayoutOK; infer_instance

/-! ### shape of the source the model assumes -/

def expectedWrites (L : Layout) : List Write :=
  let d := "dump_one".toList
  let f (n : String) : Field := .fix n.toList true L.w L.d
  let j : Field := .other "<join ' ' for uatnum in uatnums>".toList
  [ (d, [.str ("data.title or '" ++ String.ofList L.defaultTitle ++ "'").toList 0 false, .lit ['\n']]),
    (d, [.lit L.scaleLine, .lit ['\n']]),
    (d, [f "r[0]", .lit [' '], f "r[1]", .lit [' '], f "r[2]", .lit ['\n']]),
    (d, [j, .str "num2sym[uatnum]".toList L.symW false, .other "</join>".toList, .lit ['\n']]),
    (d, [j, .int "(data.atnums == uatnum).sum()".toList L.cntW, .other "</join>".toList, .lit ['\n']]),
    (d, [.lit L.sel, .lit ['\n']]),
    (d, [.lit L.direct, .lit ['\n']]),
    (d, [.lit L.lead, f "row[0]", .lit [' '], f "row[1]", .lit [' '], f "row[2]", .lit L.tail, .lit ['\n']]) ]

/-- facts about `dump_one` / `_load_vasp_header` read from the source with `ast` (T1) -/
structure Source where
  cellExpr : Str            -- `r = rvec / angstrom`
  order : Str               -- `uatnums = …`
  gvecs : Str               -- `gvecs = …`
  rowExpr : Str             -- `row = …`
  indexes : Str             -- `indexes = …`
  selLetters : List Str     -- `line[0].lower() in [...]`
  cartLetters : List Str
  take : Str                -- `line.split()[:3]`
  cellIn : Str              -- `cellvecs *= …`
  directIn : Str            -- `atcoords = np.dot(…)`
  deriving DecidableEq, Repr

def expectedSource : Source :=
  { cellExpr := "rvec / angstrom".toList,
    order := "sorted(np.unique(data.atnums))[::-1]".toList,
    gvecs := "np.linalg.inv(data.cellvecs).T".toList,
    rowExpr := "np.dot(gvecs, data.atcoords[index])".toList,
    indexes := "(data.atnums == uatnum).nonzero()[0]".toList,
    selLetters := [['s']], cartLetters := [['c'], ['k']],
    take := "line.split()[:3]".toList,
    cellIn := "angstrom * scaling".toList,
    directIn := "np.dot(np.array(atcoords), cellvecs)".toList }

end Iodata.Fmt.PoscarW
