/-
FCIDUMP (`iodata/formats/fcidump.py`), FULL file: the namelist header (` &FCI NORB=…,NELEC=…,MS2=…,`, `ORBSYM`, `ISYM`,
` &END`), the data lines `{value:23.16e} {i:4d} {j:4d} {k:4d} {l:4d}` (two-electron lines in the order of the canonical
loop of the index layer `Model/Fmt/Fcidump.lean`, one-electron lines of the lower triangle, the core-energy line) and
`load_one` transcribed: `line[5:].split(",")`, `word.count("=") == 1`, `key.strip()`, the skip loop up to `&END`, the
classification of a data line by `words[3] != "0"` / `words[1] != "0"`, the 8-fold fill.

Objects are quantised: a real is the `Sci` triple of its `.16e` text (17 significant digits); `nelec` / `spinpol` are
carried as an exact fraction `num/den` of the double so that `int(round(x))` is modelled exactly (round-half-even).
Core Lean only.
-/
import Iodata.Model.Fmt.Core
import Iodata.Model.Fmt.Fcidump
namespace Iodata.Fmt.FcidumpW
open Iodata.Chars Iodata.Decimal Iodata.Fmt Iodata.Helpers Iodata.Fmt.Fcidump

structure Layout where
  vW : Nat      -- `{value:23.16e}`
  vD : Nat
  iW : Nat      -- `{i0 + 1:4d}`
  deriving DecidableEq, Repr

/-! ### fixed text of writer and reader (compared with the source by `Props/C02W`) -/

def hdrStart : Str := [' ','&','F','C','I',' ','N','O','R','B','=']
def hdrNelec : Str := [',','N','E','L','E','C','=']
def hdrMs2 : Str := [',','M','S','2','=']
def orbsymHead : Str := [' ',' ','O','R','B','S','Y','M','=',' ']
def isymLine : Str := [' ',' ','I','S','Y','M','=','1']
def endLine : Str := [' ','&','E','N','D']
def hdrCut : Nat := 5
def kNorb : Str := ['N','O','R','B']
def kNelec : Str := ['N','E','L','E','C']
def kMs2 : Str := ['M','S','2']
def endMarks : List Str := [['&','E','N','D'], ['/','E','N','D'], ['/']]
def w0 : Str := ['0']

/-- a zero of the array the reader starts from (`np.zeros`) -/
def zero : Sci := ⟨false, 0, 0⟩

/-- `value != 0.0` is false for `0.0` and `-0.0`: such elements are not written and come back as `0.0` -/
def cz (v : Sci) : Sci := if v.man = 0 then zero else v

/-- Python's `round(x)` for `x = num/den` (`den > 0`): nearest integer, ties to even -/
def pyRound (num : Int) (den : Nat) : Int :=
  let q := num / (den : Int)
  let r := num % (den : Int)
  if 2 * r < den then q else if (den : Int) < 2 * r then q + 1 else if q % 2 = 0 then q else q + 1

/-- `int(round(x or 0))` -/
def roundOpt : Option (Int × Nat) → Int
  | none => 0
  | some (a, b) => pyRound a b

structure Obj where
  n : Nat                          -- `one_mo.shape[0]`
  one : Nat → Nat → Sci            -- `one_ints["core_mo"]`
  two : Idx → Sci                  -- `two_ints["two_mo"]`, physicists' notation
  core : Option Sci                -- `core_energy`
  nelec : Option (Int × Nat)       -- the double as an exact fraction
  spinpol : Option (Int × Nat)

structure Loaded where
  n : Nat
  nelec : Int
  spinpol : Int
  one : Nat → Nat → Sci
  two : Idx → Sci
  core : Sci

/-! ### writer -/

def headerLine (n : Nat) (ne ms : Int) : Str :=
  hdrStart ++ (natToDec n ++ (hdrNelec ++ (intToDec ne ++ (hdrMs2 ++ (intToDec ms ++ [',', '\n'])))))

/-- `','.join('1' for v in range(nactive))` -/
def ones (n : Nat) : Str := List.intercalate [','] (List.replicate n ['1'])

def orbsymLine (n : Nat) : Str := orbsymHead ++ (ones n ++ [',', '\n'])

def idx (L : Layout) (i : Nat) : Str := ' ' :: fmtInt L.iW i

def dataLine (L : Layout) (v : Sci) (a b c d : Nat) : Str :=
  fmtSci false false L.vW L.vD v ++ (idx L a ++ (idx L b ++ (idx L c ++ (idx L d ++ ['\n']))))

/-- the one-electron loop: lower triangle, zero values skipped -/
def oneEntries (n : Nat) (M : Nat → Nat → Sci) : List (Sci × Nat × Nat) :=
  (List.range n).flatMap fun i0 => (List.range (i0 + 1)).filterMap fun i1 =>
    if (M i0 i1).man ≠ 0 then some (M i0 i1, i0, i1) else none

def twoLines (L : Layout) (n : Nat) (T : Idx → Sci) : List Str :=
  (entries zero n (fun p => cz (T p))).map fun e => dataLine L e.v (e.i0 + 1) (e.i1 + 1) (e.i2 + 1) (e.i3 + 1)

def oneLines (L : Layout) (n : Nat) (M : Nat → Nat → Sci) : List Str :=
  (oneEntries n M).map fun e => dataLine L e.1 (e.2.1 + 1) (e.2.2 + 1) 0 0

def coreLines (L : Layout) : Option Sci → List Str
  | none => []
  | some c => [dataLine L c 0 0 0 0]

def dump (L : Layout) (o : Obj) : List Str :=
  [headerLine o.n (roundOpt o.nelec) (roundOpt o.spinpol), orbsymLine o.n, isymLine ++ ['\n'], endLine ++ ['\n']] ++
  (twoLines L o.n o.two ++ (oneLines L o.n o.one ++ coreLines L o.core))

/-! ### reader -/

/-- `s.split(c)` with a one-character separator -/
def splitOnGo (c : Char) : Str → Str → List Str
  | cur, [] => [cur]
  | cur, x :: xs => if x == c then cur :: splitOnGo c [] xs else splitOnGo c (cur ++ [x]) xs

def splitOn (c : Char) (s : Str) : List Str := splitOnGo c [] s

/-- `s.count(c)` -/
def countC (c : Char) (s : Str) : Nat := (s.filter (· == c)).length

/-- `if word.count("=") == 1: key, value = word.split("="); info[key.strip()] = value.strip()` -/
def headerWord (w : Str) : Option (Str × Str) :=
  if countC '=' w = 1 then
    match splitOn '=' w with
    | [k, v] => some (strip k, strip v)
    | _ => none
  else none

/-- `for word in line[5:].split(","): …` -/
def headerInfo (line : Str) : List (Str × Str) := (splitOn ',' (sliceFrom hdrCut line)).filterMap headerWord

/-- `info[key]` of a dict filled in list order (a later assignment wins) -/
def dictGet (d : List (Str × Str)) (k : Str) : Option Str := (d.reverse.find? fun e => e.1 == k).map (·.2)

/-- `for line in lit: words = line.split(); if words[0] in ("&END", "/END", "/"): break` -/
def skipHeader : List Str → R (List Str)
  | [] => .ok []
  | l :: ls =>
    match splitWs l with
    | [] => .error .index
    | w :: _ => if endMarks.contains w then .ok ls else skipHeader ls

inductive Rec where
  | two (v : Sci) (i j k l : Int)     -- zero-based `ii ij ik il`
  | one (v : Sci) (i j : Int)
  | core (v : Sci)

def parseLine (d : Nat) (line : Str) : R Rec :=
  match splitWs line with
  | [a, b, c, e, f] =>
    match pySci d a with
    | none => .error .float
    | some v =>
      if e != w0 then
        match pyInt b, pyInt c, pyInt e, pyInt f with
        | some i, some j, some k, some l => .ok (.two v (i - 1) (j - 1) (k - 1) (l - 1))
        | _, _, _, _ => .error .int
      else if b != w0 then
        match pyInt b, pyInt c with
        | some i, some j => .ok (.one v (i - 1) (j - 1))
        | _, _ => .error .int
      else .ok (.core v)
  | _ => .error .format

structure St where
  one : Nat → Nat → Sci
  two : Idx → Sci
  core : Sci

/-- `one_mo[ii, ij] = value; one_mo[ij, ii] = value` -/
def set2 (M : Nat → Nat → Sci) (i j : Nat) (v : Sci) : Nat → Nat → Sci :=
  fun a b => if (a = j ∧ b = i) ∨ (a = i ∧ b = j) then v else M a b

/-- an index the arrays accept without wrapping around (negative indices are outside the model) -/
def inR (n : Nat) (i : Int) : Bool := decide (0 ≤ i) && decide (i < n)

def applyRec (n : Nat) (s : St) : Rec → R St
  | .two v i j k l =>
    if inR n i && inR n j && inR n k && inR n l then
      .ok { s with two := setFour s.two i.toNat k.toNat j.toNat l.toNat v }
    else .error .index
  | .one v i j =>
    if inR n i && inR n j then .ok { s with one := set2 s.one i.toNat j.toNat v } else .error .index
  | .core v => .ok { s with core := v }

/-- the data loop -/
def dataLoop (d n : Nat) : St → List Str → R St
  | s, [] => .ok s
  | s, l :: ls =>
    match parseLine d l with
    | .error e => .error e
    | .ok r =>
      match applyRec n s r with
      | .error e => .error e
      | .ok s' => dataLoop d n s' ls

def st0 : St := ⟨fun _ _ => zero, fun _ => zero, zero⟩

def load (L : Layout) : List Str → R Loaded
  | [] => .error .eof
  | l :: rest =>
    if !startsWith hdrStart l then .error .format else
    let info := headerInfo l
    match (dictGet info kNorb).bind pyInt, (dictGet info kNelec).bind pyInt, (dictGet info kMs2).bind pyInt with
    | some nb, some ne, some ms =>
      if nb < 0 then .error .format else
      match skipHeader rest with
      | .error e => .error e
      | .ok data =>
        match dataLoop L.vD nb.toNat st0 data with
        | .error e => .error e
        | .ok s => .ok ⟨nb.toNat, ne, ms, s.one, s.two, s.core⟩
    | _, _, _ => .error .int

/-! ### what a round trip returns -/

def inRange (n : Nat) (p : Idx) : Prop := p.1 < n ∧ p.2.1 < n ∧ p.2.2.1 < n ∧ p.2.2.2 < n

instance (n : Nat) (p : Idx) : Decidable (inRange n p) := by unfold inRange; infer_instance

/-- `nelec` / `spinpol` rounded to integers; zeros (of either sign) of the arrays as `0.0`; nothing outside the arrays;
an absent core energy as `0.0` -/
def norm (o : Obj) : Loaded :=
  ⟨o.n, roundOpt o.nelec, roundOpt o.spinpol,
   fun i j => if i < o.n ∧ j < o.n then cz (o.one i j) else zero,
   fun p => if inRange o.n p then cz (o.two p) else zero,
   o.core.getD zero⟩

/-- the loaded object as an object to be saved again -/
def Loaded.obj (x : Loaded) : Obj := ⟨x.n, x.one, x.two, some x.core, some (x.nelec, 1), some (x.spinpol, 1)⟩

/-! ### domain -/

def okSci (L : Layout) (v : Sci) : Prop := v.man < 10 ^ (L.vD + 1)

/-- 8-fold symmetry in physicists' notation (`Fcidump.Sym` of the index layer, restated here without its imports) -/
def Sym8 (T : Idx → Sci) : Prop := (∀ p, T (swapE p) = T p) ∧ (∀ p, T (swap1 p) = T p) ∧ (∀ p, T (swap2 p) = T p)

/-- the documented domain: a symmetric one-electron matrix, an 8-fold symmetric two-electron array, every real a
`.16e` triple (mantissa of at most `vD + 1` digits) -/
def Dom (L : Layout) (o : Obj) : Prop :=
  (∀ i j, o.one i j = o.one j i) ∧ Sym8 o.two ∧
  (∀ i j, okSci L (o.one i j)) ∧ (∀ p, okSci L (o.two p)) ∧ (∀ c, o.core = some c → okSci L c)

def LayoutOK (L : Layout) : Prop := 0 < L.vD

instance (L : Layout) : Decidable (LayoutOK L) := by unfold LayoutOK; infer_instance

/-! ### shape of the source the model assumes -/

def expectedWrites (L : Layout) : List Write :=
  let d := "dump_one".toList
  let v (n : String) : Field := .sci n.toList false false L.vW L.vD
  let i (n : String) : List Field := [.lit [' '], .int n.toList L.iW]
  [ (d, [.lit hdrStart, .int "nactive".toList 0, .lit hdrNelec, .int "nelec".toList 0, .lit hdrMs2, .int "spinpol".toList 0,
         .lit [','], .lit ['\n']]),
    (d, [.lit orbsymHead, .str "','.join(('1' for v in range(nactive)))".toList 0 false, .lit [','], .lit ['\n']]),
    (d, [.lit isymLine, .lit ['\n']]),
    (d, [.lit endLine, .lit ['\n']]),
    (d, [v "value"] ++ i "i0 + 1" ++ i "i1 + 1" ++ i "i2 + 1" ++ i "i3 + 1" ++ [.lit ['\n']]),
    (d, [v "value"] ++ i "i0 + 1" ++ i "i1 + 1" ++ i "0" ++ i "0" ++ [.lit ['\n']]),
    (d, [v "data.core_energy"] ++ i "0" ++ i "0" ++ i "0" ++ i "0" ++ [.lit ['\n']]) ]

/-- facts about `dump_one` / `load_one` read from the source with `ast` (T1) -/
structure Source where
  conv : List (Str × Str)        -- `nactive`, `nelec`, `spinpol` = source text of their defining expressions
  twoRead : Str                  -- the element the writer prints in the 4-fold loop
  oneRead : Str
  loopCond : Str                 -- the `if` inside the loop
  skipZero : List Str            -- the tests guarding the prints
  start : Str                    -- `line.startswith(…)`
  cut : Nat                      -- `line[5:]`
  keys : List Str                -- `header_info[…]` in order
  ends : List Str                -- `words[0] == …`
  readerWords : List (Str × Int) -- `(target, i)` of every `words[i]`
  fill : Str                     -- the `set_four_index_element` call
  oneSet : List Str              -- the assignments into `one_mo`
  deriving DecidableEq, Repr

def expectedSource : Source :=
  { conv := [("nactive".toList, "one_mo.shape[0]".toList), ("nelec".toList, "int(round(data.nelec or 0))".toList),
             ("spinpol".toList, "int(round(data.spinpol or 0))".toList)],
    twoRead := "two_mo[i0, i2, i1, i3]".toList,
    oneRead := "one_mo[i0, i1]".toList,
    loopCond := "i0 * (i0 + 1) / 2 + i1 >= i2 * (i2 + 1) / 2 + i3".toList,
    skipZero := ["value != 0.0".toList, "value != 0.0".toList, "data.core_energy is not None".toList],
    start := hdrStart, cut := hdrCut, keys := [kNorb, kNelec, kMs2], ends := endMarks,
    readerWords := [("<test>".toList, 0), ("<test>".toList, 0), ("<test>".toList, 0), ("value".toList, 0), ("<test>".toList, 3),
      ("ii".toList, 1), ("ij".toList, 2), ("ik".toList, 3), ("il".toList, 4), ("<test>".toList, 1), ("ii".toList, 1), ("ij".toList, 2)],
    fill := "set_four_index_element(two_mo, ii, ik, ij, il, value)".toList,
    oneSet := ["one_mo[ii, ij] = value".toList, "one_mo[ij, ii] = value".toList] }

end Iodata.Fmt.FcidumpW
