/-
Gaussian cube (`iodata/formats/cube.py`): `_write_cube_header`, `_write_cube_data` (six values per line, the
line restarts with every row of `shape[2]` values), `_read_cube_header` (whitespace-split words, the zero core
charge heuristic) and `_read_cube_data` (tokens read across lines).
The writer's counter loop is modelled in closed form (rows of `shape[2]` values, each cut in groups of six); the
loop itself is `dataLoop`, compared with the closed form by computation in `Props/C02` and executed by the driver.
Core Lean only.
-/
import Iodata.Model.Fmt.Core
import Iodata.Model.Fmt.Fchk
namespace Iodata.Fmt.Cube
open Iodata.Chars Iodata.Decimal Iodata.Fmt

structure Layout where
  natW : Nat       -- `{natom:5d}`
  hW : Nat         -- `{x: 11.6f}`
  hD : Nat
  dW : Nat         -- `{value: 12.5E}`
  dD : Nat
  per : Nat        -- `counter % 6 == 5`
  line2 : Str
  defaultTitle : Str
  deriving DecidableEq, Repr

structure Atom where
  zn : Int
  q : Fx
  x : Fx
  y : Fx
  z : Fx
  deriving DecidableEq, Repr

structure Vec where
  x : Fx
  y : Fx
  z : Fx
  deriving DecidableEq, Repr

structure Obj where
  title : Str
  origin : Vec
  shape : List Int       -- three numbers
  axes : List Vec        -- three vectors
  atoms : List Atom
  data : List Sci        -- `cube.data.flat` (row-major: x outer, z inner)
  deriving DecidableEq, Repr

def fx (L : Layout) (v : Fx) : Str := ' ' :: fmtFix true L.hW L.hD v

def gridLine (L : Layout) (n : Int) (v : Vec) : Str :=
  fmtInt L.natW n ++ (fx L v.x ++ (fx L v.y ++ (fx L v.z ++ ['\n'])))

def atomLine (L : Layout) (a : Atom) : Str :=
  fmtInt L.natW a.zn ++ (fx L a.q ++ (fx L a.x ++ (fx L a.y ++ (fx L a.z ++ ['\n']))))

def val (L : Layout) (v : Sci) : Str := ' ' :: fmtSci true true L.dW L.dD v

/-- rows of `bs = shape[2]` values; every row starts a new line and is cut in groups of `per` -/
def dataChunks (L : Layout) (bs : Nat) (data : List Sci) : List (List Sci) :=
  if data.isEmpty then [] else (Fchk.chunks bs data).flatMap (Fchk.chunks L.per)

def dataLines (L : Layout) (bs : Nat) (data : List Sci) : List Str := (dataChunks L bs data).map (Fchk.dataLine (val L))

/-- `_write_cube_data` as written: the counter loop -/
def dataLoop (L : Layout) (bs : Nat) : Nat → List Sci → Str
  | _, [] => []
  | c, v :: vs =>
    val L v ++ ((if c % L.per = L.per - 1 then ['\n'] else []) ++
      (if bs % L.per ≠ 0 ∧ c % bs = bs - 1 then '\n' :: dataLoop L bs 0 vs else dataLoop L bs (c + 1) vs))

def outTitle (L : Layout) (t : Str) : Str := if t.isEmpty then L.defaultTitle else t

def dump (L : Layout) (o : Obj) : List Str :=
  [outTitle L o.title ++ ['\n'], L.line2 ++ ['\n'], gridLine L o.atoms.length o.origin] ++
  ((o.shape.zip o.axes).map (fun p => gridLine L p.1 p.2) ++ (o.atoms.map (atomLine L) ++ dataLines L (o.shape.getD 2 0).toNat o.data))

/-! ### reader -/

def readGrid (d : Nat) (line : Str) : R (Int × Vec) :=
  let ws := splitWs line
  match ws[0]?, ws[1]?, ws[2]?, ws[3]? with
  | some a, some b, some c, some e =>
    (match pyInt a, pyFix d b, pyFix d c, pyFix d e with
     | some n, some x, some y, some z => .ok (n, ⟨x, y, z⟩)
     | _, _, _, _ => .error .float)
  | _, _, _, _ => .error .index

/-- `read_atom_line` and `if atcorenums[i] == 0.0: atcorenums[i] = atnums[i]` -/
def readAtom (d : Nat) (line : Str) : R Atom :=
  let ws := splitWs line
  match ws[0]?, ws[1]?, ws[2]?, ws[3]?, ws[4]? with
  | some a, some b, some c, some e, some f =>
    (match pyInt a, pyFix d b, pyFix d c, pyFix d e, pyFix d f with
     | some n, some q, some x, some y, some z =>
       .ok ⟨n, if q.mag = 0 then ⟨decide (n < 0), n.natAbs * 10 ^ d⟩ else q, x, y, z⟩
     | _, _, _, _, _ => .error .float)
  | _, _, _, _, _ => .error .index

def load (L : Layout) : List Str → R Obj
  | l1 :: _ :: g0 :: g1 :: g2 :: g3 :: rest =>
    match readGrid L.hD g0, readGrid L.hD g1, readGrid L.hD g2, readGrid L.hD g3 with
    | .ok (natom, origin), .ok (s0, a0), .ok (s1, a1), .ok (s2, a2) =>
      if natom < 0 then .error .format else
      match readN (readAtom L.hD) natom.toNat rest with
      | .error e => .error e
      | .ok (atoms, rest') =>
        if s0 < 0 || s1 < 0 || s2 < 0 then .error .format else
        match Fchk.readTok (pySci L.dD) (s0 * s1 * s2).toNat [] rest' with
        | .ok (data, _) => .ok ⟨strip l1, origin, [s0, s1, s2], [a0, a1, a2], atoms, data⟩
        | _ => .error .eof
    | _, _, _, _ => .error .float
  | _ => .error .eof

def normAtom (L : Layout) (a : Atom) : Atom :=
  { a with q := if a.q.mag = 0 then ⟨decide (a.zn < 0), a.zn.natAbs * 10 ^ L.hD⟩ else a.q }

/-- what a round trip returns: default title; a zero core charge comes back as the atomic number -/
def norm (L : Layout) (o : Obj) : Obj := { o with title := outTitle L o.title, atoms := o.atoms.map (normAtom L) }

def okTitle (t : Str) : Bool := decide (Trimmed t) && !t.contains '\n'

def okShape (o : Obj) : Bool :=
  match o.shape with
  | [a, b, c] => decide (0 ≤ a) && decide (0 ≤ b) && decide (0 ≤ c) && decide ((a * b * c).toNat = o.data.length)
  | _ => false

def Dom (L : Layout) (o : Obj) : Prop :=
  okTitle o.title = true ∧ okShape o = true ∧ o.axes.length = 3 ∧ (∀ v ∈ o.data, v.man < 10 ^ (L.dD + 1))

instance (L : Layout) (o : Obj) : Decidable (Dom L o) := by unfold Dom; infer_instance

def LayoutOK (L : Layout) : Prop := 0 < L.per ∧ 0 < L.dD ∧ okTitle L.defaultTitle = true ∧ L.defaultTitle ≠ []

instance (L : Layout) : Decidable (LayoutOK L) := by unfold LayoutOK; infer_instance

def expectedWrites (L : Layout) : List Write :=
  let h := "_write_cube_header".toList
  let d := "_write_cube_data".toList
  let f (n : String) : List Field := [.lit [' '], .fix n.toList true L.hW L.hD]
  [ (h, [.str "title".toList 0 false, .lit ['\n']]),
    (h, [.lit L.line2, .lit ['\n']]),
    (h, [.int "natom".toList L.natW] ++ f "x" ++ f "y" ++ f "z" ++ [.lit ['\n']]),
    (h, [.int "cube.shape[i]".toList L.natW] ++ f "x" ++ f "y" ++ f "z" ++ [.lit ['\n']]),
    (h, [.int "atnums[i]".toList L.natW] ++ f "q" ++ f "x" ++ f "y" ++ f "z" ++ [.lit ['\n']]),
    (d, [.lit [' '], .sci "value".toList true true L.dW L.dD]),
    (d, [.lit ['\n']]),
    (d, [.lit ['\n']]) ]

end Iodata.Fmt.Cube
