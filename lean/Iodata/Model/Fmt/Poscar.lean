/-
VASP POSCAR (`iodata/formats/poscar.py`, `_load_vasp_header` of `chgcar.py`), STRUCTURE layer: the grouping of atoms by
element (heaviest first, file order kept inside a group), the element/count lines and their expansion by the reader, and
the direct (fractional) coordinates `inv(cell)ᵀ·r` / `frac·cell` in exact rational arithmetic (3×3 adjugate).
The decimal text of the numbers is not modelled here (floating-point inverse: see the C15 known finding).
Core Lean only.
-/
namespace Iodata.Fmt.Poscar

/-- `sorted(np.unique(atnums))[::-1]` -/
def uniqDesc (zs : List Nat) : List Nat := ((List.range (zs.foldl max 0 + 1)).reverse).filter fun z => zs.contains z

/-- the atoms in the order the writer prints them: `for uatnum in uatnums: for index in (atnums == uatnum).nonzero()[0]` -/
def group {α} (key : α → Nat) (atoms : List α) : List α :=
  (uniqDesc (atoms.map key)).flatMap fun z => atoms.filter fun a => key a == z

/-- the element line and the count line -/
def counts {α} (key : α → Nat) (atoms : List α) : List (Nat × Nat) :=
  (uniqDesc (atoms.map key)).map fun z => (z, (atoms.filter fun a => key a == z).length)

/-- `for n, c in zip(vasp_atnums, vasp_counts): atnums.extend([n] * c)` -/
def expand (cs : List (Nat × Nat)) : List Nat := cs.flatMap fun p => List.replicate p.2 p.1

abbrev V3 := Rat × Rat × Rat
abbrev M3 := V3 × V3 × V3      -- rows

def det (m : M3) : Rat :=
  let ((a, b, c), (d, e, f), (g, h, i)) := m
  a * (e * i - f * h) - b * (d * i - f * g) + c * (d * h - e * g)

/-- `np.linalg.inv(cell)` by the adjugate -/
def inv (m : M3) : M3 :=
  let ((a, b, c), (d, e, f), (g, h, i)) := m
  let D := det m
  (((e * i - f * h) / D, (c * h - b * i) / D, (b * f - c * e) / D),
   ((f * g - d * i) / D, (a * i - c * g) / D, (c * d - a * f) / D),
   ((d * h - e * g) / D, (b * g - a * h) / D, (a * e - b * d) / D))

/-- row vector times matrix: `np.dot(v, m)` -/
def vecMat (v : V3) (m : M3) : V3 :=
  let (x, y, z) := v
  let ((a, b, c), (d, e, f), (g, h, i)) := m
  (x * a + y * d + z * g, x * b + y * e + z * h, x * c + y * f + z * i)

/-- `np.dot(inv(cell).T, r)`: the direct coordinates the writer prints -/
def toFrac (cell : M3) (r : V3) : V3 := vecMat r (inv cell)

/-- `np.dot(frac, cellvecs)`: what the reader computes -/
def toCart (cell : M3) (s : V3) : V3 := vecMat s cell

end Iodata.Fmt.Poscar
