/-
Shared pieces of the byte-level format models: outcome type, `n` records read line by line,
periodic/bond tables (instances are generated into `Gen/Layouts.lean`), layout fields.
Core Lean only.
-/
import Iodata.Model.Chars
import Iodata.Model.Decimal
namespace Iodata.Fmt
open Iodata.Chars Iodata.Decimal

/-- Every exception inside a `load_one` reaches the caller of `iodata.api.load_one` as `LoadError`;
the tag only says where the model stopped (it is not compared with the implementation). -/
inductive LErr where
  | eof | int | float | sym | index | format
  deriving DecidableEq, Repr

abbrev R := Except LErr

instance {α} [DecidableEq α] : DecidableEq (R α) := fun a b =>
  match a, b with
  | .ok x, .ok y => if h : x = y then isTrue (by rw [h]) else isFalse (fun e => h (Except.ok.inj e))
  | .error x, .error y => if h : x = y then isTrue (by rw [h]) else isFalse (fun e => h (Except.error.inj e))
  | .ok _, .error _ => isFalse (fun e => by cases e)
  | .error _, .ok _ => isFalse (fun e => by cases e)

/-- the reader raised (`LoadError` at the API) -/
def failed {α} : R α → Bool
  | .ok _ => false
  | .error _ => true

def optE {α} (e : LErr) : Option α → R α
  | some a => .ok a
  | none => .error e

/-- `words[i]` (IndexError → LoadError) -/
def word (ws : List Str) (i : Nat) : R Str := optE .index ws[i]?

/-- `for _ in range(n): rec = parse(next(lit))`; returns the records and the unread lines -/
def readN {α} (p : Str → R α) : Nat → List Str → R (List α × List Str)
  | 0, ls => .ok ([], ls)
  | _ + 1, [] => .error .eof
  | n + 1, l :: ls =>
    match p l with
    | .error e => .error e
    | .ok a =>
      match readN p n ls with
      | .error e => .error e
      | .ok (as, rest) => .ok (a :: as, rest)

/-- `num2sym` / `sym2num` / `num2bond` / `bond2num` of `iodata.periodic` as association lists -/
structure Tables where
  num2sym : List (Nat × Str)
  num2bond : List (Nat × Str)

def lookupK {κ ν} [BEq κ] (t : List (κ × ν)) (k : κ) : Option ν := (t.find? (fun e => e.1 == k)).map (·.2)
def lookupV {κ ν} [BEq ν] (t : List (κ × ν)) (v : ν) : Option κ := (t.find? (fun e => e.2 == v)).map (·.1)

def Tables.sym? (T : Tables) (z : Nat) : Option Str := lookupK T.num2sym z
def Tables.num? (T : Tables) (s : Str) : Option Nat := lookupV T.num2sym s
def Tables.bond? (T : Tables) (b : Nat) : Option Str := lookupK T.num2bond b
def Tables.bnum? (T : Tables) (s : Str) : Option Nat := lookupV T.num2bond s

/-- `num2sym[z]` with `[]` standing for the KeyError case (writers are guarded by `Tables.hasZ`) -/
def Tables.sym (T : Tables) (z : Nat) : Str := (T.sym? z).getD []

/-- a layout field of a writer, as extracted from the f-strings (`name` is the source text of the
formatted expression) -/
inductive Field where
  | lit (s : Str)
  | int (name : Str) (w : Nat)
  | fix (name : Str) (sp : Bool) (w d : Nat)
  | sci (name : Str) (sp up : Bool) (w d : Nat)
  | str (name : Str) (w : Nat) (right : Bool)
  | other (src : Str)
  deriving DecidableEq, Repr

/-- one `print(...)` / `f.write(...)` of a writer: enclosing function and the fields written -/
abbrev Write := Str × List Field

/-- a reader slice `target = …line[a:b]…` (`b = none` for `line[a:]`; an index `line[a]` is
recorded as `[a:a+1]` with `idx = true`) -/
structure Slice where
  func : Str
  target : Str
  a : Nat
  b : Option Nat
  idx : Bool
  deriving DecidableEq, Repr

/-- a use `target = …words[i]…` in a whitespace-splitting reader -/
structure WordUse where
  func : Str
  target : Str
  i : Int
  deriving DecidableEq, Repr

/-- intercalate with one blank: `" ".join(words)` -/
def joinSp (ws : List Str) : Str := List.intercalate [' '] ws

end Iodata.Fmt
