/-
Tripos MOL2 (`iodata/formats/mol2.py`): `dump_one` and `load_one` with `_load_helper_atoms` / `_load_helper_bonds`
(free format: every record is split on whitespace), transcribed as they are.  Core Lean only.
-/
import Iodata.Model.Fmt.Core
namespace Iodata.Fmt.Mol2
open Iodata.Chars Iodata.Decimal Iodata.Fmt

structure Layout where
  natW : Nat      -- `{data.natom:5d}`
  cntW : Nat      -- `{bonds:6d}`
  idW : Nat       -- `{i+1:7d}`
  symW : Nat      -- `{n:2s}`
  xW : Nat        -- `{x:15.4f}`
  yW : Nat        -- `{y:9.4f}`
  cD : Nat
  typeW : Nat     -- `{attype:6s}`
  oneW : Nat      -- `{1:4d}`
  res : Str       -- `XXX`
  chW : Nat       -- `{atcharge:14.4f}`
  chD : Nat
  bidW : Nat      -- `{i+1:6d}`
  batW : Nat      -- `{bond[0]+1:4d}`
  btW : Nat       -- `{bondtype:2s}`
  comment : Str
  blank : Str     -- `print("\n\n\n\n\n")`
  defaultTitle : Str
  unBond : Nat    -- `bond2num["un"]`
  deriving DecidableEq, Repr

structure Atom where
  zn : Nat
  x : Fx
  y : Fx
  z : Fx
  attype : Option Str     -- `atffparams["attypes"]` absent: the element symbol is written
  charge : Option Fx      -- `atcharges["mol2charges"]` absent: 0.0 is written
  deriving DecidableEq, Repr

structure Bond where
  i : Nat
  j : Nat
  t : Nat
  deriving DecidableEq, Repr

structure Obj where
  title : Str
  atoms : List Atom
  bonds : Option (List Bond)
  deriving DecidableEq, Repr

def kMol : Str := "@<TRIPOS>MOLECULE".toList
def kAtom : Str := "@<TRIPOS>ATOM".toList
def kBond : Str := "@<TRIPOS>BOND".toList

def outTitle (L : Layout) (t : Str) : Str := if t.isEmpty then L.defaultTitle else t

def sp : Str := [' ']

def atomLine (T : Tables) (L : Layout) (k : Nat) (a : Atom) : Str :=
  let n := T.sym a.zn
  fmtInt L.idW (k + 1 : Nat) ++ (sp ++ (ljust L.symW n ++ (sp ++ (fmtFix false L.xW L.cD a.x ++ (sp ++ (fmtFix false L.yW L.cD a.y ++
    (sp ++ (fmtFix false L.yW L.cD a.z ++ (sp ++ (ljust L.typeW (a.attype.getD n) ++ (sp ++ (fmtInt L.oneW 1 ++ (sp ++ (L.res ++
    (sp ++ (fmtFix false L.chW L.chD (a.charge.getD ⟨false, 0⟩) ++ ['\n']))))))))))))))))

def atomLinesFrom (T : Tables) (L : Layout) : Nat → List Atom → List Str
  | _, [] => []
  | k, a :: as => atomLine T L k a :: atomLinesFrom T L (k + 1) as

/-- `num2bond.get(bond[2], "un")` -/
def bondName (T : Tables) (L : Layout) (t : Nat) : Str := (T.bond? t).getD ((T.bond? L.unBond).getD [])

def bondLine (T : Tables) (L : Layout) (k : Nat) (b : Bond) : Str :=
  fmtInt L.bidW (k + 1 : Nat) ++ (sp ++ (fmtInt L.batW (b.i + 1 : Nat) ++ (sp ++ (fmtInt L.batW (b.j + 1 : Nat) ++ (sp ++
    (ljust L.btW (bondName T L b.t) ++ ['\n']))))))

def bondLinesFrom (T : Tables) (L : Layout) : Nat → List Bond → List Str
  | _, [] => []
  | k, b :: bs => bondLine T L k b :: bondLinesFrom T L (k + 1) bs

def countsLine (L : Layout) (natom nbond : Nat) : Str :=
  fmtInt L.natW natom ++ (sp ++ (fmtInt L.cntW nbond ++ (sp ++ (fmtInt L.cntW 0 ++ (sp ++ (fmtInt L.cntW 0 ++ ['\n']))))))

/-- the lines of `print("\n\n\n\n\n")`: six empty lines -/
def blankLines (L : Layout) : List Str := (L.blank ++ ['\n']).map fun _ => ['\n']

def dump (T : Tables) (L : Layout) (o : Obj) : List Str :=
  (L.comment ++ ['\n']) :: (blankLines L ++ ((kMol ++ ['\n']) :: (outTitle L o.title ++ ['\n']) ::
    countsLine L o.atoms.length ((o.bonds.map List.length).getD 0) :: (kAtom ++ ['\n']) ::
    (atomLinesFrom T L 0 o.atoms ++ (match o.bonds with
      | none => []
      | some bs => (kBond ++ ['\n']) :: bondLinesFrom T L 0 bs))))

def dumpE (T : Tables) (L : Layout) (o : Obj) : Except Unit (List Str) :=
  if o.atoms.all (fun a => (T.sym? a.zn).isSome) then .ok (dump T L o) else .error ()

/-! ### reader -/

structure LAtom where
  zn : Nat
  x : Fx
  y : Fx
  z : Fx
  attype : Str
  charge : Fx
  deriving DecidableEq, Repr

/-- one pass of `_load_helper_atoms` -/
def readAtom (T : Tables) (L : Layout) (line : Str) : R LAtom :=
  let ws := splitWs line
  match ws[1]?, ws[2]?, ws[3]?, ws[4]?, ws[5]? with
  | some nm, some x, some y, some z, some ty =>
    let symbol := title (nm.take 2)
    if symbol.isEmpty then .error .index else       -- `symbol[0]` (cannot happen: a word is not empty)
    let zn := ((T.num? symbol).or (T.num? (symbol.take 1))).getD 0
    (match pyFix L.cD x, pyFix L.cD y, pyFix L.cD z with
     | some x, some y, some z =>
       if ws.length = 9 then
         (match ws[8]? with
          | some c => (match pyFix L.chD c with
            | some q => .ok ⟨zn, x, y, z, ty, q⟩
            | none => .error .float)
          | none => .error .index)
       else .ok ⟨zn, x, y, z, ty, ⟨false, 0⟩⟩
     | _, _, _ => .error .float)
  | _, _, _, _, _ => .error .index

/-- one pass of `_load_helper_bonds` -/
def readBond (T : Tables) (L : Layout) (line : Str) : R Bond :=
  let ws := splitWs line
  match ws[1]?, ws[2]?, ws[3]? with
  | some a, some b, some t =>
    (match pyInt a, pyInt b with
     | some a, some b =>
       if a - 1 < 0 || b - 1 < 0 then .error .format else    -- negative entries are outside the model
       .ok ⟨(a - 1).toNat, (b - 1).toNat, (T.bnum? t).getD L.unBond⟩
     | _, _ => .error .int)
  | _, _, _ => .error .index

structure Loaded where
  title : Str
  atoms : List LAtom
  bonds : Option (List Bond)
  deriving DecidableEq, Repr

structure St where
  title : Str
  natoms : Int
  nbonds : Int
  result : Option Loaded

/-- the `while True` loop of `load_one` (fuel: one unit per line read at the top of the loop) -/
def loop (T : Tables) (L : Layout) : Nat → St → List Str → R St
  | 0, st, _ => .ok st
  | _ + 1, st, [] => .ok st
  | f + 1, st, line :: ls =>
    if line.length ≤ 1 then loop T L f st ls else
    match splitWs line with
    | [] => .error .index
    | w :: _ =>
      if w = kMol then
        if st.result.isSome then .ok st else
        match ls with
        | t :: c :: ls' =>
          (match (splitWs c)[0]?, (splitWs c)[1]? with
           | some a, some b =>
             (match pyInt a, pyInt b with
              | some na, some nb => loop T L f { st with title := strip t, natoms := na, nbonds := nb } ls'
              | _, _ => .error .int)
           | _, _ => .error .index)
        | _ => .error .eof
      else if w = kAtom then
        if st.natoms < 0 then .error .format else
        match readN (readAtom T L) st.natoms.toNat ls with
        | .error e => .error e
        | .ok (atoms, ls') => loop T L f { st with result := some ⟨st.title, atoms, none⟩ } ls'
      else if w = kBond then
        if st.nbonds < 0 then .error .format else
        match readN (readBond T L) st.nbonds.toNat ls with
        | .error e => .error e
        | .ok (bonds, ls') =>
          (match st.result with
           | none => .error .format
           | some r => loop T L f { st with result := some { r with bonds := some bonds } } ls')
      else loop T L f st ls

def load (T : Tables) (L : Layout) (lines : List Str) : R Loaded :=
  match loop T L (lines.length + 1) ⟨[], 0, 0, none⟩ lines with
  | .error e => .error e
  | .ok st =>
    match st.result with
    | none => .error .format
    | some r => if st.nbonds > 0 && r.bonds.isNone then .error .format else .ok r

def normAtom (T : Tables) (a : Atom) : LAtom :=
  ⟨a.zn, a.x, a.y, a.z, a.attype.getD (T.sym a.zn), a.charge.getD ⟨false, 0⟩⟩

def normBond (T : Tables) (L : Layout) (b : Bond) : Bond := ⟨b.i, b.j, if (T.bond? b.t).isSome then b.t else L.unBond⟩

def norm (T : Tables) (L : Layout) (o : Obj) : Loaded :=
  ⟨outTitle L o.title, o.atoms.map (normAtom T), o.bonds.map (List.map (normBond T L))⟩

def Loaded.obj (x : Loaded) : Obj := ⟨x.title, x.atoms.map (fun a => ⟨a.zn, a.x, a.y, a.z, some a.attype, some a.charge⟩), x.bonds⟩

def okTitle (t : Str) : Bool := decide (Trimmed t) && !t.contains '\n'

/-- the element symbol is read back from the first two characters of the atom name -/
def okZ (T : Tables) (z : Nat) : Bool :=
  match T.sym? z with
  | none => false
  | some s => decide (NoWs s) && !s.isEmpty && decide (s.length ≤ 2) &&
      (((T.num? (title (s.take 2))).or (T.num? ((title (s.take 2)).take 1))).getD 0 == z)

def okType (s : Str) : Bool := decide (NoWs s) && !s.isEmpty

def AtomOK (T : Tables) (a : Atom) : Prop :=
  okZ T a.zn = true ∧ (match a.attype with | none => True | some s => okType s = true)

instance (T : Tables) (a : Atom) : Decidable (AtomOK T a) := by
  unfold AtomOK; cases a.attype <;> infer_instance

def Dom (T : Tables) (_L : Layout) (o : Obj) : Prop :=
  okTitle o.title = true ∧ (∀ a ∈ o.atoms, AtomOK T a) ∧ o.atoms ≠ [] ∧
  (match o.bonds with | none => True | some bs => bs ≠ [])

instance (T : Tables) (L : Layout) (o : Obj) : Decidable (Dom T L o) := by
  unfold Dom; cases o.bonds <;> infer_instance

def LayoutOK (T : Tables) (L : Layout) : Prop :=
  okTitle L.defaultTitle = true ∧ L.defaultTitle ≠ [] ∧ NoWs L.res ∧ L.res ≠ [] ∧ 1 < L.comment.length ∧
  (splitWs L.comment).head? ≠ some kMol ∧ (splitWs L.comment).head? ≠ some kAtom ∧ (splitWs L.comment).head? ≠ some kBond ∧
  splitWs L.comment ≠ [] ∧ '\n' ∉ L.comment ∧
  (∀ e ∈ T.num2bond, NoWs e.2 ∧ e.2 ≠ [] ∧ T.bnum? e.2 = some e.1) ∧ (T.bond? L.unBond).isSome

instance (T : Tables) (L : Layout) : Decidable (LayoutOK T L) := by unfold LayoutOK; infer_instance

/-! ### shape of the source the model assumes -/

def expectedWrites (L : Layout) : List Write :=
  let d := "dump_one".toList
  let cnt (n : String) : List Field :=
    [.int "data.natom".toList L.natW, .lit sp, .int n.toList L.cntW, .lit sp, .int ['0'] L.cntW, .lit sp, .int ['0'] L.cntW, .lit ['\n']]
  [ (d, [.lit L.comment, .lit ['\n']]), (d, [.lit L.blank, .lit ['\n']]), (d, [.lit kMol, .lit ['\n']]),
    (d, [.str ("data.title or '".toList ++ L.defaultTitle ++ ['\'']) 0 false, .lit ['\n']]),
    (d, cnt "bonds"), (d, cnt "0"), (d, [.lit kAtom, .lit ['\n']]),
    (d, [.int "i + 1".toList L.idW, .lit sp, .str ['n'] L.symW false, .lit sp, .fix ['x'] false L.xW L.cD, .lit sp,
         .fix ['y'] false L.yW L.cD, .lit sp, .fix ['z'] false L.yW L.cD, .lit sp, .str "attype".toList L.typeW false, .lit sp,
         .int ['1'] L.oneW, .lit (sp ++ L.res ++ sp), .fix "atcharge".toList false L.chW L.chD, .lit ['\n']]),
    (d, [.lit kBond, .lit ['\n']]),
    (d, [.int "i + 1".toList L.bidW, .lit sp, .int "bond[0] + 1".toList L.batW, .lit sp, .int "bond[1] + 1".toList L.batW, .lit sp,
         .str "bondtype".toList L.btW false, .lit ['\n']]) ]

end Iodata.Fmt.Mol2
