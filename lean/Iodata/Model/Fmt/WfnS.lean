/-
AIM/Gaussian WFN (`iodata/formats/wfn.py`), SECTION layer: the text of the file against the arrays of `load_wfn_low`.
Writer: title line, `FMT_NUM`, one `FMT_ATM` line per atom, the `CENTRE ASSIGNMENTS` / `TYPE ASSIGNMENTS` (20 × `I3`) and
`EXPONENTS` (5 × `E14.7`) sections, per orbital an `FMT_MOS` header and its coefficients (5 × `E16.8`), `END DATA`, the
energy / virial line (`nan` when absent), the optional `$MOSPIN` section (40 × `I2`).  Reader: `load_wfn_low` transcribed
(column slices, the symbol heuristic `line[:8].strip().title()[:2]` with its one-letter fallback, `_load_helper_section`
with `startswith`, `line[skip:]`, the cut loop `while len(line) >= step`, `replace("D", "E")`, the scan for `ENERGY` and for
`$MOSPIN $END`).

Which primitive belongs to which shell, the normalisation of the coefficients and the spin bookkeeping are C01's
(`Model/Wf.lean`, `Model/WfRead.lean`): here a primitive is `(centre, type, exponent)` and an orbital is
`(occupation, energy, coefficients)`, zero-based centre/type indices being written one-based.
Core Lean only.
-/
import Iodata.Model.Fmt.Core
import Iodata.Model.Fmt.Fchk
namespace Iodata.Fmt.WfnS
open Iodata.Chars Iodata.Decimal Iodata.Fmt

structure Layout where
  moW : Nat            -- `{0:7d}` orbitals
  primW : Nat          -- `{1:7d}` primitives
  natW : Nat           -- `{2:9d}` nuclei
  symW : Nat           -- `{0:3s}`
  idxW : Nat           -- `{1:3d}`, `{2:3d}`
  cW : Nat             -- `{3:12.8f}`
  cD : Nat
  chW : Nat            -- `{6:5.1f}`
  chD : Nat
  intSkip : Nat        -- 20 columns of section name
  intW : Nat           -- `{:3d}`
  intPer : Nat         -- 20 per line
  expSkip : Nat        -- 10
  expW : Nat           -- `{:14.7E}`
  expD : Nat
  expPer : Nat         -- 5
  coefW : Nat          -- `{:16.8E}`
  coefD : Nat
  coefPer : Nat        -- 5
  spinW : Nat          -- `{:2d}`
  spinPer : Nat        -- 40
  mnW : Nat            -- `MO{0:5d}`
  zW : Nat             -- `{1:3.1f}` of the constant 0
  zD : Nat
  occW : Nat           -- `{2:13.7f}`
  occD : Nat
  enW : Nat            -- `{3:12.6f}`
  enD : Nat
  teW : Nat            -- `{0:20.12f}`
  teD : Nat
  vrW : Nat            -- `{1:13.8f}`
  vrD : Nat
  -- reader slices
  sMo : Nat × Nat
  sPrim : Nat × Nat
  sNat : Nat × Nat
  sSym : Nat           -- `line[:8]`
  sX : Nat × Nat
  sY : Nat × Nat
  sZ : Nat × Nat
  sNum : Nat × Nat
  sOcc : Nat × Nat
  sEn : Nat × Nat
  sTe : Nat × Nat
  sVr : Nat × Nat
  defaultTitle : Str
  deriving DecidableEq, Repr

/-! ### fixed text (compared with the `FMT_*` constants of the source by `Props/C02W`) -/

def lGauss : Str := ['G','A','U','S','S','I','A','N',' ',' ',' ',' ',' ',' ',' ',' ']
def lMol : Str := [' ','M','O','L',' ','O','R','B','I','T','A','L','S']
def lPrim : Str := [' ','P','R','I','M','I','T','I','V','E','S']
def lNuc : Str := [' ','N','U','C','L','E','I']
def lAtm0 : Str := [' ',' ']
def lAtm1 : Str := [' ',' ',' ',' ','(','C','E','N','T','R','E']
def lAtm2 : Str := [')',' ']
def lAtm3 : Str := [' ',' ','C','H','A','R','G','E',' ','=']
def lMO : Str := ['M','O']
def lMO1 : Str := [' ',' ',' ',' ',' ','M','O',' ']
def lMO2 : Str := [' ',' ',' ',' ',' ',' ',' ',' ','O','C','C',' ','N','O',' ','=']
def lMO3 : Str := [' ',' ','O','R','B','.',' ','E','N','E','R','G','Y',' ','=']
def lTe0 : Str := [' ','T','O','T','A','L',' ','E','N','E','R','G','Y',' ','=',' ',' ']
def lTe1 : Str := [' ','T','H','E',' ','V','I','R','I','A','L','(','-','V','/','T',')','=']
def hCentre : Str := ['C','E','N','T','R','E',' ','A','S','S','I','G','N','M','E','N','T','S']
def hType : Str := ['T','Y','P','E',' ','A','S','S','I','G','N','M','E','N','T','S']
def hExp : Str := ['E','X','P','O','N','E','N','T','S']
def lEnd : Str := ['E','N','D',' ','D','A','T','A']
def lSpin : Str := [' ','$','M','O','S','P','I','N',' ','$','E','N','D']
def kEnergy : Str := ['E','N','E','R','G','Y']
def kSpin : Str := ['$','M','O','S','P','I','N',' ','$','E','N','D']
def kNan : Str := ['n','a','n']
def startG : Str := ['G']

structure Atom where
  zn : Nat
  x : Fx
  y : Fx
  z : Fx
  deriving DecidableEq, Repr

structure MO where
  occ : Fx
  energy : Fx
  coeffs : List Sci
  deriving DecidableEq, Repr

structure Obj where
  title : Str
  atoms : List Atom
  prims : List (Nat × Nat × Sci)     -- zero-based centre, zero-based primitive type, exponent
  mos : List MO
  energy : Option Fx                 -- `none`: NaN
  virial : Option Fx
  mospin : Option (List Int)
  deriving DecidableEq, Repr

/-! ### writer -/

/-- `format(x, "w.df")` of a float that may be NaN -/
def fmtFixN (w d : Nat) : Option Fx → Str
  | none => rjust w kNan
  | some x => fmtFix false w d x

def numLine (L : Layout) (nmo nprim nat : Nat) : Str :=
  lGauss ++ (fmtInt L.moW nmo ++ (lMol ++ (fmtInt L.primW nprim ++ (lPrim ++ (fmtInt L.natW nat ++ (lNuc ++ ['\n']))))))

def atomLine (T : Tables) (L : Layout) (i : Nat) (a : Atom) : Str :=
  lAtm0 ++ (ljust L.symW (T.sym a.zn) ++ (fmtInt L.idxW (i + 1) ++ (lAtm1 ++ (fmtInt L.idxW (i + 1) ++ (lAtm2 ++
    (fmtFix false L.cW L.cD a.x ++ (fmtFix false L.cW L.cD a.y ++ (fmtFix false L.cW L.cD a.z ++ (lAtm3 ++
      (fmtFix false L.chW L.chD ⟨false, a.zn * 10 ^ L.chD⟩ ++ ['\n']))))))))))

/-- `_dump_helper_section`: `header[:skip].ljust(skip)` then up to `per` items per line -/
def secLines {α} (header : Str) (skip per : Nat) (render : α → Str) (items : List α) : List Str :=
  if items.isEmpty then [] else
  (Fchk.chunks per items).map fun ch => ljust skip (header.take skip) ++ ((ch.map render).flatten ++ ['\n'])

def moHead (L : Layout) (i : Nat) (m : MO) : Str :=
  lMO ++ (fmtInt L.mnW (i + 1) ++ (lMO1 ++ (fmtFix false L.zW L.zD ⟨false, 0⟩ ++ (lMO2 ++ (fmtFix false L.occW L.occD m.occ ++
    (lMO3 ++ (fmtFix false L.enW L.enD m.energy ++ ['\n'])))))))

def moLines (L : Layout) (i : Nat) (m : MO) : List Str :=
  moHead L i m :: secLines [] 0 L.coefPer (fmtSci false true L.coefW L.coefD) m.coeffs

def energyLine (L : Layout) (e v : Option Fx) : Str :=
  lTe0 ++ (fmtFixN L.teW L.teD e ++ (lTe1 ++ (fmtFixN L.vrW L.vrD v ++ ['\n'])))

def spinLines (L : Layout) : Option (List Int) → List Str
  | none => []
  | some l => [lSpin ++ ['\n'], ['\n'], ['\n']] ++ secLines [] 0 L.spinPer (fmtInt L.spinW) l

def outTitle (L : Layout) (t : Str) : Str := if t.isEmpty then L.defaultTitle else t

def dump (T : Tables) (L : Layout) (o : Obj) : List Str :=
  [' ' :: (outTitle L o.title ++ ['\n']), numLine L o.mos.length o.prims.length o.atoms.length] ++
  (o.atoms.zipIdx.map (fun p => atomLine T L p.2 p.1) ++
  (secLines hCentre L.intSkip L.intPer (fmtInt L.intW) (o.prims.map fun p => ((p.1 + 1 : Nat) : Int)) ++
  (secLines hType L.intSkip L.intPer (fmtInt L.intW) (o.prims.map fun p => ((p.2.1 + 1 : Nat) : Int)) ++
  (secLines hExp L.expSkip L.expPer (fmtSci false true L.expW L.expD) (o.prims.map (·.2.2)) ++
  (o.mos.zipIdx.flatMap (fun p => moLines L p.2 p.1) ++
  ([lEnd ++ ['\n'], energyLine L o.energy o.virial] ++ spinLines L o.mospin))))))

/-! ### reader -/

def sl (p : Nat × Nat) (s : Str) : Str := slice p.1 p.2 s

/-- the cut loop `while len(line) >= step: section.append(line[:step]); line = line[step:]` -/
def cutF (step : Nat) : Nat → Str → List Str
  | 0, _ => []
  | f + 1, s => if step ≤ s.length then s.take step :: cutF step f (s.drop step) else []

def cut (step : Nat) (s : Str) : List Str := cutF step s.length s

def optAll {α β} (f : α → Option β) : List α → Option (List β)
  | [] => some []
  | a :: as =>
    match f a, optAll f as with
    | some b, some bs => some (b :: bs)
    | _, _ => none

/-- `_load_helper_section` (fuel: one unit per line read) -/
def readSecF {β} (conv : Str → Option β) (start : Str) (skip step n : Nat) : Nat → List β → List Str → R (List β × List Str)
  | 0, _, _ => .error .eof
  | f + 1, acc, ls =>
    if acc.length < n then
      match ls with
      | [] => .error .eof
      | l :: rest =>
        if !startsWith start l then .error .format else
        match optAll (fun w => conv (replaceD w)) (cut step (l.drop skip)) with
        | none => .error .float
        | some vs => readSecF conv start skip step n f (acc ++ vs) rest
    else if acc.length ≠ n then .error .format else .ok (acc, ls)

def readSec {β} (conv : Str → Option β) (start : Str) (skip step n : Nat) (ls : List Str) : R (List β × List Str) :=
  readSecF conv start skip step n (ls.length + 1) [] ls

/-- `sym2num.get(symbol)`, else `sym2num[symbol[0]]` -/
def symLookup (T : Tables) (sym : Str) : Option Nat :=
  match T.num? sym with
  | some z => some z
  | none =>
    match sym with
    | c :: _ => T.num? [c]
    | [] => none

/-- the element of `symbol = line[:8].strip().title()[:2]` -/
def readSym (T : Tables) (s : Str) : Option Nat := symLookup T ((title (strip s)).take 2)

def readAtom (T : Tables) (L : Layout) (line : Str) : R Atom :=
  match readSym T (slice 0 L.sSym line), pyFix L.cD (sl L.sX line), pyFix L.cD (sl L.sY line), pyFix L.cD (sl L.sZ line) with
  | some z, some x, some y, some zz => .ok ⟨z, x, y, zz⟩
  | none, _, _, _ => .error .sym
  | _, _, _, _ => .error .float

structure LMO where
  number : Int
  occ : Fx
  energy : Fx
  coeffs : List Sci
  deriving DecidableEq, Repr

def readMO (L : Layout) (nprim : Nat) : List Str → R (LMO × List Str)
  | [] => .error .eof
  | l :: rest =>
    if !startsWith lMO l then .error .format else
    match pyInt (sl L.sNum l), pyFix L.occD (sl L.sOcc l), pyFix L.enD (sl L.sEn l) with
    | some k, some occ, some en =>
      match readSec (pySci L.coefD) [] 0 L.coefW nprim rest with
      | .error e => .error e
      | .ok (cs, rest') => .ok (⟨k, occ, en, cs⟩, rest')
    | _, _, _ => .error .float

def readMOs (L : Layout) (nprim : Nat) : Nat → List Str → R (List LMO × List Str)
  | 0, ls => .ok ([], ls)
  | k + 1, ls =>
    match readMO L nprim ls with
    | .error e => .error e
    | .ok (m, rest) =>
      match readMOs L nprim k rest with
      | .error e => .error e
      | .ok (ms, rest') => .ok (m :: ms, rest')

/-- `float(text)` where the text may be `nan` -/
def pyFixN (d : Nat) (s : Str) : Option (Option Fx) :=
  if strip s == kNan then some none else (pyFix d s).map some

/-- `key in line` -/
def hasSub (p : Str) : Str → Bool
  | [] => p.isEmpty
  | c :: s => p.isPrefixOf (c :: s) || hasSub p s

/-- `while "ENERGY" not in line: line = next(lit)` -/
def findLine (key : Str) : List Str → Option (Str × List Str)
  | [] => none
  | l :: ls => if hasSub key l then some (l, ls) else findLine key ls

structure Loaded where
  title : Str
  atoms : List Atom
  icenters : List Int          -- zero-based
  types : List Int             -- zero-based
  exponents : List Sci
  mos : List LMO
  energy : Option Fx
  virial : Option Fx
  mospin : List Int            -- empty when the section is absent
  deriving DecidableEq, Repr

def load (T : Tables) (L : Layout) : List Str → R Loaded
  | l1 :: l2 :: rest =>
    if !startsWith startG l2 then .error .format else
    match pyInt (sl L.sMo l2), pyInt (sl L.sPrim l2), pyInt (sl L.sNat l2) with
    | some nmo, some nprim, some nat =>
      if nmo < 0 || nprim < 0 || nat < 0 then .error .format else
      match readN (readAtom T L) nat.toNat rest with
      | .error e => .error e
      | .ok (atoms, r1) =>
        match readSec pyInt hCentre L.intSkip L.intW nprim.toNat r1 with
        | .error e => .error e
        | .ok (cs, r2) =>
          match readSec pyInt hType L.intSkip L.intW nprim.toNat r2 with
          | .error e => .error e
          | .ok (ts, r3) =>
            match readSec (pySci L.expD) hExp L.expSkip L.expW nprim.toNat r3 with
            | .error e => .error e
            | .ok (es, r4) =>
              match readMOs L nprim.toNat nmo.toNat r4 with
              | .error e => .error e
              | .ok (mos, r5) =>
                match findLine kEnergy r5 with
                | none => .error .eof
                | some (le, r6) =>
                  match (splitWs (sl L.sTe le)).head?.bind (pyFixN L.teD), pyFixN L.vrD (sl L.sVr le) with
                  | some en, some vr =>
                    match findLine kSpin r6 with
                    | none => .ok ⟨strip l1, atoms, cs.map (· - 1), ts.map (· - 1), es, mos, en, vr, []⟩
                    | some (_, r7) =>
                      match readSec pyInt [] 0 L.spinW nmo.toNat r7 with
                      | .error e => .error e
                      | .ok (sp, _) => .ok ⟨strip l1, atoms, cs.map (· - 1), ts.map (· - 1), es, mos, en, vr, sp⟩
                  | _, _ => .error .float
    | _, _, _ => .error .int
  | _ => .error .eof

/-! ### what a round trip returns -/

def norm (L : Layout) (o : Obj) : Loaded :=
  ⟨outTitle L o.title, o.atoms, o.prims.map (fun p => (p.1 : Int)), o.prims.map (fun p => (p.2.1 : Int)), o.prims.map (·.2.2),
   o.mos.zipIdx.map (fun p => ⟨((p.2 + 1 : Nat) : Int), p.1.occ, p.1.energy, p.1.coeffs⟩), o.energy, o.virial, o.mospin.getD []⟩

/-- the loaded arrays as an object to be saved again -/
def zip3 : List Int → List Int → List Sci → List (Nat × Nat × Sci)
  | a :: as, b :: bs, c :: cs => (a.toNat, b.toNat, c) :: zip3 as bs cs
  | _, _, _ => []

def Loaded.obj (x : Loaded) : Obj :=
  ⟨x.title, x.atoms, zip3 x.icenters x.types x.exponents, x.mos.map (fun m => ⟨m.occ, m.energy, m.coeffs⟩), x.energy, x.virial,
   if x.mospin.isEmpty then none else some x.mospin⟩

/-! ### domain -/

def fitsI (w : Nat) (i : Int) : Bool := decide ((intToDec i).length ≤ w)
def fitsF (w d : Nat) (x : Fx) : Bool := decide ((fixCore false d x).length ≤ w)
def fitsFN (w d : Nat) : Option Fx → Bool
  | none => true
  | some x => fitsF w d x
def fitsS (w d : Nat) (x : Sci) : Bool := decide ((sciCore false true d x).length ≤ w) && decide (x.man < 10 ^ (d + 1))

/-- element whose symbol the reader's heuristic maps back: at most two blank-free characters; the first two characters
of the title-cased field (the symbol, padded with a blank if it has one letter) or else its first letter give `z` -/
def okZ (T : Tables) (L : Layout) (z : Nat) : Bool :=
  match T.sym? z with
  | none => false
  | some s =>
    decide (NoWs s) && !s.isEmpty && decide (s.length ≤ 2) && decide (s.length < L.symW) &&
    (symLookup T (title ((s ++ [' ']).take 2)) == some z)

def okTitle (t : Str) : Bool := decide (Trimmed t) && !t.contains '\n'

def okAtom (T : Tables) (L : Layout) (a : Atom) : Bool :=
  okZ T L a.zn && fitsF L.cW L.cD a.x && fitsF L.cW L.cD a.y && fitsF L.cW L.cD a.z && fitsF L.chW L.chD ⟨false, a.zn * 10 ^ L.chD⟩

def okPrim (L : Layout) (p : Nat × Nat × Sci) : Bool :=
  fitsI L.intW ((p.1 + 1 : Nat) : Int) && fitsI L.intW ((p.2.1 + 1 : Nat) : Int) && fitsS L.expW L.expD p.2.2

def okMO (L : Layout) (nprim : Nat) (m : MO) : Bool :=
  fitsF L.occW L.occD m.occ && fitsF L.enW L.enD m.energy && decide (m.coeffs.length = nprim) && m.coeffs.all (fitsS L.coefW L.coefD)

def okSpin (L : Layout) (nmo : Nat) : Option (List Int) → Bool
  | none => true
  | some l => !l.isEmpty && decide (l.length = nmo) && l.all (fitsI L.spinW)

def Dom (T : Tables) (L : Layout) (o : Obj) : Prop :=
  okTitle o.title = true ∧
  fitsI L.moW o.mos.length = true ∧ fitsI L.primW o.prims.length = true ∧ fitsI L.natW o.atoms.length = true ∧
  o.atoms.length < 10 ^ L.idxW ∧ o.mos.length < 10 ^ L.mnW ∧
  (∀ a ∈ o.atoms, okAtom T L a = true) ∧ (∀ p ∈ o.prims, okPrim L p = true) ∧ (∀ m ∈ o.mos, okMO L o.prims.length m = true) ∧
  fitsFN L.teW L.teD o.energy = true ∧ fitsFN L.vrW L.vrD o.virial = true ∧ okSpin L o.mos.length o.mospin = true

instance (T : Tables) (L : Layout) (o : Obj) : Decidable (Dom T L o) := by unfold Dom; infer_instance

/-- the reader's slices are the writer's columns; section names start the section lines; items are at least two wide -/
def LayoutOK (L : Layout) : Prop :=
  L.sMo = (lGauss.length, lGauss.length + L.moW) ∧
  L.sPrim = (lGauss.length + L.moW + lMol.length, lGauss.length + L.moW + lMol.length + L.primW) ∧
  L.sNat = (lGauss.length + L.moW + lMol.length + L.primW + lPrim.length, lGauss.length + L.moW + lMol.length + L.primW + lPrim.length + L.natW) ∧
  L.sSym = lAtm0.length + L.symW + L.idxW ∧
  L.sX = (L.sSym + lAtm1.length + L.idxW + lAtm2.length, L.sSym + lAtm1.length + L.idxW + lAtm2.length + L.cW) ∧
  L.sY = (L.sX.2, L.sX.2 + L.cW) ∧ L.sZ = (L.sY.2, L.sY.2 + L.cW) ∧
  L.sNum = (lMO.length, lMO.length + L.mnW) ∧
  L.sOcc = (lMO.length + L.mnW + lMO1.length + L.zW + lMO2.length, lMO.length + L.mnW + lMO1.length + L.zW + lMO2.length + L.occW) ∧
  L.sEn = (L.sOcc.2 + lMO3.length, L.sOcc.2 + lMO3.length + L.enW) ∧
  L.sTe = (lTe0.length, lTe0.length + L.teW) ∧ L.sVr = (lTe0.length + L.teW + lTe1.length, lTe0.length + L.teW + lTe1.length + L.vrW) ∧
  2 ≤ L.intW ∧ 2 ≤ L.expW ∧ 2 ≤ L.coefW ∧ 2 ≤ L.spinW ∧ 0 < L.intPer ∧ 0 < L.expPer ∧ 0 < L.coefPer ∧ 0 < L.spinPer ∧
  0 < L.expD ∧ 0 < L.coefD ∧ 0 < L.idxW ∧ 0 < L.mnW ∧
  startsWith hCentre (ljust L.intSkip (hCentre.take L.intSkip)) = true ∧ startsWith hType (ljust L.intSkip (hType.take L.intSkip)) = true ∧
  startsWith hExp (ljust L.expSkip (hExp.take L.expSkip)) = true ∧
  (fixCore false L.zD ⟨false, 0⟩).length ≤ L.zW ∧ kNan.length ≤ L.teW ∧ kNan.length ≤ L.vrW ∧
  okTitle L.defaultTitle = true ∧ L.defaultTitle ≠ []

instance (L : Layout) : Decidable (LayoutOK L) := by unfold LayoutOK; infer_instance

/-! ### shape of the source the model assumes (T1) -/

structure SecDef where
  name : Str          -- `FMT_CNTR`, …
  header : Str
  skip : Nat
  spec : Str          -- `{:3d}`, `{:14.7E}`, …
  per : Nat
  deriving DecidableEq, Repr

structure Source where
  fmts : List (Str × List Field)          -- `FMT_NUM`, `FMT_ATM`, `FMT_MOS`, `FMT_ENERGY` as fields
  secs : List SecDef                      -- the `_format_helper_section` definitions
  dumps : List (Str × Str × Nat × Nat)    -- `_dump_helper_section(f, data, fmt, skip, step, nline)` calls: data, fmt, skip, nline
  loads : List (Str × Nat × Nat × Str)    -- `_load_helper_section(lit, n, start, skip, step, dtype)` calls: start, skip, step, dtype
  slices : List (Str × Nat × Option Nat)  -- every `line[a:b]` of the helpers, with its function
  consts : List Str                       -- string constants: prints, `startswith` arguments, `in line` keys, default title
  deriving DecidableEq, Repr

def specI (w : Nat) : Str := ['{', ':'] ++ natToDec w ++ ['d', '}']
def specE (w d : Nat) : Str := ['{', ':'] ++ natToDec w ++ ['.'] ++ natToDec d ++ ['E', '}']

def expectedSource (L : Layout) : Source :=
  let i (n : Nat) (w : Nat) : Field := .int (natToDec n) w
  let f (n : Nat) (w d : Nat) : Field := .fix (natToDec n) false w d
  { fmts :=
      [ ("FMT_NUM".toList, [.lit lGauss, i 0 L.moW, .lit lMol, i 1 L.primW, .lit lPrim, i 2 L.natW, .lit lNuc]),
        ("FMT_ATM".toList, [.lit lAtm0, .str ['0'] L.symW false, i 1 L.idxW, .lit lAtm1, i 2 L.idxW, .lit lAtm2, f 3 L.cW L.cD,
          f 4 L.cW L.cD, f 5 L.cW L.cD, .lit lAtm3, f 6 L.chW L.chD]),
        ("FMT_MOS".toList, [.lit lMO, i 0 L.mnW, .lit lMO1, f 1 L.zW L.zD, .lit lMO2, f 2 L.occW L.occD, .lit lMO3, f 3 L.enW L.enD]),
        ("FMT_ENERGY".toList, [.lit lTe0, f 0 L.teW L.teD, .lit lTe1, f 1 L.vrW L.vrD]) ],
    secs :=
      [ ⟨"FMT_CNTR".toList, hCentre, L.intSkip, specI L.intW, L.intPer⟩, ⟨"FMT_TYPE".toList, hType, L.intSkip, specI L.intW, L.intPer⟩,
        ⟨"FMT_EXPN".toList, hExp, L.expSkip, specE L.expW L.expD, L.expPer⟩, ⟨"FMT_COEF".toList, [], 0, specE L.coefW L.coefD, L.coefPer⟩,
        ⟨"FMT_SPIN".toList, [], 0, specI L.spinW, L.spinPer⟩ ],
    dumps :=
      [ ("cntrs".toList, "FMT_CNTR".toList, L.intSkip, L.intPer), ("types".toList, "FMT_TYPE".toList, L.intSkip, L.intPer),
        ("expns".toList, "FMT_EXPN".toList, L.expSkip, L.expPer), ("coeffs".toList, "FMT_COEF".toList, 0, L.coefPer),
        ("data.extra['mo_spin']".toList, "FMT_SPIN".toList, 0, L.spinPer) ],
    loads :=
      [ ([], 0, L.coefW, "float".toList), ([], 0, L.spinW, "int".toList), (hCentre, L.intSkip, L.intW, "int".toList),
        (hType, L.intSkip, L.intW, "int".toList), (hExp, L.expSkip, L.expW, "float".toList) ],
    slices :=
      [ ("_load_helper_num".toList, L.sMo.1, some L.sMo.2), ("_load_helper_num".toList, L.sPrim.1, some L.sPrim.2),
        ("_load_helper_num".toList, L.sNat.1, some L.sNat.2), ("_load_helper_atoms".toList, 0, some L.sSym),
        ("_load_helper_atoms".toList, L.sX.1, some L.sX.2), ("_load_helper_atoms".toList, L.sY.1, some L.sY.2),
        ("_load_helper_atoms".toList, L.sZ.1, some L.sZ.2), ("_load_helper_mo".toList, L.sNum.1, some L.sNum.2),
        ("_load_helper_mo".toList, L.sOcc.1, some L.sOcc.2), ("_load_helper_mo".toList, L.sEn.1, some L.sEn.2),
        ("_load_helper_energy".toList, L.sTe.1, some L.sTe.2), ("_load_helper_energy".toList, L.sVr.1, some L.sVr.2) ],
    consts := [startG, lMO, kEnergy, kSpin, lEnd, lSpin ++ ['\n', '\n'], L.defaultTitle] }

end Iodata.Fmt.WfnS
