/-
AIM WFX (`iodata/formats/wfx.py`), SECTION layer: a file is a sequence of tagged sections
`<Tag>` … `</Tag>`; the writer prints text lines as they are, integers ten per line (`" ".join(f"{c:d}")`), reals four
(coordinates: three) per line as `{: ,.14E}` (`NAN` when not a number), and inside
`<Molecular Orbital Primitive Coefficients>` one `<MO Number>` / number / `</MO Number>` record before the coefficients of
every orbital.  The reader is `parse_wfx` transcribed (every line stripped; a line starting with `<` opens a section when
none is open; a line starting with `</` must close the open one, compared without blanks; the `<MO Number>` sub-records
collected under `<MO Numbers>`; a repeated or unclosed section is an error) followed by the typed decoding of
`load_data_wfx` (`" ".join(lines)` parsed number by number).

Which attribute is printed in which section and the meaning of the coefficients are not part of this layer (C01).
Core Lean only.
-/
import Iodata.Model.Fmt.Core
import Iodata.Model.Fmt.Fchk
namespace Iodata.Fmt.WfxS
open Iodata.Chars Iodata.Decimal Iodata.Fmt

structure Layout where
  d : Nat          -- `{: ,.14E}`
  perI : Nat       -- integers per line
  perR : Nat       -- reals per line
  perC : Nat       -- coordinates per line
  deriving DecidableEq, Repr

def moTag : Str := ['<','M','o','l','e','c','u','l','a','r',' ','O','r','b','i','t','a','l',' ','P','r','i','m','i','t','i','v','e',' ','C','o','e','f','f','i','c','i','e','n','t','s','>']
def moNumber : Str := ['<','M','O',' ','N','u','m','b','e','r','>']
def moNumberEnd : Str := ['<','/','M','O',' ','N','u','m','b','e','r','>']
def moNumbers : Str := ['<','M','O',' ','N','u','m','b','e','r','s','>']
def kNAN : Str := ['N','A','N']

inductive Body where
  | text (lines : List Str)                 -- `_write_xml_single` with a string, `_write_xml_iterator` over strings
  | ints (per : Nat) (l : List Int)         -- one integer (`per = 1`), an iterator over integers, ten per line
  | reals (per : Nat) (l : List (Option Sci))  -- `none`: NaN
  | mo (per : Nat) (orbs : List (List (Option Sci)))
  deriving DecidableEq, Repr

structure Sec where
  tag : Str
  body : Body
  deriving DecidableEq, Repr

/-! ### writer -/

/-- `f"{x: ,.14E}"` -/
def real (L : Layout) : Option Sci → Str
  | none => ' ' :: kNAN
  | some x => sciCoreC true 'E' L.d x

/-- `"</" + tag.lstrip("<")` -/
def closeTag (tag : Str) : Str := '<' :: '/' :: tag.dropWhile (· == '<')

def numLines {α} (per : Nat) (render : α → Str) (l : List α) : List Str :=
  if l.isEmpty then [] else (Fchk.chunks per l).map fun ch => joinSp (ch.map render) ++ ['\n']

def moLines (L : Layout) (per : Nat) : Nat → List (List (Option Sci)) → List Str
  | _, [] => []
  | i, cs :: rest => (moNumber ++ ['\n']) :: (natToDec (i + 1) ++ ['\n']) :: (moNumberEnd ++ ['\n']) ::
      (numLines per (real L) cs ++ moLines L per (i + 1) rest)

def bodyLines (L : Layout) : Body → List Str
  | .text ls => ls.map (· ++ ['\n'])
  | .ints per l => numLines per intToDec l
  | .reals per l => numLines per (real L) l
  | .mo per orbs => moLines L per 0 orbs

def dumpSec (L : Layout) (s : Sec) : List Str := (s.tag ++ ['\n']) :: (bodyLines L s.body ++ [closeTag s.tag ++ ['\n']])

def dump (L : Layout) (secs : List Sec) : List Str := secs.flatMap (dumpSec L)

/-! ### reader: `parse_wfx` -/

abbrev Dict := List (Str × List Str)

def hasKey (d : Dict) (k : Str) : Bool := d.any fun e => e.1 == k

/-- `data[k].append(line)` -/
def dictAppend (d : Dict) (k : Str) (line : Str) : Dict := d.map fun e => if e.1 == k then (e.1, e.2 ++ [line]) else e

def noBlanks (s : Str) : Str := s.filter (· != ' ')

/-- `line[:1] + "/" + line[1:]` -/
def endOf : Str → Str
  | [] => ['/']
  | c :: r => c :: '/' :: r

def ltS : Str := ['<']
def ltSlash : Str := ['<','/']

/-- the `while True` loop; `cur` is `section_start` -/
def parseGo : Nat → Dict → Option Str → List Str → R Dict
  | 0, _, _, _ => .error .eof
  | _ + 1, d, cur, [] => if cur.isSome then .error .format else .ok d
  | f + 1, d, cur, raw :: rest =>
    let line := strip raw
    match cur with
    | none =>
      if startsWith ltS line then
        if hasKey d line then .error .format else
        let d1 := d ++ [(line, [])]
        let d2 := if line == moTag then d1 ++ [(moNumbers, [])] else d1
        parseGo f d2 (some line) rest
      else .error .index          -- `data[None]`: KeyError
    | some sec =>
      if startsWith ltSlash line then
        if noBlanks line != noBlanks (endOf sec) then .error .format else parseGo f d none rest
      else if sec == moTag && line == moNumber then
        match rest with
        | num :: _ :: rest' => parseGo f (dictAppend d moNumbers (strip num)) cur rest'
        | _ => .error .eof
      else parseGo f (dictAppend d sec line) cur rest

def parse (lines : List Str) : R Dict := parseGo (lines.length + 1) [] none lines

/-! ### typed decoding (`load_data_wfx`) -/

def optAll {α β} (f : α → Option β) : List α → Option (List β)
  | [] => some []
  | a :: as =>
    match f a, optAll f as with
    | some b, some bs => some (b :: bs)
    | _, _ => none

/-- `float(word)` for a `.14E` text or `NAN` -/
def pyReal (d : Nat) (w : Str) : Option (Option Sci) :=
  if upper (strip w) == kNAN then some none else (pySci d w).map some

/-- `np.fromstring(" ".join(value), dtype=int, sep=" ")` -/
def decodeInts (lines : List Str) : Option (List Int) := optAll pyInt (splitWs (joinSp lines))

def decodeReals (d : Nat) (lines : List Str) : Option (List (Option Sci)) := optAll (pyReal d) (splitWs (joinSp lines))

/-! ### what the reader holds after the written file -/

def stripAll (ls : List Str) : List Str := ls.map strip

/-- the stripped body lines of a section, and for the orbital section the list of orbital numbers -/
def entries (L : Layout) (s : Sec) : Dict :=
  match s.body with
  | .mo per orbs =>
    [(s.tag, stripAll (orbs.flatMap fun cs => numLines per (real L) cs)), (moNumbers, (List.range orbs.length).map fun i => natToDec (i + 1))]
  | b => [(s.tag, stripAll (bodyLines L b))]

def norm (L : Layout) (secs : List Sec) : Dict := secs.flatMap (entries L)

/-- the section list as the reader knows it: text lines without surrounding blanks -/
def normBody : Body → Body
  | .text ls => .text (ls.map strip)
  | b => b

def normSec (s : Sec) : Sec := ⟨s.tag, normBody s.body⟩

/-! ### domain -/

def okTag (t : Str) : Bool :=
  decide (Trimmed t) && !t.contains '\n' &&
  (match t with
   | a :: c :: _ => a == '<' && c != '<' && c != '/'
   | _ => false)

def okText (l : Str) : Bool := !l.contains '\n' && !startsWith ltSlash (strip l)

def okSci (L : Layout) : Option Sci → Bool
  | none => true
  | some x => decide (x.man < 10 ^ (L.d + 1))

def okBody (L : Layout) : Body → Bool
  | .text ls => ls.all okText
  | .ints per _ => decide (0 < per)
  | .reals per l => decide (0 < per) && l.all (okSci L)
  | .mo per orbs => decide (0 < per) && orbs.all fun cs => cs.all (okSci L)

def isMo : Body → Bool
  | .mo _ _ => true
  | _ => false

/-- well-formed section list: good, distinct tags; the orbital body exactly under the orbital tag; `<MO Numbers>` is not a tag;
outside the orbital section no text line is `<MO Number>` (inside it there are no text lines) -/
def Dom (L : Layout) (secs : List Sec) : Prop :=
  (∀ s ∈ secs, okTag s.tag = true ∧ okBody L s.body = true ∧ (isMo s.body = true ↔ s.tag = moTag) ∧ s.tag ≠ moNumbers) ∧
  (secs.map (·.tag)).Nodup

instance (L : Layout) (secs : List Sec) : Decidable (Dom L secs) := by unfold Dom; infer_instance

def LayoutOK (L : Layout) : Prop := 0 < L.d

instance (L : Layout) : Decidable (LayoutOK L) := by unfold LayoutOK; infer_instance

/-! ### shape of the source the model assumes (T1) -/

def specR (L : Layout) (name : String) : Field := .other ("{" ++ name ++ ": ,." ++ String.ofList (natToDec L.d) ++ "E}").toList

def joinExpr (L : Layout) (spec var src : String) (per : Nat) : Field :=
  .str ("' '.join([f'{" ++ var ++ spec ++ "}' for " ++ var ++ " in " ++ src ++ "[j:j + " ++ String.ofList (natToDec per) ++ "]])").toList 0 false

def expectedWrites (L : Layout) : List Write :=
  let d := "dump_one".toList
  let nl : Field := .lit ['\n']
  let sp : Field := .lit [' ']
  let r : String := ": ,." ++ String.ofList (natToDec L.d) ++ "E"
  let helper (fn : String) (body : Field) : List Write :=
    [(fn.toList, [.str "tag".toList 0 false, nl]), (fn.toList, [body, nl]),
     (fn.toList, [.lit ['<', '/'], .str "tag.lstrip('<')".toList 0 false, nl])]
  [ (d, [.lit "<Nuclear Cartesian Coordinates>".toList, nl]),
    (d, [specR L "item[0]", sp, specR L "item[1]", sp, specR L "item[2]", nl]),
    (d, [.lit "</Nuclear Cartesian Coordinates>".toList, nl]),
    (d, [.lit "<Primitive Centers>".toList, nl]), (d, [joinExpr L ":d" "c" "prim_centers" L.perI, nl]), (d, [.lit "</Primitive Centers>".toList, nl]),
    (d, [.lit "<Primitive Types>".toList, nl]), (d, [joinExpr L ":d" "c" "prim_types" L.perI, nl]), (d, [.lit "</Primitive Types>".toList, nl]),
    (d, [.lit "<Primitive Exponents>".toList, nl]), (d, [joinExpr L r "e" "exponents" L.perR, nl]), (d, [.lit "</Primitive Exponents>".toList, nl]),
    (d, [.lit moTag, nl]), (d, [.lit moNumber, nl]), (d, [.str "str(mo + 1)".toList 0 false, nl]), (d, [.lit moNumberEnd, nl]),
    (d, [joinExpr L r "c" "mo_coeffs.T[mo]" L.perR, nl]), (d, [.lit (closeTag moTag), nl]),
    (d, [.lit "<Nuclear Cartesian Energy Gradients>".toList, nl]), (d, [.str "atom[0]".toList 0 false, nl]),
    (d, [.lit "</Nuclear Cartesian Energy Gradients>".toList, nl]) ] ++
  helper "_write_xml_single" (.str "info".toList 0 false) ++ helper "_write_xml_single_scientific" (specR L "info") ++
  helper "_write_xml_iterator" (.str "info_line".toList 0 false) ++ helper "_write_xml_iterator_scientific" (specR L "info_line")

/-- the string constants of `parse_wfx` in source order (error messages excluded) -/
def expectedParseConsts : List Str :=
  [moTag, ltS, ['/'], moNumbers, ltSlash, [' '], [], [' '], [], moNumber, moNumbers]

end Iodata.Fmt.WfxS
