/- All byte-level format models (imported by the generated `Gen/Layouts.lean` and the driver). -/
import Iodata.Model.Fmt.Xyz
import Iodata.Model.Fmt.Sdf
import Iodata.Model.Fmt.Pdb
import Iodata.Model.Fmt.Fchk
import Iodata.Model.Fmt.Cube
import Iodata.Model.Fmt.Mol2
import Iodata.Model.Fmt.Fcidump
import Iodata.Model.Fmt.Poscar
import Iodata.Model.Fmt.Gro
