/-
FCIDUMP (`iodata/formats/fcidump.py`), INDEX layer of the two-electron integrals: the writer's canonical loop
(`i1 ≤ i0`, `i3 ≤ i2`, `i0(i0+1)/2 + i1 ≥ i2(i2+1)/2 + i3`, zero values skipped, chemists' `(i0 i1|i2 i3)` taken from the
physicists' array element `[i0, i2, i1, i3]`) and the reader's loop (`set_four_index_element(two_mo, ii, ik, ij, il, value)`
into an array of zeros).  Values are abstract; the text of a line is not modelled here.
Core Lean only.
-/
import Iodata.Model.Helpers
namespace Iodata.Fmt.Fcidump
open Iodata.Helpers

/-- one data line with four non-zero indices: value and the zero-based chemists' indices `i0 i1 i2 i3` -/
structure Entry (α : Type) where
  v : α
  i0 : Nat
  i1 : Nat
  i2 : Nat
  i3 : Nat

def tri (i : Nat) : Nat := i * (i + 1) / 2

/-- the four nested loops of `dump_one` -/
def entries {α : Type} [DecidableEq α] (zero : α) (n : Nat) (T : Idx → α) : List (Entry α) :=
  (List.range n).flatMap fun i0 => (List.range (i0 + 1)).flatMap fun i1 =>
    (List.range n).flatMap fun i2 => (List.range (i2 + 1)).filterMap fun i3 =>
      if tri i0 + i1 ≥ tri i2 + i3 ∧ T (i0, i2, i1, i3) ≠ zero then some ⟨T (i0, i2, i1, i3), i0, i1, i2, i3⟩ else none

/-- the reader: `set_four_index_element(two_mo, ii, ik, ij, il, value)` line after line, starting from zeros -/
def fill {α : Type} (zero : α) (es : List (Entry α)) : Idx → α :=
  es.foldl (fun a e => setFour a e.i0 e.i2 e.i1 e.i3 e.v) (fun _ => zero)

end Iodata.Fmt.Fcidump
