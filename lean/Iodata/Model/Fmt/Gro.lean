/-
GROMACS GRO (`iodata/formats/gromacs.py`): `_helper_read_frame` transcribed as it is (reader only; iodata has no GRO
writer), and an independent renderer of the published layout
`%5d%-5s%5s%5d%8.3f%8.3f%8.3f%8.4f%8.4f%8.4f` (any precision `d`: positions `%(d+5).(d)f`, velocities `%(d+5).(d+1)f`),
title line, `%5d` atom count, box line of 3 or 9 numbers.  Core Lean only.
-/
import Iodata.Model.Fmt.Core
namespace Iodata.Fmt.Gro
open Iodata.Chars Iodata.Decimal Iodata.Fmt

/-- the reader's constants (extracted from the source) -/
structure Layout where
  sResnum : Nat × Nat    -- `line[:5]`
  sResname : Nat × Nat   -- `line[5:10]`
  sAtname : Nat × Nat    -- `line[10:15]`
  posFrom : Nat          -- 20
  optVel : Bool          -- velocity columns may be absent (guard in the source)
  deriving DecidableEq, Repr

structure Atom where
  resnum : Int
  resname : Str
  atname : Str
  serial : Int           -- atom number, columns 16-20 (not read by iodata)
  x : Fx
  y : Fx
  z : Fx
  vel : Option (Fx × Fx × Fx)
  deriving DecidableEq, Repr

structure Obj where
  title : Str
  d : Nat                  -- decimals of the positions
  atoms : List Atom
  box : List Fx            -- 3 or 9 numbers, 5 decimals
  deriving DecidableEq, Repr

/-! ### the published layout -/

def boxD : Nat := 5
def boxW : Nat := 10

def specAtom (d : Nat) (a : Atom) : Str :=
  [ fmtInt 5 a.resnum, ljust 5 a.resname, rjust 5 a.atname, fmtInt 5 a.serial,
    fmtFix false (d + 5) d a.x, fmtFix false (d + 5) d a.y, fmtFix false (d + 5) d a.z,
    (match a.vel with
     | none => []
     | some (vx, vy, vz) => fmtFix false (d + 5) (d + 1) vx ++ (fmtFix false (d + 5) (d + 1) vy ++ fmtFix false (d + 5) (d + 1) vz)),
    ['\n'] ].flatten

def specRender (o : Obj) : List Str :=
  (o.title ++ ['\n']) :: (fmtInt 5 o.atoms.length ++ ['\n']) :: (o.atoms.map (specAtom o.d) ++
    [(o.box.map (fmtFix false boxW boxD)).flatten ++ ['\n']])

/-! ### reader -/

def findIdx (c : Char) : Str → Option Nat
  | [] => none
  | x :: xs => if x == c then some 0 else (findIdx c xs).map (· + 1)

/-- `s.index(c, start)` -/
def findFrom (c : Char) (start : Nat) (s : Str) : Option Nat := (findIdx c (s.drop start)).map (· + start)

structure LAtom where
  resnum : Int
  resname : Str
  atname : Str
  x : Fx
  y : Fx
  z : Fx
  vel : Fx × Fx × Fx
  deriving DecidableEq, Repr

def zeroFx : Fx := ⟨false, 0⟩

def sl (p : Nat × Nat) (s : Str) : Str := slice p.1 p.2 s

/-- one pass of the atom loop; returns the atom and the width found on this line -/
def readAtom (L : Layout) (line : Str) : R (LAtom × Nat) :=
  match pyInt (sl L.sResnum line), (splitWs (sl L.sResname line)).getLast?, (splitWs (sl L.sAtname line)).getLast? with
  | some rn, some rname, some aname =>
    (match findFrom '.' L.posFrom line with
     | none => .error .format
     | some dot =>
       match findFrom '.' (dot + 1) line with
       | none => .error .format
       | some dot2 =>
         let w := dot2 - dot
         let d := w - 5
         let f (j : Nat) : Str := slice (L.posFrom + j * w) (L.posFrom + (j + 1) * w) line
         match pyFix d (f 0), pyFix d (f 1), pyFix d (f 2) with
         | some x, some y, some z =>
           if L.optVel && (strip (sliceFrom (L.posFrom + 3 * w) line)).isEmpty then .ok (⟨rn, rname, aname, x, y, z, (zeroFx, zeroFx, zeroFx)⟩, w)
           else
             (match pyFix (d + 1) (f 3), pyFix (d + 1) (f 4), pyFix (d + 1) (f 5) with
              | some vx, some vy, some vz => .ok (⟨rn, rname, aname, x, y, z, (vx, vy, vz)⟩, w)
              | _, _, _ => .error .float)
         | _, _, _ => .error .float)
  | _, _, _ => .error .int

structure Loaded where
  title : Str
  atoms : List LAtom
  cell : List (List Fx)      -- 3×3, rows are the cell vectors
  deriving DecidableEq, Repr

def hasSub (p : Str) : Str → Bool
  | [] => p.isEmpty
  | c :: cs => p.isPrefixOf (c :: cs) || hasSub p cs

def tEq : Str := ['t', '=']

def cellOf (ws : List Fx) : List (List Fx) :=
  let g (i : Nat) : Fx := ws.getD i zeroFx
  if ws.length = 9 then [[g 0, g 3, g 4], [g 5, g 1, g 6], [g 7, g 8, g 2]]
  else if ws.length ≥ 3 then [[g 0, zeroFx, zeroFx], [zeroFx, g 1, zeroFx], [zeroFx, zeroFx, g 2]]
  else [[zeroFx, zeroFx, zeroFx], [zeroFx, zeroFx, zeroFx], [zeroFx, zeroFx, zeroFx]]

def boxStep (w : Str) (acc : R (List Fx)) : R (List Fx) :=
  match acc, pyFix boxD w with
  | .ok l, some v => .ok (v :: l)
  | .error e, _ => .error e
  | _, none => .error .float

/-- the words of the box line the code converts (0..2 or 0..8) -/
def boxWords (ws : List Str) : R (List Fx) :=
  let used := if ws.length = 9 then ws else if ws.length ≥ 3 then ws.take 3 else []
  used.foldr boxStep (.ok [])

/-- `_helper_read_frame` for a title without time stamp -/
def load (L : Layout) : List Str → R Loaded
  | l1 :: l2 :: rest =>
    if hasSub tEq l1 then .error .format else      -- titles with `t=` carry a time: outside this model
    match pyInt l2 with
    | none => .error .int
    | some n =>
      if n < 0 then .error .format else
      match readN (readAtom L) n.toNat rest with
      | .error e => .error e
      | .ok (atoms, rest') =>
        match rest' with
        | [] => .error .eof
        | bl :: _ =>
          match boxWords (splitWs bl) with
          | .error e => .error e
          | .ok ws => .ok ⟨l1.dropLast, atoms.map (·.1), cellOf ws⟩
  | _ => .error .eof

/-! ### what the file denotes -/

def normAtom (a : Atom) : LAtom :=
  ⟨a.resnum, a.resname, a.atname, a.x, a.y, a.z, a.vel.getD (zeroFx, zeroFx, zeroFx)⟩

def denote (o : Obj) : Loaded := ⟨o.title, o.atoms.map normAtom, cellOf o.box⟩

def okName (s : Str) : Bool := decide (NoWs s) && !s.isEmpty && decide (s.length ≤ 5)

def fits (w d : Nat) (v : Fx) : Bool := decide ((fixCore false d v).length ≤ w)

def AtomOK (L : Layout) (d : Nat) (a : Atom) : Prop :=
  (intToDec a.resnum).length ≤ 5 ∧ okName a.resname = true ∧ okName a.atname = true ∧ (intToDec a.serial).length ≤ 5 ∧
  fits (d + 5) d a.x = true ∧ fits (d + 5) d a.y = true ∧ fits (d + 5) d a.z = true ∧
  (match a.vel with
   | none => L.optVel = true
   | some (vx, vy, vz) => fits (d + 5) (d + 1) vx = true ∧ fits (d + 5) (d + 1) vy = true ∧ fits (d + 5) (d + 1) vz = true)

instance (L : Layout) (d : Nat) (a : Atom) : Decidable (AtomOK L d a) := by
  unfold AtomOK; cases a.vel <;> infer_instance

def Dom (L : Layout) (o : Obj) : Prop :=
  hasSub tEq o.title = false ∧ '\n' ∉ o.title ∧ 0 < o.d ∧ (∀ a ∈ o.atoms, AtomOK L o.d a) ∧
  (o.box.length = 3 ∨ o.box.length = 9) ∧ (∀ v ∈ o.box, (fixCore false boxD v).length < boxW)

instance (L : Layout) (o : Obj) : Decidable (Dom L o) := by unfold Dom; infer_instance

/-- the reader's columns are the published ones -/
def LayoutOK (L : Layout) : Prop := L.sResnum = (0, 5) ∧ L.sResname = (5, 10) ∧ L.sAtname = (10, 15) ∧ L.posFrom = 20

instance (L : Layout) : Decidable (LayoutOK L) := by unfold LayoutOK; infer_instance

end Iodata.Fmt.Gro
