/-
Gaussian formatted checkpoint (`iodata/formats/fchk.py`), OBJECT layer over the field layer `Model/Fmt/Fchk.lean`: which
attribute of an `IOData` object is written under which label (with which index shuffle and unit), and which label is read
into which attribute.  Both directions are TABLES (`Row`), regenerated from the source on every run by probing
(`Gen/LayoutsW.lean`: a tracer object with every optional attribute set to distinct numbers is dumped and the labels are
matched with the numbers; a file with distinct numbers under every label is loaded and the attributes are matched);
`dump` walks the writer table, `load` walks the reader table.

An object is a store `attribute name ↦ value` of quantised values: integers, `.8E` reals (`Sci`), vectors of them
(matrices with a fixed number of columns are carried flattened, as the file has them), and symmetric matrices carried by
their lower triangle (`.sym n t` is the dense matrix `Fchk.dense 0 n t`).  Masses are carried in the unit of the file (amu);
the unit exponent of a row is data checked for cancellation (`Compat`).  The basis-set / orbital block is carried as
opaque fields (`attr = "=" ++ label` pass-through rows): its attribute semantics (shell arrays ↔ `MolecularBasis`,
`coeffs[perm]·signs` transposed) is C01's `fchk_basis_roundtrip` / `fchk_coeffs_roundtrip`.
Core Lean only.
-/
import Iodata.Model.Fmt.Fchk
namespace Iodata.Fmt.FchkO
open Iodata.Chars Iodata.Decimal Iodata.Fmt Iodata.Fmt.Fchk

inductive AVal where
  | isca (i : Int)
  | sca (x : Sci)
  | ivec (l : List Int)
  | vec (l : List Sci)
  | sym (n : Nat) (t : List Sci)       -- symmetric n×n matrix with lower triangle `t` (row-major)
  deriving DecidableEq, Repr

/-- index shuffle between attribute and field: as is / flattened (`flat`), `arr[np.tril_indices(n)]` ↔ `_triangle_to_dense`
(`tri`), a fancy index vector (`pick`), `np.round` to integers (`round`, writer only) -/
inductive Tr where
  | flat
  | tri
  | pick (idx : List Nat)
  | round
  deriving DecidableEq, Repr

structure Row where
  attr : Str
  label : Str
  tr : Tr
  unit : Int      -- power of `amu` applied between attribute and file (writer: −1 for `/ amu`; reader: +1 for `* amu`)
  deriving DecidableEq, Repr

abbrev Store := List (Str × AVal)

def get (s : Store) (a : Str) : Option AVal := lookupK s a

def zeroS : Sci := ⟨false, 0, 0⟩

/-- `np.round` of the number `man·10^(exp−d)`: nearest integer, ties to even -/
def sciRound (d : Nat) (x : Sci) : Int :=
  let e := x.exp - (d : Int)
  let m : Nat :=
    if 0 ≤ e then x.man * 10 ^ e.toNat
    else
      let p := 10 ^ (-e).toNat
      let q := x.man / p
      let r := x.man % p
      if 2 * r < p then q else if p < 2 * r then q + 1 else if q % 2 = 0 then q else q + 1
  if x.neg then -(m : Int) else (m : Int)

/-- attribute value → field payload (writer side) -/
def appW (d : Nat) : Tr → AVal → Option Value
  | .flat, .isca i => some (.int i)
  | .flat, .sca x => some (.real x)
  | .flat, .ivec l => some (.ints l)
  | .flat, .vec l => some (.reals l)
  | .tri, .sym n t => some (.reals (tril (dense zeroS n t)))
  | .pick idx, .vec l => some (.reals (pick zeroS idx l))
  | .round, .vec l => some (.ints (l.map (sciRound d)))
  | _, _ => none

/-- field payload → attribute value (reader side) -/
def appR : Tr → Value → Option AVal
  | .flat, .int i => some (.isca i)
  | .flat, .real x => some (.sca x)
  | .flat, .ints l => some (.ivec l)
  | .flat, .reals l => some (.vec l)
  | .tri, .reals t => some (.sym (triRows t.length) t)
  | .pick idx, .reals l => some (.vec (pick zeroS idx l))
  | _, _ => none

/-! ### the level of theory in the labels of the post-SCF densities -/

def hasSub (p : Str) : Str → Bool
  | [] => p.isEmpty
  | c :: s => p.isPrefixOf (c :: s) || hasSub p s

def levels : List Str := [['M','P','2'], ['M','P','3'], ['C','C'], ['C','I']]

/-- `level = lot.upper() or "NA"; for item in ["MP2", "MP3", "CC", "CI"]: if item in level: level = item` -/
def levelOf (absent : Str) (lot : Option Str) : Str :=
  let l0 := match lot with
    | none => absent
    | some s => upper s
  levels.foldl (fun lv item => if hasSub item lv then item else lv) l0

def placeholder : Str := ['{','l','e','v','e','l','}']

/-- replace the first `{level}` of a label template -/
def subst (lv : Str) : Str → Str
  | [] => []
  | c :: s => if placeholder.isPrefixOf (c :: s) then lv ++ (c :: s).drop placeholder.length else c :: subst lv s

def resolve (lv : Str) (W : List Row) : List Row := W.map fun w => { w with label := subst lv w.label }

/-! ### writer -/

def emit (d : Nat) (s : Store) (w : Row) : Option Fld :=
  (get s w.attr).bind fun v => (appW d w.tr v).map fun x => (w.label, x)

/-- the fields of the file, in the order of the writer table -/
def fieldsOf (d : Nat) (W : List Row) (s : Store) : List Fld := W.filterMap (emit d s)

structure Obj where
  title : Str
  runType : Option Str
  lot : Option Str
  basis : Option Str
  store : Store
  deriving DecidableEq, Repr

def toFields (L : Layout) (W : List Row) (o : Obj) : Fchk.Obj :=
  ⟨o.title, o.runType, o.lot, o.basis, fieldsOf L.aD (resolve (levelOf L.absent o.lot) W) o.store⟩

def dump (L : Layout) (Rn : RunTypes) (W : List Row) (o : Obj) : List Str := Fchk.dump L Rn (toFields L W o)

/-! ### reader -/

def absorb (fs : List Fld) (r : Row) : Option (Str × AVal) :=
  (lookupK fs r.label).bind fun x => (appR r.tr x).map fun v => (r.attr, v)

/-- the attributes set by `load_one`, in the order of the reader table -/
def attrsOf (R : List Row) (fs : List Fld) : Store := R.filterMap (absorb fs)

structure Loaded where
  title : Str
  runType : Option Str
  lot : Str
  basis : Option Str
  store : Store
  deriving DecidableEq, Repr

def load (L : Layout) (Rn : RunTypes) (R : List Row) (lines : List Str) : Fmt.R Loaded :=
  match Fchk.load L.reader Rn (fun _ => true) lines with
  | .error e => .error e
  | .ok x => .ok ⟨x.title, x.runType, x.lot, x.basis, attrsOf R x.fields⟩

/-! ### what a round trip returns -/

def findW (W : List Row) (label : Str) : Option Row := W.find? fun w => w.label == label

/-- every attribute that has a writer row whose label the reader knows, under the reader's name for it, with its value -/
def normStore (W R : List Row) (s : Store) : Store :=
  R.filterMap fun r => (findW W r.label).bind fun w => (get s w.attr).map fun v => (r.attr, v)

def norm (L : Layout) (Rn : RunTypes) (W R : List Row) (o : Obj) : Loaded :=
  let h := Fchk.norm L Rn (toFields L W o)
  ⟨h.title, h.runType, h.lot, h.basis, normStore (resolve (levelOf L.absent o.lot) W) R o.store⟩

def Loaded.obj (x : Loaded) : Obj := ⟨x.title, x.runType, some x.lot, x.basis, x.store⟩

/-! ### domain and table conditions -/

/-- a value the transform of its row accepts and that makes a non-empty field: vectors are not empty, a symmetric matrix
is given by exactly `n(n+1)/2` triangle elements, a picked vector has as many elements as the index vector -/
def okVal : Tr → AVal → Bool
  | .flat, .isca _ => true
  | .flat, .sca _ => true
  | .flat, .ivec l => !l.isEmpty
  | .flat, .vec l => !l.isEmpty
  | .tri, .sym n t => decide (0 < n) && decide (t.length = n * (n + 1) / 2)
  | .pick idx, .vec l => !idx.isEmpty && decide (l.length = idx.length)
  | .round, .vec l => !l.isEmpty
  | _, _ => false

/-- `b` undoes `a`: `x[a][b] = x` for vectors of that length -/
def pickInv (a b : List Nat) : Bool :=
  decide (a.length = b.length) && (List.range b.length).all fun i => decide (b.getD i 0 < a.length) && decide (a.getD (b.getD i 0) 0 = i)

def invTr : Tr → Tr → Bool
  | .flat, .flat => true
  | .tri, .tri => true
  | .pick a, .pick b => pickInv a b
  | _, _ => false

def matched (W : List Row) (r : Row) : Bool := (findW W r.label).isSome

/-- the tables fit: writer labels are distinct; wherever a writer row and a reader row share a label they name the same
attribute, their shuffles are inverse and their unit factors cancel; the reader rows that can fire set distinct attributes -/
def TablesOK (W R : List Row) : Prop :=
  (W.map (·.label)).Nodup ∧
  (∀ r ∈ R, ∀ w ∈ W, w.label = r.label → w.attr = r.attr ∧ invTr w.tr r.tr = true ∧ w.unit + r.unit = 0) ∧
  ((R.filter (matched W)).map (·.attr)).Nodup

instance (W R : List Row) : Decidable (TablesOK W R) := by unfold TablesOK; infer_instance

/-- every attribute a writer row refers to has a value that row accepts -/
def okStore (W : List Row) (s : Store) : Bool :=
  W.all fun w => match get s w.attr with
    | some v => okVal w.tr v
    | none => true

def Dom (L : Layout) (W : List Row) (o : Obj) : Prop :=
  Fchk.Dom L (toFields L W o) ∧ okStore (resolve (levelOf L.absent o.lot) W) o.store = true ∧ o.lot ≠ some []

instance (L : Layout) (W : List Row) (o : Obj) : Decidable (Dom L W o) := by unfold Dom; infer_instance

end Iodata.Fmt.FchkO
