/- The second group of byte-level format models (imported by the generated `Gen/LayoutsW.lean` and the driver `Drv/FmtW`). -/
import Iodata.Model.Fmt.FcidumpW
import Iodata.Model.Fmt.PoscarW
import Iodata.Model.Fmt.FchkO
import Iodata.Model.Fmt.WfnS
import Iodata.Model.Fmt.WfxS
import Iodata.Model.Fmt.Qcs
