/-
C04 — units.  Hand-written reference data (independent of iodata and of scipy):
CODATA 2018 and 2022 values, the unit constants derived from them in exact rational arithmetic,
the table of the unit each file format prescribes for each quantity, and the checks evaluated over the
probe table `Iodata/Gen/Units.lean`.  Core Lean only.

Convention of `iodata.utils` (docs/getting_started/units.rst): a unit constant is the value of the unit in
atomic units; a file value `x` in unit `U` loads as `x * U`, an attribute `v` is printed as `v / U`.
-/
namespace Iodata.Units

/-- `m · 10^e` -/
def sci (m : Int) (e : Int) : Rat :=
  if e ≥ 0 then (m : Rat) * ((10 : Rat) ^ e.toNat) else (m : Rat) / ((10 : Rat) ^ (-e).toNat)

structure Codata where
  /-- speed of light, m/s (exact, SI 2019) -/
  c : Rat
  /-- Planck constant, J s (exact) -/
  h : Rat
  /-- elementary charge, C (exact) -/
  e : Rat
  /-- Avogadro constant, 1/mol (exact) -/
  nA : Rat
  /-- Bohr radius, m (measured) -/
  a0 : Rat
  /-- electron mass, kg (measured) -/
  me : Rat
  /-- Hartree energy, J (measured) -/
  eh : Rat

/-- CODATA 2018 (Tiesinga, Mohr, Newell, Taylor, Rev. Mod. Phys. 93, 025010 (2021)) -/
def codata2018 : Codata where
  c := 299792458
  h := sci 662607015 (-42)
  e := sci 1602176634 (-28)
  nA := sci 602214076 15
  a0 := sci 529177210903 (-22)      -- 5.29177210903(80)e-11 m
  me := sci 91093837015 (-41)       -- 9.1093837015(28)e-31 kg
  eh := sci 43597447222071 (-31)    -- 4.3597447222071(85)e-18 J

/-- CODATA 2022 (Mohr, Newell, Taylor, Tiesinga, arXiv:2409.03787) -/
def codata2022 : Codata where
  c := 299792458
  h := sci 662607015 (-42)
  e := sci 1602176634 (-28)
  nA := sci 602214076 15
  a0 := sci 529177210544 (-22)      -- 5.29177210544(82)e-11 m
  me := sci 91093837139 (-41)       -- 9.1093837139(28)e-31 kg
  eh := sci 43597447222060 (-31)    -- 4.3597447222060(48)e-18 J

/-- π to 30 digits (only used for ħ = h/2π in the atomic unit of time; error 1e-30) -/
def piQ : Rat := sci 3141592653589793238462643383279 (-30)

/-- thermochemical calorie, J (exact by definition) -/
def calorie : Rat := sci 4184 (-3)

/-- value of a unit in atomic units -/
def unitValue (k : Codata) : String → Option Rat
  | "au" => some 1                                           -- bohr, hartree, electron mass, e·a0, …
  | "angstrom" => some (sci 1 (-10) / k.a0)
  | "meter" => some (1 / k.a0)
  | "nanometer" => some (sci 1 (-9) / k.a0)
  | "electronvolt" => some (k.e / k.eh)
  | "second" => some (2 * piQ * k.eh / k.h)                   -- 1 / (ħ/E_h)
  | "picosecond" => some (sci 1 (-12) * (2 * piQ * k.eh / k.h))
  | "nm/ps" => some ((sci 1 (-9) / k.a0) / (sci 1 (-12) * (2 * piQ * k.eh / k.h)))
  | "amu" => some (sci 1 (-3) / (k.nA * k.me))               -- (1 g/mol)/N_A in electron masses
  | "kcalmol" => some (1000 * calorie / (k.nA * k.eh))
  | "calmol" => some (calorie / (k.nA * k.eh))
  | "kjmol" => some (1000 / (k.nA * k.eh))
  | "debye" => some (sci 1 (-21) / (k.c * k.e * k.a0))        -- 1 D = 1e-21/c C·m
  | "debye-angstrom" => some ((sci 1 (-21) / (k.c * k.e * k.a0)) * (sci 1 (-10) / k.a0))
  | "per-1000-cubic-angstrom" => some (1 / (1000 * (sci 1 (-10) / k.a0) ^ 3))
  | "passthrough" => some 1                                   -- documented exception (no conversion)
  | "minus-passthrough" => some (-1)                          -- documented exception: forces stored as gradient = −force
  | _ => none

/-- which unit each constant of `iodata/utils.py` must be -/
def constantUnits : List (String × String) :=
  [("angstrom", "angstrom"), ("electronvolt", "electronvolt"), ("meter", "meter"), ("nanometer", "nanometer"),
   ("second", "second"), ("picosecond", "picosecond"), ("amu", "amu"), ("kcalmol", "kcalmol"),
   ("calmol", "calmol"), ("kjmol", "kjmol")]

def rabs (x : Rat) : Rat := if x < 0 then -x else x

/-- `|x − y| ≤ rel·|y|` -/
def within (x y rel : Rat) : Bool := decide (rabs (x - y) ≤ rel * rabs y)

def relConst : Rat := sci 1 (-8)
def relRow : Rat := sci 1 (-9)

/-- a constant of `utils.py` agrees with both CODATA adjustments to 1e-8 -/
def constOk (name : String) (v : Rat) : Bool :=
  match constantUnits.find? (fun p => p.1 == name) with
  | none => false
  | some p =>
    match unitValue codata2018 p.2, unitValue codata2022 p.2 with
    | some a, some b => within v a relConst && within v b relConst
    | _, _ => false

/-! ### what each format prescribes  (format, quantity, unit) -/

def spec : List (String × String × String) := [
  -- SPEC-BEGIN (parsed by harness/vh/props/c04.py; one row per line)
  ("xyz", "atcoords", "angstrom"),            -- XYZ: "coordinates in Angstrom" (Open Babel/XMol convention; iodata docs formats/xyz)
  ("extxyz", "atcoords", "angstrom"),         -- ASE extended XYZ: positions in Å
  ("extxyz", "atmasses", "amu"),              -- ASE: masses in amu
  ("extxyz", "cellvecs", "angstrom"),         -- ASE: Lattice in Å
  ("extxyz", "energy", "passthrough"),        -- documented exception: extxyz.py "energy … not converted" (property C04 text)
  ("extxyz", "atgradient", "minus-passthrough"),  -- documented exception (forces passed through; gradient = −force)
  ("pdb", "atcoords", "angstrom"),            -- wwPDB format v3.3 ATOM: orthogonal coordinates in Angstroms
  ("mol2", "atcoords", "angstrom"),           -- Tripos MOL2 @<TRIPOS>ATOM: x y z in Å
  ("sdf", "atcoords", "angstrom"),            -- CTfile (MDL) atom block: coordinates in Å
  ("poscar", "atcoords", "angstrom"),         -- VASP POSCAR: Cartesian positions in Å (× scaling)
  ("poscar", "cellvecs", "angstrom"),         -- VASP POSCAR: lattice vectors in Å (× scaling)
  ("poscar-kartesian", "atcoords", "angstrom"),  -- the same with the mode line spelled `Kartesian` (VASP reads C, c, K, k)
  ("chgcar", "atcoords", "angstrom"),         -- VASP CHGCAR header = POSCAR
  ("chgcar-kartesian", "atcoords", "angstrom"),
  ("chgcar", "cellvecs", "angstrom"),
  ("chgcar", "cube.data", "per-1000-cubic-angstrom"),
  ("chgcar-lefthanded", "cube.data", "per-1000-cubic-angstrom"),  -- same fixture with two lattice vectors exchanged: the volume is an absolute value  -- VASP CHGCAR stores density × cell volume; the probe fixture CHGCAR.oxygen has a 10 Å cubic cell
  ("locpot", "cellvecs", "angstrom"),         -- VASP LOCPOT header = POSCAR
  ("locpot", "cube.data", "electronvolt"),    -- VASP LOCPOT: local potential in eV
  ("gromacs", "atcoords", "nanometer"),       -- GROMACS gro: positions in nm
  ("gromacs-novel", "atcoords", "nanometer"), -- the same file without the optional velocity columns (editconf, solvate, pdb2gmx)
  ("gromacs", "cellvecs", "nanometer"),       -- gro: box vectors in nm
  ("gromacs", "velocities", "nm/ps"),         -- gro: velocities in nm/ps
  ("gromacs", "time", "picosecond"),          -- gro title "t=" in ps
  ("cube", "atcoords", "au"),                 -- Gaussian cube: bohr (positive N1)
  ("cube", "cube.origin", "au"),
  ("cube", "cube.axes", "au"),
  ("cube", "cube.data", "au"),
  ("fchk", "atcoords", "au"),                 -- Gaussian fchk "Current cartesian coordinates": bohr
  ("fchk", "atmasses", "amu"),                -- fchk "Real atomic weights": amu
  ("fchk", "energy", "au"),                   -- "Total Energy": hartree
  ("fchk", "atgradient", "au"),               -- "Cartesian Gradient": hartree/bohr
  ("fchk", "dipole", "au"),                   -- "Dipole Moment": a.u.
  ("charmm", "atcoords", "angstrom"),         -- CHARMM crd: Å
  ("charmm", "atmasses", "amu"),              -- CHARMM crd weighting column used as mass: amu
  ("molden", "atcoords", "au"),               -- Molden [Atoms] AU
  ("molden-angs", "atcoords", "angstrom"),    -- Molden [Atoms] Angs
  ("molden-paren-au", "atcoords", "au"),         -- Molden format description: [Atoms] (AU)
  ("molden-paren-angs", "atcoords", "angstrom"), -- Molden format description: [Atoms] (Angs)
  ("molden-upper-angs", "atcoords", "angstrom"), -- upper-case spelling
  ("molekel", "atcoords", "angstrom"),        -- Molekel $COORD: Å
  ("mwfn", "atcoords", "angstrom"),           -- Multiwfn mwfn $Centers: Å
  ("wfn", "atcoords", "au"),                  -- AIM wfn: bohr
  ("wfn", "energy", "au"),
  ("wfx", "atcoords", "au"),                  -- AIM wfx <Nuclear Cartesian Coordinates>: bohr
  ("wfx", "energy", "au"),
  ("wfx", "atgradient", "au"),
  ("gaussianinput", "atcoords", "angstrom"),  -- Gaussian input: Cartesian coordinates in Å (default Units)
  ("gaussianinput-units-ang", "atcoords", "angstrom"),  -- route with `Units=(Ang,Deg)` and an aug-cc basis: still Å
  ("gaussian-input-writer", "atcoords", "angstrom"),
  ("orca-input-writer", "atcoords", "angstrom"),   -- ORCA "* xyz": Å
  ("json", "atcoords", "au"),                 -- QCSchema molecule.geometry: bohr
  ("json", "atmasses", "amu"),                -- QCSchema molecule.masses: "atomic mass [u]"
  ("gamess", "atcoords", "angstrom"),         -- GAMESS punch $DATA: Å (as read by gamess.py)
  ("gamess-single-block", "atcoords", "angstrom"),  -- the same punch file with one geometry block (a single-point run, or an optimisation stopped after NSERCH=0)
  ("gamess", "energy", "au"),
  ("gamess", "atgradient", "au"),             -- $GRAD: hartree/bohr
  ("gamess", "atmasses", "amu"),              -- punch "ATOMIC MASSES": amu
  ("qchemlog", "atcoords", "angstrom"),       -- Q-Chem "Standard Nuclear Orientation (Angstroms)"
  ("qchemlog", "energy", "au"),
  ("qchemlog", "atmasses", "amu"),            -- Q-Chem vibrational analysis "Has Mass" in amu
  ("qchemlog", "dipole", "debye"),            -- Q-Chem "Dipole Moment (Debye)"
  ("qchemlog", "quadrupole", "debye-angstrom"),  -- Q-Chem "Quadrupole Moments (Debye-Ang)"
  ("qchemlog", "vib_energy", "kcalmol"),      -- Q-Chem "Zero point vibrational energy: … kcal/mol"
  ("orcalog", "atcoords", "au"),              -- ORCA "CARTESIAN COORDINATES (A.U.)"
  ("orcalog", "energy", "au"),                -- "FINAL SINGLE POINT ENERGY" in Eh
  ("orcalog", "dipole", "au"),                -- "Total Dipole Moment" line is in a.u.
  ("cp2klog", "energy", "au")                 -- CP2K atom code: energies in hartree
  -- SPEC-END
]

def specUnit (fmt qty : String) : Option String :=
  (spec.find? fun r => r.1 == fmt && r.2.1 == qty).map (·.2.2)

/-- rows known to violate the table on the current tree (existing tests pin them: test_gamess.py,
test_qchemlog.py, json_qcschema tests) — see known_findings.json -/
def knownRows : List (String × String) :=
  [("gamess", "atmasses"), ("qchemlog", "atmasses"), ("json", "atmasses"),
   ("qchemlog", "dipole"), ("qchemlog", "quadrupole")]

def isKnown (fmt qty : String) : Bool := knownRows.any fun k => k.1 == fmt && k.2 == qty

/-- one probe: direction `"load"`: the file number changed by `a`, the attribute moved by `b`;
`"dump"`: the attribute changed by `a`, the printed number moved by `b`; `slack` = resolution of `b`
(print quantum of the two tokens for a writer, float32 resolution for the one reader that stores float32). -/
structure Row where
  fmt : String
  qty : String
  dir : String
  a : Rat
  b : Rat
  slack : Rat

/-- the row agrees with unit value `c`: load `b = a·c`, dump `b·c = a` (up to the print quantum) -/
def rowOkWith (r : Row) (c : Rat) : Bool :=
  -- "redump": the same object written a second time (attribute delta 0): the printed number must not move
  if r.dir == "redump" then decide (r.a = 0 ∧ rabs r.b ≤ r.slack)
  else if r.dir == "load" then decide (rabs (r.b - r.a * c) ≤ relRow * rabs (r.a * c) + r.slack)
  else decide (rabs (r.b * c - r.a) ≤ relRow * rabs r.a + r.slack * rabs c)

/-- value of a prescribed unit expressed with the library's own constants `cs` (`iodata.utils`, tied to CODATA
by `constOk`); units for which the library has no constant (Debye) fall back to the CODATA 2022 value -/
def unitOf (cs : List (String × Rat)) (u : String) : Option Rat :=
  let get := fun (n : String) => (cs.find? fun p => p.1 == n).map (·.2)
  match u with
  | "au" => some 1
  | "passthrough" => some 1
  | "minus-passthrough" => some (-1)
  | "nm/ps" => match get "nanometer", get "picosecond" with
    | some a, some b => some (a / b)
    | _, _ => none
  | "per-1000-cubic-angstrom" => (get "angstrom").map fun a => 1 / (1000 * a ^ 3)
  | "debye" => unitValue codata2022 "debye"
  | "debye-angstrom" => match unitValue codata2022 "debye", get "angstrom" with
    | some d, some a => some (d * a)
    | _, _ => none
  | n => get n

/-- the probed factor equals the library constant of the unit the format prescribes (1e-9 relative) -/
def rowOk (cs : List (String × Rat)) (r : Row) : Bool :=
  match specUnit r.fmt r.qty with
  | none => false
  | some u =>
    match unitOf cs u with
    | some c => (decide (r.a ≠ 0) || r.dir == "redump") && rowOkWith r c
    | none => false

/-- every non-known spec line is exercised by at least one probe row (so a probe cannot silently disappear) -/
def covered (rows : List Row) : Bool :=
  spec.all fun s => rows.any fun r => r.fmt == s.1 && r.qty == s.2.1

/-- load row of one format × dump row of another for the same quantity and the same prescribed unit:
file number → attribute → file number is the identity (up to print quanta) -/
def crossOk (l d : Row) : Bool :=
  -- (l.b / l.a) * (d.b / d.a) = 1   ⇔   l.b * d.b = l.a * d.a
  decide (rabs (l.b * d.b - l.a * d.a) ≤ 3 * relRow * rabs (l.a * d.a) + rabs (l.b) * d.slack + rabs d.b * l.slack)

def crossAll (rows : List Row) : Bool :=
  rows.all fun l => rows.all fun d =>
    if l.dir == "load" && d.dir == "dump" && l.qty == d.qty && !isKnown l.fmt l.qty && !isKnown d.fmt d.qty
        && specUnit l.fmt l.qty == specUnit d.fmt d.qty && (specUnit l.fmt l.qty).isSome
    then crossOk l d else true

end Iodata.Units
