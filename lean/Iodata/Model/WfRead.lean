/-
Structural models of the Molden / Molekel / FCHK *files* and of IOData's readers for them (C01),
plus the global form of `convert_conventions` and generalized contractions.  Core Lean only.

"Structural" = which number sits in which section / block / row of the file; text scanning
(column widths, `D` exponents, blank lines) is not modelled.  Every writer below is the variant
the code implements now (`Iodata/Gen/Wf.lean` flags all in the repaired position); the historical
variants stay in `Model/Wf.lean`.
-/
import Iodata.Model.Wf
namespace Iodata.Wf
open Iodata.Conv

/-! ### (e) `convert_conventions` on the whole basis, generalized contractions -/

/-- the list `convert_conventions` loops over for a segmented shell list -/
def keysOf (shells : List Shell) : List Key := shells.map (·.key)

/-- `permutation, signs = convert_conventions(obasis, CONVENTIONS)` followed by
`coeffs[permutation] * signs` on the whole vector; `none` when the conversion raises -/
def convertGlobal (t1 t2 : Table) (shells : List Shell) (coeffs : List Int) : Option (List Int) :=
  match convBasis t1 t2 (keysOf shells) false with
  | .ok r => some (apply r coeffs)
  | .error _ => none

/-- `permutation[rows], signs[rows]` -/
def selectRows (r : List (Nat × Int)) (rows : List Nat) : List (Nat × Int) :=
  rows.map fun j => r.getD j (0, 0)

/-- a shell with a generalized contraction: `cons = zip(angmoms, kinds)`, one contraction
coefficient per entry of `cons` for every primitive -/
structure GShell where
  center : Nat
  cons : List Key
  prims : List (Nat × List Int)
  deriving Repr, DecidableEq

def segFrom (g : GShell) (i : Nat) : List Key → List Shell
  | [] => []
  | k :: ks =>
    { center := g.center, l := k.1, kind := k.2, prims := g.prims.map fun p => (p.1, p.2.getD i 0) }
      :: segFrom g (i + 1) ks

/-- `convert_to_segmented` on one shell: one segmented shell per contraction, in order -/
def GShell.segment (g : GShell) : List Shell := segFrom g 0 g.cons

/-- `convert_to_segmented(obasis, keep_sp)`: SP shells stay when `keepSp` (they are still *denoted*
by their two segments, see `gden`) -/
def segmentAll (gs : List GShell) : List Shell := gs.flatMap GShell.segment

/-- the key list `convert_conventions` loops over for generalized shells -/
def gkeys (gs : List GShell) : List Key := gs.flatMap (·.cons)

/-- the denotation of a coefficient vector over generalized shells: basis functions are ordered
contraction by contraction, so it is the denotation over the segmented shells -/
def gden (cv : Cv) (gs : List GShell) (coeffs : List Int) (κ : PKey) : Int :=
  den cv (segmentAll gs) coeffs κ

/-! ### variant selection (the flags come from `Iodata/Gen/Wf.lean`, read off the real writers) -/

/-- Molden `[MO]` rows: following the sorted `[GTO]` shells (now) or in object order (before f1785bb) -/
def moldenVariant (rowsFollowSort : Bool) : Cv → Cv → List Shell → List Int → List Shell × List Int :=
  if rowsFollowSort then moldenDumpSorted else moldenDump

/-- Molekel `$BASIS`/rows: sorted with one `$$` per centre passed (now) or one `$$` per change (before 2b71ddf) -/
def mklVariant (perCentre : Bool) : Cv → Cv → List Shell → List Int → List Shell × List Int :=
  if perCentre then moldenDumpSorted else mklDump

/-! ### (f) Molden -/

/-- the pure/Cartesian header tags -/
inductive Tag where
  | d5 | d5f7 | f7 | d5f10 | g9
  deriving DecidableEq, Repr

/-- `_load_low`: which angular momenta a tag declares pure -/
def Tag.pure : Tag → List Nat
  | .d5 => [2, 3]
  | .d5f7 => [2, 3]
  | .f7 => [3]
  | .d5f10 => [2]
  | .g9 => [4, 5]

def pureOf (tags : List Tag) : List Nat := tags.flatMap Tag.pure

/-- a shell inside a `[GTO]` centre block: angular momentum and primitives -/
abbrev FShell := Nat × List (Nat × Int)

structure MoldenFile where
  tags : List Tag
  /-- `[GTO]`: per-centre blocks, centre number as printed (1-based) -/
  gto : List (Nat × List FShell)
  /-- `[MO]`: the coefficient rows of one orbital -/
  mo : List Int
  deriving Repr, DecidableEq

/-- the writer's `[GTO]` loop: a new centre block whenever the centre differs from the previous
shell's (`last_icenter`) -/
def gtoBlocks : List Shell → List (Nat × List FShell)
  | [] => []
  | s :: ss =>
    match gtoBlocks ss with
    | [] => [(s.center + 1, [(s.l, s.prims)])]
    | b :: bs =>
      if b.1 = s.center + 1 then (b.1, (s.l, s.prims) :: b.2) :: bs
      else (s.center + 1, [(s.l, s.prims)]) :: b :: bs

/-- `_load_helper_obasis` + the kind assignment at the end of `_load_low`: shells in file order,
centre `int(words[0]) - 1`, Cartesian unless the angular momentum was declared pure -/
def gtoShells (pure : List Nat) (blocks : List (Nat × List FShell)) : List Shell :=
  blocks.flatMap fun b => b.2.map fun f =>
    { center := b.1 - 1, l := f.1, kind := if f.1 ∈ pure then 'p' else 'c', prims := f.2 }

/-- the kind the writer's scan records for angular momentum `l` (first shell with that `l`) -/
def kindOfL (shells : List Shell) (l : Nat) : Option Char :=
  (shells.find? fun s => s.l == l).map (·.kind)

/-- "Molden format does not support mixed pure+Cartesian functions for one angular momentum" -/
def mixed (shells : List Shell) : Bool :=
  shells.any fun s => kindOfL shells s.l != some s.kind

/-- what the header logic sees: the kinds of d, f, g, h shells (absent = `none`) -/
def hdrKey (shells : List Shell) : List (Option Char) :=
  [kindOfL shells 2, kindOfL shells 3, kindOfL shells 4, kindOfL shells 5]

/-- header table: for every combination of d/f/g/h kinds the tags the writer emits, `none` = it refuses.
The table is read off the real writer on every run (`Gen/Wf.lean`). -/
abbrev HdrTable := List (List (Option Char) × Option (List Tag))

def hdrLookup (tab : HdrTable) (k : List (Option Char)) : Option (List Tag) :=
  match tab.find? (fun e => e.1 == k) with
  | some e => e.2
  | none => none

/-- the Molden writer as it is now: header tags, `[GTO]` blocks of the shells sorted by centre,
coefficient rows `coeffs[permutation[rows]] * signs[rows]` following the sorted shells -/
def moldenWrite (tab : HdrTable) (t1 tM : Table) (shells : List Shell) (coeffs : List Int) : Option MoldenFile :=
  if mixed shells then none else
  match hdrLookup tab (hdrKey shells) with
  | none => none
  | some tags =>
    match convertGlobal t1 tM shells coeffs with
    | none => none
    | some w =>
      let ps := sortPairs (blocks (cvOf tM) shells w)
      some { tags := tags, gto := gtoBlocks (ps.map (·.1)), mo := ps.flatMap (·.2) }

/-- the Molden reader (`_load_low`): `none` = LoadError "Number of alpha orbital coefficients does not
match the size of the basis" -/
def moldenLoad (cvM : Cv) (f : MoldenFile) : Option (List Shell × List Int) :=
  let shells := gtoShells (pureOf f.tags) f.gto
  if f.mo.length = nfun cvM shells then some (shells, f.mo) else none

/-! ### (g) Molekel -/

inductive MklItem where
  /-- a `$$` line -/
  | sep
  /-- shell header `nfn L 1.00` followed by its primitives -/
  | shell (nfn l : Nat) (prims : List (Nat × Int))
  deriving Repr, DecidableEq

/-- `$BASIS` as written now: shells sorted by centre, `"$$\n" * (icenter - iatom_last)` before each -/
def mklItemsFrom (cvM : Cv) : Nat → List Shell → List MklItem
  | _, [] => []
  | last, s :: ss =>
    List.replicate (s.center - last) .sep ++ .shell (cvM s.key).length s.l s.prims :: mklItemsFrom cvM s.center ss

/-- the reader's kind decision from the announced number of functions -/
def mklKind (cvM : Cv) (l nfn : Nat) : Option Char :=
  if nfn = (cvM (l, 'c')).length then some 'c'
  else if nfn = (cvM (l, 'p')).length then some 'p'
  else none

/-- `_load_helper_obasis`: the centre index counts the `$$` lines; `none` = LoadError "Cannot interpret" -/
def mklReadFrom (cvM : Cv) : Nat → List MklItem → Option (List Shell)
  | _, [] => some []
  | c, .sep :: is => mklReadFrom cvM (c + 1) is
  | c, .shell nfn l prims :: is =>
    match mklKind cvM l nfn with
    | none => none
    | some k =>
      match mklReadFrom cvM c is with
      | none => none
      | some ss => some ({ center := c, l := l, kind := k, prims := prims } :: ss)

def chunksF {α : Type} (k : Nat) : Nat → List α → List (List α)
  | 0, _ => []
  | f + 1, l => if l.isEmpty then [] else l.take k :: chunksF k f (l.drop k)

/-- `for j in range(0, n, k): x[j : j + k]` -/
def chunks {α : Type} (k : Nat) (l : List α) : List (List α) := chunksF k l.length l

/-- rows of a block of columns: `coeff[:, j : j + 5]` row by row -/
def rowsOfCols (n : Nat) (cols : List (List Int)) : List (List Int) :=
  (List.range n).map fun i => cols.map fun c => c.getD i 0

/-- `$COEFF_ALPHA` / `$COEFF_BETA`: blocks of at most five orbitals, each `(number of columns, rows)`;
the number of columns is what the irrep line announces -/
def mklCoeffBlocks (n : Nat) (cols : List (List Int)) : List (Nat × List (List Int)) :=
  (chunks 5 cols).map fun ch => (ch.length, rowsOfCols n ch)

/-- `_load_helper_coeffs`: every block must have `nbasis` rows of `ncol` numbers -/
def mklReadCoeffs (n : Nat) : List (Nat × List (List Int)) → Option (List (List Int))
  | [] => some []
  | b :: bs =>
    if b.2.length = n ∧ b.2.all (fun row => row.length == b.1) then
      match mklReadCoeffs n bs with
      | none => none
      | some cs => some (((List.range b.1).map fun ic => b.2.map fun row => row.getD ic 0) ++ cs)
    else none

structure MklFile where
  basis : List MklItem
  coeff : List (Nat × List (List Int))
  deriving Repr, DecidableEq

/-- the Molekel writer as it is now, for the orbitals `cols` of one spin block -/
def mklWrite (t1 tM : Table) (shells : List Shell) (cols : List (List Int)) : Option MklFile :=
  match convBasis t1 tM (keysOf shells) false with
  | .error _ => none
  | .ok r =>
    let conv := cols.map fun c => (sortPairs (blocks (cvOf tM) shells (apply r c))).flatMap (·.2)
    some { basis := mklItemsFrom (cvOf tM) 0 (sortByCenter shells),
           coeff := mklCoeffBlocks (nfun (cvOf tM) shells) conv }

def mklLoad (cvM : Cv) (f : MklFile) : Option (List Shell × List (List Int)) :=
  match mklReadFrom cvM 0 f.basis with
  | none => none
  | some shells =>
    match mklReadCoeffs (nfun cvM shells) f.coeff with
    | none => none
    | some cols => some (shells, cols)

/-! ### (h) FCHK -/

/-- `Shell types`: `l` Cartesian, `-l` pure, `-1` SP; `none` = RuntimeError "Generalized contractions
other than SP" -/
def fchkType (g : GShell) : Option Int :=
  match g.cons with
  | [k] => if k.2 = 'c' then some (k.1 : Int) else if k.2 = 'p' then some (-(k.1 : Int)) else none
  | [a, b] => if a.1 = 0 ∧ b.1 = 1 then some (-1) else none
  | _ => none

structure FchkBasis where
  types : List Int
  nprims : List Nat
  atomMap : List Nat
  exps : List Nat
  c1 : List Int
  /-- `P(S=P) Contraction coefficients`, present iff some shell type is `-1` -/
  c2 : Option (List Int)
  deriving Repr, DecidableEq

def allSome {α : Type} : List (Option α) → Option (List α)
  | [] => some []
  | none :: _ => none
  | some a :: r => (allSome r).map (a :: ·)

/-- `sp_coeffs`: the second contraction of SP shells, zeros for the other shells -/
def fchkC2 (gs : List GShell) : List Int :=
  gs.flatMap fun g =>
    if fchkType g = some (-1) then g.prims.map fun p => p.2.getD 1 0 else List.replicate g.prims.length 0

def fchkWriteBasis (gs : List GShell) : Option FchkBasis :=
  match allSome (gs.map fchkType) with
  | none => none
  | some types =>
    some { types := types
           nprims := gs.map (·.prims.length)
           atomMap := gs.map (·.center + 1)
           exps := gs.flatMap fun g => g.prims.map (·.1)
           c1 := gs.flatMap fun g => g.prims.map fun p => p.2.getD 0 0
           c2 := if types.contains (-1) then some (fchkC2 gs) else none }

/-- one shell of `load_one` part B; the arrays are consumed as `counter` advances -/
def fchkShell (t : Int) (a n : Nat) (ex : List Nat) (c1 c2 : List Int) : GShell :=
  if t = -1 then
    { center := a - 1, cons := [(0, 'c'), (1, 'c')],
      prims := ((ex.take n).zip ((c1.take n).zip (c2.take n))).map fun p => (p.1, [p.2.1, p.2.2]) }
  else
    { center := a - 1, cons := [(t.natAbs, if t < 0 then 'p' else 'c')],
      prims := ((ex.take n).zip (c1.take n)).map fun p => (p.1, [p.2]) }

def fchkReadL : List Int → List Nat → List Nat → List Nat → List Int → List Int → List GShell
  | t :: ts, a :: as, n :: ns, ex, c1, c2 =>
    fchkShell t a n ex c1 c2 :: fchkReadL ts as ns (ex.drop n) (c1.drop n) (c2.drop n)
  | _, _, _, _, _, _ => []

def fchkReadBasis (b : FchkBasis) : List GShell :=
  fchkReadL b.types b.atomMap b.nprims b.exps b.c1 (b.c2.getD [])

/-- `Alpha MO coefficients` = `coeffs.T.flatten()`; the reader does `reshape(norb, nbasis).T` -/
def fchkCoeffs (cols : List (List Int)) : List Int := cols.flatten

def fchkReadCoeffs (nbasis : Nat) (flat : List Int) : List (List Int) := chunks nbasis flat

/-- `arr[np.tril_indices(n)]`: the lower triangle, row by row -/
def trilFrom (i : Nat) : List (List Int) → List Int
  | [] => []
  | row :: rest => row.take (i + 1) ++ trilFrom (i + 1) rest

def tril (M : List (List Int)) : List Int := trilFrom 0 M

/-- `_triangle_to_dense`, the slices `triangle[begin:end]` with `end = begin + irow + 1` -/
def untrilFrom (i : Nat) : Nat → List Int → List (List Int)
  | 0, _ => []
  | f + 1, t => if t.isEmpty then [] else t.take (i + 1) :: untrilFrom (i + 1) f (t.drop (i + 1))

/-- … and `result[irow, :irow+1] = result[:irow+1, irow] = slice` -/
def dense (L : List (List Int)) : List (List Int) :=
  (List.range L.length).map fun i => (List.range L.length).map fun j =>
    if j ≤ i then (L.getD i []).getD j 0 else (L.getD j []).getD i 0

def triangleToDense (t : List Int) : List (List Int) := dense (untrilFrom 0 t.length t)

/-- density matrix of the FCHK writer now: `arr[permutation][:, permutation] * signs[:,None] * signs`,
lower triangle -/
def fchkWriteDm (r : List (Nat × Int)) (D : List (List Int)) : List Int := tril (convMatrix r D)

/-- the FCHK writer for the coefficient part: global conversion of every orbital column -/
def fchkWriteCoeffs (t1 tF : Table) (gs : List GShell) (cols : List (List Int)) : Option (List Int) :=
  match convBasis t1 tF (gkeys gs) false with
  | .error _ => none
  | .ok r => some (fchkCoeffs (cols.map (apply r)))

end Iodata.Wf
