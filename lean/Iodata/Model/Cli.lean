/-
Model of the command-line wrapper `iodata/__main__.py` (C18): Python's argument binding (positional, keyword,
keyword-only, defaults), a small `argparse` (the option kinds the table uses: value options, `store_true`,
positionals) and the evaluation of `main` → `convert` → API calls over the IR terms of `Gen/ApiFlow.lean`.
Core Lean only (linked into the driver).  Values are expression / argument texts.
-/
import Iodata.Model.Flow
namespace Iodata.Cli
open Iodata.Flow

/-- kernel-reducible string helpers (core `String.splitOn` / `replace` do not reduce by `decide`) -/
abbrev Str := List Char

def splitC (c : Char) : Str → List Str
  | [] => [[]]
  | x :: xs =>
    if x = c then [] :: splitC c xs
    else match splitC c xs with
      | h :: t => (x :: h) :: t
      | [] => [[x]]

def startsW : Str → Str → Bool
  | _, [] => true
  | [], _ :: _ => false
  | a :: as, b :: bs => a = b && startsW as bs

def joinC (c : Char) : List Str → Str
  | [] => []
  | [a] => a
  | a :: rest => a ++ c :: joinC c rest

def isIdentL (s : Str) : Bool := !s.isEmpty && s.all (fun c => c.isAlphanum || c == '_')

def splitKwL (s : Str) : Option (Str × Str) :=
  match splitC '=' s with
  | k :: v :: rest => if isIdentL k then some (k, joinC '=' (v :: rest)) else none
  | _ => none

/-- `name=expr` (a keyword argument / a parameter with default) or a bare text -/
def splitKw (s : String) : Option (String × String) :=
  (splitKwL s.toList).map fun p => (String.ofList p.1, String.ofList p.2)

def sw (s : String) (pre : String) : Bool := startsW s.toList pre.toList

structure Sig where
  pos : List (String × Option String)     -- positional-or-keyword parameters with optional default
  kwonly : List (String × Option String)
  varkw : Bool
  deriving Repr, DecidableEq

def parseParam (s : String) : String × Option String :=
  match splitKw s with
  | some (k, v) => (k, some v)
  | none => (s, none)

/-- `["data", "filename", "*", "fmt=None", "**kwargs"]` -/
def parseSig (l : List String) : Sig :=
  let l' := l.filter (fun s => !sw s "**")
  let before := l'.takeWhile (· != "*")
  let after := (l'.dropWhile (· != "*")).drop 1
  { pos := before.map parseParam, kwonly := after.map parseParam, varkw := l.any (sw · "**") }

/-- Python's binding of a call's arguments to a signature; `none` = TypeError -/
def bind (sg : Sig) (args : List String) : Option (List (String × String)) :=
  let posArgs := args.filter (fun a => (splitKw a).isNone && !sw a "**")
  let kwArgs := args.filterMap splitKw
  if posArgs.length > sg.pos.length then none else
  let fromPos := (sg.pos.map Prod.fst).zip posArgs
  let names := sg.pos.map Prod.fst ++ sg.kwonly.map Prod.fst
  if kwArgs.any (fun kv => fromPos.any (fun p => p.1 == kv.1)) then none else
  if kwArgs.any (fun kv => !names.contains kv.1 && !sg.varkw) then none else
  if (kwArgs.map Prod.fst).eraseDups.length != kwArgs.length then none else
  let given := fromPos ++ kwArgs.filter (fun kv => names.contains kv.1)
  let all := (sg.pos ++ sg.kwonly).map fun p =>
    match given.find? (fun g => g.1 == p.1) with
    | some g => (p.1, some g.2)
    | none => (p.1, p.2)
  if all.any (fun p => p.2.isNone) then none else some (all.map fun p => (p.1, p.2.getD ""))

abbrev ValEnv := List (String × String)

def lookupV (env : ValEnv) (e : String) : String :=
  match env.find? (fun p => p.1 == e) with
  | some p => p.2
  | none => e

/-! ### argparse -/

structure Opt where
  flags : List String
  dest : String
  storeTrue : Bool
  positional : Bool
  dflt : String
  deriving Repr, DecidableEq

def kwOf (row : List String) (k : String) : Option String :=
  ((row.dropWhile (· != "|")).drop 1).findSome? fun s =>
    match splitKw s with
    | some (k', v) => if k' == k then some v else none
    | none => none

def mkOpt (row : List String) : Opt :=
  let flags := row.takeWhile (· != "|")
  let long := flags.find? (sw · "--")
  let positional := flags.all (fun f => !sw f "-")
  let dest := match kwOf row "dest" with
    | some d => String.ofList (d.toList.filter (· != '\''))
    | none => if positional then flags.headD "" else String.ofList ((((long.getD (flags.headD "")).toList.dropWhile (· == '-'))).map (fun c => if c = '-' then '_' else c))
  { flags := flags, dest := dest, storeTrue := kwOf row "action" == some "'store_true'", positional := positional,
    dflt := (kwOf row "default").getD "None" }

/-- the options that produce a value (the `version` action prints and exits) -/
def options (table : List (List String)) : List Opt :=
  (table.filter (fun r => kwOf r "action" != some "'version'")).map mkOpt

def parseArgvAux (opts : List Opt) : List String → List Opt → ValEnv → Option ValEnv
  | [], [], acc => some acc
  | [], _ :: _, _ => none                      -- a positional is missing
  | t :: ts, posLeft, acc =>
    if sw t "-" && t != "-" then
      match opts.find? (fun o => o.flags.contains t) with
      | none => none
      | some o =>
        if o.storeTrue then parseArgvAux opts ts posLeft (("args." ++ o.dest, "True") :: acc)
        else match ts with
          | v :: ts' => parseArgvAux opts ts' posLeft (("args." ++ o.dest, v) :: acc)
          | [] => none
    else match posLeft with
      | o :: ps => parseArgvAux opts ts ps (("args." ++ o.dest, t) :: acc)
      | [] => none

/-- `parse_args()`: `none` = usage error (exit status 2) -/
def parseArgv (table : List (List String)) (argv : List String) : Option ValEnv :=
  let opts := options table
  let defaults : ValEnv := (opts.filter (fun o => !o.positional)).map fun o => ("args." ++ o.dest, if o.storeTrue then o.dflt else o.dflt)
  match parseArgvAux opts argv (opts.filter (·.positional)) [] with
  | none => none
  | some got => some (got ++ defaults)   -- `find?` sees the explicit value first (last occurrence wins is not modelled)

/-! ### evaluation of `main` / `convert` -/

/-- the API calls a body performs, in order, with bound and evaluated arguments -/
def apiCalls (sigs : List (String × List String)) (env : ValEnv) : Stmt → Option (List (String × List (String × String)))
  | .seq a b => do
    let x ← apiCalls sigs env a
    let y ← apiCalls sigs env b
    pure (x ++ y)
  | .ifVar v t e => if lookupV env v == "True" then apiCalls sigs env t else apiCalls sigs env e
  | .call (.api fn) args _ =>
    match sigs.find? (fun s => s.1 == fn) with
    | none => none
    | some s => (bind (parseSig s.2) args).map fun bs => [(fn, bs.map fun p => (p.1, lookupV env p.2))]
  | .call _ _ _ => some []
  | _ => none

def showCalls (cs : List (String × List (String × String))) : String :=
  " ".intercalate (cs.map fun c =>
    c.1 ++ "(" ++ ",".intercalate ((c.2.filter (fun p => p.1 == "filename" || p.1 == "fmt" || p.1 == "allow_changes")).map
      fun p => p.1 ++ "=" ++ p.2) ++ ")")

/-- `main()` on an argument vector: the API calls made by `convert`, or a usage error -/
def runMain (sigs : List (String × List String)) (table : List (List String)) (mainT convertT : Stmt)
    (argv : List String) : Option String :=
  match parseArgv table argv with
  | none => some "usage-error"
  | some aenv =>
    match apiCalls sigs aenv mainT with
    | some [("convert", cenv)] => (apiCalls sigs cenv convertT).map showCalls
    | _ => none

end Iodata.Cli
