/- All raw reader models (C07, parser part). -/
import Iodata.Model.Rd.Xyz
import Iodata.Model.Rd.Sdf
import Iodata.Model.Rd.Mol2
import Iodata.Model.Rd.Pdb
import Iodata.Model.Rd.Cube
import Iodata.Model.Rd.Gro
import Iodata.Model.Rd.Vasp
import Iodata.Model.Rd.Crd
