/-
PDB `load_one` (iodata/formats/pdb.py) on arbitrary lines — statement by statement.  One line is read per
iteration of the record loop (the record parsers read none), so the loop is structural recursion on the lines.
The column slices come from the source (`Fmt.Pdb.Layout`, `Gen/Layouts.lean`).
-/
import Iodata.Model.Rd.Core
import Iodata.Model.Fmt.Pdb
namespace Iodata.Rd.Pdb
open Iodata.Chars Iodata.Rd Iodata.Fmt

abbrev Layout := Iodata.Fmt.Pdb.Layout

def cut (p : Nat × Nat) (s : Str) : Str := slice p.1 p.2 s

/-- what the record loop accumulates, by length -/
structure Acc where
  natom : Nat := 0          -- entries of each of the eight per-atom lists (`molecule_found` ⇔ `natom > 0`)
  nbond : Nat := 0
  chain : Bool := false     -- some chain identifier is not a blank
  deriving DecidableEq, Repr, Inhabited

/-- `_parse_pdb_atom_line`: returns "the chain identifier is not blank" -/
def atomLine (L : Layout) (line : Str) : Except Cls Bool :=
  let symbol := strip (cut L.sSym line)
  let atname := strip (cut L.sName line)
  -- `sym2num.get(atname, sym2num.get(atname[:2].title(), sym2num.get(atname[0], None)))`: `atname[0]` is evaluated
  if symbol.isEmpty && atname.isEmpty then .error .index else
  match line[L.iChain]? with
  | none => .error .index                                  -- `chainid = line[21]`
  | some ch =>
    match intE (cut L.sResnum line) with
    | .error e => .error e
    | .ok _ =>
      match floatE (cut L.sX line), floatE (cut L.sY line), floatE (cut L.sZ line),
            floatE (cut L.sOcc line), floatE (cut L.sB line) with
      | .ok _, .ok _, .ok _, .ok _, .ok _ => .ok (ch != ' ')
      | _, _, _, _, _ => .error .value

/-- the partners of `_parse_pdb_conect_line`: number of bonds yielded, or the `int()` failure -/
def conectPartners (L : Layout) (line : Str) (i0 : Int) : List (Nat × Nat) → Except Cls Nat
  | [] => .ok 0
  | p :: ps =>
    let s := strip (cut p line)
    if s.isEmpty then conectPartners L line i0 ps else
    match pyInt s with
    | none => .error .value
    | some i1 =>
      match conectPartners L line i0 ps with
      | .error e => .error e
      | .ok n => .ok (if i1 - 1 > i0 - 1 then n + 1 else n)

def conectLine (L : Layout) (line : Str) : Except Cls Nat :=
  match pyInt (cut L.cSerial line) with
  | none => .error .value
  | some i0 => conectPartners L line i0 L.cOthers

def tATOM : Str := "ATOM".toList
def tHETATM : Str := "HETATM".toList
def tCONECT : Str := "CONECT".toList
def tEND : Str := "END".toList

/-- the ATOM / HETATM record of a line -/
def atomStep (L : Layout) (line : Str) (acc : Acc) : Except Cls Acc :=
  if startsWith tATOM line || startsWith tHETATM line then
    match atomLine L line with
    | .error e => .error e
    | .ok c => .ok { acc with natom := acc.natom + 1, chain := acc.chain || c }
  else .ok acc

/-- the records of one line that can fail or change the accumulators -/
def lineStep (L : Layout) (line : Str) (acc : Acc) : Except Cls Acc :=
  match atomStep L line acc with
  | .error e => .error e
  | .ok acc1 =>
    if startsWith tCONECT line then
      match conectLine L line with
      | .error e => .error e
      | .ok n => .ok { acc1 with nbond := acc1.nbond + n }
    else .ok acc1

/-- `while True: try: line = next(lit) except StopIteration: break; …` -/
def loop (L : Layout) : List Str → Nat → Acc → Except Cls Acc × Lit
  | [], k, acc => (.ok acc, ⟨[], k + 1⟩)
  | line :: r, k, acc =>
    match lineStep L line acc with
    | .error e => (.error e, ⟨r, k + 1⟩)
    | .ok acc' =>
      if startsWith tEND line && decide (acc'.natom > 0) then (.ok acc', ⟨r, k + 1⟩)
      else loop L r (k + 1) acc'

/-- after the loop: `_NoMoleculeError` (a LoadError), else the arrays built from the lists -/
def finish (acc : Acc) : Except Cls RObj :=
  if acc.natom = 0 then .error .load else
  let n := acc.natom
  .ok { atcoords := some [n, 3], atnums := some [n], atffparams := [n, n, n],
        extraAtom := [n, n] ++ (if acc.chain then [n] else []),
        bonds := if acc.nbond > 0 then some [acc.nbond, 3] else none,
        hasTitle := true, hasAtffparams := true, hasExtra := true }

def loadOne (L : Layout) : RM RObj := fun l =>
  match loop L l.rest l.lineno {} with
  | (.ok acc, l') => (finish acc, l')
  | (.error e, l') => (.error e, l')

def read (L : Layout) (ls : List Str) : Out RObj := run (loadOne L) ls

end Iodata.Rd.Pdb
