/-
XYZ `load_one` (iodata/formats/xyz.py, default atom columns) on arbitrary lines — statement by statement.
-/
import Iodata.Model.Rd.Core
import Iodata.Model.Fmt.Core
namespace Iodata.Rd.Xyz
open Iodata.Chars Iodata.Rd Iodata.Fmt

/-- `int(word) if word.isdigit() else sym2num[word.title()]`, stored into the `int` array -/
def loadZ (T : Tables) (w : Str) : Except Cls Unit :=
  if isDigitStrU w then
    match pyInt w with
    | none => .error .value
    | some v => storeFlatIntE v
  else
    match T.num? (titleU w) with
    | some _ => .ok ()
    | none => .error .key

/-- three times `float(words.pop(0))` -/
def loadCoords : Nat → List Str → Except Cls Unit
  | 0, _ => .ok ()
  | _ + 1, [] => .error .index
  | k + 1, w :: ws =>
    match floatE w with
    | .error e => .error e
    | .ok _ => loadCoords k ws

/-- one atom line: `words = next(lit).split()`, then the element column and the coordinate column -/
def atomLine (T : Tables) (line : Str) : Except Cls Unit :=
  match splitWs line with
  | [] => .error .index
  | w :: ws =>
    match loadZ T w with
    | .error e => .error e
    | .ok _ => loadCoords 3 ws

def atomStep (T : Tables) : RM Unit :=
  RM.bind nextLine (fun line => liftE (atomLine T line))

/-- `load_one` -/
def loadOne (T : Tables) : RM RObj :=
  RM.bind nextLine fun l0 =>
  RM.bind (liftE (intE l0)) fun natom =>
  RM.bind nextLine fun _title =>
  RM.bind (liftE (allocE [natom])) fun _ =>
  RM.bind (liftE (allocE [natom, 3])) fun _ =>
  RM.bind (repeatN (atomStep T) natom.toNat) fun _ =>
  RM.pure { atnums := some [natom.toNat], atcoords := some [natom.toNat, 3], hasTitle := true }

def read (T : Tables) (ls : List Str) : Out RObj := run (loadOne T) ls

end Iodata.Rd.Xyz
