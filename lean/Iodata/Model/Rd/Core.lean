/-
Raw (faithful-on-malformed-input) reader models for C07: shared pieces.  Core Lean only.

The C02/C03 reader models (`Model/Fmt/*`) quantise numbers and are only meant for well-formed files.
The readers in `Model/Rd/*` transcribe the *control flow and the failure points* of the real parsers for
ANY list of lines: every `next(lit)`, `int(..)`, `float(..)`, `words[i]`, table lookup, array allocation and
array store, in source order, with the Python exception class each of them raises.  Values that cannot
influence the outcome class (coordinates, charges) are not kept: a reader returns the *shapes* of the arrays
of the result dictionary (`RObj`), the exception class, and the line counter of the `LineIterator`.

Character domain of the correspondence (the theorems hold for every `List Char`): printable ASCII, `'\t'`,
`'\n'`, and the non-ASCII characters U+00A0 (a blank for `str.split/strip/int/float`), U+00E9/U+00C9 (a cased
letter), U+00B2 (`isdigit()` but not a decimal digit), U+0660–U+0669 (decimal digits for `int`/`float`),
U+20AC (none of these).  Outside of it (`'\r'`, U+001C–U+001F, other scripts) Python's `str` methods are not
modelled.
-/
import Iodata.Model.Chars
namespace Iodata.Rd
open Iodata.Chars

/-- exception classes that leave a format's `load_one` or the `IOData` constructor -/
inductive Cls
  | value | index | key | stopIter | type | load | overflow | memory | name | attr
  deriving DecidableEq, Repr, Inhabited

def Cls.toString : Cls → String
  | .value => "ValueError" | .index => "IndexError" | .key => "KeyError" | .stopIter => "StopIteration"
  | .type => "TypeError" | .load => "LoadError" | .overflow => "OverflowError" | .memory => "MemoryError"
  | .name => "NameError" | .attr => "AttributeError"

/-! ### `LineIterator` -/

structure Lit where
  rest : List Str
  lineno : Nat
  deriving Repr

/-- a parser: state transformer over the line iterator that returns or raises -/
abbrev RM (α : Type) := Lit → Except Cls α × Lit

@[inline] def RM.pure {α} (a : α) : RM α := fun l => (.ok a, l)
@[inline] def RM.bind {α β} (m : RM α) (f : α → RM β) : RM β := fun l =>
  match m l with
  | (.ok a, l') => f a l'
  | (.error e, l') => (.error e, l')

instance : Monad RM where
  pure := RM.pure
  bind := RM.bind

/-- `next(lit)`: `self.lineno += 1`, then the line or `StopIteration` -/
def nextLine : RM Str := fun l =>
  match l.rest with
  | [] => (.error .stopIter, ⟨[], l.lineno + 1⟩)
  | x :: r => (.ok x, ⟨r, l.lineno + 1⟩)

/-- `lit.back(line)` -/
def backLine (x : Str) : RM Unit := fun l => (.ok (), ⟨x :: l.rest, l.lineno - 1⟩)

def raise {α} (c : Cls) : RM α := fun l => (.error c, l)

def liftO {α} (c : Cls) : Option α → RM α
  | some a => RM.pure a
  | none => raise c

def liftE {α} : Except Cls α → RM α
  | .ok a => RM.pure a
  | .error c => raise c

/-- `for _ in range(n): body` (the loop ends at the first exception) -/
def repeatN (body : RM Unit) : Nat → RM Unit
  | 0 => RM.pure ()
  | n + 1 => RM.bind body (fun _ => repeatN body n)

/-- `for i in range(n): acc = body(acc)` -/
def foldN {σ} (body : σ → RM σ) : Nat → σ → RM σ
  | 0, s => RM.pure s
  | n + 1, s => RM.bind (body s) (fun s' => foldN body n s')

instance {α} [DecidableEq α] : DecidableEq (Except Cls α) := fun a b =>
  match a, b with
  | .ok x, .ok y => if h : x = y then isTrue (by rw [h]) else isFalse (fun e => h (Except.ok.inj e))
  | .error x, .error y => if h : x = y then isTrue (by rw [h]) else isFalse (fun e => h (Except.error.inj e))
  | .ok _, .error _ => isFalse (fun e => by cases e)
  | .error _, .ok _ => isFalse (fun e => by cases e)

/-- the result of running a reader on a file: outcome and `lit.lineno` at that point -/
structure Out (α : Type) where
  res : Except Cls α
  lineno : Nat
  deriving DecidableEq

def run {α} (m : RM α) (ls : List Str) : Out α :=
  match m ⟨ls, 0⟩ with
  | (r, l) => ⟨r, l.lineno⟩

/-! ### Python `str` on the character domain -/

def digitVal? (c : Char) : Option Nat :=
  if '0' ≤ c && c ≤ '9' then some (c.toNat - 48)
  else if 0x660 ≤ c.toNat && c.toNat ≤ 0x669 then some (c.toNat - 0x660)
  else none

/-- `c.isdigit()`: decimal digits and the superscripts U+00B2, U+00B3, U+00B9 -/
def isDigitU (c : Char) : Bool :=
  (digitVal? c).isSome || c.toNat == 0xb2 || c.toNat == 0xb3 || c.toNat == 0xb9

/-- `s.isdigit()` -/
def isDigitStrU (s : Str) : Bool := !s.isEmpty && s.all isDigitU

def isUpperU (c : Char) : Bool := isUpperA c || c.toNat == 0xc9
def isLowerU (c : Char) : Bool := isLowerA c || c.toNat == 0xe9
def isCasedU (c : Char) : Bool := isUpperU c || isLowerU c
def lowerU (c : Char) : Char := if isUpperU c then Char.ofNat (c.toNat + 32) else c
def upperU (c : Char) : Char := if isLowerU c then Char.ofNat (c.toNat - 32) else c

def titleGoU : Bool → Str → Str
  | _, [] => []
  | prev, c :: cs => (if isCasedU c then (if prev then lowerU c else upperU c) else c) :: titleGoU (isCasedU c) cs

/-- `s.title()` -/
def titleU (s : Str) : Str := titleGoU false s
/-- `s.upper()` -/
def upperStrU (s : Str) : Str := s.map upperU
def lowerStrU (s : Str) : Str := s.map lowerU

/-- PEP 515 `digitpart ::= digit (["_"] digit)*` (the whole string); its value -/
def digitPartGo : Nat → Bool → Str → Option Nat
  | acc, prev, [] => if prev then some acc else none
  | acc, prev, c :: cs =>
    match digitVal? c with
    | some d => digitPartGo (acc * 10 + d) true cs
    | none => if c == '_' && prev then digitPartGo acc false cs else none

def digitPart (s : Str) : Option Nat := digitPartGo 0 false s

def splitSignU : Str → Bool × Str
  | [] => (false, [])
  | c :: r => if c == '-' then (true, r) else if c == '+' then (false, r) else (false, c :: r)

/-- `int(s)`: blanks stripped, optional sign, a digitpart (`None` = ValueError) -/
def pyInt (s : Str) : Option Int :=
  let (neg, ds) := splitSignU (strip s)
  (digitPart ds).map (fun n => if neg then - (n : Int) else (n : Int))

/-- empty, or a digitpart -/
def optDigits (s : Str) : Bool := s.isEmpty || (digitPart s).isSome

def isExpChar (c : Char) : Bool := c == 'e' || c == 'E'

/-- does `float(s)` return?  (`inf`/`nan` spellings, PEP 515 underscores, no overflow error: `1e999` is `inf`) -/
def pyFloatOk (s : Str) : Bool :=
  let (_, u) := splitSignU (strip s)
  let lw := lowerStrU u
  if lw == "inf".toList || lw == "infinity".toList || lw == "nan".toList then true else
  let mant := u.takeWhile (fun c => !isExpChar c)
  let expOk :=
    match u.dropWhile (fun c => !isExpChar c) with
    | [] => true
    | _ :: x => (digitPart (splitSignU x).2).isSome
  let ip := mant.takeWhile (· != '.')
  let mantOk :=
    match mant.dropWhile (· != '.') with
    | [] => (digitPart ip).isSome
    | _ :: fp => optDigits ip && optDigits fp && !(ip.isEmpty && fp.isEmpty)
  mantOk && expOk

def floatE (s : Str) : Except Cls Unit := if pyFloatOk s then .ok () else .error .value
def intE (s : Str) : Except Cls Int := match pyInt s with | some i => .ok i | none => .error .value

/-- `words[i]` -/
def wordE (ws : List Str) (i : Nat) : Except Cls Str := match ws[i]? with | some w => .ok w | none => .error .index

/-- Python slice `s[a:b]` with non-negative bounds -/
def sl (a b : Nat) (s : Str) : Str := slice a b s

/-! ### numpy: allocation and stores -/

def two63 : Int := 9223372036854775808
/-- the harness makes allocations above this many bytes fail with `MemoryError` (deterministic stand-in for
the machine's limit) -/
def allocLimit : Int := 1073741824

/-- `np.zeros(dims)` / `np.empty(dims)` with 8-byte items: negative dimension or a size that overflows
`intp` → ValueError, too large for memory → MemoryError -/
def allocE (dims : List Int) : Except Cls Unit :=
  if dims.any (· < 0) then .error .value
  else if dims.any (· ≥ two63) then .error .value
  else
    let total := dims.foldl (· * ·) 8
    if total ≥ two63 then .error .value
    else if total > allocLimit then .error .memory
    else .ok ()

/-- `intarray[i] = v` for a Python int -/
def storeIntE (v : Int) : Except Cls Unit :=
  if v ≥ two63 || v < -two63 then .error .overflow else .ok ()

/-- `intarray.flat[i] = v` for a Python int ("Error setting single item of array": ValueError) -/
def storeFlatIntE (v : Int) : Except Cls Unit :=
  if v ≥ two63 || v < -two63 then .error .value else .ok ()

/-! ### the result dictionary, by shapes -/

/-- shapes of the arrays of a result dictionary (`none` = key absent) -/
structure RObj where
  atcoords : Option (List Nat) := none
  atnums : Option (List Nat) := none
  atcorenums : Option (List Nat) := none
  atmasses : Option (List Nat) := none
  atcharges : List Nat := []          -- `len` of every entry of the `atcharges` dict
  atffparams : List Nat := []         -- `len` of every entry of the `atffparams` dict
  extraAtom : List Nat := []          -- `len` of the per-atom arrays stored in `extra`
  bonds : Option (List Nat) := none
  cellvecs : Option (List Nat) := none
  cube : Option (List Nat) := none    -- shape of `cube.data`
  hasTitle : Bool := false            -- the key `title` is in the dictionary (a `str`)
  hasAtcharges : Bool := false        -- the key `atcharges` is in the dictionary (a `dict`)
  hasAtffparams : Bool := false       -- the key `atffparams` is in the dictionary
  hasExtra : Bool := false            -- the key `extra` is in the dictionary
  deriving DecidableEq, Repr, Inhabited

/-- `len(array)` -/
def lenOf : List Nat → Nat
  | [] => 0
  | n :: _ => n

/-- `IOData.natom` (iodata.py: atcoords, atcorenums, [atgradient, atfrozen,] atmasses, atnums) -/
def RObj.natom (o : RObj) : Option Nat :=
  match o.atcoords, o.atcorenums, o.atmasses, o.atnums with
  | some s, _, _, _ => some (lenOf s)
  | none, some s, _, _ => some (lenOf s)
  | none, none, some s, _ => some (lenOf s)
  | none, none, none, some s => some (lenOf s)
  | none, none, none, none => none

/-- one requirement of `validate_shape`: `none` = not checked -/
def shapeMatch (expected : List (Option Nat)) (observed : List Nat) : Bool :=
  expected.length == observed.length &&
    (expected.zip observed).all (fun p => match p.1 with | none => true | some e => e == p.2)

/-- `attrs.validators.optional(validate_shape(...))` -/
def optShape (expected : List (Option Nat)) : Option (List Nat) → Bool
  | none => true
  | some s => shapeMatch expected s

/-- the validators of `IOData.__init__` that concern the arrays the readers return
(`_validate_atcharges`, `validate_shape("natom", 3)`, `("natom")`, `(None, 3)`; `atmasses` last): all pass? -/
def ctorOk (o : RObj) : Bool :=
  (match o.natom with
   | none => true
   | some n => o.atcharges.all (· == n)) &&
  optShape [o.natom, some 3] o.atcoords &&
  optShape [o.natom] o.atcorenums &&
  optShape [o.natom] o.atnums &&
  optShape [none, some 3] o.bonds &&
  optShape [none, some 3] o.cellvecs &&
  optShape [o.natom] o.atmasses

/-- `IOData(**result)`: `TypeError` from a validator -/
def ctorE (o : RObj) : Option Cls := if ctorOk o then none else some .type

/-- every per-atom array of the object has `n` entries (the C07 notion of consistent shapes) -/
def RObj.Consistent (o : RObj) (n : Nat) : Prop :=
  (∀ s, o.atcoords = some s → s = [n, 3]) ∧ (∀ s, o.atnums = some s → s = [n]) ∧
  (∀ s, o.atcorenums = some s → s = [n]) ∧ (∀ k ∈ o.atcharges, k = n) ∧
  (∀ s, o.bonds = some s → ∃ m, s = [m, 3]) ∧ (∀ s, o.cellvecs = some s → ∃ m, s = [m, 3]) ∧
  (∀ s, o.atmasses = some s → s = [n])

/-- … including the per-atom entries of `atffparams` and `extra`, which no validator checks -/
def RObj.FullyConsistent (o : RObj) (n : Nat) : Prop :=
  o.Consistent n ∧ (∀ k ∈ o.atffparams, k = n) ∧ (∀ k ∈ o.extraAtom, k = n)

/-! ### which keys / attributes are set (C17: "guaranteed ⇒ set") -/

def kAtcoords : Str := ['a','t','c','o','o','r','d','s']
def kAtnums : Str := ['a','t','n','u','m','s']
def kAtcorenums : Str := ['a','t','c','o','r','e','n','u','m','s']
def kAtcharges : Str := ['a','t','c','h','a','r','g','e','s']
def kAtffparams : Str := ['a','t','f','f','p','a','r','a','m','s']
def kAtmasses : Str := ['a','t','m','a','s','s','e','s']
def kBonds : Str := ['b','o','n','d','s']
def kCellvecs : Str := ['c','e','l','l','v','e','c','s']
def kCube : Str := ['c','u','b','e']
def kExtra : Str := ['e','x','t','r','a']
def kTitle : Str := ['t','i','t','l','e']

/-- the attribute names a result dictionary of the modelled readers can carry, each with the test
"the key is in the dictionary (with a value that is not `None`)" -/
def accessors : List (Str × (RObj → Bool)) :=
  [(kAtcoords, fun o => o.atcoords.isSome), (kAtnums, fun o => o.atnums.isSome),
   (kAtcorenums, fun o => o.atcorenums.isSome), (kAtcharges, fun o => o.hasAtcharges),
   (kAtffparams, fun o => o.hasAtffparams), (kAtmasses, fun o => o.atmasses.isSome), (kBonds, fun o => o.bonds.isSome),
   (kCellvecs, fun o => o.cellvecs.isSome), (kCube, fun o => o.cube.isSome),
   (kExtra, fun o => o.hasExtra), (kTitle, fun o => o.hasTitle)]

/-- the test for attribute name `a`; `none` = the shapes object does not represent this attribute at all -/
def accessor? (a : Str) : Option (RObj → Bool) := accessors.lookup a

/-- keys of the result dictionary (in the order of `accessors`) -/
def RObj.keys (o : RObj) : List Str := (accessors.filter fun p => p.2 o).map (·.1)

/-- attributes of `IOData` whose default is a fresh `dict` (`attrs.field(factory=dict)`), among `accessors` -/
def dictDefaults : List Str := [kAtcharges, kAtffparams, kExtra]

/-- `getattr(IOData(**result), a) is not None` once the constructor has accepted `result`: the key was passed
(no converter or validator turns a value into `None`), or the attribute defaults to a fresh `dict`, or it is
`atcorenums`, which the property getter derives from `atnums` -/
def RObj.attrSet (o : RObj) (a : Str) (key : RObj → Bool) : Bool :=
  key o || dictDefaults.contains a || (a == kAtcorenums && o.atnums.isSome)

/-- attributes (of `accessors`) that are not `None` on the constructed object -/
def RObj.setAttrs (o : RObj) : List Str := (accessors.filter fun p => o.attrSet p.1 p.2).map (·.1)

def showNames (l : List Str) : String := if l.isEmpty then "-" else ",".intercalate (l.map String.ofList)

def showShape (s : Option (List Nat)) : String :=
  match s with
  | none => "-"
  | some d => "x".intercalate (d.map toString) ++ (if d.isEmpty then "s" else "")

def showLens (l : List Nat) : String := if l.isEmpty then "-" else ",".intercalate (l.map toString)

/-- canonical text of a result (compared with the implementation) -/
def RObj.show (o : RObj) : String :=
  s!"atcoords={showShape o.atcoords} atnums={showShape o.atnums} atcorenums={showShape o.atcorenums} atmasses={showShape o.atmasses} " ++
  s!"atcharges={showLens o.atcharges} atffparams={showLens o.atffparams} extra={showLens o.extraAtom} " ++
  s!"bonds={showShape o.bonds} cellvecs={showShape o.cellvecs} cube={showShape o.cube} keys={showNames o.keys}"

/-- response of the `rdr` stream -/
def Out.show (r : Out RObj) : String :=
  match r.res with
  | .ok o =>
    match ctorE o with
    | none => s!"ok {o.show} ctor=ok set={showNames o.setAttrs} @{r.lineno}"
    | some c => s!"ok {o.show} ctor={c.toString} set=- @{r.lineno}"
  | .error c => s!"err {c.toString} @{r.lineno}"

end Iodata.Rd
