/-
MOL2 `load_one` (iodata/formats/mol2.py) on arbitrary lines — statement by statement, including the paths
on which Python finds a local variable unbound (`natoms`, `nbonds`, `result`: UnboundLocalError, a NameError).

The record loop reads one line per iteration and its helpers read further lines, so it is defined with fuel;
`Props/C07Readers.mol2_fuel` proves that `N + 1` iterations are enough for a file of `N` lines.
-/
import Iodata.Model.Rd.Core
import Iodata.Model.Fmt.Core
namespace Iodata.Rd.Mol2
open Iodata.Chars Iodata.Rd Iodata.Fmt

def tMOLECULE : Str := "@<TRIPOS>MOLECULE".toList
def tATOM : Str := "@<TRIPOS>ATOM".toList
def tBOND : Str := "@<TRIPOS>BOND".toList

/-- local variables of `load_one` that decide the control flow -/
structure LoopSt where
  hdr : Option (Int × Int) := none    -- `natoms`, `nbonds` are bound
  res : Option Nat := none            -- `result` exists (`molecule_found`): rows of its atom arrays
  bonds : Option Nat := none          -- `result["bonds"]`: rows
  deriving DecidableEq, Repr, Inhabited

/-- `2^1024 − 2^970`: from here on `float(int)` raises OverflowError -/
def floatIntLimit : Int := 2 ^ 1024 - 2 ^ 970

/-- one line of `_load_helper_atoms` -/
def atomLine (line : Str) : Except Cls Unit :=
  let ws := splitWs line
  match ws[1]? with
  | none => .error .index                      -- `words[1][:2]`
  | some _ =>
    match ws[5]? with
    | none => .error .index                    -- `attypes.append(words[5])`
    | some _ =>
      match floatE (ws.getD 2 []), floatE (ws.getD 3 []), floatE (ws.getD 4 []) with
      | .ok _, .ok _, .ok _ => if ws.length == 9 then floatE (ws.getD 8 []) else .ok ()
      | _, _, _ => .error .value

/-- one line of `_load_helper_bonds`: `[int(words[1]) - 1, int(words[2]) - 1, bond2num.get(words[3])]`
stored into a row of a float array -/
def bondLine (line : Str) : Except Cls Unit :=
  let ws := splitWs line
  match ws[1]? with
  | none => .error .index
  | some w1 =>
    match pyInt w1 with
    | none => .error .value
    | some a =>
      match ws[2]? with
      | none => .error .index
      | some w2 =>
        match pyInt w2 with
        | none => .error .value
        | some b =>
          match ws[3]? with
          | none => .error .index
          | some _ =>
            if (a - 1).natAbs ≥ floatIntLimit.toNat || (b - 1).natAbs ≥ floatIntLimit.toNat then .error .overflow
            else .ok ()

/-- the MOLECULE branch: title line, counts line, `natoms = int(words[0])`, `nbonds = int(words[1])`;
returns the new `words[0]` -/
def molHeader (st : LoopSt) : RM (LoopSt × Str) :=
  RM.bind nextLine fun _title =>
  RM.bind nextLine fun l2 =>
  let ws := splitWs l2
  RM.bind (liftE (wordE ws 0)) fun w0 =>
  RM.bind (liftE (intE w0)) fun natoms =>
  RM.bind (liftE (wordE ws 1)) fun w1 =>
  RM.bind (liftE (intE w1)) fun nbonds =>
  RM.pure ({ st with hdr := some (natoms, nbonds) }, w0)

/-- the ATOM branch -/
def atomSec (st : LoopSt) : RM LoopSt :=
  match st.hdr with
  | none => raise .name
  | some (na, _) =>
    RM.bind (liftE (allocE [na])) fun _ =>
    RM.bind (liftE (allocE [na, 3])) fun _ =>
    RM.bind (liftE (allocE [na])) fun _ =>
    RM.bind (repeatN (RM.bind nextLine fun l => liftE (atomLine l)) na.toNat) fun _ =>
    RM.pure { st with res := some na.toNat, bonds := none }

/-- the BOND branch (the rows are read before `result["bonds"] = bonds` can fail) -/
def bondSec (st : LoopSt) : RM LoopSt :=
  match st.hdr with
  | none => raise .name
  | some (_, nb) =>
    RM.bind (liftE (allocE [nb, 3])) fun _ =>
    RM.bind (repeatN (RM.bind nextLine fun l => liftE (bondLine l)) nb.toNat) fun _ =>
    match st.res with
    | none => raise .name
    | some _ => RM.pure { st with bonds := some nb.toNat }

/-- the three `if words[0] == …` of one iteration (`w0` is `words[0]` of the line just read) -/
def body (st : LoopSt) (w0 : Str) : RM LoopSt :=
  RM.bind (if w0 == tMOLECULE then molHeader st else RM.pure (st, w0)) fun p =>
  RM.bind (if p.2 == tATOM then atomSec p.1 else RM.pure p.1) fun st2 =>
  if p.2 == tBOND then bondSec st2 else RM.pure st2

/-- the `while True` loop; `none` = out of fuel -/
def loop : Nat → LoopSt → Lit → Option (Except Cls LoopSt × Lit)
  | 0, _, _ => none
  | f + 1, st, l =>
    match l.rest with
    | [] => some (.ok st, ⟨[], l.lineno + 1⟩)                -- StopIteration caught: break
    | line :: r =>
      if line.length > 1 then
        match splitWs line with
        | [] => some (.error .index, ⟨r, l.lineno + 1⟩)      -- `words[0]` of a blank line
        | w0 :: _ =>
          if w0 == tMOLECULE && st.res.isSome then some (.ok st, l)   -- `lit.back(line); break`
          else
            match body st w0 ⟨r, l.lineno + 1⟩ with
            | (.ok st', l') => loop f st' l'
            | (.error e, l') => some (.error e, l')
      else loop f st ⟨r, l.lineno + 1⟩

/-- after the loop: the two `LoadError`s, then the result dictionary -/
def finish (st : LoopSt) : Except Cls RObj :=
  match st.res, st.hdr with
  | none, _ => .error .load
  | some _, none => .error .name      -- unreachable (`result` exists only after the counts were read)
  | some n, some (_, nb) =>
    if nb > 0 && st.bonds.isNone then .error .load
    else .ok { atcoords := some [n, 3], atnums := some [n], atcharges := [n], atffparams := [n],
               bonds := st.bonds.map fun m => [m, 3],
               hasTitle := true, hasAtcharges := true, hasAtffparams := true }

def loadOneF (fuel : Nat) : Lit → Option (Except Cls RObj × Lit) := fun l =>
  match loop fuel {} l with
  | none => none
  | some (.ok st, l') => some (finish st, l')
  | some (.error e, l') => some (.error e, l')

/-- `load_one` with the fuel that is proved sufficient -/
def read (ls : List Str) : Out RObj :=
  match loadOneF (ls.length + 1) ⟨ls, 0⟩ with
  | some (r, l) => ⟨r, l.lineno⟩
  | none => ⟨.error .load, 0⟩     -- never taken (`mol2_fuel`)

end Iodata.Rd.Mol2
