/-
CHARMM CRD `load_one` and `_helper_read_crd` (iodata/formats/charmm.py) on arbitrary lines — statement by
statement.

    title = ""
    while True:
        try: line = next(lit)
        except StopIteration: raise LoadError(...)           -- the counter was already advanced
        if line.startswith("*"):
            text = line[1:]
            if len(text.strip()) == 0: break
            title += text                                    -- lines without `*` are skipped silently
    natom = next(lit)                                        -- StopIteration leaves the reader
    if natom is None or not natom.strip().isdigit(): raise LoadError
    natom = int(natom)                                       -- ValueError for `isdigit()` strings such as "²"
    pos = np.zeros((natom, 3))
    for i in range(natom):
        line = next(lit); words = line.split()
        int(words[1]); words[2]; words[3]; float(words[4]); float(words[5]); float(words[6]); words[7];
        int(words[8]); float(words[9]) * amu                 -- in this order; one `append` / row store each
    pos *= angstrom
    np.array(...) of the seven lists; the result dictionary
-/
import Iodata.Model.Rd.Core
namespace Iodata.Rd.Crd
open Iodata.Chars Iodata.Rd

/-- `line.startswith("*")` and `len(line[1:].strip()) == 0`: the bare `*` that ends the title -/
def isEndMarker (line : Str) : Bool := line.head? == some '*' && (strip (line.drop 1)).isEmpty

/-- the `while True` loop of the title section on the remaining lines `rest` with line counter `k`: every
iteration reads a line; at the end of the file the `StopIteration` of `next(lit)` (which has advanced the
counter) is replaced by `LoadError` -/
def titleLoop : List Str → Nat → Except Cls Unit × Lit
  | [], k => (.error .load, ⟨[], k + 1⟩)
  | line :: r, k => if isEndMarker line then (.ok (), ⟨r, k + 1⟩) else titleLoop r (k + 1)

def titleSec : RM Unit := fun l => titleLoop l.rest l.lineno

/-- the atom-count line: `not natom.strip().isdigit()` → LoadError, then `int(natom)` -/
def countE (line : Str) : Except Cls Int :=
  if isDigitStrU (strip line) then intE line else .error .load

/-- what is done with a word of an atom record -/
inductive Fld
  | int | str | float
  deriving DecidableEq, Repr

/-- `int(words[i])` / `words[i]` / `float(words[i])`: `IndexError` first, then `ValueError` -/
def fieldE (ws : List Str) (i : Nat) (k : Fld) : Except Cls Unit :=
  match wordE ws i with
  | .error e => .error e
  | .ok w =>
    match k with
    | .str => .ok ()
    | .int => match intE w with | .error e => .error e | .ok _ => .ok ()
    | .float => floatE w

/-- the statements of the loop body in source order (the stores `list.append`, `pos[i, j] = float` cannot fail) -/
def recordFields : List (Nat × Fld) :=
  [(1, .int), (2, .str), (3, .str), (4, .float), (5, .float), (6, .float), (7, .str), (8, .int), (9, .float)]

def fieldsE (ws : List Str) : List (Nat × Fld) → Except Cls Unit
  | [] => .ok ()
  | (i, k) :: r =>
    match fieldE ws i k with
    | .error e => .error e
    | .ok _ => fieldsE ws r

/-- one atom line: `words = line.split()` and the nine statements -/
def atomLine (line : Str) : Except Cls Unit := fieldsE (splitWs line) recordFields

/-- `_helper_read_crd` followed by the `np.array(..)` conversions of `load_one` (the lists hold `natom` entries
each; `np.array` of Python ints, floats or strings does not raise) -/
def helper : RM RObj :=
  RM.bind nextLine fun l1 =>
  RM.bind (liftE (countE l1)) fun natom =>
  RM.bind (liftE (allocE [natom, 3])) fun _ =>
  RM.bind (repeatN (RM.bind nextLine fun l => liftE (atomLine l)) natom.toNat) fun _ =>
  RM.pure { atcoords := some [natom.toNat, 3], atmasses := some [natom.toNat],
            atffparams := [natom.toNat, natom.toNat, natom.toNat],
            extraAtom := [natom.toNat, natom.toNat],
            hasTitle := true, hasAtffparams := true, hasExtra := true }

/-- `load_one` -/
def loadOne : RM RObj := RM.bind titleSec fun _ => helper

def read (ls : List Str) : Out RObj := run loadOne ls

end Iodata.Rd.Crd
