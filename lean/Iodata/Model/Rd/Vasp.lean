/-
VASP readers on arbitrary lines — statement by statement:
`_load_vasp_header`, `_load_vasp_grid`, `load_one` of iodata/formats/chgcar.py, `load_one` of poscar.py and of
locpot.py.

What is kept besides the control flow: the number of words of every cell line and atom line (they decide the
shapes numpy builds, and whether `np.array` / `np.dot` raise), the atom counts, the atomic numbers (only for the
checksum of `atnums` the correspondence compares), the three grid dimensions.  Coordinates, cell entries, the
scaling factor and the grid values are `float()` accept/reject only.
-/
import Iodata.Model.Rd.Core
import Iodata.Model.Fmt.Core
namespace Iodata.Rd.Vasp
open Iodata.Chars Iodata.Rd Iodata.Fmt

/-- `[float(w) for w in ws]` -/
def floatsAll : List Str → Except Cls Unit
  | [] => .ok ()
  | w :: ws =>
    match floatE w with
    | .error e => .error e
    | .ok _ => floatsAll ws

/-- `[int(w) for w in ws]` -/
def intsAll : List Str → Except Cls (List Int)
  | [] => .ok []
  | w :: ws =>
    match pyInt w with
    | none => .error .value
    | some v =>
      match intsAll ws with
      | .error e => .error e
      | .ok vs => .ok (v :: vs)

/-- `[sym2num[w] for w in ws]` (exact spelling: no `.title()`) -/
def symsAll (T : Tables) : List Str → Except Cls (List Nat)
  | [] => .ok []
  | w :: ws =>
    match T.num? w with
    | none => .error .key
    | some z =>
      match symsAll T ws with
      | .error e => .error e
      | .ok zs => .ok (z :: zs)

/-- `[float(w) for w in next(lit).split()]`: the length of the row -/
def cellRow (line : Str) : Except Cls Nat :=
  let ws := splitWs line
  match floatsAll ws with
  | .error e => .error e
  | .ok _ => .ok ws.length

/-- `[float(w) for w in line.split()[:3]]`: the length of the row -/
def atomRow (line : Str) : Except Cls Nat :=
  let ws := (splitWs line).take 3
  match floatsAll ws with
  | .error e => .error e
  | .ok _ => .ok ws.length

/-- `np.array(rows)` for a list of lists of floats given by their lengths: the shape, or `ValueError`
("inhomogeneous shape") when the lengths differ; `np.array([])` has shape `(0,)` -/
def arrayRows : List Nat → Except Cls (List Nat)
  | [] => .ok [0]
  | m :: r => if r.all (· == m) then .ok [r.length + 1, m] else .error .value

/-- `np.dot(a, cellvecs)` with `cellvecs` of shape `(3, k)`: the shape or `ValueError` ("not aligned") -/
def dotE (a : List Nat) (k : Nat) : Except Cls (List Nat) :=
  match a with
  | [n, m] => if m == 3 then .ok [n, k] else .error .value
  | _ => .error .value

/-- `for n, c in zip(vasp_atnums, vasp_counts): atnums.extend([n] * c)`: (number of atoms, sum of the atomic
numbers).  `[n] * c`: negative `c` gives `[]`, `c` outside `[-2^63, 2^63)` is `OverflowError`, a list too large for memory
`MemoryError` (the harness caps the address space; the model draws the line at `allocLimit` bytes of pointers) -/
def extendE : List Nat → List Int → Nat × Nat → Except Cls (Nat × Nat)
  | z :: zs, c :: cs, (n, s) =>
    if c ≥ two63 || c < -two63 then .error .overflow
    else if 8 * c > allocLimit then .error .memory
    else extendE zs cs (n + c.toNat, s + z * c.toNat)
  | _, _, acc => .ok acc

/-- `line[0].lower() in cs` -/
def firstIn (line : Str) (cs : List Char) : Except Cls Bool :=
  match line with
  | [] => .error .index
  | c :: _ => .ok (cs.contains (lowerU c))

/-- what `_load_vasp_header` returns, by shapes -/
structure Hdr where
  natom : Nat                 -- `len(atnums)`
  zsum : Nat                  -- `atnums.sum()`
  coordShape : List Nat       -- shape of `atcoords`
  cellK : Nat                 -- `cellvecs` has shape `(3, cellK)`
  deriving DecidableEq, Repr

/-- one iteration of the coordinate loop: `line = next(lit); atcoords.append([float(w) for w in line.split()[:3]])` -/
def atomStep (rows : List Nat) : RM (List Nat) :=
  RM.bind nextLine fun l => RM.bind (liftE (atomRow l)) fun m => RM.pure (m :: rows)

/-- `_load_vasp_header` -/
def loadHeader (T : Tables) : RM Hdr :=
  RM.bind nextLine fun _title =>
  RM.bind nextLine fun l1 => RM.bind (liftE (floatE l1)) fun _ =>
  RM.bind nextLine fun c0 => RM.bind (liftE (cellRow c0)) fun k0 =>
  RM.bind nextLine fun c1 => RM.bind (liftE (cellRow c1)) fun k1 =>
  RM.bind nextLine fun c2 => RM.bind (liftE (cellRow c2)) fun k2 =>
  RM.bind (liftE (arrayRows [k0, k1, k2])) fun _ =>          -- `np.array([...])`: shape `(3, k0)`
  RM.bind nextLine fun ls => RM.bind (liftE (symsAll T (splitWs ls))) fun zs =>
  RM.bind nextLine fun lc => RM.bind (liftE (intsAll (splitWs lc))) fun cs =>
  RM.bind (liftE (extendE zs cs (0, 0))) fun nz =>
  RM.bind nextLine fun l7 => RM.bind (liftE (firstIn l7 ['s'])) fun sel =>
  RM.bind (if sel then nextLine else RM.pure l7) fun lm =>
  RM.bind (liftE (firstIn lm ['c', 'k'])) fun cart =>
  RM.bind (foldN atomStep nz.1 []) fun rows =>
  RM.bind (liftE (arrayRows rows)) fun a =>
  RM.bind (liftE (if cart then .ok a else dotE a k0)) fun coordShape =>
  RM.pure { natom := nz.1, zsum := nz.2, coordShape := coordShape, cellK := k0 }

def Hdr.toObj (h : Hdr) : RObj :=
  { atcoords := some h.coordShape, atnums := some [h.natom], cellvecs := some [3, h.cellK], hasTitle := true }

/-- poscar.py `load_one` -/
def loadPoscar (T : Tables) : RM RObj :=
  RM.bind (loadHeader T) fun h => RM.pure h.toObj

/-! ### the grid part -/

/-- `for line in lit: shape = np.array([int(w) for w in line.split()]); if len(shape) == 3: break`.
The `for` statement swallows the `StopIteration` of the end of the file (the counter is incremented by that read
too); `shape` then keeps the value of the last iteration, or is unbound (`none`). -/
def shapeLoopGo : List Str → Nat → Option (List Int) → Except Cls (Option (List Int)) × Lit
  | [], k, last => (.ok last, ⟨[], k + 1⟩)
  | x :: r, k, _ =>
    match intsAll (splitWs x) with
    | .error e => (.error e, ⟨r, k + 1⟩)
    | .ok vs => if vs.length == 3 then (.ok (some vs), ⟨r, k + 1⟩) else shapeLoopGo r (k + 1) (some vs)

def shapeLoop : RM (Option (List Int)) := fun l => shapeLoopGo l.rest l.lineno none

def two64 : Int := 18446744073709551616

/-- `np.zeros(shape, float)` where `shape = np.array(vals)` of Python ints: no word → an empty `float64` array →
a 0-d result; a value outside `[-2^63, 2^64)` → `object` array → ValueError; all in `[2^63, 2^64)` → `uint64` →
ValueError; some of them → `float64` → TypeError; otherwise `int64` dimensions (`allocE`), at most 64 of them -/
def zerosE (vals : List Int) : Except Cls Unit :=
  if vals.isEmpty then .ok ()
  else if vals.any (fun v => v ≥ two64 || v < -two63) then .error .value
  else if vals.all (· ≥ two63) then .error .value
  else if vals.any (· ≥ two63) then .error .type
  else
    match allocE vals with
    | .error e => .error e
    | .ok _ => if vals.length > 64 then .error .value else .ok ()

/-- the three nested `for` loops: `if not words: words = next(lit).split()`,
`cube_data[i0, i1, i2] = float(words.pop(0))`; returns the number of values stored -/
def dataLoop : Nat → List Str → Nat → RM Nat
  | 0, _, acc => RM.pure acc
  | n + 1, w :: ws, acc => RM.bind (liftE (floatE w)) fun _ => dataLoop n ws (acc + 1)
  | n + 1, [], acc =>
    RM.bind nextLine fun line =>
    match splitWs line with
    | [] => raise .index                       -- `[].pop(0)`
    | w :: ws => RM.bind (liftE (floatE w)) fun _ => dataLoop n ws (acc + 1)

/-- `_load_vasp_grid` after the shape loop, for a bound `shape`: allocation, `shape[2]` (IndexError for fewer
than three entries), the loops, `cellvecs / shape.reshape(-1, 1)` (ValueError for more than three entries),
`Cube(...)` whose validator wants axes of shape `(3, 3)` (TypeError).  Returns the shape of `cube.data` and the
number of values stored. -/
def gridTail (cellK : Nat) (vals : List Int) : RM (List Nat × Nat) :=
  RM.bind (liftE (zerosE vals)) fun _ =>
  match vals with
  | s0 :: s1 :: s2 :: more =>
    RM.bind (dataLoop (s0.toNat * s1.toNat * s2.toNat) [] 0) fun cnt =>
    if !more.isEmpty then raise .value
    else if cellK != 3 then raise .type
    else RM.pure ([s0.toNat, s1.toNat, s2.toNat], cnt)
  | _ => raise .index

/-- after the header: the shape loop, `UnboundLocalError` when it never ran, the rest -/
def gridPart (cellK : Nat) : RM (List Nat × Nat) :=
  RM.bind shapeLoop fun last =>
  match last with
  | none => raise .name
  | some vals => gridTail cellK vals

/-- `_load_vasp_grid` -/
def loadGrid (T : Tables) : RM RObj :=
  RM.bind (loadHeader T) fun h =>
  RM.bind (gridPart h.cellK) fun g =>
  RM.pure { h.toObj with cube := some g.1 }

/-- chgcar.py `load_one`: `_load_vasp_grid`, then `data[:] /= volume(cellvecs)` — `cellvecs` is `(3, 3)` here
(the `Cube` validator), `abs(np.linalg.det(..))` and the division do not raise -/
def loadChgcar (T : Tables) : RM RObj := loadGrid T

/-- locpot.py `load_one`: `_load_vasp_grid`, then `data[:] *= electronvolt` -/
def loadLocpot (T : Tables) : RM RObj := loadGrid T

def readPoscar (T : Tables) (ls : List Str) : Out RObj := run (loadPoscar T) ls
def readChgcar (T : Tables) (ls : List Str) : Out RObj := run (loadChgcar T) ls
def readLocpot (T : Tables) (ls : List Str) : Out RObj := run (loadLocpot T) ls

/-- `atnums.sum()` of a returned header (the value fingerprint of the correspondence) -/
def zsum (T : Tables) (ls : List Str) : Option Nat :=
  match (run (loadHeader T) ls).res with
  | .ok h => some h.zsum
  | .error _ => none

end Iodata.Rd.Vasp
