/-
GROMACS gro `load_one` (iodata/formats/gromacs.py, `_helper_read_frame`) on arbitrary lines — statement by
statement.
-/
import Iodata.Model.Rd.Core
namespace Iodata.Rd.Gro
open Iodata.Chars Iodata.Rd

/-- the text after the first occurrence of `"t="`, if any -/
def afterT : Str → Option Str
  | [] => none
  | c :: r => if c == 't' && r.head? == some '=' then some (r.drop 1) else afterT r

/-- the text before the first occurrence of `"t="` (all of it when there is none) -/
def beforeT : Str → Str
  | [] => []
  | c :: r => if c == 't' && r.head? == some '=' then [] else c :: beforeT r

/-- `"t=" in line` → `float(line.split("t=")[1])` -/
def timeE (line : Str) : Except Cls Unit :=
  match afterT line with
  | none => .ok ()
  | some rest => floatE (beforeT rest)

/-- `s.index(".", start)` as an absolute position -/
def indexDot (s : Str) (start : Nat) : Option Nat :=
  match (s.drop start).findIdx? (· == '.') with
  | some i => some (start + i)
  | none => none

/-- `float(line[20 + j*w : 20 + (j+1)*w])` for `j = a, …, a+k-1` -/
def floatCols (line : Str) (w : Nat) : Nat → Nat → Except Cls Unit
  | _, 0 => .ok ()
  | a, k + 1 =>
    match floatE (slice (20 + a * w) (20 + (a + 1) * w) line) with
    | .error e => .error e
    | .ok _ => floatCols line w (a + 1) k

/-- one atom line -/
def atomLine (line : Str) : Except Cls Unit :=
  match pyInt (line.take 5) with
  | none => .error .value
  | some _ =>
    if (splitWs (slice 5 10 line)).isEmpty then .error .index
    else if (splitWs (slice 10 15 line)).isEmpty then .error .index
    else
      match indexDot line 20 with
      | none => .error .value
      | some dot =>
        match indexDot line (dot + 1) with
        | none => .error .value
        | some dot2 =>
          let w := dot2 - dot
          match floatCols line w 0 3 with
          | .error e => .error e
          | .ok _ =>
            if (strip (line.drop (20 + 3 * w))).isEmpty then .ok () else floatCols line w 3 3

/-- `float(words[i])` for the first `k` words -/
def floatWords : List Str → Nat → Except Cls Unit
  | _, 0 => .ok ()
  | [], _ + 1 => .error .index
  | w :: ws, k + 1 =>
    match floatE w with
    | .error e => .error e
    | .ok _ => floatWords ws k

/-- the cell line -/
def cellLine (line : Str) : Except Cls Unit :=
  let ws := splitWs line
  match (if ws.length ≥ 3 then floatWords ws 3 else .ok ()) with
  | .error e => .error e
  | .ok _ => if ws.length == 9 then floatWords (ws.drop 3) 6 else .ok ()

/-- `load_one` -/
def loadOne : RM RObj :=
  RM.bind nextLine fun l0 =>
  RM.bind (liftE (timeE l0)) fun _ =>
  RM.bind nextLine fun l1 =>
  RM.bind (liftE (intE l1)) fun natoms =>
  RM.bind (liftE (allocE [natoms, 3])) fun _ =>
  RM.bind (liftE (allocE [natoms, 3])) fun _ =>
  RM.bind (repeatN (RM.bind nextLine fun l => liftE (atomLine l)) natoms.toNat) fun _ =>
  RM.bind nextLine fun lc =>
  RM.bind (liftE (cellLine lc)) fun _ =>
  RM.pure { atcoords := some [natoms.toNat, 3], atffparams := [natoms.toNat, natoms.toNat, natoms.toNat],
            extraAtom := [natoms.toNat], cellvecs := some [3, 3],
            hasTitle := true, hasAtffparams := true, hasExtra := true }

def read (ls : List Str) : Out RObj := run loadOne ls

end Iodata.Rd.Gro
