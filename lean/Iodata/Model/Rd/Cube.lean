/-
Gaussian cube `load_one` (iodata/formats/cube.py) on arbitrary lines — statement by statement.
-/
import Iodata.Model.Rd.Core
namespace Iodata.Rd.Cube
open Iodata.Chars Iodata.Rd

/-- `float(words[i])` -/
def floatAt (ws : List Str) (i : Nat) : Except Cls Unit :=
  match ws[i]? with
  | none => .error .index
  | some w => floatE w

/-- `float(words[i])` for `i = a, a+1, …` (`k` of them) -/
def floatsFrom (ws : List Str) : Nat → Nat → Except Cls Unit
  | _, 0 => .ok ()
  | a, k + 1 =>
    match floatAt ws a with
    | .error e => .error e
    | .ok _ => floatsFrom ws (a + 1) k

/-- `read_grid_line`: `int(words[0])`, then three floats -/
def gridLine (line : Str) : Except Cls Int :=
  let ws := splitWs line
  match ws[0]? with
  | none => .error .index
  | some w =>
    match pyInt w with
    | none => .error .value
    | some n =>
      match floatsFrom ws 1 3 with
      | .error e => .error e
      | .ok _ => .ok n

/-- `read_atom_line` and the stores `atnums[i], atcorenums[i], atcoords[i] = …` -/
def atomLine (line : Str) : Except Cls Unit :=
  let ws := splitWs line
  match ws[0]? with
  | none => .error .index
  | some w =>
    match pyInt w with
    | none => .error .value
    | some z =>
      match floatsFrom ws 1 4 with
      | .error e => .error e
      | .ok _ => storeIntE z

/-- `while counter < tmp.size: if not words: words = next(lit).split(); tmp[counter] = float(words.pop(0))` -/
def dataLoop : Nat → List Str → RM Unit
  | 0, _ => RM.pure ()
  | n + 1, w :: ws => RM.bind (liftE (floatE w)) fun _ => dataLoop n ws
  | n + 1, [] =>
    RM.bind nextLine fun line =>
    match splitWs line with
    | [] => raise .index                       -- `[].pop(0)`
    | w :: ws => RM.bind (liftE (floatE w)) fun _ => dataLoop n ws

def shapeArrayE (s0 s1 s2 : Int) : Except Cls Unit :=
  match storeIntE s0, storeIntE s1, storeIntE s2 with
  | .ok _, .ok _, .ok _ => .ok ()
  | _, _, _ => .error .overflow

/-- `load_one` -/
def loadOne : RM RObj :=
  RM.bind nextLine fun _title =>
  RM.bind nextLine fun _ =>
  RM.bind nextLine fun l2 => RM.bind (liftE (gridLine l2)) fun natom =>
  RM.bind nextLine fun l3 => RM.bind (liftE (gridLine l3)) fun s0 =>
  RM.bind nextLine fun l4 => RM.bind (liftE (gridLine l4)) fun s1 =>
  RM.bind nextLine fun l5 => RM.bind (liftE (gridLine l5)) fun s2 =>
  RM.bind (liftE (shapeArrayE s0 s1 s2)) fun _ =>
  RM.bind (liftE (allocE [natom])) fun _ =>
  RM.bind (liftE (allocE [natom])) fun _ =>
  RM.bind (liftE (allocE [natom, 3])) fun _ =>
  RM.bind (repeatN (RM.bind nextLine fun l => liftE (atomLine l)) natom.toNat) fun _ =>
  RM.bind (liftE (allocE [s0, s1, s2])) fun _ =>
  RM.bind (dataLoop (s0.toNat * s1.toNat * s2.toNat) []) fun _ =>
  RM.pure { atcoords := some [natom.toNat, 3], atnums := some [natom.toNat], atcorenums := some [natom.toNat],
            cellvecs := some [3, 3], cube := some [s0.toNat, s1.toNat, s2.toNat],
            hasTitle := true }

def read (ls : List Str) : Out RObj := run loadOne ls

end Iodata.Rd.Cube
