/-
SDF / MOL V2000 `load_one` (iodata/formats/sdf.py) on arbitrary lines — statement by statement.  The column
slices are the ones the translator extracts from the source (`Fmt.Sdf.Layout`, `Gen/Layouts.lean`).
-/
import Iodata.Model.Rd.Core
import Iodata.Model.Fmt.Sdf
namespace Iodata.Rd.Sdf
open Iodata.Chars Iodata.Rd Iodata.Fmt

abbrev Layout := Iodata.Fmt.Sdf.Layout

def cut (p : Nat × Nat) (s : Str) : Str := slice p.1 p.2 s

/-- atom record: three `float(line[a:b])`, then `atnums[iatom] = sym2num.get(...)` (`None` → TypeError) -/
def atomLine (T : Tables) (L : Layout) (line : Str) : Except Cls Unit :=
  match floatE (cut L.sX line) with
  | .error e => .error e
  | .ok _ =>
    match floatE (cut L.sY line) with
    | .error e => .error e
    | .ok _ =>
      match floatE (cut L.sZ line) with
      | .error e => .error e
      | .ok _ =>
        match T.num? (titleU (strip (cut L.sSym line))) with
        | some _ => .ok ()
        | none => .error .type

/-- bond record: three `int(line[a:b])` (three characters each: no overflow) -/
def bondLine (L : Layout) (line : Str) : Except Cls Unit :=
  match intE (cut L.sB1 line) with
  | .error e => .error e
  | .ok _ =>
    match intE (cut L.sB2 line) with
    | .error e => .error e
    | .ok _ =>
      match intE (cut L.sBt line) with
      | .error e => .error e
      | .ok _ => .ok ()

/-- `while True: try: words = next(lit) except StopIteration: raise LoadError; if words == "$$$$\n": break` -/
def seekEndGo (sep : Str) : List Str → Nat → Except Cls Unit × Lit
  | [], k => (.error .load, ⟨[], k + 1⟩)
  | x :: r, k => if x == sep then (.ok (), ⟨r, k + 1⟩) else seekEndGo sep r (k + 1)

def seekEnd (sep : Str) : RM Unit := fun l => seekEndGo sep l.rest l.lineno

/-- the check of the counts line: `line.split()[-1].upper() != "V2000"` -/
def versionE (line : Str) : Except Cls Unit :=
  match (splitWs line).getLast? with
  | none => .error .index
  | some w => if upperStrU w == "V2000".toList then .ok () else .error .load

/-- `load_one` -/
def loadOne (T : Tables) (L : Layout) : RM RObj :=
  RM.bind nextLine fun _title =>
  RM.bind nextLine fun _ =>
  RM.bind nextLine fun _ =>
  RM.bind nextLine fun line =>
  RM.bind (liftE (intE (cut L.sNatom line))) fun natom =>
  RM.bind (liftE (intE (cut L.sNbond line))) fun nbond =>
  RM.bind (liftE (versionE line)) fun _ =>
  RM.bind (liftE (allocE [natom, 3])) fun _ =>
  RM.bind (liftE (allocE [natom])) fun _ =>
  RM.bind (repeatN (RM.bind nextLine fun l => liftE (atomLine T L l)) natom.toNat) fun _ =>
  RM.bind (liftE (allocE [nbond, 3])) fun _ =>
  RM.bind (repeatN (RM.bind nextLine fun l => liftE (bondLine L l)) nbond.toNat) fun _ =>
  RM.bind (seekEnd (L.sepLine ++ ['\n'])) fun _ =>
  RM.pure { atcoords := some [natom.toNat, 3], atnums := some [natom.toNat], bonds := some [nbond.toNat, 3],
            hasTitle := true }

def read (T : Tables) (L : Layout) (ls : List Str) : Out RObj := run (loadOne T L) ls

end Iodata.Rd.Sdf
