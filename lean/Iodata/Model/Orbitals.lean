/-
Model of `iodata.orbitals.MolecularOrbitals` and `iodata.basis.Shell` (C12; re-used by C14).
Core Lean only (linked into the driver).

Occupations, energies, irreps are lists of exact rationals; `coeffs` carries one scalar per
COLUMN (orbital): only the column count takes part in validation and the alpha/beta views are
column slices.  attrs semantics: converters + validators in `__init__` on the NEW object in field
order, on assignment on the OLD object.  `kind`, `norba`, `norbb` carry a second validator
(`validate_change`) that, when the assigned value differs from the stored one, re-runs ALL validators on
a modified copy (`attrs.evolve`), see `reassign`.  Numpy semantics transcribed: 1-D broadcasting of
`a + b`, broadcasting of a slice assignment, `astype(int)` integer test, `clip`.
-/
namespace Iodata.Orb

/-- decidable equality of `Except` values (for `decide` on concrete model runs) -/
instance exceptDecEq {ε α : Type} [DecidableEq ε] [DecidableEq α] : DecidableEq (Except ε α)
  | .ok a, .ok b => if h : a = b then isTrue (by rw [h]) else isFalse (fun h' => by cases h'; exact h rfl)
  | .error a, .error b => if h : a = b then isTrue (by rw [h]) else isFalse (fun h' => by cases h'; exact h rfl)
  | .ok _, .error _ => isFalse (fun h => by cases h)
  | .error _, .ok _ => isFalse (fun h => by cases h)

inductive Err where
  | typeError | valueError | notImpl
  deriving DecidableEq, Repr

def Err.toString : Err → String
  | .typeError => "TypeError"
  | .valueError => "ValueError"
  | .notImpl => "Other:NotImplementedError"

/-- `kind` string; `other` = any string outside the allowed list -/
inductive Kind where
  | restricted | unrestricted | generalized | other
  deriving DecidableEq, Repr

structure MO where
  kind : Kind
  norba : Option Nat
  norbb : Option Nat
  occs : Option (List Rat) := none
  coeffs : Option (List Rat) := none
  energies : Option (List Rat) := none
  irreps : Option (List Rat) := none
  aminusb : Option (List Rat) := none       -- `occs_aminusb`
  deriving DecidableEq, Repr

def sum (l : List Rat) : Rat := l.sum
def absR (x : Rat) : Rat := if x < 0 then -x else x

/-- `MolecularOrbitals.norb` -/
def norb (m : MO) : Option Nat :=
  match m.kind with
  | .restricted => m.norba
  | .generalized =>
    match m.coeffs, m.occs, m.energies, m.irreps with
    | some c, _, _, _ => some c.length
    | none, some o, _, _ => some o.length
    | none, none, some e, _ => some e.length
    | none, none, none, some i => some i.length
    | none, none, none, none => none
  | _ =>
    -- `self.norba + self.norbb` (both are validated to be integers before any shape validator runs)
    match m.norba, m.norbb with
    | some a, some b => some (a + b)
    | _, _ => none

/-- `validate_shape("norb")` / `validate_shape(None, "norb")` for a value with `n` entries / columns -/
def shapeOk (m : MO) (n : Nat) : Bool :=
  match norb m with
  | none => true
  | some k => k == n

/-! ### validators -/

/-- `attrs.validators.in_([...])` -/
def vKind (k : Kind) : Option Err := if k = .other then some .valueError else none

/-- `validate_norbab` (`isA`: the attribute is `norba`) -/
def vNorbab (m : MO) (isA : Bool) (value : Option Nat) : Option Err :=
  if m.kind = .generalized then
    if value.isSome then some .valueError else none
  else
    match value with
    | none => some .valueError
    | some v =>
      if m.kind = .restricted then
        let other := if isA then m.norbb else m.norba
        if some v ≠ other then some .valueError else none
      else none

/-- `attrs.validators.optional(validate_shape(... "norb"))` -/
def vShape (m : MO) (v : Option (List Rat)) : Option Err :=
  match v with
  | none => none
  | some a => if shapeOk m a.length then none else some .typeError

/-- `and_(optional(validate_shape("norb")), validate_occs_aminusb)` -/
def vAminusb (m : MO) (v : Option (List Rat)) : Option Err :=
  match vShape m v with
  | some e => some e
  | none => if m.kind ≠ .restricted ∧ v.isSome then some .valueError else none

/-- first exception of a list of checks -/
def firstErr : List (Option Err) → Option Err
  | [] => none
  | some e :: _ => some e
  | none :: t => firstErr t

/-- field order and validators of the attrs class, as the model assumes them (compared with the
source by `Iodata/Gen/OrbitalFields.lean`) -/
def moFieldSpec : List (String × String) :=
  [("kind", "[in_(['restricted','unrestricted','generalized']),validate_change]"),
   ("norba", "[validate_norbab,validate_change]"),
   ("norbb", "[validate_norbab,validate_change]"), ("occs", "optional(validate_shape('norb'))"),
   ("coeffs", "optional(validate_shape(None,'norb'))"), ("energies", "optional(validate_shape('norb'))"),
   ("irreps", "optional(validate_shape('norb'))"),
   ("occs_aminusb", "and_(optional(validate_shape('norb')),validate_occs_aminusb)")]

/-- accessors (`name`) and setters (`name=`) that start with the generalized refusal -/
def refusingSpec : List String :=
  ["coeffsa", "coeffsb", "energiesa", "energiesb", "irrepsa", "irrepsb", "occsa", "occsa=", "occsb", "occsb=", "spinpol"]

def shellFieldSpec : List (String × String) :=
  [("icenter", "none"), ("angmoms", "validate_shape(('coeffs',1))"), ("kinds", "validate_shape(('coeffs',1))"),
   ("exponents", "validate_shape(('coeffs',0))"), ("coeffs", "validate_shape(('exponents',0),('kinds',0))")]

/-- the validators of `__init__`, in field order, on the new object -/
def initChecks (a : MO) : List (Option Err) :=
  [vKind a.kind, vNorbab a true a.norba, vNorbab a false a.norbb, vShape a a.occs, vShape a a.coeffs,
   vShape a a.energies, vShape a a.irreps, vAminusb a a.aminusb]

/-- `MolecularOrbitals(kind, norba, norbb, …)` -/
def construct (a : MO) : Except Err MO :=
  match firstErr (initChecks a) with
  | some e => .error e
  | none => .ok a

/-! ### numpy helpers -/

/-- 1-D broadcasting of a binary operation (`None` = "operands could not be broadcast together") -/
def bcast (f : Rat → Rat → Rat) (a b : List Rat) : Option (List Rat) :=
  if a.length = b.length then some (List.zipWith f a b)
  else
    match a, b with
    | [x], _ => some (b.map (f x))
    | _, [y] => some (a.map (fun x => f x y))
    | _, _ => none

/-- `target[...] = v` for a 1-D target slice: the new content of the slice -/
def assignSlice (target v : List Rat) : Option (List Rat) :=
  if v.length = target.length then some v
  else
    match v with
    | [x] => some (target.map (fun _ => x))
    | _ => none

/-- `(occs == occs.astype(int))` for one entry -/
def isInt (x : Rat) : Bool := x.den == 1

/-- `np.clip(x, 0, 1)` -/
def clip01 (x : Rat) : Rat := if x < 0 then 0 else if 1 < x then 1 else x

/-! ### getters -/

/-- `nelec` -/
def nelec (m : MO) : Option Rat := m.occs.map sum

/-- alpha (`sgn = 1`) / beta (`sgn = -1`) occupations of restricted orbitals -/
def restrictedSpin (beta : Bool) (o : List Rat) (d : Option (List Rat)) : Except Err (List Rat) :=
  match d with
  | none =>
    if o.all isInt then
      .ok (if beta then o.map (fun x => x - clip01 x) else o.map clip01)
    else .ok (o.map (· / 2))
  | some d =>
    match bcast (fun x y => if beta then (x - y) / 2 else (x + y) / 2) o d with
    | some r => .ok r
    | none => .error .valueError

/-- `occsa` -/
def occsa (m : MO) : Except Err (Option (List Rat)) :=
  if m.kind = .generalized then .error .notImpl
  else
    match m.occs with
    | none => .ok none
    | some o =>
      if m.kind = .restricted then (restrictedSpin false o m.aminusb).map some
      else .ok (some (o.take (m.norba.getD o.length)))     -- `occs[: norba]` (`[:None]` is the whole array)

/-- `occsb` -/
def occsb (m : MO) : Except Err (Option (List Rat)) :=
  if m.kind = .generalized then .error .notImpl
  else
    match m.occs with
    | none => .ok none
    | some o =>
      if m.kind = .restricted then (restrictedSpin true o m.aminusb).map some
      else .ok (some (o.drop (m.norba.getD 0)))

/-- `spinpol` (code as of the `fix:` commit: `abs` also with `occs_aminusb`) -/
def spinpol (m : MO) : Except Err (Option Rat) :=
  if m.kind = .generalized then .error .notImpl
  else
    match m.occs with
    | none => .ok none
    | some o =>
      if m.kind = .restricted then
        match m.aminusb with
        | none =>
          if o.all isInt then .ok (some (absR (sum o - 2 * sum (o.map clip01))))
          else .ok (some 0)
        | some d => .ok (some (absR (sum d)))
      else
        .ok (some (absR (sum (o.take (m.norba.getD o.length)) - sum (o.drop (m.norba.getD 0)))))

/-- alpha (`beta = false`) or beta view of a per-orbital array (`coeffs` columns, `energies`, `irreps`) -/
def view (m : MO) (beta : Bool) (arr : Option (List Rat)) : Except Err (Option (List Rat)) :=
  if m.kind = .generalized then .error .notImpl
  else
    match arr with
    | none => .ok none
    | some a =>
      if m.kind = .restricted then .ok (some a)
      else if beta then .ok (some (a.drop (m.norba.getD 0)))
      else .ok (some (a.take (m.norba.getD a.length)))

/-! ### assignments -/

inductive Fld where
  | occs | coeffs | energies | irreps | aminusb
  deriving DecidableEq, Repr

def put (m : MO) (f : Fld) (v : Option (List Rat)) : MO :=
  match f with
  | .occs => { m with occs := v }
  | .coeffs => { m with coeffs := v }
  | .energies => { m with energies := v }
  | .irreps => { m with irreps := v }
  | .aminusb => { m with aminusb := v }

/-- `mo.<f> = v`: convert, validate on the old object, store -/
def store (m : MO) (f : Fld) (v : Option (List Rat)) : MO × Option Err :=
  match (if f = .aminusb then vAminusb m v else vShape m v) with
  | some e => (m, some e)
  | none => (put m f v, none)

def andThen (r : MO × Option Err) (g : MO → MO × Option Err) : MO × Option Err :=
  match r.2 with
  | some e => (r.1, some e)
  | none => g r.1

/-- `occsa`/`occsb` setter of restricted orbitals: `mine` is the assigned spin, the other one is read
from the old object; `occs = a + b`, `occs_aminusb = a - b` (two validated stores) -/
def setSpinRestricted (m : MO) (beta : Bool) (v : List Rat) : MO × Option Err :=
  match m.occs with
  | none =>
    -- self.occs = v ; self.occs_aminusb = v.copy()  (resp. -v)
    andThen (store m .occs (some v)) fun m1 => store m1 .aminusb (some (if beta then v.map (fun x => -x) else v))
  | some _ =>
    match (if beta then occsa m else occsb m) with
    | .error e => (m, some e)
    | .ok none => (m, some .typeError)
    | .ok (some w) =>
      -- alpha = v, beta = w  (or alpha = w, beta = v)
      match bcast (· + ·) v w, bcast (fun x y => if beta then y - x else x - y) v w with
      | some s, some d => andThen (store m .occs (some s)) fun m1 => store m1 .aminusb (some d)
      | _, _ => (m, some .valueError)

/-- `mo.occsa = v` -/
def setOccsa (m : MO) (v : List Rat) : MO × Option Err :=
  if m.kind = .generalized then (m, some .notImpl)
  else if m.kind = .restricted then setSpinRestricted m false v
  else
    -- self.occs[: self.norba] = v   (in place, no validator)
    match m.occs with
    | none => (m, some .typeError)
    | some o =>
      let k := m.norba.getD o.length
      match assignSlice (o.take k) v with
      | some h => ({ m with occs := some (h ++ o.drop k) }, none)
      | none => (m, some .valueError)

/-- `mo.occsb = v` -/
def setOccsb (m : MO) (v : List Rat) : MO × Option Err :=
  if m.kind = .generalized then (m, some .notImpl)
  else if m.kind = .restricted then setSpinRestricted m true v
  else
    match m.occs with
    | none => (m, some .typeError)
    | some o =>
      let k := m.norba.getD 0
      match assignSlice (o.drop k) v with
      | some t => ({ m with occs := some (o.take k ++ t) }, none)
      | none => (m, some .valueError)

/-! ### re-assignment of `kind` / `norba` / `norbb`

`mo.<attr> = value` runs the attribute's validator list on the OLD object: first the attribute's own
validator (`own`), then `validate_change`:

    if getattr(mo, attribute.name) != value:
        attrs.evolve(mo, **{attribute.name: value})

i.e. unless the value is the stored one (`same`), `__init__` of a copy `m'` carrying the new value runs
every validator in field order (`initChecks m'`; inside that `__init__` `validate_change` itself is a
no-op because the copy already holds the value).  The first exception propagates and the object is
unchanged; otherwise the value is stored. -/

def reassign (m m' : MO) (own : Option Err) (same : Bool) : MO × Option Err :=
  match own with
  | some e => (m, some e)
  | none =>
    if same then (m', none)
    else
      match firstErr (initChecks m') with
      | some e => (m, some e)
      | none => (m', none)

/-- `mo.kind = k` -/
def setKind (m : MO) (k : Kind) : MO × Option Err :=
  reassign m { m with kind := k } (vKind k) (m.kind == k)

/-- `mo.norba = v` -/
def setNorba (m : MO) (v : Option Nat) : MO × Option Err :=
  reassign m { m with norba := v } (vNorbab m true v) (m.norba == v)

/-- `mo.norbb = v` -/
def setNorbb (m : MO) (v : Option Nat) : MO × Option Err :=
  reassign m { m with norbb := v } (vNorbab m false v) (m.norbb == v)

inductive Op where
  | construct (a : MO)
  | set (f : Fld) (v : Option (List Rat))
  | setOccsa (v : List Rat)
  | setOccsb (v : List Rat)
  | setKind (k : Kind)
  | setNorba (v : Option Nat)
  | setNorbb (v : Option Nat)
  deriving DecidableEq, Repr

def step (m : MO) : Op → MO × Option Err
  | .construct a =>
    match construct a with
    | .ok m' => (m', none)
    | .error e => (m, some e)
  | .set f v => store m f v
  | .setOccsa v => setOccsa m v
  | .setOccsb v => setOccsb m v
  | .setKind k => setKind m k
  | .setNorba v => setNorba m v
  | .setNorbb v => setNorbb m v

def run (m : MO) (ops : List Op) : MO := ops.foldl (fun m op => (step m op).1) m

/-! ### Shell -/

/-- `Shell`: `angmoms`, `kinds`, number of exponents, shape of `coeffs` (any dimension ≥ 1) -/
structure Shell where
  angmoms : List Nat
  kinds : List String
  nexp : Nat
  cshape : List Nat
  deriving DecidableEq, Repr

/-- `validate_shape(("coeffs", 1))` for a 1-D value of length `n` -/
def vAxis1 (s : Shell) (n : Nat) : Option Err :=
  match s.cshape with
  | _ :: c :: _ => if c = n then none else some .typeError
  | _ => some .typeError       -- "Cannot get length along axis 1 … with ndim 1"

/-- `validate_shape(("coeffs", 0))` -/
def vAxis0 (s : Shell) (n : Nat) : Option Err :=
  match s.cshape with
  | r :: _ => if r = n then none else some .typeError
  | [] => some .typeError

/-- `validate_shape(("exponents", 0), ("kinds", 0))` for `coeffs` of shape `sh` -/
def vCoeffs (s : Shell) (sh : List Nat) : Option Err :=
  if sh = [s.nexp, s.kinds.length] then none else some .typeError

def shellChecks (s : Shell) : List (Option Err) :=
  [vAxis1 s s.angmoms.length, vAxis1 s s.kinds.length, vAxis0 s s.nexp, vCoeffs s s.cshape]

/-- `Shell(icenter, angmoms, kinds, exponents, coeffs)` -/
def Shell.construct (s : Shell) : Except Err Shell :=
  match firstErr (shellChecks s) with
  | some e => .error e
  | none => .ok s

/-- number of functions of one contraction, or `TypeError` -/
def nfn (l : Nat) (k : String) : Except Err Nat :=
  if k = "c" then .ok ((l + 1) * (l + 2) / 2)
  else if k = "p" ∧ 2 ≤ l then .ok (2 * l + 1)
  else .error .typeError

/-- the loop of `Shell.nbasis` over `zip(angmoms, kinds)` -/
def nbasisFrom : List (Nat × String) → Nat → Except Err Nat
  | [], acc => .ok acc
  | (l, k) :: t, acc =>
    match nfn l k with
    | .ok n => nbasisFrom t (acc + n)
    | .error e => .error e

def Shell.nbasis (s : Shell) : Except Err Nat := nbasisFrom (s.angmoms.zip s.kinds) 0

inductive ShellOp where
  | construct (s : Shell)
  | setAngmoms (v : List Nat)
  | setKinds (v : List String)
  | setExponents (n : Nat)
  | setCoeffs (sh : List Nat)
  deriving DecidableEq, Repr

def Shell.step (s : Shell) : ShellOp → Shell × Option Err
  | .construct a =>
    match Shell.construct a with
    | .ok s' => (s', none)
    | .error e => (s, some e)
  | .setAngmoms v => match vAxis1 s v.length with
    | some e => (s, some e) | none => ({ s with angmoms := v }, none)
  | .setKinds v => match vAxis1 s v.length with
    | some e => (s, some e) | none => ({ s with kinds := v }, none)
  | .setExponents n => match vAxis0 s n with
    | some e => (s, some e) | none => ({ s with nexp := n }, none)
  | .setCoeffs sh => match vCoeffs s sh with
    | some e => (s, some e) | none => ({ s with cshape := sh }, none)

end Iodata.Orb
