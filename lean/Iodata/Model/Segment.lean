/-
Model of `iodata.convert.convert_to_segmented`, `convert_to_unrestricted` and of the decision
logic of `iodata.prepare.prepare_segmented` / `prepare_unrestricted_aminusb` (C14).
Core Lean only.  Orbitals are the model of C12 (`Iodata/Model/Orbitals.lean`).

Object identity (`is`) is an explicit `same : Bool` flag next to every returned object.
-/
import Iodata.Model.Orbitals
namespace Iodata.Seg
open Iodata.Orb

/-- a shell with generalized contractions: `coeffs.T` is the list of columns -/
structure GShell where
  icenter : Nat
  angmoms : List Nat
  kinds : List String
  exps : List Rat
  cols : List (List Rat)
  deriving DecidableEq, Repr

/-- `MolecularBasis.shells` (conventions and primitive normalisation are carried over unchanged by
`attrs.evolve(obasis, shells=…)`) -/
abbrev Basis := List GShell

/-- one contraction: `zip(shell.angmoms, shell.kinds, shell.coeffs.T)` (zip stops at the shortest) -/
def zip3 (sh : GShell) : List (Nat × String × List Rat) :=
  sh.angmoms.zip (sh.kinds.zip sh.cols)

/-- `shell.ncon == 1 or (keep_sp and shell.ncon == 2 and (shell.angmoms == [0, 1]).all())` -/
def isKept (keepSp : Bool) (sh : GShell) : Bool :=
  sh.angmoms.length == 1 || (keepSp && sh.angmoms.length == 2 && sh.angmoms == [0, 1])

/-- `Shell(shell.icenter, [angmom], [kind], shell.exponents, coeffs.reshape(-1, 1))` per contraction -/
def splitShell (sh : GShell) : List GShell :=
  (zip3 sh).map fun c => { icenter := sh.icenter, angmoms := [c.1], kinds := [c.2.1], exps := sh.exps, cols := [c.2.2] }

/-- the loop of `convert_to_segmented`: new shells with their identity flag (`true` = the very same
Shell object was appended) -/
def segmentFlagged (keepSp : Bool) (b : Basis) : List (GShell × Bool) :=
  b.flatMap fun sh => if isKept keepSp sh then [(sh, true)] else (splitShell sh).map fun s => (s, false)

/-- `convert_to_segmented(obasis, keep_sp).shells` -/
def segment (keepSp : Bool) (b : Basis) : Basis := (segmentFlagged keepSp b).map Prod.fst

/-- a contracted function set: centre, angular momentum, kind, exponents, contraction coefficients.
The basis functions of a basis are these, in order, each expanded into its `nfn` components
(the order inside one contraction is fixed by the conventions, which are not touched). -/
abbrev Contraction := Nat × Nat × String × List Rat × List Rat

def contractions (b : Basis) : List Contraction :=
  b.flatMap fun sh => (zip3 sh).map fun c => (sh.icenter, c.1, c.2.1, sh.exps, c.2.2)

/-- number of components of a contraction (Cartesian / pure) -/
def ncomp (l : Nat) (k : String) : Nat := if k = "c" then (l + 1) * (l + 2) / 2 else 2 * l + 1

/-- the basis functions, one entry per function: (contraction, component index) -/
def fns (b : Basis) : List (Contraction × Nat) :=
  (contractions b).flatMap fun c => (List.range (ncomp c.2.1 c.2.2.1)).map fun i => (c, i)

/-- total number of basis functions -/
def nbasis (b : Basis) : Nat := (fns b).length

/-- a shell as `Shell.__init__` accepts it: all per-contraction lists have `ncon` entries, every
column has `nexp` entries -/
def GShell.WF (sh : GShell) : Prop :=
  sh.kinds.length = sh.angmoms.length ∧ sh.cols.length = sh.angmoms.length ∧ ∀ c ∈ sh.cols, c.length = sh.exps.length

/-! ### orbitals -/

/-- `convert_to_unrestricted(mo)`: result and identity flag -/
def toUnrestricted (m : MO) : Except Err (MO × Bool) :=
  if m.kind = .generalized then .error .valueError
  else if m.kind = .unrestricted then .ok (m, true)
  else
    -- None if mo.occs is None else np.concatenate([mo.occsa, mo.occsb])
    let occs : Except Err (Option (List Rat)) :=
      match m.occs with
      | none => .ok none
      | some _ =>
        match occsa m, occsb m with
        | .ok (some a), .ok (some b) => .ok (some (a ++ b))
        | .error e, _ => .error e
        | _, .error e => .error e
        | _, _ => .error .typeError
    match occs with
    | .error e => .error e
    | .ok o =>
      match construct { kind := .unrestricted, norba := m.norba, norbb := m.norbb, occs := o,
                        coeffs := m.coeffs.map fun c => c ++ c, energies := m.energies.map fun c => c ++ c,
                        irreps := m.irreps.map fun c => c ++ c, aminusb := none } with
      | .ok m' => .ok (m', false)
      | .error e => .error e

/-! ### prepare_* decision logic -/

inductive PrepOutcome (α : Type) where
  | same                                  -- the very same IOData object is returned, no warning
  | valueError
  | prepareDumpError
  | converted (warnings : Nat) (new : α)  -- a new IOData object with the converted attribute
  deriving DecidableEq, Repr

/-- `prepare_segmented(data, keep_sp, allow_changes, …)` as a function of `data.obasis` -/
def prepareSegmented (obasis : Option Basis) (keepSp allow : Bool) : PrepOutcome Basis :=
  match obasis with
  | none => .valueError
  | some b =>
    if b.all (isKept keepSp) then .same
    else if !allow then .prepareDumpError
    else .converted 1 (segment keepSp b)

/-- `prepare_unrestricted_aminusb(data, allow_changes, …)` as a function of `data.mo` -/
def prepareUnrestricted (mo : Option MO) (allow : Bool) : PrepOutcome (Except Err MO) :=
  match mo with
  | none => .valueError
  | some m =>
    if m.kind = .generalized then .valueError
    else if m.kind = .unrestricted then .same
    else if m.aminusb.isNone then .same
    else if !allow then .prepareDumpError
    else .converted 1 ((toUnrestricted m).map Prod.fst)

end Iodata.Seg

/-! control-flow skeleton of `convert.py` / `prepare.py` as this model transcribes it (compared with
the source through `Iodata/Gen/ConvertSkeleton.lean`) -/
namespace Iodata.Seg.Skel
def seg_keep : String := "shell.ncon == 1 or (keep_sp and shell.ncon == 2 and (shell.angmoms == [0, 1]).all())"
def seg_zip : String := "zip(shell.angmoms, shell.kinds, shell.coeffs.T)"
def seg_new : String := "Shell(shell.icenter, [angmom], [kind], shell.exponents, coeffs.reshape(-1, 1))"
def seg_ret : String := "attrs.evolve(obasis, shells=shells)"
def prepseg_guards : List String :=
  ["data.obasis is None",
   "all((shell.ncon == 1 or (keep_sp and shell.ncon == 2 and (shell.angmoms == [0, 1]).all()) for shell in SHELLS))",
   "keep_sp", "not allow_changes"]
def prepseg_actions : List String := ["Raise", "Return", "AugAssign", "Raise"]
def prepseg_ret : String := "attrs.evolve(data, obasis=convert_to_segmented(data.obasis, keep_sp))"
def prepu_guards : List String :=
  ["data.mo is None", "data.mo.kind == 'generalized'", "data.mo.kind == 'unrestricted'",
   "data.mo.occs_aminusb is None", "not allow_changes"]
def prepu_actions : List String := ["Raise", "Raise", "Return", "Return", "Raise"]
def prepu_ret : String := "attrs.evolve(data, mo=convert_to_unrestricted(data.mo))"
def tou_guards : List String := ["mo.kind == 'generalized' -> Raise", "mo.kind == 'unrestricted' -> Return"]
def tou_ret : List String :=
  ["'unrestricted'", "mo.norba", "mo.norbb",
   "None if mo.occs is None else np.concatenate([mo.occsa, mo.occsb])",
   "None if mo.coeffs is None else np.concatenate([mo.coeffs, mo.coeffs], axis=1)",
   "None if mo.energies is None else np.concatenate([mo.energies, mo.energies])",
   "None if mo.irreps is None else np.concatenate([mo.irreps, mo.irreps])"]
end Iodata.Seg.Skel
