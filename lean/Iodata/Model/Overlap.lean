/-
Model of `iodata/overlap.py` (`compute_overlap`, `GaussianOverlap.compute_overlap_gaussian_1d`,
`gob_cart_normalization`, `_compute_cart_shell_normalizations`), `convert.iter_cart_alphabet`
and `convert.convert_to_segmented`.  Core Lean only (the driver links this file).

Everything numeric is polymorphic in the number type `K` (operations passed as the usual
notation classes) so that the *same definitions* are
  * executed at `K := Rat` (exact; stream `kern`),
  * executed at `K := EF` (double + running first-order error bound; stream `ovl`),
  * reasoned about at an arbitrary Mathlib field / at `ℝ` (`Props/C06.lean`).
The transcendental operations (`exp`, `sqrt`, `x ** 1.5`, `π`, the two comparisons with
`1e-15`, `np.min`) are the fields of `Ops K`.
-/
import Iodata.Model.Conv
namespace Iodata.Overlap

/-! ### integer tables -/

/-- `scipy.special.binom(n, k)` for small naturals (Pascal's rule). -/
def choose : Nat → Nat → Nat
  | _, 0 => 1
  | 0, _ + 1 => 0
  | n + 1, k + 1 => choose n k + choose n (k + 1)

/-- `scipy.special.factorial2(n, exact=True)` for `n ≥ 0`: `0‼ = 1‼ = 1`, `n‼ = n·(n-2)‼`. -/
def fact2 : Nat → Nat
  | 0 => 1
  | 1 => 1
  | n + 2 => (n + 2) * fact2 n

/-- `overlap.factorial2` on integers: `1` for `-1`, `0` below, scipy's value otherwise. -/
def factorial2 (z : Int) : Nat :=
  if z = -1 then 1 else if z < 0 then 0 else fact2 z.toNat

/-- `GaussianOverlap.__init__`: `facts = [factorial2(m) for m in range(2*n_max)]; facts.insert(0, 1)`. -/
def factsTable (nmax : Nat) : List Nat := 1 :: (List.range (2 * nmax)).map fun (m : Nat) => factorial2 (Int.ofNat m)

/-- closed form of `facts[m]`: `(m-1)‼` with `facts[0] = 1`. -/
def facts : Nat → Nat
  | 0 => 1
  | m + 1 => fact2 m

/-- `GaussianOverlap.__init__`: `binomials[n][i] = binom(n, i)`, `i ≤ n ≤ n_max`. -/
def binomTable (nmax : Nat) : List (List Nat) :=
  (List.range (nmax + 1)).map fun n => (List.range (n + 1)).map fun i => choose n i

/-- Python `range(start, stop, step)` for naturals, `step ≥ 1`. -/
def pyRange (start stop step : Nat) : List Nat :=
  (List.range ((stop + step - 1 - start) / step)).map fun k => start + step * k

/-- `convert.iter_cart_alphabet(n)`: `for nx in range(n,-1,-1): for ny in range(n-nx,-1,-1)`. -/
def cartAlphabet (n : Nat) : List (Nat × Nat × Nat) :=
  (List.range (n + 1)).reverse.flatMap fun nx =>
    (List.range (n - nx + 1)).reverse.map fun ny => (nx, ny, n - nx - ny)

section numeric
variable {K : Type} [Add K] [Mul K] [Sub K] [Neg K] [Div K] [NatCast K] [HPow K Nat K]

/-- `value = 0; for …: value += …` -/
def sumL (l : List K) : K := l.foldl (· + ·) ((0 : Nat) : K)

/-! ### the 1-D kernel -/

/-- one summand of `compute_overlap_gaussian_1d`:
`pf_i * binomials[n2][j] * x2 ** (n2 - j) * integ` with `pf_i = binomials[n1][i] * x1 ** (n1 - i)`
and `integ = facts[m] / two_at ** (m / 2)`, `m = i + j` (always even here). -/
def term (n1 n2 : Nat) (x1 x2 t : K) (i j : Nat) : K :=
  ((((choose n1 i : Nat) : K) * x1 ^ (n1 - i)) * ((choose n2 j : Nat) : K)) * x2 ^ (n2 - j)
    * (((facts (i + j) : Nat) : K) / t ^ ((i + j) / 2))

/-- the `(i, j)` visited by the double loop, in order:
`for i in range(n1 + 1): for j in range(i % 2, n2 + 1, 2)`. -/
def kernIdx (n1 n2 : Nat) : List (Nat × Nat) :=
  (List.range (n1 + 1)).flatMap fun i => (pyRange (i % 2) (n2 + 1) 2).map fun j => (i, j)

/-- `GaussianOverlap.compute_overlap_gaussian_1d(x1, x2, n1, n2, two_at)`. -/
def kernel (n1 n2 : Nat) (x1 x2 t : K) : K :=
  sumL ((kernIdx n1 n2).map fun p => term n1 n2 x1 x2 t p.1 p.2)

/-! ### primitives, shells -/

structure Ops (K : Type) where
  exp : K → K
  sqrt : K → K
  /-- `x ** 1.5` -/
  pow15 : K → K
  pi : K
  /-- `x < 1e-15` -/
  ltEps : K → Bool
  /-- `x > 1e-15` -/
  gtEps : K → Bool
  /-- `np.min` of a non-empty list -/
  minL : List K → K

structure V3 (K : Type) where
  x : K
  y : K
  z : K

def V3.sub (a b : V3 K) : V3 K := ⟨a.x - b.x, a.y - b.y, a.z - b.z⟩
def V3.dot (a b : V3 K) : K := a.x * b.x + a.y * b.y + a.z * b.z

def nsum (n : Nat × Nat × Nat) : Nat := n.1 + n.2.1 + n.2.2

/-- `gob_cart_normalization(alpha, n)`:
`sqrt((4α)^sum(n) * (2α/π)**1.5 / prod(factorial2(2n-1)))`. -/
def gobCartNorm (ops : Ops K) (α : K) (n : Nat × Nat × Nat) : K :=
  ops.sqrt ((((4 : Nat) : K) * α) ^ nsum n * ops.pow15 (((2 : Nat) : K) * α / ops.pi)
    / ((factorial2 (2 * (n.1 : Int) - 1) * factorial2 (2 * (n.2.1 : Int) - 1)
        * factorial2 (2 * (n.2.2 : Int) - 1) : Nat) : K))

/-- a shell of a *segmented* basis (one contraction). -/
structure Shell (K : Type) where
  icenter : Nat
  angmom : Nat
  kind : Char
  exps : List K
  coeffs : List K

/-- a shell with generalized contractions: `coeffs` has one row per exponent. -/
structure GShell (K : Type) where
  icenter : Nat
  angmoms : List Nat
  kinds : List Char
  exps : List K
  coeffs : List (List K)

def zeroK : K := ((0 : Nat) : K)

/-- `convert_to_segmented(obasis)` (`keep_sp=False`): a shell with one contraction is kept,
any other is split column by column. -/
def segment (shells : List (GShell K)) : List (Shell K) :=
  shells.flatMap fun s =>
    if s.angmoms.length = 1 then
      [⟨s.icenter, s.angmoms.headD 0, s.kinds.headD '?', s.exps, s.coeffs.map fun row => row.headD zeroK⟩]
    else
      (List.range s.angmoms.length).map fun c =>
        ⟨s.icenter, s.angmoms.getD c 0, s.kinds.getD c '?', s.exps, s.coeffs.map fun row => row.getD c zeroK⟩

/-- `Shell.nbasis` of a segmented shell; `none` = `TypeError("Unknown shell kind …")`. -/
def nbasisShell (s : Shell K) : Option Nat :=
  if s.kind = 'c' then some ((s.angmom + 1) * (s.angmom + 2) / 2)
  else if s.kind = 'p' ∧ 2 ≤ s.angmom then some (2 * s.angmom + 1)
  else none

/-- `scales[i] = _compute_cart_shell_normalizations(shell) * shell.coeffs`: one row per primitive,
one column per Cartesian function of the shell. -/
def scales (ops : Ops K) (s : Shell K) : List (K × List K) :=
  (s.exps.zip s.coeffs).map fun ac =>
    (ac.1, (cartAlphabet s.angmom).map fun n => gobCartNorm ops ac.1 n * ac.2)

/-- data of one primitive pair that passed the `prefactor < 1e-15: continue` test. -/
structure PairData (K : Type) where
  pref : K          -- exp(...) * (π/at)**1.5
  twoAt : K
  d0 : V3 K         -- rn - r0
  d1 : V3 K         -- rn - r1
  sc0 : List K
  sc1 : List K

/-- the body of the two primitive loops up to the call of the 1-D kernel. -/
def pairData (ops : Ops K) (r0 r1 : V3 K) (rij2 : K) (p0 p1 : K × List K) : Option (PairData K) :=
  let a0 := p0.1
  let a1 := p1.1
  let at_ := a0 + a1
  let prefactor := ops.exp (-a0 * a1 / at_ * rij2)
  if ops.ltEps prefactor then none else
  let rn : V3 K := ⟨(a0 * r0.x + a1 * r1.x) / at_, (a0 * r0.y + a1 * r1.y) / at_, (a0 * r0.z + a1 * r1.z) / at_⟩
  some ⟨prefactor * ops.pow15 (ops.pi / at_), ((2 : Nat) : K) * at_, rn.sub r0, rn.sub r1, p0.2, p1.2⟩

/-- contribution of one primitive pair to element `(p, q)` of `shell_overlap`:
`prod(vs) * prefactor * shell_scales0[p] * shell_scales1[q]`. -/
def pairTerm (pd : PairData K) (ip iq : Nat) (n0 n1 : Nat × Nat × Nat) : K :=
  kernel n0.1 n1.1 pd.d0.x pd.d1.x pd.twoAt * kernel n0.2.1 n1.2.1 pd.d0.y pd.d1.y pd.twoAt
    * kernel n0.2.2 n1.2.2 pd.d0.z pd.d1.z pd.twoAt
    * pd.pref * pd.sc0.getD ip zeroK * pd.sc1.getD iq zeroK

def enum {α : Type} (l : List α) : List (Nat × α) := (List.range l.length).zip l

/-- the primitive pairs that survive the `prefactor < 1e-15` test, in loop order -/
def pairList (ops : Ops K) (sc0 sc1 : List (K × List K)) (r0 r1 : V3 K) : List (PairData K) :=
  let rij := r0.sub r1
  let rij2 := rij.dot rij
  sc0.flatMap fun p0 => sc1.filterMap fun p1 => pairData ops r0 r1 rij2 p0 p1

/-- element `(ip, iq)` of `shell_overlap` (Cartesian powers `n0`, `n1`): `shell_overlap += v` over the pairs -/
def entryOf (pds : List (PairData K)) (ip iq : Nat) (n0 n1 : Nat × Nat × Nat) : K :=
  sumL (pds.map fun pd => pairTerm pd ip iq n0 n1)

/-- `shell_overlap` before the Cartesian→pure step (rows: functions of shell0). -/
def cartBlock (ops : Ops K) (s0 s1 : Shell K) (sc0 sc1 : List (K × List K)) (r0 r1 : V3 K) : List (List K) :=
  let pds := pairList ops sc0 sc1 r0 r1
  (enum (cartAlphabet s0.angmom)).map fun p =>
    (enum (cartAlphabet s1.angmom)).map fun q => entryOf pds p.1 q.1 p.2 q.2

def dotL (a b : List K) : K := sumL ((a.zip b).map fun p => p.1 * p.2)

def transpose (ncol : Nat) (m : List (List K)) : List (List K) :=
  (List.range ncol).map fun c => m.map fun row => row.getD c zeroK

/-- `np.dot(a, b)` with `b` given by its `ncol` columns. -/
def matMul (a b : List (List K)) (ncol : Nat) : List (List K) :=
  let bt := transpose ncol b
  a.map fun row => bt.map fun col => dotL row col

/-- the whole body of `if prefactor_max > 1e-15:` for one shell pair; a zero block otherwise. -/
def shellBlock (ops : Ops K) (tfs : Nat → List (List K)) (s0 s1 : Shell K) (sc0 sc1 : List (K × List K))
    (r0 r1 : V3 K) (nb0 nb1 : Nat) : List (List K) :=
  let rij := r0.sub r1
  let rij2 := rij.dot rij
  let a0 := ops.minL s0.exps
  let a1 := ops.minL s1.exps
  let prefMax := ops.exp (-a0 * a1 * rij2 / (a0 + a1))
  if ops.gtEps prefMax then
    let blk := cartBlock ops s0 s1 sc0 sc1 r0 r1
    let ncart1 := (cartAlphabet s1.angmom).length
    let blk := if s0.kind = 'p' then matMul (tfs s0.angmom) blk ncart1 else blk
    -- np.dot(shell_overlap, tfs[l1].T): row · row of tf
    if s1.kind = 'p' then blk.map fun row => (tfs s1.angmom).map fun trow => dotL row trow else blk
  else (List.replicate nb0 (List.replicate nb1 zeroK))

/-! ### assembly -/

inductive Err where
  | valueError    -- non-L2 normalisation; empty basis (`max()` of an empty sequence)
  | typeError     -- second coordinates without second basis / second basis without coordinates / bad kind
  | conv (e : Iodata.Conv.Err)
  deriving DecidableEq, Repr

def Err.toString : Err → String
  | .valueError => "ValueError"
  | .typeError => "TypeError"
  | .conv .keyError => "KeyError"
  | .conv _ => "ValueError"

structure Basis (K : Type) where
  shells : List (GShell K)
  conventions : Iodata.Conv.Table
  l2 : Bool        -- primitive_normalization == "L2"

/-- position of row/column `r` in the running offsets: `(shell index, local index)`. -/
def locate : List Nat → Nat → Option (Nat × Nat)
  | [], _ => none
  | n :: ns, r => if r < n then some (0, r) else (locate ns (r - n)).map fun p => (p.1 + 1, p.2)

def getM (m : List (List K)) (r c : Nat) : K := (m.getD r []).getD c zeroK

/-- final content of `overlap` after the two shell loops, before conventions.
`blocks i0 i1` is the block computed for the shell pair (only `i1 ≤ i0` is computed when the bases
are identical; the upper triangle holds the transposes, and the diagonal block is overwritten by
its own transpose — the last write wins). -/
def rawEntry (identical : Bool) (blocks : Nat → Nat → List (List K)) (sizes0 sizes1 : List Nat) (r c : Nat) : K :=
  match locate sizes0 r, locate sizes1 c with
  | some (i0, p), some (i1, q) =>
    if identical then (if i1 < i0 then getM (blocks i0 i1) p q else getM (blocks i1 i0) q p)
    else getM (blocks i0 i1) p q
  | _, _ => zeroK

/-- `overlap[permutation0] * signs0.reshape(-1, 1)` then `overlap[:, permutation1] * signs1`. -/
def applyConv (r0 r1 : List (Nat × Int)) (entry : Nat → Nat → K) (sgn : Int → K → K) : List (List K) :=
  r0.map fun a => r1.map fun b => sgn b.2 (sgn a.2 (entry a.1 b.1))

def sgnMul (s : Int) (x : K) : K := if s < 0 then -x else x

def allSome {α : Type} : List (Option α) → Option (List α)
  | [] => some []
  | none :: _ => none
  | some a :: t => (allSome t).map (a :: ·)

def keysOf (shells : List (Shell K)) : List Iodata.Conv.Key := shells.map fun s => (s.angmom, s.kind)

/-- "Handle optional arguments": `(identical, segmented shells1, conventions1, atcoords1)` or the error raised -/
def secondArgs (b0 : Basis K) (sh0 : List (Shell K)) (xyz0 : List (V3 K)) (b1 : Option (Basis K))
    (xyz1 : Option (List (V3 K))) : Except Err (Bool × List (Shell K) × Iodata.Conv.Table × List (V3 K)) :=
  match b1, xyz1 with
  | none, some _ => .error .typeError
  | none, none => .ok (true, sh0, b0.conventions, xyz0)
  | some b, x1 =>
    if ¬ b.l2 then .error .valueError else
    match x1 with
    | none => .error .typeError
    | some x => .ok (false, segment b.shells, b.conventions, x)

/-- the blocks computed by the two shell loops (`blocks[i0][i1]`) -/
def rawBlocks (ops : Ops K) (tfs : Nat → List (List K)) (identical : Bool) (sh0 sh1 : List (Shell K))
    (xyz0 x1 : List (V3 K)) (sizes0 sizes1 : List Nat) : List (List (List (List K))) :=
  let z : V3 K := ⟨zeroK, zeroK, zeroK⟩
  let sc0 := sh0.map (scales ops)
  let sc1 := if identical then sc0 else sh1.map (scales ops)
  -- the blocks that the loops compute (lower triangle only for identical bases)
  (enum sh0).map fun e0 =>
    ((enum sh1).take (if identical then e0.1 + 1 else sh1.length)).map fun e1 =>
      shellBlock ops tfs e0.2 e1.2 (sc0.getD e0.1 []) (sc1.getD e1.1 [])
        (xyz0.getD e0.2.icenter z) (x1.getD e1.2.icenter z) (sizes0.getD e0.1 0) (sizes1.getD e1.1 0)

/-- content of `overlap` after the shell loops (before conventions) as a function of `(row, column)` -/
def rawMatrix (identical : Bool) (blocks : List (List (List (List K)))) (sizes0 sizes1 : List Nat) : Nat → Nat → K :=
  rawEntry identical (fun i0 i1 => (blocks.getD i0 []).getD i1 []) sizes0 sizes1

/-- the two `convert_conventions(…, reverse=True)` results applied to rows and columns -/
def finish (p0r p1r : Except Iodata.Conv.Err (List (Nat × Int))) (raw : Nat → Nat → K) : Except Err (List (List K)) :=
  match p0r with
  | .error e => .error (.conv e)
  | .ok p0 =>
    match p1r with
    | .error e => .error (.conv e)
    | .ok p1 => .ok (applyConv p0 p1 raw sgnMul)

/-- `compute_overlap(obasis0, atcoords0, obasis1, atcoords1)`;
`overlapConv` = `OVERLAP_CONVENTIONS` (the HORTON2 table), `tfs` = `overlap_cartpure.tfs`. -/
def computeOverlap (ops : Ops K) (tfs : Nat → List (List K)) (overlapConv : Iodata.Conv.Table)
    (b0 : Basis K) (xyz0 : List (V3 K)) (b1 : Option (Basis K)) (xyz1 : Option (List (V3 K))) :
    Except Err (List (List K)) :=
  if ¬ b0.l2 then .error .valueError else
  match secondArgs b0 (segment b0.shells) xyz0 b1 xyz1 with
  | .error e => .error e
  | .ok (identical, sh1, conv1, x1) =>
    match allSome ((segment b0.shells).map nbasisShell), allSome (sh1.map nbasisShell) with
    | some sizes0, some sizes1 =>
      if (segment b0.shells).isEmpty then .error .valueError else
      let blocks := rawBlocks ops tfs identical (segment b0.shells) sh1 xyz0 x1 sizes0 sizes1
      let raw := rawMatrix identical blocks sizes0 sizes1
      let p0r := Iodata.Conv.convBasis b0.conventions overlapConv (keysOf (segment b0.shells)) true
      finish p0r (if identical then p0r else Iodata.Conv.convBasis conv1 overlapConv (keysOf sh1) true) raw
    | _, _ => .error .typeError

end numeric

end Iodata.Overlap
