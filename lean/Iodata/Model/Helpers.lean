/-
Model of the numerical helpers of `iodata/utils.py` (C20):
`set_four_index_element`, `volume`, `check_dm` (decision logic), `strtobool`.
Core Lean only (the driver links this file).
-/
namespace Iodata.Helpers

/-! ### `set_four_index_element` (utils.py:260-285) -/

abbrev Idx := Nat × Nat × Nat × Nat

/-- the eight assignments, in the order of the code -/
def written (i0 i1 i2 i3 : Nat) : List Idx :=
  [ (i0, i1, i2, i3),
    (i1, i0, i3, i2),
    (i2, i1, i0, i3),
    (i0, i3, i2, i1),
    (i2, i3, i0, i1),
    (i3, i2, i1, i0),
    (i1, i2, i3, i0),
    (i3, i0, i1, i2) ]

/-- `a[p] = v` -/
def update {α : Type} (a : Idx → α) (p : Idx) (v : α) : Idx → α :=
  fun q => if q = p then v else a q

/-- the function: eight item assignments one after the other -/
def setFour {α : Type} (a : Idx → α) (i0 i1 i2 i3 : Nat) (v : α) : Idx → α :=
  (written i0 i1 i2 i3).foldl (fun a p => update a p v) a

/-- position `k` (0..3) of a quadruple; used to read the generated index patterns -/
def pick (x : Idx) : Nat → Nat
  | 0 => x.1
  | 1 => x.2.1
  | 2 => x.2.2.1
  | _ => x.2.2.2

/-- apply an index pattern `[a,b,c,d]` (`four_index_object[i_a, i_b, i_c, i_d]`) -/
def applyPat (x : Idx) : List Nat → Idx
  | [a, b, c, d] => (pick x a, pick x b, pick x c, pick x d)
  | _ => x

/-- row-major flat index in an `n×n×n×n` array -/
def flat (n : Nat) (p : Idx) : Nat := ((p.1 * n + p.2.1) * n + p.2.2.1) * n + p.2.2.2

def insertSorted (x : Nat) : List Nat → List Nat
  | [] => [x]
  | y :: ys => if x < y then x :: y :: ys else if x = y then y :: ys else y :: insertSorted x ys

/-- sorted, duplicate-free flat positions written by the function -/
def writtenFlat (n i0 i1 i2 i3 : Nat) : List Nat :=
  ((written i0 i1 i2 i3).map (flat n)).foldr insertSorted []

/-! the symmetry group in physicists' notation `<ij|kl>` -/

/-- exchange of the two electrons: `<ij|kl> = <ji|lk>` -/
def swapE (p : Idx) : Idx := (p.2.1, p.1, p.2.2.2, p.2.2.1)
/-- real orbitals of electron 1: `<ij|kl> = <kj|il>` -/
def swap1 (p : Idx) : Idx := (p.2.2.1, p.2.1, p.1, p.2.2.2)
/-- real orbitals of electron 2: `<ij|kl> = <il|kj>` -/
def swap2 (p : Idx) : Idx := (p.1, p.2.2.2, p.2.2.1, p.2.1)

/-! ### `volume` (utils.py:288-311), exact arithmetic -/

abbrev V3 := Rat × Rat × Rat

def dot (a b : V3) : Rat := a.1 * b.1 + a.2.1 * b.2.1 + a.2.2 * b.2.2

def cross (a b : V3) : V3 :=
  (a.2.1 * b.2.2 - a.2.2 * b.2.1, a.2.2 * b.1 - a.1 * b.2.2, a.1 * b.2.1 - a.2.1 * b.1)

def det3 (a b c : V3) : Rat :=
  a.1 * (b.2.1 * c.2.2 - b.2.2 * c.2.1) - a.2.1 * (b.1 * c.2.2 - b.2.2 * c.1)
    + a.2.2 * (b.1 * c.2.1 - b.2.1 * c.1)

def absR (x : Rat) : Rat := if x < 0 then -x else x

/-- what the function returns: the value itself for three vectors (`abs(det)`),
the *square* of the value for one or two (`norm` = non-negative root of it). -/
inductive Vol where
  | root (sq : Rat)     -- returned value is the non-negative square root of `sq`
  | exact (v : Rat)     -- returned value is `v`
  | valueError
  deriving DecidableEq, Repr

def volume : List V3 → Vol
  | [a] => .root (dot a a)
  | [a, b] => .root (dot (cross a b) (cross a b))
  | [a, b, c] => .exact (absR (det3 a b c))
  | _ => .valueError

/-- square of the returned value -/
def volSq : List V3 → Option Rat
  | [a] => some (dot a a)
  | [a, b] => some (dot (cross a b) (cross a b))
  | [a, b, c] => some (absR (det3 a b c) * absR (det3 a b c))
  | _ => none

/-! ### `check_dm` (utils.py:348-381): decision logic over the occupations returned by `derive_naturals` -/

inductive DmRes where
  | ok
  | tooSmall   -- ValueError "... considerably smaller than zero"
  | tooLarge   -- ValueError "... considerably larger than max"
  deriving DecidableEq, Repr

def minL : Rat → List Rat → Rat
  | m, [] => m
  | m, x :: xs => minL (if x < m then x else m) xs

def maxL : Rat → List Rat → Rat
  | m, [] => m
  | m, x :: xs => maxL (if m < x then x else m) xs

/-- `occupations` is non-empty (`o :: os`); an empty array makes `min()` raise in numpy -/
def checkDm (o : Rat) (os : List Rat) (eps occMax : Rat) : DmRes :=
  if minL o os < -eps then .tooSmall
  else if occMax + eps < maxL o os then .tooLarge
  else .ok

/-! ### `strtobool` (utils.py:384-405) -/

/-- ASCII part of `str.lower` (`'A'` = 65 … `'Z'` = 90 ↦ +32) -/
def lowerChar (c : Char) : Char :=
  if 65 ≤ c.toNat ∧ c.toNat ≤ 90 then Char.ofNat (c.toNat + 32) else c

def lower (s : List Char) : List Char := s.map lowerChar

/-- `dict.get` -/
def lookup (t : List (List Char × Bool)) (w : List Char) : Option Bool :=
  match t.find? (fun e => e.1 == w) with
  | some e => some e.2
  | none => none

/-- `STRTOBOOL.get(value.lower())`; `none` = `ValueError` -/
def strtobool (t : List (List Char × Bool)) (s : List Char) : Option Bool := lookup t (lower s)

end Iodata.Helpers
