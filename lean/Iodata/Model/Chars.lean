/-
Python `str` operations used by the fixed-layout readers and writers, on `List Char`.
Core Lean only (linked into the driver).

`isWs` is `str.isspace` restricted to code points < 256 (the characters `str.split()` and
`str.strip()` treat as blanks); the format domains only admit printable ASCII, where the only
blank is `' '`, and lines end in `'\n'`.
-/
namespace Iodata.Chars

abbrev Str := List Char

/-- `c.isspace()` for code points below 256 -/
def isWs (c : Char) : Bool :=
  c == ' ' || c == '\n' || c == '\t' || c == '\r' || c == '\x0b' || c == '\x0c'
    || c == '\x1c' || c == '\x1d' || c == '\x1e' || c == '\x1f' || c == '\u0085' || c == '\u00a0'

def AllWs (s : Str) : Prop := ∀ c ∈ s, isWs c = true
def NoWs (s : Str) : Prop := ∀ c ∈ s, isWs c = false

instance (s : Str) : Decidable (AllWs s) := by unfold AllWs; infer_instance
instance (s : Str) : Decidable (NoWs s) := by unfold NoWs; infer_instance

/-- empty or starting with a blank: a token written before it is terminated -/
def brkB : Str → Bool
  | [] => true
  | c :: _ => isWs c

/-- worker of `str.split()`: `cur` is the token being collected -/
def splitGo : Str → Str → List Str
  | cur, [] => if cur.isEmpty then [] else [cur]
  | cur, c :: cs =>
    if isWs c then (if cur.isEmpty then splitGo [] cs else cur :: splitGo [] cs)
    else splitGo (cur ++ [c]) cs

/-- `s.split()` -/
def splitWs (s : Str) : List Str := splitGo [] s

/-- `s.lstrip()` -/
def lstrip (s : Str) : Str := s.dropWhile isWs

/-- `s.rstrip()` -/
def rstrip : Str → Str
  | [] => []
  | c :: cs => let r := rstrip cs; if r.isEmpty && isWs c then [] else c :: r

/-- `s.strip()` -/
def strip (s : Str) : Str := rstrip (lstrip s)

/-- a string that `strip` leaves alone -/
def Trimmed (s : Str) : Prop := lstrip s = s ∧ rstrip s = s
instance (s : Str) : Decidable (Trimmed s) := by unfold Trimmed; infer_instance

/-- `s[a:b]` for `0 ≤ a`, `0 ≤ b` -/
def slice (a b : Nat) (s : Str) : Str := (s.drop a).take (b - a)

/-- `s[a:]` -/
def sliceFrom (a : Nat) (s : Str) : Str := s.drop a

def spaces (n : Nat) : Str := List.replicate n ' '

/-- `s.rjust(w)` / `f"{s:>w}"` -/
def rjust (w : Nat) (s : Str) : Str := spaces (w - s.length) ++ s

/-- `s.ljust(w)` / `f"{s:<w}"` / `f"{s:ws}"` -/
def ljust (w : Nat) (s : Str) : Str := s ++ spaces (w - s.length)

def isUpperA (c : Char) : Bool := 'A' ≤ c && c ≤ 'Z'
def isLowerA (c : Char) : Bool := 'a' ≤ c && c ≤ 'z'
def isAlphaA (c : Char) : Bool := isUpperA c || isLowerA c
def isDigitA (c : Char) : Bool := '0' ≤ c && c ≤ '9'

def lowerC (c : Char) : Char := if isUpperA c then Char.ofNat (c.toNat + 32) else c
def upperC (c : Char) : Char := if isLowerA c then Char.ofNat (c.toNat - 32) else c

/-- `s.lower()` (ASCII) -/
def lower (s : Str) : Str := s.map lowerC
/-- `s.upper()` (ASCII) -/
def upper (s : Str) : Str := s.map upperC

/-- `s.title()` (ASCII): a cased character is upper-cased after an uncased one, lower-cased after a cased one -/
def titleGo : Bool → Str → Str
  | _, [] => []
  | prevCased, c :: cs =>
    (if isAlphaA c then (if prevCased then lowerC c else upperC c) else c) :: titleGo (isAlphaA c) cs

def title (s : Str) : Str := titleGo false s

/-- `s.isdigit()` (ASCII) -/
def isDigitStr (s : Str) : Bool := !s.isEmpty && s.all isDigitA

/-- `s.startswith(p)` -/
def startsWith (p s : Str) : Bool := p.isPrefixOf s

/-- lines of a text as `LineIterator` yields them (each keeps its `'\n'`; a last line without one is kept) -/
def splitLinesGo : Str → Str → List Str
  | cur, [] => if cur.isEmpty then [] else [cur]
  | cur, c :: cs => if c == '\n' then (cur ++ [c]) :: splitLinesGo [] cs else splitLinesGo (cur ++ [c]) cs

def splitLines (s : Str) : List Str := splitLinesGo [] s

/-- `print(body, file=f)` -/
def ln (body : Str) : Str := body ++ ['\n']

end Iodata.Chars
