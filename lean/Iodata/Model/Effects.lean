/-
Effect summaries (C09, C16): the vocabulary of `Gen/Effects.lean`, a heap model with the frame
lemma, and a step/schedule model for history- and interleaving-independence.  Core Lean only.
-/
namespace Iodata.Effects

inductive Root where
  | arg    -- may alias data reachable from an object passed to dump_one / dump_many / write_input
  | glob   -- may alias a module-level mutable table
  deriving DecidableEq, Repr

/-- one store / in-place operation / mutating call found by the translator -/
structure Site where
  module : String
  func : String
  kind : String
  target : String
  root : Root
  deriving DecidableEq, Repr

def Site.key (s : Site) : String × String × String × String := (s.module, s.func, s.kind, s.target)

/-! ### heap model and frame lemma -/

abbrev Loc := Nat

/-- the heap maps locations to values -/
abbrev Heap (V : Type) := Loc → V

/-- an executed statement: either a write to one location, labelled with the site it comes from,
or a statement that writes nothing -/
inductive Stmt (V : Type) where
  | write (site : Nat) (l : Loc) (v : V)
  | skip
  deriving Repr

def step {V : Type} (h : Heap V) : Stmt V → Heap V
  | .write _ l v => fun l' => if l' = l then v else h l'
  | .skip => h

def exec {V : Type} (h : Heap V) (prog : List (Stmt V)) : Heap V := prog.foldl step h

/-! ### calls over shared state: histories and interleavings -/

/-- an API call as a step over the shared module state `σ` with result `ρ`
(arguments and file contents are fixed inside the closure) -/
abbrev Call (σ ρ : Type) := σ → σ × ρ

/-- run a history (any permutation / repetition / interleaving of atomic calls, tagged by thread)
and collect the tagged results -/
def runHistory {σ ρ : Type} : List (Nat × Call σ ρ) → σ → σ × List (Nat × ρ)
  | [], s => (s, [])
  | (t, c) :: rest, s =>
    let (s', r) := c s
    let (s'', rs) := runHistory rest s'
    (s'', (t, r) :: rs)

/-- a call that never writes the shared state -/
def ReadOnly {σ ρ : Type} (c : Call σ ρ) : Prop := ∀ s, (c s).1 = s

end Iodata.Effects
