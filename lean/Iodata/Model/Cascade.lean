/-
Model of `_fix_molden_from_buggy_codes` (iodata/formats/molden.py): a decision list of repair attempts,
each validated by an oracle boolean "all orbital norms are within the threshold" (`_is_normalized_properly`).

Core Lean only (linked into the driver).  The list of attempts and the per-shell-type correction tables
are NOT written here: they are regenerated from the source (`Iodata/Gen/Cascade.lean`) and passed in.
-/
namespace Iodata.Cascade

/-- angular momentum and kind (`'c'` Cartesian / `'p'` pure) of a (segmented) shell -/
abbrev ShellType := Nat × Char

/-- which basis the norm test / the result uses -/
inductive BasisFix | raw | orca | psi4old | turbomole | normalize
  deriving DecidableEq, Repr

/-- which MO coefficients the norm test / the result uses -/
inductive CoeffFix | raw | cfour | psi4new
  deriving DecidableEq, Repr

/-- the correction a `LoadWarning` names -/
inductive Warn | orca | psi4old | turbomole | cfour | unnorm | psi4new | other
  deriving DecidableEq, Repr

/-- What a basis fix does to the contraction coefficients of one shell type: the coefficient of the
primitive with exponent α is DIVIDED by
* `one`        : 1 (untouched; the code's `correction == 1.0`)
* `norm q`     : (4α)^(l/2) (2α/π)^(3/4) / √q   (= `gob_cart_normalization(α, n)/√k` with `q = k·∏(2nᵢ-1)!!`)
* `const a b`  : √(a/b), independent of α
* `unit`       : the norm of the contraction (the shell is re-normalised)
* `unknown`    : none of these (the translator could not classify the behaviour) -/
inductive Scale | one | norm (q : Nat) | const (num den : Nat) | unit | unknown
  deriving DecidableEq, Repr

abbrev BasisTable := List (ShellType × Scale)
/-- squared per-function divisors `(num, den)` of the MO coefficients, in Molden order -/
abbrev CoeffTable := List (ShellType × List (Nat × Nat))

def BasisTable.get (t : BasisTable) (s : ShellType) : Scale := (t.lookup s).getD .one

/-- `corrected` flag of the `_fix_obasis_*` functions: some shell got a correction `≠ 1.0` -/
def BasisTable.touches (t : BasisTable) (sh : List ShellType) : Bool := sh.any fun s => t.get s != .one

/-- `corrected` flag of the `_fix_mo_coeffs_*` functions -/
def CoeffTable.touches (t : CoeffTable) (sh : List ShellType) : Bool := sh.any fun s => (t.lookup s).isSome

structure Tables where
  basis : BasisFix → BasisTable
  coeff : CoeffFix → CoeffTable

/-- One attempt of the cascade, as extracted from the source. -/
structure Attempt where
  /-- the warning emitted when the attempt succeeds -/
  warn : Option Warn
  /-- basis / coefficients handed to `_is_normalized_properly` -/
  testBasis : BasisFix
  testCoeff : CoeffFix
  /-- the attempt is skipped when the basis fix returned `None` -/
  guardBasis : Bool
  /-- the attempt is skipped when the coefficient fix returned `None` -/
  guardCoeff : Bool
  /-- what is assigned to `result["obasis"]` (`none`: no assignment) -/
  storeBasis : Option BasisFix
  /-- what is copied into `result["mo"].coeffs[:]` (`none`: no assignment) -/
  storeCoeff : Option CoeffFix
  deriving DecidableEq, Repr

inductive Outcome | loaded (idx : Nat) (a : Attempt) | loadError
  deriving DecidableEq, Repr

def applicable (T : Tables) (sh : List ShellType) (a : Attempt) : Bool :=
  (!a.guardBasis || (T.basis a.testBasis).touches sh) && (!a.guardCoeff || (T.coeff a.testCoeff).touches sh)

/-- The cascade from attempt number `i` on.  `ok j` is the result of the norm test of attempt `j`. -/
def runFrom (T : Tables) (sh : List ShellType) (ok : Nat → Bool) : Nat → List Attempt → Outcome
  | _, [] => .loadError
  | i, a :: rest =>
    if applicable T sh a then
      if ok i then .loaded i a else runFrom T sh ok (i + 1) rest
    else runFrom T sh ok (i + 1) rest

def run (T : Tables) (as : List Attempt) (sh : List ShellType) (ok : Nat → Bool) : Outcome :=
  runFrom T sh ok 0 as

/-- the norm tests actually executed, in order: (attempt number, result) -/
def testsFrom (T : Tables) (sh : List ShellType) (ok : Nat → Bool) : Nat → List Attempt → List (Nat × Bool)
  | _, [] => []
  | i, a :: rest =>
    if applicable T sh a then
      if ok i then [(i, true)] else (i, false) :: testsFrom T sh ok (i + 1) rest
    else testsFrom T sh ok (i + 1) rest

/-! ### the fixes as diagonal scalings -/

/-- divide entry-wise: `c ↦ c / s` -/
def scaleBy {α : Type} [Div α] (s c : List α) : List α := List.zipWith (fun x y => y / x) s c

/-- value of the expansion `Σ cᵢ φᵢ` -/
def expand {α : Type} [Mul α] [Add α] [OfNat α 0] : List α → List α → α
  | c :: cs, p :: ps => c * p + expand cs ps
  | _, _ => 0

/-! ### double factorials for the table formulas -/

/-- `(2k-1)!!` -/
def oddFact : Nat → Nat
  | 0 => 1
  | k + 1 => (2 * k + 1) * oddFact k

/-- monomial exponents of a Cartesian label such as `xxy` -/
def monoOf (lab : List Char) : Nat × Nat × Nat :=
  (lab.count 'x', lab.count 'y', lab.count 'z')

def monoQ (n : Nat × Nat × Nat) : Nat := oddFact n.1 * oddFact n.2.1 * oddFact n.2.2

def Scale.show : Scale → String
  | .one => "1"
  | .norm q => s!"N{q}"
  | .const a b => s!"K{a}/{b}"
  | .unit => "U"
  | .unknown => "?"

def BasisFix.show : BasisFix → String
  | .raw => "raw" | .orca => "orca" | .psi4old => "psi4_10" | .turbomole => "turbomole" | .normalize => "unnorm"

def CoeffFix.show : CoeffFix → String
  | .raw => "raw" | .cfour => "cfour" | .psi4new => "psi4_132"

def Warn.show : Warn → String
  | .orca => "orca" | .psi4old => "psi4_10" | .turbomole => "turbomole" | .cfour => "cfour"
  | .unnorm => "unnorm" | .psi4new => "psi4_132" | .other => "other"

end Iodata.Cascade
