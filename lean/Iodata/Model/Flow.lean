/-
Model of the API glue of `iodata/api.py` (C08, C07, C18): a tiny control-flow IR for the bodies of
`load_one`, `load_many`, `dump_one`, `dump_many`, `write_input`, `_check_required` (extracted from the
source by the translator into `Iodata/Gen/ApiFlow.lean`) and its trace semantics `exec`, parameterised
by the behaviour of every callee.  Core Lean only (the driver links this file).

What is transcribed from Python:
* `try/except` — the first handler whose class pattern matches runs; a handler's own exception is not
  re-matched by its siblings; a bare `raise` re-raises the exception being handled;
* `except Exception` matches every class below except `base` (KeyboardInterrupt/SystemExit-like) and
  `genExit` (GeneratorExit); the five iodata error classes are siblings;
* `with open(..., "w")` creates/truncates when it is entered and closes on every exit path;
  `with LineIterator(filename)` opens for reading in `__enter__`, closes in `__exit__`;
* `for x in it` ends normally on `StopIteration`, any other exception of the iterator propagates;
* a local generator handed to the format's writer (`checking_iterator`) is run by inversion of control:
  its `yield` is the point where the writer writes that frame (the generator body contains no `try`,
  the translator refuses one); `yield` of a top-level generator (`load_many`) hands a frame to the user,
  who may discard the generator there (`GeneratorExit` at the `yield`);
* PEP 479: `StopIteration` leaving a generator body becomes `RuntimeError`.
-/
namespace Iodata.Flow

/-- exception classes that decide outcomes -/
inductive Exc
  | fileFormat | load | dump | prepareDump | writeInput
  | stopIter | runtime | other | osErr | base | genExit
  deriving DecidableEq, Repr, Inhabited

/-- is the class a subclass of `Exception`? -/
def Exc.isException : Exc → Bool
  | .base => false
  | .genExit => false
  | _ => true

def Exc.toString : Exc → String
  | .fileFormat => "FileFormatError" | .load => "LoadError" | .dump => "DumpError"
  | .prepareDump => "PrepareDumpError" | .writeInput => "WriteInputError"
  | .stopIter => "StopIteration" | .runtime => "RuntimeError" | .other => "Other"
  | .osErr => "OSError" | .base => "Base" | .genExit => "GeneratorExit"

def Exc.all : List Exc :=
  [.fileFormat, .load, .dump, .prepareDump, .writeInput, .stopIter, .runtime, .other, .osErr, .base, .genExit]

/-- `except (A, B):` / `except Exception:` -/
inductive Pat
  | cls (cs : List Exc)
  | anyException
  deriving DecidableEq, Repr

def Pat.matches : Pat → Exc → Bool
  | .cls cs, e => cs.contains e
  | .anyException, e => e.isException

inductive Callee
  | select (attr : String)   -- `_select_format_module(filename, attr, fmt)`
  | selectInput              -- `_select_input_module(filename, fmt)`
  | iterOf                   -- `iter(iter_data)`
  | nextFrame                -- `next(iter_data)`
  | prepare                  -- `format_module.prepare_dump(data, allow_changes, filename)`
  | writer (fn : String)     -- `format_module.dump_one(f, data, **kwargs)`, `input_module.write_input(...)`
  | parse (fn : String)      -- `format_module.load_one(lit, **kwargs)`
  | ctor                     -- `IOData(**…)`
  | api (fn : String)        -- C18: a call of one of the public API functions
  | pure (name : String)     -- no modelled effect (`np.seterr`, `parse_args`)
  deriving DecidableEq, Repr

inductive Mode | r | w deriving DecidableEq, Repr
inductive Src | required | iterData | fmtMany deriving DecidableEq, Repr
inductive YieldTo | writer | user deriving DecidableEq, Repr

mutual
inductive Stmt
  | skip
  | seq (a b : Stmt)
  | call (c : Callee) (args : List String) (tgt : String)
  | inl (name : String) (args : List String) (body : Stmt)
  | consume (c : Callee) (args : List String) (gen : Stmt)
  | ifHasattr (obj attr : String) (t e : Stmt)
  | ifNone (expr : String) (t : Stmt)
  | ifVar (name : String) (t e : Stmt)
  | try_ (body : Stmt) (hs : Handlers)
  | withOpen (mode : Mode) (path var : String) (body : Stmt)
  | forEach (src : Src) (var : String) (body : Stmt)
  | yield_ (to : YieldTo) (expr : String)
  | raise_ (e : Exc) (args : List String)
  | reraise
  | ret (expr : String)
inductive Handlers
  | nil
  | cons (p : Pat) (h : Stmt) (rest : Handlers)
end
deriving instance DecidableEq for Stmt, Handlers
deriving instance Repr for Stmt, Handlers

/-! ### behaviours of the callees -/

/-- a writer's activity on one frame (or header/footer): `n` successful `write` calls, then it returns
(`fail = none`) or an exception leaves it (`some e`; for a fault injected at a write call: the
`n+1`-th call raises before writing) -/
structure WriteB where
  n : Nat := 0
  fail : Option Exc := none
  deriving DecidableEq, Repr, Inhabited

/-- `getattr(data, name)`: a value, `None`, or the property getter raises -/
inductive AttrB
  | val | none | raises (e : Exc)
  deriving DecidableEq, Repr, Inhabited

/-- one object handed to a dump function -/
structure Frame where
  attrs : List AttrB := []      -- one entry per name of the dump function's `required` list, in order
  prep : Option Exc := none     -- `prepare_dump` returns / raises
  w : WriteB := {}              -- what the format's writer does with it
  deriving DecidableEq, Repr, Inhabited

/-- one result of a format's parser: the `next(lit)` (`true`) / `lit.back(line)` (`false`) calls it makes,
then it returns a dict (`res = none`) or raises; `ctor` is what `IOData(**dict)` does -/
structure Item where
  ops : List Bool := []
  res : Option Exc := none
  ctor : Option Exc := none
  deriving DecidableEq, Repr, Inhabited

structure Beh where
  select : Option Exc := none    -- `_select_format_module` returns / raises
  hasPrepare : Bool := true
  openFail : Option Exc := none  -- `open` raises
  iterEnd : Option Exc := none   -- how the user's frame iterator ends (`none` = StopIteration)
  pre : WriteB := {}             -- writer of `dump_many`: writes before the first / after the last frame
  post : WriteB := {}
  items : List Item := []        -- results of the format's `load_one` (head) / `load_many` generator
  itemsEnd : Option Exc := none  -- how the format's `load_many` ends (`none` = returns)
  fmtIsGen : Bool := true        -- the format's `load_many` is a generator function (PEP 479 inside it)
  quota : Option Nat := none     -- user of `load_many`: takes that many frames, then discards (`none` = exhausts)
  nlines : Nat := 0              -- number of lines in the file that is read
  deriving DecidableEq, Repr, Inhabited

/-! ### state -/

abbrev Bytes := List Nat
abbrev FS := Nat → Option Bytes

def fsSet (fs : FS) (p : Nat) (v : Bytes) : FS := fun q => if q = p then some v else fs q
def fsAppend (fs : FS) (p : Nat) (tok : Nat) : FS :=
  fun q => if q = p then some ((fs p).getD [] ++ [tok]) else fs q

inductive Ev
  | openW | openR | write (tok : Nat) | close | getattr | prep | ctor | yield | next | back
  deriving DecidableEq, Repr

/-- `iodata.utils.LineIterator` (utils.py:69-114): `lineno`, the push-back stack, the file position -/
structure LineIt where
  lineno : Int := 0
  stack : Nat := 0
  pos : Nat := 0
  nlines : Nat := 0
  deriving DecidableEq, Repr, Inhabited

/-- `__next__`: `self.lineno += 1; return self.stack.pop() if self.stack else next(self.fh)`;
`false` = `StopIteration` from the file handle (the counter has already been incremented) -/
def LineIt.next (l : LineIt) : Bool × LineIt :=
  let l' := { l with lineno := l.lineno + 1 }
  if l.stack > 0 then (true, { l' with stack := l.stack - 1 })
  else if l.pos < l.nlines then (true, { l' with pos := l.pos + 1 })
  else (false, l')

/-- `back(line)`: `self.stack.append(line); self.lineno -= 1` -/
def LineIt.back (l : LineIt) : LineIt := { l with lineno := l.lineno - 1, stack := l.stack + 1 }

inductive Out
  | normal
  | ret
  | raised (e : Exc) (ln : Option Int)
  deriving DecidableEq, Repr, Inhabited

structure St where
  fs : FS
  trace : List Ev := []       -- newest first
  nw : Nat := 0               -- completed `write` calls (the token the next one appends)
  cur : Frame := {}
  rest : List Frame := []
  attr : AttrB := .val
  item : Item := {}
  lit : LineIt := {}
  yields : Nat := 0
  exc : Option (Exc × Option Int) := none

structure Env where
  b : Beh
  path : Nat := 0
  many : Bool := false

abbrev Res := Out × St

def raiseB (o : Option Exc) (st : St) : Res :=
  match o with
  | none => (.normal, st)
  | some e => (.raised e none, st)

def write1 (path : Nat) (st : St) : St :=
  { st with fs := fsAppend st.fs path st.nw, trace := .write st.nw :: st.trace, nw := st.nw + 1 }

def writeN (path : Nat) : Nat → St → St
  | 0, st => st
  | k + 1, st => writeN path k (write1 path st)

def doWrites (path : Nat) (w : WriteB) (st : St) : Res :=
  raiseB w.fail (writeN path w.n st)

/-- PEP 479 at the boundary of a generator function -/
def pep (isGen : Bool) (e : Exc) : Exc := if isGen && e == .stopIter then .runtime else e

/-- the scripted parser: its line operations in order; stops at the first `next` that hits end of file -/
def runOps : List Bool → LineIt → List Ev → Bool × LineIt × List Ev
  | [], l, tr => (true, l, tr)
  | true :: ops, l, tr =>
    match l.next with
    | (true, l') => runOps ops l' (.next :: tr)
    | (false, l') => (false, l', .next :: tr)
  | false :: ops, l, tr => runOps ops l.back (.back :: tr)

/-- one activation of a parser (`isGen`: inside a generator function, so PEP 479 applies) -/
def runItem (isGen : Bool) (it : Item) (st : St) : Res :=
  match runOps it.ops st.lit st.trace with
  | (ok, l, tr) =>
    let st' := { st with lit := l, trace := tr, item := it }
    if ok then raiseB (it.res.map (pep isGen)) st' else (.raised (pep isGen .stopIter) none, st')

/-- an iterator that "raises" `StopIteration` from `__next__` simply ends -/
def endOf (o : Option Exc) : Option Exc := if o = some .stopIter then none else o

def hasattrB (b : Beh) (attr : String) : Bool := if attr = "prepare_dump" then b.hasPrepare else true

def openFile (path : Nat) : Mode → St → St
  | .w, st => { st with fs := fsSet st.fs path [], trace := .openW :: st.trace }
  | .r, st => { st with trace := .openR :: st.trace }

def execCall (env : Env) : Callee → St → Res
  | .select _, st => raiseB env.b.select st
  | .selectInput, st => raiseB env.b.select st
  | .iterOf, st => (.normal, st)
  | .nextFrame, st =>
    match st.rest with
    | f :: r => (.normal, { st with cur := f, rest := r })
    | [] => (.raised (env.b.iterEnd.getD .stopIter) none, st)
  | .prepare, st => raiseB st.cur.prep { st with trace := .prep :: st.trace }
  | .writer _, st => doWrites env.path st.cur.w st
  | .parse _, st => runItem false (env.b.items.headD {}) st
  | .ctor, st => raiseB st.item.ctor { st with trace := .ctor :: st.trace }
  | .api _, st => (.normal, st)
  | .pure _, st => (.normal, st)

def loopL {α : Type} (f : α → St → Res) : List α → St → Res
  | [], st => (.normal, st)
  | a :: as, st =>
    match f a st with
    | (.normal, st') => loopL f as st'
    | r => r

mutual
def exec (env : Env) : Stmt → St → Res
  | .skip, st => (.normal, st)
  | .seq a b, st =>
    match exec env a st with
    | (.normal, st') => exec env b st'
    | r => r
  | .call c _ _, st => execCall env c st
  | .inl _ _ body, st =>
    match exec env body st with
    | (.ret, st') => (.normal, st')
    | r => r
  | .consume _ _ gen, st =>
    match doWrites env.path env.b.pre st with
    | (.normal, st1) =>
      match exec env gen st1 with
      | (.normal, st2) => doWrites env.path env.b.post st2
      | (.ret, st2) => doWrites env.path env.b.post st2
      | r => r
    | r => r
  | .ifHasattr _ attr t e, st => if hasattrB env.b attr then exec env t st else exec env e st
  | .ifNone _ t, st =>
    match st.attr with
    | .val => (.normal, { st with trace := .getattr :: st.trace })
    | .none => exec env t { st with trace := .getattr :: st.trace }
    | .raises e => (.raised e none, { st with trace := .getattr :: st.trace })
  | .ifVar _ t e, st => if env.many then exec env t st else exec env e st
  | .try_ body hs, st =>
    match exec env body st with
    | (.raised e ln, st') => execH env hs e ln st'
    | r => r
  | .withOpen mode _ _ body, st =>
    match env.b.openFail with
    | some e => (.raised e none, st)
    | none =>
      match exec env body (openFile env.path mode st) with
      | (o, st2) => (o, { st2 with trace := .close :: st2.trace })
  | .forEach .required _ body, st =>
    loopL (fun a s => exec env body { s with attr := a }) st.cur.attrs st
  | .forEach .iterData _ body, st =>
    match loopL (fun f s => exec env body { s with cur := f }) st.rest { st with rest := [] } with
    | (.normal, st') => raiseB (endOf env.b.iterEnd) st'
    | r => r
  | .forEach .fmtMany _ body, st =>
    match loopL (fun it s =>
        match runItem env.b.fmtIsGen it s with
        | (.normal, s') => exec env body s'
        | r => r) env.b.items st with
    | (.normal, st') => raiseB (endOf (env.b.itemsEnd.map (pep env.b.fmtIsGen))) st'
    | r => r
  | .yield_ .writer _, st => doWrites env.path st.cur.w st
  | .yield_ .user _, st =>
    if env.b.quota = some (st.yields + 1) then
      (.raised .genExit none, { st with yields := st.yields + 1, trace := .yield :: st.trace })
    else (.normal, { st with yields := st.yields + 1, trace := .yield :: st.trace })
  | .raise_ e args, st => (.raised e (if args.contains "lit" then some st.lit.lineno else none), st)
  | .reraise, st =>
    match st.exc with
    | some (e, ln) => (.raised e ln, st)
    | none => (.raised .runtime none, st)
  | .ret _, st => (.ret, st)
def execH (env : Env) : Handlers → Exc → Option Int → St → Res
  | .nil, e, ln, st => (.raised e ln, st)
  | .cons p h rest, e, ln, st =>
    if p.matches e then exec env h { st with exc := some (e, ln) } else execH env rest e ln st
end

/-! ### entry points -/

/-- `dump_one(data, filename)` / `write_input(data, filename, fmt)`: one object -/
def runOne (prog : Stmt) (b : Beh) (f : Frame) (path : Nat) (fs : FS) : Res :=
  exec { b := b, path := path } prog { fs := fs, cur := f }

/-- `dump_many(iter_data, filename)` -/
def runMany (prog : Stmt) (b : Beh) (frames : List Frame) (path : Nat) (fs : FS) : Res :=
  exec { b := b, path := path } prog { fs := fs, rest := frames }

/-- `load_one(filename)` -/
def runLoadOne (prog : Stmt) (b : Beh) (path : Nat) (fs : FS) : Res :=
  exec { b := b, path := path } prog { fs := fs, lit := { nlines := b.nlines } }

/-- `load_many(filename)` consumed by a user who takes `quota` frames and then discards the generator
(`none`: iterates to the end).  A generator that is never started runs nothing; `GeneratorExit` ends a
discarded one; PEP 479 applies at its boundary. -/
def runLoadMany (prog : Stmt) (b : Beh) (path : Nat) (fs : FS) : Res :=
  if b.quota = some 0 then (.normal, { fs := fs })
  else
    match exec { b := b, path := path } prog { fs := fs, lit := { nlines := b.nlines } } with
    | (.raised .genExit _, st) => (.normal, st)
    | (.raised .stopIter ln, st) => (.raised .runtime ln, st)
    | r => r

end Iodata.Flow
