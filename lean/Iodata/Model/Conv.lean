/-
Model of `iodata/convert.py`: `_convert_convention_shell` and `convert_conventions`.
Core Lean only (the driver links this file).

A convention entry is a list of labels; a label is a Python `str` modelled as `List Char`.
`startswith("-")` decides the sign, `lstrip("-")` strips *all* leading dashes.
The result of a conversion is the list of pairs `(permutation[j], signs[j])`.
-/
namespace Iodata.Conv

inductive Err where
  | lenMismatch   -- ValueError "conv1 and conv2 must contain the same number of elements."
  | dup1          -- ValueError "Argument conv1 contains duplicates."
  | dup2          -- ValueError "Argument conv2 contains duplicates."
  | setMismatch   -- ValueError "Without the minus signs, conv1 and conv2 must contain the same elements"
  | keyError      -- KeyError from `conventions[key]`
  deriving DecidableEq, Repr

def Err.toString : Err → String
  | .lenMismatch => "ValueError:len"
  | .dup1 => "ValueError:dup1"
  | .dup2 => "ValueError:dup2"
  | .setMismatch => "ValueError:set"
  | .keyError => "KeyError"

abbrev Label := List Char

def neg : Label → Bool
  | '-' :: _ => true
  | _ => false

def strip (l : Label) : Label := l.dropWhile (· == '-')

def sgnB (b : Bool) : Int := if b then -1 else 1

/-- `(startswith "-", lstrip "-")` -/
def parse (l : Label) : Bool × Label := (neg l, strip l)

section core
variable {β : Type} [DecidableEq β]

def labels (c : List (Bool × β)) : List β := c.map Prod.snd
def signs (c : List (Bool × β)) : List Int := c.map (fun p => sgnB p.1)

/-- forward conversion (reverse = False), after the guards:
`permutation = [conv1.index(el2) for el2 in conv2]`,
`signs = [signs1[i] * sign2 for i, sign2 in zip(permutation, signs2)]`. -/
def convFwd (c1 c2 : List (Bool × β)) : List (Nat × Int) :=
  c2.map (fun p => ((labels c1).idxOf p.2, (signs c1).getD ((labels c1).idxOf p.2) 0 * sgnB p.1))

/-- the guards of `_convert_convention_shell`, in the order of the code -/
def guards (c1 c2 : List (Bool × β)) : Except Err Unit :=
  if c1.length ≠ c2.length then .error .lenMismatch
  else if ¬ (labels c1).Nodup then .error .dup1
  else if ¬ (labels c2).Nodup then .error .dup2
  else if ¬ ((labels c1).all (fun x => (labels c2).contains x) ∧ (labels c2).all (fun x => (labels c1).contains x))
    then .error .setMismatch
  else .ok ()

/-- `_convert_convention_shell` on parsed labels -/
def convCore (c1 c2 : List (Bool × β)) (rev : Bool) : Except Err (List (Nat × Int)) :=
  match guards c1 c2 with
  | .error e => .error e
  | .ok () =>
    if rev then
      -- permutation = [conv2.index(el1) for el1 in conv1]; signs = [signs2[i] * sign1 ...]
      .ok (c1.map (fun p => ((labels c2).idxOf p.2, (signs c2).getD ((labels c2).idxOf p.2) 0 * sgnB p.1)))
    else .ok (convFwd c1 c2)

/-- `vector2 = vector1[permutation] * signs` -/
def apply (r : List (Nat × Int)) (v : List Int) : List Int :=
  r.map (fun p => p.2 * v.getD p.1 0)

/-- the coefficient a labelled vector gives to the *unsigned* function `x`:
`sign(label) * v[position of x]`, `0` when `x` is not in the convention. -/
def val (c : List (Bool × β)) (v : List Int) (x : β) : Int :=
  (signs c).getD ((labels c).idxOf x) 0 * v.getD ((labels c).idxOf x) 0

end core

def convShell (c1 c2 : List Label) (rev : Bool) : Except Err (List (Nat × Int)) :=
  convCore (c1.map parse) (c2.map parse) rev

/-! ### basis level -/

abbrev Key := Nat × Char
abbrev Table := List (Key × List Label)

def lookup (t : Table) (k : Key) : Except Err (List Label) :=
  match t.find? (fun e => e.1 == k) with
  | some e => .ok e.2
  | none => .error .keyError

def shift (off : Nat) (p : Nat × Int) : Nat × Int := (p.1 + off, p.2)

/-- `convert_conventions`: loop over `zip(shell.angmoms, shell.kinds)` of all shells
(`keys` is that flattened list), offset = number of functions so far. -/
def convBasisFrom (t1 t2 : Table) (rev : Bool) (off : Nat) : List Key → Except Err (List (Nat × Int))
  | [] => .ok []
  | k :: ks =>
    match lookup t1 k with
    | .error e => .error e
    | .ok c1 =>
      match lookup t2 k with
      | .error e => .error e
      | .ok c2 =>
        match convShell c1 c2 rev with
        | .error e => .error e
        | .ok r =>
          match convBasisFrom t1 t2 rev (off + r.length) ks with
          | .error e => .error e
          | .ok rest => .ok (r.map (shift off) ++ rest)

def convBasis (t1 t2 : Table) (keys : List Key) (rev : Bool) : Except Err (List (Nat × Int)) :=
  convBasisFrom t1 t2 rev 0 keys

/-! ### well-formedness of a table entry -/

/-- all Cartesian monomial labels of degree `l` (alphabetical order; `"1"` for `l = 0`) -/
def cartLabels (l : Nat) : List Label :=
  if l = 0 then [['1']] else
  (List.range (l + 1)).flatMap fun a' =>
    let a := l - a'
    (List.range (l - a + 1)).map fun b' =>
      let b := (l - a) - b'
      List.replicate a 'x' ++ List.replicate b 'y' ++ List.replicate (l - a - b) 'z'

def natToChars (n : Nat) : List Char := (toString n).toList

/-- pure labels `c0, c1, s1, …, cl, sl` -/
def pureLabels (l : Nat) : List Label :=
  ('c' :: natToChars 0) :: (List.range l).flatMap fun m => [ 'c' :: natToChars (m+1), 's' :: natToChars (m+1) ]

def expected (k : Key) : Option (List Label) :=
  if k.2 = 'c' then some (cartLabels k.1)
  else if k.2 = 'p' ∧ 2 ≤ k.1 then some (pureLabels k.1)
  else none

/-- an entry lists each function of its shell type exactly once (up to order and sign);
at most one leading dash per label -/
def wellFormedEntry (e : Key × List Label) : Bool :=
  match expected e.1 with
  | none => false
  | some exp =>
    let ls := e.2.map strip
    decide (ls.length = exp.length) && decide ls.Nodup && exp.all (fun x => ls.contains x)
      && e.2.all (fun l => strip l == l || ('-' :: strip l) == l)

def wellFormedTable (t : Table) : Bool :=
  t.all wellFormedEntry && decide ((t.map (·.1)).Nodup)

end Iodata.Conv
