/-
Model of the input-file writers (C19), at the level of characters:
`iodata/inputs/common.py::write_input_base`, `inputs/gaussian.py`, `inputs/orca.py`,
`api.write_input` (api.py:410-449), with an arbitrary `atom_line` callback.  Core Lean only (the driver links
this file).

Numbers: a coordinate is carried as the INTEGER `k = round(x/angstrom · 10^6)`; the `10.6f`
field printed for it is `fmtFix6 k`.  Charge and spin polarisation are exact rationals.
-/
import Iodata.Model.Select
namespace Iodata.Inputs
open Iodata.Select (Str)

/-! ### numbers -/

def natDigits (n : Nat) : Str := (toString n).toList

def intStr (i : Int) : Str := if i < 0 then '-' :: natDigits i.natAbs else natDigits i.natAbs

/-- left-pad with blanks to `w` (Python `>`/numeric default alignment) -/
def padLeft (w : Nat) (s : Str) : Str := List.replicate (w - s.length) ' ' ++ s
/-- right-pad with blanks to `w` (Python default alignment of strings) -/
def padRight (w : Nat) (s : Str) : Str := s ++ List.replicate (w - s.length) ' '

/-- `f"{x:10.6f}"` for the value `k·10⁻⁶` -/
def fmtFix6 (k : Int) : Str :=
  let a := k.natAbs
  let body := natDigits (a / 1000000) ++ '.' :: padLeftZero 6 (natDigits (a % 1000000))
  padLeft 10 (if k < 0 then '-' :: body else body)
where
  padLeftZero (w : Nat) (s : Str) : Str := List.replicate (w - s.length) '0' ++ s

/-- `np.round` / Python `round`: round half to even -/
def roundHalfEven (q : Rat) : Int :=
  let f := q.floor
  let r := q - (f : Rat)
  if r < 1 / 2 then f else if 1 / 2 < r then f + 1 else if f % 2 = 0 then f else f + 1

/-! ### the object -/

structure Atom where
  atnum : Nat
  x : Int      -- coordinates in units of 10⁻⁶ Å
  y : Int
  z : Int
  deriving Repr, DecidableEq

structure Mol where
  atoms : List Atom
  title : Option Str
  lot : Option Str
  obasisName : Option Str
  runType : Option Str
  charge : Option Rat
  spinpol : Option Rat
  deriving Repr

/-- values a template field can have in the modelled subset -/
inductive Val where
  | str (s : Str)
  | int (i : Int)
  deriving Repr, DecidableEq

def Val.render : Val → Str
  | .str s => s
  | .int i => intStr i

abbrev Fields := List (Str × Val)

/-- `dict.update`: entries of `new` override entries of `old` (lookup finds the first hit) -/
def override (old new : Fields) : Fields := new ++ old

def lookup (fs : Fields) (k : Str) : Option Val :=
  match fs.find? (fun e => e.1 == k) with
  | some e => some e.2
  | none => none

/-! ### `str.format` on the subset `{name}`, `{{`, `}}` -/

inductive FmtErr where
  | single        -- ValueError: single '{' or '}' / unexpected '{' in field name
  | keyError      -- KeyError: unknown field name
  | indexError    -- IndexError: `{}` or `{0}` without positional arguments
  | unsupported   -- conversion / format spec / attribute / index syntax: outside the modelled subset
  deriving DecidableEq, Repr

def isDigits (s : Str) : Bool := s.all Char.isDigit

def fieldValue (fs : Fields) (name : Str) : Except FmtErr Str :=
  if name.contains '{' then .error .single
  else if name.any (fun c => c == '!' || c == ':' || c == '.' || c == '[') then .error .unsupported
  else if isDigits name then .error .indexError      -- includes the empty name
  else match lookup fs name with
    | some v => .ok v.render
    | none => .error .keyError

/-- scanner state of `str.format`: in literal text, just after `{`, just after `}`, inside a field name
(characters collected so far, reversed) -/
inductive St where
  | text
  | afterOpen
  | afterClose
  | name (acc : Str)

/-- `template.format(**fields)`, one character at a time -/
def formatFrom (fs : Fields) : St → Str → Except FmtErr Str
  | .text, [] => .ok []
  | .text, '{' :: r => formatFrom fs .afterOpen r
  | .text, '}' :: r => formatFrom fs .afterClose r
  | .text, c :: r => (formatFrom fs .text r).map (c :: ·)
  | .afterOpen, [] => .error .single
  | .afterOpen, '{' :: r => (formatFrom fs .text r).map ('{' :: ·)
  | .afterOpen, '}' :: r =>
    match fieldValue fs [] with
    | .error e => .error e
    | .ok v => (formatFrom fs .text r).map (v ++ ·)
  | .afterOpen, c :: r => formatFrom fs (.name [c]) r
  | .afterClose, '}' :: r => (formatFrom fs .text r).map ('}' :: ·)
  | .afterClose, _ => .error .single
  | .name _, [] => .error .single
  | .name acc, '}' :: r =>
    match fieldValue fs acc.reverse with
    | .error e => .error e
    | .ok v => (formatFrom fs .text r).map (v ++ ·)
  | .name acc, c :: r => formatFrom fs (.name (c :: acc)) r

def format (fs : Fields) (t : Str) : Except FmtErr Str := formatFrom fs .text t

/-! ### atom lines and geometry -/

/-- `f"{symbol:3s} {x:10.6f} {y:10.6f} {z:10.6f}"`; `none` = `KeyError` from `num2sym[atnum]` -/
def atomLine (num2sym : List (Nat × Str)) (a : Atom) : Option Str :=
  match num2sym.find? (fun e => e.1 == a.atnum) with
  | none => none
  | some e => some (padRight 3 e.2 ++ ' ' :: fmtFix6 a.x ++ ' ' :: fmtFix6 a.y ++ ' ' :: fmtFix6 a.z)

def allSome {α : Type} : List (Option α) → Option (List α)
  | [] => some []
  | none :: _ => none
  | some x :: xs => match allSome xs with
    | some r => some (x :: r)
    | none => none

def joinNl : List Str → Str
  | [] => []
  | [l] => l
  | l :: ls => l ++ '\n' :: joinNl ls

/-- `"\n".join(default_atom_line(data, i) for i in range(natom))` written over the atoms
(kept as the reference form of the default geometry; `geometryWith_default` ties it to `geometryWith`) -/
def geometry (num2sym : List (Nat × Str)) (atoms : List Atom) : Option Str :=
  (allSome (atoms.map (atomLine num2sym))).map joinNl

/-! ### atom-line callbacks (`atom_line=` of `api.write_input`) -/

/-- An exception leaving a callback, as the funnel `except Exception` of `api.write_input` sees it:
an instance of (a subclass of) `Exception`, or of `BaseException` only (`KeyboardInterrupt`, `SystemExit`,
`GeneratorExit`, user subclasses of `BaseException`).  `cls` is the class name. -/
inductive Raised where
  | exception (cls : Str)
  | baseOnly (cls : Str)
  deriving DecidableEq, Repr

/-- What one call `atom_line(data, iatom)` does: return a `str` (any text: braces, newlines, empty),
return an object that is not a `str` (`None`, `int`, `bytes`, …), or raise. -/
inductive LineRes where
  | line (s : Str)
  | nonStr
  | raises (r : Raised)
  deriving DecidableEq, Repr

/-- A callback is any function of the object and the atom index (deterministic, does not modify the object). -/
abbrev AtomLineFn := Mol → Nat → LineRes

def sKeyError : Str := ['K','e','y','E','r','r','o','r']
def sIndexError : Str := ['I','n','d','e','x','E','r','r','o','r']

/-- result of `default_atom_line` for one atom: the line, or `KeyError` from `num2sym[atnum]` -/
def defaultRes (num2sym : List (Nat × Str)) (a : Atom) : LineRes :=
  match atomLine num2sym a with
  | none => .raises (.exception sKeyError)
  | some l => .line l

/-- `default_atom_line(data, iatom)` of `inputs/gaussian.py` and `inputs/orca.py` (same body, see
`atom_line_layout`); `data.atnums[iatom]` outside the arrays is an `IndexError` -/
def defaultAtomLine (num2sym : List (Nat × Str)) : AtomLineFn := fun m i =>
  match m.atoms[i]? with
  | none => .raises (.exception sIndexError)
  | some a => defaultRes num2sym a

/-- `[atom_line(data, iatom) for iatom in range(data.natom)]`: the arguments of the calls made, in order —
the comprehension stops at the first call that raises, a non-`str` return value does not stop it. -/
def callsMade (f : Nat → LineRes) : List Nat → List Nat
  | [] => []
  | i :: is =>
    match f i with
    | .raises _ => [i]
    | _ => i :: callsMade f is

/-- the list built by the comprehension (`none` = a non-`str` item), or the first exception raised -/
def collect : List LineRes → Except Raised (List (Option Str))
  | [] => .ok []
  | .raises r :: _ => .error r
  | .line s :: rs => (collect rs).map (some s :: ·)
  | .nonStr :: rs => (collect rs).map (none :: ·)

inductive GeomRes where
  | ok (g : Str)
  | typeError            -- `"\n".join(geometry)`: "sequence item i: expected str instance"
  | raised (r : Raised)  -- a callback raised
  deriving DecidableEq, Repr

/-- the comprehension followed by `"\n".join(geometry)`, over the results of the calls -/
def geomOf (rs : List LineRes) : GeomRes :=
  match collect rs with
  | .error r => .raised r
  | .ok items =>
    match allSome items with
    | some lines => .ok (joinNl lines)
    | none => .typeError

/-- `geometry = [atom_line(data, iatom) for iatom in range(data.natom)]; "\n".join(geometry)` -/
def geometryWith (f : AtomLineFn) (m : Mol) : GeomRes :=
  geomOf ((List.range m.atoms.length).map (f m))

def geometryCalls (f : AtomLineFn) (m : Mol) : List Nat :=
  callsMade (f m) (List.range m.atoms.length)

/-! ### programs -/

structure Program where
  name : Str
  template : Str
  /-- run-type keyword map, e.g. `energy ↦ sp` -/
  keywords : List (Str × Str)
  defaultLot : Str
  defaultBasis : Str
  defaultRunType : Str
  deriving Repr

def lowerChar (c : Char) : Char := if 65 ≤ c.toNat ∧ c.toNat ≤ 90 then Char.ofNat (c.toNat + 32) else c

/-- Python `x or default` on `Optional[str]` -/
def orDefault (x : Option Str) (d : Str) : Str :=
  match x with
  | some (c :: s) => c :: s
  | _ => d

inductive Err where
  | fileFormatError
  | writeInputError
  /-- a `BaseException` that is not an `Exception` leaves `api.write_input` unchanged -/
  | passThrough (cls : Str)
  deriving DecidableEq, Repr

def sTitle : Str := ['t','i','t','l','e']
def sSpinmult : Str := ['s','p','i','n','m','u','l','t']
def sCharge : Str := ['c','h','a','r','g','e']
def sLot : Str := ['l','o','t']
def sBasis : Str := ['o','b','a','s','i','s','_','n','a','m','e']
def sRunType : Str := ['r','u','n','_','t','y','p','e']
def sGeometry : Str := ['g','e','o','m','e','t','r','y']
def defaultTitle : Str := "Input Generated by IOData".toList

/-- the three fields `write_input_base` derives from the object -/
def baseFields (m : Mol) : Fields :=
  [ (sTitle, .str (match m.title with | some t => t | none => defaultTitle)),
    (sSpinmult, .int (match m.spinpol with | some s => (roundHalfEven s).natAbs + 1 | none => 1)),
    (sCharge, .int (match m.charge with | some c => roundHalfEven c | none => 0)) ]

/-- the program-specific fields (`KeyError` for an unknown run type = `none`) -/
def programFields (p : Program) (m : Mol) : Option Fields :=
  match p.keywords.find? (fun e => e.1 == (orDefault m.runType p.defaultRunType).map lowerChar) with
  | none => none
  | some kw =>
    some [ (sLot, .str (orDefault m.lot p.defaultLot)),
           (sBasis, .str (orDefault m.obasisName p.defaultBasis)),
           (sRunType, .str kw.2) ]

/-- all fields seen by `template.format`: object ▷ program defaults ▷ kwargs, then `geometry` -/
def allFields (pf : Fields) (m : Mol) (kwargs : Fields) (geom : Str) : Fields :=
  override (override (override (baseFields m) pf) kwargs) [(sGeometry, .str geom)]

/-- how `<program>.write_input(fh, data, template, atom_line, **kwargs)` ends -/
inductive RenderRes where
  | ok (text : Str)       -- returned; `text` was printed to `fh` (incl. `print`'s newline)
  | fail                  -- an `Exception` left the function; nothing was printed
  | pass (cls : Str)      -- a `BaseException` (not `Exception`) left the function; nothing was printed
  deriving DecidableEq, Repr

/-- `<program>.write_input(fh, data, template, atom_line, **kwargs)`; `cb = none` is `atom_line=None`, which the
program replaces by its `default_atom_line`.  Order as in the source: run-type keyword lookup (program module),
then in `write_input_base` the object-derived fields, the callback once per atom, the join, `template.format`,
and only then the single `print`. -/
def render (num2sym : List (Nat × Str)) (p : Program) (m : Mol) (template : Option Str)
    (cb : Option AtomLineFn) (kwargs : Fields) : RenderRes :=
  match programFields p m with
  | none => .fail
  | some pf =>
    match geometryWith (cb.getD (defaultAtomLine num2sym)) m with
    | .raised (.exception _) => .fail
    | .raised (.baseOnly c) => .pass c
    | .typeError => .fail
    | .ok g =>
      match format (allFields pf m kwargs g) (template.getD p.template) with
      | .error _ => .fail
      | .ok s => .ok (s ++ ['\n'])

/-- the calls `atom_line(data, i)` made by `render`, in order (none when the run type is unknown: the program
module fails before `write_input_base` is entered) -/
def renderCalls (num2sym : List (Nat × Str)) (p : Program) (m : Mol) (cb : Option AtomLineFn) : List Nat :=
  match programFields p m with
  | none => []
  | some _ => geometryCalls (cb.getD (defaultAtomLine num2sym)) m

/-- everything observable about one call of `api.write_input` -/
structure Outcome where
  /-- `none`: returned normally -/
  error : Option Err
  /-- `none`: `filename` was never opened (an existing file keeps its content, a missing one stays missing);
  `some s`: `open(filename, "w")` happened (file created or truncated) and `s` is its content afterwards -/
  file : Option Str
  /-- arguments of the calls made to the atom-line function, in order -/
  calls : List Nat
  deriving DecidableEq, Repr

/-- `api.write_input(data, filename, fmt, template=…, atom_line=…, **kwargs)`:
`_select_input_module` (FileFormatError before anything is opened), `with open(filename, "w")`, the program's
`write_input` inside `try … except Exception as exc: raise WriteInputError(…) from exc`. -/
def run (num2sym : List (Nat × Str)) (programs : List Program) (m : Mol) (fmt : Str)
    (template : Option Str) (cb : Option AtomLineFn) (kwargs : Fields) : Outcome :=
  match programs.find? (fun p => p.name == fmt) with
  | none => ⟨some .fileFormatError, none, []⟩
  | some p =>
    let calls := renderCalls num2sym p m cb
    match render num2sym p m template cb kwargs with
    | .ok s => ⟨none, some s, calls⟩
    | .fail => ⟨some .writeInputError, some [], calls⟩
    | .pass c => ⟨some (.passThrough c), some [], calls⟩

end Iodata.Inputs
