/-
Model of the input-file writers (C19), at the level of characters:
`iodata/inputs/common.py::write_input_base`, `inputs/gaussian.py`, `inputs/orca.py`,
`api.write_input` (api.py:410-449).  Core Lean only (the driver links this file).

Numbers: a coordinate is carried as the INTEGER `k = round(x/angstrom · 10^6)`; the `10.6f`
field printed for it is `fmtFix6 k`.  Charge and spin polarisation are exact rationals.
-/
import Iodata.Model.Select
namespace Iodata.Inputs
open Iodata.Select (Str)

/-! ### numbers -/

def natDigits (n : Nat) : Str := (toString n).toList

def intStr (i : Int) : Str := if i < 0 then '-' :: natDigits i.natAbs else natDigits i.natAbs

/-- left-pad with blanks to `w` (Python `>`/numeric default alignment) -/
def padLeft (w : Nat) (s : Str) : Str := List.replicate (w - s.length) ' ' ++ s
/-- right-pad with blanks to `w` (Python default alignment of strings) -/
def padRight (w : Nat) (s : Str) : Str := s ++ List.replicate (w - s.length) ' '

/-- `f"{x:10.6f}"` for the value `k·10⁻⁶` -/
def fmtFix6 (k : Int) : Str :=
  let a := k.natAbs
  let body := natDigits (a / 1000000) ++ '.' :: padLeftZero 6 (natDigits (a % 1000000))
  padLeft 10 (if k < 0 then '-' :: body else body)
where
  padLeftZero (w : Nat) (s : Str) : Str := List.replicate (w - s.length) '0' ++ s

/-- `np.round` / Python `round`: round half to even -/
def roundHalfEven (q : Rat) : Int :=
  let f := q.floor
  let r := q - (f : Rat)
  if r < 1 / 2 then f else if 1 / 2 < r then f + 1 else if f % 2 = 0 then f else f + 1

/-! ### the object -/

structure Atom where
  atnum : Nat
  x : Int      -- coordinates in units of 10⁻⁶ Å
  y : Int
  z : Int
  deriving Repr, DecidableEq

structure Mol where
  atoms : List Atom
  title : Option Str
  lot : Option Str
  obasisName : Option Str
  runType : Option Str
  charge : Option Rat
  spinpol : Option Rat
  deriving Repr

/-- values a template field can have in the modelled subset -/
inductive Val where
  | str (s : Str)
  | int (i : Int)
  deriving Repr, DecidableEq

def Val.render : Val → Str
  | .str s => s
  | .int i => intStr i

abbrev Fields := List (Str × Val)

/-- `dict.update`: entries of `new` override entries of `old` (lookup finds the first hit) -/
def override (old new : Fields) : Fields := new ++ old

def lookup (fs : Fields) (k : Str) : Option Val :=
  match fs.find? (fun e => e.1 == k) with
  | some e => some e.2
  | none => none

/-! ### `str.format` on the subset `{name}`, `{{`, `}}` -/

inductive FmtErr where
  | single        -- ValueError: single '{' or '}' / unexpected '{' in field name
  | keyError      -- KeyError: unknown field name
  | indexError    -- IndexError: `{}` or `{0}` without positional arguments
  | unsupported   -- conversion / format spec / attribute / index syntax: outside the modelled subset
  deriving DecidableEq, Repr

def isDigits (s : Str) : Bool := s.all Char.isDigit

def fieldValue (fs : Fields) (name : Str) : Except FmtErr Str :=
  if name.contains '{' then .error .single
  else if name.any (fun c => c == '!' || c == ':' || c == '.' || c == '[') then .error .unsupported
  else if isDigits name then .error .indexError      -- includes the empty name
  else match lookup fs name with
    | some v => .ok v.render
    | none => .error .keyError

/-- scanner state of `str.format`: in literal text, just after `{`, just after `}`, inside a field name
(characters collected so far, reversed) -/
inductive St where
  | text
  | afterOpen
  | afterClose
  | name (acc : Str)

/-- `template.format(**fields)`, one character at a time -/
def formatFrom (fs : Fields) : St → Str → Except FmtErr Str
  | .text, [] => .ok []
  | .text, '{' :: r => formatFrom fs .afterOpen r
  | .text, '}' :: r => formatFrom fs .afterClose r
  | .text, c :: r => (formatFrom fs .text r).map (c :: ·)
  | .afterOpen, [] => .error .single
  | .afterOpen, '{' :: r => (formatFrom fs .text r).map ('{' :: ·)
  | .afterOpen, '}' :: r =>
    match fieldValue fs [] with
    | .error e => .error e
    | .ok v => (formatFrom fs .text r).map (v ++ ·)
  | .afterOpen, c :: r => formatFrom fs (.name [c]) r
  | .afterClose, '}' :: r => (formatFrom fs .text r).map ('}' :: ·)
  | .afterClose, _ => .error .single
  | .name _, [] => .error .single
  | .name acc, '}' :: r =>
    match fieldValue fs acc.reverse with
    | .error e => .error e
    | .ok v => (formatFrom fs .text r).map (v ++ ·)
  | .name acc, c :: r => formatFrom fs (.name (c :: acc)) r

def format (fs : Fields) (t : Str) : Except FmtErr Str := formatFrom fs .text t

/-! ### atom lines and geometry -/

/-- `f"{symbol:3s} {x:10.6f} {y:10.6f} {z:10.6f}"`; `none` = `KeyError` from `num2sym[atnum]` -/
def atomLine (num2sym : List (Nat × Str)) (a : Atom) : Option Str :=
  match num2sym.find? (fun e => e.1 == a.atnum) with
  | none => none
  | some e => some (padRight 3 e.2 ++ ' ' :: fmtFix6 a.x ++ ' ' :: fmtFix6 a.y ++ ' ' :: fmtFix6 a.z)

def allSome {α : Type} : List (Option α) → Option (List α)
  | [] => some []
  | none :: _ => none
  | some x :: xs => match allSome xs with
    | some r => some (x :: r)
    | none => none

def joinNl : List Str → Str
  | [] => []
  | [l] => l
  | l :: ls => l ++ '\n' :: joinNl ls

/-- `"\n".join(atom_line(data, i) for i in range(natom))` -/
def geometry (num2sym : List (Nat × Str)) (atoms : List Atom) : Option Str :=
  (allSome (atoms.map (atomLine num2sym))).map joinNl

/-! ### programs -/

structure Program where
  name : Str
  template : Str
  /-- run-type keyword map, e.g. `energy ↦ sp` -/
  keywords : List (Str × Str)
  defaultLot : Str
  defaultBasis : Str
  defaultRunType : Str
  deriving Repr

def lowerChar (c : Char) : Char := if 65 ≤ c.toNat ∧ c.toNat ≤ 90 then Char.ofNat (c.toNat + 32) else c

/-- Python `x or default` on `Optional[str]` -/
def orDefault (x : Option Str) (d : Str) : Str :=
  match x with
  | some (c :: s) => c :: s
  | _ => d

inductive Err where
  | fileFormatError
  | writeInputError
  deriving DecidableEq, Repr

def sTitle : Str := ['t','i','t','l','e']
def sSpinmult : Str := ['s','p','i','n','m','u','l','t']
def sCharge : Str := ['c','h','a','r','g','e']
def sLot : Str := ['l','o','t']
def sBasis : Str := ['o','b','a','s','i','s','_','n','a','m','e']
def sRunType : Str := ['r','u','n','_','t','y','p','e']
def sGeometry : Str := ['g','e','o','m','e','t','r','y']
def defaultTitle : Str := "Input Generated by IOData".toList

/-- the three fields `write_input_base` derives from the object -/
def baseFields (m : Mol) : Fields :=
  [ (sTitle, .str (match m.title with | some t => t | none => defaultTitle)),
    (sSpinmult, .int (match m.spinpol with | some s => (roundHalfEven s).natAbs + 1 | none => 1)),
    (sCharge, .int (match m.charge with | some c => roundHalfEven c | none => 0)) ]

/-- the program-specific fields (`KeyError` for an unknown run type = `none`) -/
def programFields (p : Program) (m : Mol) : Option Fields :=
  match p.keywords.find? (fun e => e.1 == (orDefault m.runType p.defaultRunType).map lowerChar) with
  | none => none
  | some kw =>
    some [ (sLot, .str (orDefault m.lot p.defaultLot)),
           (sBasis, .str (orDefault m.obasisName p.defaultBasis)),
           (sRunType, .str kw.2) ]

/-- all fields seen by `template.format`: object ▷ program defaults ▷ kwargs, then `geometry` -/
def allFields (pf : Fields) (m : Mol) (kwargs : Fields) (geom : Str) : Fields :=
  override (override (override (baseFields m) pf) kwargs) [(sGeometry, .str geom)]

/-- `<program>.write_input(fh, data, template, None, **kwargs)`: the text written (incl. `print`'s newline) -/
def render (num2sym : List (Nat × Str)) (p : Program) (m : Mol) (template : Option Str) (kwargs : Fields) :
    Option Str :=
  match programFields p m with
  | none => none
  | some pf =>
    match geometry num2sym m.atoms with
    | none => none
    | some g =>
      match format (allFields pf m kwargs g) (template.getD p.template) with
      | .error _ => none
      | .ok s => some (s ++ ['\n'])

/-- `api.write_input(data, filename, fmt, template=…, **kwargs)` -/
def writeInput (num2sym : List (Nat × Str)) (programs : List Program) (m : Mol) (fmt : Str)
    (template : Option Str) (kwargs : Fields) : Except Err Str :=
  match programs.find? (fun p => p.name == fmt) with
  | none => .error .fileFormatError
  | some p =>
    match render num2sym p m template kwargs with
    | none => .error .writeInputError
    | some s => .ok s

end Iodata.Inputs
