/-
Model of format selection in `iodata/api.py` (C17):
`_select_format_module` (api.py:57-92) and `_select_input_module` (api.py:109-133).
Core Lean only (the driver links this file).

Strings are `List Char`.  The registry is the `FORMAT_MODULES` dict in insertion order
(module name, `PATTERNS`, the entry points the module has).  Patterns are the subset of
`fnmatch` syntax the modules use: literal characters and `*` (no `?`, no `[...]`);
`fnmatch` is case-sensitive on POSIX and `*` matches any run of characters, incl. none.
-/
namespace Iodata.Select

abbrev Str := List Char

structure Module where
  name : Str
  patterns : List Str
  /-- names `a` for which `hasattr(module, a)` among the operations asked for -/
  attrs : List Str
  deriving Repr, DecidableEq

/-- every `FileFormatError` site of the two functions -/
inductive Err where
  | noFormat        -- "Cannot find file format with feature …"
  | unsupported     -- "Format … does not support feature …"
  | unknownFormat   -- "Unknown file format …"
  | noInputFormat   -- "Cannot find input format …"
  deriving DecidableEq, Repr

/-- the Python class of every error of this model -/
def Err.cls : Err → String
  | _ => "FileFormatError"

/-- all suffixes of a string, longest first -/
def suffixes : Str → List Str
  | [] => [[]]
  | c :: s => (c :: s) :: suffixes s

/-- `fnmatch(name, pattern)` for patterns made of literals and `*` -/
def glob : Str → Str → Bool
  | [], s => s.isEmpty
  | '*' :: p, s => (suffixes s).any (glob p)
  | c :: p, s =>
    match s with
    | [] => false
    | d :: s' => c == d && glob p s'

/-- `os.path.basename` (POSIX): everything after the last `/` -/
def basename (path : Str) : Str :=
  (path.reverse.takeWhile (· != '/')).reverse

def matchesAny (m : Module) (base : Str) : Bool := m.patterns.any (fun p => glob p base)

def supports (m : Module) (attr : Str) : Bool := m.attrs.contains attr

/-- `_select_format_module(filename, attrname, fmt)`; the result is the name of the chosen module -/
def select (reg : List Module) (filename attr : Str) (fmt : Option Str) : Except Err Str :=
  let base := basename filename
  match fmt with
  | none =>
    match reg.find? (fun m => matchesAny m base && supports m attr) with
    | some m => .ok m.name
    | none => .error .noFormat
  | some f =>
    match reg.find? (fun m => m.name == f) with   -- `fmt in FORMAT_MODULES` / `FORMAT_MODULES[fmt]`
    | some m => if supports m attr then .ok m.name else .error .unsupported
    | none => .error .unknownFormat

/-- `_select_input_module(filename, fmt)` over the names of `INPUT_MODULES`
(every registered input module has `write_input`: that is the registration condition) -/
def selectInput (inputs : List Str) (_filename fmt : Str) : Except Err Str :=
  if inputs.contains fmt then .ok fmt else .error .noInputFormat

/-! ### declared capabilities -/

/-- the lists attached to one entry point by the `document_*` decorators -/
structure Declared where
  module : Str
  entry : Str
  guaranteed : List Str
  ifpresent : List Str
  required : List Str
  optional : List Str
  deriving Repr, DecidableEq

def Declared.all (d : Declared) : List Str := d.guaranteed ++ d.ifpresent ++ d.required ++ d.optional

/-- strict lexicographic order on strings by code point (Python `str.__lt__`) -/
def strLt : Str → Str → Bool
  | [], [] => false
  | [], _ :: _ => true
  | _ :: _, [] => false
  | a :: s, b :: t => a.toNat < b.toNat || (a == b && strLt s t)

def sortedStrict : List Str → Bool
  | [] => true
  | [_] => true
  | a :: b :: rest => strLt a b && sortedStrict (b :: rest)

end Iodata.Select
