/- Helper lemmas for C06 (model `Iodata/Model/Overlap.lean`). -/
import Iodata.Model.Overlap
import Mathlib.Algebra.BigOperators.Intervals
import Mathlib.Algebra.BigOperators.Field
import Mathlib.Algebra.Field.Basic
import Mathlib.Data.Nat.Choose.Basic
import Mathlib.Tactic.Ring
import Mathlib.Tactic.FieldSimp
import Mathlib.Algebra.Polynomial.Basis
import Mathlib.Algebra.Polynomial.Derivative

namespace Iodata.Overlap
open Finset

theorem choose_eq (n k : Nat) : choose n k = Nat.choose n k := by
  induction n generalizing k with
  | zero => cases k <;> simp [choose]
  | succ n ih => cases k with
    | zero => simp [choose]
    | succ k => simp [choose, ih, Nat.choose_succ_succ]

section
variable {K : Type} [Field K]

theorem sumL_eq_sum (l : List K) : sumL l = l.sum := by
  unfold sumL
  rw [List.sum_eq_foldl]
  simp

theorem list_range_sum (f : Nat → K) (n : Nat) : ((List.range n).map f).sum = ∑ i ∈ range n, f i := by
  induction n with
  | zero => simp
  | succ n ih => simp [List.range_succ, Finset.sum_range_succ, ih]

theorem sum_flatMap {α β : Type} (l : List α) (g : α → List β) (f : β → K) :
    ((l.flatMap g).map f).sum = (l.map fun a => ((g a).map f).sum).sum := by
  induction l with
  | nil => simp
  | cons a t ih => simp [List.flatMap_cons, ih]

theorem pyRange_two_succ (a b : Nat) (ha : a < 2) :
    pyRange a (b + 1) 2 = if b % 2 = a then pyRange a b 2 ++ [b] else pyRange a b 2 := by
  unfold pyRange
  split
  · rename_i h
    have h1 : (b + 1 + 2 - 1 - a) / 2 = (b + 2 - 1 - a) / 2 + 1 := by omega
    have h2 : a + 2 * ((b + 2 - 1 - a) / 2) = b := by omega
    rw [h1, List.range_succ, List.map_append]
    simp only [List.map_cons, List.map_nil, h2]
  · rename_i h
    have h1 : (b + 1 + 2 - 1 - a) / 2 = (b + 2 - 1 - a) / 2 := by omega
    rw [h1]

theorem pyRange_sum (a b : Nat) (ha : a < 2) (g : Nat → K) :
    ((pyRange a b 2).map g).sum = ∑ j ∈ range b, if j % 2 = a then g j else 0 := by
  induction b with
  | zero =>
    have : (0 + 2 - 1 - a) / 2 = 0 := by omega
    simp [pyRange, this]
  | succ b ih =>
    rw [pyRange_two_succ a b ha, Finset.sum_range_succ, ← ih]
    split <;> simp

/-- the Gaussian moment the code's `integ` stands for: `(m-1)‼ / two_at^(m/2)` for even `m`, `0` for odd `m` -/
def mom (t : K) (m : Nat) : K := if m % 2 = 0 then ((facts m : Nat) : K) / t ^ (m / 2) else 0

/-- the double loop with its parity skip is the full double sum against the Gaussian moments -/
theorem kernel_eq_full (n1 n2 : Nat) (x1 x2 t : K) :
    kernel n1 n2 x1 x2 t =
      ∑ i ∈ range (n1 + 1), ∑ j ∈ range (n2 + 1),
        ((Nat.choose n1 i : Nat) : K) * x1 ^ (n1 - i) * (((Nat.choose n2 j : Nat) : K) * x2 ^ (n2 - j)) * mom t (i + j) := by
  unfold kernel kernIdx
  rw [sumL_eq_sum, sum_flatMap, list_range_sum]
  apply Finset.sum_congr rfl
  intro i _
  rw [List.map_map, pyRange_sum _ _ (Nat.mod_lt _ (by norm_num))]
  apply Finset.sum_congr rfl
  intro j _
  by_cases h : j % 2 = i % 2
  · have hm : (i + j) % 2 = 0 := by omega
    simp only [h, if_true, term, mom, hm, choose_eq, Function.comp]
    ring
  · have hm : ¬ (i + j) % 2 = 0 := by omega
    simp [h, mom, hm]


/-! ### the kernel as a linear functional on polynomials -/
open Polynomial

/-- the linear functional `X^m ↦ mom t m` (expectation under a centred Gaussian of variance `1/t`) -/
noncomputable def gaussL (t : K) : K[X] →ₗ[K] K := (basisMonomials K).constr K (mom t)

theorem gaussL_X_pow (t : K) (m : Nat) : gaussL t (X ^ m) = mom t m := by
  rw [← monomial_one_right_eq_X_pow]
  have := (basisMonomials K).constr_basis K (mom t) m
  simpa [coe_basisMonomials, gaussL] using this

theorem gaussL_C_mul_X_pow (t a : K) (m : Nat) : gaussL t (C a * X ^ m) = a * mom t m := by
  rw [C_mul', map_smul, gaussL_X_pow, smul_eq_mul]

theorem kernel_eq_gaussL (n1 n2 : Nat) (x1 x2 t : K) :
    kernel n1 n2 x1 x2 t = gaussL t ((X + C x1) ^ n1 * (X + C x2) ^ n2) := by
  rw [kernel_eq_full, add_pow, add_pow, Finset.sum_mul_sum, map_sum]
  apply Finset.sum_congr rfl
  intro i _
  rw [map_sum]
  apply Finset.sum_congr rfl
  intro j _
  have : X ^ i * C x1 ^ (n1 - i) * ((n1.choose i : ℕ) : K[X]) * (X ^ j * C x2 ^ (n2 - j) * ((n2.choose j : ℕ) : K[X]))
      = C (((n1.choose i : ℕ) : K) * x1 ^ (n1 - i) * (((n2.choose j : ℕ) : K) * x2 ^ (n2 - j))) * X ^ (i + j) := by
    simp only [map_mul, map_pow, map_natCast, pow_add]
    ring
  rw [this, gaussL_C_mul_X_pow]

theorem mom_zero (t : K) : mom t 0 = 1 := by simp [mom, facts]
theorem mom_one (t : K) : mom t 1 = 0 := by simp [mom]

theorem mom_add_two (t : K) (m : Nat) : mom t (m + 2) = ((m + 1 : ℕ) : K) / t * mom t m := by
  unfold mom
  have h2 : (m + 2) / 2 = m / 2 + 1 := by omega
  by_cases h : m % 2 = 0
  · have h' : (m + 2) % 2 = 0 := by omega
    have hf : facts (m + 2) = (m + 1) * facts m := by
      cases m with
      | zero => rfl
      | succ k => simp [facts, fact2]
    simp only [h, h', if_true, h2, hf, pow_succ, Nat.cast_mul]
    rw [div_mul_div_comm]
    ring
  · have h' : ¬ (m + 2) % 2 = 0 := by omega
    simp [h]

/-- Gaussian integration by parts (Stein's identity) for the functional -/
theorem gaussL_X_mul (t : K) (p : K[X]) : gaussL t (X * p) = 1 / t * gaussL t (derivative p) := by
  induction p using Polynomial.induction_on' with
  | add p q hp hq => simp only [mul_add, map_add, hp, hq]
  | monomial n a =>
    rw [← C_mul_X_pow_eq_monomial]
    have h1 : X * (C a * X ^ n) = C a * X ^ (n + 1) := by ring
    rw [h1, gaussL_C_mul_X_pow, derivative_C_mul, derivative_X_pow]
    have h2 : C a * (C (n : K) * X ^ (n - 1)) = C (a * (n : K)) * X ^ (n - 1) := by
      rw [map_mul]; ring
    rw [h2, gaussL_C_mul_X_pow]
    cases n with
    | zero => simp [mom_one]
    | succ k =>
      cases k with
      | zero => simp [mom_add_two, mom_zero, mul_comm]
      | succ j =>
        have : j + 1 + 1 + 1 = (j + 1) + 2 := by omega
        rw [this, mom_add_two]
        simp only [Nat.add_sub_cancel]
        push_cast
        ring

theorem list_sum_comm {α β : Type} (l1 : List α) (l2 : List β) (f : α → β → K) :
    (l1.map fun a => (l2.map fun b => f a b).sum).sum = (l2.map fun b => (l1.map fun a => f a b).sum).sum := by
  induction l1 with
  | nil => simp
  | cons a t ih =>
    simp only [List.map_cons, List.sum_cons, ih]
    rw [← List.sum_map_add]

theorem sum_filterMap {α β : Type} (l : List α) (g : α → Option β) (f : β → K) :
    ((l.filterMap g).map f).sum = (l.map fun a => match g a with | some b => f b | none => 0).sum := by
  induction l with
  | nil => simp
  | cons a t ih =>
    simp only [List.filterMap_cons, List.map_cons, List.sum_cons]
    cases h : g a <;> simp [ih]

theorem finish_ok (p0r p1r : Except Iodata.Conv.Err (List (Nat × Int))) (raw : Nat → Nat → K) (M : List (List K))
    (h : finish p0r p1r raw = .ok M) : ∃ p0 p1, p0r = .ok p0 ∧ p1r = .ok p1 ∧ M = applyConv p0 p1 raw sgnMul := by
  unfold finish at h
  cases p0r with
  | error e => simp at h
  | ok p0 =>
    cases p1r with
    | error e => simp at h
    | ok p1 => simp at h; exact ⟨p0, p1, rfl, rfl, h.symm⟩

end
end Iodata.Overlap
