/- Helper lemmas for C13 (core Lean only). -/
import Iodata.Model.Traj
namespace Iodata.Traj

/-! ### LineIterator: the (file handle, stack, lineno) object refines the (pending, lineno) view -/

theorem abs_back (l : Line) (r : LitRaw) :
    (LitRaw.back l r).abs = ⟨l :: r.abs.pending, r.abs.lineno - 1⟩ := by
  simp [LitRaw.back, LitRaw.abs]

theorem abs_next (r : LitRaw) :
    (match r.next with
     | (some l, r') => next r.abs = .ok l r'.abs
     | (none, r') => next r.abs = .raise .stop r'.abs) := by
  unfold LitRaw.next
  cases hs : r.stack with
  | cons l st => simp [LitRaw.abs, next, hs]
  | nil =>
    cases hf : r.fh with
    | cons l t => simp [LitRaw.abs, next, hs, hf]
    | nil => simp [LitRaw.abs, next, hs, hf]

/-! ### monad plumbing -/

@[simp] theorem bind_apply (m : M α) (f : α → M β) (s : Lit) :
    (m >>= f) s = (match m s with | .ok a s' => f a s' | .raise e s' => .raise e s') := rfl
@[simp] theorem pure_apply (a : α) (s : Lit) : (pure a : M α) s = .ok a s := rfl
@[simp] theorem next_cons (l : Line) (t : List Line) (ln : Int) : next ⟨l :: t, ln⟩ = .ok l ⟨t, ln + 1⟩ := rfl
@[simp] theorem next_nil (ln : Int) : next ⟨[], ln⟩ = .raise .stop ⟨[], ln + 1⟩ := rfl
@[simp] theorem back_apply (l : Line) (s : Lit) : back l s = .ok () ⟨l :: s.pending, s.lineno - 1⟩ := rfl
@[simp] theorem throw_apply (e : Exc) (s : Lit) : (throw e : M α) s = .raise e s := rfl

/-- a block of `n` well-formed payload lines is consumed exactly -/
theorem readN_map (pa : Line → Option α) (fa : α → Line) (h : ∀ a, pa (fa a) = some a) :
    ∀ (as : List α) (rest : List Line) (ln : Int),
      ∃ ln', readN pa as.length ⟨as.map fa ++ rest, ln⟩ = .ok as ⟨rest, ln'⟩
  | [], rest, ln => ⟨ln, by simp [readN]⟩
  | a :: as, rest, ln => by
    obtain ⟨ln', ih⟩ := readN_map pa fa h as rest (ln + 1)
    exact ⟨ln', by simp [readN, h, ih]⟩

/-- fewer well-formed payload lines than announced, then end of file: StopIteration -/
theorem readN_short (pa : Line → Option α) (fa : α → Line) (h : ∀ a, pa (fa a) = some a) :
    ∀ (as : List α) (n : Nat) (ln : Int), as.length < n →
      ∃ ln', readN pa n ⟨as.map fa, ln⟩ = (.raise .stop ⟨[], ln'⟩ : Res (List α))
  | [], n + 1, ln, _ => ⟨ln + 1, by simp [readN]⟩
  | a :: as, n + 1, ln, hl => by
    obtain ⟨ln', ih⟩ := readN_short pa fa h as n (ln + 1) (by simpa using hl)
    exact ⟨ln', by simp [readN, h, ih]⟩

/-! ### files made of well-formed blocks followed by an arbitrary tail -/

/-- If every block `dump g` is accepted by the loop's peek and consumed exactly by `load_one` (yielding `norm g`),
    then on `blocks ++ tail` the loop yields the blocks' frames and continues on `tail` (whatever that does). -/
theorem runLoop_blocks {F G : Type} (sk : LoopSkel) (loadOne : M F) (dump : G → List Line) (norm : G → F)
    (D : G → Prop) (hne : ∀ g, dump g ≠ [])
    (hstep : ∀ g, D g → ∀ rest ln first, ∃ s' ln',
      runPeek sk.peek first ⟨dump g ++ rest, ln⟩ = .go s' ∧ loadOne s' = .ok (norm g) ⟨rest, ln'⟩)
    (tail : List Line) (P : List F × GenFinal → Prop)
    (htail : ∀ fuel ln, fuel ≥ tail.length + 1 → P (runLoop sk loadOne fuel false ⟨tail, ln⟩)) :
    ∀ (gs : List G) (fuel : Nat) (ln : Int) (first : Bool), (∀ g ∈ gs, D g) → gs ≠ [] ∨ first = false →
      fuel ≥ (gs.flatMap dump ++ tail).length + 1 →
      ∃ r, P r ∧ runLoop sk loadOne fuel first ⟨gs.flatMap dump ++ tail, ln⟩ = (gs.map norm ++ r.1, r.2) := by
  intro gs
  induction gs with
  | nil =>
    intro fuel ln first _ h hf
    have hfirst : first = false := by cases h with | inl h => exact absurd rfl h | inr h => exact h
    subst hfirst
    exact ⟨_, htail fuel ln (by simpa using hf), by simp⟩
  | cons g gs ih =>
    intro fuel ln first hD _ hf
    obtain ⟨s', ln', hp, hl⟩ := hstep g (hD g (by simp)) (gs.flatMap dump ++ tail) ln first
    have hlen : (dump g).length ≥ 1 := by
      cases hd : dump g with
      | nil => exact absurd hd (hne g)
      | cons _ _ => simp
    cases fuel with
    | zero => simp at hf
    | succ fuel =>
      have hf' : fuel ≥ (gs.flatMap dump ++ tail).length + 1 := by
        simp only [List.flatMap_cons, List.append_assoc, List.length_append] at hf ⊢
        omega
      obtain ⟨r, hr, he⟩ := ih fuel ln' false (fun x hx => hD x (by simp [hx])) (Or.inr rfl) hf'
      exact ⟨r, hr, by
        simp only [List.flatMap_cons, List.append_assoc, runLoop, hp, hl, he, List.map_cons, List.cons_append]⟩

/-- the same when the tail behaves identically for a first and a later iteration -/
theorem runLoop_blocks_any {F G : Type} (sk : LoopSkel) (loadOne : M F) (dump : G → List Line) (norm : G → F)
    (D : G → Prop) (hne : ∀ g, dump g ≠ [])
    (hstep : ∀ g, D g → ∀ rest ln first, ∃ s' ln',
      runPeek sk.peek first ⟨dump g ++ rest, ln⟩ = .go s' ∧ loadOne s' = .ok (norm g) ⟨rest, ln'⟩)
    (tail : List Line) (P : List F × GenFinal → Prop)
    (htail : ∀ fuel ln first, fuel ≥ tail.length + 1 → P (runLoop sk loadOne fuel first ⟨tail, ln⟩)) :
    ∀ (gs : List G) (fuel : Nat) (ln : Int) (first : Bool), (∀ g ∈ gs, D g) →
      fuel ≥ (gs.flatMap dump ++ tail).length + 1 →
      ∃ r, P r ∧ runLoop sk loadOne fuel first ⟨gs.flatMap dump ++ tail, ln⟩ = (gs.map norm ++ r.1, r.2) := by
  intro gs
  induction gs with
  | nil =>
    intro fuel ln first _ hf
    exact ⟨_, htail fuel ln first (by simpa using hf), by simp⟩
  | cons g gs ih =>
    intro fuel ln first hD hf
    obtain ⟨s', ln', hp, hl⟩ := hstep g (hD g (by simp)) (gs.flatMap dump ++ tail) ln first
    have hlen : (dump g).length ≥ 1 := by
      cases hd : dump g with
      | nil => exact absurd hd (hne g)
      | cons _ _ => simp
    cases fuel with
    | zero => simp at hf
    | succ fuel =>
      have hf' : fuel ≥ (gs.flatMap dump ++ tail).length + 1 := by
        simp only [List.flatMap_cons, List.append_assoc, List.length_append] at hf ⊢
        omega
      obtain ⟨r, hr, he⟩ := ih fuel ln' false (fun x hx => hD x (by simp [hx])) hf'
      exact ⟨r, hr, by
        simp only [List.flatMap_cons, List.append_assoc, runLoop, hp, hl, he, List.map_cons, List.cons_append]⟩

/-- the generator yields nothing more and ends with an exception -/
def EndsRaised {F : Type} (r : List F × GenFinal) : Prop := r.1 = [] ∧ ∃ e s, r.2 = .raised e s

theorem endsRaised_of {F : Type} {r : List F × GenFinal} {e : Exc} {s : Lit} (h : r = ([], .raised e s)) :
    EndsRaised r := by
  subst h; exact ⟨rfl, e, s, rfl⟩

theorem loadMany_of_runLoop {F : Type} (sk : LoopSkel) (loadOne : M F) (ls : List Line) (frames : List F)
    (g : GenFinal) (h : runLoop sk loadOne (ls.length + 1) true ⟨ls, 0⟩ = (frames, g)) :
    loadMany sk loadOne ls = ⟨frames, apiFinal g⟩ := by
  simp only [loadMany, Lit.ofLines, h]

/-- the loops whose only clause is `except StopIteration: raise LoadError(...)`: whatever `load_one` raises
    ends the generator with an exception (never a silent return) -/
theorem runLoop_raise {F : Type} (pk : PeekKind) (loadOne : M F) (fuel : Nat) (first : Bool) (s s' s'' : Lit)
    (e : Exc) (hp : runPeek pk first s = .go s') (hl : loadOne s' = .raise e s'') :
    ∃ e', runLoop ⟨pk, [([.stop], .toLoadError)]⟩ loadOne (fuel + 1) first s = ([], .raised e' s'') := by
  cases e <;> simp [runLoop, hp, hl, findHandler]

theorem splitNl_no_nl : ∀ (t : List Char), '\n' ∉ t → splitNl t = [t]
  | [], _ => rfl
  | c :: t, h => by
    have hc : c ≠ '\n' := fun e => h (by simp [e])
    have ht : '\n' ∉ t := fun e => h (by simp [e])
    simp [splitNl, splitNl_no_nl t ht, hc]

theorem titleOr_no_nl (t : List Char) (h : '\n' ∉ t) : '\n' ∉ titleOr t := by
  unfold titleOr
  split
  · decide
  · exact h

theorem skipBlank_go (l : Line) (t : List Line) (ln : Int) (first : Bool) (h : isBlank l = false) :
    runPeek .skipBlank first ⟨l :: t, ln⟩ = .go ⟨l :: t, ln⟩ := by
  simp [runPeek, skipBlankGo, h]

theorem skipBlank_eof : ∀ (t : List Line) (ln : Int), (∀ l ∈ t, isBlank l = true) → skipBlankGo t ln = .eof
  | [], _, _ => rfl
  | l :: t, ln, h => by
    simp [skipBlankGo, h l (by simp), skipBlank_eof t (ln + 1) (fun x hx => h x (by simp [hx]))]

/-! ### the `peekPushAll` peek leaves the iterator unchanged when a non-blank line is left -/

theorem collectGo_pushAll : ∀ (pending acc : List Line) (ln : Int), (∃ l ∈ pending, isBlank l = false) →
    ∃ acc' rest ln', collectGo pending acc ln = some (acc', rest, ln') ∧
      pushAll acc' ⟨rest, ln'⟩ = pushAll acc ⟨pending, ln⟩
  | [], _, _, h => by obtain ⟨l, hl, _⟩ := h; simp at hl
  | l :: t, acc, ln, h => by
    by_cases hb : isBlank l = true
    · have h' : ∃ x ∈ t, isBlank x = false := by
        obtain ⟨x, hx, hxb⟩ := h
        simp at hx
        cases hx with
        | inl e => subst e; simp [hb] at hxb
        | inr e => exact ⟨x, e, hxb⟩
      obtain ⟨acc', rest, ln', h1, h2⟩ := collectGo_pushAll t (l :: acc) (ln + 1) h'
      refine ⟨acc', rest, ln', by simp [collectGo, hb, h1], ?_⟩
      rw [h2]
      simp [pushAll]
    · refine ⟨l :: acc, t, ln + 1, by simp [collectGo, hb], ?_⟩
      simp [pushAll]

theorem peekPushAll_go (s : Lit) (first : Bool) (h : ∃ l ∈ s.pending, isBlank l = false) :
    runPeek .peekPushAll first s = .go s := by
  obtain ⟨acc', rest, ln', h1, h2⟩ := collectGo_pushAll s.pending [] s.lineno h
  simp [runPeek, h1, h2, pushAll]

theorem collectGo_none : ∀ (pending acc : List Line) (ln : Int), (∀ l ∈ pending, isBlank l = true) →
    collectGo pending acc ln = none
  | [], _, _, _ => rfl
  | l :: t, acc, ln, h => by
    simp [collectGo, h l (by simp), collectGo_none t (l :: acc) (ln + 1) (fun x hx => h x (by simp [hx]))]


/-! ### pdb.load_one's loop over the blocks of a written frame -/

section pdb
variable {α β : Type} (pa : Line → Option α) (fa : α → Line) (pb : Line → Option β) (fb : β → Line)

theorem pdbGo_title (l : Line) (t : List Line) (ln : Int) (acc : PdbFrame α β) (found : Bool) :
    pdbGo pa pb ((ljust 10 pTITLE ++ l) :: t) ln acc found =
      pdbGo pa pb t (ln + 1) { acc with titles := acc.titles ++ [strip l] } found := by
  simp [pdbGo, ljust, pTITLE, startsWith]

theorem pdbGo_compnd (l : Line) (t : List Line) (ln : Int) (acc : PdbFrame α β) (found : Bool) :
    pdbGo pa pb ((ljust 10 pCOMPND ++ l) :: t) ln acc found =
      pdbGo pa pb t (ln + 1) { acc with compnd := acc.compnd ++ [strip l] } found := by
  simp [pdbGo, ljust, pTITLE, pCOMPND, startsWith]

theorem pdbGo_atoms (ha : ∀ a, pa (pATOM ++ [' ', ' '] ++ fa a) = some a) :
    ∀ (as : List α) (t : List Line) (ln : Int) (acc : PdbFrame α β) (found : Bool),
      ∃ ln', pdbGo pa pb (as.map (fun a => pATOM ++ [' ', ' '] ++ fa a) ++ t) ln acc found =
        pdbGo pa pb t ln' { acc with atoms := acc.atoms ++ as } (found || !as.isEmpty)
  | [], t, ln, acc, found => ⟨ln, by simp⟩
  | a :: as, t, ln, acc, found => by
    obtain ⟨ln', ih⟩ := pdbGo_atoms ha as t (ln + 1) { acc with atoms := acc.atoms ++ [a] } true
    refine ⟨ln', ?_⟩
    have h := ha a
    simp only [pATOM, List.cons_append, List.nil_append] at h
    simp [pdbGo, pATOM, pTITLE, pCOMPND, startsWith, h]
    simpa [pATOM] using ih

theorem pdbGo_conects (hb : ∀ b, pb (pCONECT ++ fb b) = some b) :
    ∀ (bs : List β) (t : List Line) (ln : Int) (acc : PdbFrame α β) (found : Bool),
      ∃ ln', pdbGo pa pb (bs.map (fun b => pCONECT ++ fb b) ++ t) ln acc found =
        pdbGo pa pb t ln' { acc with conects := acc.conects ++ bs } found
  | [], t, ln, acc, found => ⟨ln, by simp⟩
  | b :: bs, t, ln, acc, found => by
    obtain ⟨ln', ih⟩ := pdbGo_conects hb bs t (ln + 1) { acc with conects := acc.conects ++ [b] } found
    refine ⟨ln', ?_⟩
    have h := hb b
    simp only [pCONECT, List.cons_append, List.nil_append] at h
    simp [pdbGo, pATOM, pHETATM, pCONECT, pTITLE, pCOMPND, startsWith, h]
    simpa [pCONECT] using ih


end pdb

end Iodata.Traj
