/- Helper lemmas for C13 (core Lean only). -/
import Iodata.Model.Traj
namespace Iodata.Traj

/-! ### LineIterator: the (file handle, stack, lineno) object refines the (pending, lineno) view -/

theorem abs_back (l : Line) (r : LitRaw) :
    (LitRaw.back l r).abs = ⟨l :: r.abs.pending, r.abs.lineno - 1⟩ := by
  simp [LitRaw.back, LitRaw.abs]

theorem abs_next (r : LitRaw) :
    (match r.next with
     | (some l, r') => next r.abs = .ok l r'.abs
     | (none, r') => next r.abs = .raise .stop r'.abs) := by
  unfold LitRaw.next
  cases hs : r.stack with
  | cons l st => simp [LitRaw.abs, next, hs]
  | nil =>
    cases hf : r.fh with
    | cons l t => simp [LitRaw.abs, next, hs, hf]
    | nil => simp [LitRaw.abs, next, hs, hf]

/-! ### monad plumbing -/

@[simp] theorem bind_apply (m : M α) (f : α → M β) (s : Lit) :
    (m >>= f) s = (match m s with | .ok a s' => f a s' | .raise e s' => .raise e s') := rfl
@[simp] theorem pure_apply (a : α) (s : Lit) : (pure a : M α) s = .ok a s := rfl
@[simp] theorem next_cons (l : Line) (t : List Line) (ln : Int) : next ⟨l :: t, ln⟩ = .ok l ⟨t, ln + 1⟩ := rfl
@[simp] theorem next_nil (ln : Int) : next ⟨[], ln⟩ = .raise .stop ⟨[], ln + 1⟩ := rfl
@[simp] theorem back_apply (l : Line) (s : Lit) : back l s = .ok () ⟨l :: s.pending, s.lineno - 1⟩ := rfl
@[simp] theorem throw_apply (e : Exc) (s : Lit) : (throw e : M α) s = .raise e s := rfl

/-- a block of `n` well-formed payload lines is consumed exactly -/
theorem readN_map (pa : Line → Option α) (fa : α → Line) (h : ∀ a, pa (fa a) = some a) :
    ∀ (as : List α) (rest : List Line) (ln : Int),
      ∃ ln', readN pa as.length ⟨as.map fa ++ rest, ln⟩ = .ok as ⟨rest, ln'⟩
  | [], rest, ln => ⟨ln, by simp [readN]⟩
  | a :: as, rest, ln => by
    obtain ⟨ln', ih⟩ := readN_map pa fa h as rest (ln + 1)
    exact ⟨ln', by simp [readN, h, ih]⟩

/-- fewer well-formed payload lines than announced, then end of file: StopIteration -/
theorem readN_short (pa : Line → Option α) (fa : α → Line) (h : ∀ a, pa (fa a) = some a) :
    ∀ (as : List α) (n : Nat) (ln : Int), as.length < n →
      ∃ ln', readN pa n ⟨as.map fa, ln⟩ = (.raise .stop ⟨[], ln'⟩ : Res (List α))
  | [], n + 1, ln, _ => ⟨ln + 1, by simp [readN]⟩
  | a :: as, n + 1, ln, hl => by
    obtain ⟨ln', ih⟩ := readN_short pa fa h as n (ln + 1) (by simpa using hl)
    exact ⟨ln', by simp [readN, h, ih]⟩

/-! ### files made of well-formed blocks followed by an arbitrary tail -/

/-- If every block `dump g` is accepted by the loop's peek and consumed exactly by `load_one` (yielding `norm g`),
    then on `blocks ++ tail` the loop yields the blocks' frames and continues on `tail` (whatever that does). -/
theorem runLoop_blocks {F G : Type} (sk : LoopSkel) (loadOne : M F) (dump : G → List Line) (norm : G → F)
    (D : G → Prop) (hne : ∀ g, dump g ≠ [])
    (hstep : ∀ g, D g → ∀ rest ln first, ∃ s' ln',
      runPeek sk.peek first ⟨dump g ++ rest, ln⟩ = .go s' ∧ loadOne s' = .ok (norm g) ⟨rest, ln'⟩)
    (tail : List Line) (P : List F × GenFinal → Prop)
    (htail : ∀ fuel ln, fuel ≥ tail.length + 1 → P (runLoop sk loadOne fuel false ⟨tail, ln⟩)) :
    ∀ (gs : List G) (fuel : Nat) (ln : Int) (first : Bool), (∀ g ∈ gs, D g) → gs ≠ [] ∨ first = false →
      fuel ≥ (gs.flatMap dump ++ tail).length + 1 →
      ∃ r, P r ∧ runLoop sk loadOne fuel first ⟨gs.flatMap dump ++ tail, ln⟩ = (gs.map norm ++ r.1, r.2) := by
  intro gs
  induction gs with
  | nil =>
    intro fuel ln first _ h hf
    have hfirst : first = false := by cases h with | inl h => exact absurd rfl h | inr h => exact h
    subst hfirst
    exact ⟨_, htail fuel ln (by simpa using hf), by simp⟩
  | cons g gs ih =>
    intro fuel ln first hD _ hf
    obtain ⟨s', ln', hp, hl⟩ := hstep g (hD g (by simp)) (gs.flatMap dump ++ tail) ln first
    have hlen : (dump g).length ≥ 1 := by
      cases hd : dump g with
      | nil => exact absurd hd (hne g)
      | cons _ _ => simp
    cases fuel with
    | zero => simp at hf
    | succ fuel =>
      have hf' : fuel ≥ (gs.flatMap dump ++ tail).length + 1 := by
        simp only [List.flatMap_cons, List.append_assoc, List.length_append] at hf ⊢
        omega
      obtain ⟨r, hr, he⟩ := ih fuel ln' false (fun x hx => hD x (by simp [hx])) (Or.inr rfl) hf'
      exact ⟨r, hr, by
        simp only [List.flatMap_cons, List.append_assoc, runLoop, hp, hl, he, List.map_cons, List.cons_append]⟩

/-- the same when the tail behaves identically for a first and a later iteration -/
theorem runLoop_blocks_any {F G : Type} (sk : LoopSkel) (loadOne : M F) (dump : G → List Line) (norm : G → F)
    (D : G → Prop) (hne : ∀ g, dump g ≠ [])
    (hstep : ∀ g, D g → ∀ rest ln first, ∃ s' ln',
      runPeek sk.peek first ⟨dump g ++ rest, ln⟩ = .go s' ∧ loadOne s' = .ok (norm g) ⟨rest, ln'⟩)
    (tail : List Line) (P : List F × GenFinal → Prop)
    (htail : ∀ fuel ln first, fuel ≥ tail.length + 1 → P (runLoop sk loadOne fuel first ⟨tail, ln⟩)) :
    ∀ (gs : List G) (fuel : Nat) (ln : Int) (first : Bool), (∀ g ∈ gs, D g) →
      fuel ≥ (gs.flatMap dump ++ tail).length + 1 →
      ∃ r, P r ∧ runLoop sk loadOne fuel first ⟨gs.flatMap dump ++ tail, ln⟩ = (gs.map norm ++ r.1, r.2) := by
  intro gs
  induction gs with
  | nil =>
    intro fuel ln first _ hf
    exact ⟨_, htail fuel ln first (by simpa using hf), by simp⟩
  | cons g gs ih =>
    intro fuel ln first hD hf
    obtain ⟨s', ln', hp, hl⟩ := hstep g (hD g (by simp)) (gs.flatMap dump ++ tail) ln first
    have hlen : (dump g).length ≥ 1 := by
      cases hd : dump g with
      | nil => exact absurd hd (hne g)
      | cons _ _ => simp
    cases fuel with
    | zero => simp at hf
    | succ fuel =>
      have hf' : fuel ≥ (gs.flatMap dump ++ tail).length + 1 := by
        simp only [List.flatMap_cons, List.append_assoc, List.length_append] at hf ⊢
        omega
      obtain ⟨r, hr, he⟩ := ih fuel ln' false (fun x hx => hD x (by simp [hx])) hf'
      exact ⟨r, hr, by
        simp only [List.flatMap_cons, List.append_assoc, runLoop, hp, hl, he, List.map_cons, List.cons_append]⟩

/-- the generator yields nothing more and ends with an exception -/
def EndsRaised {F : Type} (r : List F × GenFinal) : Prop := r.1 = [] ∧ ∃ e s, r.2 = .raised e s

theorem endsRaised_of {F : Type} {r : List F × GenFinal} {e : Exc} {s : Lit} (h : r = ([], .raised e s)) :
    EndsRaised r := by
  subst h; exact ⟨rfl, e, s, rfl⟩

theorem loadMany_of_runLoop {F : Type} (sk : LoopSkel) (loadOne : M F) (ls : List Line) (frames : List F)
    (g : GenFinal) (h : runLoop sk loadOne (ls.length + 1) true ⟨ls, 0⟩ = (frames, g)) :
    loadMany sk loadOne ls = ⟨frames, apiFinal g⟩ := by
  simp only [loadMany, Lit.ofLines, h]

/-- the loops whose only clause is `except StopIteration: raise LoadError(...)`: whatever `load_one` raises
    ends the generator with an exception (never a silent return) -/
theorem runLoop_raise {F : Type} (pk : PeekKind) (loadOne : M F) (fuel : Nat) (first : Bool) (s s' s'' : Lit)
    (e : Exc) (hp : runPeek pk first s = .go s') (hl : loadOne s' = .raise e s'') :
    ∃ e', runLoop ⟨pk, [([.stop], .toLoadError)]⟩ loadOne (fuel + 1) first s = ([], .raised e' s'') := by
  cases e <;> simp [runLoop, hp, hl, findHandler]

theorem splitNl_no_nl : ∀ (t : List Char), '\n' ∉ t → splitNl t = [t]
  | [], _ => rfl
  | c :: t, h => by
    have hc : c ≠ '\n' := fun e => h (by simp [e])
    have ht : '\n' ∉ t := fun e => h (by simp [e])
    simp [splitNl, splitNl_no_nl t ht, hc]

theorem titleOr_no_nl (t : List Char) (h : '\n' ∉ t) : '\n' ∉ titleOr t := by
  unfold titleOr
  split
  · decide
  · exact h

theorem skipBlank_go (l : Line) (t : List Line) (ln : Int) (first : Bool) (h : isBlank l = false) :
    runPeek .skipBlank first ⟨l :: t, ln⟩ = .go ⟨l :: t, ln⟩ := by
  simp [runPeek, skipBlankGo, h]

theorem skipBlank_eof : ∀ (t : List Line) (ln : Int), (∀ l ∈ t, isBlank l = true) → skipBlankGo t ln = .eof
  | [], _, _ => rfl
  | l :: t, ln, h => by
    simp [skipBlankGo, h l (by simp), skipBlank_eof t (ln + 1) (fun x hx => h x (by simp [hx]))]

/-! ### the `peekPushAll` peek leaves the iterator unchanged when a non-blank line is left -/

theorem collectGo_pushAll : ∀ (pending acc : List Line) (ln : Int), (∃ l ∈ pending, isBlank l = false) →
    ∃ acc' rest ln', collectGo pending acc ln = some (acc', rest, ln') ∧
      pushAll acc' ⟨rest, ln'⟩ = pushAll acc ⟨pending, ln⟩
  | [], _, _, h => by obtain ⟨l, hl, _⟩ := h; simp at hl
  | l :: t, acc, ln, h => by
    by_cases hb : isBlank l = true
    · have h' : ∃ x ∈ t, isBlank x = false := by
        obtain ⟨x, hx, hxb⟩ := h
        simp at hx
        cases hx with
        | inl e => subst e; simp [hb] at hxb
        | inr e => exact ⟨x, e, hxb⟩
      obtain ⟨acc', rest, ln', h1, h2⟩ := collectGo_pushAll t (l :: acc) (ln + 1) h'
      refine ⟨acc', rest, ln', by simp [collectGo, hb, h1], ?_⟩
      rw [h2]
      simp [pushAll]
    · refine ⟨l :: acc, t, ln + 1, by simp [collectGo, hb], ?_⟩
      simp [pushAll]

theorem peekPushAll_go (s : Lit) (first : Bool) (h : ∃ l ∈ s.pending, isBlank l = false) :
    runPeek .peekPushAll first s = .go s := by
  obtain ⟨acc', rest, ln', h1, h2⟩ := collectGo_pushAll s.pending [] s.lineno h
  simp [runPeek, h1, h2, pushAll]

theorem collectGo_none : ∀ (pending acc : List Line) (ln : Int), (∀ l ∈ pending, isBlank l = true) →
    collectGo pending acc ln = none
  | [], _, _, _ => rfl
  | l :: t, acc, ln, h => by
    simp [collectGo, h l (by simp), collectGo_none t (l :: acc) (ln + 1) (fun x hx => h x (by simp [hx]))]


theorem natDigits_length_le (n k : Nat) (hk : 0 < k) (h : n < 10 ^ k) : (natDigits n).length ≤ k := by
  have := (Nat.length_toDigits_le_iff (b := 10) (n := n) (by omega) hk).mpr h
  simpa [natDigits, toString, Nat.repr] using this

theorem rjust_length (w : Nat) (s : Line) (h : s.length ≤ w) : (rjust w s).length = w := by
  simp [rjust]; omega

theorem strip_space_cons (l : Line) : strip (' ' :: l) = strip l := by
  simp [strip, lstrip, isWs]

/-! ### pdb.load_one's loop over the blocks of a written frame -/

section pdb
variable {α β : Type} (pa : Line → Option α) (fa : α → Line) (pb : Line → Option β) (fb : β → Line)

theorem pdbGo_title (l : Line) (t : List Line) (ln : Int) (acc : PdbFrame α β) (found : Bool) :
    pdbGo pa pb ((ljust 10 pTITLE ++ l) :: t) ln acc found =
      pdbGo pa pb t (ln + 1) { acc with titles := acc.titles ++ [strip l] } found := by
  simp [pdbGo, ljust, pTITLE, startsWith]

theorem pdbGo_compnd (l : Line) (t : List Line) (ln : Int) (acc : PdbFrame α β) (found : Bool) :
    pdbGo pa pb ((ljust 10 pCOMPND ++ l) :: t) ln acc found =
      pdbGo pa pb t (ln + 1) { acc with compnd := acc.compnd ++ [strip l] } found := by
  simp [pdbGo, ljust, pTITLE, pCOMPND, startsWith]

theorem pdbGo_atoms (ha : ∀ a, pa (pATOM ++ [' ', ' '] ++ fa a) = some a) :
    ∀ (as : List α) (t : List Line) (ln : Int) (acc : PdbFrame α β) (found : Bool),
      ∃ ln', pdbGo pa pb (as.map (fun a => pATOM ++ [' ', ' '] ++ fa a) ++ t) ln acc found =
        pdbGo pa pb t ln' { acc with atoms := acc.atoms ++ as } (found || !as.isEmpty)
  | [], t, ln, acc, found => ⟨ln, by simp⟩
  | a :: as, t, ln, acc, found => by
    obtain ⟨ln', ih⟩ := pdbGo_atoms ha as t (ln + 1) { acc with atoms := acc.atoms ++ [a] } true
    refine ⟨ln', ?_⟩
    have h := ha a
    simp only [pATOM, List.cons_append, List.nil_append] at h
    simp [pdbGo, pATOM, pTITLE, pCOMPND, startsWith, h]
    simpa [pATOM] using ih

theorem pdbGo_conects (hb : ∀ b, pb (pCONECT ++ fb b) = some b) :
    ∀ (bs : List β) (t : List Line) (ln : Int) (acc : PdbFrame α β) (found : Bool),
      ∃ ln', pdbGo pa pb (bs.map (fun b => pCONECT ++ fb b) ++ t) ln acc found =
        pdbGo pa pb t ln' { acc with conects := acc.conects ++ bs } found
  | [], t, ln, acc, found => ⟨ln, by simp⟩
  | b :: bs, t, ln, acc, found => by
    obtain ⟨ln', ih⟩ := pdbGo_conects hb bs t (ln + 1) { acc with conects := acc.conects ++ [b] } found
    refine ⟨ln', ?_⟩
    have h := hb b
    simp only [pCONECT, List.cons_append, List.nil_append] at h
    simp [pdbGo, pATOM, pHETATM, pCONECT, pTITLE, pCOMPND, startsWith, h]
    simpa [pCONECT] using ih


/-- continuation record `TITLE` + `str(i+2).rjust(5)` + `' '` + text: the reader's `line[10:].strip()` gives the text -/
theorem pdbGo_title_cont (i : Nat) (hi : i + 2 < 100000) (l : Line) (t : List Line) (ln : Int) (acc : PdbFrame α β)
    (found : Bool) :
    pdbGo pa pb ((pTITLE ++ rjust (10 - pTITLE.length) (natDigits (i + 2)) ++ [' '] ++ l) :: t) ln acc found =
      pdbGo pa pb t (ln + 1) { acc with titles := acc.titles ++ [strip l] } found := by
  have hlen := rjust_length 5 (natDigits (i + 2)) (natDigits_length_le _ 5 (by omega) (by omega))
  obtain ⟨c1, c2, c3, c4, c5, hr⟩ : ∃ c1 c2 c3 c4 c5, rjust 5 (natDigits (i + 2)) = [c1, c2, c3, c4, c5] := by
    match h : rjust 5 (natDigits (i + 2)), hlen with
    | [c1, c2, c3, c4, c5], _ => exact ⟨c1, c2, c3, c4, c5, rfl⟩
  have h5 : 10 - pTITLE.length = 5 := by decide
  rw [h5, hr]
  simp [pdbGo, pTITLE, startsWith, strip_space_cons]

theorem pdbGo_compnd_cont (i : Nat) (hi : i + 2 < 10000) (l : Line) (t : List Line) (ln : Int) (acc : PdbFrame α β)
    (found : Bool) :
    pdbGo pa pb ((pCOMPND ++ rjust (10 - pCOMPND.length) (natDigits (i + 2)) ++ [' '] ++ l) :: t) ln acc found =
      pdbGo pa pb t (ln + 1) { acc with compnd := acc.compnd ++ [strip l] } found := by
  have hlen := rjust_length 4 (natDigits (i + 2)) (natDigits_length_le _ 4 (by omega) (by omega))
  obtain ⟨c1, c2, c3, c4, hr⟩ : ∃ c1 c2 c3 c4, rjust 4 (natDigits (i + 2)) = [c1, c2, c3, c4] := by
    match h : rjust 4 (natDigits (i + 2)), hlen with
    | [c1, c2, c3, c4], _ => exact ⟨c1, c2, c3, c4, rfl⟩
  have h5 : 10 - pCOMPND.length = 4 := by decide
  rw [h5, hr]
  simp [pdbGo, pTITLE, pCOMPND, startsWith, strip_space_cons]

theorem pdbGo_titleAux : ∀ (ls : List Line) (i : Nat), i + ls.length + 1 < 100000 → ∀ (t : List Line) (ln : Int)
    (acc : PdbFrame α β) (found : Bool),
    pdbGo pa pb (pdbMultiAux pTITLE i ls ++ t) ln acc found =
      pdbGo pa pb t (ln + ls.length) { acc with titles := acc.titles ++ ls.map strip } found
  | [], _, _, t, ln, acc, found => by simp [pdbMultiAux]
  | l :: ls, i, h, t, ln, acc, found => by
    have ih := pdbGo_titleAux ls (i + 1) (by simp at h; omega) t (ln + 1)
      { acc with titles := acc.titles ++ [strip l] } found
    simp only [pdbMultiAux, List.cons_append]
    rw [pdbGo_title_cont pa pb i (by simp at h; omega), ih]
    simp only [List.length_cons, List.map_cons, List.append_assoc, List.singleton_append]
    congr 1; push_cast; omega

theorem pdbGo_compndAux : ∀ (ls : List Line) (i : Nat), i + ls.length + 1 < 10000 → ∀ (t : List Line) (ln : Int)
    (acc : PdbFrame α β) (found : Bool),
    pdbGo pa pb (pdbMultiAux pCOMPND i ls ++ t) ln acc found =
      pdbGo pa pb t (ln + ls.length) { acc with compnd := acc.compnd ++ ls.map strip } found
  | [], _, _, t, ln, acc, found => by simp [pdbMultiAux]
  | l :: ls, i, h, t, ln, acc, found => by
    have ih := pdbGo_compndAux ls (i + 1) (by simp at h; omega) t (ln + 1)
      { acc with compnd := acc.compnd ++ [strip l] } found
    simp only [pdbMultiAux, List.cons_append]
    rw [pdbGo_compnd_cont pa pb i (by simp at h; omega), ih]
    simp only [List.length_cons, List.map_cons, List.append_assoc, List.singleton_append]
    congr 1; push_cast; omega

/-- `_dump_multiline_str(f, "TITLE", text)` read back: one title entry per line, stripped -/
theorem pdbGo_multi_title (ls : List Line) (h : ls.length < 99999) (t : List Line) (ln : Int)
    (acc : PdbFrame α β) (found : Bool) :
    pdbGo pa pb (pdbMulti pTITLE ls ++ t) ln acc found =
      pdbGo pa pb t (ln + ls.length) { acc with titles := acc.titles ++ ls.map strip } found := by
  cases ls with
  | nil => simp [pdbMulti]
  | cons l ls =>
    simp only [pdbMulti, List.cons_append]
    rw [pdbGo_title, pdbGo_titleAux pa pb ls 0 (by simp at h; omega)]
    simp only [List.length_cons, List.map_cons, List.append_assoc, List.singleton_append]
    congr 1; push_cast; omega

theorem pdbGo_multi_compnd (ls : List Line) (h : ls.length < 9999) (t : List Line) (ln : Int)
    (acc : PdbFrame α β) (found : Bool) :
    pdbGo pa pb (pdbMulti pCOMPND ls ++ t) ln acc found =
      pdbGo pa pb t (ln + ls.length) { acc with compnd := acc.compnd ++ ls.map strip } found := by
  cases ls with
  | nil => simp [pdbMulti]
  | cons l ls =>
    simp only [pdbMulti, List.cons_append]
    rw [pdbGo_compnd, pdbGo_compndAux pa pb ls 0 (by simp at h; omega)]
    simp only [List.length_cons, List.map_cons, List.append_assoc, List.singleton_append]
    congr 1; push_cast; omega

/-- a line `pdb.load_one` passes over as long as no ATOM/HETATM record of the frame was read: anything but a TITLE,
    COMPND, ATOM, HETATM or CONECT record (MODEL, CRYST1, REMARK, MASTER, blank lines, and also END / ENDMDL, which
    end a frame only after an atom record) -/
def pdbSkip (l : Line) : Bool :=
  !startsWith pTITLE l && !startsWith pCOMPND l && !startsWith pATOM l && !startsWith pHETATM l &&
    !startsWith pCONECT l

def pdbIsAtom (l : Line) : Bool := startsWith pATOM l || startsWith pHETATM l

theorem pdbGo_skips : ∀ (sk : List Line), (∀ l ∈ sk, pdbSkip l = true) → ∀ (t : List Line) (ln : Int)
    (acc : PdbFrame α β), pdbGo pa pb (sk ++ t) ln acc false = pdbGo pa pb t (ln + sk.length) acc false
  | [], _, t, ln, acc => by simp
  | l :: sk, h, t, ln, acc => by
    have hl := h l (by simp)
    simp only [pdbSkip, Bool.and_eq_true, Bool.not_eq_true'] at hl
    obtain ⟨⟨⟨⟨h1, h2⟩, h3⟩, h4⟩, h5⟩ := hl
    have ih := pdbGo_skips sk (fun x hx => h x (by simp [hx])) t (ln + 1) acc
    simp only [List.cons_append, pdbGo, h1, h2, h3, h4, h5, Bool.or_self, Bool.and_false, if_false, ih,
      List.length_cons, Bool.false_eq_true]
    congr 1; push_cast; omega

theorem atom_not_title (l : Line) (h : pdbIsAtom l = true) :
    startsWith pTITLE l = false ∧ startsWith pCOMPND l = false := by
  cases l with
  | nil => simp [pdbIsAtom, startsWith, pATOM, pHETATM] at h
  | cons c t =>
    simp [pdbIsAtom, startsWith, pATOM, pHETATM] at h
    rcases h with ⟨rfl, _⟩ | ⟨rfl, _⟩ <;> simp [startsWith, pTITLE, pCOMPND, List.isPrefixOf]

/-- a sequence of lines without any END record whose ATOM/HETATM and CONECT records all parse: `load_one` reaches
    the end of the file; with an atom record seen it returns the data read so far with `endReached = false` (the
    LoadWarning "END is not found"), without one it raises "Molecule could not be read" -/
theorem pdbGo_no_end : ∀ (ls : List Line),
    (∀ l ∈ ls, startsWith pEND l = false ∧ (pdbIsAtom l = true → (pa l).isSome = true) ∧
      (startsWith pCONECT l = true → (pb l).isSome = true)) →
    ∀ (ln : Int) (acc : PdbFrame α β) (found : Bool),
      ((found || ls.any pdbIsAtom) = true → ∃ g ln', pdbGo pa pb ls ln acc found = .ok g ⟨[], ln'⟩ ∧
        g.endReached = false) ∧
      ((found || ls.any pdbIsAtom) = false → ∃ ln', pdbGo pa pb ls ln acc found = .raise .loadError ⟨[], ln'⟩)
  | [], _, ln, acc, found => by
    cases found <;> simp [pdbGo]
  | l :: t, h, ln, acc, found => by
    obtain ⟨he, hat, hco⟩ := h l (by simp)
    have ht := fun x hx => h x (List.mem_cons_of_mem l hx)
    by_cases hA : pdbIsAtom l = true
    · obtain ⟨h1, h2⟩ := atom_not_title l hA
      obtain ⟨a, hpa⟩ := Option.isSome_iff_exists.mp (hat hA)
      have ih := pdbGo_no_end t ht (ln + 1) { acc with atoms := acc.atoms ++ [a] } true
      have hA' : (startsWith pATOM l || startsWith pHETATM l) = true := hA
      simp only [pdbGo, h1, h2, hA', hpa, if_true, if_false, List.any_cons, hA, Bool.or_true, Bool.true_or,
        Bool.false_eq_true] at ih ⊢
      exact ⟨fun _ => ih.1 trivial, fun h => by simp at h⟩
    · have hA' : (startsWith pATOM l || startsWith pHETATM l) = false := by simpa [pdbIsAtom] using hA
      have hAf : pdbIsAtom l = false := by simpa using hA
      simp only [List.any_cons, hAf, Bool.false_or]
      unfold pdbGo
      split
      · exact pdbGo_no_end t ht _ _ _
      · split
        · exact pdbGo_no_end t ht _ _ _
        · simp only [hA', Bool.false_eq_true, if_false]
          split
          · rename_i hc
            obtain ⟨b, hpb⟩ := Option.isSome_iff_exists.mp (hco hc)
            simp only [hpb]
            exact pdbGo_no_end t ht _ _ _
          · simp only [he, Bool.false_and, Bool.false_eq_true, if_false]
            exact pdbGo_no_end t ht _ _ _


/-- a PDB frame as it appears in a file: lines passed over (`pre`: e.g. END/MASTER of a previous frame, CRYST1,
    REMARK), TITLE and COMPND records with continuation numbers, more passed-over lines (`mid`: e.g. `MODEL n`), the
    ATOM records, the CONECT records and a terminating record that starts with `END` (`END`, `ENDMDL`). -/
structure PdbBlock (α β : Type) where
  pre : List Line
  tls : List Line
  cls : List Line
  mid : List Line
  atoms : List α
  conects : List β
  endTail : Line

def pdbBlockLines (b : PdbBlock α β) : List Line :=
  b.pre ++ (pdbMulti pTITLE b.tls ++ (pdbMulti pCOMPND b.cls ++ (b.mid ++
    (b.atoms.map (fun a => pATOM ++ [' ', ' '] ++ fa a) ++ (b.conects.map (fun c => pCONECT ++ fb c) ++
      [pEND ++ b.endTail])))))

def pdbBlockFrame (b : PdbBlock α β) : PdbFrame α β :=
  ⟨b.tls.map strip, b.cls.map strip, b.atoms, b.conects, true⟩

/-- domain of the frame law: at least one atom record (a frame without one has no record the reader recognises
    as a frame, see `pdb_empty_frame_merged_violated`), fewer than 99 999 title and 9 999 compound lines (beyond
    that the continuation number no longer fits its columns), `pre`/`mid` free of records the reader interprets -/
def PdbBlockOk (b : PdbBlock α β) : Prop :=
  b.atoms ≠ [] ∧ (∀ l ∈ b.pre, pdbSkip l = true) ∧ (∀ l ∈ b.mid, pdbSkip l = true) ∧
    b.tls.length < 99999 ∧ b.cls.length < 9999

/-- the frame `dump_one` writes -/
def pdbBlockOfObj (o : PdbObj α β) : PdbBlock α β :=
  ⟨[], splitNl (titleOr o.title), (match o.compnd with | none => [] | some c => splitNl c), [], o.atoms, o.conects, []⟩

theorem pdbBlockLines_ofObj (o : PdbObj α β) : pdbBlockLines fa fb (pdbBlockOfObj o) = pdbDumpOne fa fb o := by
  obtain ⟨t, c, a, b⟩ := o
  cases c <;> simp [pdbBlockLines, pdbBlockOfObj, pdbDumpOne, pdbMulti]

theorem pdbBlockFrame_ofObj (o : PdbObj α β) : pdbBlockFrame (pdbBlockOfObj o) = pdbNorm o := by
  obtain ⟨t, c, a, b⟩ := o
  cases c <;> simp [pdbBlockFrame, pdbBlockOfObj, pdbNorm]

theorem pdbBlockLines_ne (b : PdbBlock α β) : pdbBlockLines fa fb b ≠ [] := by
  simp [pdbBlockLines]

/-- **prefix-consumption law for PDB frames** -/
theorem pdb_block_law (ha : ∀ a, pa (pATOM ++ [' ', ' '] ++ fa a) = some a)
    (hb : ∀ b, pb (pCONECT ++ fb b) = some b) (b : PdbBlock α β) (hok : PdbBlockOk b) (rest : List Line) (ln : Int) :
    ∃ ln', pdbLoadOne pa pb ⟨pdbBlockLines fa fb b ++ rest, ln⟩ = .ok (pdbBlockFrame b) ⟨rest, ln'⟩ := by
  obtain ⟨pre, tls, cls, mid, atoms, conects, e⟩ := b
  obtain ⟨hat, hpre, hmid, htl, hcl⟩ := hok
  simp only at hat hpre hmid htl hcl
  have hfound : (false || !atoms.isEmpty) = true := by
    cases atoms with
    | nil => exact absurd rfl hat
    | cons _ _ => rfl
  obtain ⟨ln1, h1⟩ := pdbGo_atoms pa fa pb ha atoms
    (conects.map (fun c => pCONECT ++ fb c) ++ ((pEND ++ e) :: rest))
    (ln + pre.length + tls.length + cls.length + mid.length) ⟨[] ++ tls.map strip, [] ++ cls.map strip, [], [], false⟩ false
  obtain ⟨ln2, h2⟩ := pdbGo_conects pa pb fb hb conects ((pEND ++ e) :: rest) ln1
    ⟨[] ++ tls.map strip, [] ++ cls.map strip, [] ++ atoms, [], false⟩ (false || !atoms.isEmpty)
  refine ⟨ln2 + 1, ?_⟩
  have hshape : pdbBlockLines fa fb ⟨pre, tls, cls, mid, atoms, conects, e⟩ ++ rest =
      pre ++ (pdbMulti pTITLE tls ++ (pdbMulti pCOMPND cls ++ (mid ++
        (atoms.map (fun a => pATOM ++ [' ', ' '] ++ fa a) ++ (conects.map (fun c => pCONECT ++ fb c) ++
          ((pEND ++ e) :: rest)))))) := by
    simp [pdbBlockLines]
  simp only [pdbLoadOne, hshape]
  rw [pdbGo_skips pa pb pre hpre, pdbGo_multi_title pa pb tls htl, pdbGo_multi_compnd pa pb cls hcl,
    pdbGo_skips pa pb mid hmid]
  simp only [List.singleton_append] at h1 h2 ⊢
  rw [h1, h2, hfound]
  simp [pdbGo, pEND, pTITLE, pCOMPND, pATOM, pHETATM, pCONECT, startsWith, pdbBlockFrame]

/-- lines without any ATOM/HETATM/CONECT record: "Molecule could not be read" at the end of the file -/
theorem pdbGo_no_atoms : ∀ (t : List Line) (ln : Int) (acc : PdbFrame α β),
    (∀ l ∈ t, startsWith pATOM l = false ∧ startsWith pHETATM l = false ∧ startsWith pCONECT l = false) →
    ∃ ln', pdbGo pa pb t ln acc false = .raise .loadError ⟨[], ln'⟩
  | [], ln, acc, _ => ⟨ln + 1, by simp [pdbGo]⟩
  | l :: t, ln, acc, hl => by
    obtain ⟨h1, h2, h3⟩ := hl l (by simp)
    have ht := fun x hx => hl x (List.mem_cons_of_mem l hx)
    unfold pdbGo
    split
    · exact pdbGo_no_atoms t _ _ ht
    · split
      · exact pdbGo_no_atoms t _ _ ht
      · simp [h1, h2, h3]
        exact pdbGo_no_atoms t _ _ ht

/-- domain of the PDB round trip for written frames -/
def PdbDom (o : PdbObj α β) : Prop :=
  o.atoms ≠ [] ∧ (splitNl (titleOr o.title)).length < 99999 ∧ ∀ c, o.compnd = some c → (splitNl c).length < 9999

theorem pdbBlockOk_ofObj (o : PdbObj α β) (h : PdbDom o) : PdbBlockOk (pdbBlockOfObj o) := by
  obtain ⟨t, c, a, b⟩ := o
  obtain ⟨h1, h2, h3⟩ := h
  refine ⟨h1, by simp [pdbBlockOfObj], by simp [pdbBlockOfObj], h2, ?_⟩
  cases c with
  | none => simp [pdbBlockOfObj]
  | some c => exact h3 c rfl

theorem pdb_flatMap_ofObj (os : List (PdbObj α β)) :
    (os.map pdbBlockOfObj).flatMap (pdbBlockLines fa fb) = os.flatMap (pdbDumpOne fa fb) := by
  induction os with
  | nil => rfl
  | cons o os ih => simp [pdbBlockLines_ofObj, ih]

theorem pdb_map_ofObj (os : List (PdbObj α β)) : (os.map pdbBlockOfObj).map pdbBlockFrame = os.map pdbNorm := by
  induction os with
  | nil => rfl
  | cons o os ih => simp [pdbBlockFrame_ofObj]

theorem pdb_step (ha : ∀ a, pa (pATOM ++ [' ', ' '] ++ fa a) = some a) (hb : ∀ b, pb (pCONECT ++ fb b) = some b)
    (b : PdbBlock α β) (hok : PdbBlockOk b) (rest : List Line) (ln : Int) (first : Bool) :
    ∃ s' ln', runPeek pdbSkel.peek first ⟨pdbBlockLines fa fb b ++ rest, ln⟩ = .go s' ∧
      pdbLoadOne pa pb s' = .ok (pdbBlockFrame b) ⟨rest, ln'⟩ := by
  obtain ⟨ln', hl⟩ := pdb_block_law pa fa pb fb ha hb b hok rest ln
  exact ⟨_, ln', rfl, hl⟩

theorem mem_pdbMultiAux (key l : Line) : ∀ (ls : List Line) (i : Nat), l ∈ pdbMultiAux key i ls → ∃ r, l = key ++ r
  | [], _, h => by simp [pdbMultiAux] at h
  | x :: ls, i, h => by
    simp only [pdbMultiAux, List.mem_cons] at h
    cases h with
    | inl h => exact ⟨rjust (10 - key.length) (natDigits (i + 2)) ++ ([' '] ++ x), by rw [h]; simp only [List.append_assoc]⟩
    | inr h => exact mem_pdbMultiAux key l ls (i + 1) h

theorem mem_pdbMulti (key l : Line) (ls : List Line) (h : l ∈ pdbMulti key ls) : ∃ r, l = key ++ r := by
  cases ls with
  | nil => simp [pdbMulti] at h
  | cons x ls =>
    simp only [pdbMulti, List.mem_cons] at h
    cases h with
    | inl h => exact ⟨List.replicate (10 - key.length) ' ' ++ x, by rw [h]; simp only [ljust, List.append_assoc]⟩
    | inr h => exact mem_pdbMultiAux key l ls 0 h

/-- the TITLE and COMPND records of a written frame -/
def pdbHeader (o : PdbObj α β) : List Line :=
  pdbMulti pTITLE (splitNl (titleOr o.title))
    ++ (match o.compnd with | none => [] | some c => pdbMulti pCOMPND (splitNl c))

theorem pdbDumpOne_split (o : PdbObj α β) :
    pdbDumpOne fa fb o = pdbHeader o ++ ((o.atoms.map (fun a => pATOM ++ [' ', ' '] ++ fa a)
      ++ o.conects.map (fun b => pCONECT ++ fb b)) ++ [pEND]) := by
  obtain ⟨t, c, a, b⟩ := o
  cases c <;> simp [pdbDumpOne, pdbHeader]

theorem pdbHeader_mem (o : PdbObj α β) (l : Line) (h : l ∈ pdbHeader o) :
    (∃ r, l = pTITLE ++ r) ∨ (∃ r, l = pCOMPND ++ r) := by
  obtain ⟨t, c, a, b⟩ := o
  simp only [pdbHeader, List.mem_append] at h
  cases h with
  | inl h => exact Or.inl (mem_pdbMulti _ _ _ h)
  | inr h =>
    cases c with
    | none => simp at h
    | some c => exact Or.inr (mem_pdbMulti _ _ _ h)

/-- a written frame cut inside its TITLE/COMPND records: no atom record of it is in the file -/
theorem pdb_cut_header (o : PdbObj α β) (m : Nat) (hm : m ≤ (pdbHeader o).length) (ln : Int) :
    ∃ ln', pdbLoadOne pa pb ⟨(pdbDumpOne fa fb o).take m, ln⟩ = .raise .loadError ⟨[], ln'⟩ := by
  rw [pdbDumpOne_split, List.take_append_of_le_length hm]
  apply pdbGo_no_atoms
  intro l hl
  rcases pdbHeader_mem o l (List.mem_of_mem_take hl) with ⟨r, rfl⟩ | ⟨r, rfl⟩ <;>
    simp [startsWith, pTITLE, pCOMPND, pATOM, pHETATM, pCONECT, List.isPrefixOf]

/-- a written frame cut after at least one ATOM record and before its END record: `load_one` returns what was
    read with `endReached = false`, i.e. with the LoadWarning "The END is not found" -/
theorem pdb_cut_partial (ha : ∀ a, pa (pATOM ++ [' ', ' '] ++ fa a) = some a)
    (hb : ∀ b, pb (pCONECT ++ fb b) = some b) (o : PdbObj α β) (hat : o.atoms ≠ []) (m : Nat)
    (hlo : (pdbHeader o).length < m) (hm : m < (pdbDumpOne fa fb o).length) (ln : Int) :
    ∃ g ln', pdbLoadOne pa pb ⟨(pdbDumpOne fa fb o).take m, ln⟩ = .ok g ⟨[], ln'⟩ ∧ g.endReached = false := by
  rw [pdbDumpOne_split] at hm ⊢
  rw [← List.append_assoc] at hm ⊢
  rw [List.take_append_of_le_length (by simp at hm ⊢; omega)]
  have hgood : ∀ l ∈ (pdbHeader o ++ (o.atoms.map (fun a => pATOM ++ [' ', ' '] ++ fa a)
      ++ o.conects.map (fun b => pCONECT ++ fb b))).take m,
      startsWith pEND l = false ∧ (pdbIsAtom l = true → (pa l).isSome = true) ∧
        (startsWith pCONECT l = true → (pb l).isSome = true) := by
    intro l hl
    have hl' := List.mem_of_mem_take hl
    simp only [List.mem_append, List.mem_map] at hl'
    rcases hl' with hh | ⟨a, _, rfl⟩ | ⟨b, _, rfl⟩
    · rcases pdbHeader_mem o l hh with ⟨r, rfl⟩ | ⟨r, rfl⟩ <;>
        simp [startsWith, pdbIsAtom, pTITLE, pCOMPND, pATOM, pHETATM, pCONECT, pEND, List.isPrefixOf]
    · refine ⟨by simp [startsWith, pATOM, pEND, List.isPrefixOf], fun _ => by rw [ha]; rfl, fun h => ?_⟩
      simp [startsWith, pATOM, pCONECT, List.isPrefixOf] at h
    · refine ⟨by simp [startsWith, pCONECT, pEND, List.isPrefixOf], fun h => ?_, fun _ => by rw [hb]; rfl⟩
      simp [startsWith, pdbIsAtom, pATOM, pHETATM, pCONECT, List.isPrefixOf] at h
  have hany : ((pdbHeader o ++ (o.atoms.map (fun a => pATOM ++ [' ', ' '] ++ fa a)
      ++ o.conects.map (fun b => pCONECT ++ fb b))).take m).any pdbIsAtom = true := by
    obtain ⟨a0, as, hatoms⟩ : ∃ a0 as, o.atoms = a0 :: as := by
      cases h : o.atoms with
      | nil => exact absurd h hat
      | cons a0 as => exact ⟨a0, as, rfl⟩
    obtain ⟨k, rfl⟩ : ∃ k, m = (pdbHeader o).length + (k + 1) := ⟨m - (pdbHeader o).length - 1, by omega⟩
    rw [List.any_eq_true]
    refine ⟨pATOM ++ [' ', ' '] ++ fa a0, ?_, by simp [pdbIsAtom, startsWith, pATOM, List.isPrefixOf]⟩
    rw [List.take_append, List.take_of_length_le (by omega), hatoms]
    simp
  have := (pdbGo_no_end pa pb _ hgood ln ⟨[], [], [], [], false⟩ false).1 (by rw [hany]; rfl)
  exact this

end pdb

/-! ### mol2.load_one's section loop and mol2.load_many's scan -/

section mol2
variable {α β : Type} (bc : Bool) (pa : Line → Option α) (pb : Line → Option β)


/-- a line that both `mol2.load_many`'s scan and `mol2.load_one`'s section loop pass over -/
def inert (l : Line) : Bool :=
  l.isEmpty || (match words l with | [] => false | w :: _ => w != tMOLECULE && w != tATOM && w != tBOND)

def MolStart (tl : List Line) : Prop := tl = [] ∨ ∃ m t, tl = m :: t ∧ (words m).head? = some tMOLECULE

theorem inert_not_mol (l : Line) (h : inert l = true) : (words l).head? ≠ some tMOLECULE := by
  unfold inert at h
  cases l with
  | nil => simp [words, wordsAux]
  | cons c t =>
    cases hw : words (c :: t) with
    | nil => simp
    | cons w ws => rw [hw] at h; simp at h; simp [h.1]

theorem mol2Go_inert (l : Line) (h : inert l = true) (fuel : Nat) (hdr : Option Mol2Hdr)
    (res : Option (Mol2Frame α β)) (t : List Line) (ln : Int) :
    mol2Go bc pa pb (fuel + 1) hdr res ⟨l :: t, ln⟩ = mol2Go bc pa pb fuel hdr res ⟨t, ln + 1⟩ := by
  rw [mol2Go]
  simp only [next_cons]
  by_cases he : l.isEmpty
  · simp [he]
  · unfold inert at h
    simp [he] at h
    cases hw : words l with
    | nil => simp [hw] at h
    | cons w ws => simp [hw] at h; simp [hw, h, he]

theorem mol2Go_inerts : ∀ (sk : List Line), (∀ l ∈ sk, inert l = true) → ∀ (fuel : Nat) (hdr : Option Mol2Hdr)
    (res : Option (Mol2Frame α β)) (t : List Line) (ln : Int),
    mol2Go bc pa pb (fuel + sk.length) hdr res ⟨sk ++ t, ln⟩ = mol2Go bc pa pb fuel hdr res ⟨t, ln + sk.length⟩
  | [], _, fuel, hdr, res, t, ln => by simp
  | l :: sk, h, fuel, hdr, res, t, ln => by
    have := mol2Go_inerts sk (fun x hx => h x (by simp [hx])) fuel hdr res t (ln + 1)
    simp only [List.length_cons, List.cons_append, ← Nat.add_assoc]
    rw [mol2Go_inert bc pa pb l (h l (by simp)), this]
    congr 2; push_cast; omega

theorem words_tMOLECULE : words tMOLECULE = [tMOLECULE] := by decide
theorem words_tATOM : words tATOM = [tATOM] := by decide
theorem words_tBOND : words tBOND = [tBOND] := by decide

theorem mol2Go_header (fuel : Nat) (hdr : Option Mol2Hdr) (tl cl a b : Line) (r : List Line) (na nb : Int)
    (hw : words cl = a :: b :: r) (hna : pyInt a = some na) (hnb : pyInt b = some nb) (t : List Line) (ln : Int) :
    mol2Go bc pa pb (fuel + 1) hdr (none : Option (Mol2Frame α β)) ⟨tMOLECULE :: tl :: cl :: t, ln⟩ =
      mol2Go bc pa pb fuel (some ⟨strip tl, na, nb⟩) none ⟨t, ln + 1 + 1 + 1⟩ := by
  rw [mol2Go]
  have h0 : tMOLECULE.isEmpty = false := by decide
  simp [words_tMOLECULE, h0, hw, hna, hnb]

theorem mol2Go_atom (fa : α → Line) (ha : ∀ a, pa (fa a) = some a) (fuel : Nat) (h : Mol2Hdr)
    (res : Option (Mol2Frame α β)) (as : List α) (hn : h.natoms = as.length) (t : List Line) (ln : Int) :
    ∃ ln', mol2Go bc pa pb (fuel + 1) (some h) res ⟨tATOM :: (as.map fa ++ t), ln⟩ =
      mol2Go bc pa pb fuel (some h) (some ⟨h.title, as, none⟩) ⟨t, ln'⟩ := by
  obtain ⟨ln', hr⟩ := readN_map pa fa ha as t (ln + 1)
  refine ⟨ln', ?_⟩
  rw [mol2Go]
  have h0 : tATOM.isEmpty = false := by decide
  have h1 : tATOM ≠ tMOLECULE := by decide
  have hneg : ¬ ((as.length : Int) < 0) := by omega
  simp [words_tATOM, h0, h1, hneg, hn, hr]

theorem mol2Go_bond (fb : β → Line) (hb : ∀ b, pb (fb b) = some b) (fuel : Nat) (h : Mol2Hdr)
    (r : Mol2Frame α β) (bs : List β) (hn : h.nbonds = bs.length) (t : List Line) (ln : Int) :
    ∃ ln', mol2Go bc pa pb (fuel + 1) (some h) (some r) ⟨tBOND :: (bs.map fb ++ t), ln⟩ =
      mol2Go bc pa pb fuel (some h) (some { r with bonds := some bs }) ⟨t, ln'⟩ := by
  obtain ⟨ln', hr⟩ := readN_map pb fb hb bs t (ln + 1)
  refine ⟨ln', ?_⟩
  rw [mol2Go]
  have h0 : tBOND.isEmpty = false := by decide
  have h1 : tBOND ≠ tMOLECULE := by decide
  have h2 : tBOND ≠ tATOM := by decide
  have hneg : ¬ ((bs.length : Int) < 0) := by omega
  simp [words_tBOND, h0, h1, h2, hneg, hn, hr]

theorem mol2Go_eof (fuel : Nat) (hdr : Option Mol2Hdr) (res : Option (Mol2Frame α β)) (ln : Int) :
    mol2Go bc pa pb (fuel + 1) hdr res ⟨[], ln⟩ = mol2Finish bc hdr res ⟨[], ln + 1⟩ := by
  rw [mol2Go]; simp

theorem mol2Go_next_mol (fuel : Nat) (hdr : Option Mol2Hdr) (r : Mol2Frame α β) (m : Line) (t : List Line)
    (hm : (words m).head? = some tMOLECULE) (ln : Int) :
    mol2Go bc pa pb (fuel + 1) hdr (some r) ⟨m :: t, ln⟩ = mol2Finish bc hdr (some r) ⟨m :: t, ln + 1 - 1⟩ := by
  rw [mol2Go]
  have h0 : m.isEmpty = false := by
    cases m with
    | nil => simp [words, wordsAux] at hm
    | cons _ _ => rfl
  cases hw : words m with
  | nil => simp [hw] at hm
  | cons w ws =>
    simp [hw] at hm
    simp [h0, hw, hm]

variable (fc : Nat → Nat → Line) (fa : α → Line) (fb : β → Line)

/-- the seven comment lines `dump_one` prints before the MOLECULE record -/
def mol2Pre : List Line := ["# Mol2 file created with Iodata".toList, [], [], [], [], [], []]

/-- what follows the MOLECULE record line in a written frame -/
def mol2Body (f : Mol2Frame α β) : List Line :=
  splitNl (titleOr f.title) ++ [fc f.atoms.length (match f.bonds with | none => 0 | some b => b.length), tATOM]
    ++ f.atoms.map fa ++ (match f.bonds with | none => [] | some b => tBOND :: b.map fb)

theorem mol2DumpOne_eq (f : Mol2Frame α β) :
    mol2DumpOne fc fa fb f = mol2Pre ++ tMOLECULE :: mol2Body fc fa fb f := by
  obtain ⟨t, a, b⟩ := f
  cases b <;> simp [mol2DumpOne, mol2Head, mol2Pre, mol2Body]

theorem mol2Pre_inert : ∀ l ∈ mol2Pre, inert l = true := by decide

/-- the counts line is printed so that its first two words parse back -/
def Mol2CountsOk (fc : Nat → Nat → Line) : Prop :=
  ∀ na nb, ∃ a b r, words (fc na nb) = a :: b :: r ∧ pyInt a = some (na : Int) ∧ pyInt b = some (nb : Int)

theorem mol2Go_after (sk : List Line) (hsk : ∀ l ∈ sk, inert l = true) (tl : List Line) (htl : MolStart tl)
    (fuel : Nat) (hf : fuel ≥ sk.length + 1) (hdr : Option Mol2Hdr) (r : Mol2Frame α β) (ln : Int) :
    ∃ ln', mol2Go bc pa pb fuel hdr (some r) ⟨sk ++ tl, ln⟩ = mol2Finish bc hdr (some r) ⟨tl, ln'⟩ := by
  obtain ⟨k, rfl⟩ : ∃ k, fuel = (k + 1) + sk.length := ⟨fuel - sk.length - 1, by omega⟩
  rw [mol2Go_inerts bc pa pb sk hsk]
  cases htl with
  | inl h => subst h; exact ⟨_, mol2Go_eof bc pa pb k hdr _ _⟩
  | inr h =>
    obtain ⟨m, t, rfl, hm⟩ := h
    exact ⟨_, mol2Go_next_mol bc pa pb k hdr r m t hm _⟩

/-- **what `load_one` does on a written frame**: from its MOLECULE record it reads the frame, passes over the
    comment lines that follow and stops at the end of the file or in front of the next MOLECULE record. -/
theorem mol2Go_frame (hc : Mol2CountsOk fc) (ha : ∀ a, pa (fa a) = some a) (hb : ∀ b, pb (fb b) = some b)
    (f : Mol2Frame α β) (hnl : '\n' ∉ f.title) (sk : List Line) (hsk : ∀ l ∈ sk, inert l = true)
    (tl : List Line) (htl : MolStart tl) (fuel : Nat) (hf : fuel ≥ sk.length + 4) (hdr0 : Option Mol2Hdr) (ln : Int) :
    ∃ ln', mol2Go true pa pb fuel hdr0 none ⟨tMOLECULE :: (mol2Body fc fa fb f ++ (sk ++ tl)), ln⟩ =
      .ok (mol2Norm f) ⟨tl, ln'⟩ := by
  obtain ⟨title, atoms, bonds⟩ := f
  simp only at hnl
  have hT : splitNl (titleOr title) = [titleOr title] := splitNl_no_nl _ (titleOr_no_nl _ hnl)
  cases bonds with
  | none =>
    obtain ⟨a, b, r, hw, hna, hnb⟩ := hc atoms.length 0
    obtain ⟨k, rfl⟩ : ∃ k, fuel = k + 1 + 1 := ⟨fuel - 2, by omega⟩
    obtain ⟨ln1, h1⟩ := mol2Go_atom true pa pb fa ha k ⟨strip (titleOr title), atoms.length, (0 : Nat)⟩ none atoms rfl
      (sk ++ tl) (ln + 1 + 1 + 1)
    obtain ⟨ln2, h2⟩ := mol2Go_after true pa pb sk hsk tl htl k (by omega)
      (some ⟨strip (titleOr title), atoms.length, (0 : Nat)⟩) ⟨strip (titleOr title), atoms, none⟩ ln1
    refine ⟨ln2, ?_⟩
    simp only [mol2Body, hT, List.cons_append, List.nil_append, List.append_nil, List.append_assoc]
    rw [mol2Go_header true pa pb (k + 1) hdr0 _ _ a b r _ _ hw hna hnb, h1, h2]
    simp [mol2Finish, mol2Norm]
  | some bs =>
    obtain ⟨a, b, r, hw, hna, hnb⟩ := hc atoms.length bs.length
    obtain ⟨k, rfl⟩ : ∃ k, fuel = k + 1 + 1 + 1 := ⟨fuel - 3, by omega⟩
    obtain ⟨ln1, h1⟩ := mol2Go_atom true pa pb fa ha (k + 1) ⟨strip (titleOr title), atoms.length, bs.length⟩ none atoms rfl
      (tBOND :: (bs.map fb ++ (sk ++ tl))) (ln + 1 + 1 + 1)
    obtain ⟨ln2, h2⟩ := mol2Go_bond true pa pb fb hb k ⟨strip (titleOr title), atoms.length, bs.length⟩
      ⟨strip (titleOr title), atoms, none⟩ bs rfl (sk ++ tl) ln1
    obtain ⟨ln3, h3⟩ := mol2Go_after true pa pb sk hsk tl htl k (by omega)
      (some ⟨strip (titleOr title), atoms.length, bs.length⟩) ⟨strip (titleOr title), atoms, some bs⟩ ln2
    refine ⟨ln3, ?_⟩
    simp only [mol2Body, hT, List.cons_append, List.nil_append, List.append_assoc]
    rw [mol2Go_header true pa pb (k + 1 + 1) hdr0 _ _ a b r _ _ hw hna hnb, h1, h2, h3]
    simp [mol2Finish, mol2Norm]

theorem mol2Body_length (f : Mol2Frame α β) (hnl : '\n' ∉ f.title) :
    (mol2Body fc fa fb f).length =
      3 + f.atoms.length + (match f.bonds with | none => 0 | some b => 1 + b.length) := by
  have hT : splitNl (titleOr f.title) = [titleOr f.title] := splitNl_no_nl _ (titleOr_no_nl _ hnl)
  cases hb : f.bonds <;> simp [mol2Body, hT, hb] <;> omega

/-- **prefix-consumption law of MOL2**, in the form the format allows -/
theorem mol2_loadOne_frame (hc : Mol2CountsOk fc) (ha : ∀ a, pa (fa a) = some a) (hb : ∀ b, pb (fb b) = some b)
    (f : Mol2Frame α β) (hnl : '\n' ∉ f.title) (sk : List Line) (hsk : ∀ l ∈ sk, inert l = true)
    (tl : List Line) (htl : MolStart tl) (ln : Int) :
    ∃ ln', mol2LoadOne true pa pb ⟨tMOLECULE :: (mol2Body fc fa fb f ++ (sk ++ tl)), ln⟩ =
      .ok (mol2Norm f) ⟨tl, ln'⟩ := by
  unfold mol2LoadOne
  apply mol2Go_frame pa pb fc fa fb hc ha hb f hnl sk hsk tl htl
  simp [mol2Body_length fc fa fb f hnl]
  omega
theorem molStart_mol (t : List Line) : MolStart (tMOLECULE :: t) :=
  Or.inr ⟨tMOLECULE, t, rfl, by rw [words_tMOLECULE]; rfl⟩

theorem scanMolGo_skip (first : Bool) : ∀ (sk : List Line), (∀ l ∈ sk, inert l = true) →
    ∀ (m : Line) (t : List Line) (ln : Int), (words m).head? = some tMOLECULE →
      scanMolGo first (sk ++ m :: t) ln = .go ⟨m :: t, ln + sk.length⟩
  | [], _, m, t, ln, hm => by simp [scanMolGo, hm]
  | l :: sk, h, m, t, ln, hm => by
    have hl := inert_not_mol l (h l (by simp))
    have := scanMolGo_skip first sk (fun x hx => h x (by simp [hx])) m t (ln + 1) hm
    simp only [List.cons_append, scanMolGo, hl, if_false, this, List.length_cons]
    congr 2; push_cast; omega

theorem scanMolGo_eof (first : Bool) : ∀ (sk : List Line), (∀ l ∈ sk, inert l = true) → ∀ (ln : Int),
    scanMolGo first sk ln = if first then .eofErr ⟨[], ln + sk.length + 1⟩ else .eof
  | [], _, ln => by simp [scanMolGo]
  | l :: sk, h, ln => by
    have hl := inert_not_mol l (h l (by simp))
    have := scanMolGo_eof first sk (fun x hx => h x (by simp [hx])) (ln + 1)
    simp only [scanMolGo, hl, if_false, this, List.length_cons]
    cases first <;> simp
    omega

/-- **the induction for MOL2**: the pending lines are comment lines, a MOLECULE record with its frame, further
    complete written frames, comment lines, and a tail that is empty or starts with a MOLECULE record.  The loop
    yields the frames in order and continues on the tail. -/
theorem mol2_runLoop_frames (hc : Mol2CountsOk fc) (ha : ∀ a, pa (fa a) = some a) (hb : ∀ b, pb (fb b) = some b)
    (tsk tl : List Line) (htsk : ∀ l ∈ tsk, inert l = true) (htl : MolStart tl)
    (P : List (Mol2Frame α β) × GenFinal → Prop)
    (htail : ∀ fuel ln, fuel ≥ tl.length + 1 → P (runLoop mol2Skel (mol2LoadOne true pa pb) fuel false ⟨tl, ln⟩)) :
    ∀ (fs : List (Mol2Frame α β)) (f : Mol2Frame α β) (sk : List Line) (fuel : Nat) (ln : Int) (first : Bool),
      (∀ g ∈ f :: fs, '\n' ∉ g.title) → (∀ l ∈ sk, inert l = true) →
      fuel ≥ (fs.flatMap (mol2DumpOne fc fa fb) ++ (tsk ++ tl)).length + 2 →
      ∃ r, P r ∧ runLoop mol2Skel (mol2LoadOne true pa pb) fuel first
          ⟨sk ++ tMOLECULE :: (mol2Body fc fa fb f ++ (fs.flatMap (mol2DumpOne fc fa fb) ++ (tsk ++ tl))), ln⟩ =
        (mol2Norm f :: fs.map mol2Norm ++ r.1, r.2) := by
  intro fs
  induction fs with
  | nil =>
    intro f sk fuel ln first hnl hsk hf
    obtain ⟨ln', hl⟩ := mol2_loadOne_frame pa pb fc fa fb hc ha hb f (hnl f (by simp)) tsk htsk tl htl (ln + sk.length)
    cases fuel with
    | zero => simp at hf
    | succ fuel =>
      refine ⟨_, htail fuel ln' (by simp at hf; omega), ?_⟩
      have hp := scanMolGo_skip first sk hsk tMOLECULE (mol2Body fc fa fb f ++ (tsk ++ tl)) ln
        (by rw [words_tMOLECULE]; rfl)
      simp only [List.flatMap_nil, List.nil_append, runLoop, mol2Skel, runPeek, hp, hl, List.map_nil, List.cons_append]
  | cons g gs ih =>
    intro f sk fuel ln first hnl hsk hf
    have hrest : (g :: gs).flatMap (mol2DumpOne fc fa fb) ++ (tsk ++ tl) =
        mol2Pre ++ (tMOLECULE :: (mol2Body fc fa fb g ++ (gs.flatMap (mol2DumpOne fc fa fb) ++ (tsk ++ tl)))) := by
      simp [mol2DumpOne_eq]
    obtain ⟨ln', hl⟩ := mol2_loadOne_frame pa pb fc fa fb hc ha hb f (hnl f (by simp)) mol2Pre mol2Pre_inert
      _ (molStart_mol (mol2Body fc fa fb g ++ (gs.flatMap (mol2DumpOne fc fa fb) ++ (tsk ++ tl)))) (ln + sk.length)
    cases fuel with
    | zero => simp at hf
    | succ fuel =>
      obtain ⟨r, hr, he⟩ := ih g [] fuel ln' false (fun x hx => hnl x (by simp at hx ⊢; right; exact hx))
        (by simp) (by rw [hrest] at hf; simp at hf ⊢; omega)
      refine ⟨r, hr, ?_⟩
      have hp := scanMolGo_skip first sk hsk tMOLECULE
        (mol2Body fc fa fb f ++ ((g :: gs).flatMap (mol2DumpOne fc fa fb) ++ (tsk ++ tl))) ln
        (by rw [words_tMOLECULE]; rfl)
      rw [hrest] at hp ⊢
      simp only [List.nil_append, mol2Skel] at he
      simp only [runLoop, mol2Skel, runPeek, hp, hl, he, List.map_cons, List.cons_append]
theorem mol2Go_atom_short (ha : ∀ a, pa (fa a) = some a) (fuel' : Nat) (hf : 0 < fuel') (h : Mol2Hdr)
    (res : Option (Mol2Frame α β)) (as : List α) (hn : (as.length : Int) < h.natoms) (ln : Int) :
    ∃ ln', mol2Go bc pa pb fuel' (some h) res ⟨tATOM :: as.map fa, ln⟩ = .raise .stop ⟨[], ln'⟩ := by
  obtain ⟨fuel, rfl⟩ : ∃ k, fuel' = k + 1 := ⟨fuel' - 1, by omega⟩
  obtain ⟨ln', hr⟩ := readN_short pa fa ha as h.natoms.toNat (ln + 1) (by omega)
  refine ⟨ln', ?_⟩
  rw [mol2Go]
  have h0 : tATOM.isEmpty = false := by decide
  have h1 : tATOM ≠ tMOLECULE := by decide
  have hneg : ¬ (h.natoms < 0) := by omega
  simp [words_tATOM, h0, h1, hneg, hr]

theorem mol2Go_bond_short (hb : ∀ b, pb (fb b) = some b) (fuel' : Nat) (hf : 0 < fuel') (h : Mol2Hdr)
    (res : Option (Mol2Frame α β)) (bs : List β) (hn : (bs.length : Int) < h.nbonds) (ln : Int) :
    ∃ ln', mol2Go bc pa pb fuel' (some h) res ⟨tBOND :: bs.map fb, ln⟩ = .raise .stop ⟨[], ln'⟩ := by
  obtain ⟨fuel, rfl⟩ : ∃ k, fuel' = k + 1 := ⟨fuel' - 1, by omega⟩
  obtain ⟨ln', hr⟩ := readN_short pb fb hb bs h.nbonds.toNat (ln + 1) (by omega)
  refine ⟨ln', ?_⟩
  rw [mol2Go]
  have h0 : tBOND.isEmpty = false := by decide
  have h1 : tBOND ≠ tMOLECULE := by decide
  have h2 : tBOND ≠ tATOM := by decide
  have hneg : ¬ (h.nbonds < 0) := by omega
  simp [words_tBOND, h0, h1, h2, hneg, hr]

theorem mol2Go_header' (fuel : Nat) (hf : 0 < fuel) (hdr : Option Mol2Hdr) (tl cl a b : Line) (r : List Line)
    (na nb : Int) (hw : words cl = a :: b :: r) (hna : pyInt a = some na) (hnb : pyInt b = some nb) (t : List Line)
    (ln : Int) :
    mol2Go bc pa pb fuel hdr (none : Option (Mol2Frame α β)) ⟨tMOLECULE :: tl :: cl :: t, ln⟩ =
      mol2Go bc pa pb (fuel - 1) (some ⟨strip tl, na, nb⟩) none ⟨t, ln + 1 + 1 + 1⟩ := by
  obtain ⟨k, rfl⟩ : ∃ k, fuel = k + 1 := ⟨fuel - 1, by omega⟩
  exact mol2Go_header bc pa pb k hdr tl cl a b r na nb hw hna hnb t ln

theorem mol2Go_atom' (ha : ∀ a, pa (fa a) = some a) (fuel : Nat) (hf : 0 < fuel) (h : Mol2Hdr)
    (res : Option (Mol2Frame α β)) (as : List α) (hn : h.natoms = as.length) (t : List Line) (ln : Int) :
    ∃ ln', mol2Go bc pa pb fuel (some h) res ⟨tATOM :: (as.map fa ++ t), ln⟩ =
      mol2Go bc pa pb (fuel - 1) (some h) (some ⟨h.title, as, none⟩) ⟨t, ln'⟩ := by
  obtain ⟨k, rfl⟩ : ∃ k, fuel = k + 1 := ⟨fuel - 1, by omega⟩
  exact mol2Go_atom bc pa pb fa ha k h res as hn t ln

theorem mol2Go_eof' (fuel : Nat) (hf : 0 < fuel) (hdr : Option Mol2Hdr) (res : Option (Mol2Frame α β)) (ln : Int) :
    mol2Go bc pa pb fuel hdr res ⟨[], ln⟩ = mol2Finish bc hdr res ⟨[], ln + 1⟩ := by
  obtain ⟨k, rfl⟩ : ∃ k, fuel = k + 1 := ⟨fuel - 1, by omega⟩
  exact mol2Go_eof bc pa pb k hdr res ln

/-- the lines after the MOLECULE record of a written frame, with the count and the bond section as parameters -/
theorem mol2Body_eq (f : Mol2Frame α β) (hnl : '\n' ∉ f.title) :
    mol2Body fc fa fb f = titleOr f.title ::
      fc f.atoms.length (match f.bonds with | none => 0 | some b => b.length) :: tATOM ::
      (f.atoms.map fa ++ (match f.bonds with | none => [] | some b => tBOND :: b.map fb)) := by
  have hT : splitNl (titleOr f.title) = [titleOr f.title] := splitNl_no_nl _ (titleOr_no_nl _ hnl)
  obtain ⟨t, a, b⟩ := f
  cases b <;> simp_all [mol2Body]

/-- cut inside the header or the atom records -/
theorem mol2_cut_head (ha : ∀ a, pa (fa a) = some a) (T C : Line) (ca cb : Line) (r : List Line) (nb : Int)
    (atoms : List α) (hw : words C = ca :: cb :: r) (hna : pyInt ca = some (atoms.length : Int))
    (hnb : pyInt cb = some nb) (bsec : List Line) (k : Nat) (hk : k < 3 + atoms.length) (ln : Int) :
    ∃ e s, mol2LoadOne true pa pb ⟨tMOLECULE :: (T :: C :: tATOM :: (atoms.map fa ++ bsec)).take k, ln⟩ =
      (.raise e s : Res (Mol2Frame α β)) := by
  have h0 : tMOLECULE.isEmpty = false := by decide
  unfold mol2LoadOne
  rcases k with _ | _ | _ | k
  · exact ⟨.stop, ⟨[], ln + 1 + 1⟩, by simp [mol2Go, words_tMOLECULE, h0]⟩
  · exact ⟨.stop, ⟨[], ln + 1 + 1 + 1⟩, by simp [mol2Go, words_tMOLECULE, h0]⟩
  · refine ⟨.loadError, ⟨[], ln + 1 + 1 + 1 + 1⟩, ?_⟩
    simp only [List.take_succ_cons, List.take_zero, List.length_cons, List.length_nil]
    rw [mol2Go_header' true pa pb _ (by omega) none _ _ ca cb r _ _ hw hna hnb, mol2Go_eof' true pa pb _ (by omega)]
    simp [mol2Finish]
  · have h1 : (atoms.map fa ++ bsec).take k = (atoms.take k).map fa := by
      rw [List.take_append, List.map_take]
      have : k - (atoms.map fa).length = 0 := by simp; omega
      rw [this]; simp
    simp only [List.take_succ_cons, h1, List.length_cons, List.length_map]
    rw [mol2Go_header' true pa pb _ (by omega) none _ _ ca cb r _ _ hw hna hnb]
    obtain ⟨ln', h3⟩ := mol2Go_atom_short true pa pb fa ha ((atoms.take k).length + 1 + 1 + 1 + 1 + 1 - 1) (by omega)
      ⟨strip T, atoms.length, nb⟩ none (atoms.take k) (by simp; omega) (ln + 1 + 1 + 1)
    exact ⟨_, _, h3⟩

/-- cut in front of the bond section's header line or inside the bond records -/
theorem mol2_cut_bonds (ha : ∀ a, pa (fa a) = some a) (hb : ∀ b, pb (fb b) = some b) (T C : Line) (ca cb : Line)
    (r : List Line) (atoms : List α) (bs : List β) (hw : words C = ca :: cb :: r)
    (hna : pyInt ca = some (atoms.length : Int)) (hnb : pyInt cb = some (bs.length : Int)) (i : Nat)
    (hi : i ≤ bs.length) (hne : i = 0 → bs ≠ []) (ln : Int) :
    ∃ e s, mol2LoadOne true pa pb
        ⟨tMOLECULE :: (T :: C :: tATOM :: (atoms.map fa ++ tBOND :: bs.map fb)).take (3 + atoms.length + i), ln⟩ =
      (.raise e s : Res (Mol2Frame α β)) := by
  unfold mol2LoadOne
  have h1 : (T :: C :: tATOM :: (atoms.map fa ++ tBOND :: bs.map fb)).take (3 + atoms.length + i) =
      T :: C :: tATOM :: (atoms.map fa ++ (tBOND :: bs.map fb).take i) := by
    rw [show 3 + atoms.length + i = (atoms.length + i) + 1 + 1 + 1 by omega]
    simp only [List.take_succ_cons]
    rw [List.take_append, List.take_of_length_le (by simp)]
    simp
  rw [h1]
  generalize hfu : (Lit.mk (tMOLECULE :: T :: C :: tATOM :: (atoms.map fa ++ (tBOND :: bs.map fb).take i)) ln).pending.length
    + 1 = L
  have hL : L ≥ 5 := by simp at hfu; omega
  rw [mol2Go_header' true pa pb _ (by omega) none _ _ ca cb r _ _ hw hna hnb]
  obtain ⟨ln1, h3⟩ := mol2Go_atom' true pa pb fa ha (L - 1) (by omega) ⟨strip T, atoms.length, bs.length⟩
    none atoms rfl ((tBOND :: bs.map fb).take i) (ln + 1 + 1 + 1)
  rw [h3]
  rcases i with _ | j
  · refine ⟨.loadError, ⟨[], ln1 + 1⟩, ?_⟩
    have hpos : 0 < bs.length := by
      cases bs with
      | nil => exact absurd rfl (hne rfl)
      | cons _ _ => simp
    rw [List.take_zero, mol2Go_eof' true pa pb _ (by omega)]
    simp [mol2Finish, hpos]
  · rw [List.take_succ_cons, ← List.map_take]
    obtain ⟨ln', h4⟩ := mol2Go_bond_short true pa pb fb hb (L - 1 - 1) (by omega) ⟨strip T, atoms.length, bs.length⟩
      (some ⟨strip T, atoms, none⟩) (bs.take j) (by simp; omega) ln1
    exact ⟨_, _, h4⟩

/-- a proper prefix of a written frame (cut after the MOLECULE record line and `k` further lines) makes `load_one`
    raise — except the one cut that only removes the header line of an EMPTY bond section, which leaves a complete
    written frame without bond section (`mol2Body_cut_empty_bonds`). -/
theorem mol2_cut_raises (hc : Mol2CountsOk fc) (ha : ∀ a, pa (fa a) = some a) (hb : ∀ b, pb (fb b) = some b)
    (f : Mol2Frame α β) (hnl : '\n' ∉ f.title) (k : Nat) (hk : k < (mol2Body fc fa fb f).length)
    (hex : ¬ (f.bonds = some [] ∧ k + 1 = (mol2Body fc fa fb f).length)) (ln : Int) :
    ∃ e s, mol2LoadOne true pa pb ⟨tMOLECULE :: (mol2Body fc fa fb f).take k, ln⟩ = .raise e s := by
  rw [mol2Body_length fc fa fb f hnl] at hk hex
  rw [mol2Body_eq fc fa fb f hnl]
  obtain ⟨title, atoms, bonds⟩ := f
  cases bonds with
  | none =>
    obtain ⟨a, b, r, hw, hna, hnb⟩ := hc atoms.length 0
    exact mol2_cut_head pa pb fa ha _ _ a b r _ atoms hw hna hnb [] k (by simpa using hk) ln
  | some bs =>
    obtain ⟨a, b, r, hw, hna, hnb⟩ := hc atoms.length bs.length
    by_cases hka : k < 3 + atoms.length
    · exact mol2_cut_head pa pb fa ha _ _ a b r _ atoms hw hna hnb _ k hka ln
    · obtain ⟨i, rfl⟩ : ∃ i, k = 3 + atoms.length + i := ⟨k - (3 + atoms.length), by omega⟩
      simp only at hk hex
      exact mol2_cut_bonds pa pb fa fb ha hb _ _ a b r atoms bs hw hna hnb i (by omega)
        (fun h0 e => hex ⟨by rw [e], by subst h0 e; simp⟩) ln

/-- the exceptional cut: removing only the header line of an empty bond section gives the written form of the same
    frame without bond section — a complete file, not a truncated one -/
theorem mol2Body_cut_empty_bonds (f : Mol2Frame α β) (h : f.bonds = some []) :
    (mol2Body fc fa fb f).take ((mol2Body fc fa fb f).length - 1) = mol2Body fc fa fb { f with bonds := none } := by
  obtain ⟨title, atoms, bonds⟩ := f
  simp only at h
  subst h
  simp only [mol2Body, List.map_nil, List.append_nil]
  rw [List.take_append, List.take_of_length_le (by simp)]
  simp

/-- comment lines in front of the tail do not matter to the loop -/
theorem mol2_runLoop_skip (tsk tl : List Line) (htsk : ∀ l ∈ tsk, inert l = true) (htl : MolStart tl)
    (fuel : Nat) (hf : 0 < fuel) (first : Bool) (ln : Int) :
    runLoop mol2Skel (mol2LoadOne true pa pb) fuel first ⟨tsk ++ tl, ln⟩ =
      runLoop mol2Skel (mol2LoadOne true pa pb) fuel first ⟨tl, ln + tsk.length⟩ := by
  obtain ⟨k, rfl⟩ : ∃ k, fuel = k + 1 := ⟨fuel - 1, by omega⟩
  cases htl with
  | inl h =>
    subst h
    have h1 := scanMolGo_eof first tsk htsk ln
    simp only [runLoop, mol2Skel, runPeek, List.append_nil, h1]
    cases first <;> simp [scanMolGo]
  | inr h =>
    obtain ⟨m, t, rfl, hm⟩ := h
    have h1 := scanMolGo_skip first tsk htsk m t ln hm
    simp only [runLoop, mol2Skel, runPeek, h1]
    simp [scanMolGo, hm]

/-- **MOL2, any number of written frames followed by a tail**: the frames are yielded in order and the loop
    continues on the tail (which is empty or starts with a MOLECULE record), in front of which comment lines are
    passed over — by the last frame's `load_one` or, without any frame, by the scan of `load_many`. -/
theorem mol2_runLoop_file (hc : Mol2CountsOk fc) (ha : ∀ a, pa (fa a) = some a) (hb : ∀ b, pb (fb b) = some b)
    (tsk tl : List Line) (htsk : ∀ l ∈ tsk, inert l = true) (htl : MolStart tl)
    (P : List (Mol2Frame α β) × GenFinal → Prop) (fs : List (Mol2Frame α β)) (first : Bool)
    (htail : ∀ fuel ln, fuel ≥ tl.length + 1 →
      P (runLoop mol2Skel (mol2LoadOne true pa pb) fuel (first && fs.isEmpty) ⟨tl, ln⟩))
    (hnl : ∀ g ∈ fs, '\n' ∉ g.title) (fuel : Nat)
    (hf : fuel ≥ (fs.flatMap (mol2DumpOne fc fa fb) ++ (tsk ++ tl)).length + 1) (ln : Int) :
    ∃ r, P r ∧ runLoop mol2Skel (mol2LoadOne true pa pb) fuel first
        ⟨fs.flatMap (mol2DumpOne fc fa fb) ++ (tsk ++ tl), ln⟩ = (fs.map mol2Norm ++ r.1, r.2) := by
  cases fs with
  | nil =>
    refine ⟨_, htail fuel (ln + tsk.length) (by simp at hf; omega), ?_⟩
    simp only [List.flatMap_nil, List.nil_append, List.map_nil, List.isEmpty_nil, Bool.and_true]
    exact mol2_runLoop_skip pa pb tsk tl htsk htl fuel (by omega) first ln
  | cons f fs =>
    have hrest : (f :: fs).flatMap (mol2DumpOne fc fa fb) ++ (tsk ++ tl) =
        mol2Pre ++ (tMOLECULE :: (mol2Body fc fa fb f ++ (fs.flatMap (mol2DumpOne fc fa fb) ++ (tsk ++ tl)))) := by
      simp [mol2DumpOne_eq]
    rw [hrest] at hf ⊢
    simp only [List.isEmpty_cons, Bool.and_false] at htail
    exact mol2_runLoop_frames pa pb fc fa fb hc ha hb tsk tl htsk htl P htail fs f mol2Pre fuel ln first hnl
      mol2Pre_inert (by simp at hf ⊢; omega)
end mol2

/-! ### generic consequences of the block lemma for the loops `except StopIteration: raise LoadError` -/

section generic
variable {F G : Type} (pk : PeekKind) (loadOne : M F) (dump : G → List Line) (norm : G → F) (D : G → Prop)

theorem loadMany_blocks_then_end (hne : ∀ g, dump g ≠ [])
    (hstep : ∀ g, D g → ∀ rest ln first, ∃ s' ln',
      runPeek pk first ⟨dump g ++ rest, ln⟩ = .go s' ∧ loadOne s' = .ok (norm g) ⟨rest, ln'⟩)
    (gs : List G) (hgs : gs ≠ []) (hD : ∀ g ∈ gs, D g) (trail : List Line)
    (hend : ∀ ln, runPeek pk false ⟨trail, ln⟩ = .eof) :
    loadMany ⟨pk, [([.stop], .toLoadError)]⟩ loadOne (gs.flatMap dump ++ trail) = ⟨gs.map norm, .done⟩ := by
  have htail : ∀ fuel ln, fuel ≥ trail.length + 1 →
      runLoop ⟨pk, [([.stop], .toLoadError)]⟩ loadOne fuel false ⟨trail, ln⟩ = (([] : List F), GenFinal.ret) := by
    intro fuel ln hf
    cases fuel with
    | zero => simp at hf
    | succ fuel => simp [runLoop, hend ln]
  obtain ⟨r, hr, he⟩ := runLoop_blocks ⟨pk, [([.stop], .toLoadError)]⟩ loadOne dump norm D hne hstep
    trail (fun r => r = (([] : List F), GenFinal.ret)) htail gs _ 0 true hD (Or.inl hgs) (Nat.le_refl _)
  subst hr
  simpa [apiFinal] using loadMany_of_runLoop _ _ _ _ _ he

theorem loadMany_blocks_then_bad (hne : ∀ g, dump g ≠ [])
    (hstep : ∀ g, D g → ∀ rest ln first, ∃ s' ln',
      runPeek pk first ⟨dump g ++ rest, ln⟩ = .go s' ∧ loadOne s' = .ok (norm g) ⟨rest, ln'⟩)
    (gs : List G) (hD : ∀ g ∈ gs, D g) (bad : List Line)
    (hpeek : ∀ ln first, runPeek pk first ⟨bad, ln⟩ = .go ⟨bad, ln⟩)
    (hbad : ∀ ln, ∃ e s, loadOne ⟨bad, ln⟩ = .raise e s) :
    ∃ ln, loadMany ⟨pk, [([.stop], .toLoadError)]⟩ loadOne (gs.flatMap dump ++ bad) =
      ⟨gs.map norm, .loadError ln⟩ := by
  have htail : ∀ fuel ln first, fuel ≥ bad.length + 1 →
      EndsRaised (runLoop ⟨pk, [([.stop], .toLoadError)]⟩ loadOne fuel first ⟨bad, ln⟩) := by
    intro fuel ln first hfu
    obtain ⟨e, s, hst⟩ := hbad ln
    cases fuel with
    | zero => simp at hfu
    | succ fuel =>
      obtain ⟨e', he'⟩ := runLoop_raise pk loadOne fuel first _ _ _ _ (hpeek ln first) hst
      exact endsRaised_of he'
  obtain ⟨r, ⟨hr1, e, s, hr2⟩, he⟩ := runLoop_blocks_any ⟨pk, [([.stop], .toLoadError)]⟩ loadOne dump norm D hne hstep
    bad EndsRaised htail gs _ 0 true hD (Nat.le_refl _)
  refine ⟨s.lineno, ?_⟩
  have := loadMany_of_runLoop _ _ _ _ _ he
  simpa [hr1, hr2, apiFinal] using this
end generic

/-- `readN` on the complete block, then a short next block -/
theorem readN_take_short {α : Type} (pa : Line → Option α) (fa : α → Line) (h : ∀ a, pa (fa a) = some a)
    (as : List α) (k : Nat) (hk : k < as.length) (ln : Int) :
    ∃ ln', readN pa as.length ⟨(as.map fa).take k, ln⟩ = (.raise .stop ⟨[], ln'⟩ : Res (List α)) := by
  rw [← List.map_take]
  exact readN_short pa fa h (as.take k) as.length ln (by simp; omega)

/-! ### SDF: every cut -/
section sdf
variable {α β : Type} (fc : Nat → Nat → Line) (pa : Line → Option α) (fa : α → Line)
  (pb : Line → Option β) (fb : β → Line)

/-- the counts line is printed so that the reader's column cuts recover both numbers and the V2000 tag -/
def SdfCountsOk (fc : Nat → Nat → Line) : Prop :=
  ∀ na nb, pyInt ((fc na nb).take 3) = some (na : Int) ∧ pyInt (((fc na nb).drop 3).take 3) = some (nb : Int) ∧
    lastWordUpper (fc na nb) = some ['V', '2', '0', '0', '0'] ∧ isBlank (fc na nb) = false

/-- a written SDF record cut after `m` lines, `0 < m < all`: `load_one` raises (StopIteration inside the header,
    the atom or the bond block; LoadError when `$$$$` is missing) -/
theorem sdf_cut_raises (hc : SdfCountsOk fc) (ha : ∀ a, pa (fa a) = some a) (hb : ∀ b, pb (fb b) = some b)
    (f : SdfFrame α β) (hnl : '\n' ∉ f.title) (m : Nat) (hm0 : 0 < m) (hm : m < (sdfDumpOne fc fa fb f).length)
    (ln : Int) : ∃ e s, sdfLoadOne pa pb ⟨(sdfDumpOne fc fa fb f).take m, ln⟩ = .raise e s := by
  obtain ⟨title, atoms, bonds⟩ := f
  simp only at hnl
  obtain ⟨h1, h2, h3, _⟩ := hc atoms.length bonds.length
  have hT : splitNl (titleOr title) = [titleOr title] := splitNl_no_nl _ (titleOr_no_nl _ hnl)
  have hshape : sdfDumpOne fc fa fb ⟨title, atoms, bonds⟩ = titleOr title :: [] :: [] :: fc atoms.length bonds.length ::
      (atoms.map fa ++ (bonds.map fb ++ [['M', ' ', ' ', 'E', 'N', 'D'], sdfEnd])) := by
    simp [sdfDumpOne, hT]
  rw [hshape] at hm ⊢
  have hneg1 : ¬ ((atoms.length : Int) < 0) := by omega
  have hneg2 : ¬ ((bonds.length : Int) < 0) := by omega
  have hme : (['M', ' ', ' ', 'E', 'N', 'D'] : Line) ≠ sdfEnd := by decide
  rcases m with _ | _ | _ | _ | k
  · omega
  · exact ⟨.stop, ⟨[], ln + 1 + 1⟩, by simp [sdfLoadOne]⟩
  · exact ⟨.stop, ⟨[], ln + 1 + 1 + 1⟩, by simp [sdfLoadOne]⟩
  · exact ⟨.stop, ⟨[], ln + 1 + 1 + 1 + 1⟩, by simp [sdfLoadOne]⟩
  · simp only [List.take_succ_cons]
    simp only [List.length_cons, List.length_append, List.length_map, List.length_nil] at hm
    by_cases hka : k < atoms.length
    · -- inside the atom block
      have ht : (atoms.map fa ++ (bonds.map fb ++ [['M', ' ', ' ', 'E', 'N', 'D'], sdfEnd])).take k =
          (atoms.map fa).take k := List.take_append_of_le_length (by simp; omega)
      obtain ⟨ln', hr⟩ := readN_take_short pa fa ha atoms k hka (ln + 1 + 1 + 1 + 1)
      exact ⟨.stop, ⟨[], ln'⟩, by simp [sdfLoadOne, h1, h2, h3, hneg1, ht, hr]⟩
    · have ht : (atoms.map fa ++ (bonds.map fb ++ [['M', ' ', ' ', 'E', 'N', 'D'], sdfEnd])).take k =
          atoms.map fa ++ (bonds.map fb ++ [['M', ' ', ' ', 'E', 'N', 'D'], sdfEnd]).take (k - atoms.length) := by
        rw [List.take_append, List.take_of_length_le (by simp; omega)]; simp
      obtain ⟨i, hi⟩ : ∃ i, k = atoms.length + i := ⟨k - atoms.length, by omega⟩
      subst hi
      rw [ht, show atoms.length + i - atoms.length = i by omega]
      by_cases hib : i < bonds.length
      · have ht2 : (bonds.map fb ++ [['M', ' ', ' ', 'E', 'N', 'D'], sdfEnd]).take i = (bonds.map fb).take i :=
          List.take_append_of_le_length (by simp; omega)
        obtain ⟨ln1, hr1⟩ := readN_map pa fa ha atoms ((bonds.map fb).take i) (ln + 1 + 1 + 1 + 1)
        obtain ⟨ln2, hr2⟩ := readN_take_short pb fb hb bonds i hib ln1
        exact ⟨.stop, ⟨[], ln2⟩, by simp [sdfLoadOne, h1, h2, h3, hneg1, hneg2, ht2, hr1, hr2]⟩
      · obtain ⟨j, hj⟩ : ∃ j, i = bonds.length + j := ⟨i - bonds.length, by omega⟩
        subst hj
        have ht2 : (bonds.map fb ++ [['M', ' ', ' ', 'E', 'N', 'D'], sdfEnd]).take (bonds.length + j) =
            bonds.map fb ++ ([['M', ' ', ' ', 'E', 'N', 'D'], sdfEnd] : List Line).take j := by
          rw [List.take_append, List.take_of_length_le (by simp)]; simp
        have hj2 : j < 2 := by omega
        rcases j with _ | _ | j
        · obtain ⟨ln1, hr1⟩ := readN_map pa fa ha atoms (bonds.map fb ++ []) (ln + 1 + 1 + 1 + 1)
          obtain ⟨ln2, hr2⟩ := readN_map pb fb hb bonds [] ln1
          simp only [List.append_nil] at hr1 hr2
          exact ⟨.loadError, ⟨[], ln2 + 1⟩, by
            simp [sdfLoadOne, h1, h2, h3, hneg1, hneg2, ht2, hr1, hr2, sdfFindEndM, sdfFindEnd]⟩
        · obtain ⟨ln1, hr1⟩ := readN_map pa fa ha atoms (bonds.map fb ++ [['M', ' ', ' ', 'E', 'N', 'D']])
            (ln + 1 + 1 + 1 + 1)
          obtain ⟨ln2, hr2⟩ := readN_map pb fb hb bonds [['M', ' ', ' ', 'E', 'N', 'D']] ln1
          exact ⟨.loadError, ⟨[], ln2 + 1 + 1⟩, by
            simp [sdfLoadOne, h1, h2, h3, hneg1, hneg2, ht2, hr1, hr2, sdfFindEndM, sdfFindEnd, hme]⟩
        · omega
end sdf
/-! ### GRO and extended XYZ: an independent renderer of well-formed frames (the library has no writer) -/

section gro
variable {α : Type} (showNat : Nat → Line) (pt : Line → Bool) (pa : Line → Option α) (pc : Line → Bool)
  (fa : α → Line) (box : Line)

/-- what a load gives: the title is cut at the first comma when it carries a time stamp `t=` -/
def groNorm (f : XyzFrame α) : XyzFrame α := { f with title := groTitle f.title }

theorem gro_render_ne (f : XyzFrame α) : groRender showNat fa box f ≠ [] := by simp [groRender]

theorem gro_loadOne_render (hs : ∀ n, pyInt (showNat n) = some (n : Int)) (ha : ∀ a, pa (fa a) = some a)
    (hbox : pc box = true) (f : XyzFrame α) (hpt : pt f.title = true) (rest : List Line) (ln : Int) :
    ∃ ln', groLoadOne pt pa pc ⟨groRender showNat fa box f ++ rest, ln⟩ = .ok (groNorm f) ⟨rest, ln'⟩ := by
  obtain ⟨ln', hr⟩ := readN_map pa fa ha f.atoms (box :: rest) (ln + 1 + 1)
  have hneg : ¬ ((f.atoms.length : Int) < 0) := by omega
  exact ⟨ln' + 1, by simp [groRender, groLoadOne, hpt, hs, hneg, hr, hbox, groNorm]⟩

theorem gro_step (hs : ∀ n, pyInt (showNat n) = some (n : Int)) (hb : ∀ n, isBlank (showNat n) = false)
    (ha : ∀ a, pa (fa a) = some a) (hbox : pc box = true) (f : XyzFrame α) (hpt : pt f.title = true)
    (rest : List Line) (ln : Int) (first : Bool) :
    ∃ s' ln', runPeek .peekPushAll first ⟨groRender showNat fa box f ++ rest, ln⟩ = .go s' ∧
      groLoadOne pt pa pc s' = .ok (groNorm f) ⟨rest, ln'⟩ := by
  obtain ⟨ln', hl⟩ := gro_loadOne_render showNat pt pa pc fa box hs ha hbox f hpt rest ln
  refine ⟨_, ln', peekPushAll_go _ first ⟨showNat f.atoms.length, ?_, hb _⟩, hl⟩
  simp [groRender]

/-- a rendered GRO frame cut after `m` lines, `0 < m < all`: StopIteration in `load_one` -/
theorem gro_cut_stops (hs : ∀ n, pyInt (showNat n) = some (n : Int)) (ha : ∀ a, pa (fa a) = some a)
    (f : XyzFrame α) (hpt : pt f.title = true) (m : Nat) (hm0 : 0 < m)
    (hm : m < (groRender showNat fa box f).length) (ln : Int) :
    ∃ s, groLoadOne pt pa pc ⟨(groRender showNat fa box f).take m, ln⟩ = .raise .stop s := by
  have hneg : ¬ ((f.atoms.length : Int) < 0) := by omega
  simp only [groRender, List.length_cons, List.length_append, List.length_map, List.length_nil] at hm
  rcases m with _ | _ | k
  · omega
  · exact ⟨⟨[], ln + 1 + 1⟩, by simp [groRender, groLoadOne, hpt]⟩
  · simp only [groRender, List.take_succ_cons]
    by_cases hk : k < f.atoms.length
    · have ht : (f.atoms.map fa ++ [box]).take k = (f.atoms.map fa).take k :=
        List.take_append_of_le_length (by simp; omega)
      obtain ⟨ln', hr⟩ := readN_take_short pa fa ha f.atoms k hk (ln + 1 + 1)
      exact ⟨⟨[], ln'⟩, by simp [groLoadOne, hpt, hs, hneg, ht, hr]⟩
    · have hk' : k = f.atoms.length := by omega
      have ht : (f.atoms.map fa ++ [box]).take k = f.atoms.map fa := by
        rw [List.take_append, List.take_of_length_le (by simp; omega), hk']; simp
      obtain ⟨ln', hr⟩ := readN_map pa fa ha f.atoms [] (ln + 1 + 1)
      simp only [List.append_nil] at hr
      exact ⟨⟨[], ln' + 1⟩, by simp [groLoadOne, hpt, hs, hneg, ht, hr]⟩
end gro

section ext
variable {α : Type} (showNat : Nat → Line) (pt : Line → Bool) (pa : Line → Option α) (fa : α → Line)

/-- an extended-XYZ frame: count, title line (`key=value` pairs, `Properties=...`), atom lines -/
def extRender (f : XyzFrame α) : List Line := showNat f.atoms.length :: f.title :: f.atoms.map fa

def extNorm (f : XyzFrame α) : XyzFrame α := { f with title := strip f.title }

theorem ext_render_ne (f : XyzFrame α) : extRender showNat fa f ≠ [] := by simp [extRender]

theorem ext_loadOne_render (hs : ∀ n, pyInt (showNat n) = some (n : Int)) (ha : ∀ a, pa (fa a) = some a)
    (f : XyzFrame α) (hpt : pt f.title = true) (rest : List Line) (ln : Int) :
    ∃ ln', extLoadOne pt pa ⟨extRender showNat fa f ++ rest, ln⟩ = .ok (extNorm f) ⟨rest, ln'⟩ := by
  obtain ⟨ln', hr⟩ := readN_map pa fa ha f.atoms rest (ln + 1 + 1)
  have hneg : ¬ ((f.atoms.length : Int) < 0) := by omega
  exact ⟨ln', by simp [extRender, extLoadOne, xyzLoadOne, hpt, hs, hneg, hr, extNorm]⟩

theorem ext_step (hs : ∀ n, pyInt (showNat n) = some (n : Int)) (hb : ∀ n, isBlank (showNat n) = false)
    (ha : ∀ a, pa (fa a) = some a) (f : XyzFrame α) (hpt : pt f.title = true)
    (rest : List Line) (ln : Int) (first : Bool) :
    ∃ s' ln', runPeek .skipBlank first ⟨extRender showNat fa f ++ rest, ln⟩ = .go s' ∧
      extLoadOne pt pa s' = .ok (extNorm f) ⟨rest, ln'⟩ := by
  obtain ⟨ln', hl⟩ := ext_loadOne_render showNat pt pa fa hs ha f hpt rest ln
  exact ⟨_, ln', skipBlank_go _ _ _ _ (hb _), hl⟩

theorem ext_cut_stops (hs : ∀ n, pyInt (showNat n) = some (n : Int)) (ha : ∀ a, pa (fa a) = some a)
    (f : XyzFrame α) (hpt : pt f.title = true) (m : Nat) (hm0 : 0 < m)
    (hm : m < (extRender showNat fa f).length) (ln : Int) :
    ∃ s, extLoadOne pt pa ⟨(extRender showNat fa f).take m, ln⟩ = .raise .stop s := by
  have hneg : ¬ ((f.atoms.length : Int) < 0) := by omega
  simp only [extRender, List.length_cons, List.length_map] at hm
  rcases m with _ | _ | k
  · omega
  · exact ⟨⟨[], ln + 1 + 1⟩, by simp [extRender, extLoadOne]⟩
  · simp only [extRender, List.take_succ_cons]
    obtain ⟨ln', hr⟩ := readN_take_short pa fa ha f.atoms k (by omega) (ln + 1 + 1)
    exact ⟨⟨[], ln'⟩, by simp [extLoadOne, xyzLoadOne, hpt, hs, hneg, hr]⟩
end ext
end Iodata.Traj
