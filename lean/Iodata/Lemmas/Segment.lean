/- Helper lemmas for C14 (model: `Iodata/Model/Segment.lean`). -/
import Iodata.Model.Segment
import Iodata.Lemmas.Orbitals
set_option linter.unusedSimpArgs false
namespace Iodata.Seg
open Iodata.Orb

/-! ### segmentation -/

theorem flatMap_singleton_map {α β : Type} (f : α → β) (l : List α) : l.flatMap (fun x => [f x]) = l.map f := by
  induction l with
  | nil => rfl
  | cons x t ih => simp [List.flatMap_cons, ih]

theorem map_fst_pair {α : Type} (l : List α) (f : Bool) : l.map (Prod.fst ∘ fun s => (s, f)) = l := by
  induction l with
  | nil => rfl
  | cons x t ih => simp [ih]

theorem contractions_append (a b : Basis) : contractions (a ++ b) = contractions a ++ contractions b := by
  simp [contractions, List.flatMap_append]

theorem contractions_split (sh : GShell) : contractions (splitShell sh) = contractions [sh] := by
  simp only [contractions, splitShell, List.flatMap_map, List.flatMap_cons, List.flatMap_nil, List.append_nil]
  simp only [zip3, List.zip_cons_cons, List.zip_nil_right, List.map_cons, List.map_nil]
  exact flatMap_singleton_map _ _

theorem segment_cons (k : Bool) (sh : GShell) (b : Basis) :
    segment k (sh :: b) = (if isKept k sh then [sh] else splitShell sh) ++ segment k b := by
  simp only [segment, segmentFlagged, List.flatMap_cons, List.map_append]
  split <;> simp [List.map_map, Function.comp, map_fst_pair]

theorem contractions_segment (k : Bool) (b : Basis) : contractions (segment k b) = contractions b := by
  induction b with
  | nil => rfl
  | cons sh t ih =>
    rw [segment_cons, contractions_append, ih]
    have : contractions (sh :: t) = contractions [sh] ++ contractions t := contractions_append [sh] t
    rw [this]
    split
    · rfl
    · rw [contractions_split]

theorem isKept_split (k : Bool) (sh s : GShell) (h : s ∈ splitShell sh) : isKept k s = true := by
  simp only [splitShell, List.mem_map] at h
  obtain ⟨c, _, rfl⟩ := h
  simp [isKept]

theorem segment_all_kept (k : Bool) (b : Basis) : (segment k b).all (isKept k) = true := by
  induction b with
  | nil => rfl
  | cons sh t ih =>
    rw [segment_cons, List.all_append, ih, Bool.and_true]
    split
    · rename_i h; simp [h]
    · exact List.all_eq_true.mpr (fun s hs => isKept_split k sh s hs)

theorem segmentFlagged_of_all_kept (k : Bool) (b : Basis) (h : b.all (isKept k) = true) :
    segmentFlagged k b = b.map fun sh => (sh, true) := by
  induction b with
  | nil => rfl
  | cons sh t ih =>
    simp only [List.all_cons, Bool.and_eq_true] at h
    simp only [segmentFlagged, List.flatMap_cons, h.1, if_true, List.map_cons]
    have := ih h.2
    simp only [segmentFlagged] at this
    rw [this]; rfl

theorem segment_of_all_kept (k : Bool) (b : Basis) (h : b.all (isKept k) = true) : segment k b = b := by
  simp [segment, segmentFlagged_of_all_kept k b h, List.map_map, Function.comp, map_fst_pair]

theorem wf_split (sh s : GShell) (hw : sh.WF) (h : s ∈ splitShell sh) : s.WF := by
  simp only [splitShell, List.mem_map] at h
  obtain ⟨c, hc, rfl⟩ := h
  refine ⟨rfl, rfl, ?_⟩
  intro col hcol
  simp only [List.mem_cons, List.not_mem_nil, or_false] at hcol
  subst hcol
  apply hw.2.2
  simp only [zip3] at hc
  exact (List.of_mem_zip (List.of_mem_zip hc).2).2

theorem zip3_length (sh : GShell) (hw : sh.WF) : (zip3 sh).length = sh.angmoms.length := by
  simp [zip3, List.length_zip, hw.1, hw.2.1]

/-! ### un-restriction -/

/-- the object `convert_to_unrestricted` builds from restricted orbitals with alpha/beta occupations `ab` -/
def unrestrictedOf (m : MO) (o : Option (List Rat)) : MO :=
  { kind := .unrestricted, norba := m.norba, norbb := m.norbb, occs := o,
    coeffs := m.coeffs.map fun c => c ++ c, energies := m.energies.map fun c => c ++ c,
    irreps := m.irreps.map fun c => c ++ c, aminusb := none }

theorem inv_unrestrictedOf {m : MO} (hi : Inv m) (hk : m.kind = .restricted) {n : Nat} (hn : m.norba = some n)
    (o : Option (List Rat)) (ho : ∀ x, o = some x → x.length = n + n) : Inv (unrestrictedOf m o) := by
  obtain ⟨n', hna, hnb, hnorb⟩ := inv_restricted hi hk
  rw [hn] at hna; cases hna
  have hnorb' : norb (unrestrictedOf m o) = some (n + n) := by simp [unrestrictedOf, norb, hn, hnb]
  refine ⟨by simp [CountsOk, unrestrictedOf, hn, hnb], ?_, by simp [unrestrictedOf]⟩
  intro f a hf
  rw [hnorb']
  have dbl : ∀ (src : Option (List Rat)) (g : Fld), Orb.get m g = src → src.map (fun c => c ++ c) = some a → a.length = n + n := by
    intro src g hg hsrc
    cases src with
    | none => cases hsrc
    | some c =>
      simp at hsrc; subst hsrc
      have := hi.2.1 g c hg
      rw [hnorb] at this
      simp [List.length_append, (Option.some.inj this).symm]
  cases f
  · simp only [Orb.get, unrestrictedOf] at hf; rw [ho a hf]
  · rw [dbl m.coeffs .coeffs rfl hf]
  · rw [dbl m.energies .energies rfl hf]
  · rw [dbl m.irreps .irreps rfl hf]
  · simp [Orb.get, unrestrictedOf] at hf

/-- main lemma: restricted orbitals are converted to a valid unrestricted object with the same
alpha/beta occupations, views, electron count and spin polarisation -/
theorem toUnrestricted_restricted {m : MO} (hi : Inv m) (hk : m.kind = .restricted) :
    ∃ m', toUnrestricted m = .ok (m', false) ∧ Inv m' ∧ m'.kind = .unrestricted ∧
      m'.norba = m.norba ∧ m'.norbb = m.norbb ∧
      occsa m' = occsa m ∧ occsb m' = occsb m ∧
      (∀ beta, view m' beta m'.coeffs = view m beta m.coeffs) ∧
      (∀ beta, view m' beta m'.energies = view m beta m.energies) ∧
      (∀ beta, view m' beta m'.irreps = view m beta m.irreps) ∧
      nelec m' = nelec m ∧ spinpol m' = spinpol m := by
  obtain ⟨n, hna, hnb, hnorb⟩ := inv_restricted hi hk
  have hview : ∀ (src : Option (List Rat)) (g : Fld), Orb.get m g = src → ∀ beta o,
      view (unrestrictedOf m o) beta (src.map fun c => c ++ c) = view m beta src := by
    intro src g hg beta o
    cases src with
    | none => simp [view, unrestrictedOf, hk]
    | some c =>
      have hl : c.length = n := by
        have := hi.2.1 g c hg; rw [hnorb] at this; exact (Option.some.inj this).symm
      cases beta <;> simp [view, unrestrictedOf, hk, hna, List.take_append, List.drop_append, hl]
  cases ho : m.occs with
  | none =>
    have hinv := inv_unrestrictedOf hi hk hna none (fun x hx => by cases hx)
    refine ⟨unrestrictedOf m none, ?_, hinv, rfl, rfl, rfl, ?_, ?_, fun beta => hview _ .coeffs rfl beta none,
      fun beta => hview _ .energies rfl beta none, fun beta => hview _ .irreps rfl beta none, ?_, ?_⟩
    · have hc := (construct_ok_iff _).mpr hinv
      simp only [toUnrestricted, hk, reduceCtorEq, if_false, ho]
      simp only [unrestrictedOf] at hc
      rw [hc]; rfl
    · simp [occsa, unrestrictedOf, hk, ho]
    · simp [occsb, unrestrictedOf, hk, ho]
    · simp [nelec, unrestrictedOf, ho]
    · simp [spinpol, unrestrictedOf, hk, ho]
  | some o =>
    obtain ⟨a, b, ha, hb, hr, _, hs, hne, hsp⟩ := spin_facts hi (by rw [hk]; decide) ho
    obtain ⟨_, hla, hlb⟩ := hr hk
    have hon : o.length = n := by
      have := hi.2.1 .occs o ho; rw [hnorb] at this; exact (Option.some.inj this).symm
    have hlen : (a ++ b).length = n + n := by simp [List.length_append, hla, hlb, hon]
    have hinv := inv_unrestrictedOf hi hk hna (some (a ++ b)) (fun x hx => by cases hx; exact hlen)
    refine ⟨unrestrictedOf m (some (a ++ b)), ?_, hinv, rfl, rfl, rfl, ?_, ?_, fun beta => hview _ .coeffs rfl beta _,
      fun beta => hview _ .energies rfl beta _, fun beta => hview _ .irreps rfl beta _, ?_, ?_⟩
    · have hc := (construct_ok_iff _).mpr hinv
      simp only [toUnrestricted, hk, reduceCtorEq, if_false, ho, ha, hb]
      simp only [unrestrictedOf] at hc
      rw [hc]; rfl
    · rw [ha]; simp [occsa, unrestrictedOf, hna, List.take_append, hla, hon]
    · rw [hb]; simp [occsb, unrestrictedOf, hna, List.drop_append, hla, hon]
    · rw [hne]; simp [nelec, unrestrictedOf, sum_append]
    · rw [hsp]; simp [spinpol, unrestrictedOf, hna, List.take_append, List.drop_append, hla, hon]


end Iodata.Seg
