/- Helper lemmas for the CHARMM CRD reader model (`Model/Rd/Crd.lean`): the title loop keeps the line counter
   consistent and raises `LoadError` only; the classes every statement of the reader can raise. -/
import Iodata.Lemmas.C07Vasp
set_option linter.unusedSimpArgs false
set_option linter.unusedVariables false

namespace Iodata.Rd.Crd
open Iodata.Chars Iodata.Rd

/-- the title loop: a return is clean and further on in the file; the only exception is `LoadError`, raised
after the single read past the end -/
theorem titleLoop_spec : ∀ (rest : List Str) (k : Nat) (res : Except Cls Unit) (l' : Lit),
    titleLoop rest k = (res, l') →
    (∀ u, res = .ok u → Clean (k + rest.length) l' ∧ k < l'.lineno) ∧
    (∀ e, res = .error e → e = .load ∧ l'.rest = [] ∧ l'.lineno = k + rest.length + 1) := by
  intro rest
  induction rest with
  | nil =>
    intro k res l' h
    simp [titleLoop] at h
    obtain ⟨h1, h2⟩ := h
    subst h1; subst h2
    refine ⟨fun u hu => (by cases hu), fun e he => ?_⟩
    cases he
    simp
  | cons line r ih =>
    intro k res l' h
    unfold titleLoop at h
    split at h
    · simp at h
      obtain ⟨h1, h2⟩ := h
      subst h1; subst h2
      refine ⟨fun u _ => ⟨(by simp [Clean]; omega), (by simp)⟩, fun e he => (by cases he)⟩
    · have := ih (k + 1) res l' h
      have e : k + 1 + r.length = k + (line :: r).length := by simp; omega
      rw [e] at this
      refine ⟨fun u hu => ⟨(this.1 u hu).1, (by have := (this.1 u hu).2; omega)⟩, this.2⟩

theorem titleSec_good : Good titleSec := by
  intro total l hl
  rcases l with ⟨rest, k⟩
  simp only [Clean] at hl
  unfold titleSec
  dsimp only
  rcases h : titleLoop rest k with ⟨res, l'⟩
  have := titleLoop_spec rest k res l' h
  rw [hl] at this
  cases res with
  | ok u => exact ⟨(this.1 u rfl).1, Nat.le_of_lt (this.1 u rfl).2⟩
  | error e => exact Or.inr (this.2 e rfl).2

theorem titleSec_raises {S : List Cls} (h : Cls.load ∈ S) : Raises S titleSec := by
  intro l c l' hm
  unfold titleSec at hm
  rw [(titleLoop_spec _ _ _ _ hm).2 c rfl |>.1]
  exact h

/-- the title section returns only after it has read a bare `*` line: at least one read -/
theorem titleSec_reads {l l' : Lit} {u : Unit} (h : titleSec l = (.ok u, l')) : l.lineno < l'.lineno := by
  unfold titleSec at h
  exact ((titleLoop_spec _ _ _ _ h).1 u rfl).2

/-! ### exception classes of the statements -/

theorem intE_cls {s : Str} {c : Cls} (h : intE s = .error c) : c = .value := by
  unfold intE at h; split at h <;> simp at h; exact h.symm

theorem wordE_cls {ws : List Str} {i : Nat} {c : Cls} (h : wordE ws i = .error c) : c = .index := by
  unfold wordE at h; split at h <;> simp at h; exact h.symm

theorem countE_cls {s : Str} {c : Cls} (h : countE s = .error c) : c = .load ∨ c = .value := by
  unfold countE at h
  split at h
  · exact Or.inr (intE_cls h)
  · simp at h; exact Or.inl h.symm

/-- a string of digits has no sign -/
theorem digits_nosign : ∀ t : Str, isDigitStrU t = true → splitSignU t = (false, t) := by
  intro t ht
  cases t with
  | nil => rfl
  | cons a r =>
    unfold isDigitStrU at ht
    simp only [List.isEmpty_cons, Bool.not_false, List.all_cons, Bool.and_eq_true, Bool.true_and] at ht
    have ha := ht.1
    have h1 : a ≠ '-' := by intro h; subst h; revert ha; decide
    have h2 : a ≠ '+' := by intro h; subst h; revert ha; decide
    simp [splitSignU, h1, h2]

/-- the atom count is a natural number -/
theorem countE_nonneg {s : Str} {n : Int} (h : countE s = .ok n) : 0 ≤ n := by
  unfold countE at h
  split at h
  · rename_i hd
    unfold intE at h
    cases hi : pyInt s with
    | none => rw [hi] at h; simp at h
    | some i =>
      rw [hi] at h
      simp at h
      subst h
      unfold pyInt at hi
      rw [digits_nosign _ hd] at hi
      simp only at hi
      cases hdp : digitPart (strip s) with
      | none => rw [hdp] at hi; simp at hi
      | some m => rw [hdp] at hi; simp at hi; rw [← hi]; exact Int.natCast_nonneg m
  · simp at h

theorem fieldE_cls {ws : List Str} {i : Nat} {k : Fld} {c : Cls} (h : fieldE ws i k = .error c) :
    c = .index ∨ c = .value := by
  unfold fieldE at h
  cases hw : wordE ws i with
  | error e => rw [hw] at h; simp at h; subst h; exact Or.inl (wordE_cls hw)
  | ok w =>
    rw [hw] at h
    cases k with
    | str => simp at h
    | int =>
      dsimp only at h
      cases hi : intE w with
      | error e => rw [hi] at h; simp at h; subst h; exact Or.inr (intE_cls hi)
      | ok v => rw [hi] at h; simp at h
    | float => exact Or.inr (Vasp.floatE_cls h)

theorem fieldsE_cls (ws : List Str) : ∀ (fs : List (Nat × Fld)) (c : Cls), fieldsE ws fs = .error c →
    c = .index ∨ c = .value := by
  intro fs
  induction fs with
  | nil => intro c h; simp [fieldsE] at h
  | cons f r ih =>
    intro c h
    rcases f with ⟨i, k⟩
    unfold fieldsE at h
    cases hf : fieldE ws i k with
    | error e => rw [hf] at h; simp at h; subst h; exact fieldE_cls hf
    | ok u => rw [hf] at h; exact ih c h

theorem raises_repeatN {S : List Cls} {body : RM Unit} (hb : Raises S body) (n : Nat) : Raises S (repeatN body n) := by
  induction n with
  | zero => exact raises_pure S ()
  | succ n ih => exact raises_bind hb (fun _ => ih)

/-- the classes `charmm.load_one` can raise -/
def crdClasses : List Cls := [.load, .stopIter, .value, .memory, .index]

theorem crd_raises : Raises crdClasses loadOne := by
  have hn : Raises crdClasses nextLine := raises_next (by decide)
  unfold loadOne helper
  refine raises_bind (titleSec_raises (by decide)) fun _ =>
    raises_bind hn fun _ =>
    raises_bind (raises_liftE fun c h => by rcases countE_cls h with h | h <;> (subst h; decide)) fun _ =>
    raises_bind (raises_liftE fun c h => by rcases Vasp.allocE_cls h with h | h <;> (subst h; decide)) fun _ =>
    raises_bind (raises_repeatN (raises_bind hn fun _ => raises_liftE fun c h => ?_) _) fun _ => raises_pure _ _
  rcases fieldsE_cls _ _ _ h with h | h <;> (subst h; decide)

end Iodata.Rd.Crd
