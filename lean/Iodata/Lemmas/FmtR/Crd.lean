/- CHARMM CRD: a file in the published card layout is read back record by record. -/
import Iodata.Lemmas.FmtR.Num
import Iodata.Model.FmtR.Crd
namespace Iodata.FmtR.Crd
open Iodata.Chars Iodata.Decimal Iodata.Fmt Iodata.FmtR

theorem spaces_ne_nil (n : Nat) (h : 0 < n) : spaces n ≠ [] := by
  obtain ⟨k, rfl⟩ : ∃ k, n = k + 1 := ⟨n - 1, by omega⟩
  simp [spaces, List.replicate_succ]

theorem styleOK_F5 (x : Num) (h : x.exp = -5) : StyleOK stF5 x := by
  unfold StyleOK stF5; exact ⟨Or.inl rfl, h⟩

theorem pyFloat_f5 (x : Num) (h : x.exp = -5) : pyFloat (renderNum stF5 x) = some x := by
  have := pyFloat_renderNum stF5 x (styleOK_F5 x h) [] [] allWs_nil allWs_nil
  simpa using this

theorem pyInt_natToDec (n : Nat) : pyInt (natToDec n) = some (Int.ofNat n) := by
  have := pyInt_intToDec [] [] (Int.ofNat n) allWs_nil allWs_nil
  simpa [intToDec] using this

def padI (w : Nat) (t : Str) : Padded := ⟨spaces (w - t.length), t, []⟩
def padA (t : Str) : Padded := ⟨[' '], t, spaces (4 - t.length)⟩

theorem padI_ok (w : Nat) (t : Str) (h1 : NoWs t) (h2 : t ≠ []) : (padI w t).OK := ⟨allWs_spaces _, h1, h2, allWs_nil⟩
theorem padA_ok (t : Str) (h : okA4 t) : (padA t).OK := ⟨(by decide : AllWs [' ']), h.1, h.2.1, allWs_spaces _⟩

theorem splitWs_specAtom (i : Nat) (a : SAtom) (h : okAtom a) :
    splitWs (specAtom i a) = [natToDec (i + 1), natToDec a.resnum, a.resname, a.attype, renderNum stF5 a.x,
      renderNum stF5 a.y, renderNum stF5 a.z, a.segid, natToDec a.resid, renderNum stF5 a.mass] := by
  obtain ⟨h1, h2, h3, hx, hy, hz, h7, h8, hm⟩ := h
  let xs : List Padded := [padI 5 (natToDec (i + 1)), padI 5 (natToDec a.resnum), padA a.resname, padA a.attype,
    padI 10 (renderNum stF5 a.x), padI 10 (renderNum stF5 a.y), padI 10 (renderNum stF5 a.z), padA a.segid,
    padA (natToDec a.resid), padI 10 (renderNum stF5 a.mass)]
  have e : specAtom i a = (xs.map Padded.render).flatten ++ ['\n'] := by
    simp [specAtom, xs, a4, f10, rjust, ljust, Padded.render, padI, padA]
  have hd : ∀ n, NoWs (natToDec n) ∧ natToDec n ≠ [] := fun n => ⟨(allDigits_natToDec n).noWs, natToDec_ne_nil n⟩
  have hf : ∀ x : Num, x.exp = -5 → NoWs (renderNum stF5 x) ∧ renderNum stF5 x ≠ [] :=
    fun x hx => ⟨renderNum_noWs _ _ (styleOK_F5 x hx), renderNum_ne_nil _ _⟩
  have hok : ∀ x ∈ xs, x.OK := by
    intro x hx
    simp only [xs, List.mem_cons, List.not_mem_nil, or_false] at hx
    rcases hx with rfl | rfl | rfl | rfl | rfl | rfl | rfl | rfl | rfl | rfl
    · exact padI_ok _ _ (hd _).1 (hd _).2
    · exact padI_ok _ _ (hd _).1 (hd _).2
    · exact padA_ok _ h2
    · exact padA_ok _ h3
    · exact padI_ok _ _ (hf _ hx.1).1 (hf _ hx.1).2
    · exact padI_ok _ _ (hf _ hy.1).1 (hf _ hy.1).2
    · exact padI_ok _ _ (hf _ hz.1).1 (hf _ hz.1).2
    · exact padA_ok _ h7
    · exact padA_ok _ ⟨(hd _).1, (hd _).2, h8⟩
    · exact padI_ok _ _ (hf _ hm.1).1 (hf _ hm.1).2
  have hsep : ∀ x ∈ xs.tail, x.pre ≠ [] := by
    intro x hx
    simp only [xs, List.tail_cons, List.mem_cons, List.not_mem_nil, or_false] at hx
    rcases hx with rfl | rfl | rfl | rfl | rfl | rfl | rfl | rfl | rfl
    · exact spaces_ne_nil _ (by omega)
    · simp [padA]
    · simp [padA]
    · exact spaces_ne_nil _ (by have := hx.2; omega)
    · exact spaces_ne_nil _ (by have := hy.2; omega)
    · exact spaces_ne_nil _ (by have := hz.2; omega)
    · simp [padA]
    · simp [padA]
    · exact spaces_ne_nil _ (by have := hm.2; omega)
  rw [e, splitWs_fields xs ['\n'] hok hsep (brk_nl []), splitWs_allWs _ allWs_nl]
  simp [xs, padI, padA]

theorem parseAtom_specAtom (L : Layout) (hL : LayoutOK L) (i : Nat) (a : SAtom) (h : okAtom a) :
    parseAtom L (specAtom i a) = .ok a.atom := by
  unfold LayoutOK at hL; subst hL
  unfold parseAtom
  rw [splitWs_specAtom i a h]
  obtain ⟨_, _, _, hx, hy, hz, _, _, hm⟩ := h
  simp [iword, fword, word, optE, pyInt_natToDec, pyFloat_f5 _ hx.1, pyFloat_f5 _ hy.1, pyFloat_f5 _ hz.1,
    pyFloat_f5 _ hm.1, SAtom.atom]

theorem readN_specAtoms (L : Layout) (hL : LayoutOK L) (rest : List Str) : ∀ (as : List SAtom) (i : Nat),
    (∀ a ∈ as, okAtom a) → readN (parseAtom L) as.length (specAtoms i as ++ rest) = .ok (as.map SAtom.atom, rest) := by
  intro as; induction as with
  | nil => intro i _; rfl
  | cons a as ih =>
    intro i h
    simp only [List.length_cons, specAtoms, List.cons_append, readN, parseAtom_specAtom L hL i a (h a List.mem_cons_self),
      ih (i + 1) (fun x hx => h x (List.mem_cons_of_mem _ hx)), List.map_cons]

theorem titleGo_spec (rest : List Str) : ∀ (ts : List Str) (acc : Str),
    (∀ t ∈ ts, (strip (t ++ ['\n'])).isEmpty = false) →
    titleGo (ts.map (fun t => '*' :: (t ++ ['\n'])) ++ (['*', '\n'] :: rest)) acc
      = .ok (acc ++ (ts.map fun t => t ++ ['\n']).flatten, rest) := by
  intro ts; induction ts with
  | nil =>
    intro acc _
    have : (strip ['\n']).isEmpty = true := by decide
    simp [titleGo, startsWith, List.isPrefixOf, this]
  | cons t ts ih =>
    intro acc h
    have ht := h t List.mem_cons_self
    simp only [List.map_cons, List.cons_append, titleGo, startsWith, List.isPrefixOf, beq_self_eq_true, Bool.true_and,
      if_true, List.drop_succ_cons, List.drop_zero, ht, Bool.false_eq_true, if_false]
    rw [ih (acc ++ (t ++ ['\n'])) (fun x hx => h x (List.mem_cons_of_mem _ hx))]
    simp

theorem natomLine (n : Nat) : strip (rjust 5 (natToDec n) ++ ['\n']) = natToDec n := by
  unfold rjust
  rw [List.append_assoc]
  exact strip_noWs_pad _ _ _ (allWs_spaces _) allWs_nl (allDigits_natToDec n).noWs

theorem isDigitStr_natToDec (n : Nat) : isDigitStr (natToDec n) = true := by
  unfold isDigitStr
  have h1 : (natToDec n).isEmpty = false := by
    cases e : natToDec n with
    | nil => exact absurd e (natToDec_ne_nil n)
    | cons _ _ => rfl
  have h2 : (natToDec n).all isDigitA = true := List.all_eq_true.mpr (allDigits_natToDec n).digitA
  simp [h1, h2]

/-- C03 for CRD: every file of the published card layout loads as the object it denotes -/
theorem load_spec (L : Layout) (hL : LayoutOK L) (m : Model) (h : Dom m) : load L (specRender m) = .ok m.obj := by
  unfold load specRender
  rw [titleGo_spec _ m.titleLines [] h.1]
  simp only [List.nil_append, natomLine, isDigitStr_natToDec, if_true, decToNat_natToDec]
  have := readN_specAtoms L hL [] m.atoms 0 h.2.1
  rw [List.append_nil] at this
  rw [this]; rfl

end Iodata.FmtR.Crd
