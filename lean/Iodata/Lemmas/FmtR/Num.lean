/- `float(render x) = x` for every exact decimal and every print style (Fortran D/E, with or without
leading zero, plain fixed point), any blank padding. -/
import Iodata.Lemmas.Fmt.Core
import Iodata.Model.FmtR.Num
namespace Iodata.FmtR
open Iodata.Chars Iodata.Decimal Iodata.Fmt

theorem digitsValGo_digitsW : ∀ w n acc, digitsValGo acc (digitsW w n) = some (acc * 10 ^ w + n % 10 ^ w) := by
  intro w; induction w with
  | zero => intro n acc; simp [digitsW, digitsValGo, Nat.mod_one]
  | succ w ih =>
    intro n acc
    simp only [digitsW]
    rw [digitsValGo_append, ih (n / 10) acc]
    simp only [Option.bind, digitsValGo, charDigit_digitChar (n % 10) (by omega)]
    congr 1
    have h : n % 10 ^ (w + 1) = 10 * (n / 10 % 10 ^ w) + n % 10 := by
      rw [Nat.pow_succ, Nat.mul_comm (10 ^ w) 10, Nat.mod_mul]; omega
    rw [h, Nat.pow_succ]
    generalize 10 ^ w = P
    generalize n / 10 % P = Q
    rw [Nat.add_mul, Nat.mul_assoc, Nat.mul_comm Q 10]
    omega

/-- integer part as printed: `[]` or `str(man / 10^d)`; either way its value is `man / 10^d` -/
theorem ipStr_val (st : Style) (man : Nat) : digitsValGo 0 (ipStr st man) = some (man / 10 ^ st.d) := by
  unfold ipStr; split
  · rename_i h; simp [digitsValGo, h.1]
  · exact digitsVal_natToDec _

theorem ipStr_allDigits (st : Style) (man : Nat) : AllDigits (ipStr st man) := by
  unfold ipStr; split
  · intro c h; cases h
  · exact allDigits_natToDec _

theorem expStr_noWs (e : Int) : NoWs (expStr e) := by
  unfold expStr
  refine noWs_cons (by split <;> decide) ?_
  simp only
  split
  · exact noWs_cons (by decide) (allDigits_natToDec _).noWs
  · exact (allDigits_natToDec _).noWs

theorem expPart_expStr (c : Char) (hc : c = 'E' ∨ c = 'e') (e : Int) : expPart (c :: expStr e) = some e := by
  have hce : (c == 'E' || c == 'e') = true := by rcases hc with h | h <;> subst h <;> decide
  have hval : ∀ n : Nat, decToNat? (let a := natToDec n; if a.length < 2 then '0' :: a else a) = some n := by
    intro n; simp only; split
    · have := digitsVal_natToDec n
      simp only [decToNat?, List.isEmpty_cons, Bool.false_eq_true, if_false, digitsVal, digitsValGo] at this ⊢
      simpa [charDigit?] using this
    · exact decToNat_natToDec n
  unfold expPart expStr
  simp only [hce, if_true]
  by_cases hneg : e < 0
  · simp only [hneg, if_true, splitSign_neg, hval]
    first | (congr 1; omega) | (simp only [if_true]; congr 1; omega)
  · have : splitSign ('+' :: (let a := natToDec e.natAbs; if a.length < 2 then '0' :: a else a))
        = (false, (let a := natToDec e.natAbs; if a.length < 2 then '0' :: a else a)) := by
      simp [splitSign]
    simp only [hneg, if_false, this, hval]
    first | (congr 1; omega) | (simp only [Bool.false_eq_true, if_false]; congr 1; omega)

theorem StyleOK.echNoWs {st : Style} {x : Num} (h : StyleOK st x) : ∀ c, st.ech = some c → isWs c = false := by
  intro c hc
  have := h.2; rw [hc] at this
  rcases this with h | h <;> subst h <;> decide

theorem expTxt_noWs (st : Style) (x : Num) (h : ∀ c, st.ech = some c → isWs c = false) : NoWs (expTxt st x) := by
  unfold expTxt
  cases he : st.ech with
  | none => exact noWs_nil
  | some c => exact noWs_cons (h c he) (expStr_noWs _)

theorem renderBody_noWs (st : Style) (x : Num) (h : ∀ c, st.ech = some c → isWs c = false) :
    NoWs (ipStr st x.man ++ ('.' :: (digitsW st.d (x.man % 10 ^ st.d) ++ expTxt st x))) :=
  noWs_append (ipStr_allDigits _ _).noWs
    (noWs_cons (by decide) (noWs_append (allDigits_digitsW _ _).noWs (expTxt_noWs st x h)))

/-- a printed number is one blank-free token (any exponent letter that is not a blank) -/
theorem renderNum_noWs' (st : Style) (x : Num) (h : ∀ c, st.ech = some c → isWs c = false) : NoWs (renderNum st x) := by
  unfold renderNum
  apply noWs_append _ (renderBody_noWs st x h)
  split
  · exact noWs_cons (by decide) noWs_nil
  · exact noWs_nil

theorem renderNum_noWs (st : Style) (x : Num) (h : StyleOK st x) : NoWs (renderNum st x) :=
  renderNum_noWs' st x h.echNoWs

theorem renderNum_ne_nil (st : Style) (x : Num) : renderNum st x ≠ [] := by
  unfold renderNum; cases x.neg <;> simp

/-- the unsigned body does not start with a sign -/
theorem splitSign_body (st : Style) (x : Num) (tail : Str) :
    splitSign (ipStr st x.man ++ ('.' :: tail)) = (false, ipStr st x.man ++ ('.' :: tail)) := by
  cases e : ipStr st x.man with
  | nil => simp [splitSign]
  | cons c r =>
    have hc : c ∈ digitChars := by
      have := ipStr_allDigits st x.man; rw [e] at this; exact this c List.mem_cons_self
    exact splitSign_digits _ ⟨c, r ++ '.' :: tail, rfl, hc⟩

/-- parsing the unsigned body -/
theorem parse_body (st : Style) (x : Num) (h : StyleOK st x) (neg : Bool) :
    (let u := ipStr st x.man ++ ('.' :: (digitsW st.d (x.man % 10 ^ st.d) ++ expTxt st x))
     let ip := u.takeWhile isDigitA
     let fr := fracPart (u.dropWhile isDigitA)
     if ip.isEmpty && fr.1.isEmpty then none else
     match digitsVal (ip ++ fr.1), expPart fr.2 with
     | some m, some e => some (⟨neg, m, e - (fr.1.length : Int)⟩ : Num)
     | _, _ => none) = some ⟨neg, x.man, x.exp⟩ := by
  have hip := takeWhile_run isDigitA (ipStr st x.man) (digitsW st.d (x.man % 10 ^ st.d) ++ expTxt st x) '.'
    (ipStr_allDigits _ _).digitA (by decide)
  have hfp : (digitsW st.d (x.man % 10 ^ st.d) ++ expTxt st x).takeWhile isDigitA = digitsW st.d (x.man % 10 ^ st.d)
      ∧ (digitsW st.d (x.man % 10 ^ st.d) ++ expTxt st x).dropWhile isDigitA = expTxt st x := by
    unfold expTxt
    cases he : st.ech with
    | none => simpa using takeWhile_all isDigitA _ (allDigits_digitsW _ _).digitA
    | some c =>
      have := h.2; rw [he] at this
      exact takeWhile_run isDigitA _ _ c (allDigits_digitsW _ _).digitA (by rcases this with h | h <;> subst h <;> decide)
  have hexp : expPart (expTxt st x) = some (x.exp + st.d) := by
    unfold expTxt
    cases he : st.ech with
    | none =>
      have := h.2; rw [he] at this
      simp only [expPart]; congr 1; simp only at this; omega
    | some c =>
      have := h.2; rw [he] at this
      exact expPart_expStr c this _
  have hval : digitsVal (ipStr st x.man ++ digitsW st.d (x.man % 10 ^ st.d)) = some x.man := by
    unfold digitsVal
    rw [digitsValGo_append, ipStr_val]
    simp only [Option.bind, digitsValGo_digitsW, Nat.mod_mod]
    congr 1
    exact Nat.div_add_mod' x.man (10 ^ st.d)
  have hne : ((ipStr st x.man).isEmpty && (digitsW st.d (x.man % 10 ^ st.d)).isEmpty) = false := by
    rcases h.1 with hl | hd
    · have : (ipStr st x.man).isEmpty = false := by
        unfold ipStr; simp only [hl, Bool.true_eq_false, and_false, if_false]
        cases e : natToDec (x.man / 10 ^ st.d) with
        | nil => exact absurd e (natToDec_ne_nil _)
        | cons _ _ => rfl
      simp [this]
    · have : (digitsW st.d (x.man % 10 ^ st.d)).isEmpty = false := by
        have hl := length_digitsW st.d (x.man % 10 ^ st.d)
        cases e : digitsW st.d (x.man % 10 ^ st.d) with
        | nil => rw [e] at hl; simp at hl; omega
        | cons _ _ => rfl
      simp [this]
  simp only [hip.1, hip.2, fracPart, hfp.1, hfp.2, hne, Bool.false_eq_true, if_false, hval, hexp, length_digitsW]
  congr 2; omega

/-- `float(pad + render x + pad') = x`, exactly, for every style -/
theorem pyFloat_renderNum (st : Style) (x : Num) (h : StyleOK st x) (p q : Str) (hp : AllWs p) (hq : AllWs q) :
    pyFloat (p ++ (renderNum st x ++ q)) = some x := by
  unfold pyFloat
  rw [strip_noWs_pad p _ q hp hq (renderNum_noWs st x h)]
  obtain ⟨neg, man, exp⟩ := x
  cases neg with
  | true =>
    simp only [renderNum, if_true, List.singleton_append, splitSign_neg]
    exact parse_body st ⟨true, man, exp⟩ h true
  | false =>
    simp only [renderNum, Bool.false_eq_true, if_false, List.nil_append, splitSign_body st ⟨false, man, exp⟩]
    exact parse_body st ⟨false, man, exp⟩ h false

/-! ### Fortran `D` exponents -/

theorem map_id_of_ne_D (s : Str) (h : 'D' ∉ s) : replaceDE s = s := by
  unfold replaceDE
  induction s with
  | nil => rfl
  | cons c s ih =>
    have hc : (c == 'D') = false := by
      have : c ≠ 'D' := fun e => h (e ▸ List.mem_cons_self)
      simpa using this
    simp only [List.map_cons, hc, Bool.false_eq_true, if_false]
    rw [ih (fun hx => h (List.mem_cons_of_mem _ hx))]

theorem allDigits_no_D {s : Str} (h : AllDigits s) : 'D' ∉ s := fun hc => absurd (h _ hc) (by decide)

theorem expStr_no_D (e : Int) : 'D' ∉ expStr e := by
  unfold expStr
  intro h
  rcases List.mem_cons.mp h with h | h
  · split at h <;> exact absurd h (by decide)
  · simp only at h
    split at h
    · rcases List.mem_cons.mp h with h | h
      · exact absurd h (by decide)
      · exact allDigits_no_D (allDigits_natToDec _) h
    · exact allDigits_no_D (allDigits_natToDec _) h

/-- `render_D(x).replace("D", "E") = render_E(x)` -/
theorem replaceDE_renderNum (d : Nat) (l : Bool) (x : Num) :
    replaceDE (renderNum ⟨d, l, some 'D'⟩ x) = renderNum ⟨d, l, some 'E'⟩ x := by
  have hsign : replaceDE (if x.neg then ['-'] else []) = (if x.neg then ['-'] else []) := by
    cases x.neg <;> rfl
  have h1 := map_id_of_ne_D _ (allDigits_no_D (ipStr_allDigits ⟨d, l, some 'D'⟩ x.man))
  have h2 := map_id_of_ne_D _ (allDigits_no_D (allDigits_digitsW d (x.man % 10 ^ d)))
  have h3 := map_id_of_ne_D _ (expStr_no_D (x.exp + d))
  unfold replaceDE at *
  simp only [renderNum, expTxt, List.map_append, List.map_cons, hsign, h2, h3]
  have : ipStr ⟨d, l, some 'D'⟩ x.man = ipStr ⟨d, l, some 'E'⟩ x.man := rfl
  rw [← this, h1]
  simp

end Iodata.FmtR
