/- VASP grids: header lines, the value stream cut into lines of any length, and the index order of the
triple loop (x fastest), for every grid shape. -/
import Iodata.Lemmas.FmtR.Num
import Iodata.Lemmas.FmtR.Arr
import Iodata.Model.FmtR.Vasp
namespace Iodata.FmtR.Vasp
open Iodata.Chars Iodata.Decimal Iodata.Fmt Iodata.FmtR

theorem spaces_ne_nil (n : Nat) (h : 0 < n) : spaces n ≠ [] := by
  obtain ⟨k, rfl⟩ : ∃ k, n = k + 1 := ⟨n - 1, by omega⟩
  simp [spaces, List.replicate_succ]

/-- a line of right-justified fields splits into exactly the fields -/
theorem splitWs_fieldsLine (fs : List (Nat × Str)) (h : ∀ f ∈ fs, okTok f.1 f.2) :
    splitWs (fieldsLine fs) = fs.map (·.2) := by
  let xs : List Padded := fs.map fun f => ⟨spaces (f.1 - f.2.length), f.2, []⟩
  have e : fieldsLine fs = (xs.map Padded.render).flatten ++ ['\n'] := by
    simp [fieldsLine, xs, Padded.render, rjust, List.map_map, Function.comp_def]
  have hok : ∀ x ∈ xs, x.OK := by
    intro x hx
    obtain ⟨f, hf, rfl⟩ := List.mem_map.mp hx
    obtain ⟨h1, h2, _⟩ := h f hf
    exact ⟨allWs_spaces _, h1, h2, allWs_nil⟩
  have hsep : ∀ x ∈ xs.tail, x.pre ≠ [] := by
    intro x hx
    obtain ⟨f, hf, rfl⟩ := List.mem_map.mp (List.mem_of_mem_tail hx)
    obtain ⟨_, _, h3⟩ := h f hf
    exact spaces_ne_nil _ (by omega)
  rw [e, splitWs_fields xs ['\n'] hok hsep (brk_nl []), splitWs_allWs _ allWs_nl]
  simp [xs, List.map_map, Function.comp_def]

theorem styleOK_F (d : Nat) (x : Num) (h : x.exp = -(d : Int)) : StyleOK (stF d) x := by
  unfold StyleOK stF; exact ⟨Or.inl rfl, h⟩

theorem styleOK_E (d : Nat) (hd : 0 < d) (x : Num) : StyleOK (stE d x) x := by
  unfold StyleOK stE; exact ⟨Or.inr hd, Or.inl rfl⟩

theorem pyFloat_tok (st : Style) (x : Num) (h : StyleOK st x) : pyFloat (renderNum st x) = some x := by
  have := pyFloat_renderNum st x h [] [] allWs_nil allWs_nil
  simpa using this

theorem parseFloats_F (d : Nat) : ∀ r : List Num, (∀ x ∈ r, x.exp = -(d : Int)) →
    parseFloats (r.map fun x => renderNum (stF d) x) = .ok r := by
  intro r; induction r with
  | nil => intro _; rfl
  | cons x r ih =>
    intro h
    simp only [List.map_cons, parseFloats, pyFloat_tok _ _ (styleOK_F d x (h x List.mem_cons_self)),
      ih (fun y hy => h y (List.mem_cons_of_mem _ hy))]

theorem okTok_F {w d : Nat} {x : Num} (h : okF w d x) : okTok w (renderNum (stF d) x) :=
  ⟨renderNum_noWs _ _ (styleOK_F d x h.1), renderNum_ne_nil _ _, h.2⟩

/-- a line of three `F` numbers (plus any further words when `extra` is cut off by `[:3]`) -/
theorem row3_fields (w d : Nat) (r : List Num) (h : okRow w d r) :
    row3 (splitWs (fieldsLine (numFields w d r))) = .ok r := by
  rw [splitWs_fieldsLine _ (by
    intro f hf
    obtain ⟨x, hx, rfl⟩ := List.mem_map.mp hf
    exact okTok_F (h.2 x hx))]
  simp only [numFields, List.map_map, Function.comp_def, row3]
  rw [parseFloats_F d r (fun x hx => (h.2 x hx).1)]
  simp [h.1]

theorem parseSyms_render (T : Tables) (S : Spec) : ∀ es : List (Nat × Nat), (∀ e ∈ es, okElem T S e) →
    parseSyms T (es.map fun e => T.sym e.1) = .ok (es.map (·.1)) := by
  intro es; induction es with
  | nil => intro _; rfl
  | cons e es ih =>
    intro h
    simp only [List.map_cons, parseSyms, (h e List.mem_cons_self).2.1, ih (fun y hy => h y (List.mem_cons_of_mem _ hy))]

theorem pyInt_natToDec (n : Nat) : pyInt (natToDec n) = some (Int.ofNat n) := by
  have := pyInt_intToDec [] [] (Int.ofNat n) allWs_nil allWs_nil
  simpa [intToDec] using this

theorem parseInts_render : ∀ ns : List Nat, parseInts (ns.map natToDec) = .ok (ns.map fun (n : Nat) => (n : Int)) := by
  intro ns; induction ns with
  | nil => rfl
  | cons n ns ih => simp only [List.map_cons, parseInts, pyInt_natToDec, ih]; rfl

theorem strip_fieldsLine1 (w : Nat) (t : Str) (h : okTok w t) : strip (fieldsLine [(w, t)]) = t := by
  have : fieldsLine [(w, t)] = spaces (w - t.length) ++ (t ++ ['\n']) := by simp [fieldsLine, rjust]
  rw [this]; exact strip_noWs_pad _ _ _ (allWs_spaces _) allWs_nl h.1

theorem strip_title (t : Str) (h : Trimmed t) : strip (t ++ ['\n']) = t := by
  have := strip_pad [] t ['\n'] allWs_nil allWs_nl h
  simpa using this

theorem firstLower_sel : firstLower selLine = 's' := by decide
theorem firstLower_mode (c : Bool) : firstLower (modeLine c) = if c then 'c' else 'd' := by cases c <;> decide

theorem coordLine_row3 (S : Spec) (m : Model) (r : List Num) (h : okRow S.posW S.posD r)
    (hf : ∀ f ∈ m.flags, okTok S.flagW f) :
    row3 ((splitWs (coordLine S m r)).take 3) = .ok r := by
  unfold coordLine
  rw [splitWs_fieldsLine _ (by
    intro f hfm
    rcases List.mem_append.mp hfm with hfm | hfm
    · obtain ⟨x, hx, rfl⟩ := List.mem_map.mp hfm
      exact okTok_F (h.2 x hx)
    · split at hfm
      · obtain ⟨x, hx, rfl⟩ := List.mem_map.mp hfm; exact hf x hx
      · cases hfm)]
  have hl : ((numFields S.posW S.posD r).map (·.2)).length = 3 := by simp [numFields, h.1]
  rw [List.map_append, List.take_append_of_le_length (by omega), List.take_of_length_le (by omega)]
  simp only [numFields, List.map_map, Function.comp_def, row3]
  rw [parseFloats_F S.posD r (fun x hx => (h.2 x hx).1)]
  simp [h.1]

/-- `_load_vasp_header` on the header block of the published layout -/
theorem loadHeader_spec (L : Layout) (T : Tables) (S : Spec) (m : Model) (h : HeaderDom L T S m) (rest : List Str) :
    loadHeader L T (specHeader T S m ++ rest) = .ok (m.header, rest) := by
  obtain ⟨ht, hs, hc3, hcell, hel, hnat, hco, hfl, hsel, hcart, hcw⟩ := h
  obtain ⟨r0, r1, r2, hce⟩ : ∃ r0 r1 r2, m.cell = [r0, r1, r2] := by
    match hm : m.cell, hc3 with
    | [a, b, c], _ => exact ⟨a, b, c, rfl⟩
  have hr0 := row3_fields S.cellW S.cellD r0 (hcell r0 (by simp [hce]))
  have hr1 := row3_fields S.cellW S.cellD r1 (hcell r1 (by simp [hce]))
  have hr2 := row3_fields S.cellW S.cellD r2 (hcell r2 (by simp [hce]))
  have hscale : pyFloat (strip (fieldsLine [(S.scaleW, renderNum (stF S.scaleD) m.scaling)])) = some m.scaling := by
    rw [strip_fieldsLine1 _ _ (okTok_F hs)]; exact pyFloat_tok _ _ (styleOK_F _ _ hs.1)
  have hsyms : parseSyms T (splitWs (fieldsLine (m.elems.map fun e => (S.symW, T.sym e.1)))) = .ok (m.elems.map (·.1)) := by
    rw [splitWs_fieldsLine _ (by
      intro f hf; obtain ⟨e, he, rfl⟩ := List.mem_map.mp hf; exact (hel e he).1)]
    simp only [List.map_map, Function.comp_def]
    exact parseSyms_render T S m.elems hel
  have hcnt : parseInts (splitWs (fieldsLine (m.elems.map fun e => (S.cntW, natToDec e.2))))
      = .ok (m.elems.map fun e => (e.2 : Int)) := by
    rw [splitWs_fieldsLine _ (by
      intro f hf; obtain ⟨e, he, rfl⟩ := List.mem_map.mp hf
      exact ⟨(allDigits_natToDec _).noWs, natToDec_ne_nil _, (hel e he).2.2⟩)]
    simp only [List.map_map, Function.comp_def]
    have := parseInts_render (m.elems.map (·.2))
    simpa [List.map_map, Function.comp_def] using this
  have hcoords := readN_map (fun l => row3 ((splitWs l).take L.coordWords)) (coordLine S m) id m.coords rest
    (fun r hr => by rw [hcw]; exact coordLine_row3 S m r (hco r hr) hfl)
  rw [List.map_id, hnat] at hcoords
  have hmt : firstLower (modeLine true) = 'c' := by decide
  have hmf : firstLower (modeLine false) = 'd' := by decide
  have c1 : (['s'] : List Char).contains 's' = true := by decide
  have c2 : (['s'] : List Char).contains 'd' = false := by decide
  have c3 : (['s'] : List Char).contains 'c' = false := by decide
  have c4 : (['c', 'k'] : List Char).contains 'c' = true := by decide
  have c5 : (['c', 'k'] : List Char).contains 'd' = false := by decide
  cases hsl : m.selective <;> cases hca : m.cartesian <;>
    simp only [specHeader, hce, hsl, hca, if_true, Bool.false_eq_true, if_false, List.map_cons, List.map_nil, List.cons_append,
      List.nil_append, List.append_assoc, loadHeader, hscale, hr0, hr1, hr2, hsyms, hcnt, hsel, hcart, firstLower_sel, hmt, hmf,
      c1, c2, c3, c4, c5, hcoords, strip_title _ ht, Model.header]

/-! ### the grid block -/

theorem findShape_spec (S : Spec) (s : Idx3) (rest : List Str)
    (h : (natToDec s.1).length < S.dimW ∧ (natToDec s.2.1).length < S.dimW ∧ (natToDec s.2.2).length < S.dimW) :
    findShape (['\n'] :: dimsLine S s :: rest) = .ok (s, rest) := by
  have hb : splitWs ['\n'] = [] := splitWs_allWs _ allWs_nl
  have hd : splitWs (dimsLine S s) = [natToDec s.1, natToDec s.2.1, natToDec s.2.2] := by
    unfold dimsLine
    rw [splitWs_fieldsLine _ (by
      intro f hf
      simp only [List.mem_cons, List.not_mem_nil, or_false] at hf
      rcases hf with rfl | rfl | rfl
      · exact ⟨(allDigits_natToDec _).noWs, natToDec_ne_nil _, h.1⟩
      · exact ⟨(allDigits_natToDec _).noWs, natToDec_ne_nil _, h.2.1⟩
      · exact ⟨(allDigits_natToDec _).noWs, natToDec_ne_nil _, h.2.2⟩)]
    rfl
  have hi := parseInts_render [s.1, s.2.1, s.2.2]
  simp only [List.map_cons, List.map_nil] at hi
  obtain ⟨a, b, c⟩ := s
  simp only [findShape, hb, parseInts, hd, hi]

/-- words already on the table are consumed first -/
theorem pull_words (d : Nat) (hd : 0 < d) : ∀ (ws : List Num) (n : Nat) (ls : List Str),
    pull (ws.length + n) (ws.map fun x => renderNum (stE d x) x) ls
      = match pull n [] ls with
        | .error e => .error e
        | .ok (vs, r) => .ok (ws ++ vs, r) := by
  intro ws; induction ws with
  | nil =>
    intro n ls
    simp only [List.length_nil, Nat.zero_add, List.map_nil, List.nil_append]
    cases n with
    | zero => simp [pull]
    | succ n => cases h : pull (n + 1) [] ls <;> rfl
  | cons x ws ih =>
    intro n ls
    have e : (x :: ws).length + n = (ws.length + n) + 1 := by simp; omega
    rw [e]
    simp only [List.map_cons, pull, pyFloat_tok _ _ (styleOK_E d hd x), ih n ls]
    cases pull n [] ls with
    | error e => rfl
    | ok p => rfl

theorem valLine_split (S : Spec) (c : List Num)
    (h : ∀ x ∈ c, (renderNum (stE S.valD x) x).length < S.valW) (hd : 0 < S.valD) :
    splitWs (valLine S c) = c.map fun x => renderNum (stE S.valD x) x := by
  unfold valLine
  rw [splitWs_fieldsLine _ (by
    intro f hf
    obtain ⟨x, hx, rfl⟩ := List.mem_map.mp hf
    exact ⟨renderNum_noWs _ _ (styleOK_E _ hd x), renderNum_ne_nil _ _, h x hx⟩)]
  simp [List.map_map, Function.comp_def]

/-- **value stream**: lines of any (non-zero) lengths are read back as one stream in file order, and reading
stops exactly after the last line that holds grid values -/
theorem pull_chunks (S : Spec) (hd : 0 < S.valD) (rest : List Str) : ∀ cs : List (List Num),
    (∀ c ∈ cs, c ≠ [] ∧ ∀ x ∈ c, (renderNum (stE S.valD x) x).length < S.valW) →
    pull cs.flatten.length [] (cs.map (valLine S) ++ rest) = .ok (cs.flatten, rest) := by
  intro cs; induction cs with
  | nil => intro _; simp [pull]
  | cons c cs ih =>
    intro h
    obtain ⟨hne, hfit⟩ := h c List.mem_cons_self
    have hrest := ih (fun y hy => h y (List.mem_cons_of_mem _ hy))
    obtain ⟨x, c', rfl⟩ : ∃ x c', c = x :: c' := by
      cases c with
      | nil => exact absurd rfl hne
      | cons x c' => exact ⟨x, c', rfl⟩
    have e : ((x :: c') :: cs).flatten.length = (c'.length + cs.flatten.length) + 1 := by simp <;> omega
    rw [e]
    simp only [List.map_cons, List.cons_append, pull, valLine_split S (x :: c') hfit hd,
      pyFloat_tok _ _ (styleOK_E S.valD hd x), pull_words S.valD hd c' cs.flatten.length, hrest]
    simp

/-- the triple loop visits `(u mod nx, (u / nx) mod ny, u / (nx·ny))` for `u = 0, 1, …` -/
theorem idxOrder_eq (s : Idx3) (hx : 0 < s.1) (hy : 0 < s.2.1) :
    idxOrder s = (List.range (s.2.2 * (s.2.1 * s.1))).map
      (fun u => (u % (s.2.1 * s.1) % s.1, u % (s.2.1 * s.1) / s.1, u / (s.2.1 * s.1))) := by
  obtain ⟨nx, ny, nz⟩ := s
  simp only at hx hy ⊢
  unfold idxOrder forRange
  simp only
  have inner : ∀ i2 : Nat, (List.range ny).flatMap (fun i1 => (List.range nx).map fun i0 => (i0, i1, i2))
      = (List.range (ny * nx)).map (fun t => (t % nx, t / nx, i2)) := by
    intro i2
    exact flatMap_range_map (fun i1 i0 => (i0, i1, i2)) nx hx ny
  simp only [inner]
  exact flatMap_range_map (fun i2 t => (t % nx, t / nx, i2)) (ny * nx) (Nat.mul_pos hy hx) nz

theorem unflat_inj (nx ny i j k u : Nat) (hx : 0 < nx)
    (h1 : u % (ny * nx) % nx = i) (h2 : u % (ny * nx) / nx = j) (h3 : u / (ny * nx) = k) :
    u = i + nx * (j + ny * k) := by
  have a := Nat.div_add_mod u (ny * nx)
  have b := Nat.div_add_mod (u % (ny * nx)) nx
  rw [h3] at a; rw [h1, h2] at b
  rw [← a, ← b, Nat.mul_add, ← Nat.mul_assoc, Nat.mul_comm nx ny]
  omega

theorem unflat_flat (nx ny i j k : Nat) (hi : i < nx) (hj : j < ny) :
    (i + nx * (j + ny * k)) % (ny * nx) % nx = i ∧ (i + nx * (j + ny * k)) % (ny * nx) / nx = j ∧
    (i + nx * (j + ny * k)) / (ny * nx) = k := by
  have hlt : i + nx * j < ny * nx := by
    have : nx * j + nx ≤ nx * ny := by rw [← Nat.mul_succ]; exact Nat.mul_le_mul_left nx hj
    rw [Nat.mul_comm ny nx]; omega
  have e : i + nx * (j + ny * k) = (i + nx * j) + (ny * nx) * k := by
    rw [Nat.mul_add, ← Nat.mul_assoc, Nat.mul_comm nx ny]; omega
  have hpos : 0 < ny * nx := by omega
  rw [e, Nat.add_mul_mod_self_left, Nat.mod_eq_of_lt hlt, Nat.add_mul_div_left _ _ hpos, Nat.div_eq_of_lt hlt]
  refine ⟨?_, ?_, by omega⟩
  · rw [Nat.add_mul_mod_self_left, Nat.mod_eq_of_lt hi]
  · rw [Nat.add_mul_div_left _ _ (by omega), Nat.div_eq_of_lt hi]; omega

/-- **grid order**: after the triple loop, element `(i, j, k)` holds the `(i + nx·(j + ny·k))`-th value of the
stream, for every shape -/
theorem getA_grid (s : Idx3) (vs : List Num) (hlen : vs.length = s.1 * s.2.1 * s.2.2) (i j k : Nat)
    (hi : i < s.1) (hj : j < s.2.1) (hk : k < s.2.2) :
    some (getA zero ((idxOrder s).zip vs) (i, j, k)) = vs[i + s.1 * (j + s.2.1 * k)]? := by
  obtain ⟨nx, ny, nz⟩ := s
  simp only at hi hj hk hlen ⊢
  have hN : nz * (ny * nx) = vs.length := by
    rw [hlen, Nat.mul_comm nz, Nat.mul_comm ny nx]
  have hu : i + nx * (j + ny * k) < vs.length := by
    rw [← hN]
    have h1 : j + ny * k < ny * nz := by
      have : ny * k + ny ≤ ny * nz := by rw [← Nat.mul_succ]; exact Nat.mul_le_mul_left ny hk
      omega
    have h2 : nx * (j + ny * k) + nx ≤ nx * (ny * nz) := by rw [← Nat.mul_succ]; exact Nat.mul_le_mul_left nx h1
    have h3 : nx * (ny * nz) = nz * (ny * nx) := by
      rw [Nat.mul_comm nz, Nat.mul_comm ny nx, Nat.mul_assoc]
    omega
  rw [List.getElem?_eq_getElem hu]
  congr 1
  rw [idxOrder_eq (nx, ny, nz) (by simp only; omega) (by simp only; omega)]
  simp only
  obtain ⟨f1, f2, f3⟩ := unflat_flat nx ny i j k hi hj
  apply getA_of_all
  · refine ⟨((i, j, k), vs[i + nx * (j + ny * k)]), ?_, rfl⟩
    rw [List.mem_iff_getElem?]
    refine ⟨i + nx * (j + ny * k), ?_⟩
    rw [List.getElem?_zip_eq_some]
    refine ⟨?_, List.getElem?_eq_getElem hu⟩
    rw [List.getElem?_map, List.getElem?_range (by omega)]
    simp only [Option.map_some, f1, f2, f3]
  · intro kv hkv hp
    obtain ⟨u, hu'⟩ := List.mem_iff_getElem?.mp hkv
    obtain ⟨p, v⟩ := kv
    rw [List.getElem?_zip_eq_some] at hu'
    obtain ⟨hpu, hvu⟩ := hu'
    rw [List.getElem?_map] at hpu
    obtain ⟨ult, _⟩ := List.getElem?_eq_some_iff.mp hvu
    rw [List.getElem?_range (by omega)] at hpu
    simp only [Option.map_some, Option.some.injEq] at hpu
    simp only at hp
    rw [hp] at hpu
    simp only [Prod.mk.injEq] at hpu
    have := unflat_inj nx ny i j k u (by omega) hpu.1 hpu.2.1 hpu.2.2
    subst this
    simp only
    rw [List.getElem?_eq_getElem hu] at hvu
    exact (Option.some.inj hvu).symm

/-- `_load_vasp_grid` on a whole file of the published layout -/
theorem loadGrid_spec (L : Layout) (T : Tables) (S : Spec) (hd : 0 < S.valD) (m : Model)
    (hh : HeaderDom L T S m) (hg : GridDom S m) :
    loadGrid L T (specRender T S m) = .ok (⟨m.header, m.shape, (idxOrder m.shape).zip m.vals⟩, m.tail) := by
  unfold loadGrid specRender specGrid
  rw [loadHeader_spec L T S m hh]
  simp only [List.cons_append, findShape_spec S m.shape _ hg.2.2]
  have := pull_chunks S hd m.tail m.chunks hg.1
  rw [← hg.2.1]
  unfold Model.vals at *
  rw [this]

/-- cutting a stream into lines of `k > 0` values (ragged last line) loses nothing and makes no empty line -/
theorem chunkGo_spec {α : Type} (k : Nat) (hk : 0 < k) : ∀ (f : Nat) (xs : List α), xs.length ≤ f →
    (chunkGo k f xs).flatten = xs ∧ ∀ c ∈ chunkGo k f xs, c ≠ [] ∧ c.length ≤ k := by
  intro f; induction f with
  | zero =>
    intro xs h
    have : xs = [] := List.eq_nil_of_length_eq_zero (by omega)
    subst this; simp [chunkGo]
  | succ f ih =>
    intro xs h
    cases xs with
    | nil => simp [chunkGo]
    | cons x xs =>
      have hl : ((x :: xs).drop k).length ≤ f := by simp only [List.length_drop, List.length_cons] at h ⊢; omega
      obtain ⟨h1, h2⟩ := ih _ hl
      simp only [chunkGo, List.flatten_cons, h1, List.take_append_drop, List.mem_cons, true_and]
      intro c hc
      rcases hc with rfl | hc
      · obtain ⟨j, rfl⟩ : ∃ j, k = j + 1 := ⟨k - 1, by omega⟩
        refine ⟨by simp, ?_⟩
        simp only [List.length_take]; omega
      · exact h2 c hc

theorem chunk_spec {α : Type} (k : Nat) (hk : 0 < k) (xs : List α) :
    (chunk k xs).flatten = xs ∧ ∀ c ∈ chunk k xs, c ≠ [] ∧ c.length ≤ k :=
  chunkGo_spec k hk xs.length xs (Nat.le_refl _)

end Iodata.FmtR.Vasp
