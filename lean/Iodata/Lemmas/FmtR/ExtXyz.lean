/- Extended XYZ title line: the shlex state machine on `key=value` / `key="…"` pairs, `Lattice`, `Properties`. -/
import Iodata.Lemmas.FmtR.Num
import Iodata.Model.FmtR.ExtXyz
namespace Iodata.FmtR.ExtXyz
open Iodata.Chars Iodata.Decimal Iodata.Fmt Iodata.FmtR

/-! ### shlex -/

theorem plainCh_spec {c : Char} (h : plainCh c = true) :
    shWs c = false ∧ (c == '"') = false ∧ (c == '\'') = false ∧ (c == '\\') = false := by
  unfold plainCh at h
  simp only [Bool.and_eq_true, Bool.not_eq_true', bne_iff_ne, ne_eq] at h
  refine ⟨h.1.1.1, ?_, ?_, ?_⟩ <;> simp [h.1.1.2, h.1.2, h.2]

theorem shlex_word (t : Str) (ht : ∀ c ∈ t, plainCh c = true) : ∀ (cur rest : Str),
    shlexGo .word cur (t ++ rest) = shlexGo .word (cur ++ t) rest := by
  induction t with
  | nil => intro cur rest; simp
  | cons c t ih =>
    intro cur rest
    obtain ⟨h1, h2, h3, h4⟩ := plainCh_spec (ht c List.mem_cons_self)
    simp only [List.cons_append, shlexGo, h1, h2, h3, h4, Bool.false_eq_true, if_false]
    rw [ih (fun x hx => ht x (List.mem_cons_of_mem _ hx))]
    simp

theorem shlex_dq (t : Str) (ht : ∀ c ∈ t, dqCh c = true) : ∀ (cur rest : Str),
    shlexGo .dq cur (t ++ '"' :: rest) = shlexGo .word (cur ++ t) rest := by
  induction t with
  | nil => intro cur rest; simp [shlexGo]
  | cons c t ih =>
    intro cur rest
    have hc := ht c List.mem_cons_self
    unfold dqCh at hc
    simp only [Bool.and_eq_true, bne_iff_ne, ne_eq] at hc
    have h1 : (c == '"') = false := by simp [hc.1]
    have h2 : (c == '\\') = false := by simp [hc.2]
    simp only [List.cons_append, shlexGo, h1, h2, Bool.false_eq_true, if_false]
    rw [ih (fun x hx => ht x (List.mem_cons_of_mem _ hx))]
    simp

/-- a pair is read as one token `key=value`, quotes removed, up to the blank that follows -/
theorem shlex_pair (p : Str × Str × Quote) (h : okPair p) (c : Char) (hc : shWs c = true) (rest : Str) :
    shlexGo .sp [] (renderPair p ++ c :: rest) = (shlexGo .sp [] rest).map ((p.1 ++ '=' :: p.2.1) :: ·) := by
  obtain ⟨k, v, q⟩ := p
  obtain ⟨hne, hk, hv⟩ := h
  obtain ⟨k0, k', rfl⟩ : ∃ k0 k', k = k0 :: k' := by
    cases k with
    | nil => exact absurd rfl hne
    | cons a b => exact ⟨a, b, rfl⟩
  obtain ⟨h1, h2, h3, h4⟩ := plainCh_spec (hk k0 List.mem_cons_self)
  have hk' : ∀ x ∈ k', plainCh x = true := fun x hx => hk x (List.mem_cons_of_mem _ hx)
  have heq : plainCh '=' = true := by decide
  cases q with
  | bare =>
    simp only at hv
    have e : renderPair (k0 :: k', v, .bare) ++ c :: rest = k0 :: ((k' ++ '=' :: v) ++ c :: rest) := by
      simp [renderPair]
    have hall : ∀ x ∈ k' ++ '=' :: v, plainCh x = true := by
      intro x hx
      rcases List.mem_append.mp hx with hx | hx
      · exact hk' x hx
      · rcases List.mem_cons.mp hx with hx | hx
        · subst hx; exact heq
        · exact hv x hx
    rw [e]
    simp only [shlexGo, h1, h2, h3, h4, Bool.false_eq_true, if_false]
    rw [shlex_word _ hall]
    simp only [shlexGo, hc, if_true]
    simp
  | dq =>
    simp only at hv
    have e : renderPair (k0 :: k', v, .dq) ++ c :: rest = k0 :: ((k' ++ ['=']) ++ '"' :: (v ++ '"' :: (c :: rest))) := by
      simp [renderPair]
    have hall : ∀ x ∈ k' ++ ['='], plainCh x = true := by
      intro x hx
      rcases List.mem_append.mp hx with hx | hx
      · exact hk' x hx
      · simp at hx; subst hx; exact heq
    rw [e]
    simp only [shlexGo, h1, h2, h3, h4, Bool.false_eq_true, if_false]
    rw [shlex_word _ hall]
    have hq : (('"' : Char) == '"') = true := by decide
    have hqw : shWs '"' = false := by decide
    simp only [shlexGo, hqw, hq, Bool.false_eq_true, if_false, if_true]
    rw [shlex_dq v hv]
    simp only [shlexGo, hc, if_true]
    simp

/-- `shlex.split` of a title line written as blank-separated pairs: one token per pair, quotes removed -/
theorem shlexSplit_title : ∀ (ps : List (Str × Str × Quote)), (∀ p ∈ ps, okPair p) →
    shlexSplit (renderTitle ps) = some (ps.map fun p => p.1 ++ '=' :: p.2.1) := by
  intro ps; induction ps with
  | nil => intro _; simp [shlexSplit, renderTitle, shlexGo, shWs]
  | cons p ps ih =>
    intro h
    have hp := h p List.mem_cons_self
    have hps : ∀ q ∈ ps, okPair q := fun q hq => h q (List.mem_cons_of_mem _ hq)
    cases ps with
    | nil =>
      have e : renderTitle [p] = renderPair p ++ '\n' :: [] := by simp [renderTitle, List.intercalate]
      unfold shlexSplit
      rw [e, shlex_pair p hp '\n' (by decide) []]
      simp [shlexGo]
    | cons q qs =>
      have e : renderTitle (p :: q :: qs) = renderPair p ++ ' ' :: renderTitle (q :: qs) := by
        simp [renderTitle, List.intercalate]
      have := ih hps
      unfold shlexSplit at this ⊢
      rw [e, shlex_pair p hp ' ' (by decide) _, this]
      simp

/-! ### `key, value = pair.split("=", 1)` -/

theorem splitEq_spec (k v : Str) (hk : '=' ∉ k) : ∀ cur, splitEq cur (k ++ '=' :: v) = some (cur ++ k, v) := by
  induction k with
  | nil => intro cur; simp [splitEq]
  | cons c k ih =>
    intro cur
    have hc : (c == '=') = false := by
      have : c ≠ '=' := fun e => hk (e ▸ List.mem_cons_self)
      simpa using this
    simp only [List.cons_append, splitEq, hc, Bool.false_eq_true, if_false]
    rw [ih (fun hx => hk (List.mem_cons_of_mem _ hx))]
    simp

/-! ### Lattice -/

theorem styleOK_P (d : Nat) (x : Num) (h : x.exp = -(d : Int)) : StyleOK (stP d) x := by
  unfold StyleOK stP; exact ⟨Or.inl rfl, h⟩

theorem mapOpt_pyFloat_render (d : Nat) : ∀ l : List Num, (∀ x ∈ l, x.exp = -(d : Int)) →
    mapOpt pyFloat (l.map (renderNum (stP d))) = some l := by
  intro l; induction l with
  | nil => intro _; rfl
  | cons x l ih =>
    intro h
    have hx : pyFloat (renderNum (stP d) x) = some x := by
      have := pyFloat_renderNum (stP d) x (styleOK_P d x (h x List.mem_cons_self)) [] [] allWs_nil allWs_nil
      simpa using this
    simp only [List.map_cons, mapOpt, hx, ih (fun y hy => h y (List.mem_cons_of_mem _ hy))]

theorem splitWs_renderLattice (d : Nat) (l : List Num) (h : ∀ x ∈ l, x.exp = -(d : Int)) :
    splitWs (renderLattice d l) = l.map (renderNum (stP d)) := by
  unfold renderLattice
  apply splitWs_joinSp
  intro t ht
  obtain ⟨x, hx, rfl⟩ := List.mem_map.mp ht
  exact ⟨renderNum_noWs _ _ (styleOK_P d x (h x hx)), renderNum_ne_nil _ _⟩

/-! ### Properties -/

theorem splitOnGo_tok (t : Str) (ht : ':' ∉ t) : ∀ cur rest, splitOnGo ':' cur (t ++ rest) = splitOnGo ':' (cur ++ t) rest := by
  induction t with
  | nil => intro cur rest; simp
  | cons c t ih =>
    intro cur rest
    have hc : (c == ':') = false := by
      have : c ≠ ':' := fun e => ht (e ▸ List.mem_cons_self)
      simpa using this
    simp only [List.cons_append, splitOnGo, hc, Bool.false_eq_true, if_false]
    rw [ih (fun hx => ht (List.mem_cons_of_mem _ hx))]
    simp

/-- `":".join(parts).split(":") == parts` for a non-empty list of colon-free parts -/
theorem splitOn_intercalate : ∀ (parts : List Str), parts ≠ [] → (∀ t ∈ parts, ':' ∉ t) →
    splitOn ':' (List.intercalate [':'] parts) = parts := by
  intro parts; induction parts with
  | nil => intro h; exact absurd rfl h
  | cons t ts ih =>
    intro _ h
    have ht := h t List.mem_cons_self
    cases ts with
    | nil =>
      have := splitOnGo_tok t ht [] []
      simpa [splitOn, List.intercalate, splitOnGo] using this
    | cons u us =>
      have e : List.intercalate [':'] (t :: u :: us) = t ++ (':' :: List.intercalate [':'] (u :: us)) := by
        simp [List.intercalate]
      have hrest := ih (by simp) (fun x hx => h x (List.mem_cons_of_mem _ hx))
      unfold splitOn at hrest ⊢
      rw [e, splitOnGo_tok t ht [] _]
      simp only [List.nil_append, splitOnGo, beq_self_eq_true, if_true, hrest]

end Iodata.FmtR.ExtXyz

namespace Iodata.FmtR.ExtXyz
open Iodata.Chars Iodata.Decimal Iodata.Fmt Iodata.FmtR

/-! ### `Properties`: column typing -/

def tup : Prop' → Str × Str × Str
  | .species => ("species".toList, ['S'], ['1'])
  | .z => (['Z'], ['I'], ['1'])
  | .pos => ("pos".toList, ['R'], ['3'])
  | .masses => ("masses".toList, ['R'], ['1'])
  | .force => ("force".toList, ['R'], ['3'])
  | .other n d k => (n, [d], natToDec k)

theorem group3_triples : ∀ ps : List Prop', group3 (ps.flatMap Prop'.triple) = ps.map tup := by
  intro ps; induction ps with
  | nil => rfl
  | cons p ps ih => cases p <;> simp [Prop'.triple, group3, tup, ih]

theorem length_triples : ∀ ps : List Prop', (ps.flatMap Prop'.triple).length = 3 * ps.length := by
  intro ps; induction ps with
  | nil => rfl
  | cons p ps ih => cases p <;> simp [Prop'.triple, ih] <;> omega

theorem kindOf_no_colon {d : Char} (h : (kindOf d).isSome) : d ≠ ':' := by
  intro e; subst e; revert h; decide

theorem triples_no_colon (ps : List Prop') (h : ∀ p ∈ ps, okProp p) : ∀ t ∈ ps.flatMap Prop'.triple, ':' ∉ t := by
  intro t ht
  obtain ⟨p, hp, htp⟩ := List.mem_flatMap.mp ht
  have hok := h p hp
  cases p with
  | other n d k =>
    simp only [Prop'.triple, List.mem_cons, List.not_mem_nil, or_false] at htp
    rcases htp with rfl | rfl | rfl
    · exact hok.1.1
    · intro hc; simp at hc; exact kindOf_no_colon hok.2 hc.symm
    · exact fun hc => absurd ((allDigits_natToDec k) _ hc) (by decide)
  | _ =>
    simp only [Prop'.triple, List.mem_cons, List.not_mem_nil, or_false] at htp
    rcases htp with rfl | rfl | rfl <;> decide

theorem bool_eq_decide {b : Bool} {P : Prop} [Decidable P] (h : b = true ↔ P) : b = decide P := by
  by_cases hp : P
  · simp [hp, h.mpr hp]
  · have : b = false := by
      cases hb : b with
      | false => rfl
      | true => exact absurd (h.mp hb) hp
    simp [hp, this]

theorem mem_names_Z (ps : List Prop') (h : ∀ p ∈ ps, okProp p) : ['Z'] ∈ (ps.map tup).map (·.1) ↔ Prop'.z ∈ ps := by
  simp only [List.mem_map]
  constructor
  · rintro ⟨x, ⟨p, hp, rfl⟩, hx⟩
    cases p with
    | other n d k => exact absurd hx (h _ hp).1.2.2.2.2.1
    | z => exact hp
    | species => exact absurd hx (by decide)
    | pos => exact absurd hx (by decide)
    | masses => exact absurd hx (by decide)
    | force => exact absurd hx (by decide)
  · intro hz; exact ⟨tup .z, ⟨.z, hz, rfl⟩, rfl⟩

theorem mem_names_species (ps : List Prop') (h : ∀ p ∈ ps, okProp p) :
    "species".toList ∈ (ps.map tup).map (·.1) ↔ Prop'.species ∈ ps := by
  simp only [List.mem_map]
  constructor
  · rintro ⟨x, ⟨p, hp, rfl⟩, hx⟩
    cases p with
    | other n d k => exact absurd hx (h _ hp).1.2.2.2.2.2
    | species => exact hp
    | z => exact absurd hx (by decide)
    | pos => exact absurd hx (by decide)
    | masses => exact absurd hx (by decide)
    | force => exact absurd hx (by decide)
  · intro hz; exact ⟨tup .species, ⟨.species, hz, rfl⟩, rfl⟩

theorem names_contains_Z (ps : List Prop') (h : ∀ p ∈ ps, okProp p) :
    ((ps.map tup).map (·.1)).contains ['Z'] = decide (Prop'.z ∈ ps) :=
  bool_eq_decide (List.contains_iff_mem.trans (mem_names_Z ps h))

theorem names_contains_species (ps : List Prop') (h : ∀ p ∈ ps, okProp p) :
    ((ps.map tup).map (·.1)).contains "species".toList = decide (Prop'.species ∈ ps) :=
  bool_eq_decide (List.contains_iff_mem.trans (mem_names_species ps h))

theorem natToDec_eq_one (k : Nat) : natToDec k = ['1'] ↔ k = 1 := by
  constructor
  · intro h
    have := decToNat_natToDec k
    rw [h] at this
    have h1 : decToNat? ['1'] = some 1 := by decide
    rw [h1] at this
    exact (Option.some.inj this).symm
  · rintro rfl; decide

theorem dtypeKind_single (d : Char) : dtypeKind [d] = kindOf d := by
  unfold dtypeKind kindOf
  simp only [List.cons.injEq, and_true]

theorem pyInt_natToDec' (n : Nat) : pyInt (natToDec n) = some (Int.ofNat n) := by
  have := pyInt_intToDec [] [] (Int.ofNat n) allWs_nil allWs_nil
  simpa [intToDec] using this

/-- one declaration is typed as the published description says -/
theorem propColumn_spec (ps : List Prop') (p : Prop') (hp : p ∈ ps) (hok : okProp p) (c : Column)
    (hc : colOf (decide (Prop'.z ∈ ps)) p = some c) :
    propColumn (decide (Prop'.z ∈ ps)) (decide (Prop'.species ∈ ps)) (tup p) = .ok c := by
  cases p with
  | pos => simp only [colOf, Option.some.injEq] at hc; subst hc; simp [propColumn, tup]
  | masses =>
    simp only [colOf, Option.some.injEq] at hc; subst hc
    have : ("masses".toList = "pos".toList) = False := by decide
    simp [propColumn, tup, this]
  | force =>
    simp only [colOf, Option.some.injEq] at hc; subst hc
    have h1 : ("force".toList = "pos".toList) = False := by decide
    have h2 : ("force".toList = "masses".toList) = False := by decide
    simp [propColumn, tup, h1, h2]
  | z =>
    simp only [colOf, Option.some.injEq] at hc; subst hc
    have h1 : ((['Z'] : Str) = "pos".toList) = False := by decide
    have h2 : ((['Z'] : Str) = "masses".toList) = False := by decide
    have h3 : ((['Z'] : Str) = "force".toList) = False := by decide
    simp [propColumn, tup, h1, h2, h3, hp]
  | species =>
    have h1 : ("species".toList = "pos".toList) = False := by decide
    have h2 : ("species".toList = "masses".toList) = False := by decide
    have h3 : ("species".toList = "force".toList) = False := by decide
    have h4 : ("species".toList = (['Z'] : Str)) = False := by decide
    by_cases hz : Prop'.z ∈ ps
    · simp only [colOf, hz, decide_true, if_true, Option.some.injEq] at hc; subst hc
      simp [propColumn, tup, h1, h2, h3, h4, hz, dtypeKind]
    · simp only [colOf, hz, decide_false, Bool.false_eq_true, if_false, Option.some.injEq] at hc; subst hc
      simp [propColumn, tup, h1, h2, h3, h4, hz, hp]
  | other n d k =>
    obtain ⟨⟨_, n1, n2, n3, n4, n5⟩, hk⟩ := hok
    obtain ⟨kd, hkd⟩ := Option.isSome_iff_exists.mp hk
    simp only [colOf, hkd, Option.map_some, Option.some.injEq] at hc; subst hc
    simp only [propColumn, tup, n1, n2, n3, n4, n5, if_false, Bool.false_and, Bool.false_eq_true, decide_false,
      dtypeKind_single, hkd, natToDec_eq_one]
    by_cases h1 : k = 1
    · subst h1; simp
    · simp [h1, pyInt_natToDec']

theorem mapR_cols (ps all : List Prop') (hsub : ∀ p ∈ ps, p ∈ all) (hok : ∀ p ∈ ps, okProp p) : ∀ cols : List Column,
    mapOpt (colOf (decide (Prop'.z ∈ all))) ps = some cols →
    mapR (propColumn (decide (Prop'.z ∈ all)) (decide (Prop'.species ∈ all))) (ps.map tup) = .ok cols := by
  induction ps with
  | nil => intro cols h; simp [mapOpt] at h; subst h; rfl
  | cons p ps ih =>
    intro cols h
    simp only [mapOpt] at h
    cases hc : colOf (decide (Prop'.z ∈ all)) p with
    | none => simp [hc] at h
    | some c =>
      cases hr : mapOpt (colOf (decide (Prop'.z ∈ all))) ps with
      | none => simp [hc, hr] at h
      | some cs =>
        simp only [hc, hr, Option.some.injEq] at h; subst h
        simp only [List.map_cons, mapR, propColumn_spec all p (hsub p List.mem_cons_self) (hok p List.mem_cons_self) c hc,
          ih (fun x hx => hsub x (List.mem_cons_of_mem _ hx)) (fun x hx => hok x (List.mem_cons_of_mem _ hx)) cs hr]

/-- `_parse_properties` on a `Properties` value of the published layout: every declaration is typed as documented -/
theorem parseProperties_spec (ps : List Prop') (hne : ps ≠ []) (hok : ∀ p ∈ ps, okProp p) (cols : List Column)
    (hc : mapOpt (colOf (decide (Prop'.z ∈ ps))) ps = some cols) : parseProperties (renderProps ps) = .ok cols := by
  have hparts : ps.flatMap Prop'.triple ≠ [] := by
    cases ps with
    | nil => exact absurd rfl hne
    | cons p ps => cases p <;> simp [Prop'.triple]
  unfold parseProperties renderProps
  rw [splitOn_intercalate _ hparts (triples_no_colon ps hok)]
  have hl : (ps.flatMap Prop'.triple).length % 3 = 0 := by rw [length_triples]; omega
  simp only [hl, ne_eq, not_true_eq_false, if_false, group3_triples, names_contains_Z ps hok, names_contains_species ps hok]
  exact mapR_cols ps ps (fun p hp => hp) hok cols hc

end Iodata.FmtR.ExtXyz
