/- Extended XYZ title line: the shlex state machine on `key=value` / `key="…"` pairs, `Lattice`, `Properties`. -/
import Iodata.Lemmas.FmtR.Num
import Iodata.Model.FmtR.ExtXyz
namespace Iodata.FmtR.ExtXyz
open Iodata.Chars Iodata.Decimal Iodata.Fmt Iodata.FmtR

/-! ### shlex -/

theorem plainCh_spec {c : Char} (h : plainCh c = true) :
    shWs c = false ∧ (c == '"') = false ∧ (c == '\'') = false ∧ (c == '\\') = false := by
  unfold plainCh at h
  simp only [Bool.and_eq_true, Bool.not_eq_true', bne_iff_ne, ne_eq] at h
  refine ⟨h.1.1.1, ?_, ?_, ?_⟩ <;> simp [h.1.1.2, h.1.2, h.2]

theorem shlex_word (t : Str) (ht : ∀ c ∈ t, plainCh c = true) : ∀ (cur rest : Str),
    shlexGo .word cur (t ++ rest) = shlexGo .word (cur ++ t) rest := by
  induction t with
  | nil => intro cur rest; simp
  | cons c t ih =>
    intro cur rest
    obtain ⟨h1, h2, h3, h4⟩ := plainCh_spec (ht c List.mem_cons_self)
    simp only [List.cons_append, shlexGo, h1, h2, h3, h4, Bool.false_eq_true, if_false]
    rw [ih (fun x hx => ht x (List.mem_cons_of_mem _ hx))]
    simp

theorem shlex_dq (t : Str) (ht : ∀ c ∈ t, dqCh c = true) : ∀ (cur rest : Str),
    shlexGo .dq cur (t ++ '"' :: rest) = shlexGo .word (cur ++ t) rest := by
  induction t with
  | nil => intro cur rest; simp [shlexGo]
  | cons c t ih =>
    intro cur rest
    have hc := ht c List.mem_cons_self
    unfold dqCh at hc
    simp only [Bool.and_eq_true, bne_iff_ne, ne_eq] at hc
    have h1 : (c == '"') = false := by simp [hc.1]
    have h2 : (c == '\\') = false := by simp [hc.2]
    simp only [List.cons_append, shlexGo, h1, h2, Bool.false_eq_true, if_false]
    rw [ih (fun x hx => ht x (List.mem_cons_of_mem _ hx))]
    simp

/-- a pair is read as one token `key=value`, quotes removed, up to the blank that follows -/
theorem shlex_pair (p : Str × Str × Quote) (h : okPair p) (c : Char) (hc : shWs c = true) (rest : Str) :
    shlexGo .sp [] (renderPair p ++ c :: rest) = (shlexGo .sp [] rest).map ((p.1 ++ '=' :: p.2.1) :: ·) := by
  obtain ⟨k, v, q⟩ := p
  obtain ⟨hne, hk, hv⟩ := h
  obtain ⟨k0, k', rfl⟩ : ∃ k0 k', k = k0 :: k' := by
    cases k with
    | nil => exact absurd rfl hne
    | cons a b => exact ⟨a, b, rfl⟩
  obtain ⟨h1, h2, h3, h4⟩ := plainCh_spec (hk k0 List.mem_cons_self)
  have hk' : ∀ x ∈ k', plainCh x = true := fun x hx => hk x (List.mem_cons_of_mem _ hx)
  have heq : plainCh '=' = true := by decide
  cases q with
  | bare =>
    simp only at hv
    have e : renderPair (k0 :: k', v, .bare) ++ c :: rest = k0 :: ((k' ++ '=' :: v) ++ c :: rest) := by
      simp [renderPair]
    have hall : ∀ x ∈ k' ++ '=' :: v, plainCh x = true := by
      intro x hx
      rcases List.mem_append.mp hx with hx | hx
      · exact hk' x hx
      · rcases List.mem_cons.mp hx with hx | hx
        · subst hx; exact heq
        · exact hv x hx
    rw [e]
    simp only [shlexGo, h1, h2, h3, h4, Bool.false_eq_true, if_false]
    rw [shlex_word _ hall]
    simp only [shlexGo, hc, if_true]
    simp
  | dq =>
    simp only at hv
    have e : renderPair (k0 :: k', v, .dq) ++ c :: rest = k0 :: ((k' ++ ['=']) ++ '"' :: (v ++ '"' :: (c :: rest))) := by
      simp [renderPair]
    have hall : ∀ x ∈ k' ++ ['='], plainCh x = true := by
      intro x hx
      rcases List.mem_append.mp hx with hx | hx
      · exact hk' x hx
      · simp at hx; subst hx; exact heq
    rw [e]
    simp only [shlexGo, h1, h2, h3, h4, Bool.false_eq_true, if_false]
    rw [shlex_word _ hall]
    have hq : (('"' : Char) == '"') = true := by decide
    have hqw : shWs '"' = false := by decide
    simp only [shlexGo, hqw, hq, Bool.false_eq_true, if_false, if_true]
    rw [shlex_dq v hv]
    simp only [shlexGo, hc, if_true]
    simp

/-- `shlex.split` of a title line written as blank-separated pairs: one token per pair, quotes removed -/
theorem shlexSplit_title : ∀ (ps : List (Str × Str × Quote)), (∀ p ∈ ps, okPair p) →
    shlexSplit (renderTitle ps) = some (ps.map fun p => p.1 ++ '=' :: p.2.1) := by
  intro ps; induction ps with
  | nil => intro _; simp [shlexSplit, renderTitle, shlexGo, shWs]
  | cons p ps ih =>
    intro h
    have hp := h p List.mem_cons_self
    have hps : ∀ q ∈ ps, okPair q := fun q hq => h q (List.mem_cons_of_mem _ hq)
    cases ps with
    | nil =>
      have e : renderTitle [p] = renderPair p ++ '\n' :: [] := by simp [renderTitle, List.intercalate]
      unfold shlexSplit
      rw [e, shlex_pair p hp '\n' (by decide) []]
      simp [shlexGo]
    | cons q qs =>
      have e : renderTitle (p :: q :: qs) = renderPair p ++ ' ' :: renderTitle (q :: qs) := by
        simp [renderTitle, List.intercalate]
      have := ih hps
      unfold shlexSplit at this ⊢
      rw [e, shlex_pair p hp ' ' (by decide) _, this]
      simp

/-! ### `key, value = pair.split("=", 1)` -/

theorem splitEq_spec (k v : Str) (hk : '=' ∉ k) : ∀ cur, splitEq cur (k ++ '=' :: v) = some (cur ++ k, v) := by
  induction k with
  | nil => intro cur; simp [splitEq]
  | cons c k ih =>
    intro cur
    have hc : (c == '=') = false := by
      have : c ≠ '=' := fun e => hk (e ▸ List.mem_cons_self)
      simpa using this
    simp only [List.cons_append, splitEq, hc, Bool.false_eq_true, if_false]
    rw [ih (fun hx => hk (List.mem_cons_of_mem _ hx))]
    simp

/-! ### Lattice -/

theorem styleOK_P (d : Nat) (x : Num) (h : x.exp = -(d : Int)) : StyleOK (stP d) x := by
  unfold StyleOK stP; exact ⟨Or.inl rfl, h⟩

theorem mapOpt_pyFloat_render (d : Nat) : ∀ l : List Num, (∀ x ∈ l, x.exp = -(d : Int)) →
    mapOpt pyFloat (l.map (renderNum (stP d))) = some l := by
  intro l; induction l with
  | nil => intro _; rfl
  | cons x l ih =>
    intro h
    have hx : pyFloat (renderNum (stP d) x) = some x := by
      have := pyFloat_renderNum (stP d) x (styleOK_P d x (h x List.mem_cons_self)) [] [] allWs_nil allWs_nil
      simpa using this
    simp only [List.map_cons, mapOpt, hx, ih (fun y hy => h y (List.mem_cons_of_mem _ hy))]

theorem splitWs_renderLattice (d : Nat) (l : List Num) (h : ∀ x ∈ l, x.exp = -(d : Int)) :
    splitWs (renderLattice d l) = l.map (renderNum (stP d)) := by
  unfold renderLattice
  apply splitWs_joinSp
  intro t ht
  obtain ⟨x, hx, rfl⟩ := List.mem_map.mp ht
  exact ⟨renderNum_noWs _ _ (styleOK_P d x (h x hx)), renderNum_ne_nil _ _⟩

/-! ### Properties -/

theorem splitOnGo_tok (t : Str) (ht : ':' ∉ t) : ∀ cur rest, splitOnGo ':' cur (t ++ rest) = splitOnGo ':' (cur ++ t) rest := by
  induction t with
  | nil => intro cur rest; simp
  | cons c t ih =>
    intro cur rest
    have hc : (c == ':') = false := by
      have : c ≠ ':' := fun e => ht (e ▸ List.mem_cons_self)
      simpa using this
    simp only [List.cons_append, splitOnGo, hc, Bool.false_eq_true, if_false]
    rw [ih (fun hx => ht (List.mem_cons_of_mem _ hx))]
    simp

/-- `":".join(parts).split(":") == parts` for a non-empty list of colon-free parts -/
theorem splitOn_intercalate : ∀ (parts : List Str), parts ≠ [] → (∀ t ∈ parts, ':' ∉ t) →
    splitOn ':' (List.intercalate [':'] parts) = parts := by
  intro parts; induction parts with
  | nil => intro h; exact absurd rfl h
  | cons t ts ih =>
    intro _ h
    have ht := h t List.mem_cons_self
    cases ts with
    | nil =>
      have := splitOnGo_tok t ht [] []
      simpa [splitOn, List.intercalate, splitOnGo] using this
    | cons u us =>
      have e : List.intercalate [':'] (t :: u :: us) = t ++ (':' :: List.intercalate [':'] (u :: us)) := by
        simp [List.intercalate]
      have hrest := ih (by simp) (fun x hx => h x (List.mem_cons_of_mem _ hx))
      unfold splitOn at hrest ⊢
      rw [e, splitOnGo_tok t ht [] _]
      simp only [List.nil_append, splitOnGo, beq_self_eq_true, if_true, hrest]

end Iodata.FmtR.ExtXyz
