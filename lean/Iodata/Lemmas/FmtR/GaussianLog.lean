/- Gaussian log matrices: the five-column blocks of the published layout are read back into exactly the
lower triangle (with the symmetric fill), for every matrix size. -/
import Iodata.Lemmas.FmtR.Num
import Iodata.Lemmas.FmtR.Arr
import Iodata.Model.FmtR.GaussianLog
namespace Iodata.FmtR.GLog
open Iodata.Chars Iodata.Decimal Iodata.Fmt Iodata.FmtR

theorem styleOK_E (d : Nat) (x : Num) : StyleOK ⟨d, true, some 'E'⟩ x := by
  unfold StyleOK; exact ⟨Or.inl rfl, Or.inl rfl⟩

/-- `float(text.replace("D", "E"))` of a `Dw.d` number is the number -/
theorem pyFloat_D (d : Nat) (x : Num) (p q : Str) (hp : AllWs p) (hq : AllWs q) :
    pyFloat (p ++ (replaceDE (renderNum (stD d) x) ++ q)) = some x := by
  unfold stD
  rw [replaceDE_renderNum]
  exact pyFloat_renderNum ⟨d, true, some 'E'⟩ x (styleOK_E d x) p q hp hq

theorem pyFloat_D0 (d : Nat) (x : Num) : pyFloat (replaceDE (renderNum (stD d) x)) = some x := by
  have := pyFloat_D d x [] [] allWs_nil allWs_nil
  simpa using this

theorem parseWords_render (d : Nat) : ∀ vs : List Num, parseWords (vs.map (renderNum (stD d))) = .ok vs := by
  intro vs; induction vs with
  | nil => rfl
  | cons v vs ih => simp only [List.map_cons, parseWords, pyFloat_D0, ih]

theorem stD_noWs (d : Nat) (x : Num) : NoWs (renderNum (stD d) x) :=
  renderNum_noWs' _ _ (by intro c hc; simp only [stD, Option.some.injEq] at hc; subst hc; decide)

def valPad (S : Spec) (x : Num) : Padded :=
  ⟨spaces (S.colW - (renderNum (stD S.colD) x).length), renderNum (stD S.colD) x, []⟩

def rowVals (S : Spec) (f : Nat → Nat → Num) (r b : Nat) : List Num :=
  (List.range (min S.perBlock (r - b + 1))).map fun t => f r (b + t)

theorem spaces_ne_nil (n : Nat) (h : 0 < n) : spaces n ≠ [] := by
  obtain ⟨k, rfl⟩ : ∃ k, n = k + 1 := ⟨n - 1, by omega⟩
  simp [spaces, List.replicate_succ]

theorem splitWs_specRow (S : Spec) (f : Nat → Nat → Num) (r b : Nat) (hfit : ∀ c, FitsTwo S (f r c)) :
    splitWs (specRow S f r b) = natToDec (r + 1) :: (rowVals S f r b).map (renderNum (stD S.colD)) := by
  let xs : List Padded := ⟨spaces (S.labelW - (natToDec (r + 1)).length), natToDec (r + 1), []⟩
    :: (rowVals S f r b).map (valPad S)
  have e : specRow S f r b = (xs.map Padded.render).flatten ++ ['\n'] := by
    simp [specRow, xs, Padded.render, rjust, valPad, rowVals, List.map_map, Function.comp_def]
  have hok : ∀ x ∈ xs, x.OK := by
    intro x hx
    rcases List.mem_cons.mp hx with h | h
    · subst h; exact ⟨allWs_spaces _, (allDigits_natToDec _).noWs, natToDec_ne_nil _, allWs_nil⟩
    · obtain ⟨v, _, rfl⟩ := List.mem_map.mp h
      exact ⟨allWs_spaces _, stD_noWs _ _, renderNum_ne_nil _ _, allWs_nil⟩
  have hsep : ∀ x ∈ xs.tail, x.pre ≠ [] := by
    intro x hx
    simp only [xs, List.tail_cons] at hx
    obtain ⟨v, hv, rfl⟩ := List.mem_map.mp hx
    obtain ⟨t, _, rfl⟩ := List.mem_map.mp hv
    have := hfit (b + t)
    unfold FitsTwo at this
    exact spaces_ne_nil (S.colW - (renderNum (stD S.colD) (f r (b + t))).length) (by omega)
  rw [e, splitWs_fields xs ['\n'] hok hsep (brk_nl []), splitWs_allWs _ allWs_nl]
  simp [xs, valPad, List.map_map, Function.comp_def]

theorem length_rowVals (S : Spec) (f : Nat → Nat → Num) (r b : Nat) :
    (rowVals S f r b).length = min S.perBlock (r - b + 1) := by simp [rowVals]

/-- the rows `i, i+1, …` of one block -/
theorem rowsGo_spec (L : Layout) (S : Spec) (n : Nat) (f : Nat → Nat → Num) (b : Nat) (rest : List Str)
    (hskip : L.skipWords = 1) (hfit : ∀ r c, FitsTwo S (f r c)) :
    ∀ c i, i + c = n - b → b < n →
      rowsGo L n b i c ((List.range' i c).map (fun i => specRow S f (b + i) b) ++ rest)
        = .ok ((List.range' i c).flatMap (fun i => assignRow (i + b) b 0 (rowVals S f (b + i) b)), rest) := by
  intro c; induction c with
  | zero => intro i _ _; simp [rowsGo]
  | succ c ih =>
    intro i hic hb
    have hin : rowInRange n (i + b) b (rowVals S f (b + i) b).length = true := by
      rw [length_rowVals]; unfold rowInRange
      simp only [Bool.and_eq_true, decide_eq_true_eq]
      constructor
      · omega
      · right; omega
    simp only [List.range'_succ, List.map_cons, List.cons_append, rowsGo, splitWs_specRow S f (b + i) b (hfit _),
      hskip, List.drop_succ_cons, List.drop_zero, parseWords_render, hin, if_true, List.flatMap_cons]
    rw [ih (i + 1) (by omega) hb]

def blockAssigns (S : Spec) (f : Nat → Nat → Num) (n b : Nat) : Assign2 :=
  (List.range' 0 (n - b)).flatMap (fun i => assignRow (i + b) b 0 (rowVals S f (b + i) b))

/-- the blocks `j, j+1, …` up to the last one -/
theorem twoGo_spec (L : Layout) (S : Spec) (n : Nat) (f : Nat → Nat → Num) (rest : List Str)
    (hskip : L.skipWords = 1) (hstep : L.blockStep = 5) (hfit : ∀ r c, FitsTwo S (f r c)) :
    ∀ m j fuel, m < fuel → j + m = (n + 4) / 5 →
      twoGo L n fuel (5 * j) ((List.range' j m).flatMap (fun k => specBlock S n f (5 * k)) ++ rest)
        = .ok ((List.range' j m).flatMap (fun k => blockAssigns S f n (5 * k)), rest) := by
  intro m; induction m with
  | zero =>
    intro j fuel hf hj
    obtain ⟨g, rfl⟩ : ∃ g, fuel = g + 1 := ⟨fuel - 1, by omega⟩
    have : ¬ 5 * j < n := by omega
    simp [twoGo, this]
  | succ m ih =>
    intro j fuel hf hj
    obtain ⟨g, rfl⟩ : ∃ g, fuel = g + 1 := ⟨fuel - 1, by omega⟩
    have hb : 5 * j < n := by omega
    have hrows := rowsGo_spec L S n f (5 * j)
      ((List.range' (j + 1) m).flatMap (fun k => specBlock S n f (5 * k)) ++ rest) hskip hfit (n - 5 * j) 0 (by omega) hb
    have hnext : 5 * j + L.blockStep = 5 * (j + 1) := by rw [hstep]; omega
    have hsb : specBlock S n f (5 * j)
        = specHeader S n (5 * j) :: (List.range' 0 (n - 5 * j)).map (fun i => specRow S f (5 * j + i) (5 * j)) := by
      simp [specBlock, List.range_eq_range']
    have hba : blockAssigns S f n (5 * j)
        = (List.range' 0 (n - 5 * j)).flatMap (fun i => assignRow (i + 5 * j) (5 * j) 0 (rowVals S f (5 * j + i) (5 * j))) := rfl
    rw [List.range'_succ, List.flatMap_cons, List.flatMap_cons, hsb, hba]
    simp only [List.cons_append, List.append_assoc, twoGo, hb, if_true, hrows, hnext, ih (j + 1) g (by omega) (by omega)]

def allAssigns (S : Spec) (f : Nat → Nat → Num) (n : Nat) : Assign2 :=
  (List.range' 0 ((n + 4) / 5)).flatMap (fun k => blockAssigns S f n (5 * k))

/-- `_load_twoindex_g09` on the printed lower triangle: consumes exactly the matrix and returns these assignments -/
theorem loadTwo_spec (L : Layout) (S : Spec) (n : Nat) (f : Nat → Nat → Num) (rest : List Str)
    (hskip : L.skipWords = 1) (hstep : L.blockStep = 5) (hP : S.perBlock = 5) (hfit : ∀ r c, FitsTwo S (f r c)) :
    loadTwo L n (specTwo S n f ++ rest) = .ok (allAssigns S f n, rest) := by
  have := twoGo_spec L S n f rest hskip hstep hfit ((n + 4) / 5) 0 (n + 1) (by omega) (by omega)
  unfold loadTwo specTwo allAssigns
  rw [hP]
  have e : (n + 5 - 1) / 5 = (n + 4) / 5 := by omega
  rw [e, List.range_eq_range']
  simpa using this

theorem mem_assignRow (r b : Nat) : ∀ (vs : List Num) (j0 : Nat) (kv : Idx2 × Num),
    kv ∈ assignRow r b j0 vs ↔ ∃ t v, vs[t]? = some v ∧ (kv = ((r, j0 + t + b), v) ∨ kv = ((j0 + t + b, r), v)) := by
  intro vs; induction vs with
  | nil => intro j0 kv; simp [assignRow]
  | cons v vs ih =>
    intro j0 kv
    simp only [assignRow, List.mem_cons, ih (j0 + 1) kv]
    constructor
    · rintro (h | h | ⟨t, w, ht, h⟩)
      · exact ⟨0, v, by simp, Or.inl (by simpa using h)⟩
      · exact ⟨0, v, by simp, Or.inr (by simpa using h)⟩
      · refine ⟨t + 1, w, by simpa using ht, ?_⟩
        have e : j0 + 1 + t + b = j0 + (t + 1) + b := by omega
        rw [e] at h; exact h
    · rintro ⟨t, w, ht, h⟩
      cases t with
      | zero =>
        simp only [List.getElem?_cons_zero, Option.some.injEq] at ht
        subst ht
        rcases h with h | h
        · left; simpa using h
        · right; left; simpa using h
      | succ t =>
        right; right
        refine ⟨t, w, by simpa using ht, ?_⟩
        have e : j0 + 1 + t + b = j0 + (t + 1) + b := by omega
        rw [e]; exact h

/-- what is assigned: exactly the printed entries `(r, c)`, `c ≤ r`, and their mirror images -/
theorem mem_allAssigns (S : Spec) (f : Nat → Nat → Num) (n : Nat) (hP : S.perBlock = 5) (kv : Idx2 × Num) :
    kv ∈ allAssigns S f n ↔ ∃ r c, c ≤ r ∧ r < n ∧ (kv = ((r, c), f r c) ∨ kv = ((c, r), f r c)) := by
  unfold allAssigns blockAssigns
  simp only [List.mem_flatMap, List.mem_range'_1, mem_assignRow, rowVals, hP, List.getElem?_map,
    Option.map_eq_some_iff]
  constructor
  · rintro ⟨k, hk, i, hi, t, v, ⟨t', ht', rfl⟩, h⟩
    obtain ⟨hlt, hval⟩ := List.getElem?_eq_some_iff.mp ht'
    simp at hlt hval
    subst hval
    refine ⟨5 * k + i, 5 * k + t, by omega, by omega, ?_⟩
    have e1 : i + 5 * k = 5 * k + i := by omega
    have e2 : 0 + t + 5 * k = 5 * k + t := by omega
    rw [e1, e2] at h; exact h
  · rintro ⟨r, c, hcr, hrn, h⟩
    refine ⟨c / 5, by omega, r - 5 * (c / 5), by omega, c % 5, f r c, ⟨c % 5, ?_, ?_⟩, ?_⟩
    · exact List.getElem?_range (by omega)
    · have : 5 * (c / 5) + (r - 5 * (c / 5)) = r := by omega
      have e : 5 * (c / 5) + c % 5 = c := by omega
      rw [this, e]
    · have e1 : r - 5 * (c / 5) + 5 * (c / 5) = r := by omega
      have e2 : 0 + c % 5 + 5 * (c / 5) = c := by omega
      rw [e1, e2]; exact h

/-- **chunking lemma**: after reading the blocks the array holds the symmetric matrix — element `(r, c)` is the
printed entry `(max r c, min r c)` — for every size `n` -/
theorem getA_allAssigns (S : Spec) (f : Nat → Nat → Num) (n : Nat) (hP : S.perBlock = 5) (r c : Nat)
    (hr : r < n) (hc : c < n) : getA zero (allAssigns S f n) (r, c) = f (max r c) (min r c) := by
  apply getA_of_all
  · by_cases h : c ≤ r
    · exact ⟨((r, c), f r c), (mem_allAssigns S f n hP _).mpr ⟨r, c, h, hr, Or.inl rfl⟩, rfl⟩
    · exact ⟨((r, c), f c r), (mem_allAssigns S f n hP _).mpr ⟨c, r, by omega, hc, Or.inr rfl⟩, rfl⟩
  · intro kv hkv hp
    obtain ⟨r', c', hcr, _, h | h⟩ := (mem_allAssigns S f n hP kv).mp hkv
    · subst h; simp only [Prod.mk.injEq] at hp
      obtain ⟨rfl, rfl⟩ := hp
      simp only
      rw [Nat.max_eq_left hcr, Nat.min_eq_right hcr]
    · subst h; simp only [Prod.mk.injEq] at hp
      obtain ⟨rfl, rfl⟩ := hp
      simp only
      rw [Nat.max_eq_right hcr, Nat.min_eq_left hcr]

/-- nothing outside the `n × n` square is touched -/
theorem allAssigns_in_range (S : Spec) (f : Nat → Nat → Num) (n : Nat) (hP : S.perBlock = 5) :
    ∀ kv ∈ allAssigns S f n, kv.1.1 < n ∧ kv.1.2 < n := by
  intro kv hkv
  obtain ⟨r, c, hcr, hrn, h | h⟩ := (mem_allAssigns S f n hP kv).mp hkv <;> subst h <;> simp <;> omega

end Iodata.FmtR.GLog

namespace Iodata.FmtR.GLog
open Iodata.Chars Iodata.Decimal Iodata.Fmt Iodata.FmtR

/-! ### two-electron integrals -/

theorem replaceDE_append (a b : Str) : replaceDE (a ++ b) = replaceDE a ++ replaceDE b := by
  simp [replaceDE]

theorem replaceDE_spaces (n : Nat) : replaceDE (spaces n) = spaces n := by
  simp [replaceDE, spaces]

theorem intField_spec (w a : Nat) (k : Nat) (x z : Str) (hx : x.length = a) (hk : (natToDec (k + 1)).length ≤ w) :
    intField (a, a + w + 1) (x ++ ((rjust w (natToDec (k + 1)) ++ [' ']) ++ z)) = .ok k := by
  unfold intField
  simp only
  rw [slice_mid a (a + w + 1) x _ z hx (by simp [length_rjust w _ hk]; omega)]
  have : rjust w (natToDec (k + 1)) ++ [' '] = spaces (w - (natToDec (k + 1)).length) ++ (intToDec (Int.ofNat (k + 1)) ++ [' ']) := by
    simp [rjust, intToDec]
  rw [this, pyInt_intToDec _ _ _ (allWs_spaces _) (by decide)]

theorem fourLine_spec (L : Layout) (S : Spec) (hL : LayoutOK L) (hw : S.idxW = 3) (e : Helpers.Idx × Num)
    (hfit : FitsFour S e) : fourLine L (specFourLine S e) = .ok e := by
  obtain ⟨_, _, _, _, h0, h1, h2, h3, hv, _⟩ := hL
  obtain ⟨⟨a, b, c, d⟩, v⟩ := e
  obtain ⟨fa, fb, fc, fd, fv⟩ := hfit
  simp only at fa fb fc fd fv
  rw [hw] at fa fb fc fd
  have la := length_rjust 3 _ fa
  have lb := length_rjust 3 _ fb
  have lc := length_rjust 3 _ fc
  have ld := length_rjust 3 _ fd
  have e0 : specFourLine S ((a, b, c, d), v) = [' ','I','='] ++ ((rjust 3 (natToDec (a + 1)) ++ [' ']) ++
      (specFourPieces S ((a, b, c, d), v)).tail.tail.flatten) := by
    simp [specFourLine, specFourPieces, hw]
  have e1 : specFourLine S ((a, b, c, d), v) = ([' ','I','='] ++ (rjust 3 (natToDec (a + 1)) ++ [' ']) ++ ['J','='])
      ++ ((rjust 3 (natToDec (b + 1)) ++ [' ']) ++ ((specFourPieces S ((a, b, c, d), v)).drop 4).flatten) := by
    simp [specFourLine, specFourPieces, hw]
  have e2 : specFourLine S ((a, b, c, d), v) = ([' ','I','='] ++ (rjust 3 (natToDec (a + 1)) ++ [' ']) ++ ['J','=']
      ++ (rjust 3 (natToDec (b + 1)) ++ [' ']) ++ ['K','='])
      ++ ((rjust 3 (natToDec (c + 1)) ++ [' ']) ++ ((specFourPieces S ((a, b, c, d), v)).drop 6).flatten) := by
    simp [specFourLine, specFourPieces, hw]
  have e3 : specFourLine S ((a, b, c, d), v) = ([' ','I','='] ++ (rjust 3 (natToDec (a + 1)) ++ [' ']) ++ ['J','=']
      ++ (rjust 3 (natToDec (b + 1)) ++ [' ']) ++ ['K','='] ++ (rjust 3 (natToDec (c + 1)) ++ [' ']) ++ ['L','='])
      ++ ((rjust 3 (natToDec (d + 1)) ++ [' ']) ++ ((specFourPieces S ((a, b, c, d), v)).drop 8).flatten) := by
    simp [specFourLine, specFourPieces, hw]
  have e4 : specFourLine S ((a, b, c, d), v) = ([' ','I','='] ++ (rjust 3 (natToDec (a + 1)) ++ [' ']) ++ ['J','=']
      ++ (rjust 3 (natToDec (b + 1)) ++ [' ']) ++ ['K','='] ++ (rjust 3 (natToDec (c + 1)) ++ [' ']) ++ ['L','=']
      ++ (rjust 3 (natToDec (d + 1)) ++ [' ']) ++ ['I','n','t','='])
      ++ (rjust S.valW (renderNum (stD S.valD) v) ++ ['\n']) := by
    simp [specFourLine, specFourPieces, hw]
  have r0 : intField L.i0 (specFourLine S ((a, b, c, d), v)) = .ok a := by
    rw [h0, e0]; exact intField_spec 3 3 a _ _ rfl fa
  have r1 : intField L.i1 (specFourLine S ((a, b, c, d), v)) = .ok b := by
    rw [h1, e1]; exact intField_spec 3 9 b _ _ (by simp [la]) fb
  have r2 : intField L.i2 (specFourLine S ((a, b, c, d), v)) = .ok c := by
    rw [h2, e2]; exact intField_spec 3 15 c _ _ (by simp [la, lb]) fc
  have r3 : intField L.i3 (specFourLine S ((a, b, c, d), v)) = .ok d := by
    rw [h3, e3]; exact intField_spec 3 21 d _ _ (by simp [la, lb, lc]) fd
  have rv : pyFloat (replaceDE (sliceFrom L.valFrom (specFourLine S ((a, b, c, d), v)))) = some v := by
    rw [hv, e4, sliceFrom_append 29 _ _ (by simp [la, lb, lc, ld])]
    unfold rjust
    rw [List.append_assoc, replaceDE_append, replaceDE_append, replaceDE_spaces]
    have : replaceDE ['\n'] = ['\n'] := rfl
    rw [this]
    exact pyFloat_D _ v _ _ (allWs_spaces _) allWs_nl
  unfold fourLine
  rw [r0, r1, r2, r3, rv]

theorem startsWith_specFourLine (S : Spec) (e : Helpers.Idx × Num) :
    startsWith [' ','I','='] (specFourLine S e) = true := by
  simp [startsWith, specFourLine, specFourPieces, List.isPrefixOf]

def fourAssigns (es : List (Helpers.Idx × Num)) : Assign4 :=
  es.flatMap (fun e => (orbit e.1).map (fun w => (w, e.2)))

theorem fourGo_spec (L : Layout) (S : Spec) (hL : LayoutOK L) (hw : S.idxW = 3) (n : Nat) (term : Str) (rest : List Str)
    (hterm : startsWith [' ','I','='] term = false) :
    ∀ es : List (Helpers.Idx × Num), (∀ e ∈ es, FitsFour S e ∧ e.1.1 < n ∧ e.1.2.1 < n ∧ e.1.2.2.1 < n ∧ e.1.2.2.2 < n) →
      fourGo L n (es.map (specFourLine S) ++ term :: rest) = .ok (fourAssigns es, rest) := by
  have hpre : L.fourPrefix = [' ','I','='] := hL.2.2.2.1
  have hperm : L.fourPerm = [0, 2, 1, 3] := hL.2.2.2.2.2.2.2.2.2
  intro es; induction es with
  | nil => intro _; simp [fourGo, hpre, hterm, fourAssigns]
  | cons e es ih =>
    intro h
    obtain ⟨hfit, ha, hb, hc, hd⟩ := h e List.mem_cons_self
    have hrest := ih (fun x hx => h x (List.mem_cons_of_mem _ hx))
    obtain ⟨⟨a, b, c, d⟩, v⟩ := e
    simp only at ha hb hc hd
    simp only [List.map_cons, List.cons_append, fourGo, hpre, startsWith_specFourLine, if_true,
      fourLine_spec L S hL hw _ hfit, hperm, Helpers.applyPat, Helpers.pick, ha, hb, hc, hd, and_self, hrest,
      fourAssigns, List.flatMap_cons, orbit, phys]

/-- `_load_fourindex_g09` on the printed list: every entry is stored at its eight symmetry-related positions
(in physicists' order), the line ending the list is consumed -/
theorem loadFour_spec (L : Layout) (S : Spec) (hL : LayoutOK L) (hw : S.idxW = 3) (n : Nat) (pre : List Str) (term : Str)
    (rest : List Str) (hpre : pre.length = 6) (hterm : startsWith [' ','I','='] term = false)
    (es : List (Helpers.Idx × Num))
    (h : ∀ e ∈ es, FitsFour S e ∧ e.1.1 < n ∧ e.1.2.1 < n ∧ e.1.2.2.1 < n ∧ e.1.2.2.2 < n) :
    loadFour L n (specFour S pre es term ++ rest) = .ok (fourAssigns es, rest) := by
  have hskip : L.fourSkip = 6 := hL.2.2.1
  unfold loadFour specFour
  rw [hskip]
  have hlen : ¬ (pre ++ (es.map (specFourLine S) ++ [term]) ++ rest).length < 6 := by
    simp only [List.length_append, hpre]; omega
  rw [if_neg hlen, List.append_assoc, List.drop_append_of_le_length (by omega), List.drop_of_length_le (by omega)]
  simpa using fourGo_spec L S hL hw n term rest hterm es h

/-- the array after reading: an element in the orbit of an entry holds that entry's value (entries whose orbits
meet must agree, as they do in a file that lists each unique integral once), everything else stays zero -/
theorem getA_fourAssigns (es : List (Helpers.Idx × Num)) (e : Helpers.Idx × Num) (he : e ∈ es) (p : Helpers.Idx)
    (hp : p ∈ orbit e.1) (hcons : ∀ e' ∈ es, p ∈ orbit e'.1 → e'.2 = e.2) :
    getA zero (fourAssigns es) p = e.2 := by
  apply getA_of_all
  · exact ⟨(p, e.2), List.mem_flatMap.mpr ⟨e, he, List.mem_map.mpr ⟨p, hp, rfl⟩⟩, rfl⟩
  · intro kv hkv hkp
    obtain ⟨e', he', hm⟩ := List.mem_flatMap.mp hkv
    obtain ⟨w, hw, rfl⟩ := List.mem_map.mp hm
    simp only at hkp; subst hkp
    exact hcons e' he' hw

theorem getA_fourAssigns_zero (es : List (Helpers.Idx × Num)) (p : Helpers.Idx) (h : ∀ e ∈ es, p ∉ orbit e.1) :
    getA zero (fourAssigns es) p = zero := by
  apply getA_untouched
  intro kv hkv hkp
  obtain ⟨e', he', hm⟩ := List.mem_flatMap.mp hkv
  obtain ⟨w, hw, rfl⟩ := List.mem_map.mp hm
  simp only at hkp; subst hkp
  exact h e' he' hw

end Iodata.FmtR.GLog

namespace Iodata.FmtR.GLog
open Iodata.Chars Iodata.Decimal Iodata.Fmt Iodata.FmtR

/-! ### whole files -/

/-- the marker strings of the source are the headings Gaussian prints -/
def MarkersOK (L : Layout) : Prop :=
  L.nbasisPrefix = [' ',' ',' ',' ','N','B','a','s','i','s',' ','='] ∧ L.nbasisSl = (12, 18) ∧
  L.termPrefix = [' ','N','o','r','m','a','l',' ','t','e','r','m','i','n','a','t','i','o','n',' ','o','f',' ','G','a','u','s','s','i','a','n'] ∧
  L.olp = [' ','*','*','*',' ','O','v','e','r','l','a','p',' ','*','*','*'] ∧
  L.kin = [' ','*','*','*',' ','K','i','n','e','t','i','c',' ','E','n','e','r','g','y',' ','*','*','*'] ∧
  L.na = [' ','*','*','*','*','*',' ','P','o','t','e','n','t','i','a','l',' ','E','n','e','r','g','y',' ','*','*','*','*','*'] ∧
  L.er = [' ','*','*','*',' ','D','u','m','p','i','n','g',' ','T','w','o','-','E','l','e','c','t','r','o','n',' ','i','n','t','e','g','r','a','l','s',' ','*','*','*']

instance (L : Layout) : Decidable (MarkersOK L) := by unfold MarkersOK; infer_instance

/-- a line that is none of the section headings nor the termination line -/
def plainLine (L : Layout) (l : Str) : Prop :=
  startsWith L.termPrefix l = false ∧ startsWith L.olp l = false ∧ startsWith L.kin l = false ∧
  startsWith L.na l = false ∧ startsWith L.er l = false

def SecOK (L : Layout) (S : Spec) (n : Nat) : Sec → Prop
  | .two k f => k < 3 ∧ ∀ r c, FitsTwo S (f r c)
  | .four pre es term => pre.length = 6 ∧ startsWith [' ','I','='] term = false ∧
      ∀ e ∈ es, FitsFour S e ∧ e.1.1 < n ∧ e.1.2.1 < n ∧ e.1.2.2.1 < n ∧ e.1.2.2.2 < n
  | .other l => plainLine L l

/-- what a section stores -/
def applySec (S : Spec) (n : Nat) (o : Obj) : Sec → Obj
  | .two 0 f => { o with olp := some (allAssigns S f n) }
  | .two 1 f => { o with kin := some (allAssigns S f n) }
  | .two _ f => { o with na := some (allAssigns S f n) }
  | .four _ es _ => { o with er := some (fourAssigns es) }
  | .other _ => o

theorem sec_lines_pos (S : Spec) (n : Nat) (s : Sec) : 0 < (Sec.lines S n s).length := by
  cases s <;> simp [Sec.lines]

theorem mainGo_spec (L : Layout) (S : Spec) (hL : LayoutOK L) (hM : MarkersOK L) (hP : S.perBlock = 5) (hw : S.idxW = 3)
    (n : Nat) (post : List Str) : ∀ (secs : List Sec) (fuel : Nat) (o : Obj), (∀ s ∈ secs, SecOK L S n s) →
    (secs.flatMap (Sec.lines S n)).length < fuel →
    mainGo L n fuel (secs.flatMap (Sec.lines S n) ++ termLine :: post) o = .ok (secs.foldl (applySec S n) o) := by
  obtain ⟨_, _, ht, ho, hk, hn, he⟩ := hM
  have t_term : startsWith L.termPrefix termLine = true := by rw [ht]; decide
  have f0 : startsWith L.termPrefix (markerLine 0) = false ∧ startsWith L.olp (markerLine 0) = true := by
    rw [ht, ho]; decide
  have f1 : startsWith L.termPrefix (markerLine 1) = false ∧ startsWith L.olp (markerLine 1) = false ∧
      startsWith L.kin (markerLine 1) = true := by rw [ht, ho, hk]; decide
  have f2 : startsWith L.termPrefix (markerLine 2) = false ∧ startsWith L.olp (markerLine 2) = false ∧
      startsWith L.kin (markerLine 2) = false ∧ startsWith L.na (markerLine 2) = true := by rw [ht, ho, hk, hn]; decide
  have fe : startsWith L.termPrefix erMarkerLine = false ∧ startsWith L.olp erMarkerLine = false ∧
      startsWith L.kin erMarkerLine = false ∧ startsWith L.na erMarkerLine = false ∧ startsWith L.er erMarkerLine = true := by
    rw [ht, ho, hk, hn, he]; decide
  intro secs; induction secs with
  | nil =>
    intro fuel o _ hf
    obtain ⟨g, rfl⟩ : ∃ g, fuel = g + 1 := ⟨fuel - 1, by simp at hf; omega⟩
    simp [mainGo, t_term]
  | cons s secs ih =>
    intro fuel o hs hf
    have hrest : ∀ x ∈ secs, SecOK L S n x := fun x hx => hs x (List.mem_cons_of_mem _ hx)
    have hpos := sec_lines_pos S n s
    simp only [List.flatMap_cons, List.length_append] at hf
    obtain ⟨g, rfl⟩ : ∃ g, fuel = g + 1 := ⟨fuel - 1, by omega⟩
    have hg : (secs.flatMap (Sec.lines S n)).length < g := by omega
    have hok := hs s List.mem_cons_self
    simp only [List.flatMap_cons, List.foldl_cons]
    cases s with
    | other l =>
      obtain ⟨p1, p2, p3, p4, p5⟩ := hok
      simp only [Sec.lines, List.cons_append, List.nil_append, mainGo, p1, p2, p3, p4, p5, Bool.false_eq_true, if_false, applySec]
      exact ih g o hrest hg
    | four pre es term =>
      obtain ⟨q1, q2, q3⟩ := hok
      have := loadFour_spec L S hL hw n pre term (secs.flatMap (Sec.lines S n) ++ termLine :: post) q1 q2 es q3
      simp only [Sec.lines, List.cons_append, List.append_assoc, mainGo, fe.1, fe.2.1, fe.2.2.1, fe.2.2.2.1, fe.2.2.2.2,
        Bool.false_eq_true, if_false, if_true, this, applySec]
      exact ih g _ hrest hg
    | two k f =>
      obtain ⟨hk3, hfit⟩ := hok
      have := loadTwo_spec L S n f (secs.flatMap (Sec.lines S n) ++ termLine :: post) hL.1 hL.2.1 hP hfit
      match k, hk3 with
      | 0, _ =>
        simp only [Sec.lines, List.cons_append, List.append_assoc, mainGo, f0.1, f0.2, Bool.false_eq_true, if_false, if_true,
          this, applySec]
        exact ih g _ hrest hg
      | 1, _ =>
        simp only [Sec.lines, List.cons_append, List.append_assoc, mainGo, f1.1, f1.2.1, f1.2.2, Bool.false_eq_true, if_false,
          if_true, this, applySec]
        exact ih g _ hrest hg
      | 2, _ =>
        simp only [Sec.lines, List.cons_append, List.append_assoc, mainGo, f2.1, f2.2.1, f2.2.2.1, f2.2.2.2, Bool.false_eq_true,
          if_false, if_true, this, applySec]
        exact ih g _ hrest hg

theorem findNBasis_spec (L : Layout) (hM : MarkersOK L) (n : Nat) (hn : (natToDec n).length ≤ 4) (rest : List Str) :
    ∀ pre : List Str, (∀ l ∈ pre, startsWith L.nbasisPrefix l = false) →
      findNBasis L (pre ++ nbasisLine n :: rest) = .ok (n, rest) := by
  obtain ⟨hp, hs, _⟩ := hM
  intro pre; induction pre with
  | nil =>
    intro _
    have h1 : startsWith L.nbasisPrefix (nbasisLine n) = true := by
      rw [hp]; simp [startsWith, nbasisLine, List.isPrefixOf]
    have h2 : slice 12 18 (nbasisLine n) = rjust 4 (natToDec n) ++ [' ', ' '] := by
      have e : nbasisLine n = [' ',' ',' ',' ','N','B','a','s','i','s',' ','='] ++ ((rjust 4 (natToDec n) ++ [' ', ' ']) ++
          ['M','i','n','D','e','r',' ','=',' ','0',' ',' ','M','a','x','D','e','r',' ','=',' ','0','\n']) := by
        simp [nbasisLine]
      rw [e]
      exact slice_mid 12 18 _ _ _ rfl (by simp [length_rjust 4 _ hn])
    have h3 : pyInt (rjust 4 (natToDec n) ++ [' ', ' ']) = some (Int.ofNat n) := by
      have := pyInt_intToDec (spaces (4 - (natToDec n).length)) [' ', ' '] (Int.ofNat n) (allWs_spaces _) (by decide)
      simpa [rjust, intToDec] using this
    simp only [List.nil_append, findNBasis, h1, if_true, hs, h2, h3]
  | cons l pre ih =>
    intro h
    simp only [List.cons_append, findNBasis, h l List.mem_cons_self, Bool.false_eq_true, if_false]
    exact ih (fun x hx => h x (List.mem_cons_of_mem _ hx))

/-- C03 for Gaussian logs: a whole log in the published layout loads as the sections it prints -/
theorem load_spec (L : Layout) (S : Spec) (hL : LayoutOK L) (hM : MarkersOK L) (hP : S.perBlock = 5) (hw : S.idxW = 3)
    (pre : List Str) (n : Nat) (secs : List Sec) (post : List Str)
    (hpre : ∀ l ∈ pre, startsWith L.nbasisPrefix l = false) (hn : (natToDec n).length ≤ 4)
    (hs : ∀ s ∈ secs, SecOK L S n s) :
    load L (specFile S pre n secs post) = .ok (secs.foldl (applySec S n) ⟨n, none, none, none, none⟩) := by
  unfold load specFile
  rw [findNBasis_spec L hM n hn _ pre hpre]
  simp only
  exact mainGo_spec L S hL hM hP hw n post secs _ _ hs (by rw [List.length_append, List.length_cons]; omega)

end Iodata.FmtR.GLog
