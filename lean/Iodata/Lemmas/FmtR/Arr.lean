/- Assignment logs: what an array holds after a sequence of item assignments; nested `range` loops. -/
import Iodata.Model.FmtR.Arr
namespace Iodata.FmtR

theorem foldl_assign {κ α : Type} [DecidableEq κ] (p : κ) (x : α) :
    ∀ (A : List (κ × α)) (acc : α), (acc = x ∨ ∃ kv ∈ A, kv.1 = p) → (∀ kv ∈ A, kv.1 = p → kv.2 = x) →
      A.foldl (fun acc kv => if kv.1 = p then kv.2 else acc) acc = x := by
  intro A; induction A with
  | nil =>
    intro acc h _
    rcases h with h | ⟨kv, hkv, _⟩
    · exact h
    · cases hkv
  | cons kv A ih =>
    intro acc h hall
    simp only [List.foldl_cons]
    apply ih
    · by_cases hk : kv.1 = p
      · left; simp only [hk, if_true]; exact hall kv List.mem_cons_self hk
      · simp only [hk, if_false]
        rcases h with h | ⟨kv', hkv', hp⟩
        · left; exact h
        · rcases List.mem_cons.mp hkv' with e | e
          · subst e; exact absurd hp hk
          · right; exact ⟨kv', e, hp⟩
    · intro kv' hkv' hp; exact hall kv' (List.mem_cons_of_mem _ hkv') hp

/-- if `p` is assigned at least once and every assignment to `p` stores `x`, then `a[p] = x` -/
theorem getA_of_all {κ α : Type} [DecidableEq κ] (zero : α) (A : List (κ × α)) (p : κ) (x : α)
    (hex : ∃ kv ∈ A, kv.1 = p) (hall : ∀ kv ∈ A, kv.1 = p → kv.2 = x) : getA zero A p = x :=
  foldl_assign p x A zero (Or.inr hex) hall

/-- an element that is never assigned stays zero -/
theorem getA_untouched {κ α : Type} [DecidableEq κ] (zero : α) (A : List (κ × α)) (p : κ)
    (h : ∀ kv ∈ A, kv.1 ≠ p) : getA zero A p = zero :=
  foldl_assign p zero A zero (Or.inl rfl) (fun kv hkv hp => absurd hp (h kv hkv))

/-- two nested `range` loops enumerate `g (t / m) (t % m)` for `t = 0 … n·m − 1` -/
theorem flatMap_range_map {α : Type} (g : Nat → Nat → α) (m : Nat) (hm : 0 < m) : ∀ n,
    (List.range n).flatMap (fun i => (List.range m).map (fun j => g i j))
      = (List.range (n * m)).map (fun t => g (t / m) (t % m)) := by
  intro n; induction n with
  | zero => simp
  | succ n ih =>
    rw [List.range_succ, List.flatMap_append, ih, Nat.succ_mul, List.range_add, List.map_append]
    congr 1
    simp only [List.flatMap_cons, List.flatMap_nil, List.append_nil, List.map_map]
    apply List.map_congr_left
    intro j hj
    have hj' : j < m := List.mem_range.mp hj
    simp only [Function.comp]
    have h1 : (n * m + j) / m = n := by
      rw [Nat.mul_comm, Nat.mul_add_div hm, Nat.div_eq_of_lt hj']; rfl
    have h2 : (n * m + j) % m = j := by
      rw [Nat.mul_comm, Nat.mul_add_mod, Nat.mod_eq_of_lt hj']
    rw [h1, h2]

end Iodata.FmtR
