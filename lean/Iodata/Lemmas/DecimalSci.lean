/- Round trip of scientific notation: `float(pad + f"{x: w.dE}" + pad')` is `x`, for every mantissa/exponent pair. -/
import Iodata.Lemmas.Decimal
namespace Iodata.Decimal
open Iodata.Chars

theorem natToDec_lt10 (n : Nat) (h : n < 10) : natToDec n = [digitChar n] := by
  unfold natToDec natToDecF; simp [h]

theorem manDigits_noWs (d m : Nat) : NoWs (manDigits d m) := fixDigits_noWs d m

theorem expStr_allDigits_tail (e : Int) :
    ∃ ds, expStr e = (if e < 0 then '-' else '+') :: ds ∧ AllDigits ds ∧ decToNat? ds = some e.natAbs ∧ 2 ≤ ds.length := by
  unfold expStr
  by_cases h : (natToDec e.natAbs).length < 2
  · refine ⟨'0' :: natToDec e.natAbs, by simp [h], ?_, ?_, ?_⟩
    · intro c hc; rcases List.mem_cons.mp hc with hc | hc
      · subst hc; decide
      · exact allDigits_natToDec _ c hc
    · have := digitsVal_natToDec e.natAbs
      simp only [decToNat?, List.isEmpty_cons, Bool.false_eq_true, if_false, digitsVal, digitsValGo] at this ⊢
      simpa [charDigit?] using this
    · have := natToDec_ne_nil e.natAbs
      cases e' : natToDec e.natAbs with
      | nil => exact absurd e' this
      | cons _ _ => simp
  · exact ⟨natToDec e.natAbs, by simp [h], allDigits_natToDec _, decToNat_natToDec _, by omega⟩

theorem expStr_noWs (e : Int) : NoWs (expStr e) := by
  obtain ⟨ds, h, hd, _, _⟩ := expStr_allDigits_tail e
  rw [h]
  exact noWs_cons (by split <;> decide) hd.noWs

theorem splitSign_expStr (e : Int) : ∃ ds, splitSign (expStr e) = (decide (e < 0), ds) ∧ decToNat? ds = some e.natAbs := by
  obtain ⟨ds, h, _, hv, _⟩ := expStr_allDigits_tail e
  refine ⟨ds, ?_, hv⟩
  rw [h]
  by_cases he : e < 0 <;> simp [he, splitSign]

theorem sciBody_noWs (c : Char) (hc : isWs c = false) (d m : Nat) (e : Int) : NoWs (manDigits d m ++ c :: expStr e) :=
  noWs_append (manDigits_noWs d m) (noWs_cons hc (expStr_noWs e))

theorem manDigits_head (d m : Nat) : ∃ c r, manDigits d m = c :: r ∧ c ∈ digitChars := fixDigits_head d m

/-- parsing `D.DDDD(E|e)±XX` -/
theorem pySci_body (neg : Bool) (c : Char) (hc : c = 'E' ∨ c = 'e') (d m : Nat) (e : Int) (hd : 0 < d) (hm : m < 10 ^ (d + 1)) :
    (let u := manDigits d m ++ c :: expStr e
     let ip := u.takeWhile isDigitA
     match u.dropWhile isDigitA with
     | '.' :: r =>
       let fp := r.takeWhile isDigitA
       match r.dropWhile isDigitA with
       | e :: x =>
         if (e == 'E' || e == 'e') && decide (fp.length = d) && decide (ip.length = 1) then
           let (eneg, ed) := splitSign x
           match digitsVal ip, digitsVal fp, decToNat? ed with
           | some a, some b, some ev => some (⟨neg, a * 10 ^ d + b, if eneg then - (ev : Int) else ev⟩ : Sci)
           | _, _, _ => none
         else none
       | [] => none
     | _ => none) = some ⟨neg, m, e⟩ := by
  have hlt : m / 10 ^ d < 10 := by
    rw [Nat.div_lt_iff_lt_mul (Nat.pow_pos (by omega))]
    rw [Nat.pow_succ] at hm; omega
  have hip : natToDec (m / 10 ^ d) = [digitChar (m / 10 ^ d)] := natToDec_lt10 _ hlt
  have hdne : d ≠ 0 := by omega
  have hcd : isDigitA c = false := by rcases hc with h | h <;> subst h <;> decide
  have hce : (c == 'E' || c == 'e') = true := by rcases hc with h | h <;> subst h <;> decide
  have h1 := takeWhile_run isDigitA (natToDec (m / 10 ^ d)) (digitsW d (m % 10 ^ d) ++ c :: expStr e) '.'
    (allDigits_natToDec _).digitA (by decide)
  have h2 := takeWhile_run isDigitA (digitsW d (m % 10 ^ d)) (expStr e) c (allDigits_digitsW _ _).digitA hcd
  obtain ⟨ds, hs, hv⟩ := splitSign_expStr e
  have hu : manDigits d m ++ c :: expStr e
      = natToDec (m / 10 ^ d) ++ '.' :: (digitsW d (m % 10 ^ d) ++ c :: expStr e) := by
    simp [manDigits, hdne]
  simp only [hu, h1.1, h1.2, h2.1, h2.2, hce, length_digitsW, hs, hv, digitsVal_natToDec,
    digitsVal_digitsW_lt d (m % 10 ^ d) (Nat.mod_lt _ (Nat.pow_pos (by omega)))]
  simp only [hip, List.length_singleton, decide_true, Bool.and_self, if_true]
  congr 1
  · congr 1
    · exact Nat.div_add_mod' m (10 ^ d)
    · by_cases he : e < 0
      · simp [he]; omega
      · simp [he]; omega

/-- `float(pad + text + pad')` for the text of a `.dE` / `.de` field (with or without the `' '` flag) is the
mantissa/exponent pair that was printed — every sign (incl. `-0.0`), every exponent (any number of digits) -/
theorem pySci_sciCoreC (sp : Bool) (c : Char) (hc : c = 'E' ∨ c = 'e') (d : Nat) (x : Sci) (hd : 0 < d)
    (hm : x.man < 10 ^ (d + 1)) (p q : Str) (hp : AllWs p) (hq : AllWs q) :
    pySci d (p ++ (sciCoreC sp c d x ++ q)) = some x := by
  obtain ⟨neg, m, e⟩ := x
  have hcw : isWs c = false := by rcases hc with h | h <;> subst h <;> decide
  have hb := sciBody_noWs c hcw d m e
  have hstrip : strip (p ++ (sciCoreC sp c d ⟨neg, m, e⟩ ++ q))
      = (if neg then ['-'] else []) ++ (manDigits d m ++ c :: expStr e) := by
    cases neg with
    | true =>
      simp only [sciCoreC, signStr, if_true]
      exact strip_noWs_pad p _ q hp hq (noWs_cons (by decide) hb)
    | false =>
      cases sp with
      | false =>
        simp only [sciCoreC, signStr, if_false, Bool.false_eq_true, List.nil_append]
        exact strip_noWs_pad p _ q hp hq hb
      | true =>
        simp only [sciCoreC, signStr, if_true, if_false, Bool.false_eq_true, List.nil_append]
        have : p ++ ([' '] ++ (manDigits d m ++ c :: expStr e) ++ q) = (p ++ [' ']) ++ ((manDigits d m ++ c :: expStr e) ++ q) := by simp
        rw [this]
        exact strip_noWs_pad (p ++ [' ']) _ q (allWs_append hp (by decide)) hq hb
  unfold pySci
  rw [hstrip]
  have hhead : ∃ ch r, manDigits d m ++ c :: expStr e = ch :: r ∧ ch ∈ digitChars := by
    obtain ⟨ch, r, h, hm⟩ := manDigits_head d m
    exact ⟨ch, r ++ c :: expStr e, by rw [h]; rfl, hm⟩
  cases neg with
  | true =>
    simp only [if_true, List.singleton_append, splitSign_neg]
    exact pySci_body true c hc d m e hd hm
  | false =>
    simp only [if_false, Bool.false_eq_true, List.nil_append, splitSign_digits _ hhead]
    exact pySci_body false c hc d m e hd hm

theorem pySci_fmtSci (sp up : Bool) (w d : Nat) (x : Sci) (hd : 0 < d) (hm : x.man < 10 ^ (d + 1)) (q : Str) (hq : AllWs q) :
    pySci d (fmtSci sp up w d x ++ q) = some x := by
  unfold fmtSci rjust sciCore
  rw [List.append_assoc]
  exact pySci_sciCoreC sp _ (by cases up <;> simp) d x hd hm _ q (allWs_spaces _) hq

/-! ### Fortran `D` exponents -/

theorem replaceD_append (a b : Str) : replaceD (a ++ b) = replaceD a ++ replaceD b := by simp [replaceD]

theorem replaceD_id (s : Str) (h : 'D' ∉ s) : replaceD s = s := by
  induction s with
  | nil => rfl
  | cons c s ih =>
    have hc : (c == 'D') = false := by
      have : c ≠ 'D' := fun e => h (e ▸ List.mem_cons_self)
      simpa using this
    have := ih (fun hx => h (List.mem_cons_of_mem _ hx))
    unfold replaceD at this ⊢
    rw [List.map_cons, this, hc]; rfl

theorem AllDigits.no_D {s : Str} (h : AllDigits s) : 'D' ∉ s := fun hc => absurd (h _ hc) (by decide)

theorem manDigits_no_D (d m : Nat) : 'D' ∉ manDigits d m := by
  unfold manDigits
  intro h
  rcases List.mem_append.mp h with h | h
  · exact (allDigits_natToDec _).no_D h
  · split at h
    · cases h
    · rcases List.mem_cons.mp h with h | h
      · exact absurd h (by decide)
      · exact (allDigits_digitsW _ _).no_D h

theorem expStr_no_D (e : Int) : 'D' ∉ expStr e := by
  obtain ⟨ds, h, hd, _, _⟩ := expStr_allDigits_tail e
  rw [h]; intro hc
  rcases List.mem_cons.mp hc with hc | hc
  · split at hc <;> exact absurd hc (by decide)
  · exact hd.no_D hc

/-- a number printed by Fortran with a `D` exponent becomes the `E` text after `.replace("D", "E")` -/
theorem replaceD_sciCoreC (sp : Bool) (d : Nat) (x : Sci) : replaceD (sciCoreC sp 'D' d x) = sciCoreC sp 'E' d x := by
  unfold sciCoreC
  rw [replaceD_append, replaceD_append]
  have h1 : replaceD (signStr sp x.neg) = signStr sp x.neg := by
    cases sp <;> cases x.neg <;> rfl
  have h3 : replaceD ('D' :: expStr x.exp) = 'E' :: expStr x.exp := by
    have := replaceD_id _ (expStr_no_D x.exp)
    unfold replaceD at this ⊢
    rw [List.map_cons, this]; rfl
  rw [h1, replaceD_id _ (manDigits_no_D d x.man), h3]

theorem replaceD_allWs (p : Str) (hp : AllWs p) : replaceD p = p :=
  replaceD_id p (fun h => absurd (hp _ h) (by decide))

/-- `float(word.replace("D", "E"))` on Fortran `D` text gives the printed mantissa/exponent pair -/
theorem pySci_replaceD (sp : Bool) (d : Nat) (x : Sci) (hd : 0 < d) (hm : x.man < 10 ^ (d + 1)) (p q : Str)
    (hp : AllWs p) (hq : AllWs q) : pySci d (replaceD (p ++ (sciCoreC sp 'D' d x ++ q))) = some x := by
  rw [replaceD_append, replaceD_append, replaceD_sciCoreC, replaceD_allWs p hp, replaceD_allWs q hq]
  exact pySci_sciCoreC sp 'E' (Or.inl rfl) d x hd hm p q hp hq

theorem length_sciCoreC (sp : Bool) (c : Char) (d : Nat) (x : Sci) (hd : 0 < d) (hm : x.man < 10 ^ (d + 1)) :
    (sciCoreC sp c d x).length = (signStr sp x.neg).length + (d + 3) + (expStr x.exp).length := by
  have hlt : x.man / 10 ^ d < 10 := by
    rw [Nat.div_lt_iff_lt_mul (Nat.pow_pos (by omega))]
    rw [Nat.pow_succ] at hm; omega
  have hdne : d ≠ 0 := by omega
  simp [sciCoreC, manDigits, natToDec_lt10 _ hlt, hdne, length_digitsW]
  omega

end Iodata.Decimal
