/- Analysis lemmas for C06: Gaussian moments and polynomial Gaussian integrals over ℝ (Mathlib). -/
import Iodata.Lemmas.Overlap
import Mathlib.Analysis.SpecialFunctions.Gaussian.GaussianIntegral
import Mathlib.MeasureTheory.Integral.Gamma
import Mathlib.MeasureTheory.Measure.Lebesgue.Integral
import Mathlib.MeasureTheory.Group.Integral

namespace Iodata.Overlap
open Real MeasureTheory Set
open scoped Nat

theorem fact2_eq (n : ℕ) : fact2 n = n‼ := by
  induction n using Nat.strong_induction_on with
  | _ n ih =>
    match n with
    | 0 => rfl
    | 1 => rfl
    | k + 2 => simp only [fact2, Nat.doubleFactorial]; rw [ih k (by omega)]

theorem facts_two_mul (k : ℕ) : facts (2 * k) = (2 * k - 1)‼ := by
  cases k with
  | zero => rfl
  | succ k =>
    have : 2 * (k + 1) = (2 * k + 1) + 1 := by ring
    rw [this]; simp only [facts, fact2_eq]; rfl

theorem integrable_pow_gauss (p : ℝ) (hp : 0 < p) (m : ℕ) :
    Integrable fun x : ℝ => x ^ m * exp (-p * x ^ 2) := by
  have h := integrable_rpow_mul_exp_neg_mul_sq hp (s := (m : ℝ)) (by
    have : (0:ℝ) ≤ m := Nat.cast_nonneg m
    linarith)
  simpa [rpow_natCast] using h

theorem moment_even (p : ℝ) (hp : 0 < p) (k : ℕ) :
    ∫ x : ℝ, x ^ (2 * k) * exp (-p * x ^ 2) = √(π / p) * (((facts (2 * k) : ℕ) : ℝ) / (2 * p) ^ k) := by
  have h1 : (fun x : ℝ => x ^ (2 * k) * exp (-p * x ^ 2))
      = fun x => (fun y : ℝ => y ^ (2 * k) * exp (-p * y ^ 2)) |x| := by
    funext x
    simp only [pow_mul, sq_abs]
  rw [h1, integral_comp_abs (f := fun y : ℝ => y ^ (2 * k) * exp (-p * y ^ 2))]
  have h2 : ∫ x in Ioi (0:ℝ), x ^ (2 * k) * exp (-p * x ^ 2)
      = ∫ x in Ioi (0:ℝ), x ^ ((2 * k : ℕ) : ℝ) * exp (-p * x ^ (2:ℝ)) := by
    refine setIntegral_congr_fun measurableSet_Ioi (fun x _ => ?_)
    simp only [rpow_natCast, rpow_two]
  rw [h2, integral_rpow_mul_exp_neg_mul_rpow (by norm_num) (by
    have : (0:ℝ) ≤ ((2 * k : ℕ) : ℝ) := Nat.cast_nonneg _
    linarith) hp]
  have h3 : (((2 * k : ℕ) : ℝ) + 1) / 2 = (k : ℝ) + 1 / 2 := by push_cast; ring
  have h4 : -(((2 * k : ℕ) : ℝ) + 1) / 2 = -((k : ℝ) + 1 / 2) := by push_cast; ring
  rw [h3, h4, Real.Gamma_nat_add_half, facts_two_mul]
  rw [rpow_neg hp.le, rpow_add hp, rpow_natCast, ← sqrt_eq_rpow, sqrt_div pi_pos.le, mul_pow]
  have hs : √p ≠ 0 := (sqrt_pos.mpr hp).ne'
  field_simp

theorem moment_odd (p : ℝ) (k : ℕ) :
    ∫ x : ℝ, x ^ (2 * k + 1) * exp (-p * x ^ 2) = 0 := by
  have h := integral_neg_eq_self (fun x : ℝ => x ^ (2 * k + 1) * exp (-p * x ^ 2)) volume
  have h2 : (fun x : ℝ => (-x) ^ (2 * k + 1) * exp (-p * (-x) ^ 2)) = fun x => -(x ^ (2 * k + 1) * exp (-p * x ^ 2)) := by
    funext x
    rw [Odd.neg_pow ⟨k, rfl⟩, neg_sq]; ring
  simp only [h2, integral_neg] at h
  linarith

open Polynomial

theorem moment_all (p : ℝ) (hp : 0 < p) (m : ℕ) :
    ∫ x : ℝ, x ^ m * exp (-p * x ^ 2) = √(π / p) * mom (2 * p) m := by
  rcases Nat.even_or_odd' m with ⟨k, rfl | rfl⟩
  · rw [moment_even p hp k]
    have h1 : (2 * k) % 2 = 0 := by omega
    have h2 : (2 * k) / 2 = k := by omega
    simp [mom, h1, h2]
  · rw [moment_odd]
    have h1 : ¬ (2 * k + 1) % 2 = 0 := by omega
    simp [mom]

theorem integral_poly_gauss (p : ℝ) (hp : 0 < p) (P : ℝ[X]) :
    Integrable (fun x : ℝ => P.eval x * exp (-p * x ^ 2)) ∧
    ∫ x : ℝ, P.eval x * exp (-p * x ^ 2) = √(π / p) * gaussL (2 * p) P := by
  induction P using Polynomial.induction_on' with
  | add P Q hP hQ =>
    have e : (fun x : ℝ => (P + Q).eval x * exp (-p * x ^ 2))
        = fun x => P.eval x * exp (-p * x ^ 2) + Q.eval x * exp (-p * x ^ 2) := by
      funext x; rw [eval_add, add_mul]
    rw [e]
    refine ⟨hP.1.add hQ.1, ?_⟩
    rw [integral_add hP.1 hQ.1, hP.2, hQ.2, map_add, mul_add]
  | monomial n a =>
    have e : (fun x : ℝ => (monomial n a).eval x * exp (-p * x ^ 2))
        = fun x => a * (x ^ n * exp (-p * x ^ 2)) := by
      funext x; rw [eval_monomial]; ring
    rw [e]
    refine ⟨(integrable_pow_gauss p hp n).const_mul a, ?_⟩
    rw [integral_const_mul, moment_all p hp n, ← C_mul_X_pow_eq_monomial, gaussL_C_mul_X_pow]
    ring

end Iodata.Overlap
