/- Helper lemmas for C12/C14 (model: `Iodata/Model/Orbitals.lean`). -/
import Iodata.Model.Orbitals
set_option linter.unusedSimpArgs false
namespace Iodata.Orb

/-! ### list arithmetic -/

theorem sum_nil : sum [] = 0 := rfl
theorem sum_cons (x : Rat) (l : List Rat) : sum (x :: l) = x + sum l := by simp [sum]
theorem sum_append (a b : List Rat) : sum (a ++ b) = sum a + sum b := by
  induction a with
  | nil => simp [sum] <;> grind
  | cons x t ih => simp only [List.cons_append, sum_cons, ih]; grind

theorem sum_take_drop (o : List Rat) (k : Nat) : sum (o.take k) + sum (o.drop k) = sum o := by
  rw [← sum_append, List.take_append_drop]

theorem sum_map_add (f g : Rat → Rat) (l : List Rat) :
    sum (l.map f) + sum (l.map g) = sum (l.map fun x => f x + g x) := by
  induction l with
  | nil => simp [sum] <;> grind
  | cons x t ih => simp only [List.map_cons, sum_cons]; grind

theorem sum_map_sub (f g : Rat → Rat) (l : List Rat) :
    sum (l.map f) - sum (l.map g) = sum (l.map fun x => f x - g x) := by
  induction l with
  | nil => simp [sum] <;> grind
  | cons x t ih => simp only [List.map_cons, sum_cons]; grind

theorem sum_zipWith_add (f g : Rat → Rat → Rat) : ∀ (a b : List Rat),
    sum (List.zipWith f a b) + sum (List.zipWith g a b) = sum (List.zipWith (fun x y => f x y + g x y) a b)
  | [], _ => by simp [sum] <;> grind
  | _ :: _, [] => by simp [sum] <;> grind
  | x :: a, y :: b => by
    simp only [List.zipWith_cons_cons, sum_cons]
    have := sum_zipWith_add f g a b
    grind

theorem sum_zipWith_sub (f g : Rat → Rat → Rat) : ∀ (a b : List Rat),
    sum (List.zipWith f a b) - sum (List.zipWith g a b) = sum (List.zipWith (fun x y => f x y - g x y) a b)
  | [], _ => by simp [sum] <;> grind
  | _ :: _, [] => by simp [sum] <;> grind
  | x :: a, y :: b => by
    simp only [List.zipWith_cons_cons, sum_cons]
    have := sum_zipWith_sub f g a b
    grind

theorem zipWith_snd : ∀ (a b : List Rat), a.length = b.length → List.zipWith (fun _ y => y) a b = b
  | [], [], _ => rfl
  | [], _ :: _, h => by simp at h
  | _ :: _, [], h => by simp at h
  | x :: a, y :: b, h => by
    simp only [List.zipWith_cons_cons]
    rw [zipWith_snd a b (by simpa using h)]

theorem zipWith_fst : ∀ (a b : List Rat), a.length = b.length → List.zipWith (fun x _ => x) a b = a
  | [], [], _ => rfl
  | [], _ :: _, h => by simp at h
  | _ :: _, [], h => by simp at h
  | x :: a, y :: b, h => by
    simp only [List.zipWith_cons_cons]
    rw [zipWith_fst a b (by simpa using h)]

/-- `zipWith h (zipWith f a b) (zipWith g a b) = zipWith (fun x y => h (f x y) (g x y)) a b` -/
theorem zipWith_zipWith (h f g : Rat → Rat → Rat) : ∀ (a b : List Rat),
    List.zipWith h (List.zipWith f a b) (List.zipWith g a b) = List.zipWith (fun x y => h (f x y) (g x y)) a b
  | [], _ => by simp
  | _ :: _, [] => by simp
  | x :: a, y :: b => by simp [zipWith_zipWith h f g a b]

theorem zipWith_map_map (h : Rat → Rat → Rat) (f g : Rat → Rat) (l : List Rat) :
    List.zipWith h (l.map f) (l.map g) = l.map (fun x => h (f x) (g x)) := by
  induction l with
  | nil => rfl
  | cons x t ih => simp [ih]

theorem map_id' (l : List Rat) (f : Rat → Rat) (hf : ∀ x, f x = x) : l.map f = l := by
  induction l with
  | nil => rfl
  | cons x t ih => simp [hf, ih]

theorem zipWith_congr (f g : Rat → Rat → Rat) (hfg : ∀ x y, f x y = g x y) (a b : List Rat) :
    List.zipWith f a b = List.zipWith g a b := by
  have : f = g := funext fun x => funext fun y => hfg x y
  rw [this]

theorem absR_neg (x : Rat) : absR (-x) = absR x := by
  unfold absR
  by_cases h1 : x < 0 <;> by_cases h2 : -x < 0 <;> simp [h1, h2] <;> grind

theorem absR_zero : absR 0 = 0 := by decide +kernel

theorem bcast_eq_len (f : Rat → Rat → Rat) {a b : List Rat} (h : a.length = b.length) :
    bcast f a b = some (List.zipWith f a b) := by simp [bcast, h]

theorem assignSlice_len {t v h : List Rat} (hs : assignSlice t v = some h) : h.length = t.length := by
  unfold assignSlice at hs
  split at hs
  · cases hs; assumption
  · split at hs
    · cases hs; simp
    · cases hs

theorem assignSlice_eq_len {t v : List Rat} (h : v.length = t.length) : assignSlice t v = some v := by
  simp [assignSlice, h]

/-! ### the invariant -/

def get (m : MO) : Fld → Option (List Rat)
  | .occs => m.occs | .coeffs => m.coeffs | .energies => m.energies | .irreps => m.irreps | .aminusb => m.aminusb

/-- kind and orbital counts fit together (`validate_norbab`, `in_`) -/
def CountsOk (m : MO) : Prop :=
  match m.kind with
  | .restricted => m.norba.isSome ∧ m.norbb = m.norba
  | .unrestricted => m.norba.isSome ∧ m.norbb.isSome
  | .generalized => m.norba = none ∧ m.norbb = none
  | .other => False

/-- every array that is set has `norb` entries (columns) -/
def LensOk (m : MO) : Prop := ∀ f a, get m f = some a → norb m = some a.length

/-- the invariant of constructed objects under array / occsa / occsb / kind / norba / norbb assignments -/
def Inv (m : MO) : Prop := CountsOk m ∧ LensOk m ∧ (m.aminusb ≠ none → m.kind = .restricted)

theorem get_put (m : MO) (f g : Fld) (v : Option (List Rat)) :
    get (put m f v) g = if g = f then v else get m g := by
  cases f <;> cases g <;> simp [get, put]

theorem put_kind (m : MO) (f : Fld) (v) : (put m f v).kind = m.kind := by cases f <;> rfl
theorem put_norba (m : MO) (f : Fld) (v) : (put m f v).norba = m.norba := by cases f <;> rfl
theorem put_norbb (m : MO) (f : Fld) (v) : (put m f v).norbb = m.norbb := by cases f <;> rfl

theorem norb_put_nongen (m : MO) (f : Fld) (v) (h : m.kind ≠ .generalized) : norb (put m f v) = norb m := by
  unfold norb
  rw [put_kind, put_norba, put_norbb]
  cases hk : m.kind <;> simp_all

theorem norb_put_aminusb (m : MO) (v) : norb (put m .aminusb v) = norb m := rfl

/-- generalized: `norb` is the length of one of the four arrays that is set -/
theorem norb_gen_some {m : MO} (hk : m.kind = .generalized) {k : Nat} (h : norb m = some k) :
    ∃ f b, f ≠ .aminusb ∧ get m f = some b ∧ b.length = k := by
  unfold norb at h; rw [hk] at h; simp only at h
  cases hc : m.coeffs with
  | some c => rw [hc] at h; simp at h; exact ⟨.coeffs, c, by decide, hc, h⟩
  | none =>
    cases ho : m.occs with
    | some o => rw [hc, ho] at h; simp at h; exact ⟨.occs, o, by decide, ho, h⟩
    | none =>
      cases he : m.energies with
      | some e => rw [hc, ho, he] at h; simp at h; exact ⟨.energies, e, by decide, he, h⟩
      | none =>
        cases hi : m.irreps with
        | some i => rw [hc, ho, he, hi] at h; simp at h; exact ⟨.irreps, i, by decide, hi, h⟩
        | none => rw [hc, ho, he, hi] at h; simp at h

theorem norb_gen_none {m : MO} (hk : m.kind = .generalized) (h : norb m = none) (f : Fld) (hf : f ≠ .aminusb) :
    get m f = none := by
  unfold norb at h; rw [hk] at h; simp only at h
  cases hc : m.coeffs <;> cases ho : m.occs <;> cases he : m.energies <;> cases hi : m.irreps <;>
    rw [hc, ho, he, hi] at h <;> simp at h
  cases f <;> simp_all [get]

theorem norb_gen_isSome {m : MO} (hk : m.kind = .generalized) {f : Fld} {b : List Rat} (hf : f ≠ .aminusb)
    (hg : get m f = some b) : ∃ k, norb m = some k := by
  cases h : norb m with
  | some k => exact ⟨k, rfl⟩
  | none => rw [norb_gen_none hk h f hf] at hg; cases hg

/-- generalized: if all arrays that are set have length `n` and one of the four is set, `norb = n` -/
theorem norb_gen_of_all {m : MO} (hk : m.kind = .generalized) {n : Nat}
    (hall : ∀ f b, get m f = some b → b.length = n) {f : Fld} {b : List Rat} (hf : f ≠ .aminusb)
    (hg : get m f = some b) : norb m = some n := by
  obtain ⟨k, hk'⟩ := norb_gen_isSome hk hf hg
  obtain ⟨g, c, _, hgc, hlen⟩ := norb_gen_some hk hk'
  rw [hk', ← hlen, hall g c hgc]

/-- storing a validated array keeps the length agreement -/
theorem lensOk_put_some {m : MO} (hi : Inv m) {f : Fld} {a : List Rat} (hs : shapeOk m a.length = true)
    (hfk : f = .aminusb → m.kind = .restricted) : LensOk (put m f (some a)) := by
  obtain ⟨_, hl, hab⟩ := hi
  by_cases hk : m.kind = .generalized
  · -- generalized
    have hf : f ≠ .aminusb := fun h => by rw [hfk h] at hk; cases hk
    have hab' : m.aminusb = none := by
      cases h : m.aminusb with
      | none => rfl
      | some d => have := hab (by simp [h]); rw [this] at hk; cases hk
    have hall : ∀ g b, get (put m f (some a)) g = some b → b.length = a.length := by
      intro g b hg
      rw [get_put] at hg
      split at hg
      · cases hg; rfl
      · have := hl g b hg
        simp [shapeOk, this] at hs; exact hs
    have hk' : (put m f (some a)).kind = .generalized := by rw [put_kind]; exact hk
    have hself : get (put m f (some a)) f = some a := by rw [get_put]; simp
    intro g b hg
    rw [norb_gen_of_all hk' hall hf hself, hall g b hg]
  · intro g b hg
    rw [norb_put_nongen m f _ hk]
    rw [get_put] at hg
    split at hg
    · cases hg
      cases hn : norb m with
      | some k => simp [shapeOk, hn] at hs; rw [hs]
      | none =>
        -- (un)restricted kinds always know `norb`
        exfalso
        obtain ⟨hc, _, _⟩ := (⟨‹CountsOk m›, hl, hab⟩ : Inv m)
        unfold CountsOk at hc; unfold norb at hn
        cases hkk : m.kind <;> rw [hkk] at hc hn <;> simp at hc hn
        · cases h1 : m.norba <;> simp_all
        · cases h1 : m.norba <;> cases h2 : m.norbb <;> simp_all
        · exact hk hkk
    · exact hl g b hg

theorem lensOk_put_none {m : MO} (hi : Inv m) (f : Fld) : LensOk (put m f none) := by
  obtain ⟨_, hl, hab⟩ := hi
  by_cases hk : m.kind = .generalized
  · have hab' : m.aminusb = none := by
      cases h : m.aminusb with
      | none => rfl
      | some d => have := hab (by simp [h]); rw [this] at hk; cases hk
    have hk' : (put m f none).kind = .generalized := by rw [put_kind]; exact hk
    intro g b hg
    have hg0 := hg
    rw [get_put] at hg
    split at hg
    · cases hg
    · have hgne : g ≠ .aminusb := by
        intro h; subst h; simp [get, hab'] at hg
      have hn := hl g b hg
      have hall : ∀ g' b', get (put m f none) g' = some b' → b'.length = b.length := by
        intro g' b' hg'
        rw [get_put] at hg'
        split at hg'
        · cases hg'
        · have := hl g' b' hg'; rw [hn] at this; exact (Option.some.inj this).symm
      exact norb_gen_of_all hk' hall hgne hg0
  · intro g b hg
    rw [norb_put_nongen m f _ hk]
    rw [get_put] at hg
    split at hg
    · cases hg
    · exact hl g b hg


/-! ### stores, construction, setters keep the invariant -/

theorem put_aminusb_ne {m : MO} {f : Fld} (v) (hf : f ≠ .aminusb) : (put m f v).aminusb = m.aminusb := by
  cases f <;> first | rfl | exact absurd rfl hf

theorem countsOk_put {m : MO} (f v) (h : CountsOk m) : CountsOk (put m f v) := by
  unfold CountsOk at *; rw [put_kind, put_norba, put_norbb]; exact h

theorem vShape_none_iff (m : MO) (v : Option (List Rat)) :
    vShape m v = none ↔ ∀ a, v = some a → shapeOk m a.length = true := by
  cases v with
  | none => simp [vShape]
  | some a => simp only [vShape]; split <;> simp_all

theorem vAminusb_none_iff (m : MO) (v : Option (List Rat)) :
    vAminusb m v = none ↔ (∀ a, v = some a → shapeOk m a.length = true) ∧ (v ≠ none → m.kind = .restricted) := by
  unfold vAminusb
  cases hs : vShape m v with
  | some e =>
    simp only [reduceCtorEq, false_iff]
    intro ⟨h, _⟩
    rw [(vShape_none_iff m v).mpr h] at hs; cases hs
  | none =>
    have := (vShape_none_iff m v).mp hs
    simp only
    cases v with
    | none => simp
    | some a => by_cases hk : m.kind = .restricted <;> simp [hk, this]

theorem inv_store {m : MO} (hi : Inv m) (f : Fld) (v : Option (List Rat)) : Inv (store m f v).1 := by
  unfold store
  split
  · exact hi
  · rename_i hchk
    refine ⟨countsOk_put f v hi.1, ?_, ?_⟩
    · cases v with
      | none => exact lensOk_put_none hi f
      | some a =>
        by_cases hf : f = .aminusb
        · subst hf
          simp only [if_true] at hchk
          have := (vAminusb_none_iff m (some a)).mp hchk
          exact lensOk_put_some hi (this.1 a rfl) (fun _ => this.2 (by simp))
        · simp only [hf, if_false] at hchk
          have := (vShape_none_iff m (some a)).mp hchk
          exact lensOk_put_some hi (this a rfl) (fun h => absurd h hf)
    · rw [put_kind]
      by_cases hf : f = .aminusb
      · subst hf
        simp only [if_true] at hchk
        have := (vAminusb_none_iff m v).mp hchk
        intro hne; exact this.2 hne
      · rw [put_aminusb_ne v hf]; exact hi.2.2

theorem store_err_state (m : MO) (f v) (h : (store m f v).2 ≠ none) : (store m f v).1 = m := by
  unfold store at h ⊢; split
  · rfl
  · rename_i hh; rw [hh] at h; simp at h

theorem inv_andThen {r : MO × Option Err} {g : MO → MO × Option Err} (h : Inv r.1)
    (hg : ∀ m, Inv m → Inv (g m).1) : Inv (andThen r g).1 := by
  unfold andThen; split
  · exact h
  · exact hg _ h

theorem inv_setSpinRestricted {m : MO} (hi : Inv m) (beta : Bool) (v : List Rat) :
    Inv (setSpinRestricted m beta v).1 := by
  unfold setSpinRestricted
  split
  · exact inv_andThen (inv_store hi _ _) (fun m1 h1 => inv_store h1 _ _)
  · split
    · exact hi
    · exact hi
    · split
      · exact inv_andThen (inv_store hi _ _) (fun m1 h1 => inv_store h1 _ _)
      · exact hi

/-- replacing `occs` by a list of the same length keeps the invariant -/
theorem inv_occs_same_len {m : MO} (hi : Inv m) {o o' : List Rat} (ho : m.occs = some o)
    (hlen : o'.length = o.length) : Inv { m with occs := some o' } := by
  have hs : shapeOk m o'.length = true := by
    have := hi.2.1 .occs o ho
    simp [shapeOk, this, hlen]
  have := inv_store hi .occs (some o')
  simp only [store, if_false, reduceCtorEq] at this
  rw [(vShape_none_iff m (some o')).mpr (fun a ha => by cases ha; exact hs)] at this
  exact this

theorem inv_setOccsa {m : MO} (hi : Inv m) (v : List Rat) : Inv (setOccsa m v).1 := by
  unfold setOccsa
  split
  · exact hi
  · split
    · exact inv_setSpinRestricted hi _ _
    · split
      · exact hi
      · rename_i o ho
        simp only
        split
        · rename_i h hs
          apply inv_occs_same_len hi ho
          have := assignSlice_len hs
          simp only [List.length_append, this, List.length_take, List.length_drop]
          omega
        · exact hi

theorem inv_setOccsb {m : MO} (hi : Inv m) (v : List Rat) : Inv (setOccsb m v).1 := by
  unfold setOccsb
  split
  · exact hi
  · split
    · exact inv_setSpinRestricted hi _ _
    · split
      · exact hi
      · rename_i o ho
        simp only
        split
        · rename_i h hs
          apply inv_occs_same_len hi ho
          have := assignSlice_len hs
          simp only [List.length_append, this, List.length_take, List.length_drop]
          omega
        · exact hi


/-! ### construction accepts exactly the consistent arguments -/

theorem firstErr_none_iff (l : List (Option Err)) : firstErr l = none ↔ ∀ x ∈ l, x = none := by
  induction l with
  | nil => simp [firstErr]
  | cons a t ih =>
    cases a with
    | none => simp [firstErr, ih]
    | some e => simp [firstErr]

theorem countsOk_iff_checks (a : MO) :
    CountsOk a ↔ (vKind a.kind = none ∧ vNorbab a true a.norba = none ∧ vNorbab a false a.norbb = none) := by
  unfold CountsOk vKind vNorbab
  cases hk : a.kind <;> cases ha : a.norba <;> cases hb : a.norbb <;> simp <;> grind

/-- (un)restricted kinds with valid counts know `norb` -/
theorem norb_isSome_of_counts {m : MO} (hc : CountsOk m) (hk : m.kind ≠ .generalized) : ∃ k, norb m = some k := by
  unfold CountsOk at hc; unfold norb
  cases hkk : m.kind <;> rw [hkk] at hc <;> simp at hc ⊢
  · cases h1 : m.norba <;> simp_all
  · cases h1 : m.norba <;> cases h2 : m.norbb <;> simp_all
  · exact absurd hkk hk

theorem shapeOk_of_lens {m : MO} (hl : LensOk m) {f : Fld} {a : List Rat} (h : get m f = some a) :
    shapeOk m a.length = true := by
  simp [shapeOk, hl f a h]

theorem lensOk_of_shapes {m : MO} (hc : CountsOk m) (hab : m.aminusb ≠ none → m.kind = .restricted)
    (hs : ∀ f a, get m f = some a → shapeOk m a.length = true) : LensOk m := by
  intro f a hf
  have hsf := hs f a hf
  cases hn : norb m with
  | some k => simp [shapeOk, hn] at hsf; rw [hsf]
  | none =>
    exfalso
    by_cases hk : m.kind = .generalized
    · by_cases hfa : f = .aminusb
      · subst hfa
        have := hab (by simp [get] at hf; simp [hf])
        rw [this] at hk; cases hk
      · rw [norb_gen_none hk hn f hfa] at hf; cases hf
    · obtain ⟨k, hk'⟩ := norb_isSome_of_counts hc hk
      rw [hk'] at hn; cases hn

/-- the constructor accepts exactly the arguments satisfying the invariant, and returns them unchanged -/
theorem construct_ok_iff (a : MO) : construct a = .ok a ↔ Inv a := by
  unfold construct
  constructor
  · intro h
    cases hf : firstErr (initChecks a) with
    | some e => rw [hf] at h; cases h
    | none =>
      have hall := (firstErr_none_iff _).mp hf
      simp only [initChecks, List.mem_cons, List.mem_nil_iff, or_false, forall_eq_or_imp, forall_eq] at hall
      obtain ⟨h1, h2, h3, h4, h5, h6, h7, h8⟩ := hall
      have hc : CountsOk a := (countsOk_iff_checks a).mpr ⟨h1, h2, h3⟩
      have h8' := (vAminusb_none_iff a a.aminusb).mp h8
      refine ⟨hc, lensOk_of_shapes hc h8'.2 ?_, h8'.2⟩
      intro f x hfx
      cases f
      · exact (vShape_none_iff a a.occs).mp h4 x hfx
      · exact (vShape_none_iff a a.coeffs).mp h5 x hfx
      · exact (vShape_none_iff a a.energies).mp h6 x hfx
      · exact (vShape_none_iff a a.irreps).mp h7 x hfx
      · exact h8'.1 x hfx
  · intro ⟨hc, hl, hab⟩
    have hck := (countsOk_iff_checks a).mp hc
    have hall : firstErr (initChecks a) = none := by
      rw [firstErr_none_iff]
      simp only [initChecks, List.mem_cons, List.mem_nil_iff, or_false, forall_eq_or_imp, forall_eq]
      refine ⟨hck.1, hck.2.1, hck.2.2, ?_, ?_, ?_, ?_, ?_⟩
      · exact (vShape_none_iff _ _).mpr (fun x hx => shapeOk_of_lens hl (f := .occs) hx)
      · exact (vShape_none_iff _ _).mpr (fun x hx => shapeOk_of_lens hl (f := .coeffs) hx)
      · exact (vShape_none_iff _ _).mpr (fun x hx => shapeOk_of_lens hl (f := .energies) hx)
      · exact (vShape_none_iff _ _).mpr (fun x hx => shapeOk_of_lens hl (f := .irreps) hx)
      · exact (vAminusb_none_iff _ _).mpr ⟨fun x hx => shapeOk_of_lens hl (f := .aminusb) hx, hab⟩
    rw [hall]

theorem construct_ok_eq {a m : MO} (h : construct a = .ok m) : m = a := by
  unfold construct at h; split at h
  · cases h
  · cases h; rfl

theorem inv_construct {a m : MO} (h : construct a = .ok m) : Inv m := by
  have := construct_ok_eq h; subst this
  exact (construct_ok_iff m).mp h

/-! ### re-assignment of kind / norba / norbb (`reassign`) -/

theorem firstErr_none_inv {a : MO} (h : firstErr (initChecks a) = none) : Inv a := by
  have : construct a = .ok a := by unfold construct; rw [h]
  exact (construct_ok_iff a).mp this

theorem inv_firstErr_none {a : MO} (h : Inv a) : firstErr (initChecks a) = none := by
  have := (construct_ok_iff a).mpr h
  unfold construct at this
  cases hf : firstErr (initChecks a) with
  | none => rfl
  | some e => rw [hf] at this; cases this

/-- a re-assignment either raises and leaves the object unchanged, or stores the new value -/
theorem reassign_cases (m m' : MO) (own : Option Err) (same : Bool) :
    (∃ e, reassign m m' own same = (m, some e)) ∨ reassign m m' own same = (m', none) := by
  unfold reassign
  cases own with
  | some e => exact Or.inl ⟨e, rfl⟩
  | none =>
    cases same with
    | true => exact Or.inr rfl
    | false =>
      simp only [Bool.false_eq_true, if_false]
      cases firstErr (initChecks m') with
      | some e => exact Or.inl ⟨e, rfl⟩
      | none => exact Or.inr rfl

theorem reassign_ok_state {m m' : MO} {own : Option Err} {same : Bool}
    (h : (reassign m m' own same).2 = none) : reassign m m' own same = (m', none) := by
  rcases reassign_cases m m' own same with ⟨e, he⟩ | he
  · rw [he] at h; cases h
  · exact he

theorem reassign_err_state {m m' : MO} {own : Option Err} {same : Bool} {e : Err}
    (h : (reassign m m' own same).2 = some e) : reassign m m' own same = (m, some e) := by
  rcases reassign_cases m m' own same with ⟨e', he⟩ | he
  · rw [he] at h ⊢; cases h; rfl
  · rw [he] at h; cases h

/-- accepted exactly when the modified object satisfies the invariant (`hsame`: an unchanged value gives
the same object; `hown`: the attribute's own validator is implied by the invariant of the result) -/
theorem reassign_ok_iff {m m' : MO} {own : Option Err} {same : Bool} (hi : Inv m)
    (hsame : same = true → m' = m) (hown : Inv m' → own = none) :
    (reassign m m' own same).2 = none ↔ Inv m' := by
  unfold reassign
  constructor
  · intro h
    cases own with
    | some e => cases h
    | none =>
      cases same with
      | true => rw [hsame rfl]; exact hi
      | false =>
        simp only [Bool.false_eq_true, if_false] at h
        cases hf : firstErr (initChecks m') with
        | some e => rw [hf] at h; cases h
        | none => exact firstErr_none_inv hf
  · intro h
    rw [hown h]
    cases same with
    | true => rfl
    | false => simp only [Bool.false_eq_true, if_false]; rw [inv_firstErr_none h]

theorem inv_reassign {m m' : MO} (hi : Inv m) (own : Option Err) {same : Bool} (hsame : same = true → m' = m) :
    Inv (reassign m m' own same).1 := by
  unfold reassign
  cases own with
  | some e => exact hi
  | none =>
    cases same with
    | true => simp only [if_true]; rw [hsame rfl]; exact hi
    | false =>
      simp only [Bool.false_eq_true, if_false]
      cases hf : firstErr (initChecks m') with
      | some e => exact hi
      | none => exact firstErr_none_inv hf

theorem setKind_same (m : MO) (k : Kind) (h : (m.kind == k) = true) : { m with kind := k } = m := by
  have := eq_of_beq h; subst this; rfl

theorem setNorba_same (m : MO) (v : Option Nat) (h : (m.norba == v) = true) : { m with norba := v } = m := by
  have := eq_of_beq h; subst this; rfl

theorem setNorbb_same (m : MO) (v : Option Nat) (h : (m.norbb == v) = true) : { m with norbb := v } = m := by
  have := eq_of_beq h; subst this; rfl

theorem vKind_of_counts {m : MO} (k : Kind) (h : CountsOk { m with kind := k }) : vKind k = none :=
  ((countsOk_iff_checks _).mp h).1

theorem vNorba_of_counts {m : MO} (v : Option Nat) (h : CountsOk { m with norba := v }) : vNorbab m true v = none :=
  ((countsOk_iff_checks _).mp h).2.1

theorem vNorbb_of_counts {m : MO} (v : Option Nat) (h : CountsOk { m with norbb := v }) : vNorbab m false v = none :=
  ((countsOk_iff_checks _).mp h).2.2

theorem inv_setKind {m : MO} (hi : Inv m) (k : Kind) : Inv (setKind m k).1 :=
  inv_reassign hi _ (setKind_same m k)

theorem inv_setNorba {m : MO} (hi : Inv m) (v : Option Nat) : Inv (setNorba m v).1 :=
  inv_reassign hi _ (setNorba_same m v)

theorem inv_setNorbb {m : MO} (hi : Inv m) (v : Option Nat) : Inv (setNorbb m v).1 :=
  inv_reassign hi _ (setNorbb_same m v)

/-! #### which exception: `ValueError` for kind/count contradictions, `TypeError` for lengths -/

theorem vKind_err (k : Kind) : vKind k = none ∨ vKind k = some .valueError := by
  unfold vKind; split <;> simp

theorem vNorbab_err (m : MO) (isA : Bool) (v : Option Nat) :
    vNorbab m isA v = none ∨ vNorbab m isA v = some .valueError := by
  unfold vNorbab
  split
  · split <;> simp
  · split
    · simp
    · split
      · simp only; split <;> simp <;> exact Classical.em _
      · simp

theorem vShape_err (m : MO) (v : Option (List Rat)) : vShape m v = none ∨ vShape m v = some .typeError := by
  unfold vShape
  split
  · simp
  · split <;> simp

theorem vShape_bad {m : MO} {v : Option (List Rat)} {x : List Rat} (h : v = some x)
    (hs : shapeOk m x.length = false) : vShape m v = some .typeError := by
  subst h; simp [vShape, hs]

theorem vAminusb_bad {m : MO} {v : Option (List Rat)} {x : List Rat} (h : v = some x)
    (hs : shapeOk m x.length = false) : vAminusb m v = some .typeError := by
  simp [vAminusb, vShape_bad h hs]

theorem vAminusb_err (m : MO) (v : Option (List Rat)) :
    vAminusb m v = none ∨ vAminusb m v = some .typeError ∨
      (vAminusb m v = some .valueError ∧ vShape m v = none) := by
  unfold vAminusb
  rcases vShape_err m v with h | h
  · rw [h]; simp only; split <;> simp
  · rw [h]; simp

/-- the exception raised by the validators of a whole object (constructor, or the copy made by
`validate_change`): `ValueError` when kind and counts contradict each other, else `TypeError` when some
array has the wrong length, else `ValueError` for `occs_aminusb` on a non-restricted kind -/
theorem firstErr_initChecks (a : MO) :
    (¬ CountsOk a → firstErr (initChecks a) = some .valueError) ∧
    (CountsOk a → (∃ f x, get a f = some x ∧ shapeOk a x.length = false) →
      firstErr (initChecks a) = some .typeError) ∧
    (CountsOk a → (∀ f x, get a f = some x → shapeOk a x.length = true) → a.aminusb ≠ none →
      a.kind ≠ .restricted → firstErr (initChecks a) = some .valueError) := by
  refine ⟨?_, ?_, ?_⟩
  · intro hc
    rw [countsOk_iff_checks] at hc
    rcases vKind_err a.kind with h1 | h1
    · rcases vNorbab_err a true a.norba with h2 | h2
      · rcases vNorbab_err a false a.norbb with h3 | h3
        · exact absurd ⟨h1, h2, h3⟩ hc
        · simp [initChecks, firstErr, h1, h2, h3]
      · simp [initChecks, firstErr, h1, h2]
    · simp [initChecks, firstErr, h1]
  · intro hc ⟨f, x, hg, hs⟩
    obtain ⟨h1, h2, h3⟩ := (countsOk_iff_checks a).mp hc
    rcases vShape_err a a.occs with h4 | h4 <;> rcases vShape_err a a.coeffs with h5 | h5 <;>
      rcases vShape_err a a.energies with h6 | h6 <;> rcases vShape_err a a.irreps with h7 | h7 <;>
      (try simp [initChecks, firstErr, h1, h2, h3, h4, h5, h6, h7])
    -- all four array validators pass: the bad one is `occs_aminusb`
    cases f
    · rw [vShape_bad (show a.occs = some x from hg) hs] at h4; cases h4
    · rw [vShape_bad (show a.coeffs = some x from hg) hs] at h5; cases h5
    · rw [vShape_bad (show a.energies = some x from hg) hs] at h6; cases h6
    · rw [vShape_bad (show a.irreps = some x from hg) hs] at h7; cases h7
    · simp [firstErr, vAminusb_bad (show a.aminusb = some x from hg) hs]
  · intro hc hall hab hk
    obtain ⟨h1, h2, h3⟩ := (countsOk_iff_checks a).mp hc
    have h4 := (vShape_none_iff a a.occs).mpr (fun x hx => hall .occs x hx)
    have h5 := (vShape_none_iff a a.coeffs).mpr (fun x hx => hall .coeffs x hx)
    have h6 := (vShape_none_iff a a.energies).mpr (fun x hx => hall .energies x hx)
    have h7 := (vShape_none_iff a a.irreps).mpr (fun x hx => hall .irreps x hx)
    have h8 := (vShape_none_iff a a.aminusb).mpr (fun x hx => hall .aminusb x hx)
    have hsome : a.aminusb.isSome = true := by
      cases h : a.aminusb with
      | none => exact absurd h hab
      | some _ => rfl
    simp [initChecks, firstErr, h1, h2, h3, h4, h5, h6, h7, vAminusb, h8, hk, hsome]

/-- the exception of a rejected re-assignment of a CHANGED value (`same = false`), given that the
attribute's own validator only raises `ValueError` and passes whenever the new counts are consistent -/
theorem reassign_error_class {m m' : MO} {own : Option Err}
    (hown : CountsOk m' → own = none) (hcls : own = none ∨ own = some .valueError) :
    (¬ CountsOk m' → reassign m m' own false = (m, some .valueError)) ∧
    (CountsOk m' → (∃ f x, get m' f = some x ∧ shapeOk m' x.length = false) →
      reassign m m' own false = (m, some .typeError)) ∧
    (CountsOk m' → (∀ f x, get m' f = some x → shapeOk m' x.length = true) → m'.aminusb ≠ none →
      m'.kind ≠ .restricted → reassign m m' own false = (m, some .valueError)) := by
  obtain ⟨e1, e2, e3⟩ := firstErr_initChecks m'
  refine ⟨?_, ?_, ?_⟩
  · intro hc
    rcases hcls with h | h
    · simp [reassign, h, e1 hc]
    · simp [reassign, h]
  · intro hc hb; simp [reassign, hown hc, e2 hc hb]
  · intro hc h1 h2 h3; simp [reassign, hown hc, e3 hc h1 h2 h3]

theorem inv_step {m : MO} (hi : Inv m) (op : Op) : Inv (step m op).1 := by
  cases op with
  | construct a =>
    simp only [step]
    cases hc : construct a with
    | ok m' => exact inv_construct hc
    | error e => exact hi
  | set f v => exact inv_store hi f v
  | setOccsa v => exact inv_setOccsa hi v
  | setOccsb v => exact inv_setOccsb hi v
  | setKind k => exact inv_setKind hi k
  | setNorba v => exact inv_setNorba hi v
  | setNorbb v => exact inv_setNorbb hi v

theorem inv_run {m : MO} (hi : Inv m) (ops : List Op) : Inv (run m ops) := by
  induction ops generalizing m with
  | nil => exact hi
  | cons op t ih => exact ih (inv_step hi op)

/-- objects reachable from a successful construction by any history of operations -/
def Reachable (m : MO) : Prop := ∃ a m0 ops, construct a = .ok m0 ∧ run m0 ops = m

theorem inv_reachable {m : MO} (h : Reachable m) : Inv m := by
  obtain ⟨a, m0, ops, hc, rfl⟩ := h
  exact inv_run (inv_construct hc) ops

theorem reachable_of_inv {m : MO} (h : Inv m) : Reachable m :=
  ⟨m, m, [], (construct_ok_iff m).mpr h, rfl⟩


/-! ### alpha/beta occupations of restricted orbitals -/

/-- heuristic branch, integer occupations -/
theorem restricted_int {o : List Rat} (h : o.all isInt = true) :
    restrictedSpin false o none = .ok (o.map clip01) ∧
    restrictedSpin true o none = .ok (o.map fun x => x - clip01 x) := by
  simp [restrictedSpin, h]

/-- heuristic branch, fractional occupations -/
theorem restricted_frac {o : List Rat} (h : o.all isInt = false) :
    restrictedSpin false o none = .ok (o.map (· / 2)) ∧ restrictedSpin true o none = .ok (o.map (· / 2)) := by
  simp [restrictedSpin, h]

/-- explicit `occs_aminusb` of the right length -/
theorem restricted_ab {o d : List Rat} (h : d.length = o.length) :
    restrictedSpin false o (some d) = .ok (List.zipWith (fun x y => (x + y) / 2) o d) ∧
    restrictedSpin true o (some d) = .ok (List.zipWith (fun x y => (x - y) / 2) o d) := by
  simp [restrictedSpin, bcast, h]

/-- the value `spinpol` computes for restricted orbitals -/
def restrictedSpinpol (o : List Rat) (d : Option (List Rat)) : Rat :=
  match d with
  | none => if o.all isInt then absR (sum o - 2 * sum (o.map clip01)) else 0
  | some d => absR (sum d)

/-- all facts about the alpha/beta split of restricted orbitals at once -/
theorem restricted_split (o : List Rat) (d : Option (List Rat)) (hd : ∀ x, d = some x → x.length = o.length) :
    ∃ a b, restrictedSpin false o d = .ok a ∧ restrictedSpin true o d = .ok b ∧
      List.zipWith (· + ·) a b = o ∧ a.length = o.length ∧ b.length = o.length ∧
      sum a + sum b = sum o ∧
      absR (sum a - sum b) = restrictedSpinpol o d := by
  cases d with
  | none =>
    cases hint : o.all isInt with
    | true =>
      obtain ⟨ha, hb⟩ := restricted_int hint
      refine ⟨_, _, ha, hb, ?_, by simp, by simp, ?_, ?_⟩
      · rw [zipWith_map_map]; exact map_id' _ _ (fun x => by grind)
      · rw [sum_map_add]; congr 1; exact map_id' _ _ (fun x => by grind)
      · simp only [restrictedSpinpol, hint, if_true]
        have h1 : sum (o.map fun x => x - clip01 x) = sum o - sum (o.map clip01) := by
          have := sum_map_sub (fun x => x) clip01 o
          simp only [List.map_id'] at this
          rw [← this]
        rw [h1, ← absR_neg]; congr 1; grind
    | false =>
      obtain ⟨ha, hb⟩ := restricted_frac hint
      refine ⟨_, _, ha, hb, ?_, by simp, by simp, ?_, ?_⟩
      · rw [zipWith_map_map]; exact map_id' _ _ (fun x => by grind)
      · rw [sum_map_add]; congr 1; exact map_id' _ _ (fun x => by grind)
      · simp only [restrictedSpinpol, hint, Bool.false_eq_true, if_false]
        have : sum (o.map (· / 2)) - sum (o.map (· / 2)) = 0 := by grind
        rw [this]; exact absR_zero
  | some d =>
    have hlen := hd d rfl
    obtain ⟨ha, hb⟩ := restricted_ab hlen
    refine ⟨_, _, ha, hb, ?_, by simp [hlen], by simp [hlen], ?_, ?_⟩
    · rw [zipWith_zipWith, zipWith_congr _ (fun x _ => x) (fun x y => by grind), zipWith_fst _ _ hlen.symm]
    · rw [sum_zipWith_add, zipWith_congr _ (fun x _ => x) (fun x y => by grind), zipWith_fst _ _ hlen.symm]
    · simp only [restrictedSpinpol]
      rw [sum_zipWith_sub, zipWith_congr _ (fun _ y => y) (fun x y => by grind), zipWith_snd _ _ hlen.symm]


/-! ### facts derived from the invariant -/

theorem inv_restricted {m : MO} (hi : Inv m) (hk : m.kind = .restricted) :
    ∃ n, m.norba = some n ∧ m.norbb = some n ∧ norb m = some n := by
  have hc := hi.1
  unfold CountsOk at hc; rw [hk] at hc
  cases h : m.norba with
  | none => simp [h] at hc
  | some n => exact ⟨n, rfl, by rw [hc.2, h], by simp [norb, hk, h]⟩

theorem inv_unrestricted {m : MO} (hi : Inv m) (hk : m.kind = .unrestricted) :
    ∃ a b, m.norba = some a ∧ m.norbb = some b ∧ norb m = some (a + b) := by
  have hc := hi.1
  unfold CountsOk at hc; rw [hk] at hc
  cases h : m.norba with
  | none => simp [h] at hc
  | some a =>
    cases h2 : m.norbb with
    | none => simp [h2] at hc
    | some b => exact ⟨a, b, rfl, rfl, by simp [norb, hk, h, h2]⟩

theorem inv_kind_cases {m : MO} (hi : Inv m) :
    m.kind = .restricted ∨ m.kind = .unrestricted ∨ m.kind = .generalized := by
  have hc := hi.1
  unfold CountsOk at hc
  cases hk : m.kind <;> simp [hk] at hc ⊢

theorem inv_ab_len {m : MO} (hi : Inv m) {o d : List Rat} (ho : m.occs = some o) (hd : m.aminusb = some d) :
    d.length = o.length := by
  have h1 := hi.2.1 .occs o ho
  have h2 := hi.2.1 .aminusb d hd
  rw [h1] at h2; exact (Option.some.inj h2).symm

/-- the alpha/beta occupations of (un)restricted orbitals with all their relations -/
theorem spin_facts {m : MO} (hi : Inv m) (hk : m.kind ≠ .generalized) {o : List Rat} (ho : m.occs = some o) :
    ∃ a b, occsa m = .ok (some a) ∧ occsb m = .ok (some b) ∧
      (m.kind = .restricted → List.zipWith (· + ·) a b = o ∧ a.length = o.length ∧ b.length = o.length) ∧
      (m.kind = .unrestricted → a ++ b = o ∧ some a.length = m.norba ∧ some b.length = m.norbb) ∧
      sum a + sum b = sum o ∧ nelec m = some (sum a + sum b) ∧
      spinpol m = .ok (some (absR (sum a - sum b))) := by
  rcases inv_kind_cases hi with hr | hu | hg
  · -- restricted
    have hd : ∀ x, m.aminusb = some x → x.length = o.length := fun x hx => inv_ab_len hi ho hx
    obtain ⟨a, b, ha, hb, hz, hla, hlb, hs, hsp⟩ := restricted_split o m.aminusb hd
    refine ⟨a, b, ?_, ?_, fun _ => ⟨hz, hla, hlb⟩, fun h => (by rw [hr] at h; cases h), hs, ?_, ?_⟩
    · simp [occsa, hr, ho, ha, Except.map]
    · simp [occsb, hr, ho, hb, Except.map]
    · simp [nelec, ho, hs]
    · rw [hsp]
      simp only [spinpol, hr, ho, reduceCtorEq, if_false, if_true]
      unfold restrictedSpinpol
      cases m.aminusb with
      | none => simp only; split <;> rfl
      | some d => rfl
  · -- unrestricted
    obtain ⟨na, nb, hna, hnb, hn⟩ := inv_unrestricted hi hu
    have hlen : o.length = na + nb := by
      have := hi.2.1 .occs o ho
      rw [hn] at this; exact (Option.some.inj this).symm
    refine ⟨o.take na, o.drop na, ?_, ?_, fun h => (by rw [hu] at h; cases h), fun _ => ⟨List.take_append_drop _ _, ?_, ?_⟩,
      sum_take_drop o na, ?_, ?_⟩
    · simp [occsa, hu, ho, hna]
    · simp [occsb, hu, ho, hna]
    · rw [hna]; simp [List.length_take]; omega
    · rw [hnb]; simp [List.length_drop]; omega
    · simp [nelec, ho, sum_take_drop]
    · simp [spinpol, hu, ho, hna]
  · exact absurd hg hk


/-! ### the restricted occsa / occsb setters -/

theorem zipWith_self (f : Rat → Rat → Rat) (l : List Rat) : List.zipWith f l l = l.map (fun x => f x x) := by
  induction l with
  | nil => rfl
  | cons x t ih => simp [ih]


theorem store_ok {m : MO} {f : Fld} {a : List Rat} (hf : f ≠ .aminusb) (hs : shapeOk m a.length = true) :
    store m f (some a) = (put m f (some a), none) := by
  unfold store
  simp only [hf, if_false]
  rw [(vShape_none_iff m (some a)).mpr (fun x hx => by cases hx; exact hs)]

theorem store_ab_ok {m : MO} {a : List Rat} (hk : m.kind = .restricted) (hs : shapeOk m a.length = true) :
    store m .aminusb (some a) = (put m .aminusb (some a), none) := by
  unfold store
  simp only [if_true]
  rw [(vAminusb_none_iff m (some a)).mpr ⟨fun x hx => by cases hx; exact hs, fun _ => hk⟩]

/-- a restricted spin assignment with an array of `norb` entries, `occs` present: both stores pass -/
theorem setSpinRestricted_spec {m : MO} (hi : Inv m) (hk : m.kind = .restricted) {o : List Rat}
    (ho : m.occs = some o) (beta : Bool) {v w : List Rat} (hv : v.length = o.length) (hw : w.length = o.length)
    (hother : (if beta then occsa m else occsb m) = .ok (some w)) :
    setSpinRestricted m beta v =
      ({ m with occs := some (List.zipWith (· + ·) v w),
                aminusb := some (List.zipWith (fun x y => if beta then y - x else x - y) v w) }, none) := by
  obtain ⟨n, hna, hnb, hn⟩ := inv_restricted hi hk
  have hon : o.length = n := by
    have := hi.2.1 .occs o ho; rw [hn] at this; exact (Option.some.inj this).symm
  unfold setSpinRestricted
  rw [ho]; simp only
  rw [hother]; simp only
  have hvw : v.length = w.length := by rw [hv, hw]
  rw [bcast_eq_len _ hvw, bcast_eq_len _ hvw]; simp only
  have hs1 : shapeOk m (List.zipWith (· + ·) v w).length = true := by
    simp [shapeOk, hn, List.length_zipWith, hv, hw, hon]
  rw [store_ok (by decide) hs1]
  simp only [andThen]
  have hk1 : (put m .occs (some (List.zipWith (· + ·) v w))).kind = .restricted := by rw [put_kind]; exact hk
  have hs2 : shapeOk (put m .occs (some (List.zipWith (· + ·) v w)))
      (List.zipWith (fun x y => if beta then y - x else x - y) v w).length = true := by
    simp [shapeOk, norb_put_nongen m .occs _ (by rw [hk]; decide), hn, List.length_zipWith, hv, hw, hon]
  rw [store_ab_ok hk1 hs2]
  rfl

theorem occsa_restricted_ab {m : MO} (hk : m.kind = .restricted) {s d : List Rat} (ho : m.occs = some s)
    (hd : m.aminusb = some d) (hl : d.length = s.length) :
    occsa m = .ok (some (List.zipWith (fun x y => (x + y) / 2) s d)) ∧
    occsb m = .ok (some (List.zipWith (fun x y => (x - y) / 2) s d)) := by
  obtain ⟨ha, hb⟩ := restricted_ab hl
  simp [occsa, occsb, hk, ho, hd, ha, hb, Except.map]

/-- reading back after `mo.occsa = v` on restricted orbitals that had occupations -/
theorem setOccsa_restricted_reads_back {m : MO} (hi : Inv m) (hk : m.kind = .restricted) {o : List Rat}
    (ho : m.occs = some o) {v : List Rat} (hv : v.length = o.length) :
    (setOccsa m v).2 = none ∧ occsa (setOccsa m v).1 = .ok (some v) ∧ occsb (setOccsa m v).1 = occsb m := by
  obtain ⟨a, w, _, hb, hr, _, _, _, _⟩ := spin_facts hi (by rw [hk]; decide) ho
  have hw := (hr hk).2.2
  have hspec := setSpinRestricted_spec hi hk ho false hv hw (by simpa using hb)
  have hset : setOccsa m v = setSpinRestricted m false v := by simp [setOccsa, hk]
  rw [hset, hspec]
  have hvw : v.length = w.length := by rw [hv, hw]
  have hk' : (MO.mk m.kind m.norba m.norbb (some (List.zipWith (· + ·) v w)) m.coeffs m.energies m.irreps
      (some (List.zipWith (fun x y => if false = true then y - x else x - y) v w))).kind = .restricted := hk
  have hrd := occsa_restricted_ab hk' rfl rfl (by simp [List.length_zipWith])
  refine ⟨rfl, ?_, ?_⟩
  · rw [hrd.1, zipWith_zipWith, zipWith_congr _ (fun x _ => x) (fun x y => by simp; grind), zipWith_fst _ _ hvw]
  · rw [hrd.2, hb, zipWith_zipWith, zipWith_congr _ (fun _ y => y) (fun x y => by simp; grind), zipWith_snd _ _ hvw]

/-- … and after `mo.occsb = v` -/
theorem setOccsb_restricted_reads_back {m : MO} (hi : Inv m) (hk : m.kind = .restricted) {o : List Rat}
    (ho : m.occs = some o) {v : List Rat} (hv : v.length = o.length) :
    (setOccsb m v).2 = none ∧ occsb (setOccsb m v).1 = .ok (some v) ∧ occsa (setOccsb m v).1 = occsa m := by
  obtain ⟨w, b, ha, _, hr, _, _, _, _⟩ := spin_facts hi (by rw [hk]; decide) ho
  have hw := (hr hk).2.1
  have hspec := setSpinRestricted_spec hi hk ho true hv hw (by simpa using ha)
  have hset : setOccsb m v = setSpinRestricted m true v := by simp [setOccsb, hk]
  rw [hset, hspec]
  have hvw : v.length = w.length := by rw [hv, hw]
  have hk' : (MO.mk m.kind m.norba m.norbb (some (List.zipWith (· + ·) v w)) m.coeffs m.energies m.irreps
      (some (List.zipWith (fun x y => if true = true then y - x else x - y) v w))).kind = .restricted := hk
  have hrd := occsa_restricted_ab hk' rfl rfl (by simp [List.length_zipWith])
  refine ⟨rfl, ?_, ?_⟩
  · rw [hrd.2, zipWith_zipWith, zipWith_congr _ (fun x _ => x) (fun x y => by simp; grind), zipWith_fst _ _ hvw]
  · rw [hrd.1, ha, zipWith_zipWith, zipWith_congr _ (fun _ y => y) (fun x y => by simp; grind), zipWith_snd _ _ hvw]

/-- restricted orbitals without occupations: `occsa = v` creates them, beta becomes zero -/
theorem setOccsa_restricted_fresh {m : MO} (_hi : Inv m) (hk : m.kind = .restricted) (ho : m.occs = none)
    {n : Nat} (hn : m.norba = some n) {v : List Rat} (hv : v.length = n) :
    (setOccsa m v).2 = none ∧ occsa (setOccsa m v).1 = .ok (some v) ∧
    occsb (setOccsa m v).1 = .ok (some (v.map fun _ => 0)) := by
  have hnorb : norb m = some n := by simp [norb, hk, hn]
  have hs1 : shapeOk m v.length = true := by simp [shapeOk, hnorb, hv]
  have hk1 : (put m .occs (some v)).kind = .restricted := by rw [put_kind]; exact hk
  have hs2 : shapeOk (put m .occs (some v)) v.length = true := by
    simp [shapeOk, norb_put_nongen m .occs _ (by rw [hk]; decide), hnorb, hv]
  have hset : setOccsa m v = (put (put m .occs (some v)) .aminusb (some v), none) := by
    simp only [setOccsa, hk, reduceCtorEq, if_false, if_true, setSpinRestricted, ho, Bool.false_eq_true]
    rw [store_ok (by decide) hs1]; simp only [andThen]
    rw [store_ab_ok hk1 hs2]
  rw [hset]
  have hk' : (put (put m .occs (some v)) .aminusb (some v)).kind = .restricted := by
    rw [put_kind, put_kind]; exact hk
  have hrd := occsa_restricted_ab hk' (s := v) (d := v) rfl rfl rfl
  refine ⟨rfl, ?_, ?_⟩
  · rw [hrd.1, zipWith_self]; congr 2; exact map_id' _ _ (fun x => by grind)
  · rw [hrd.2, zipWith_self]; congr 2
    exact List.map_congr_left (fun x _ => by grind)


/-! ### unrestricted setters, rejections, shells -/

theorem setOccsa_unrestricted_reads_back {m : MO} (hi : Inv m) (hk : m.kind = .unrestricted) {o : List Rat}
    (ho : m.occs = some o) {na : Nat} (hna : m.norba = some na) {v : List Rat} (hv : v.length = na) :
    (setOccsa m v).2 = none ∧ occsa (setOccsa m v).1 = .ok (some v) ∧ occsb (setOccsa m v).1 = occsb m := by
  obtain ⟨na', nb, hna', hnb, hn⟩ := inv_unrestricted hi hk
  rw [hna] at hna'; cases hna'
  have hlen : o.length = na + nb := by
    have := hi.2.1 .occs o ho; rw [hn] at this; exact (Option.some.inj this).symm
  have htk : (o.take na).length = na := by simp [List.length_take]; omega
  have hset : setOccsa m v = ({ m with occs := some (v ++ o.drop na) }, none) := by
    simp only [setOccsa, hk, reduceCtorEq, if_false, ho, hna, Option.getD_some]
    rw [assignSlice_eq_len (by rw [hv, htk])]
  rw [hset]
  refine ⟨rfl, ?_, ?_⟩
  · simp [occsa, hk, hna, hv.symm]
  · simp [occsb, hk, hna, ho, hv.symm]

theorem setOccsb_unrestricted_reads_back {m : MO} (hi : Inv m) (hk : m.kind = .unrestricted) {o : List Rat}
    (ho : m.occs = some o) {nb : Nat} (hnb : m.norbb = some nb) {v : List Rat} (hv : v.length = nb) :
    (setOccsb m v).2 = none ∧ occsb (setOccsb m v).1 = .ok (some v) ∧ occsa (setOccsb m v).1 = occsa m := by
  obtain ⟨na, nb', hna, hnb', hn⟩ := inv_unrestricted hi hk
  rw [hnb] at hnb'; cases hnb'
  have hlen : o.length = na + nb := by
    have := hi.2.1 .occs o ho; rw [hn] at this; exact (Option.some.inj this).symm
  have hdr : (o.drop na).length = nb := by simp [List.length_drop]; omega
  have htk : (o.take na).length = na := by simp [List.length_take]; omega
  have hset : setOccsb m v = ({ m with occs := some (o.take na ++ v) }, none) := by
    simp only [setOccsb, hk, reduceCtorEq, if_false, ho, hna, Option.getD_some]
    rw [assignSlice_eq_len (by rw [hv, hdr])]
  rw [hset]
  refine ⟨rfl, ?_, ?_⟩
  · simp [occsb, hk, hna, List.drop_append, htk]
  · simp [occsa, hk, hna, ho, List.take_append, htk]

/-- a wrong length is refused with `TypeError` and nothing changes (arrays with validators) -/
theorem store_wrong_length {m : MO} {n : Nat} (hn : norb m = some n) (f : Fld) {a : List Rat} (ha : a.length ≠ n) :
    store m f (some a) = (m, some .typeError) := by
  have hs : shapeOk m a.length = false := by simp [shapeOk, hn]; exact fun h => ha h.symm
  unfold store
  by_cases hf : f = .aminusb
  · simp [hf, vAminusb, vShape, hs]
  · simp [hf, vShape, hs]

/-- `occs_aminusb` of the right length on non-restricted orbitals: `ValueError`, nothing changes -/
theorem store_ab_wrong_kind {m : MO} (hk : m.kind ≠ .restricted) {a : List Rat} (hs : shapeOk m a.length = true) :
    store m .aminusb (some a) = (m, some .valueError) := by
  simp [store, vAminusb, vShape, hs, hk]

/-! #### Shell -/

def Shell.Ok (s : Shell) : Prop :=
  s.cshape = [s.nexp, s.kinds.length] ∧ s.angmoms.length = s.kinds.length

theorem shell_checks_iff (s : Shell) : firstErr (shellChecks s) = none ↔ s.Ok := by
  rw [firstErr_none_iff]
  simp only [shellChecks, List.mem_cons, List.mem_nil_iff, or_false, forall_eq_or_imp, forall_eq, Shell.Ok]
  constructor
  · intro ⟨h1, h2, h3, h4⟩
    have hc : s.cshape = [s.nexp, s.kinds.length] := by
      unfold vCoeffs at h4; split at h4
      · assumption
      · cases h4
    refine ⟨hc, ?_⟩
    simp [vAxis1, hc] at h1
    exact h1.symm
  · intro ⟨hc, hl⟩
    simp [vAxis1, vAxis0, vCoeffs, hc, hl]

theorem firstErr_shell_type (s : Shell) (e : Err) (h : firstErr (shellChecks s) = some e) : e = .typeError := by
  simp only [shellChecks] at h
  have a1 : vAxis1 s s.angmoms.length = none ∨ vAxis1 s s.angmoms.length = some .typeError := by
    unfold vAxis1; split
    · split <;> simp
    · simp
  have a2 : vAxis1 s s.kinds.length = none ∨ vAxis1 s s.kinds.length = some .typeError := by
    unfold vAxis1; split
    · split <;> simp
    · simp
  have a3 : vAxis0 s s.nexp = none ∨ vAxis0 s s.nexp = some .typeError := by
    unfold vAxis0; split
    · split <;> simp
    · simp
  have a4 : vCoeffs s s.cshape = none ∨ vCoeffs s s.cshape = some .typeError := by
    unfold vCoeffs; split <;> simp
  rcases a1 with a1 | a1 <;> rcases a2 with a2 | a2 <;> rcases a3 with a3 | a3 <;> rcases a4 with a4 | a4 <;>
    simp [a1, a2, a3, a4, firstErr] at h <;> exact h.symm

/-- legal contraction: Cartesian, or pure with `l ≥ 2` -/
def legal (p : Nat × String) : Prop := p.2 = "c" ∨ (p.2 = "p" ∧ 2 ≤ p.1)

instance : DecidablePred legal := fun p => by unfold legal; infer_instance

/-- documented number of functions of a legal contraction -/
def nfnSpec (p : Nat × String) : Nat := if p.2 = "c" then (p.1 + 1) * (p.1 + 2) / 2 else 2 * p.1 + 1

theorem nfn_legal {p : Nat × String} (h : legal p) : nfn p.1 p.2 = .ok (nfnSpec p) := by
  unfold nfn nfnSpec legal at *
  by_cases hc : p.2 = "c"
  · simp [hc]
  · rcases h with h | h
    · exact absurd h hc
    · simp [hc, h.1, h.2]

theorem nfn_illegal {p : Nat × String} (h : ¬ legal p) : nfn p.1 p.2 = .error .typeError := by
  unfold nfn legal at *
  by_cases hc : p.2 = "c"
  · exact absurd (Or.inl hc) h
  · simp only [hc, if_false]
    by_cases hp : p.2 = "p" ∧ 2 ≤ p.1
    · exact absurd (Or.inr hp) h
    · simp [hp]

theorem nbasisFrom_legal : ∀ (l : List (Nat × String)) (acc : Nat), (∀ p ∈ l, legal p) →
    nbasisFrom l acc = .ok (acc + (l.map nfnSpec).sum)
  | [], acc, _ => by simp [nbasisFrom]
  | p :: t, acc, h => by
    have hp := nfn_legal (h p (by simp))
    have ht := nbasisFrom_legal t (acc + nfnSpec p) (fun q hq => h q (List.mem_cons_of_mem _ hq))
    obtain ⟨l, k⟩ := p
    simp only [nbasisFrom]
    simp only at hp
    rw [hp]; simp only
    rw [ht]; simp [Nat.add_assoc]

theorem nbasisFrom_illegal : ∀ (l : List (Nat × String)) (acc : Nat), (∃ p ∈ l, ¬ legal p) →
    nbasisFrom l acc = .error .typeError
  | [], _, h => by obtain ⟨p, hp, _⟩ := h; cases hp
  | p :: t, acc, h => by
    obtain ⟨l, k⟩ := p
    simp only [nbasisFrom]
    by_cases hl : legal (l, k)
    · have := nfn_legal hl; simp only at this; rw [this]; simp only
      apply nbasisFrom_illegal t
      obtain ⟨q, hq, hqn⟩ := h
      rcases List.mem_cons.mp hq with rfl | hq'
      · exact absurd hl hqn
      · exact ⟨q, hq', hqn⟩
    · have := nfn_illegal hl; simp only at this; rw [this]

theorem shell_inv_step {s : Shell} (h : s.Ok) (op : ShellOp) : (s.step op).1.Ok := by
  obtain ⟨hc, hl⟩ := h
  cases op with
  | construct a =>
    simp only [Shell.step, Shell.construct]
    cases hf : firstErr (shellChecks a) with
    | none => exact (shell_checks_iff a).mp hf
    | some e => exact ⟨hc, hl⟩
  | setAngmoms v =>
    simp only [Shell.step]
    cases hv : vAxis1 s v.length with
    | some e => exact ⟨hc, hl⟩
    | none =>
      simp only
      simp [vAxis1, hc] at hv
      exact ⟨hc, hv.symm⟩
  | setKinds v =>
    simp only [Shell.step]
    cases hv : vAxis1 s v.length with
    | some e => exact ⟨hc, hl⟩
    | none =>
      simp only
      simp [vAxis1, hc] at hv
      refine ⟨by simp [hc, hv], by simp [hl, hv]⟩
  | setExponents n =>
    simp only [Shell.step]
    cases hv : vAxis0 s n with
    | some e => exact ⟨hc, hl⟩
    | none =>
      simp only
      simp [vAxis0, hc] at hv
      exact ⟨by simp [hc, hv], hl⟩
  | setCoeffs sh =>
    simp only [Shell.step]
    cases hv : vCoeffs s sh with
    | some e => exact ⟨hc, hl⟩
    | none =>
      simp only
      unfold vCoeffs at hv; split at hv
      · rename_i hsh; exact ⟨hsh, hl⟩
      · cases hv


end Iodata.Orb
