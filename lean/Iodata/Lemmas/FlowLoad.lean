/- Helper lemmas for C07 (load side of the API flow): the line counter invariant, one parser activation,
   the `load_many` loop, master characterisations of `load_one` / `load_many`. -/
import Iodata.Lemmas.Flow2
set_option linter.unusedSimpArgs false
set_option linter.unusedVariables false

namespace Iodata.Flow
open Ref

/-- `#next − #back` of a trace -/
def lineCount (tr : List Ev) : Int := (tr.count .next : Int) - (tr.count .back : Int)

/-- the line counter equals the number of `next` calls minus the number of `back` calls so far -/
def LineInv (st : St) : Prop := st.lit.lineno = lineCount st.trace

/-- events of the load phase that are neither open nor close -/
def LoadEvs (evs : List Ev) : Prop := ∀ ev ∈ evs, ev ≠ .openR ∧ ev ≠ .close ∧ ev ≠ .openW

theorem LoadEvs.nil : LoadEvs [] := by intro _ h; cases h
theorem LoadEvs.cons {e : Ev} {evs : List Ev} (he : e ≠ .openR ∧ e ≠ .close ∧ e ≠ .openW) (h : LoadEvs evs) :
    LoadEvs (e :: evs) := by
  intro ev hm; rcases List.mem_cons.mp hm with rfl | hm
  · exact he
  · exact h ev hm
theorem LoadEvs.append {a b : List Ev} (ha : LoadEvs a) (hb : LoadEvs b) : LoadEvs (a ++ b) := by
  intro ev h; rcases List.mem_append.mp h with h | h
  · exact ha ev h
  · exact hb ev h

theorem lineCount_cons_other (e : Ev) (tr : List Ev) (h1 : e ≠ .next) (h2 : e ≠ .back) :
    lineCount (e :: tr) = lineCount tr := by
  unfold lineCount
  rw [List.count_cons, List.count_cons]
  have a : (e == Ev.next) = false := by simpa using h1
  have b : (e == Ev.back) = false := by simpa using h2
  simp [a, b]

theorem lineCount_next (tr : List Ev) : lineCount (.next :: tr) = lineCount tr + 1 := by
  unfold lineCount; rw [List.count_cons, List.count_cons]; simp; omega

theorem lineCount_back (tr : List Ev) : lineCount (.back :: tr) = lineCount tr - 1 := by
  unfold lineCount; rw [List.count_cons, List.count_cons]; simp; omega

/-- **LineIterator lemma**: after any sequence of `next` / `back` calls (including a `next` that hits the
end of the file) `lineno = #next − #back`. -/
theorem runOps_spec (ops : List Bool) (l : LineIt) (tr : List Ev) (h : l.lineno = lineCount tr) :
    (runOps ops l tr).2.1.lineno = lineCount (runOps ops l tr).2.2 ∧
    ∃ evs, (runOps ops l tr).2.2 = evs ++ tr ∧ LoadEvs evs := by
  induction ops generalizing l tr with
  | nil => exact ⟨h, [], rfl, LoadEvs.nil⟩
  | cons o ops ih =>
    cases o with
    | true =>
      simp only [runOps]
      have hn : (l.next).2.lineno = lineCount (.next :: tr) := by
        rw [lineCount_next, ← h]; unfold LineIt.next; dsimp only; split
        · rfl
        · split <;> rfl
      rcases hnx : l.next with ⟨ok, l'⟩
      rw [hnx] at hn
      cases ok with
      | true =>
        obtain ⟨h1, evs, h2, h3⟩ := ih l' (.next :: tr) hn
        exact ⟨h1, evs ++ [.next], by rw [h2]; simp, h3.append (LoadEvs.cons (by simp) LoadEvs.nil)⟩
      | false => exact ⟨hn, [.next], rfl, LoadEvs.cons (by simp) LoadEvs.nil⟩
    | false =>
      simp only [runOps]
      have hb : l.back.lineno = lineCount (.back :: tr) := by
        rw [lineCount_back, ← h]; rfl
      obtain ⟨h1, evs, h2, h3⟩ := ih l.back (.back :: tr) hb
      exact ⟨h1, evs ++ [.back], by rw [h2]; simp, h3.append (LoadEvs.cons (by simp) LoadEvs.nil)⟩

/-- relation between the state before and after a piece of the load phase -/
structure Step (s s' : St) : Prop where
  fs : s'.fs = s.fs
  inv : LineInv s'
  tr : ∃ evs, s'.trace = evs ++ s.trace ∧ LoadEvs evs
  yields : s.yields ≤ s'.yields

theorem Step.refl {s : St} (h : LineInv s) : Step s s := ⟨rfl, h, ⟨[], rfl, LoadEvs.nil⟩, Nat.le_refl _⟩

theorem Step.trans {a b c : St} (h1 : Step a b) (h2 : Step b c) : Step a c := by
  obtain ⟨e1, t1, l1⟩ := h1.tr
  obtain ⟨e2, t2, l2⟩ := h2.tr
  exact ⟨h2.fs.trans h1.fs, h2.inv, ⟨e2 ++ e1, by rw [t2, t1]; simp, l2.append l1⟩, Nat.le_trans h1.yields h2.yields⟩

/-- one activation of the parser: it only reads lines; its outcome is `normal` or an exception -/
theorem runItem_spec (g : Bool) (it : Item) (st : St) (h : LineInv st) :
    Step st (runItem g it st).2 ∧ ((runItem g it st).1 = .normal ∨ ∃ e, (runItem g it st).1 = .raised e none) := by
  obtain ⟨h1, evs, h2, h3⟩ := runOps_spec it.ops st.lit st.trace h
  unfold runItem
  rcases hr : runOps it.ops st.lit st.trace with ⟨ok, l, tr⟩
  rw [hr] at h1 h2
  dsimp only at h1 h2 ⊢
  cases ok with
  | false => exact ⟨⟨rfl, h1, ⟨evs, h2, h3⟩, Nat.le_refl _⟩, Or.inr ⟨_, rfl⟩⟩
  | true =>
    simp only [if_true]
    cases hres : it.res with
    | none => exact ⟨⟨rfl, h1, ⟨evs, h2, h3⟩, Nat.le_refl _⟩, Or.inl rfl⟩
    | some e => exact ⟨⟨rfl, h1, ⟨evs, h2, h3⟩, Nat.le_refl _⟩, Or.inr ⟨_, rfl⟩⟩


def loadOneHandlers : Handlers :=
  .cons (.cls [.load]) .reraise
    (.cons (.cls [.stopIter]) (.raise_ .load ["lit", "from exc"])
      (.cons .anyException (.raise_ .load ["lit", "from exc"]) .nil))

/-- what the `load_one` funnel makes of an exception raised by the parser / the constructor -/
def funnelLoad (e : Exc) (lineno : Int) : Out :=
  if e = .load then .raised .load none
  else if e.isException then .raised .load (some lineno) else .raised e none

theorem execH_loadOne (env : Env) (e : Exc) (st : St) :
    ∃ st', execH env loadOneHandlers e none st = (funnelLoad e st.lit.lineno, st')
      ∧ st'.fs = st.fs ∧ st'.trace = st.trace ∧ st'.lit = st.lit ∧ st'.yields = st.yields := by
  cases e <;> simp [loadOneHandlers, execH, Pat.matches, Exc.isException, funnelLoad, exec]

theorem execH_loadMany (env : Env) (e : Exc) (st : St) :
    ∃ st', execH env loadManyHandlers e none st
        = (if e = .stopIter then .ret else funnelLoad e st.lit.lineno, st')
      ∧ st'.fs = st.fs ∧ st'.trace = st.trace ∧ st'.lit = st.lit ∧ st'.yields = st.yields := by
  cases e <;> simp [loadManyHandlers, execH, Pat.matches, Exc.isException, funnelLoad, exec]

/-- the possible outcomes of the load funnels, given the final trace -/
def LoadOutcome (o : Out) (tr : List Ev) : Prop :=
  o = .normal ∨ o = .ret ∨ (∃ ln, o = .raised .load ln ∧ (ln = none ∨ ln = some (lineCount tr)))
    ∨ (∃ e, o = .raised e none ∧ e.isException = false)

theorem funnelLoad_outcome (e : Exc) (st : St) (h : LineInv st) (tr : List Ev)
    (htr : lineCount tr = lineCount st.trace) : LoadOutcome (funnelLoad e st.lit.lineno) tr := by
  unfold funnelLoad
  by_cases h1 : e = .load
  · simp [h1, LoadOutcome]
  · by_cases h2 : e.isException = true
    · simp only [h1, h2, if_true, if_false]
      right; right; left; exact ⟨_, rfl, Or.inr (by rw [htr, ← h])⟩
    · simp only [h1, h2, if_false]
      right; right; right; exact ⟨e, rfl, by simpa using h2⟩

/-- leaving a `with` block: the file is closed whatever the outcome -/
def closeRes (r : Res) : Res := (r.1, { r.2 with trace := .close :: r.2.trace })

theorem exec_withOpen_ok (env : Env) (mode : Mode) (p v : String) (body : Stmt) (st : St)
    (ho : env.b.openFail = none) :
    exec env (.withOpen mode p v body) st = closeRes (exec env body (openFile env.path mode st)) := by
  rw [exec]; simp only [ho]; rfl

theorem load_one_master (b : Beh) (path : Nat) (fs : FS) (hs : b.select = none) (ho : b.openFail = none) :
    ∃ o st', runLoadOne loadOne b path fs = (o, st') ∧ st'.fs = fs ∧
      (∃ evs, st'.trace = .close :: (evs ++ [.openR]) ∧ LoadEvs evs) ∧
      LoadOutcome o st'.trace ∧ o ≠ .normal := by
  unfold runLoadOne loadOne
  have e1 : exec { b := b, path := path } (.call (.select "load_one") ["filename", "'load_one'", "fmt"] "format_module")
      { fs := fs, lit := { nlines := b.nlines } } = (.normal, { fs := fs, lit := { nlines := b.nlines } }) := by
    simp [exec, execCall, raiseB, hs]
  rw [exec_seq, e1]; dsimp only
  rw [exec_withOpen_ok _ _ _ _ _ _ ho]
  change ∃ o st', closeRes (exec { b := b, path := path } (.try_ _ loadOneHandlers) _) = _ ∧ _
  rw [exec_try, exec_seq]
  have hinv0 : LineInv (openFile path .r { fs := fs, lit := { nlines := b.nlines } }) := by
    simp [LineInv, openFile, lineCount]
  have hcall : exec { b := b, path := path } (.call (.parse "load_one") ["lit", "**kwargs"] "")
      (openFile path .r { fs := fs, lit := { nlines := b.nlines } })
      = runItem false (b.items.headD {}) (openFile path .r { fs := fs, lit := { nlines := b.nlines } }) := by
    simp [exec, execCall]
  rw [hcall]
  obtain ⟨hstep, hout⟩ := runItem_spec false (b.items.headD {}) _ hinv0
  rcases hri : runItem false (b.items.headD {}) (openFile path .r { fs := fs, lit := { nlines := b.nlines } })
    with ⟨o1, s1⟩
  rw [hri] at hstep hout
  dsimp only at hstep hout ⊢
  obtain ⟨evs1, ht1, hl1⟩ := hstep.tr
  have ht1' : s1.trace = evs1 ++ [.openR] := by rw [ht1]; rfl
  have hfs1 : s1.fs = fs := hstep.fs
  have fin : ∀ (e : Exc) (s : St), LineInv s → s.fs = fs → (∃ evs, s.trace = evs ++ [.openR] ∧ LoadEvs evs) →
      ∃ o st', closeRes (execH { b := b, path := path } loadOneHandlers e none s) = (o, st') ∧ st'.fs = fs ∧
        (∃ evs, st'.trace = .close :: (evs ++ [.openR]) ∧ LoadEvs evs) ∧ LoadOutcome o st'.trace ∧ o ≠ .normal := by
    intro e s hinv hfs ⟨evs, htr, hl⟩
    obtain ⟨s3, h3, hfs3, htr3, hlit3, -⟩ := execH_loadOne { b := b, path := path } e s
    rw [h3]
    refine ⟨_, _, rfl, by simp [closeRes, hfs3, hfs], ⟨evs, by simp [closeRes, htr3, htr], hl⟩, ?_, ?_⟩
    · apply funnelLoad_outcome e s hinv
      simp only [closeRes, htr3]; exact lineCount_cons_other _ _ (by simp) (by simp)
    · unfold funnelLoad; split
      · simp
      · split <;> simp
  rcases hout with rfl | ⟨e, rfl⟩
  · -- parser returned; constructor
    dsimp only
    rw [exec_seq]
    have hct : exec { b := b, path := path } (.call .ctor ["**format_module.load_one(lit, **kwargs)"] "") s1
        = raiseB s1.item.ctor { s1 with trace := .ctor :: s1.trace } := by simp [exec, execCall]
    rw [hct]
    have hinv2 : LineInv { s1 with trace := .ctor :: s1.trace } := by
      have := hstep.inv
      simp only [LineInv] at this ⊢
      rw [lineCount_cons_other _ _ (by simp) (by simp)]; exact this
    cases hc : s1.item.ctor with
    | none =>
      simp only [raiseB, exec, closeRes]
      refine ⟨.ret, _, rfl, hfs1, ⟨.ctor :: evs1, by simp [ht1'], LoadEvs.cons (by simp) hl1⟩, Or.inr (Or.inl rfl), by simp⟩
    | some e =>
      simp only [raiseB]
      exact fin e _ hinv2 hfs1 ⟨.ctor :: evs1, by simp [ht1'], LoadEvs.cons (by simp) hl1⟩
  · exact fin e s1 hstep.inv hfs1 ⟨evs1, ht1', hl1⟩


theorem step_cons_ev {s : St} (e : Ev) (h : LineInv s) (h1 : e ≠ .next) (h2 : e ≠ .back)
    (h3 : e ≠ .openR ∧ e ≠ .close ∧ e ≠ .openW) (y : Nat) (hy : s.yields ≤ y) :
    Step s { s with trace := e :: s.trace, yields := y } := by
  refine ⟨rfl, ?_, ⟨[e], rfl, LoadEvs.cons h3 LoadEvs.nil⟩, hy⟩
  simp only [LineInv] at h ⊢
  rw [lineCount_cons_other _ _ h1 h2]; exact h

/-- the body of the `load_many` loop on one parsed item: construct, yield -/
theorem exec_loadManyBody (env : Env) (s : St) (h : LineInv s) :
    Step s (exec env loadManyBody s).2 ∧
      ((exec env loadManyBody s).1 = .normal ∨ ∃ e, (exec env loadManyBody s).1 = .raised e none) := by
  unfold loadManyBody
  rw [exec_seq]
  have hct : exec env (.call .ctor ["**data"] "") s = raiseB s.item.ctor { s with trace := .ctor :: s.trace } := by
    simp [exec, execCall]
  rw [hct]
  have st1 : Step s { s with trace := .ctor :: s.trace } := by
    have := step_cons_ev (s := s) .ctor h (by simp) (by simp) (by simp) s.yields (Nat.le_refl _)
    simpa using this
  cases hc : s.item.ctor with
  | some e => exact ⟨st1, Or.inr ⟨e, rfl⟩⟩
  | none =>
    simp only [raiseB, exec]
    have st2 : Step { s with trace := .ctor :: s.trace }
        { s with trace := .yield :: .ctor :: s.trace, yields := s.yields + 1 } := by
      have := step_cons_ev (s := { s with trace := .ctor :: s.trace }) .yield st1.inv (by simp) (by simp) (by simp)
        (s.yields + 1) (Nat.le_succ _)
      simpa using this
    split
    · exact ⟨st1.trans st2, Or.inr ⟨_, rfl⟩⟩
    · exact ⟨st1.trans st2, Or.inl rfl⟩

theorem loadMany_loop (env : Env) (items : List Item) (st : St) (h : LineInv st) :
    Step st (loopL (fun it s => match runItem env.b.fmtIsGen it s with
        | (.normal, s') => exec env loadManyBody s'
        | r => r) items st).2 ∧
    ((loopL (fun it s => match runItem env.b.fmtIsGen it s with
        | (.normal, s') => exec env loadManyBody s'
        | r => r) items st).1 = .normal ∨
     ∃ e, (loopL (fun it s => match runItem env.b.fmtIsGen it s with
        | (.normal, s') => exec env loadManyBody s'
        | r => r) items st).1 = .raised e none) := by
  induction items generalizing st with
  | nil => exact ⟨Step.refl h, Or.inl rfl⟩
  | cons it items ih =>
    simp only [loopL]
    obtain ⟨hs1, ho1⟩ := runItem_spec env.b.fmtIsGen it st h
    rcases hr : runItem env.b.fmtIsGen it st with ⟨o1, s1⟩
    rw [hr] at hs1 ho1
    dsimp only at hs1 ho1 ⊢
    rcases ho1 with rfl | ⟨e, rfl⟩
    · dsimp only
      obtain ⟨hs2, ho2⟩ := exec_loadManyBody env s1 hs1.inv
      rcases hb : exec env loadManyBody s1 with ⟨o2, s2⟩
      rw [hb] at hs2 ho2
      dsimp only at hs2 ho2 ⊢
      rcases ho2 with rfl | ⟨e, rfl⟩
      · dsimp only
        obtain ⟨hs3, ho3⟩ := ih s2 hs2.inv
        exact ⟨(hs1.trans hs2).trans hs3, ho3⟩
      · exact ⟨hs1.trans hs2, Or.inr ⟨e, rfl⟩⟩
    · exact ⟨hs1, Or.inr ⟨e, rfl⟩⟩

theorem exec_forEach_fmt (env : Env) (v : String) (body : Stmt) (st : St) :
    exec env (.forEach .fmtMany v body) st =
      match loopL (fun it s => match runItem env.b.fmtIsGen it s with
          | (.normal, s') => exec env body s'
          | r => r) env.b.items st with
      | (.normal, st') => raiseB (endOf (env.b.itemsEnd.map (pep env.b.fmtIsGen))) st'
      | r => r := by
  rw [exec]
  rcases loopL (fun it s => match runItem env.b.fmtIsGen it s with
          | (.normal, s') => exec env body s'
          | r => r) env.b.items st with ⟨o, s⟩
  cases o <;> rfl

/-- `load_many`: the generator was started (`quota ≠ some 0`), selection and `open` succeeded -/
theorem load_many_master (b : Beh) (path : Nat) (fs : FS) (hs : b.select = none) (ho : b.openFail = none)
    (hq : b.quota ≠ some 0) :
    ∃ o st', runLoadMany loadMany b path fs = (o, st') ∧ st'.fs = fs ∧
      (∃ evs, st'.trace = .close :: (evs ++ [.openR]) ∧ LoadEvs evs) ∧
      LoadOutcome o st'.trace := by
  unfold runLoadMany
  simp only [hq, if_false]
  unfold loadMany
  have e1 : exec { b := b, path := path } (.call (.select "load_many") ["filename", "'load_many'", "fmt"] "format_module")
      { fs := fs, lit := { nlines := b.nlines } } = (.normal, { fs := fs, lit := { nlines := b.nlines } }) := by
    simp [exec, execCall, raiseB, hs]
  rw [exec_seq, e1]; dsimp only
  rw [exec_withOpen_ok _ _ _ _ _ _ ho, exec_try, exec_forEach_fmt]
  have hinv0 : LineInv (openFile path .r { fs := fs, lit := { nlines := b.nlines } }) := by
    simp [LineInv, openFile, lineCount]
  obtain ⟨hstep, hout⟩ := loadMany_loop { b := b, path := path } b.items _ hinv0
  dsimp only at hstep hout ⊢
  rcases hl : loopL (fun it s => match runItem b.fmtIsGen it s with
      | (.normal, s') => exec { b := b, path := path } loadManyBody s'
      | r => r) b.items (openFile path .r { fs := fs, lit := { nlines := b.nlines } }) with ⟨o1, s1⟩
  rw [hl] at hstep hout
  dsimp only at hstep hout ⊢
  obtain ⟨evs1, ht1, hl1⟩ := hstep.tr
  have ht1' : s1.trace = evs1 ++ [.openR] := by rw [ht1]; rfl
  have hfs1 : s1.fs = fs := hstep.fs
  -- what happens to an exception `e` that reaches the handlers in state `s1`
  have fin : ∀ (e : Exc),
      ∃ o st', (match closeRes (execH { b := b, path := path } loadManyHandlers e none s1) with
        | (.raised .genExit _, st) => (Out.normal, st)
        | (.raised .stopIter ln, st) => (.raised .runtime ln, st)
        | r => r) = (o, st') ∧ st'.fs = fs ∧
        (∃ evs, st'.trace = .close :: (evs ++ [.openR]) ∧ LoadEvs evs) ∧ LoadOutcome o st'.trace := by
    intro e
    obtain ⟨s3, h3, hfs3, htr3, hlit3, -⟩ := execH_loadMany { b := b, path := path } e s1
    rw [h3]
    have hlc : lineCount (.close :: s3.trace) = lineCount s1.trace := by
      rw [htr3]; exact lineCount_cons_other _ _ (by simp) (by simp)
    have htr : ∃ evs, (Ev.close :: s3.trace) = .close :: (evs ++ [.openR]) ∧ LoadEvs evs :=
      ⟨evs1, by rw [htr3, ht1'], hl1⟩
    by_cases he : e = .stopIter
    · simp only [he, if_true, closeRes]
      exact ⟨_, _, rfl, by simp [hfs3, hfs1], htr, Or.inr (Or.inl rfl)⟩
    · simp only [he, if_false, closeRes]
      have hfo := funnelLoad_outcome e s1 hstep.inv (.close :: s3.trace) hlc
      unfold funnelLoad at hfo ⊢
      by_cases h1 : e = .load
      · simp only [h1, if_true] at hfo ⊢
        exact ⟨_, _, rfl, by simp [hfs3, hfs1], htr, hfo⟩
      · by_cases h2 : e.isException = true
        · simp only [h1, h2, if_true, if_false] at hfo ⊢
          exact ⟨_, _, rfl, by simp [hfs3, hfs1], htr, hfo⟩
        · simp only [h1, h2, if_false] at hfo ⊢
          cases e <;> simp [Exc.isException] at h2 he
          · exact ⟨_, _, rfl, by simp [hfs3, hfs1], htr, hfo⟩
          · exact ⟨_, _, rfl, by simp [hfs3, hfs1], htr, Or.inl rfl⟩
  rcases hout with rfl | ⟨e, rfl⟩
  · dsimp only
    cases hend : endOf (b.itemsEnd.map (pep b.fmtIsGen)) with
    | none =>
      simp only [raiseB, closeRes]
      exact ⟨_, _, rfl, hfs1, ⟨evs1, by simp [ht1'], hl1⟩, Or.inl rfl⟩
    | some e => simp only [raiseB]; exact fin e
  · exact fin e

end Iodata.Flow
