/- Helper lemmas for C01, part 2: global conversions, signed permutations of density matrices,
   structural readers of Molden / Molekel / FCHK files. -/
import Iodata.Lemmas.Wf
import Iodata.Model.WfRead
import Iodata.Props.C10
import Mathlib.Tactic.Ring

set_option linter.unusedSectionVars false
set_option linter.unusedSimpArgs false
set_option linter.unusedVariables false

namespace Iodata.Wf
open Iodata.Conv Iodata.Props.C10

/-! ### block-wise = global -/

/-- applying a block-structured conversion: no hypothesis on the length of the vector -/
theorem apply_take_drop (r rest : List (Nat × Int)) (n : Nat) (v : List Int)
    (hr : ∀ p ∈ r, p.1 < n) :
    apply (r ++ rest.map (shift n)) v = apply r (v.take n) ++ apply rest (v.drop n) := by
  unfold apply
  rw [List.map_append, List.map_map]
  congr 1
  · apply List.map_congr_left
    intro p hp
    have := hr p hp
    simp [List.getD_eq_getElem?_getD, List.getElem?_take, this]
  · apply List.map_congr_left
    intro p _
    simp [shift, List.getD_eq_getElem?_getD, List.getElem?_drop, Nat.add_comm]

theorem cvOf_of_lookup {t : Table} {k : Key} {c : List Label} (h : lookup t k = .ok c) :
    cvOf t k = c.map parse := by
  unfold lookup at h
  unfold cvOf
  cases hf : t.find? (fun e => e.1 == k) with
  | none => simp [hf] at h
  | some e => simp [hf] at h; simp [h]

/-- what a successful `convShell` returns -/
theorem convShell_ok {c1 c2 : List Label} {r : List (Nat × Int)} (h : convShell c1 c2 false = .ok r) :
    Compatible (c1.map parse) (c2.map parse) ∧ r = convFwd (c1.map parse) (c2.map parse) := by
  unfold convShell at h
  have hc : Compatible (c1.map parse) (c2.map parse) := (convCore_ok_iff _ _ false).mp ⟨r, h⟩
  refine ⟨hc, ?_⟩
  unfold convCore at h
  rw [(guards_ok_iff _ _).mpr hc] at h
  simpa using h.symm

/-- Task 3: the global signed permutation returned by `convert_conventions` acts on the whole
coefficient vector exactly like the shell-by-shell conversion `convert`, and its success means
every shell's conventions are compatible. -/
theorem convBasis_apply (t1 t2 : Table) : ∀ (shells : List Shell) (r : List (Nat × Int)),
    convBasis t1 t2 (keysOf shells) false = .ok r →
    (∀ s ∈ shells, Compatible (cvOf t1 s.key) (cvOf t2 s.key)) ∧
    r.length = nfun (cvOf t2) shells ∧ nfun (cvOf t1) shells = nfun (cvOf t2) shells ∧
    ∀ (coeffs : List Int), apply r coeffs = convert (cvOf t1) (cvOf t2) shells coeffs := by
  unfold convBasis
  intro shells
  induction shells with
  | nil =>
    intro r h
    simp only [keysOf, List.map_nil, convBasisFrom, Except.ok.injEq] at h
    subst h
    simp [convert, apply, nfun]
  | cons s ss ih =>
    intro r h
    simp only [keysOf, List.map_cons, convBasisFrom] at h
    cases hl1 : lookup t1 s.key with
    | error e => simp [hl1] at h
    | ok c1 =>
      cases hl2 : lookup t2 s.key with
      | error e => simp [hl1, hl2] at h
      | ok c2 =>
        simp only [hl1, hl2] at h
        cases hs : convShell c1 c2 false with
        | error e => simp [hs] at h
        | ok r1 =>
          simp only [hs] at h
          rw [convBasisFrom_shift] at h
          cases hb : convBasisFrom t1 t2 false 0 (ss.map (·.key)) with
          | error e => simp [hb, Except.map] at h
          | ok rest =>
            simp only [hb, Except.map, Except.ok.injEq, shift_zero] at h
            subst h
            obtain ⟨hcomp, hr1⟩ := convShell_ok hs
            obtain ⟨hn1, hn2, hbound⟩ := convShell_length c1 c2 r1 hs
            obtain ⟨ihc, ihlen, ihn, ihapp⟩ := ih rest hb
            have e1 := cvOf_of_lookup hl1
            have e2 := cvOf_of_lookup hl2
            have l1 : (cvOf t1 s.key).length = r1.length := by rw [e1]; simp [hn1]
            have l2 : (cvOf t2 s.key).length = r1.length := by rw [e2]; simp [hn2]
            refine ⟨?_, ?_, ?_, ?_⟩
            · intro t ht
              rcases List.mem_cons.mp ht with rfl | ht
              · rw [e1, e2]; exact hcomp
              · exact ihc t ht
            · simp only [nfun, List.map_cons, List.sum_cons, List.length_append, List.length_map] at ihlen ⊢
              rw [l2, ihlen]
            · simp only [nfun, List.map_cons, List.sum_cons] at ihn ⊢
              rw [l1, l2, ihn]
            · intro coeffs
              have z : 0 + r1.length = r1.length := Nat.zero_add _
              rw [z, apply_take_drop r1 rest r1.length coeffs (fun p hp => by rw [hn1]; exact hbound p hp)]
              simp only [convert]
              rw [l1, e1, e2, ← hr1, ihapp]

/-! ### sums over permutations -/

theorem perm_sum_map {α : Type} (f : α → Int) {l₁ l₂ : List α} (h : l₁.Perm l₂) :
    (l₁.map f).sum = (l₂.map f).sum := by
  induction h with
  | nil => rfl
  | cons a _ ih => simp [ih]
  | swap a b l => simp; omega
  | trans _ _ ih1 ih2 => rw [ih1, ih2]

theorem sum_map_mul_left' {α : Type} (c : Int) (f : α → Int) : ∀ (l : List α),
    (l.map fun a => c * f a).sum = c * (l.map f).sum
  | [] => by simp
  | a :: l => by simp [sum_map_mul_left' c f l, Int.mul_add]

/-- a signed permutation of `n` positions -/
structure SignedPerm (r : List (Nat × Int)) (n : Nat) : Prop where
  perm : (r.map Prod.fst).Perm (List.range n)
  sign : ∀ p ∈ r, p.2 * p.2 = 1

theorem SignedPerm.length {r : List (Nat × Int)} {n : Nat} (h : SignedPerm r n) : r.length = n := by
  have := h.perm.length_eq
  simpa using this

theorem SignedPerm.sum {r : List (Nat × Int)} {n : Nat} (h : SignedPerm r n) (G : Nat → Int) :
    (r.map fun p => G p.1).sum = ((List.range n).map G).sum := by
  have := perm_sum_map G h.perm
  rw [List.map_map] at this
  exact this

/-! ### density matrices as bilinear forms -/

theorem zip_map_range {α β γ : Type} (f : α × β → γ) (l : List α) (m : List β) (n : Nat)
    (hl : l.length = n) (hm : m.length = n) (da : α) (db : β) :
    (l.zip m).map f = (List.range n).map fun i => f (l.getD i da, m.getD i db) := by
  apply List.ext_getElem
  · simp [hl, hm]
  · intro i h1 h2
    have hi : i < n := by simpa using h2
    simp [List.getD_eq_getElem?_getD, List.getElem?_eq_getElem (hl ▸ hi), List.getElem?_eq_getElem (hm ▸ hi)]

/-- `n × n` -/
def Square (D : List (List Int)) (n : Nat) : Prop := D.length = n ∧ ∀ row ∈ D, row.length = n

theorem Square.row {D : List (List Int)} {n : Nat} (h : Square D n) {i : Nat} (hi : i < n) :
    (D.getD i []).length = n := by
  have : i < D.length := h.1 ▸ hi
  rw [List.getD_eq_getElem?_getD, List.getElem?_eq_getElem this]
  exact h.2 _ (List.getElem_mem this)

theorem bilin_range (D : List (List Int)) (x y : List Int) (n : Nat) (hD : Square D n)
    (hx : x.length = n) (hy : y.length = n) :
    bilin D x y = ((List.range n).map fun i =>
      x.getD i 0 * ((List.range n).map fun j => (D.getD i []).getD j 0 * y.getD j 0).sum).sum := by
  unfold bilin
  rw [zip_map_range _ D x n hD.1 hx [] 0]
  congr 1
  apply List.map_congr_left
  intro i hi
  have hi' : i < n := by simpa using hi
  simp only
  rw [zip_map_range _ (D.getD i []) y n (hD.row hi') hy 0 0]

theorem bilin_conv (r : List (Nat × Int)) (n : Nat) (h : SignedPerm r n) (D : List (List Int))
    (x y : List Int) :
    bilin (convMatrix r D) (apply r x) (apply r y)
      = ((List.range n).map fun i =>
          x.getD i 0 * ((List.range n).map fun j => (D.getD i []).getD j 0 * y.getD j 0).sum).sum := by
  unfold bilin convMatrix apply
  rw [List.zip_map', List.map_map]
  have inner : ∀ p ∈ r, ((r.map (fun q => p.2 * q.2 * (D.getD p.1 []).getD q.1 0)).zip
        (r.map fun q => q.2 * y.getD q.1 0)).map (fun q => q.1 * q.2) 
      = r.map (fun q => p.2 * ((D.getD p.1 []).getD q.1 0 * y.getD q.1 0)) := by
    intro p _
    rw [List.zip_map', List.map_map]
    apply List.map_congr_left
    intro q hq
    have := h.sign q hq
    simp only [Function.comp]
    calc p.2 * q.2 * (D.getD p.1 []).getD q.1 0 * (q.2 * y.getD q.1 0)
        = p.2 * ((D.getD p.1 []).getD q.1 0 * y.getD q.1 0) * (q.2 * q.2) := by ring
      _ = _ := by rw [this]; ring
  have outer : (r.map ((fun p : (List Int) × Int => p.2 * ((p.1.zip (r.map fun q => q.2 * y.getD q.1 0)).map fun q => q.1 * q.2).sum)
        ∘ fun p => (r.map (fun q => p.2 * q.2 * (D.getD p.1 []).getD q.1 0), p.2 * x.getD p.1 0)))
      = r.map fun p => (fun i => x.getD i 0 * ((List.range n).map fun j => (D.getD i []).getD j 0 * y.getD j 0).sum) p.1 := by
    apply List.map_congr_left
    intro p hp
    simp only [Function.comp]
    rw [inner p hp, sum_map_mul_left']
    have hs := h.sum (fun j => (D.getD p.1 []).getD j 0 * y.getD j 0)
    rw [hs]
    have hsg := h.sign p hp
    generalize ((List.range n).map fun j => (D.getD p.1 []).getD j 0 * y.getD j 0).sum = S
    have e : p.2 * x.getD p.1 0 * (p.2 * S) = (p.2 * p.2) * (x.getD p.1 0 * S) := by ring
    rw [e, hsg, Int.one_mul]
  rw [outer]
  exact h.sum (fun i => x.getD i 0 * ((List.range n).map fun j => (D.getD i []).getD j 0 * y.getD j 0).sum)

/-! ### conversions are signed permutations -/


theorem range_eq_map_idxOf {α : Type} [DecidableEq α] (l : List α) (hn : l.Nodup) :
    List.range l.length = l.map (fun x => l.idxOf x) := by
  apply List.ext_getElem
  · simp
  · intro i h1 h2
    have hi : i < l.length := by simpa using h1
    simp [idxOf_getElem_of_nodup l hn i hi]

theorem signedPerm_convFwd {β : Type} [DecidableEq β] {c1 c2 : List (Bool × β)} (h : Compatible c1 c2) :
    SignedPerm (convFwd c1 c2) c1.length := by
  obtain ⟨hlen, hn1, hn2, hset⟩ := h
  constructor
  · have e : (convFwd c1 c2).map Prod.fst = (labels c2).map (fun x => (labels c1).idxOf x) := by
      simp [convFwd, labels, List.map_map, Function.comp_def]
    have p : (labels c2).Perm (labels c1) := (List.perm_ext_iff_of_nodup hn2 hn1).mpr (fun a => (hset a).symm)
    rw [e]
    have := p.map (fun x => (labels c1).idxOf x)
    rw [← range_eq_map_idxOf _ hn1] at this
    simpa using this
  · intro p hp
    simp only [convFwd, List.mem_map] at hp
    obtain ⟨q, hq, rfl⟩ := hp
    have hmem : q.2 ∈ labels c1 := (hset _).mpr (by simp only [labels]; exact List.mem_map.mpr ⟨q, hq, rfl⟩)
    have hlt : (labels c1).idxOf q.2 < c1.length := by
      have := List.idxOf_lt_length_iff.mpr hmem; simpa using this
    simp only [signs, List.getD_eq_getElem?_getD, List.getElem?_map, List.getElem?_eq_getElem hlt,
      Option.map_some, Option.getD_some]
    have a := sgnB_mul_self (c1[(labels c1).idxOf q.2]).1
    have b := sgnB_mul_self q.1
    calc sgnB (c1[(labels c1).idxOf q.2]).1 * sgnB q.1 * (sgnB (c1[(labels c1).idxOf q.2]).1 * sgnB q.1)
        = (sgnB (c1[(labels c1).idxOf q.2]).1 * sgnB (c1[(labels c1).idxOf q.2]).1) * (sgnB q.1 * sgnB q.1) := by ring
      _ = 1 := by rw [a, b]; rfl

theorem signedPerm_append {r1 rest : List (Nat × Int)} {n m : Nat} (h1 : SignedPerm r1 n) (h2 : SignedPerm rest m) :
    SignedPerm (r1 ++ rest.map (shift n)) (n + m) := by
  constructor
  · rw [List.map_append, List.range_add, List.map_map]
    apply List.Perm.append h1.perm
    have := h2.perm.map (fun x => n + x)
    rw [List.map_map] at this
    have e : (Prod.fst ∘ shift n) = ((fun x => n + x) ∘ Prod.fst) := by
      funext p; simp [shift, Nat.add_comm]
    rw [e]; exact this
  · intro p hp
    rcases List.mem_append.mp hp with hp | hp
    · exact h1.sign p hp
    · obtain ⟨q, hq, rfl⟩ := List.mem_map.mp hp
      simpa [shift] using h2.sign q hq

/-- the result of a successful `convert_conventions` is a signed permutation (any key list, so
generalized contractions included) -/
theorem convBasis_signedPerm (t1 t2 : Table) : ∀ (keys : List Key) (r : List (Nat × Int)),
    convBasis t1 t2 keys false = .ok r → SignedPerm r r.length := by
  unfold convBasis
  intro keys
  induction keys with
  | nil =>
    intro r h
    simp only [convBasisFrom, Except.ok.injEq] at h
    subst h
    exact ⟨by simp, by simp⟩
  | cons k ks ih =>
    intro r h
    simp only [convBasisFrom] at h
    cases hl1 : lookup t1 k with
    | error e => simp [hl1] at h
    | ok c1 =>
      cases hl2 : lookup t2 k with
      | error e => simp [hl1, hl2] at h
      | ok c2 =>
        simp only [hl1, hl2] at h
        cases hs : convShell c1 c2 false with
        | error e => simp [hs] at h
        | ok r1 =>
          simp only [hs] at h
          rw [convBasisFrom_shift] at h
          cases hb : convBasisFrom t1 t2 false 0 ks with
          | error e => simp [hb, Except.map] at h
          | ok rest =>
            simp only [hb, Except.map, Except.ok.injEq, shift_zero] at h
            subst h
            obtain ⟨hcomp, hr1⟩ := convShell_ok hs
            obtain ⟨hn1, _, _⟩ := convShell_length c1 c2 r1 hs
            have s1 : SignedPerm r1 r1.length := by
              have := signedPerm_convFwd hcomp
              rw [← hr1] at this
              simpa [hn1] using this
            have := signedPerm_append s1 (ih rest hb)
            simpa using this

/-! ### Molden `[GTO]` blocks -/

def reShell (pure : List Nat) (c : Nat) (f : FShell) : Shell :=
  { center := c - 1, l := f.1, kind := if f.1 ∈ pure then 'p' else 'c', prims := f.2 }

theorem gtoShells_cons (pure : List Nat) (s : Shell) (ss : List Shell) :
    gtoShells pure (gtoBlocks (s :: ss))
      = reShell pure (s.center + 1) (s.l, s.prims) :: gtoShells pure (gtoBlocks ss) := by
  simp only [gtoBlocks]
  cases hb : gtoBlocks ss with
  | nil => simp [gtoShells, reShell]
  | cons b bs =>
    simp only
    split
    · rename_i h
      simp [gtoShells, reShell, h]
    · simp [gtoShells, reShell]

/-- reading the centre blocks back gives the shells in file order, with their centres, when every
kind is what the header tags say -/
theorem gtoShells_gtoBlocks (pure : List Nat) : ∀ (ss : List Shell),
    (∀ s ∈ ss, s.kind = if s.l ∈ pure then 'p' else 'c') → gtoShells pure (gtoBlocks ss) = ss
  | [], _ => by simp [gtoBlocks, gtoShells]
  | s :: ss, h => by
    rw [gtoShells_cons, gtoShells_gtoBlocks pure ss (fun t ht => h t (by simp [ht]))]
    congr 1
    have := h s (by simp)
    cases s
    simp_all [reShell]

theorem length_pairs (cv : Cv) : ∀ (ps : List (Shell × List Int)), GoodBlocks cv ps →
    (ps.flatMap (·.2)).length = nfun cv (ps.map (·.1))
  | [], _ => by simp [nfun]
  | p :: ps, h => by
    have hp := h p (by simp)
    have ih := length_pairs cv ps (fun q hq => h q (by simp [hq]))
    simp only [List.flatMap_cons, List.length_append, List.map_cons, nfun, List.sum_cons] at ih ⊢
    rw [hp, ih]

theorem not_mixed {shells : List Shell} (h : mixed shells = false) :
    ∀ s ∈ shells, kindOfL shells s.l = some s.kind := by
  intro s hs
  unfold mixed at h
  rw [List.any_eq_false] at h
  have := h s hs
  simpa using this

theorem mem_sortByCenter_insert (s t : Shell) : ∀ (ts : List Shell), t ∈ insertByCenter s ts → t = s ∨ t ∈ ts
  | [], h => by simp [insertByCenter] at h; exact Or.inl h
  | u :: us, h => by
    simp only [insertByCenter] at h
    split at h
    · simp at h; rcases h with h | h | h <;> simp [h]
    · simp at h
      rcases h with h | h
      · simp [h]
      · rcases mem_sortByCenter_insert s t us h with h' | h' <;> simp [h']

theorem mem_sortByCenter (t : Shell) : ∀ (ss : List Shell), t ∈ sortByCenter ss → t ∈ ss
  | [], h => by simp [sortByCenter] at h
  | s :: ss, h => by
    simp only [sortByCenter] at h
    rcases mem_sortByCenter_insert s t _ h with rfl | h'
    · simp
    · simp [mem_sortByCenter t ss h']


/-! ### Molden header and kinds -/

theorem convBasis_lookup (t1 t2 : Table) : ∀ (keys : List Key) (r : List (Nat × Int)),
    convBasis t1 t2 keys false = .ok r → ∀ k ∈ keys, ∃ c, lookup t2 k = .ok c := by
  unfold convBasis
  intro keys
  induction keys with
  | nil => intro r _ k hk; simp at hk
  | cons k ks ih =>
    intro r h k' hk'
    simp only [convBasisFrom] at h
    cases hl1 : lookup t1 k with
    | error e => simp [hl1] at h
    | ok c1 =>
      cases hl2 : lookup t2 k with
      | error e => simp [hl1, hl2] at h
      | ok c2 =>
        simp only [hl1, hl2] at h
        cases hs : convShell c1 c2 false with
        | error e => simp [hs] at h
        | ok r1 =>
          simp only [hs] at h
          rw [convBasisFrom_shift] at h
          cases hb : convBasisFrom t1 t2 false 0 ks with
          | error e => simp [hb, Except.map] at h
          | ok rest =>
            rcases List.mem_cons.mp hk' with rfl | hk'
            · exact ⟨c2, hl2⟩
            · exact ih rest hb k' hk'

theorem lookup_mem {t : Table} {k : Key} {c : List Label} (h : lookup t k = .ok c) : ∃ e ∈ t, e.1 = k := by
  unfold lookup at h
  cases hf : t.find? (fun e => e.1 == k) with
  | none => simp [hf] at h
  | some e =>
    refine ⟨e, List.mem_of_find?_eq_some hf, ?_⟩
    have := List.find?_some hf
    simpa using this

/-- a key of the Molden / Molekel tables: `l ≤ 5`, Cartesian or pure, s and p shells Cartesian -/
def keyOK (k : Key) : Bool := decide (k.1 ≤ 5) && (k.2 == 'c' || k.2 == 'p') && (decide (2 ≤ k.1) || k.2 == 'c')

/-- a header-table entry is right when, for each of d, f, g, h present, the reader's pure set
contains that angular momentum exactly when the kind is pure -/
def hdrEntryOK (e : List (Option Char) × Option (List Tag)) : Bool :=
  match e.2 with
  | none => true
  | some tags =>
    (List.range 4).all fun i =>
      match e.1.getD i none with
      | none => true
      | some k => (k == 'p') == (pureOf tags).contains (i + 2)

theorem pureOf_range (tags : List Tag) : ∀ l ∈ pureOf tags, 2 ≤ l ∧ l ≤ 5 := by
  intro l hl
  simp only [pureOf, List.mem_flatMap] at hl
  obtain ⟨t, _, ht⟩ := hl
  cases t <;> simp [Tag.pure] at ht <;> omega

theorem hdrLookup_mem {tab : HdrTable} {k : List (Option Char)} {tags : List Tag}
    (h : hdrLookup tab k = some tags) : (k, some tags) ∈ tab := by
  unfold hdrLookup at h
  cases hf : tab.find? (fun e => e.1 == k) with
  | none => simp [hf] at h
  | some e =>
    simp only [hf] at h
    have h1 := List.mem_of_find?_eq_some hf
    have h2 := List.find?_some hf
    have : e = (k, some tags) := by
      cases e; simp_all
    rw [← this]; exact h1

/-- the kinds are what the tags say, from a correct header table and keys of the Molden table -/
theorem kinds_of_header (tab : HdrTable) (htab : tab.all hdrEntryOK = true) (shells : List Shell)
    (hmix : mixed shells = false) (tags : List Tag) (hh : hdrLookup tab (hdrKey shells) = some tags)
    (hkeys : ∀ s ∈ shells, keyOK s.key = true) :
    ∀ s ∈ shells, s.kind = if s.l ∈ pureOf tags then 'p' else 'c' := by
  intro s hs
  have hk := hkeys s hs
  have hl5 : s.l ≤ 5 := by simp [keyOK, Shell.key] at hk; exact of_decide_eq_true hk.1.1
  have hcp : s.kind = 'c' ∨ s.kind = 'p' := by simp [keyOK, Shell.key] at hk; exact hk.1.2
  have h2 : 2 ≤ s.l ∨ s.kind = 'c' := by simp [keyOK, Shell.key] at hk; exact hk.2.imp of_decide_eq_true id
  have hent := List.all_eq_true.mp htab _ (hdrLookup_mem hh)
  simp only [hdrEntryOK, List.all_eq_true, List.mem_range] at hent
  by_cases hl2 : 2 ≤ s.l
  · have hi := hent (s.l - 2) (by omega)
    have hget : (hdrKey shells).getD (s.l - 2) none = some s.kind := by
      have hk := not_mixed hmix s hs
      have : s.l = 2 ∨ s.l = 3 ∨ s.l = 4 ∨ s.l = 5 := by omega
      rcases this with h | h | h | h <;> simp [hdrKey, h, ← hk]
    rw [hget] at hi
    have e : s.l - 2 + 2 = s.l := by omega
    simp only [e] at hi
    by_cases hp : s.l ∈ pureOf tags
    · simp only [hp, if_true]
      have : (pureOf tags).contains s.l = true := by simpa using hp
      rw [this] at hi
      simpa using hi
    · simp only [hp, if_false]
      have : (pureOf tags).contains s.l = false := by simpa using hp
      rw [this] at hi
      have : s.kind ≠ 'p' := by simpa using hi
      rcases hcp with h | h
      · exact h
      · exact absurd h this
  · have hc : s.kind = 'c' := by
      rcases h2 with h | h
      · exact absurd h hl2
      · exact h
    have : s.l ∉ pureOf tags := fun hm => hl2 (pureOf_range tags _ hm).1
    simp [this, hc]

theorem molden_roundtrip (tab : HdrTable) (t1 tM : Table) (shells : List Shell) (coeffs : List Int)
    (f : MoldenFile) (hw : moldenWrite tab t1 tM shells coeffs = some f)
    (hkind : ∀ s ∈ shells, s.kind = if s.l ∈ pureOf f.tags then 'p' else 'c') :
    ∃ co, moldenLoad (cvOf tM) f = some (sortByCenter shells, co) ∧
      ∀ κ, den (cvOf tM) (sortByCenter shells) co κ = den (cvOf t1) shells coeffs κ := by
  unfold moldenWrite at hw
  split at hw
  · cases hw
  · cases hh : hdrLookup tab (hdrKey shells) with
    | none => simp [hh] at hw
    | some tags =>
      simp only [hh, convertGlobal] at hw
      cases hb : convBasis t1 tM (keysOf shells) false with
      | error e => simp [hb] at hw
      | ok r =>
        simp only [hb, Option.some.injEq] at hw
        obtain ⟨hc, _, _, happ⟩ := convBasis_apply t1 tM shells r hb
        rw [happ coeffs] at hw
        subst hw
        simp only at hkind
        have hgood := good_sort (cvOf tM) _ (good_blocks_convert (cvOf t1) (cvOf tM) shells coeffs)
        have hfst : (sortPairs (blocks (cvOf tM) shells (convert (cvOf t1) (cvOf tM) shells coeffs))).map (·.1)
            = sortByCenter shells := by
          rw [map_fst_sortPairs, map_fst_blocks]
        refine ⟨(sortPairs (blocks (cvOf tM) shells (convert (cvOf t1) (cvOf tM) shells coeffs))).flatMap (·.2), ?_, ?_⟩
        · unfold moldenLoad
          simp only
          rw [hfst, gtoShells_gtoBlocks _ _ (fun s hs => hkind s (mem_sortByCenter s shells hs))]
          have := length_pairs (cvOf tM) _ hgood
          rw [hfst] at this
          simp [this]
        · intro κ
          have h1 := den_of_pairs (cvOf tM) _ hgood κ
          rw [hfst] at h1
          rw [h1, denPairs_sort, ← den_eq_denPairs, den_convert_aux (cvOf t1) (cvOf tM) shells hc]

/-! ### Molekel `$BASIS` -/

/-- centres ascending, starting at or after `last` -/
def ascFrom : Nat → List Shell → Prop
  | _, [] => True
  | last, s :: ss => last ≤ s.center ∧ ascFrom s.center ss

theorem mklRead_seps (cvM : Cv) (k : Nat) : ∀ (c : Nat) (rest : List MklItem),
    mklReadFrom cvM c (List.replicate k .sep ++ rest) = mklReadFrom cvM (c + k) rest := by
  induction k with
  | zero => intro c rest; simp
  | succ k ih =>
    intro c rest
    simp only [List.replicate_succ, List.cons_append, mklReadFrom]
    rw [ih]; congr 1; omega

/-- the reader's `$$` count gives every shell its centre back -/
theorem mklRead_items (cvM : Cv) : ∀ (ss : List Shell) (last : Nat), ascFrom last ss →
    (∀ s ∈ ss, mklKind cvM s.l (cvM s.key).length = some s.kind) →
    mklReadFrom cvM last (mklItemsFrom cvM last ss) = some ss
  | [], _, _, _ => by simp [mklItemsFrom, mklReadFrom]
  | s :: ss, last, hasc, hk => by
    obtain ⟨h1, h2⟩ := hasc
    simp only [mklItemsFrom]
    rw [mklRead_seps]
    have e : last + (s.center - last) = s.center := by omega
    simp only [e, mklReadFrom, hk s (by simp)]
    rw [mklRead_items cvM ss s.center h2 (fun t ht => hk t (by simp [ht]))]

theorem insert_ge (s : Shell) (n : Nat) : ∀ (ts : List Shell), (∀ t ∈ ts, n ≤ t.center) → n ≤ s.center →
    ∀ t ∈ insertByCenter s ts, n ≤ t.center := by
  intro ts h hs t ht
  rcases mem_sortByCenter_insert s t ts ht with rfl | h'
  · exact hs
  · exact h t h'

theorem asc_insert (s : Shell) : ∀ (ts : List Shell) (last : Nat), ascFrom last ts → last ≤ s.center →
    ascFrom last (insertByCenter s ts)
  | [], last, _, hs => by simp [insertByCenter, ascFrom, hs]
  | t :: ts, last, h, hs => by
    obtain ⟨h1, h2⟩ := h
    simp only [insertByCenter]
    split
    · rename_i hle
      exact ⟨hs, hle, h2⟩
    · rename_i hle
      exact ⟨h1, asc_insert s ts t.center h2 (by omega)⟩

theorem asc_sort : ∀ (ss : List Shell), ascFrom 0 (sortByCenter ss)
  | [] => trivial
  | s :: ss => asc_insert s _ 0 (asc_sort ss) (Nat.zero_le _)

theorem nfun_insert (cv : Cv) (s : Shell) : ∀ (ts : List Shell),
    nfun cv (insertByCenter s ts) = (cv s.key).length + nfun cv ts
  | [] => by simp [insertByCenter, nfun]
  | t :: ts => by
    simp only [insertByCenter]
    split
    · simp [nfun]
    · have := nfun_insert cv s ts
      simp only [nfun, List.map_cons, List.sum_cons] at this ⊢
      rw [this]; omega

theorem nfun_sort (cv : Cv) : ∀ (ss : List Shell), nfun cv (sortByCenter ss) = nfun cv ss
  | [] => rfl
  | s :: ss => by
    simp only [sortByCenter, nfun_insert, nfun_sort cv ss]
    simp [nfun]

/-! ### 5-column blocks -/

theorem cols_of_rows (n : Nat) (ch : List (List Int)) (h : ∀ c ∈ ch, c.length = n) :
    ((List.range ch.length).map fun ic => (rowsOfCols n ch).map fun row => row.getD ic 0) = ch := by
  apply List.ext_getElem
  · simp
  · intro ic h1 h2
    have hic : ic < ch.length := by simpa using h1
    have hlen := h ch[ic] (List.getElem_mem hic)
    simp only [List.getElem_map, List.getElem_range, rowsOfCols, List.map_map]
    apply List.ext_getElem
    · simp [hlen]
    · intro i h3 h4
      have hi : i < n := by simpa using h3
      simp [List.getD_eq_getElem?_getD, List.getElem?_eq_getElem hic, List.getElem?_eq_getElem (hlen ▸ hi)]

theorem mklRead_blocks (n : Nat) : ∀ (f : Nat) (cols : List (List Int)), cols.length ≤ f →
    (∀ c ∈ cols, c.length = n) →
    mklReadCoeffs n ((chunksF 5 f cols).map fun ch => (ch.length, rowsOfCols n ch)) = some cols
  | 0, cols, hf, _ => by
    have : cols = [] := List.eq_nil_of_length_eq_zero (by omega)
    subst this; simp [chunksF, mklReadCoeffs]
  | f + 1, cols, hf, h => by
    simp only [chunksF]
    split
    · rename_i he
      have : cols = [] := by simpa using he
      subst this; simp [mklReadCoeffs]
    · rename_i he
      have hne : cols ≠ [] := by simpa using he
      have hpos : 0 < cols.length := List.length_pos_iff.mpr hne
      have ih := mklRead_blocks n f (cols.drop 5) (by simp; omega)
        (fun c hc => h c (List.mem_of_mem_drop hc))
      simp only [List.map_cons, mklReadCoeffs, ih]
      have hrows : (rowsOfCols n (cols.take 5)).length = n := by simp [rowsOfCols]
      have hall : (rowsOfCols n (cols.take 5)).all (fun row => row.length == (cols.take 5).length) = true := by
        simp [rowsOfCols]
      rw [cols_of_rows n (cols.take 5) (fun c hc => h c (List.mem_of_mem_take hc))]
      have hall' : ∀ x ∈ rowsOfCols n (cols.take 5), x.length = min 5 cols.length := by
        intro x hx
        simp only [rowsOfCols, List.mem_map] at hx
        obtain ⟨i, _, rfl⟩ := hx
        simp
      simp [hrows]
      exact hall'

theorem mklRead_coeffBlocks (n : Nat) (cols : List (List Int)) (h : ∀ c ∈ cols, c.length = n) :
    mklReadCoeffs n (mklCoeffBlocks n cols) = some cols := by
  unfold mklCoeffBlocks chunks
  exact mklRead_blocks n cols.length cols (Nat.le_refl _) h

/-! ### lower triangles -/

/-- the rows of the lower triangle: row `i + k` of the list keeps its first `i + k + 1` entries -/
def lowerFrom (i : Nat) : List (List Int) → List (List Int)
  | [] => []
  | row :: rest => row.take (i + 1) :: lowerFrom (i + 1) rest

theorem untril_tril : ∀ (M : List (List Int)) (i f : Nat), (∀ row ∈ M, i + M.length ≤ row.length) →
    (trilFrom i M).length ≤ f →
    untrilFrom i f (trilFrom i M) = lowerFrom i M
  | [], i, f, _, _ => by
    cases f <;> simp [trilFrom, untrilFrom, lowerFrom]
  | row :: rest, i, f, h, hf => by
    have hrow : i + (rest.length + 1) ≤ row.length := by simpa using h row (by simp)
    have hlen : (row.take (i + 1)).length = i + 1 := by rw [List.length_take]; omega
    simp only [trilFrom, List.length_append, hlen] at hf
    cases f with
    | zero => omega
    | succ f =>
      simp only [trilFrom, untrilFrom, lowerFrom]
      have hne : (row.take (i + 1) ++ trilFrom (i + 1) rest).isEmpty = false := by
        cases hr : row.take (i + 1) with
        | nil => simp [hr] at hlen
        | cons a b => simp
      simp only [hne, Bool.false_eq_true, if_false]
      rw [List.take_left' hlen, List.drop_left' hlen]
      rw [untril_tril rest (i + 1) f (fun r hr => by
        have := h r (by simp [hr]); simp at this; omega) (by omega)]

theorem lowerFrom_length : ∀ (M : List (List Int)) (i : Nat), (lowerFrom i M).length = M.length
  | [], _ => rfl
  | _ :: rest, i => by simp [lowerFrom, lowerFrom_length rest]

theorem lowerFrom_getD : ∀ (M : List (List Int)) (i k : Nat), k < M.length →
    (lowerFrom i M).getD k [] = (M.getD k []).take (i + k + 1)
  | [], _, k, h => by simp at h
  | row :: rest, i, 0, _ => by simp [lowerFrom]
  | row :: rest, i, k + 1, h => by
    have := lowerFrom_getD rest (i + 1) k (by simpa using h)
    simp only [lowerFrom, List.getD_cons_succ] at this ⊢
    rw [this]; congr 1; omega

/-- symmetric `n × n` -/
def Symm (M : List (List Int)) : Prop :=
  ∀ i j, (M.getD i []).getD j 0 = (M.getD j []).getD i 0

/-- `_triangle_to_dense` undoes `arr[np.tril_indices(n)]` on symmetric square matrices -/
theorem dense_tril (M : List (List Int)) (n : Nat) (hM : Square M n) (hs : Symm M) :
    triangleToDense (tril M) = M := by
  unfold triangleToDense tril
  rw [untril_tril M 0 _ (fun row hr => by rw [hM.2 row hr, hM.1]; omega) (Nat.le_refl _)]
  unfold dense
  rw [lowerFrom_length, hM.1]
  apply List.ext_getElem
  · simp [hM.1]
  · intro i h1 h2
    have hi : i < n := by simpa using h1
    have hiM : i < M.length := hM.1 ▸ hi
    simp only [List.getElem_map, List.getElem_range]
    have hrow : M[i].length = n := hM.2 _ (List.getElem_mem hiM)
    apply List.ext_getElem
    · simp [hrow]
    · intro j h3 h4
      have hj : j < n := by simpa using h3
      have hjM : j < M.length := hM.1 ▸ hj
      simp only [List.getElem_map, List.getElem_range]
      have e : M[i][j] = (M.getD i []).getD j 0 := by
        simp [List.getD_eq_getElem?_getD, List.getElem?_eq_getElem hiM, List.getElem?_eq_getElem (hrow ▸ hj)]
      rw [e]
      split
      · rename_i hji
        rw [lowerFrom_getD M 0 i hiM]
        simp only [List.getD_eq_getElem?_getD, List.getElem?_take]
        have : j < i + 1 := by omega
        simp [this]
      · rename_i hji
        rw [lowerFrom_getD M 0 j hjM]
        simp only [List.getD_eq_getElem?_getD, List.getElem?_take]
        have : i < 0 + j + 1 := by omega
        simp only [this, if_true]
        have := hs j i
        simp only [List.getD_eq_getElem?_getD] at this
        exact this

theorem convMatrix_square (r : List (Nat × Int)) (D : List (List Int)) : Square (convMatrix r D) r.length := by
  constructor
  · simp [convMatrix]
  · intro row hrow
    simp only [convMatrix, List.mem_map] at hrow
    obtain ⟨p, _, rfl⟩ := hrow
    simp

theorem convMatrix_symm (r : List (Nat × Int)) (D : List (List Int)) (hs : Symm D) : Symm (convMatrix r D) := by
  intro i j
  simp only [convMatrix, List.getD_eq_getElem?_getD, List.getElem?_map]
  cases hi : r[i]? with
  | none =>
    cases hj : r[j]? with
    | none => simp
    | some q => simp [hi]
  | some p =>
    cases hj : r[j]? with
    | none => simp [hj]
    | some q =>
      simp only [Option.map_some, Option.getD_some, List.getElem?_map, hi, hj]
      have := hs p.1 q.1
      simp only [List.getD_eq_getElem?_getD] at this
      rw [this, Int.mul_comm p.2 q.2]

/-! ### FCHK -/

theorem chunks_flatten (n : Nat) (hn : 0 < n) : ∀ (cols : List (List Int)) (f : Nat), cols.length ≤ f →
    (∀ c ∈ cols, c.length = n) → chunksF n f cols.flatten = cols
  | [], f, _, _ => by cases f <;> simp [chunksF]
  | c :: cs, 0, hf, _ => by simp at hf
  | c :: cs, f + 1, hf, h => by
    have hc := h c (by simp)
    have hne : (c ++ cs.flatten).isEmpty = false := by
      cases c with
      | nil => simp at hc; omega
      | cons a b => simp
    simp only [List.flatten_cons, chunksF, hne, Bool.false_eq_true, if_false]
    rw [List.take_left' hc, List.drop_left' hc,
      chunks_flatten n hn cs f (by simpa using hf) (fun d hd => h d (by simp [hd]))]

theorem fchkRead_coeffs (n : Nat) (hn : 0 < n) (cols : List (List Int)) (h : ∀ c ∈ cols, c.length = n) :
    fchkReadCoeffs n (fchkCoeffs cols) = cols := by
  unfold fchkReadCoeffs fchkCoeffs chunks
  apply chunks_flatten n hn cols _ _ h
  rw [List.length_flatten]
  have : ∀ (cs : List (List Int)), (∀ c ∈ cs, c.length = n) → cs.length ≤ (cs.map List.length).sum := by
    intro cs
    induction cs with
    | nil => intro _; simp
    | cons c cs ih =>
      intro hh
      have := hh c (by simp)
      have := ih (fun d hd => hh d (by simp [hd]))
      simp; omega
  exact this cols h

/-- a shell FCHK can express: one Cartesian contraction, one pure contraction with `l ≥ 2`, or SP -/
def FchkOK (g : GShell) : Prop :=
  (∃ l, g.cons = [(l, 'c')] ∧ ∀ p ∈ g.prims, ∃ a, p.2 = [a]) ∨
  (∃ l, 2 ≤ l ∧ g.cons = [(l, 'p')] ∧ ∀ p ∈ g.prims, ∃ a, p.2 = [a]) ∨
  (g.cons = [(0, 'c'), (1, 'c')] ∧ ∀ p ∈ g.prims, ∃ a b, p.2 = [a, b])

def tyOf (g : GShell) : Int := (fchkType g).getD 0

theorem fchkType_ok {g : GShell} (h : FchkOK g) : fchkType g = some (tyOf g) := by
  unfold tyOf
  rcases h with ⟨l, hc, _⟩ | ⟨l, _, hc, _⟩ | ⟨hc, _⟩ <;> simp [fchkType, hc]

theorem allSome_types : ∀ (gs : List GShell), (∀ g ∈ gs, FchkOK g) → allSome (gs.map fchkType) = some (gs.map tyOf)
  | [], _ => rfl
  | g :: gs, h => by
    simp only [List.map_cons, fchkType_ok (h g (by simp)), allSome,
      allSome_types gs (fun k hk => h k (by simp [hk]))]
    rfl

theorem map_zip_prims1 (prims : List (Nat × List Int)) (h : ∀ p ∈ prims, ∃ a, p.2 = [a]) :
    ((prims.map (·.1)).zip (prims.map fun p => p.2.getD 0 0)).map (fun p => (p.1, [p.2])) = prims := by
  induction prims with
  | nil => rfl
  | cons p ps ih =>
    obtain ⟨a, ha⟩ := h p (by simp)
    simp only [List.map_cons, List.zip_cons_cons, ih (fun q hq => h q (by simp [hq]))]
    cases p; simp_all

theorem map_zip_prims2 (prims : List (Nat × List Int)) (h : ∀ p ∈ prims, ∃ a b, p.2 = [a, b]) :
    ((prims.map (·.1)).zip ((prims.map fun p => p.2.getD 0 0).zip (prims.map fun p => p.2.getD 1 0))).map
      (fun p => (p.1, [p.2.1, p.2.2])) = prims := by
  induction prims with
  | nil => rfl
  | cons p ps ih =>
    obtain ⟨a, b, ha⟩ := h p (by simp)
    simp only [List.map_cons, List.zip_cons_cons, ih (fun q hq => h q (by simp [hq]))]
    cases p; simp_all

/-- one shell read back from arrays that start with its own entries -/
theorem fchkShell_ok (g : GShell) (h : FchkOK g) (E : List Nat) (C1 C2 : List Int)
    (hc2 : tyOf g = -1 → ∃ C2', C2 = (g.prims.map fun p => p.2.getD 1 0) ++ C2') :
    fchkShell (tyOf g) (g.center + 1) g.prims.length (g.prims.map (·.1) ++ E)
      ((g.prims.map fun p => p.2.getD 0 0) ++ C1) C2 = g := by
  have l1 : (g.prims.map (·.1)).length = g.prims.length := by simp
  have l2 : (g.prims.map fun p => p.2.getD 0 0).length = g.prims.length := by simp
  rcases h with ⟨l, hc, hp⟩ | ⟨l, hl, hc, hp⟩ | ⟨hc, hp⟩
  · have ht : tyOf g = (l : Int) := by simp [tyOf, fchkType, hc]
    have hne : ¬ ((l : Int) = -1) := by omega
    have hlt : ¬ ((l : Int) < 0) := by omega
    unfold fchkShell
    rw [ht]
    simp only [hne, if_false, hlt, List.take_left' l1, List.take_left' l2, map_zip_prims1 _ hp]
    cases g; simp_all
  · have ht : tyOf g = -(l : Int) := by simp [tyOf, fchkType, hc]
    have hne : ¬ (-(l : Int) = -1) := by omega
    have hlt : (-(l : Int) < 0) := by omega
    unfold fchkShell
    rw [ht]
    simp only [hne, if_false, hlt, if_true, List.take_left' l1, List.take_left' l2, map_zip_prims1 _ hp]
    cases g; simp_all
  · have ht : tyOf g = -1 := by simp [tyOf, fchkType, hc]
    obtain ⟨C2', rfl⟩ := hc2 ht
    have l3 : (g.prims.map fun p => p.2.getD 1 0).length = g.prims.length := by simp
    unfold fchkShell
    rw [ht]
    simp only [if_true, List.take_left' l1, List.take_left' l2, List.take_left' l3, map_zip_prims2 _ hp]
    cases g; simp_all

/-- the invariant on the `P(S=P)` array while the reader advances: either it is the writer's array
for the remaining shells, or it is absent and no remaining shell is SP -/
def C2Inv (gs : List GShell) (C2 : List Int) : Prop :=
  C2 = fchkC2 gs ∨ (C2 = [] ∧ ∀ g ∈ gs, tyOf g ≠ -1)

theorem fchkReadL_ok : ∀ (gs : List GShell) (C2 : List Int), (∀ g ∈ gs, FchkOK g) → C2Inv gs C2 →
    fchkReadL (gs.map tyOf) (gs.map (·.center + 1)) (gs.map (·.prims.length))
      (gs.flatMap fun g => g.prims.map (·.1)) (gs.flatMap fun g => g.prims.map fun p => p.2.getD 0 0) C2 = gs
  | [], _, _, _ => by simp [fchkReadL]
  | g :: gs, C2, h, hinv => by
    have hg := h g (by simp)
    simp only [List.map_cons, List.flatMap_cons, fchkReadL]
    have l1 : (g.prims.map (·.1)).length = g.prims.length := by simp
    have l2 : (g.prims.map fun p => p.2.getD 0 0).length = g.prims.length := by simp
    have hty := fchkType_ok hg
    have hc2 : tyOf g = -1 → ∃ C2', C2 = (g.prims.map fun p => p.2.getD 1 0) ++ C2' := by
      intro ht
      rcases hinv with rfl | ⟨_, hno⟩
      · refine ⟨fchkC2 gs, ?_⟩
        simp [fchkC2, hty, ht]
      · exact absurd ht (hno g (by simp))
    have hinv' : C2Inv gs (C2.drop g.prims.length) := by
      rcases hinv with rfl | ⟨rfl, hno⟩
      · left
        simp only [fchkC2, List.flatMap_cons]
        have : (if fchkType g = some (-1) then g.prims.map fun p => p.2.getD 1 0
            else List.replicate g.prims.length 0).length = g.prims.length := by
          split <;> simp
        rw [List.drop_left' this]
      · right
        exact ⟨by simp, fun k hk => hno k (by simp [hk])⟩
    rw [fchkShell_ok g hg _ _ C2 hc2, List.drop_left' l1, List.drop_left' l2,
      fchkReadL_ok gs _ (fun k hk => h k (by simp [hk])) hinv']

/-- FCHK basis section round trip: the reader returns exactly the shells that were written -/
theorem fchkRead_write (gs : List GShell) (h : ∀ g ∈ gs, FchkOK g) :
    ∃ b, fchkWriteBasis gs = some b ∧ fchkReadBasis b = gs := by
  unfold fchkWriteBasis
  rw [allSome_types gs h]
  refine ⟨_, rfl, ?_⟩
  unfold fchkReadBasis
  simp only
  apply fchkReadL_ok gs _ h
  by_cases hc : (gs.map tyOf).contains (-1) = true
  · left; rw [if_pos hc]; rfl
  · right
    rw [if_neg hc]
    refine ⟨rfl, ?_⟩
    intro g hg ht
    apply hc
    simp only [List.contains_iff_mem, List.mem_map]
    exact ⟨g, hg, ht⟩

end Iodata.Wf
